(* C01, the safety half, unconditionally: "no other module receives it", "at most once, unchanged", "an invalid
   destination is delivered to nobody" - for ANY state satisfying the registry invariant, any nesting budget,
   whoever is unwritable, whatever sends fail, however deep the nested removals and notices go, Ok or Crash.

   A published header h (one the manager does not originate itself: h_extra h <> 0, whereas every header the
   manager originates is a mgr_hdr, whose h_extra is 0) is written only as `set_count h n`, only to a member of
   the recipient snapshot that passes the destination filter, at most once per connection, and a payload that
   directly follows such a header on the wire is the published payload on the same connection. *)
From Coq Require Import ZArith List Bool Lia ZifyBool.
From Mgr Require Import Gen.MgrDefs Model.Manager Proofs.ListLemmas Proofs.Hoare Proofs.RegInv Proofs.Frame
                        Proofs.RegTraverse Proofs.RegTop Proofs.StepInv Proofs.Routing Proofs.OutInv Proofs.C05Inv
                        Proofs.Exact Proofs.ExactTop Proofs.FailExact.
Import ListNotations.
Open Scope Z_scope.

(* ---------- what is read off the appended output ---------- *)

(* a header the manager did not originate *)
Definition isc (h' : hdr) : bool := negb (h_extra h' =? 0).

(* the non-manager headers written, with the connection they were written to *)
Definition cl (l : list (Z * item)) : list (Z * hdr) :=
  flat_map (fun ci => match ci with (c, OHdr h') => if isc h' then [(c, h')] else [] | (_, OPay _) => [] end) l.

Lemma cl_app a b : cl (a ++ b) = cl a ++ cl b.
Proof. unfold cl. apply flat_map_app. Qed.

(* the payload that directly follows a non-manager header is p, on the same connection *)
Fixpoint okseq (p : payload) (pend : option Z) (l : list (Z * item)) : Prop :=
  match l with
  | [] => True
  | (c, OHdr h') :: r => okseq p (if isc h' then Some c else None) r
  | (c, OPay q) :: r => match pend with Some c0 => c = c0 /\ q = p | None => True end /\ okseq p None r
  end.
Fixpoint lastp (pend : option Z) (l : list (Z * item)) : option Z :=
  match l with
  | [] => pend
  | (c, OHdr h') :: r => lastp (if isc h' then Some c else None) r
  | (_, OPay _) :: r => lastp None r
  end.

Lemma okseq_app p : forall a b pend, okseq p pend (a ++ b) <-> okseq p pend a /\ okseq p (lastp pend a) b.
Proof.
  induction a as [|[c [h'|q]] r IH]; intros b pend; cbn [app okseq lastp].
  - tauto.
  - apply IH.
  - rewrite IH. tauto.
Qed.

(* ---------- what one Module.send_message appends ---------- *)

Lemma mod_send_trace c h0 q s :
  match mod_send c h0 q s with
  | Ok r s' => snd r = set_count h0 (cnt s c + 1) /\
               (out s' = out s \/ out s' = out s ++ [(c, OHdr (set_count h0 (cnt s c + 1)))] \/
                out s' = out s ++ [(c, OHdr (set_count h0 (cnt s c + 1))); (c, OPay q)])
  | Crash _ _ => False
  end.
Proof.
  rewrite mod_send_eq. cbv zeta. fold (cnt s c).
  set (h0' := set_count h0 (cnt s c + 1)). set (s1 := with_mods s (upd_mod c (fun m => mm_count m (cnt s c + 1)) (mods s))).
  destruct (sendall_cases c (OHdr h0') s1) as [[_ E]|[(_ & _ & E)|(_ & f' & E & _)]]; rewrite E.
  - split; [reflexivity|left; reflexivity].
  - split; [reflexivity|left; reflexivity].
  - set (s2 := with_out s1 (out s1 ++ [(c, OHdr h0')]) f').
    destruct (sendall_cases c (OPay q) s2) as [[_ E2]|[(_ & _ & E2)|(_ & f2 & E2 & _)]]; rewrite E2.
    + split; [reflexivity|right; left; reflexivity].
    + split; [reflexivity|right; left; reflexivity].
    + split; [reflexivity|right; right]. cbn [out with_out]. unfold s2. cbn [out with_out]. rewrite <- app_assoc. reflexivity.
Qed.

(* ---------- a traversal of everything forward_message re-enters, for an arbitrary invariant I of the output
   that is preserved by sending a manager-originated message ---------- *)
Section Nest.
Variable cfg : config.
Variable I : mstate -> Prop.
Hypothesis Iout : forall s s', out s' = out s -> I s -> I s'.
Hypothesis Isend : forall c hm pm, h_extra hm = 0 ->
  hoare I (mod_send c hm pm) (fun r s => I s /\ h_extra (snd r) = 0) (fun _ => I).

Lemma n_getk {A} (k : mstate -> M A) : (forall s0, pres I (k s0)) -> pres I (bind get k).
Proof. intros H s Hs. unfold bind, get. apply H; auto. Qed.

Lemma n_modify f : (forall s, out (f s) = out s) -> pres I (modify f).
Proof. intros H. apply pres_modify. intros s Hs. eapply Iout; eauto. Qed.

Lemma n_set_mod c f : pres I (set_mod c f).
Proof. unfold set_mod. apply n_modify. reflexivity. Qed.

Definition presM (m : M hdr) : Prop := hoare I m (fun hh s => I s /\ h_extra hh = 0) (fun _ => I).

Lemma presM_bind {B} (m : M hdr) (k : hdr -> M B) : presM m -> (forall hh, h_extra hh = 0 -> pres I (k hh)) -> pres I (bind m k).
Proof.
  intros Hm Hk s Hs. unfold bind. specialize (Hm s Hs). destruct (m s) as [hh s'|e s']; [|exact Hm].
  destruct Hm as [Hi Hg]. exact (Hk hh Hg s' Hi).
Qed.
Lemma presM_ret hh : h_extra hh = 0 -> presM (ret hh).
Proof. intros Hg s Hs. simpl. auto. Qed.
Lemma presM_seq {A} (m : M A) (k : M hdr) : pres I m -> presM k -> presM (bind m (fun _ => k)).
Proof.
  intros Hm Hk s Hs. unfold bind. specialize (Hm s Hs). destruct (m s) as [a s'|e s']; [|exact Hm]. exact (Hk s' Hm).
Qed.
Lemma presM_getk (k : mstate -> M hdr) : (forall s0, presM (k s0)) -> presM (bind get k).
Proof. intros H s Hs. unfold bind, get. apply H; auto. Qed.
Lemma presM_crash e : presM (@crash hdr e).
Proof. intros s Hs. exact Hs. Qed.

Section WithRec.
Variable rec : hdr -> payload -> M unit.
Hypothesis Hrec : forall hm pm, h_extra hm = 0 -> pres I (rec hm pm).

Lemma n_mlog lvl : pres I (mlog_with cfg rec lvl).
Proof.
  intros s Hs. unfold mlog_with. destruct ((loglevel cfg <=? lvl) && rtma_log s); [|exact Hs].
  pose proof (Hrec (mgr_hdr (log_type lvl) SZ_RTMA_LOG 0) (PLog lvl) eq_refl s Hs) as H.
  destruct (rec (mgr_hdr (log_type lvl) SZ_RTMA_LOG 0) (PLog lvl) s) as [u s'|e s']; [exact H|].
  destruct e; try exact H; (eapply Iout; [|exact H]; reflexivity).
Qed.

Lemma n_send_mgr t sz pl : pres I (send_mgr_with rec t sz pl).
Proof. apply Hrec. reflexivity. Qed.

Lemma n_send_failed c hh : pres I (send_failed_with rec c hh).
Proof. unfold send_failed_with. destruct (zmem _ _); [apply pres_ret|]. apply n_getk. intros s0. apply n_send_mgr. Qed.

Lemma n_remove_module c : pres I (remove_module_with cfg rec c).
Proof.
  unfold remove_module_with. apply n_getk. intros s0.
  destruct (negb (m_reg (find_mod c (mods s0)))); [apply pres_ret|].
  apply pres_bind; [apply n_modify; reflexivity|]. intros _. apply pres_bind; [apply n_modify; reflexivity|]. intros _.
  apply pres_bind; [apply n_set_mod|]. intros _. apply pres_bind; [apply n_mlog|]. intros _.
  apply n_getk. intros s1. apply pres_bind; [apply n_send_mgr|]. intros _.
  apply n_getk. intros s2. destruct (m_reg _); [apply n_set_mod|apply pres_crash].
Qed.

Lemma n_on_conn_err c hh : pres I (on_conn_err_with cfg rec c hh).
Proof.
  unfold on_conn_err_with. apply pres_bind; [apply n_remove_module|]. intros _.
  apply pres_bind; [apply n_mlog|]. intros _. apply n_send_failed.
Qed.

Lemma n_send_checked c hh p : h_extra hh = 0 -> presM (send_checked_with cfg rec c hh p).
Proof.
  intros Hg s Hs. unfold send_checked_with. unfold bind at 1.
  pose proof (Isend c hh p Hg s Hs) as H1.
  destruct (mod_send c hh p s) as [[r h'] s1|e s1]; [|exact H1]. destruct H1 as [H1 Hg']. cbn [fst snd] in *.
  destruct r.
  - exact (presM_seq _ _ (n_set_mod c (fun m => mm_drops m 0)) (presM_ret h' Hg') s1 H1).
  - exact (presM_seq _ _ (n_on_conn_err c h') (presM_ret h' Hg') s1 H1).
  - exact (presM_seq _ _ (n_on_conn_err c h') (presM_ret h' Hg') s1 H1).
Qed.

Lemma n_deliver p hh c : h_extra hh = 0 -> presM (deliver_with cfg rec p hh c).
Proof.
  intros Hg. unfold deliver_with. apply presM_getk. intros s0.
  destruct (negb _); [apply presM_ret; exact Hg|]. destruct (zmem c (wl s0)).
  - destruct (dest_filter _ _ _); [apply n_send_checked; exact Hg|apply presM_ret; exact Hg].
  - destruct (m_logger _); [destruct (m_closed _); [apply presM_crash|apply n_send_checked; exact Hg]|].
    apply presM_seq; [apply n_set_mod|]. apply presM_seq; [apply n_send_failed|]. apply presM_ret; exact Hg.
Qed.

Lemma n_deliver_loop p : forall l hh, h_extra hh = 0 -> pres I (deliver_loop cfg rec p hh l).
Proof.
  induction l as [|c r IH]; intros hh Hg; cbn [deliver_loop]; [apply pres_ret|].
  apply presM_bind; [apply n_deliver; exact Hg|]. intros hh' Hg'. apply IH. exact Hg'.
Qed.

Lemma n_count_msg t : pres I (count_msg cfg t).
Proof. unfold count_msg. apply n_getk. intros s0. destruct (negb _); [apply n_modify; reflexivity|apply pres_ret]. Qed.

Lemma n_forward_body h p : h_extra h = 0 -> pres I (forward_body cfg rec h p).
Proof.
  intros Hg. unfold forward_body. apply pres_bind; [apply n_count_msg|]. intros _.
  destruct (bad_dest_mod _); [apply n_mlog|]. destruct (bad_dest_host _); [apply n_mlog|].
  apply n_getk. intros s0. apply n_deliver_loop. exact Hg.
Qed.

End WithRec.

Lemma n_forward : forall fuel h p, h_extra h = 0 -> pres I (forward cfg fuel h p).
Proof.
  induction fuel as [|k IH]; intros h p Hg; cbn [forward]; [apply pres_crash|]. apply n_forward_body; [exact IH|exact Hg].
Qed.

End Nest.

(* ---------- the invariant: the non-manager headers written so far are exactly L ---------- *)

Definition N (p : payload) (o0 : list (Z * item)) (L : list (Z * hdr)) (s : mstate) : Prop :=
  exists suf, out s = o0 ++ suf /\ cl suf = L /\ okseq p None suf.

Lemma N_out p o0 L s s' : out s' = out s -> N p o0 L s -> N p o0 L s'.
Proof. intros E (suf & Ho & Hc & Hk). exists suf. rewrite E. auto. Qed.

(* appending what a send of a manager-originated header wrote *)
Lemma N_items_mgr p o0 L s s' c hm q :
  h_extra hm = 0 -> N p o0 L s ->
  (out s' = out s \/ out s' = out s ++ [(c, OHdr hm)] \/ out s' = out s ++ [(c, OHdr hm); (c, OPay q)]) -> N p o0 L s'.
Proof.
  intros Hg (suf & Ho & Hc & Hk) Hcase. assert (Hi : isc hm = false) by (unfold isc; rewrite Hg; reflexivity).
  destruct Hcase as [E|[E|E]].
  - exists suf. rewrite E. auto.
  - exists (suf ++ [(c, OHdr hm)]). rewrite E, Ho, app_assoc. split; [reflexivity|]. split.
    + rewrite cl_app. cbn [cl flat_map]. rewrite Hi. cbn [app]. rewrite app_nil_r. exact Hc.
    + apply okseq_app. split; [exact Hk|]. cbn [okseq]. exact I.
  - exists (suf ++ [(c, OHdr hm); (c, OPay q)]). rewrite E, Ho, app_assoc. split; [reflexivity|]. split.
    + rewrite cl_app. cbn [cl flat_map]. rewrite Hi. cbn [app]. rewrite app_nil_r. exact Hc.
    + apply okseq_app. split; [exact Hk|]. cbn [okseq]. rewrite Hi. auto.
Qed.

(* appending what a send of the published message wrote *)
Lemma N_items_top p o0 L s s' c hc :
  isc hc = true -> N p o0 L s ->
  (out s' = out s \/ out s' = out s ++ [(c, OHdr hc)] \/ out s' = out s ++ [(c, OHdr hc); (c, OPay p)]) ->
  N p o0 L s' \/ N p o0 (L ++ [(c, hc)]) s'.
Proof.
  intros Hi (suf & Ho & Hc & Hk) Hcase. destruct Hcase as [E|[E|E]].
  - left. exists suf. rewrite E. auto.
  - right. exists (suf ++ [(c, OHdr hc)]). rewrite E, Ho, app_assoc. split; [reflexivity|]. split.
    + rewrite cl_app. cbn [cl flat_map]. rewrite Hi. cbn [app]. rewrite Hc. reflexivity.
    + apply okseq_app. split; [exact Hk|]. cbn [okseq]. exact I.
  - right. exists (suf ++ [(c, OHdr hc); (c, OPay p)]). rewrite E, Ho, app_assoc. split; [reflexivity|]. split.
    + rewrite cl_app. cbn [cl flat_map]. rewrite Hi. cbn [app]. rewrite Hc. reflexivity.
    + apply okseq_app. split; [exact Hk|]. cbn [okseq]. rewrite Hi. auto.
Qed.

Lemma N_send p o0 L c hm pm : h_extra hm = 0 ->
  hoare (N p o0 L) (mod_send c hm pm) (fun r s => N p o0 L s /\ h_extra (snd r) = 0) (fun _ => N p o0 L).
Proof.
  intros Hg s Hs. pose proof (mod_send_trace c hm pm s) as T.
  destruct (mod_send c hm pm s) as [r s'|e s']; [|destruct T]. destruct T as [Er Hcase].
  split; [|rewrite Er; exact Hg]. eapply N_items_mgr; [|exact Hs|exact Hcase]. exact Hg.
Qed.

(* ---------- the published message: one recipient, the loop, forward_message ---------- *)
Section Top.
Variable cfg : config.
Variable p : payload.
Variable X : list Z.
Variable h : hdr.
Hypothesis Hext : h_extra h <> 0.
Variable o0 : list (Z * item).
Variable sref : mstate.      (* the state in which the recipients are judged *)

Notation NL := (N p o0).

Definition hsame (hh : hdr) : Prop := forall n, set_count hh n = set_count h n.

Lemma hsame_refl : hsame h.
Proof. intros n. reflexivity. Qed.
Lemma hsame_count hh n : hsame hh -> hsame (set_count hh n).
Proof. intros H m. rewrite set_count_twice. apply H. Qed.
Lemma hsame_dst hh : hsame hh -> h_dst_mod hh = h_dst_mod h.
Proof. intros H. exact (f_equal h_dst_mod (H 0)). Qed.
Lemma isc_count n : isc (set_count h n) = true.
Proof. unfold isc. cbn [h_extra set_count]. apply negb_true_iff. lia. Qed.

Lemma nest_rec k L hm pm : h_extra hm = 0 -> pres (NL L) (forward cfg k hm pm).
Proof. exact (n_forward cfg (NL L) (N_out p o0 L) (N_send p o0 L) k hm pm). Qed.

Lemma nest_on_conn_err k L c hh : pres (NL L) (on_conn_err_with cfg (forward cfg k) c hh).
Proof. exact (n_on_conn_err cfg (NL L) (N_out p o0 L) (forward cfg k) (nest_rec k L) c hh). Qed.

Lemma nest_send_failed k L c hh : pres (NL L) (send_failed_with (forward cfg k) c hh).
Proof. exact (n_send_failed (NL L) (forward cfg k) (nest_rec k L) c hh). Qed.

Lemma nest_mlog k L lvl : pres (NL L) (mlog_with cfg (forward cfg k) lvl).
Proof. exact (n_mlog cfg (NL L) (N_out p o0 L) (forward cfg k) (nest_rec k L) lvl). Qed.

Lemma nest_remove_module k L c : pres (NL L) (remove_module_with cfg (forward cfg k) c).
Proof. exact (n_remove_module cfg (NL L) (N_out p o0 L) (forward cfg k) (nest_rec k L) c). Qed.

Lemma nest_set_mod L c f : pres (NL L) (set_mod c f).
Proof. exact (n_set_mod (NL L) (N_out p o0 L) c f). Qed.

(* the outcome of one visit: nothing of the message written, or one stamped copy to an eligible c *)
Definition Post (L : list (Z * hdr)) (si : mstate) (c : Z) (s' : mstate) : Prop :=
  NL L s' \/ exists n, eligible (h_dst_mod h) si c = true /\ NL (L ++ [(c, set_count h n)]) s'.

Lemma send_checked_top k L hh c si : hsame hh -> NL L si -> eligible (h_dst_mod h) si c = true ->
  match send_checked_with cfg (forward cfg k) c hh p si with
  | Ok hh' s' => hsame hh' /\ Post L si c s'
  | Crash _ s' => Post L si c s'
  end.
Proof.
  intros Hh HN El. unfold send_checked_with. unfold bind at 1. pose proof (mod_send_trace c hh p si) as T.
  destruct (mod_send c hh p si) as [[r h'] s1|e s1]; [|destruct T]. cbn [fst snd] in *. destruct T as [Er Hcase].
  rewrite (Hh (cnt si c + 1)) in Er. subst h'. set (n := cnt si c + 1) in *. rewrite (Hh n) in Hcase.
  assert (Hs' : hsame (set_count h n)) by (apply hsame_count, hsame_refl).
  assert (P1 : Post L si c s1).
  { destruct (N_items_top p o0 L si s1 c (set_count h n) (isc_count n) HN Hcase) as [A|A]; [left; exact A|right; exists n; auto]. }
  assert (K : forall (m : M unit), (forall L', pres (NL L') m) ->
              match (m ;;; ret (set_count h n)) s1 with Ok hh' s' => hsame hh' /\ Post L si c s' | Crash _ s' => Post L si c s' end).
  { intros m Hm. unfold bind. destruct P1 as [A|(n' & El' & A)].
    - pose proof (Hm L s1 A) as B. destruct (m s1) as [u s2|e s2]; cbn [ret]; [split; [exact Hs'|]|]; left; exact B.
    - pose proof (Hm _ s1 A) as B. destruct (m s1) as [u s2|e s2]; cbn [ret]; [split; [exact Hs'|]|]; right; exists n'; auto. }
  destruct r.
  - apply K. intros L'. apply nest_set_mod.
  - apply K. intros L'. apply nest_on_conn_err.
  - apply K. intros L'. apply nest_on_conn_err.
Qed.

Lemma deliver_top k L hh c si : hsame hh -> NL L si ->
  match deliver_with cfg (forward cfg k) p hh c si with
  | Ok hh' s' => hsame hh' /\ Post L si c s'
  | Crash _ s' => Post L si c s'
  end.
Proof.
  intros Hh HN. unfold deliver_with. unfold bind at 1. unfold get.
  destruct (m_reg (find_mod c (mods si))); cbn [negb]; [|cbn [ret]; split; [exact Hh|left; exact HN]].
  destruct (zmem c (wl si)).
  - destruct (dest_filter (h_dst_mod hh) (m_mod_id (find_mod c (mods si))) (m_logger (find_mod c (mods si)))) eqn:Edf.
    + apply send_checked_top; auto. unfold eligible. rewrite <- (hsame_dst hh Hh). exact Edf.
    + cbn [ret]. split; [exact Hh|left; exact HN].
  - destruct (m_logger (find_mod c (mods si))) eqn:Elg.
    + destruct (m_closed (find_mod c (mods si))); [left; exact HN|].
      apply send_checked_top; auto. unfold eligible, dest_filter. rewrite Elg. apply orb_true_r.
    + unfold bind at 1. unfold set_mod, modify.
      set (s1 := with_mods si (upd_mod c (fun m => mm_drops m (m_drops m + 1)) (mods si))).
      assert (HN1 : NL L s1) by (eapply N_out; [|exact HN]; reflexivity).
      unfold bind at 1. pose proof (nest_send_failed k L c hh s1 HN1) as Hm.
      destruct (send_failed_with (forward cfg k) c hh s1) as [u s2|e s2]; cbn [ret]; [split; [exact Hh|]|]; left; exact Hm.
Qed.

(* the headers of the message written so far went to eligible members of `done`, one each *)
Definition GoodL (done : list Z) (L : list (Z * hdr)) : Prop :=
  NoDup (map fst L) /\
  forall c h', In (c, h') L -> In c done /\ eligible (h_dst_mod h) sref c = true /\ exists n, h' = set_count h n.

Lemma GoodL_nil done : GoodL done [].
Proof. split; [constructor|intros c h' []]. Qed.

Lemma GoodL_mono d d' L : (forall c, In c d -> In c d') -> GoodL d L -> GoodL d' L.
Proof. intros H [A B]. split; [exact A|]. intros c h' Hin. destruct (B c h' Hin) as (B1 & B2 & B3). auto. Qed.

Lemma GoodL_step done L si c s' : Frame sref si -> ~ In c done -> GoodL done L -> Post L si c s' ->
  exists L1, NL L1 s' /\ GoodL (done ++ [c]) L1.
Proof.
  intros F Hnin G [A|(n & El & A)].
  - exists L. split; [exact A|]. eapply GoodL_mono; [|exact G]. intros x Hx. apply in_or_app. left. exact Hx.
  - exists (L ++ [(c, set_count h n)]). split; [exact A|]. destruct G as [G1 G2]. split.
    + rewrite map_app. cbn [map fst]. apply NoDup_snoc; [exact G1|]. intros Hin. apply in_map_iff in Hin.
      destruct Hin as ([c' h'] & E & Hin). cbn [fst] in E. subst c'. destruct (G2 c h' Hin) as (B1 & _). contradiction.
    + intros x h' Hin. apply in_app_or in Hin. destruct Hin as [Hin|[E|[]]].
      * destruct (G2 x h' Hin) as (B1 & B2 & B3). split; [apply in_or_app; left; exact B1|auto].
      * inversion E; subst x h'. split; [apply in_or_app; right; left; reflexivity|]. split; [|exists n; reflexivity].
        rewrite <- (Frame_eligible sref si (h_dst_mod h) c F). exact El.
Qed.

Lemma loop_top k : forall r hh si L done,
  hsame hh -> RegInvX X si -> Frame sref si -> NL L si -> GoodL done L -> NoDup r ->
  (forall c, In c r -> ~ In c done /\ ~ In c X) ->
  exists L', NL L' (st (deliver_loop cfg (forward cfg k) p hh r si)) /\ GoodL (done ++ r) L'.
Proof.
  induction r as [|c r IH]; intros hh si L done Hh H F HN G Hnd Hr.
  - exists L. cbn [deliver_loop ret st]. rewrite app_nil_r. auto.
  - apply NoDup_cons_iff in Hnd. destruct Hnd as [Hnin Hnd]. destruct (Hr c (or_introl eq_refl)) as [Hcd HcX].
    cbn [deliver_loop]. unfold bind at 1.
    pose proof (deliver_top k L hh c si Hh HN) as D.
    pose proof (J_deliver cfg (forward cfg k) (J_forward cfg k) X p hh c HcX si H) as HJ.
    assert (Hmono : forall x, In x (done ++ [c]) -> In x (done ++ c :: r)).
    { intros x Hx. apply in_app_or in Hx. apply in_or_app. destruct Hx as [Hx|[->|[]]]; [left; exact Hx|right; left; reflexivity]. }
    destruct (deliver_with cfg (forward cfg k) p hh c si) as [hh' s1|e s1].
    + destruct D as [Hh' P1]. destruct HJ as [H1 F1].
      destruct (GoodL_step done L si c s1 F Hcd G P1) as (L1 & HN1 & G1).
      destruct (IH hh' s1 L1 (done ++ [c]) Hh' H1 (Frame_trans _ _ _ F F1) HN1 G1 Hnd) as (L' & HN' & G').
      { intros x Hx. destruct (Hr x (or_intror Hx)) as [A B]. split; [|exact B]. intros Hin. apply in_app_or in Hin.
        destruct Hin as [Hin|[->|[]]]; contradiction. }
      exists L'. split; [exact HN'|]. rewrite <- app_assoc in G'. exact G'.
    + cbn [st]. destruct (GoodL_step done L si c s1 F Hcd G D) as (L1 & HN1 & G1).
      exists L1. split; [exact HN1|]. eapply GoodL_mono; [exact Hmono|exact G1].
Qed.

Definition bad_dest : bool := bad_dest_mod (h_dst_mod h) || bad_dest_host (h_dst_host h).

Lemma forward_top fuel si : h_type h <> ALL_MESSAGE_TYPES -> RegInvX X si -> Frame sref si -> NL [] si ->
  exists L, NL L (st (forward cfg fuel h p si)) /\ GoodL (snapshot si (h_type h)) L /\ (bad_dest = true -> L = []).
Proof.
  intros Hall H F HN. destruct fuel as [|k].
  { exists []. cbn [forward crash st]. split; [exact HN|split; [apply GoodL_nil|reflexivity]]. }
  change (forward cfg (Datatypes.S k) h p si) with (forward_body cfg (forward cfg k) h p si).
  unfold forward_body. unfold bind at 1.
  assert (E0 : exists s0, count_msg cfg (h_type h) si = Ok tt s0 /\ out s0 = out si /\ RegInvX X s0 /\ Frame si s0 /\
                          snapshot s0 (h_type h) = snapshot si (h_type h)).
  { unfold count_msg, bind, get. destruct (negb (sending_traffic si)).
    - eexists. split; [reflexivity|]. split; [reflexivity|]. split; [exact H|]. split; [apply Frame_counts|reflexivity].
    - exists si. split; [reflexivity|]. split; [reflexivity|]. split; [exact H|]. split; [apply Frame_refl|reflexivity]. }
  destruct E0 as (s0 & E0 & Eo & H0 & F0 & Esn). rewrite E0.
  assert (HN0 : NL [] s0) by (eapply N_out; eauto).
  unfold bad_dest. destruct (bad_dest_mod (h_dst_mod h)).
  { exists []. split; [apply pres_st; [apply nest_mlog|exact HN0]|split; [apply GoodL_nil|reflexivity]]. }
  destruct (bad_dest_host (h_dst_host h)).
  { exists []. split; [apply pres_st; [apply nest_mlog|exact HN0]|split; [apply GoodL_nil|reflexivity]]. }
  unfold bind at 1. unfold get. rewrite Esn.
  destruct (loop_top k (snapshot si (h_type h)) h s0 [] [] hsame_refl H0 (Frame_trans _ _ _ F F0) HN0 (GoodL_nil [])) as (L & HNL & G).
  - exact (snapshot_NoDup X si (h_type h) H Hall).
  - intros c Hin. split; [intros []|]. exact (snapshot_not_inflight X si (h_type h) c H Hin).
  - exists L. split; [exact HNL|]. split; [exact G|]. cbn [orb]. discriminate.
Qed.

End Top.

(* ---------- the statements ---------- *)

(* the header up to the stamped sequence number *)
Definition same_msg (h h' : hdr) : Prop := set_count h' 0 = set_count h 0.

Definition Safe (h : hdr) (p : payload) (s : mstate) (suf : list (Z * item)) : Prop :=
  okseq p None suf /\ NoDup (map fst (cl suf)) /\
  (forall c h', In (c, h') (cl suf) ->
     In c (snapshot s (h_type h)) /\ eligible (h_dst_mod h) s c = true /\ exists n, h' = set_count h n) /\
  (bad_dest h = true -> cl suf = []).

Lemma N_init p s : N p (out s) [] s.
Proof. exists []. rewrite app_nil_r. split; [reflexivity|split; [reflexivity|exact I]]. Qed.

Lemma Res_Safe h p s s' L l :
  N p (out s) L s' -> GoodL h s l L -> (forall c, In c l -> In c (snapshot s (h_type h))) ->
  (bad_dest h = true -> L = []) -> exists suf, out s' = out s ++ suf /\ Safe h p s suf.
Proof.
  intros (suf & Ho & Hc & Hk) [G1 G2] Hl Hb. exists suf. split; [exact Ho|]. unfold Safe. rewrite Hc.
  split; [exact Hk|]. split; [exact G1|]. split; [|exact Hb].
  intros c h' Hin. destruct (G2 c h' Hin) as (A & B & C). auto.
Qed.

Theorem forward_only_recipients cfg fuel h p s X :
  RegInvX X s -> h_extra h <> 0 -> h_type h <> ALL_MESSAGE_TYPES ->
  exists suf, out (st (forward cfg fuel h p s)) = out s ++ suf /\ Safe h p s suf.
Proof.
  intros H Hext Hall.
  destruct (forward_top cfg p X h Hext (out s) s fuel s Hall H (Frame_refl s) (N_init p s)) as (L & HN & G & Hb).
  eapply Res_Safe; eauto.
Qed.

(* a data frame as process_message sees it *)
Definition data_type (t : Z) : Prop :=
  t <> MT_CONNECT /\ t <> MT_CONNECT_V2 /\ t <> MT_DISCONNECT /\ t <> MT_SUBSCRIBE /\ t <> MT_RESUME_SUBSCRIPTION /\
  t <> MT_UNSUBSCRIBE /\ t <> MT_PAUSE_SUBSCRIPTION /\ t <> MT_CLIENT_SET_NAME /\ t <> MT_MODULE_READY.
Definition data_payload (h : hdr) (ip : inpayload) : payload :=
  match ip with InData id => PData id (h_nbytes h) | _ => PData 0 (h_nbytes h) end.

Lemma process_data cfg FUEL c h ip : data_type (h_type h) ->
  process_message cfg FUEL c h ip = (mlog cfg FUEL 10 ;;; fwd cfg FUEL h (data_payload h ip)).
Proof.
  intros (H1 & H2 & H3 & H4 & H5 & H6 & H7 & H8 & H9). unfold process_message, data_payload.
  repeat match goal with Hn : h_type h <> ?k |- _ => apply Z.eqb_neq in Hn; rewrite Hn; clear Hn end. reflexivity.
Qed.

Theorem data_frame_only_recipients cfg FUEL c h ip s X :
  RegInvX X s -> data_type (h_type h) -> h_extra h <> 0 -> h_type h <> ALL_MESSAGE_TYPES ->
  exists suf, out (st (process_message cfg FUEL c h ip s)) = out s ++ suf /\ Safe h (data_payload h ip) s suf.
Proof.
  intros H Hd Hext Hall. rewrite (process_data cfg FUEL c h ip Hd). set (p := data_payload h ip). unfold bind.
  pose proof (nest_mlog cfg p (out s) FUEL [] 10 s (N_init p s)) as HN1.
  pose proof (J_mlog_top cfg FUEL X 10 s H) as HJ. unfold mlog, fwd in *.
  destruct (mlog_with cfg (forward cfg FUEL) 10 s) as [u s1|e s1].
  - destruct HJ as [H1 F1].
    destruct (forward_top cfg p X h Hext (out s) s FUEL s1 Hall H1 F1 HN1) as (L & HN & G & Hb).
    eapply Res_Safe; eauto. intros x Hx. eapply snapshot_Frame; eauto.
  - cbn [st]. eapply (Res_Safe h p s s1 [] []); [exact HN1|apply GoodL_nil|intros x []|reflexivity].
Qed.

Theorem service_only_recipients cfg FUEL c h ip s X :
  RegInvX X s -> data_type (h_type h) -> h_extra h <> 0 -> h_type h <> ALL_MESSAGE_TYPES ->
  exists suf, out (st (service cfg FUEL c (IFrame h ip) s)) = out s ++ suf /\ Safe h (data_payload h ip) s suf.
Proof.
  intros H Hd Hext Hall. set (p := data_payload h ip). unfold service. unfold bind at 1. unfold get.
  destruct (m_reg (find_mod c (mods s))); cbn [negb].
  2:{ cbn [ret st]. eapply (Res_Safe h p s s [] []); [apply N_init|apply GoodL_nil|intros x []|reflexivity]. }
  destruct (bad_size (h_nbytes h)); [|apply data_frame_only_recipients with (X := X); auto].
  assert (Hp : pres (N p (out s) []) (remove_module cfg FUEL c ;;; mlog cfg FUEL 30)).
  { apply pres_bind; [apply nest_remove_module|]. intros _. apply nest_mlog. }
  eapply (Res_Safe h p s _ [] []); [apply pres_st; [exact Hp|apply N_init]|apply GoodL_nil|intros x []|reflexivity].
Qed.

(* ---------- spelled out ---------- *)

Definition hdr_eqb (a b : hdr) : bool :=
  (h_type a =? h_type b) && (h_count a =? h_count b) && (h_src_host a =? h_src_host b) && (h_src_mod a =? h_src_mod b) &&
  (h_dst_host a =? h_dst_host b) && (h_dst_mod a =? h_dst_mod b) && (h_nbytes a =? h_nbytes b) && (h_extra a =? h_extra b).

Lemma hdr_eqb_spec a b : hdr_eqb a b = true <-> a = b.
Proof.
  unfold hdr_eqb. destruct a, b. simpl.
  rewrite !andb_true_iff, !Z.eqb_eq. split; [intros (((((((A & B) & C) & D) & E) & F) & G) & K); congruence|].
  intros E. inversion E. repeat split.
Qed.

Definition same_msgb (h h' : hdr) : bool := hdr_eqb (set_count h' 0) (set_count h 0).
Definition same_item (h : hdr) (it : item) : bool := match it with OHdr h' => same_msgb h h' | OPay _ => false end.

Lemma same_msgb_spec h h' : same_msgb h h' = true <-> same_msg h h'.
Proof. apply hdr_eqb_spec. Qed.

Lemma same_msg_isc h h' : h_extra h <> 0 -> same_msg h h' -> isc h' = true.
Proof.
  intros Hext E. unfold isc. apply negb_true_iff. apply Z.eqb_neq. pose proof (f_equal h_extra E) as Ex.
  simpl in Ex. congruence.
Qed.

Lemma In_cl c h' suf : In (c, OHdr h') suf -> isc h' = true -> In (c, h') (cl suf).
Proof.
  intros Hin Hi. unfold cl. apply in_flat_map. exists (c, OHdr h'). split; [exact Hin|]. rewrite Hi. left. reflexivity.
Qed.

Lemma cl_absent_proj h c suf : (forall h', same_msgb h h' = true -> isc h' = true) ->
  ~ In c (map fst (cl suf)) -> filter (same_item h) (proj c suf) = [].
Proof.
  intros Hs. induction suf as [|[c' it] r IH]; intros Hnin; [reflexivity|]. cbn [proj].
  assert (Hr : ~ In c (map fst (cl r))).
  { intros Hin. apply Hnin. change ((c', it) :: r) with ([(c', it)] ++ r). rewrite cl_app, map_app. apply in_or_app. right. exact Hin. }
  destruct (c' =? c) eqn:E; [|apply IH; exact Hr]. apply Z.eqb_eq in E. subst c'. cbn [filter].
  destruct it as [h'|q]; cbn [same_item]; [|apply IH; exact Hr].
  destruct (same_msgb h h') eqn:Es; [|apply IH; exact Hr]. exfalso. apply Hnin.
  cbn [cl flat_map]. rewrite (Hs h' Es). cbn [app map fst]. left. reflexivity.
Qed.

Lemma cl_cons c' it r :
  cl ((c', it) :: r) = (match it with OHdr h' => if isc h' then [(c', h')] else [] | OPay _ => [] end) ++ cl r.
Proof. reflexivity. Qed.

Lemma cl_nodup_once h c suf : (forall h', same_msgb h h' = true -> isc h' = true) ->
  NoDup (map fst (cl suf)) -> (length (filter (same_item h) (proj c suf)) <= 1)%nat.
Proof.
  intros Hs. induction suf as [|[c' it] r IH]; intros Hnd; [cbn; lia|].
  rewrite cl_cons in Hnd.
  assert (Hndr : NoDup (map fst (cl r))).
  { destruct it as [h'|q]; [destruct (isc h')|]; cbn [app map fst] in Hnd; [apply NoDup_cons_iff in Hnd; tauto|exact Hnd|exact Hnd]. }
  cbn [proj]. destruct (c' =? c) eqn:E; [|apply IH; exact Hndr]. apply Z.eqb_eq in E. subst c'. cbn [filter].
  destruct it as [h'|q]; cbn [same_item]; [|apply IH; exact Hndr].
  destruct (same_msgb h h') eqn:Es; [|apply IH; exact Hndr].
  rewrite (Hs h' Es) in Hnd. cbn [app map fst] in Hnd. apply NoDup_cons_iff in Hnd. destruct Hnd as [Hnin _].
  rewrite (cl_absent_proj h c r Hs Hnin). cbn. lia.
Qed.

Record OnlyRecipients (h : hdr) (p : payload) (s : mstate) (suf : list (Z * item)) : Prop := {
  (* (1) no other module receives it, and what is received is the published header with only the count stamped *)
  or_recipient : forall c h', In (c, OHdr h') suf -> same_msg h h' ->
      In c (snapshot s (h_type h)) /\ eligible (h_dst_mod h) s c = true /\ exists n, h' = set_count h n;
  (* ... followed, if anything follows directly, by the published payload on the same connection *)
  or_payload : forall a b c h' c2 q, suf = a ++ (c, OHdr h') :: (c2, OPay q) :: b -> same_msg h h' -> c2 = c /\ q = p;
  (* (2) at most once per connection *)
  or_once : forall c, (length (filter (same_item h) (proj c suf)) <= 1)%nat;
  (* (3) an invalid destination is delivered to nobody *)
  or_invalid : bad_dest h = true -> forall c h', In (c, OHdr h') suf -> ~ same_msg h h'
}.

Lemma Safe_spelled h p s suf : h_extra h <> 0 -> Safe h p s suf -> OnlyRecipients h p s suf.
Proof.
  intros Hext (Hk & Hnd & Hr & Hb).
  assert (Hs : forall h', same_msgb h h' = true -> isc h' = true).
  { intros h' E. apply (same_msg_isc h h' Hext). apply same_msgb_spec. exact E. }
  constructor.
  - intros c h' Hin Hsm. apply Hr. apply In_cl; [exact Hin|]. apply (same_msg_isc h h' Hext Hsm).
  - intros a b c h' c2 q E Hsm. subst suf. apply okseq_app in Hk. destruct Hk as [_ Hk]. cbn [okseq] in Hk.
    rewrite (same_msg_isc h h' Hext Hsm) in Hk. destruct Hk as [Hk _]. exact Hk.
  - intros c. apply cl_nodup_once; auto.
  - intros Hbad c h' Hin Hsm. pose proof (In_cl c h' suf Hin (same_msg_isc h h' Hext Hsm)) as Hc.
    rewrite (Hb Hbad) in Hc. destruct Hc.
Qed.

(* ---------- at every reachable state ---------- *)

Theorem only_recipients_reachable cfg fuel es u s k h p :
  run cfg fuel es = Ok u s -> h_extra h <> 0 -> h_type h <> ALL_MESSAGE_TYPES ->
  exists suf, out (st (forward cfg k h p s)) = out s ++ suf /\ OnlyRecipients h p s suf.
Proof.
  intros Hrun Hext Hall. pose proof (run_safe cfg fuel es) as R. rewrite Hrun in R. destruct R as (R & _).
  destruct (forward_only_recipients cfg k h p s [] R Hext Hall) as (suf & Ho & Hs).
  exists suf. split; [exact Ho|apply Safe_spelled; auto].
Qed.

Theorem service_only_recipients_reachable cfg fuel es u s FUEL c h ip :
  run cfg fuel es = Ok u s -> data_type (h_type h) -> h_extra h <> 0 -> h_type h <> ALL_MESSAGE_TYPES ->
  exists suf, out (st (service cfg FUEL c (IFrame h ip) s)) = out s ++ suf /\ OnlyRecipients h (data_payload h ip) s suf.
Proof.
  intros Hrun Hd Hext Hall. pose proof (run_safe cfg fuel es) as R. rewrite Hrun in R. destruct R as (R & _).
  destruct (service_only_recipients cfg FUEL c h ip s [] R Hd Hext Hall) as (suf & Ho & Hs).
  exists suf. split; [exact Ho|apply Safe_spelled; auto].
Qed.

(* ---------- non-vacuity, with failures in it ----------
   The state of Proofs/LoopExact.v's example: conn 1 a logger subscribed to everything, conn 2 the publisher, conns 3, 4, 5
   subscribed to type 100 with conn 4 not writable and conn 5's writes failing.  One publish of type 100 (ten items
   written, among them two failure notices and a CLIENT_CLOSED): the only copies of the message are one to conn 3 and one
   to conn 1, both members of the snapshot and eligible, at most one per connection.  With a nesting budget of 1 the same
   publish CRASHES (the notice about conn 4 cannot be published) - after conn 3 got its copy, and nobody else anything.
   A publish with destination module 1000 writes no copy at all (here, with error logging on, a log record goes to
   the logger instead). *)
From Mgr Require Import Proofs.LoopExact.

Example only_recipients_ex :
  match run lx_cfg 20%nat lx_hist with
  | Ok _ s =>
    let suf := skipn (length (out s)) (out (st (forward lx_cfg 2 lx_msg (PData 5 1) s))) in
    let suf1 := skipn (length (out s)) (out (st (forward lx_cfg 1 lx_msg (PData 5 1) s))) in
    (length suf, cl suf, snapshot s 100, map (eligible 0 s) (snapshot s 100),
     map (fun c => length (filter (same_item lx_msg) (proj c suf))) [1; 2; 3; 4; 5],
     (match forward lx_cfg 1 lx_msg (PData 5 1) s with Crash XFuel _ => 99 | _ => 0 end, cl suf1))
  | Crash _ _ => (0%nat, [], [], [], [], (0, []))
  end =
  (10%nat, [(3, set_count lx_msg 3); (1, set_count lx_msg 15)], [3; 4; 5; 1], [true; true; true; true],
   [1; 0; 1; 0; 0]%nat, (99, [(3, set_count lx_msg 3)])).
Proof. vm_compute. reflexivity. Qed.

Example only_recipients_ex_invalid :
  let cfg := mkConfig 10 true in
  let bad := mkHdr 100 1 0 11 0 1000 1 9 in
  match run cfg 20%nat lx_hist with
  | Ok _ s =>
    let suf := skipn (length (out s)) (out (st (forward cfg 5 bad (PData 5 1) s))) in
    (bad_dest bad, cl suf, map (fun ci => (fst ci, match snd ci with OHdr h' => h_type h' | OPay _ => -1 end)) suf)
  | Crash _ _ => (false, [], [])
  end = (true, [], [(1, MT_RTMA_LOG_ERROR); (1, -1)]).
Proof. vm_compute. reflexivity. Qed.

