(* C19, end to end: send_ack writes exactly one ACKNOWLEDGE frame to the sender and one copy to every
   registered logger, in that order, and nothing else; the registry operation that precedes it writes
   nothing at all when debug logging is off. *)
From Coq Require Import ZArith List Bool Lia ZifyBool.
From Mgr Require Import Gen.MgrDefs Model.Manager Proofs.ListLemmas Proofs.Hoare Proofs.RegInv Proofs.Routing
                        Proofs.OutInv Proofs.C05Inv Proofs.Exact.
Import ListNotations.
Open Scope Z_scope.

(* can be written to: the connection exists, is open and no send failure is armed *)
Definition sendable (s : mstate) (c : Z) : Prop :=
  0 <= c /\ m_closed (find_mod c (mods s)) = false /\ flookup c (faults s) = None.

Lemma find_upd_field {A} (pi : module -> A) c c' f l : (forall m, pi (f m) = pi m) -> conn_pres f ->
  pi (find_mod c' (upd_mod c f l)) = pi (find_mod c' l).
Proof.
  intros Hr Hc. induction l as [|m r IH]; simpl; [reflexivity|]. destruct (m_conn m =? c) eqn:E; simpl.
  - rewrite Hc. destruct (m_conn m =? c'); [apply Hr|reflexivity].
  - destruct (m_conn m =? c'); [reflexivity|exact IH].
Qed.

Lemma after_send_field {A} (pi : module -> A) h p s c x :
  (forall m n, pi (mm_count m n) = pi m) -> (forall m n, pi (mm_drops m n) = pi m) ->
  pi (find_mod x (mods (after_send h p s c))) = pi (find_mod x (mods s)).
Proof.
  intros H1 H2. unfold after_send. simpl.
  rewrite (find_upd_field pi c x (fun m => mm_drops m 0)); [|intro; apply H2|intro; reflexivity].
  rewrite (find_upd_field pi c x (fun m => mm_count m (cnt s c + 1))); [reflexivity|intro; apply H1|intro; reflexivity].
Qed.

Lemma sendable_after h p s c x : sendable s x -> sendable (after_send h p s c) x.
Proof.
  intros (H0 & Hc & Hf). unfold sendable. rewrite (after_send_field m_closed); auto.
Qed.

Lemma send_checked_exact' cfg rec c hh p s : sendable s c ->
  send_checked_with cfg rec c hh p s = Ok (set_count hh (cnt s c + 1)) (after_send hh p s c).
Proof.
  intros (Hc0 & Hc & Hf). unfold send_checked_with. unfold bind at 1.
  rewrite (mod_send_exact c hh p s Hc0 Hc Hf). reflexivity.
Qed.

(* copies to the loggers: state-threaded, in list order, unregistered entries skipped *)
Fixpoint lframes (hh : hdr) (p : payload) (s : mstate) (l : list Z) : list (Z * item) :=
  match l with
  | [] => []
  | c :: r => if m_reg (find_mod c (mods s)) then frame_for hh p s c ++ lframes hh p (after_send hh p s c) r
              else lframes hh p s r
  end.

Lemma after_send_count hh n p s c : after_send (set_count hh n) p s c = after_send hh p s c.
Proof. reflexivity. Qed.

(* the header threaded on differs only in msg_count, which every copy overwrites *)
Lemma lframes_count hh n p : forall l s, lframes (set_count hh n) p s l = lframes hh p s l.
Proof.
  induction l as [|d r IH]; intros s; cbn [lframes]; [reflexivity|].
  destruct (m_reg (find_mod d (mods s))); [|apply IH]. rewrite after_send_count, IH. reflexivity.
Qed.

Lemma loggers_loop_exact cfg FUEL p : forall l hh s,
  (forall c, In c l -> m_reg (find_mod c (mods s)) = true -> sendable s c) ->
  exists s', loggers_loop cfg FUEL hh p l s = Ok tt s' /\ out s' = out s ++ lframes hh p s l.
Proof.
  induction l as [|c r IH]; intros hh s Hs.
  - exists s. simpl. rewrite app_nil_r. auto.
  - cbn [loggers_loop lframes]. unfold bind at 1. unfold get.
    destruct (m_reg (find_mod c (mods s))) eqn:Hreg; cbn [negb].
    + assert (Hc : sendable s c) by (apply Hs; [left; reflexivity|exact Hreg]).
      destruct Hc as (Hc0 & Hcl & Hfl). rewrite Hcl, andb_false_r. unfold bind at 1.
      unfold send_checked. rewrite (send_checked_exact' cfg (fwd cfg FUEL) c hh p s (conj Hc0 (conj Hcl Hfl))).
      destruct (IH (set_count hh (cnt s c + 1)) (after_send hh p s c)) as (s' & E & Ho).
      { intros x Hin Hr. apply sendable_after. apply Hs; [right; exact Hin|].
        rewrite (after_send_field m_reg) in Hr; auto. }
      exists s'. split; [exact E|]. rewrite Ho. change (out (after_send hh p s c)) with (out s ++ frame_for hh p s c).
      rewrite <- app_assoc. f_equal. f_equal. apply lframes_count.
    + apply IH. intros x Hin. apply Hs. right. exact Hin.
Qed.

Definition ack_hdr (s : mstate) (c : Z) : hdr := mgr_hdr MT_ACKNOWLEDGE 0 (m_mod_id (find_mod c (mods s))).

Theorem send_ack_exact cfg FUEL c s :
  sendable s c -> (forall l, In l (loggers s) -> m_reg (find_mod l (mods s)) = true -> sendable s l) ->
  exists s', send_ack cfg FUEL c s = Ok tt s' /\
    out s' = out s ++ frame_for (ack_hdr s c) (PData 0 0) s c
                   ++ lframes (ack_hdr s c) (PData 0 0) (after_send (ack_hdr s c) (PData 0 0) s c) (loggers s).
Proof.
  intros Hc Hl. unfold send_ack. unfold bind at 1. unfold get. unfold bind at 1. fold (ack_hdr s c).
  unfold send_checked. rewrite (send_checked_exact' cfg (fwd cfg FUEL) c (ack_hdr s c) (PData 0 0) s Hc).
  unfold send_to_loggers. unfold bind at 1. unfold get.
  change (loggers (after_send (ack_hdr s c) (PData 0 0) s c)) with (loggers s).
  destruct (loggers_loop_exact cfg FUEL (PData 0 0) (loggers s) (set_count (ack_hdr s c) (cnt s c + 1))
              (after_send (ack_hdr s c) (PData 0 0) s c)) as (s' & E & Ho).
  { intros x Hin Hr. apply sendable_after. apply Hl; auto. rewrite (after_send_field m_reg) in Hr; auto. }
  exists s'. split; [exact E|]. rewrite Ho.
  change (out (after_send (ack_hdr s c) (PData 0 0) s c)) with (out s ++ frame_for (ack_hdr s c) (PData 0 0) s c).
  rewrite <- app_assoc. f_equal. f_equal. apply lframes_count.
Qed.

(* with debug logging off the registry operations write nothing and leave connections, counters, fault plan
   and the logger set alone *)
Definition quiet_step (s s1 : mstate) : Prop :=
  out s1 = out s /\ faults s1 = faults s /\ loggers s1 = loggers s /\ wl s1 = wl s /\
  forall x, m_closed (find_mod x (mods s1)) = m_closed (find_mod x (mods s)) /\
            m_reg (find_mod x (mods s1)) = m_reg (find_mod x (mods s)) /\
            m_count (find_mod x (mods s1)) = m_count (find_mod x (mods s)) /\
            m_mod_id (find_mod x (mods s1)) = m_mod_id (find_mod x (mods s)).

Lemma quiet_refl s : quiet_step s s.
Proof. unfold quiet_step. repeat split; auto. Qed.

Lemma mlog_off cfg FUEL lvl s : loglevel cfg <=? lvl = false -> mlog cfg FUEL lvl s = Ok tt s.
Proof. intros H. unfold mlog, mlog_with. rewrite H. reflexivity. Qed.

Lemma quiet_set_subs s c f : (forall m, exists l, f m = mm_subs m l) -> forall sb,
  quiet_step s (with_mods (with_subs s sb) (upd_mod c f (mods s))).
Proof.
  intros Hf sb. unfold quiet_step. simpl. repeat split; auto;
    apply (find_upd_field _ c x f); try (intro m; destruct (Hf m) as [l ->]; reflexivity).
Qed.

Theorem subscription_quiet cfg FUEL c t s : 10 < loglevel cfg ->
  (exists s1, add_subscription cfg FUEL c t s = Ok tt s1 /\ quiet_step s s1) /\
  (exists s1, remove_subscription cfg FUEL c t s = Ok tt s1 /\ quiet_step s s1).
Proof.
  intros Hl. assert (Hoff : loglevel cfg <=? 10 = false) by lia.
  split.
  - unfold add_subscription. unfold bind at 1. unfold get. destruct (t =? ALL_MESSAGE_TYPES).
    + unfold bind, set_mod; unfold modify; cbv beta iota. rewrite mlog_off; auto. eexists. split; [reflexivity|].
      apply (quiet_set_subs s c (fun m => mm_subs m [t])). intro m; eexists; reflexivity.
    + destruct (zmem ALL_MESSAGE_TYPES (m_subs (find_mod c (mods s)))); [exists s; split; [reflexivity|apply quiet_refl]|].
      unfold bind, set_mod; unfold modify; cbv beta iota. rewrite mlog_off; auto. eexists. split; [reflexivity|].
      apply (quiet_set_subs s c (fun m => mm_subs m (zinsert t (m_subs m)))). intro m; eexists; reflexivity.
  - unfold remove_subscription. unfold bind at 1. unfold get. destruct (t =? ALL_MESSAGE_TYPES).
    + unfold bind, set_mod; unfold modify; cbv beta iota. rewrite mlog_off; auto. eexists. split; [reflexivity|].
      apply (quiet_set_subs s c (fun m => mm_subs m [])). intro m; eexists; reflexivity.
    + destruct (zmem ALL_MESSAGE_TYPES (m_subs (find_mod c (mods s)))); [exists s; split; [reflexivity|apply quiet_refl]|].
      unfold bind, set_mod; unfold modify; cbv beta iota. rewrite mlog_off; auto. eexists. split; [reflexivity|].
      apply (quiet_set_subs s c (fun m => mm_subs m (zremove t (m_subs m)))). intro m; eexists; reflexivity.
Qed.
