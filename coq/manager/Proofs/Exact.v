(* C01, end to end: when every recipient of the snapshot is ready (registered, open, writable, no
   armed fault) forward_message writes exactly one whole frame - the published header with only the
   sequence number stamped, and the payload - to every snapshot member that passes the destination
   filter, in snapshot order, and writes nothing else. *)
From Coq Require Import ZArith List Bool Lia ZifyBool.
From Mgr Require Import Gen.MgrDefs Model.Manager Proofs.ListLemmas Proofs.Hoare Proofs.RegInv Proofs.Routing
                        Proofs.OutInv Proofs.C05Inv.
Import ListNotations.
Open Scope Z_scope.

Definition cnt (s : mstate) (c : Z) : Z := m_count (find_mod c (mods s)).

Definition frame_for (h : hdr) (p : payload) (s : mstate) (c : Z) : list (Z * item) :=
  [(c, OHdr (set_count h (cnt s c + 1))); (c, OPay p)].

Definition eligible (dm : Z) (s : mstate) (c : Z) : bool :=
  dest_filter dm (m_mod_id (find_mod c (mods s))) (m_logger (find_mod c (mods s))).

Definition ready (s : mstate) (c : Z) : Prop :=
  0 <= c /\ m_reg (find_mod c (mods s)) = true /\ m_closed (find_mod c (mods s)) = false /\
  zmem c (wl s) = true /\ flookup c (faults s) = None.

Lemma set_count_twice h a b : set_count (set_count h a) b = set_count h b.
Proof. reflexivity. Qed.

Lemma mod_send_exact c h p s :
  0 <= c -> m_closed (find_mod c (mods s)) = false -> flookup c (faults s) = None ->
  mod_send c h p s =
    Ok (SOk, set_count h (cnt s c + 1))
       (with_out (with_mods s (upd_mod c (fun m => mm_count m (cnt s c + 1)) (mods s)))
                 (out s ++ frame_for h p s c) (faults s)).
Proof.
  intros Hc0 Hc Hf. rewrite mod_send_eq. cbv zeta. fold (cnt s c).
  set (n := cnt s c + 1). set (s1 := with_mods s (upd_mod c (fun m => mm_count m n) (mods s))).
  assert (Hc1 : m_closed (find_mod c (mods s1)) = false).
  { unfold s1. simpl. pose proof (find_mod_conn_of_open _ _ Hc) as Hcc.
    rewrite find_upd_same; auto; [|intro; reflexivity]. rewrite Hcc, Z.eqb_refl. simpl. exact Hc. }
  assert (E1 : sendall c (OHdr (set_count h n)) s1 = Ok SOk (with_out s1 (out s1 ++ [(c, OHdr (set_count h n))]) (faults s1))).
  { unfold sendall. rewrite Hc1. change (faults s1) with (faults s). rewrite Hf. reflexivity. }
  rewrite E1. set (s2 := with_out s1 (out s1 ++ [(c, OHdr (set_count h n))]) (faults s1)).
  assert (E2 : sendall c (OPay p) s2 = Ok SOk (with_out s2 (out s2 ++ [(c, OPay p)]) (faults s2))).
  { unfold sendall. change (mods s2) with (mods s1). rewrite Hc1. change (faults s2) with (faults s). rewrite Hf. reflexivity. }
  rewrite E2. unfold s2, s1, frame_for, with_out, with_mods. simpl. rewrite <- app_assoc. reflexivity.
Qed.

(* the state after one successful delivery to c *)
Definition after_send (h : hdr) (p : payload) (s : mstate) (c : Z) : mstate :=
  with_mods (with_out (with_mods s (upd_mod c (fun m => mm_count m (cnt s c + 1)) (mods s)))
                      (out s ++ frame_for h p s c) (faults s))
            (upd_mod c (fun m => mm_drops m 0) (upd_mod c (fun m => mm_count m (cnt s c + 1)) (mods s))).

Lemma send_checked_exact cfg rec c hh p s : ready s c ->
  send_checked_with cfg rec c hh p s = Ok (set_count hh (cnt s c + 1)) (after_send hh p s c).
Proof.
  intros (Hc0 & _ & Hc & _ & Hf). unfold send_checked_with. unfold bind at 1.
  rewrite (mod_send_exact c hh p s Hc0 Hc Hf). reflexivity.
Qed.

Lemma after_send_other h p s c c' : c' <> c -> find_mod c' (mods (after_send h p s c)) = find_mod c' (mods s).
Proof.
  intros Hne. unfold after_send. simpl. rewrite !find_upd_other; auto; intro; reflexivity.
Qed.

Lemma after_send_ready h p s c c' : c' <> c -> ready s c' -> ready (after_send h p s c) c'.
Proof.
  intros Hne (H0 & H1 & H2 & H3 & H4). unfold ready. rewrite (after_send_other h p s c c' Hne). repeat split; auto.
Qed.

Definition frames (h : hdr) (p : payload) (s : mstate) (l : list Z) : list (Z * item) :=
  flat_map (fun c => if eligible (h_dst_mod h) s c then frame_for h p s c else []) l.

Lemma frames_ext h h' p s s' l :
  h_dst_mod h' = h_dst_mod h -> (forall n, set_count h' n = set_count h n) ->
  (forall c, In c l -> find_mod c (mods s') = find_mod c (mods s)) ->
  frames h' p s' l = frames h p s l.
Proof.
  intros Hd Hs Hf. unfold frames. induction l as [|c r IH]; [reflexivity|]. cbn [flat_map].
  rewrite IH; [|intros c' Hc'; apply Hf; right; exact Hc']. f_equal.
  unfold eligible, frame_for, cnt. rewrite (Hf c (or_introl eq_refl)), Hd, Hs. reflexivity.
Qed.

Lemma deliver_loop_exact cfg rec p : forall l hh s, NoDup l -> (forall c, In c l -> ready s c) ->
  exists s', deliver_loop cfg rec p hh l s = Ok tt s' /\ out s' = out s ++ frames hh p s l /\
             wl s' = wl s /\ faults s' = faults s /\ subs s' = subs s /\ loggers s' = loggers s /\
             (forall c', ~ In c' l -> find_mod c' (mods s') = find_mod c' (mods s)).
Proof.
  induction l as [|c r IH]; intros hh s Hnd Hr.
  - exists s. simpl. rewrite app_nil_r. repeat split; auto.
  - inversion Hnd as [|? ? Hnin Hnd']; subst.
    assert (Hc : ready s c) by (apply Hr; left; reflexivity).
    cbn [deliver_loop]. unfold bind at 1. unfold deliver_with. unfold bind at 1. unfold get.
    destruct Hc as (Hc0 & Hreg & Hcl & Hwl & Hfl). rewrite Hreg. cbn [negb]. rewrite Hwl.
    fold (eligible (h_dst_mod hh) s c). unfold frames. cbn [flat_map]. fold (frames hh p s r).
    destruct (eligible (h_dst_mod hh) s c) eqn:El.
    + rewrite (send_checked_exact cfg rec c hh p s (conj Hc0 (conj Hreg (conj Hcl (conj Hwl Hfl))))).
      set (s1 := after_send hh p s c). set (hh1 := set_count hh (cnt s c + 1)).
      destruct (IH hh1 s1 Hnd') as (s' & E & Ho & Hw & Hf & Hsb & Hlg & Hoth).
      { intros c' Hin. apply after_send_ready; [intro; subst; contradiction|]. apply Hr. right. exact Hin. }
      exists s'. split; [exact E|]. split.
      * rewrite Ho. change (out s1) with (out s ++ frame_for hh p s c). rewrite <- app_assoc. f_equal. f_equal.
        apply frames_ext; [reflexivity|intros n; reflexivity|].
        intros c' Hin. apply after_send_other. intro; subst; contradiction.
      * repeat split; auto. intros c' Hn. rewrite Hoth; [|intro; apply Hn; right; assumption].
        apply after_send_other. intro; subst. apply Hn. left. reflexivity.
    + destruct (IH hh s Hnd') as (s' & E & Ho & Hw & Hf & Hsb & Hlg & Hoth).
      { intros c' Hin. apply Hr. right. exact Hin. }
      exists s'. split; [exact E|]. split; [rewrite Ho; reflexivity|]. repeat split; auto.
      intros c' Hn. apply Hoth. intro; apply Hn; right; assumption.
Qed.

Theorem forward_exact cfg k h p s :
  bad_dest_mod (h_dst_mod h) = false -> bad_dest_host (h_dst_host h) = false ->
  NoDup (snapshot s (h_type h)) -> (forall c, In c (snapshot s (h_type h)) -> ready s c) ->
  exists s', forward cfg (S k) h p s = Ok tt s' /\
             out s' = out s ++ frames h p s (snapshot s (h_type h)) /\
             subs s' = subs s /\ loggers s' = loggers s /\
             (forall c', ~ In c' (snapshot s (h_type h)) -> find_mod c' (mods s') = find_mod c' (mods s)).
Proof.
  intros Hm Hh Hnd Hr. cbn [forward]. unfold forward_body. unfold bind at 1. unfold count_msg. unfold bind at 1. unfold get.
  set (s0 := if negb (sending_traffic s)
             then with_counts s (if timing_on cfg then cincr (h_type h) (counts s) else counts s) (cincr (h_type h) (traffic s))
             else s).
  assert (E0 : (if negb (sending_traffic s)
                then modify (fun s => with_counts s (if timing_on cfg then cincr (h_type h) (counts s) else counts s) (cincr (h_type h) (traffic s)))
                else ret tt) s = Ok tt s0).
  { unfold s0. destruct (negb (sending_traffic s)); reflexivity. }
  rewrite E0. rewrite Hm, Hh. unfold bind at 1. unfold get.
  assert (Hsame : mods s0 = mods s /\ subs s0 = subs s /\ wl s0 = wl s /\ faults s0 = faults s /\ out s0 = out s /\ loggers s0 = loggers s).
  { unfold s0. destruct (negb (sending_traffic s)); simpl; auto 10. }
  destruct Hsame as (Em & Es & Ew & Ef & Eo & El).
  assert (Esn : snapshot s0 (h_type h) = snapshot s (h_type h)) by (unfold snapshot; rewrite Es; reflexivity).
  rewrite Esn.
  destruct (deliver_loop_exact cfg (forward cfg k) p (snapshot s (h_type h)) h s0 Hnd) as (s' & E & Ho & Hw & Hf & Hsb & Hlg & Hoth).
  { intros c Hin. specialize (Hr c Hin). unfold ready in *. rewrite Em, Ew, Ef. exact Hr. }
  exists s'. split; [exact E|]. split.
  - rewrite Ho, Eo. f_equal. apply frames_ext; auto. intros c _. rewrite Em. reflexivity.
  - rewrite Hsb, Hlg, Es, El. repeat split; auto. intros c' Hn. rewrite (Hoth c' Hn), Em. reflexivity.
Qed.

(* what each connection sees of it *)
Lemma proj_frames_in h p s c l : NoDup l -> In c l -> eligible (h_dst_mod h) s c = true ->
  proj c (frames h p s l) = [OHdr (set_count h (cnt s c + 1)); OPay p].
Proof.
  induction l as [|c' r IH]; intros Hnd Hin El; [destruct Hin|].
  inversion Hnd as [|? ? Hnin Hnd']; subst. unfold frames. cbn [flat_map]. fold (frames h p s r). rewrite proj_app.
  destruct Hin as [->|Hin].
  - rewrite El. unfold frame_for. cbn [proj]. rewrite Z.eqb_refl.
    assert (Hr : proj c (frames h p s r) = []).
    { clear IH Hnd Hnd'. induction r as [|d r IHr]; [reflexivity|]. unfold frames. cbn [flat_map]. fold (frames h p s r).
      rewrite proj_app, IHr; [|intro; apply Hnin; right; assumption].
      destruct (eligible (h_dst_mod h) s d); [|reflexivity]. unfold frame_for. cbn [proj].
      destruct (d =? c) eqn:E; [apply Z.eqb_eq in E; subst; exfalso; apply Hnin; left; reflexivity|reflexivity]. }
    rewrite Hr. reflexivity.
  - rewrite (IH Hnd' Hin El). assert (c' <> c) by (intro; subst; contradiction).
    destruct (eligible (h_dst_mod h) s c'); [|reflexivity]. unfold frame_for. cbn [proj].
    destruct (c' =? c) eqn:E; [lia|reflexivity].
Qed.

Lemma proj_frames_out h p s c l : (~ In c l \/ eligible (h_dst_mod h) s c = false) -> proj c (frames h p s l) = [].
Proof.
  intros H. induction l as [|d r IH]; [reflexivity|]. unfold frames. cbn [flat_map]. fold (frames h p s r). rewrite proj_app.
  rewrite IH; [|destruct H as [H|H]; [left; intro; apply H; right; assumption|right; exact H]].
  destruct (eligible (h_dst_mod h) s d) eqn:E; [|reflexivity]. unfold frame_for. cbn [proj].
  destruct (d =? c) eqn:E2; [|reflexivity]. apply Z.eqb_eq in E2. subst d.
  destruct H as [H|H]; [exfalso; apply H; left; reflexivity|congruence].
Qed.

(* C14, end to end for one recipient: a registered non-logger subscriber that cannot be written to.
   Its drop count is bumped and ONE failure notice naming it and embedding the header as last stamped is
   delivered, as a whole frame, to exactly the eligible subscribers of FAILED_MESSAGE (all of them ready);
   nothing else is written, and the delivery loop goes on with the same header. *)
Definition fail_hdr : hdr := mgr_hdr MT_FAILED_MESSAGE SZ_FAILED_MESSAGE 0.

Theorem notice_exact cfg k p hh c s :
  0 <= c -> zmem (h_type hh) no_notice_types = false ->
  m_reg (find_mod c (mods s)) = true -> zmem c (wl s) = false -> m_logger (find_mod c (mods s)) = false ->
  NoDup (snapshot s MT_FAILED_MESSAGE) -> (forall f, In f (snapshot s MT_FAILED_MESSAGE) -> ready s f) ->
  exists s', deliver_with cfg (forward cfg (S k)) p hh c s = Ok hh s' /\
             out s' = out s ++ frames fail_hdr (PFailed (m_mod_id (find_mod c (mods s))) hh) s (snapshot s MT_FAILED_MESSAGE) /\
             m_drops (find_mod c (mods s')) = m_drops (find_mod c (mods s)) + 1.
Proof.
  intros Hpos Ht Hreg Hw Hlg Hnd Hr.
  assert (HcF : ~ In c (snapshot s MT_FAILED_MESSAGE)).
  { intros Hin. destruct (Hr c Hin) as (_ & _ & _ & Hwl & _). congruence. }
  unfold deliver_with. unfold bind at 1. unfold get. rewrite Hreg, Hw, Hlg. cbn [negb].
  unfold bind at 1. unfold set_mod, modify.
  set (s1 := with_mods s (upd_mod c (fun m => mm_drops m (m_drops m + 1)) (mods s))).
  assert (Hoth : forall c', c' <> c -> find_mod c' (mods s1) = find_mod c' (mods s)).
  { intros c' Hne. unfold s1. simpl. apply find_upd_other; auto. intro; reflexivity. }
  assert (Hc0 : 0 <= c /\ m_conn (find_mod c (mods s)) = c).
  { pose proof (find_mod_reg_In c _ Hreg) as [Hi Hcc]. split; [exact Hpos|exact Hcc]. }
  unfold bind at 1. unfold send_failed_with. rewrite Ht. unfold bind at 1. unfold get. unfold send_mgr_with.
  assert (Esn : snapshot s1 MT_FAILED_MESSAGE = snapshot s MT_FAILED_MESSAGE) by reflexivity.
  destruct (forward_exact cfg k fail_hdr (PFailed (m_mod_id (find_mod c (mods s1))) hh) s1) as (s' & E & Ho & _ & _ & Hkeep).
  - reflexivity.
  - reflexivity.
  - change (snapshot s1 (h_type fail_hdr)) with (snapshot s MT_FAILED_MESSAGE). exact Hnd.
  - change (snapshot s1 (h_type fail_hdr)) with (snapshot s MT_FAILED_MESSAGE). intros f Hin. specialize (Hr f Hin). assert (f <> c) by (intro; subst; contradiction).
    unfold ready in *. rewrite (Hoth f H). exact Hr.
  - change (mgr_hdr MT_FAILED_MESSAGE SZ_FAILED_MESSAGE 0) with fail_hdr. rewrite E. cbn [ret].
    exists s'. split; [reflexivity|]. split.
    + rewrite Ho. change (out s1) with (out s). f_equal. change (snapshot s1 (h_type fail_hdr)) with (snapshot s MT_FAILED_MESSAGE).
      assert (Em : m_mod_id (find_mod c (mods s1)) = m_mod_id (find_mod c (mods s))).
      { unfold s1. simpl. destruct Hc0 as [Hc0 Hcc]. rewrite find_upd_same; auto; [|intro; reflexivity]. rewrite Hcc, Z.eqb_refl. reflexivity. }
      rewrite Em. apply frames_ext; auto. intros f Hin. apply Hoth. intro; subst; contradiction.
    + rewrite (Hkeep c); [|exact HcF]. unfold s1. simpl. destruct Hc0 as [Hc0 Hcc].
      rewrite find_upd_same; auto; [|intro; reflexivity]. rewrite Hcc, Z.eqb_refl. reflexivity.
Qed.
