(* The registry invariant of the manager model and its preservation by every
   operation, at every point where forward_message can be re-entered.

   RegInvX X s : X is the list of connections whose removal is in flight
   (closed but still a key of self.modules).  RegInv = RegInvX []. *)
From Coq Require Import ZArith List Bool Lia Sorted.
From Mgr Require Import Gen.MgrDefs Model.Manager Proofs.ListLemmas Proofs.Hoare.
Import ListNotations.
Open Scope Z_scope.

Notation ALLT := ALL_MESSAGE_TYPES.

Record reg_ok (X : list Z) (ms : list module) (sb : list (Z * list Z)) (lg : list Z) (nu : Z) : Prop := {
  ro_sub : forall t c, In c (alookup t sb) ->
             m_reg (find_mod c ms) = true /\ m_closed (find_mod c ms) = false /\ In t (m_subs (find_mod c ms));
  ro_sorted : forall t, sorted (alookup t sb);
  ro_all : forall m, In m ms -> In ALLT (m_subs m) -> m_subs m = [ALLT];
  (* stated for registered members only: before /repo 926cc4e connect_module could add a module that nested logging
     had already removed (it was skipped, being unregistered); since that fix only a registered module joins the
     set, and this weaker clause is all the later proofs use *)
  ro_log : forall c, In c lg -> m_reg (find_mod c ms) = true ->
             m_closed (find_mod c ms) = false /\ m_logger (find_mod c ms) = true
             /\ m_connected (find_mod c ms) = true;
  ro_logsorted : sorted lg;
  ro_unreg : forall m, In m ms -> m_reg m = false -> m_closed m = true;
  ro_pos : forall m, In m ms -> 0 <= m_conn m;
  ro_conn : forall m, In m ms -> m_reg m = true -> m_connected m = true -> m_closed m = false;
  ro_flight : forall m, In m ms -> m_reg m = true -> m_closed m = true -> In (m_conn m) X;
  ro_nodup : NoDup (map m_conn ms);
  ro_bound : forall m, In m ms -> m_conn m <= nu;
  ro_xreg : forall c, In c X -> m_reg (find_mod c ms) = true /\ m_closed (find_mod c ms) = true;
  ro_xnodup : NoDup X;
  ro_logbound : forall c, In c lg -> 0 <= c <= nu;
  (* since /repo 926cc4e: whoever is in the logger set is a key of the module table *)
  ro_loglive : forall c, In c lg -> m_reg (find_mod c ms) = true
}.

Definition RegInvX (X : list Z) (s : mstate) : Prop := reg_ok X (mods s) (subs s) (loggers s) (next_uid s).
Definition RegInv : mstate -> Prop := RegInvX [].
(* weaker form that also holds at a crash in the middle of a removal *)
Definition RegInvW (s : mstate) : Prop := exists X, RegInvX X s.

Lemma RegInvX_W X s : RegInvX X s -> RegInvW s.
Proof. intros H; exists X; exact H. Qed.



(* ---------- module-table facts ---------- *)

Lemma In_upd_mod c f l m' : In m' (upd_mod c f l) ->
  In m' l \/ (exists m, In m l /\ m_conn m = c /\ m' = f m).
Proof.
  induction l as [|m r IH]; simpl; [tauto|].
  destruct (m_conn m =? c) eqn:E; simpl.
  - intros [<-|H]; [right; exists m; split; [left; reflexivity|split; [apply Z.eqb_eq; exact E|reflexivity]]|].
    left. right. exact H.
  - intros [<-|H]; [left; left; reflexivity|].
    destruct (IH H) as [H1|(m0 & H1 & H2 & H3)]; [left; right; exact H1|].
    right. exists m0. split; [right; exact H1|split; assumption].
Qed.

Lemma find_mod_app_found c l x : m_conn (find_mod c l) = c -> 0 <= c -> find_mod c (l ++ [x]) = find_mod c l.
Proof.
  intros H Hc. induction l as [|m r IH]; cbn [app find_mod] in *.
  - change (m_conn dummy_module) with (-1) in H. lia.
  - destruct (m_conn m =? c); auto.
Qed.

Lemma find_mod_app_other c l x : m_conn x <> c -> find_mod c (l ++ [x]) = find_mod c l.
Proof.
  intros H. induction l as [|m r IH]; cbn [app find_mod].
  - destruct (m_conn x =? c) eqn:E; [apply Z.eqb_eq in E; congruence|reflexivity].
  - destruct (m_conn m =? c); auto.
Qed.

Lemma find_mod_conn_of_open c l : m_closed (find_mod c l) = false -> m_conn (find_mod c l) = c.
Proof. intros H. apply find_mod_open_In in H. tauto. Qed.

Lemma find_mod_conn_of_reg c l : m_reg (find_mod c l) = true -> m_conn (find_mod c l) = c.
Proof. intros H. apply find_mod_reg_In in H. tauto. Qed.

(* what happens to a lookup when module c is updated with a conn-preserving f *)
Lemma find_upd c c' f l : conn_pres f -> 0 <= c ->
  find_mod c' (upd_mod c f l) =
    if c' =? c then (if m_conn (find_mod c l) =? c then f (find_mod c l) else dummy_module)
    else find_mod c' l.
Proof.
  intros Hf Hc. destruct (c' =? c) eqn:E.
  - apply Z.eqb_eq in E. subst. apply find_upd_same; auto.
  - apply Z.eqb_neq in E. apply find_upd_other; auto.
Qed.

(* ---------- leaf: update of one module that keeps subs/reg/closed/connected (and logger unless
   the module is in no logger list) ---------- *)

Definition keeps (f : module -> module) : Prop :=
  conn_pres f /\ (forall m, m_subs (f m) = m_subs m) /\ (forall m, m_reg (f m) = m_reg m) /\
  (forall m, m_closed (f m) = m_closed m) /\ (forall m, m_connected (f m) = m_connected m).

Lemma map_conn_upd c f l : conn_pres f -> map m_conn (upd_mod c f l) = map m_conn l.
Proof.
  intros Hf. induction l as [|m r IH]; simpl; [reflexivity|].
  destruct (m_conn m =? c); simpl; [rewrite Hf; reflexivity|rewrite IH; reflexivity].
Qed.

Lemma reg_ok_upd X ms sb lg nu c f :
  reg_ok X ms sb lg nu -> keeps f -> 0 <= c ->
  ((forall m, m_logger (f m) = m_logger m) \/ ~ In c lg) ->
  reg_ok X (upd_mod c f ms) sb lg nu.
Proof.
  intros R (Kc & Ks & Kr & Kcl & Kcn) Hc Hl. destruct R as [R1 R2 R3 R4 R5 R6 R7 R8 R9 R10 R11 R12 R13 R14 R15].
  assert (Hfind : forall c', let m' := find_mod c' (upd_mod c f ms) in let m := find_mod c' ms in
            m_reg m' = m_reg m /\ m_closed m' = m_closed m /\ m_subs m' = m_subs m /\
            m_connected m' = m_connected m /\ ((forall m, m_logger (f m) = m_logger m) \/ c' <> c -> m_logger m' = m_logger m)).
  { intros c'. cbv zeta. rewrite (find_upd c c' f ms Kc Hc).
    destruct (c' =? c) eqn:E.
    - apply Z.eqb_eq in E. subst c'.
      destruct (m_conn (find_mod c ms) =? c) eqn:E2.
      + rewrite Kr, Kcl, Ks, Kcn. repeat split; auto. intros [H|H]; [apply H|congruence].
      + destruct (find_mod_cases c ms) as [Hd|[_ Hd]]; [rewrite Hd; repeat split; auto|].
        rewrite Hd, Z.eqb_refl in E2. discriminate.
    - repeat split; auto. }
  constructor.
  - intros t c' Hin. destruct (R1 t c' Hin) as (A1 & A2 & A3). destruct (Hfind c') as (F1 & F2 & F3 & _).
    rewrite F1, F2, F3. auto.
  - exact R2.
  - intros m' Hin Hall. apply In_upd_mod in Hin. destruct Hin as [Hin|(m & Hin & _ & ->)]; [auto|].
    rewrite Ks in *. auto.
  - intros c' Hin Hreg. destruct (Hfind c') as (F1 & F2 & _ & F4 & F5). rewrite F1 in Hreg.
    destruct (R4 c' Hin Hreg) as (A2 & A3 & A4).
    rewrite F2, F4. repeat split; auto. rewrite F5; auto.
    destruct Hl as [Hl|Hl]; [left; exact Hl|right; intro; subst; contradiction].
  - exact R5.
  - intros m' Hin Hr. apply In_upd_mod in Hin. destruct Hin as [Hin|(m & Hin & _ & ->)]; [auto|].
    rewrite Kr in Hr. rewrite Kcl. auto.
  - intros m' Hin. apply In_upd_mod in Hin. destruct Hin as [Hin|(m & Hin & _ & ->)]; [auto|]. rewrite Kc. auto.
  - intros m' Hin Hr Hcn. apply In_upd_mod in Hin. destruct Hin as [Hin|(m & Hin & _ & ->)]; [auto|].
    rewrite Kr in Hr. rewrite Kcn in Hcn. rewrite Kcl. auto.
  - intros m' Hin Hr Hcl. apply In_upd_mod in Hin. destruct Hin as [Hin|(m & Hin & _ & ->)]; [auto|].
    rewrite Kr in Hr. rewrite Kcl in Hcl. rewrite Kc. auto.
  - rewrite map_conn_upd; auto.
  - intros m' Hin. apply In_upd_mod in Hin. destruct Hin as [Hin|(m & Hin & _ & ->)]; [auto|]. rewrite Kc. auto.
  - intros c' Hin. destruct (R12 c' Hin) as [A1 A2]. destruct (Hfind c') as (F1 & F2 & _). rewrite F1, F2. auto.
  - exact R13.
  - exact R14.
  - intros c' Hin. destruct (Hfind c') as (F1 & _). rewrite F1. auto.
Qed.

Lemma keeps_count n : keeps (fun m => mm_count m n).
Proof. repeat split. Qed.
Lemma keeps_drops g : keeps (fun m => mm_drops m (g m)).
Proof. repeat split. Qed.
Lemma keeps_pid n : keeps (fun m => mm_pid m n).
Proof. repeat split. Qed.
Lemma keeps_name n : keeps (fun m => mm_name m n).
Proof. repeat split. Qed.
Lemma keeps_modid n : keeps (fun m => mm_modid m n).
Proof. repeat split. Qed.
Lemma keeps_ident a b u : keeps (fun m => mm_ident m a b (m_name m) u).
Proof. repeat split. Qed.
Lemma keeps_flags a b : keeps (fun m => mm_flags m a b).
Proof. repeat split. Qed.

(* ---------- leaves of remove_module ---------- *)

Lemma reg_ok_drop_subs X ms sb lg nu c ts :
  reg_ok X ms sb lg nu -> reg_ok X ms (drop_subs c ts sb) lg nu.
Proof.
  intros [R1 R2 R3 R4 R5 R6 R7 R8 R9 R10 R11 R12 R13 R14 R15]. constructor; auto.
  - intros t c' Hin. rewrite alookup_drop_subs in Hin. destruct (zmem t ts); [apply zremove_In in Hin; destruct Hin|]; eauto.
  - intros t. rewrite alookup_drop_subs. destruct (zmem t ts); [apply sorted_zremove|]; auto.
Qed.

Lemma drop_subs_gone ms sb lg nu X c :
  reg_ok X ms sb lg nu -> forall t, ~ In c (alookup t (drop_subs c (m_subs (find_mod c ms)) sb)).
Proof.
  intros R t Hin. rewrite alookup_drop_subs in Hin.
  destruct (zmem t (m_subs (find_mod c ms))) eqn:E.
  - apply zremove_In in Hin. destruct Hin as [Hne _]. congruence.
  - apply zmem_false in E. apply E. destruct (ro_sub _ _ _ _ _ R t c Hin) as (_ & _ & H). exact H.
Qed.

Lemma reg_ok_drop_logger X ms sb lg nu c : reg_ok X ms sb lg nu -> reg_ok X ms sb (zremove c lg) nu.
Proof.
  intros [R1 R2 R3 R4 R5 R6 R7 R8 R9 R10 R11 R12 R13 R14 R15]. constructor; auto.
  - intros c' Hin. apply zremove_In in Hin. destruct Hin. auto.
  - apply sorted_zremove; auto.
  - intros c' Hin. apply zremove_In in Hin. destruct Hin. auto.
  - intros c' Hin. apply zremove_In in Hin. destruct Hin. auto.
Qed.

Lemma In_find_mod_nodup m ms : In m ms -> NoDup (map m_conn ms) -> find_mod (m_conn m) ms = m.
Proof.
  induction ms as [|x r IH]; simpl; intros Hin Hnd; [contradiction|].
  inversion Hnd as [|? ? Hx Hr]; subst.
  destruct Hin as [->|Hin]; [rewrite Z.eqb_refl; reflexivity|].
  destruct (m_conn x =? m_conn m) eqn:E; [|auto].
  apply Z.eqb_eq in E. exfalso. apply Hx. rewrite E. apply in_map. exact Hin.
Qed.

Lemma reg_ok_close X ms sb lg nu c :
  reg_ok X ms sb lg nu -> (forall t, ~ In c (alookup t sb)) -> ~ In c lg -> 0 <= c ->
  m_reg (find_mod c ms) = true -> m_closed (find_mod c ms) = false ->
  reg_ok (c :: X) (upd_mod c mm_close ms) sb lg nu.
Proof.
  intros [R1 R2 R3 R4 R5 R6 R7 R8 R9 R10 R11 R12 R13 R14 R15] Hs Hl Hc Hreg Hopen.
  assert (Kc : conn_pres mm_close) by (intro; reflexivity).
  constructor.
  - intros t c' Hin. assert (c' <> c) by (intro; subst; exact (Hs t Hin)).
    rewrite find_upd_other; auto.
  - exact R2.
  - intros m' Hin. apply In_upd_mod in Hin. destruct Hin as [Hin|(m & Hin & _ & ->)]; auto; apply (R3 m Hin).
  - intros c' Hin. assert (c' <> c) by (intro; subst; contradiction). rewrite find_upd_other; auto.
  - exact R5.
  - intros m' Hin Hr. apply In_upd_mod in Hin. destruct Hin as [Hin|(m & Hin & _ & ->)]; auto.
  - intros m' Hin. apply In_upd_mod in Hin. destruct Hin as [Hin|(m & Hin & _ & ->)]; auto; apply (R7 m Hin).
  - intros m' Hin Hr Hcn. apply In_upd_mod in Hin. destruct Hin as [Hin|(m & Hin & _ & ->)]; auto; discriminate.
  - intros m' Hin Hr Hcl. apply In_upd_mod in Hin. destruct Hin as [Hin|(m & Hin & Hmc & ->)].
    + right. auto.
    + left. symmetry. exact Hmc.
  - rewrite map_conn_upd; auto.
  - intros m' Hin. apply In_upd_mod in Hin. destruct Hin as [Hin|(m & Hin & _ & ->)]; auto; apply (R11 m Hin).
  - intros c' [<-|Hin].
    + rewrite find_upd_same; auto. rewrite (find_mod_conn_of_reg _ _ Hreg), Z.eqb_refl. simpl. auto.
    + destruct (R12 c' Hin) as [A1 A2]. assert (c' <> c) by (intro; subst; congruence). rewrite find_upd_other; auto.
  - constructor; [|exact R13]. intro Hin. destruct (R12 c Hin). congruence.
  - exact R14.
  - intros c' Hin. assert (c' <> c) by (intro; subst; contradiction). rewrite find_upd_other; auto.
Qed.

Lemma In_upd_mod_inv c f l m' : NoDup (map m_conn l) -> conn_pres f -> In m' (upd_mod c f l) ->
  (In m' l /\ m_conn m' <> c) \/ (exists m, In m l /\ m_conn m = c /\ m' = f m).
Proof.
  intros Hnd Hf. induction l as [|m r IH]; simpl; [tauto|].
  inversion Hnd as [|? ? Hx Hr]; subst.
  destruct (m_conn m =? c) eqn:E; simpl.
  - apply Z.eqb_eq in E. intros [<-|H].
    + right. exists m. auto.
    + left. split; [right; exact H|]. intro Hc. apply Hx. rewrite E, <- Hc. apply in_map. exact H.
  - apply Z.eqb_neq in E. intros [<-|H]; [left; split; [left; reflexivity|exact E]|].
    destruct (IH Hr H) as [[H1 H2]|(m0 & H1 & H2 & H3)]; [left; split; [right; exact H1|exact H2]|].
    right. exists m0. auto.
Qed.

Lemma reg_ok_unreg X ms sb lg nu c :
  reg_ok (c :: X) ms sb lg nu -> m_closed (find_mod c ms) = true -> 0 <= c ->
  reg_ok X (upd_mod c mm_unreg ms) sb lg nu.
Proof.
  intros [R1 R2 R3 R4 R5 R6 R7 R8 R9 R10 R11 R12 R13 R14 R15] Hcl Hc.
  assert (Kc : conn_pres mm_unreg) by (intro; reflexivity).
  assert (Hs : forall t, ~ In c (alookup t sb)).
  { intros t Hin. destruct (R1 t c Hin) as (_ & H & _). congruence. }
  assert (Hl : ~ In c lg).
  { intros Hin. destruct (R12 c (or_introl eq_refl)) as [Hreg0 _]. destruct (R4 c Hin Hreg0) as (H & _). congruence. }
  constructor.
  - intros t c' Hin. assert (c' <> c) by (intro; subst; exact (Hs t Hin)). rewrite find_upd_other; auto.
  - exact R2.
  - intros m' Hin. apply In_upd_mod in Hin. destruct Hin as [Hin|(m & Hin & _ & ->)]; auto; apply (R3 m Hin).
  - intros c' Hin. assert (c' <> c) by (intro; subst; contradiction). rewrite find_upd_other; auto.
  - exact R5.
  - intros m' Hin Hr. apply In_upd_mod in Hin. destruct Hin as [Hin|(m & Hin & Hmc & ->)]; auto.
    simpl. rewrite <- Hmc in Hcl. rewrite (In_find_mod_nodup m ms Hin R10) in Hcl. exact Hcl.
  - intros m' Hin. apply In_upd_mod in Hin. destruct Hin as [Hin|(m & Hin & _ & ->)]; auto; apply (R7 m Hin).
  - intros m' Hin Hr Hcn. apply In_upd_mod in Hin. destruct Hin as [Hin|(m & Hin & _ & ->)]; auto; simpl in Hr; discriminate.
  - intros m' Hin Hr Hcl'. apply (In_upd_mod_inv c mm_unreg ms m' R10 Kc) in Hin.
    destruct Hin as [[Hin Hne]|(m & Hin & Hmc & ->)]; [|discriminate].
    destruct (R9 m' Hin Hr Hcl') as [E|E]; [congruence|exact E].
  - rewrite map_conn_upd; auto.
  - intros m' Hin. apply In_upd_mod in Hin. destruct Hin as [Hin|(m & Hin & _ & ->)]; auto; apply (R11 m Hin).
  - intros c' Hin. inversion R13 as [|? ? Hx Hr]; subst. assert (c' <> c) by (intro; subst; contradiction).
    rewrite find_upd_other; auto. apply R12. right. exact Hin.
  - inversion R13; auto.
  - exact R14.
  - intros c' Hin. assert (c' <> c) by (intro; subst; contradiction). rewrite find_upd_other; auto.
Qed.

(* ---------- leaves of add/remove subscription ---------- *)

Lemma reg_ok_sub_one X ms sb lg nu c t :
  reg_ok X ms sb lg nu -> 0 <= c -> m_reg (find_mod c ms) = true -> m_closed (find_mod c ms) = false ->
  ~ In ALLT (m_subs (find_mod c ms)) -> t <> ALLT ->
  reg_ok X (upd_mod c (fun m => mm_subs m (zinsert t (m_subs m))) ms) (aupdate t (zinsert c) sb) lg nu.
Proof.
  intros [R1 R2 R3 R4 R5 R6 R7 R8 R9 R10 R11 R12 R13 R14 R15] Hc Hreg Hop Hnall Hne.
  set (f := fun m => mm_subs m (zinsert t (m_subs m))).
  assert (Kc : conn_pres f) by (intro; reflexivity).
  assert (Hcc : m_conn (find_mod c ms) = c) by (apply find_mod_conn_of_reg; exact Hreg).
  assert (Hfc : find_mod c (upd_mod c f ms) = f (find_mod c ms)).
  { rewrite find_upd_same; auto. rewrite Hcc, Z.eqb_refl. reflexivity. }
  constructor.
  - intros t' c' Hin. rewrite alookup_aupdate in Hin.
    destruct (Z.eq_dec c' c) as [->|Hcn].
    + rewrite Hfc. simpl. repeat split; auto.
      destruct (t' =? t) eqn:E.
      * apply Z.eqb_eq in E. subst. apply zinsert_In. left; reflexivity.
      * apply zinsert_In. right. destruct (R1 t' c Hin) as (_ & _ & H). exact H.
    + rewrite find_upd_other; auto. destruct (t' =? t) eqn:E; [|eauto].
      apply zinsert_In in Hin. destruct Hin as [->|Hin]; [congruence|].
      apply Z.eqb_eq in E. subst. eauto.
  - intros t'. rewrite alookup_aupdate. destruct (t' =? t); [apply sorted_zinsert|]; auto.
  - intros m' Hin Hall. apply In_upd_mod in Hin. destruct Hin as [Hin|(m & Hin & Hmc & ->)]; auto.
    simpl in *. exfalso. apply zinsert_In in Hall. destruct Hall as [Hall|Hall]; [congruence|].
    apply Hnall. rewrite <- Hmc. rewrite (In_find_mod_nodup m ms Hin R10). exact Hall.
  - intros c' Hin. destruct (Z.eq_dec c' c) as [->|Hcn].
    + rewrite Hfc. simpl. auto.
    + rewrite find_upd_other; auto.
  - exact R5.
  - intros m' Hin Hr. apply In_upd_mod in Hin. destruct Hin as [Hin|(m & Hin & _ & ->)]; auto; apply (R6 m Hin Hr).
  - intros m' Hin. apply In_upd_mod in Hin. destruct Hin as [Hin|(m & Hin & _ & ->)]; auto; apply (R7 m Hin).
  - intros m' Hin Hr Hcn. apply In_upd_mod in Hin. destruct Hin as [Hin|(m & Hin & _ & ->)]; auto; apply (R8 m Hin Hr Hcn).
  - intros m' Hin Hr Hcl. apply In_upd_mod in Hin. destruct Hin as [Hin|(m & Hin & _ & ->)]; auto; apply (R9 m Hin Hr Hcl).
  - rewrite map_conn_upd; auto.
  - intros m' Hin. apply In_upd_mod in Hin. destruct Hin as [Hin|(m & Hin & _ & ->)]; auto; apply (R11 m Hin).
  - intros c' Hin. destruct (R12 c' Hin) as [A1 A2]. assert (c' <> c) by (intro; subst; congruence). rewrite find_upd_other; auto.
  - exact R13.
  - exact R14.
  - intros c' Hin. destruct (Z.eq_dec c' c) as [->|Hcn]; [rewrite Hfc; simpl; auto|rewrite find_upd_other; auto].
Qed.

Lemma reg_ok_aupdate_remove X ms sb lg nu c t :
  reg_ok X ms sb lg nu -> reg_ok X ms (aupdate t (zremove c) sb) lg nu.
Proof.
  intros [R1 R2 R3 R4 R5 R6 R7 R8 R9 R10 R11 R12 R13 R14 R15]. constructor; auto.
  - intros t' c' Hin. rewrite alookup_aupdate in Hin. destruct (t' =? t) eqn:E; [|eauto].
    apply Z.eqb_eq in E. subst. apply zremove_In in Hin. destruct Hin. eauto.
  - intros t'. rewrite alookup_aupdate. destruct (t' =? t); [apply sorted_zremove|]; auto.
Qed.

(* module c appears in no subscriber list: its subs field can be replaced freely *)
Lemma reg_ok_set_subs_absent X ms sb lg nu c l :
  reg_ok X ms sb lg nu -> 0 <= c -> (forall t, ~ In c (alookup t sb)) ->
  (In ALLT l -> l = [ALLT]) ->
  reg_ok X (upd_mod c (fun m => mm_subs m l) ms) sb lg nu.
Proof.
  intros [R1 R2 R3 R4 R5 R6 R7 R8 R9 R10 R11 R12 R13 R14 R15] Hc Habs Hl.
  set (f := fun m => mm_subs m l).
  assert (Kc : conn_pres f) by (intro; reflexivity).
  assert (Hfind : forall c', let m' := find_mod c' (upd_mod c f ms) in let m := find_mod c' ms in
            m_reg m' = m_reg m /\ m_closed m' = m_closed m /\ m_connected m' = m_connected m /\
            m_logger m' = m_logger m /\ (c' <> c -> m_subs m' = m_subs m)).
  { intros c'. cbv zeta. rewrite (find_upd c c' f ms Kc Hc). destruct (c' =? c) eqn:E.
    - apply Z.eqb_eq in E. subst c'. destruct (m_conn (find_mod c ms) =? c) eqn:E2.
      + simpl. repeat split; auto. congruence.
      + destruct (find_mod_cases c ms) as [Hd|[_ Hd]]; [rewrite Hd; repeat split; auto|].
        rewrite Hd, Z.eqb_refl in E2. discriminate.
    - repeat split; auto. }
  constructor.
  - intros t c' Hin. assert (c' <> c) by (intro; subst; exact (Habs t Hin)).
    destruct (R1 t c' Hin) as (A1 & A2 & A3). destruct (Hfind c') as (F1 & F2 & _ & _ & F5).
    rewrite F1, F2, F5; auto.
  - exact R2.
  - intros m' Hin Hall. apply In_upd_mod in Hin. destruct Hin as [Hin|(m & Hin & _ & ->)]; auto.
  - intros c' Hin Hreg. destruct (Hfind c') as (F1 & F2 & F3 & F4 & _). rewrite F1 in Hreg.
    destruct (R4 c' Hin Hreg) as (A2 & A3 & A4). rewrite F2, F3, F4. auto.
  - exact R5.
  - intros m' Hin Hr. apply In_upd_mod in Hin. destruct Hin as [Hin|(m & Hin & _ & ->)]; auto; apply (R6 m Hin Hr).
  - intros m' Hin. apply In_upd_mod in Hin. destruct Hin as [Hin|(m & Hin & _ & ->)]; auto; apply (R7 m Hin).
  - intros m' Hin Hr Hcn. apply In_upd_mod in Hin. destruct Hin as [Hin|(m & Hin & _ & ->)]; auto; apply (R8 m Hin Hr Hcn).
  - intros m' Hin Hr Hcl. apply In_upd_mod in Hin. destruct Hin as [Hin|(m & Hin & _ & ->)]; auto; apply (R9 m Hin Hr Hcl).
  - rewrite map_conn_upd; auto.
  - intros m' Hin. apply In_upd_mod in Hin. destruct Hin as [Hin|(m & Hin & _ & ->)]; auto; apply (R11 m Hin).
  - intros c' Hin. destruct (R12 c' Hin) as [A1 A2]. destruct (Hfind c') as (F1 & F2 & _). rewrite F1, F2. auto.
  - exact R13.
  - exact R14.
  - intros c' Hin. destruct (Hfind c') as (F1 & _). rewrite F1. auto.
Qed.

(* insert c into one list whose type its subs field contains *)
Lemma reg_ok_list_add X ms sb lg nu c t :
  reg_ok X ms sb lg nu -> m_reg (find_mod c ms) = true -> m_closed (find_mod c ms) = false ->
  In t (m_subs (find_mod c ms)) -> reg_ok X ms (aupdate t (zinsert c) sb) lg nu.
Proof.
  intros [R1 R2 R3 R4 R5 R6 R7 R8 R9 R10 R11 R12 R13 R14 R15] Hr Ho Hin. constructor; auto.
  - intros t' c' H. rewrite alookup_aupdate in H. destruct (t' =? t) eqn:E; [|eauto].
    apply Z.eqb_eq in E. subst. apply zinsert_In in H. destruct H as [->|H]; [auto|eauto].
  - intros t'. rewrite alookup_aupdate. destruct (t' =? t); [apply sorted_zinsert|]; auto.
Qed.

Lemma reg_ok_unsub_one X ms sb lg nu c t :
  reg_ok X ms sb lg nu -> 0 <= c -> ~ In ALLT (m_subs (find_mod c ms)) ->
  reg_ok X (upd_mod c (fun m => mm_subs m (zremove t (m_subs m))) ms) (aupdate t (zremove c) sb) lg nu.
Proof.
  intros R Hc Hnall. pose proof (reg_ok_aupdate_remove X ms sb lg nu c t R) as R'.
  destruct R' as [R1 R2 R3 R4 R5 R6 R7 R8 R9 R10 R11 R12 R13 R14 R15].
  set (f := fun m => mm_subs m (zremove t (m_subs m))).
  assert (Kc : conn_pres f) by (intro; reflexivity).
  constructor; auto.
  - intros t' c' Hin. destruct (R1 t' c' Hin) as (A1 & A2 & A3).
    rewrite (find_upd c c' f ms Kc Hc). destruct (c' =? c) eqn:E.
    + apply Z.eqb_eq in E. subst c'. rewrite (find_mod_conn_of_reg _ _ A1), Z.eqb_refl. simpl.
      repeat split; auto. apply zremove_In. split; [|exact A3].
      intro; subst t'. rewrite alookup_aupdate_same in Hin. apply zremove_In in Hin. destruct Hin; congruence.
    + auto.
  - intros m' Hin Hall. apply In_upd_mod in Hin. destruct Hin as [Hin|(m & Hin & Hmc & ->)]; auto.
    simpl in Hall. apply zremove_In in Hall. destruct Hall as [_ Hall]. exfalso. apply Hnall.
    rewrite <- Hmc, (In_find_mod_nodup m ms Hin R10). exact Hall.
  - intros c' Hin. rewrite (find_upd c c' f ms Kc Hc). destruct (c' =? c) eqn:E; [|apply R4; exact Hin].
    apply Z.eqb_eq in E. subst c'. destruct (m_conn (find_mod c ms) =? c) eqn:E2; [|simpl; discriminate].
    simpl. intros Hreg. apply (R4 c Hin Hreg).
  - intros m' Hin Hr. apply In_upd_mod in Hin. destruct Hin as [Hin|(m & Hin & _ & ->)]; auto; apply (R6 m Hin Hr).
  - intros m' Hin. apply In_upd_mod in Hin. destruct Hin as [Hin|(m & Hin & _ & ->)]; auto; apply (R7 m Hin).
  - intros m' Hin Hr Hcn. apply In_upd_mod in Hin. destruct Hin as [Hin|(m & Hin & _ & ->)]; auto; apply (R8 m Hin Hr Hcn).
  - intros m' Hin Hr Hcl. apply In_upd_mod in Hin. destruct Hin as [Hin|(m & Hin & _ & ->)]; auto; apply (R9 m Hin Hr Hcl).
  - rewrite map_conn_upd; auto.
  - intros m' Hin. apply In_upd_mod in Hin. destruct Hin as [Hin|(m & Hin & _ & ->)]; auto; apply (R11 m Hin).
  - intros c' Hin. destruct (R12 c' Hin) as [A1 A2]. rewrite (find_upd c c' f ms Kc Hc). destruct (c' =? c) eqn:E; [|auto].
    apply Z.eqb_eq in E. subst c'. rewrite (find_mod_conn_of_reg _ _ A1), Z.eqb_refl. simpl. auto.
  - intros c' Hin. pose proof (R15 c' Hin) as A1. rewrite (find_upd c c' f ms Kc Hc). destruct (c' =? c) eqn:E; [|auto].
    apply Z.eqb_eq in E. subst c'. rewrite (find_mod_conn_of_reg _ _ A1), Z.eqb_refl. simpl. auto.
Qed.

Lemma NoDup_snoc (l : list Z) x : NoDup l -> ~ In x l -> NoDup (l ++ [x]).
Proof.
  induction l as [|y r IH]; simpl; intros Hnd Hx; [constructor; [tauto|constructor]|].
  inversion Hnd as [|? ? Hy Hr]; subst. constructor.
  - intro Hin. apply in_app_or in Hin. destruct Hin as [Hin|[->|[]]]; [contradiction|apply Hx; left; reflexivity].
  - apply IH; auto.
Qed.

Lemma reg_ok_accept X ms sb lg nu :
  reg_ok X ms sb lg nu -> 0 <= nu + 1 -> reg_ok X (ms ++ [new_module (nu + 1)]) sb lg (nu + 1).
Proof.
  intros [R1 R2 R3 R4 R5 R6 R7 R8 R9 R10 R11 R12 R13 R14 R15] Hnu.
  assert (Hf : forall c, m_reg (find_mod c ms) = true -> find_mod c (ms ++ [new_module (nu + 1)]) = find_mod c ms).
  { intros c Hr. pose proof (find_mod_reg_In c ms Hr) as [Hin Hc].
    apply find_mod_app_found; auto. rewrite <- Hc. apply R7; exact Hin. }
  assert (Hsplit : forall m, In m (ms ++ [new_module (nu + 1)]) -> In m ms \/ m = new_module (nu + 1)).
  { intros m Hin. apply in_app_or in Hin. destruct Hin as [Hin|[<-|[]]]; auto. }
  constructor.
  - intros t c Hin. destruct (R1 t c Hin) as (A1 & A2 & A3). rewrite (Hf c A1). auto.
  - exact R2.
  - intros m Hin Hall. destruct (Hsplit m Hin) as [H| ->]; [auto|]. simpl in Hall. contradiction.
  - intros c Hin Hreg. pose proof (R14 c Hin) as Hb. rewrite find_mod_app_other in * by (simpl; lia). apply R4; auto.
  - exact R5.
  - intros m Hin Hr. destruct (Hsplit m Hin) as [H| ->]; [auto|]. simpl in Hr. discriminate.
  - intros m Hin. destruct (Hsplit m Hin) as [H| ->]; [auto|]. simpl. exact Hnu.
  - intros m Hin Hc. destruct (Hsplit m Hin) as [H| ->]; [auto|]. simpl in Hc. discriminate.
  - intros m Hin Hr Hc. destruct (Hsplit m Hin) as [H| ->]; [auto|]. simpl in Hc. discriminate.
  - rewrite map_app. simpl. apply NoDup_snoc; auto.
    intros Hin. apply in_map_iff in Hin. destruct Hin as (m & Hm & Hin). specialize (R11 m Hin). lia.
  - intros m Hin. destruct (Hsplit m Hin) as [H| ->]; [specialize (R11 m H); lia|simpl; lia].
  - intros c Hin. destruct (R12 c Hin) as [A1 A2]. rewrite (Hf c A1). auto.
  - exact R13.
  - intros c Hin. specialize (R14 c Hin). lia.
  - intros c Hin. pose proof (R15 c Hin) as A1. rewrite (Hf c A1). exact A1.
Qed.

(* ---------- wrappers without the 0 <= c side condition ---------- *)

Lemma upd_mod_absent c f l : (forall m, In m l -> m_conn m <> c) -> upd_mod c f l = l.
Proof.
  induction l as [|m r IH]; intros H; simpl; [reflexivity|].
  destruct (m_conn m =? c) eqn:E; [apply Z.eqb_eq in E; exfalso; apply (H m); [left; reflexivity|exact E]|].
  rewrite IH; auto. intros m' Hm'. apply H. right. exact Hm'.
Qed.

Lemma reg_ok_upd' X ms sb lg nu c f :
  reg_ok X ms sb lg nu -> keeps f ->
  ((forall m, m_logger (f m) = m_logger m) \/ ~ In c lg) ->
  reg_ok X (upd_mod c f ms) sb lg nu.
Proof.
  intros R K Hl. destruct (Z_le_gt_dec 0 c) as [Hc|Hc]; [apply reg_ok_upd; auto|].
  rewrite upd_mod_absent; auto. intros m Hin E. pose proof (ro_pos _ _ _ _ _ R m Hin). lia.
Qed.

Lemma reg_ok_logger_add X ms sb lg nu c :
  reg_ok X ms sb lg nu -> m_reg (find_mod c ms) = true ->
  m_closed (find_mod c ms) = false -> m_logger (find_mod c ms) = true -> m_connected (find_mod c ms) = true ->
  reg_ok X ms sb (zinsert c lg) nu.
Proof.
  intros [R1 R2 R3 R4 R5 R6 R7 R8 R9 R10 R11 R12 R13 R14 R15] Hr Hc Hl Hcn. constructor; auto.
  - intros c' Hin Hreg. apply zinsert_In in Hin. destruct Hin as [->|Hin]; auto.
  - apply sorted_zinsert; auto.
  - intros c' Hin. apply zinsert_In in Hin. destruct Hin as [->|Hin]; auto.
    pose proof (find_mod_reg_In c ms Hr) as [Hi Hcc]. pose proof (R7 _ Hi). pose proof (R11 _ Hi). lia.
  - intros c' Hin. apply zinsert_In in Hin. destruct Hin as [->|Hin]; auto.
Qed.

Lemma reg_ok_connected X ms sb lg nu c :
  reg_ok X ms sb lg nu -> (m_reg (find_mod c ms) = true -> m_closed (find_mod c ms) = false) ->
  reg_ok X (upd_mod c mm_connected ms) sb lg nu.
Proof.
  intros R Hopen. destruct (Z_le_gt_dec 0 c) as [Hc|Hc].
  2:{ rewrite upd_mod_absent; auto. intros m Hin E. pose proof (ro_pos _ _ _ _ _ R m Hin). lia. }
  destruct R as [R1 R2 R3 R4 R5 R6 R7 R8 R9 R10 R11 R12 R13 R14 R15].
  assert (Kc : conn_pres mm_connected) by (intro; reflexivity).
  assert (Hfind : forall c', let m' := find_mod c' (upd_mod c mm_connected ms) in let m := find_mod c' ms in
            m_reg m' = m_reg m /\ m_closed m' = m_closed m /\ m_subs m' = m_subs m /\ m_logger m' = m_logger m /\
            (m_connected m = true -> m_connected m' = true)).
  { intros c'. cbv zeta. rewrite (find_upd c c' mm_connected ms Kc Hc). destruct (c' =? c) eqn:E.
    - apply Z.eqb_eq in E. subst c'. destruct (m_conn (find_mod c ms) =? c) eqn:E2.
      + simpl. repeat split; auto.
      + destruct (find_mod_cases c ms) as [Hd|[_ Hd]]; [rewrite Hd; repeat split; auto|].
        rewrite Hd, Z.eqb_refl in E2. discriminate.
    - repeat split; auto. }
  constructor.
  - intros t c' Hin. destruct (R1 t c' Hin) as (A1 & A2 & A3). destruct (Hfind c') as (F1 & F2 & F3 & _).
    rewrite F1, F2, F3. auto.
  - exact R2.
  - intros m' Hin Hall. apply In_upd_mod in Hin. destruct Hin as [Hin|(m & Hin & _ & ->)]; auto; apply (R3 m Hin Hall).
  - intros c' Hin Hreg. destruct (Hfind c') as (F1 & F2 & _ & F4 & F5). rewrite F1 in Hreg.
    destruct (R4 c' Hin Hreg) as (A2 & A3 & A4). rewrite F2, F4. auto.
  - exact R5.
  - intros m' Hin Hr. apply In_upd_mod in Hin. destruct Hin as [Hin|(m & Hin & _ & ->)]; auto; apply (R6 m Hin Hr).
  - intros m' Hin. apply In_upd_mod in Hin. destruct Hin as [Hin|(m & Hin & _ & ->)]; auto; apply (R7 m Hin).
  - intros m' Hin Hr Hcn. apply In_upd_mod in Hin. destruct Hin as [Hin|(m & Hin & Hmc & ->)]; auto.
    simpl in *. rewrite <- Hmc in Hopen. rewrite (In_find_mod_nodup m ms Hin R10) in Hopen. auto.
  - intros m' Hin Hr Hcl. apply In_upd_mod in Hin. destruct Hin as [Hin|(m & Hin & _ & ->)]; auto; apply (R9 m Hin Hr Hcl).
  - rewrite map_conn_upd; auto.
  - intros m' Hin. apply In_upd_mod in Hin. destruct Hin as [Hin|(m & Hin & _ & ->)]; auto; apply (R11 m Hin).
  - intros c' Hin. destruct (R12 c' Hin) as [A1 A2]. destruct (Hfind c') as (F1 & F2 & _). rewrite F1, F2. auto.
  - exact R13.
  - exact R14.
  - intros c' Hin. destruct (Hfind c') as (F1 & _). rewrite F1. auto.
Qed.
