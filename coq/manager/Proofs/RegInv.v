(* The registry invariant of the manager model and its preservation by every
   operation, at every point where forward_message can be re-entered.

   RegInvX X s : X is the list of connections whose removal is in flight
   (closed but still a key of self.modules).  RegInv = RegInvX []. *)
From Coq Require Import ZArith List Bool Lia Sorted.
From Mgr Require Import Gen.MgrDefs Model.Manager Proofs.ListLemmas Proofs.Hoare.
Import ListNotations.
Open Scope Z_scope.

Definition ALLT := ALL_MESSAGE_TYPES.

Record reg_ok (X : list Z) (ms : list module) (sb : list (Z * list Z)) (lg : list Z) : Prop := {
  ro_sub : forall t c, In c (alookup t sb) ->
             m_reg (find_mod c ms) = true /\ m_closed (find_mod c ms) = false /\ In t (m_subs (find_mod c ms));
  ro_sorted : forall t, sorted (alookup t sb);
  ro_all : forall m, In m ms -> In ALLT (m_subs m) -> m_subs m = [ALLT];
  ro_log : forall c, In c lg ->
             m_reg (find_mod c ms) = true /\ m_closed (find_mod c ms) = false /\ m_logger (find_mod c ms) = true
             /\ m_connected (find_mod c ms) = true;
  ro_logsorted : sorted lg;
  ro_unreg : forall m, In m ms -> m_reg m = false -> m_closed m = true;
  ro_pos : forall m, In m ms -> 0 <= m_conn m;
  ro_conn : forall m, In m ms -> m_connected m = true -> m_closed m = false;
  ro_flight : forall m, In m ms -> m_reg m = true -> m_closed m = true -> In (m_conn m) X
}.

Definition RegInvX (X : list Z) (s : mstate) : Prop := reg_ok X (mods s) (subs s) (loggers s).
Definition RegInv : mstate -> Prop := RegInvX [].

(* weaker form that also holds at a crash in the middle of a removal *)
Definition RegInvW (s : mstate) : Prop := exists X, RegInvX X s.

Lemma RegInvX_W X s : RegInvX X s -> RegInvW s.
Proof. intros H; exists X; exact H. Qed.

Lemma reg_ok_weaken X Y ms sb lg : reg_ok X ms sb lg -> (forall c, In c X -> In c Y) -> reg_ok Y ms sb lg.
Proof. intros [] H. constructor; auto. Qed.

(* ---------- module-table facts used below ---------- *)

Lemma In_upd_mod c f l m' : In m' (upd_mod c f l) ->
  (In m' l /\ (m_conn m' <> c \/ True)) \/ (exists m, In m l /\ m_conn m = c /\ m' = f m).
Proof.
  induction l as [|m r IH]; simpl; [tauto|].
  destruct (m_conn m =? c) eqn:E; simpl.
  - intros [<-|H]; [right; exists m; split; [left; reflexivity|split; [apply Z.eqb_eq; exact E|reflexivity]]|].
    left. split; [right; exact H|right; exact I].
  - intros [<-|H]; [left; split; [left; reflexivity|right; exact I]|].
    destruct (IH H) as [[H1 H2]|(m0 & H1 & H2 & H3)]; [left; split; [right; exact H1|exact H2]|].
    right. exists m0. split; [right; exact H1|split; assumption].
Qed.

Lemma find_mod_app c l x : m_conn (find_mod c l) = c -> find_mod c (l ++ [x]) = find_mod c l.
Proof.
  induction l as [|m r IH]; simpl.
  - intros H. change (m_conn dummy_module) with (-1) in H. subst c.
    destruct (m_conn x =? -1); [|reflexivity]. (* a module with conn -1 never exists; handled by caller *)
    admit.
  - destruct (m_conn m =? c); auto.
Admitted.
