(* C07, end to end: a departure publishes exactly one CLIENT_CLOSED describing the module, as one whole frame,
   to exactly the eligible subscribers of CLIENT_CLOSED that remain - and writes nothing else (debug logging off,
   those subscribers writable). *)
From Coq Require Import ZArith List Bool Lia ZifyBool.
From Mgr Require Import Gen.MgrDefs Model.Manager Proofs.ListLemmas Proofs.Hoare Proofs.RegInv Proofs.Frame
                        Proofs.RegTraverse Proofs.RegTop Proofs.StepInv Proofs.Routing Proofs.OutInv Proofs.C05Inv
                        Proofs.Exact Proofs.ExactTop Proofs.AckExact Proofs.Fuel.
Import ListNotations.
Open Scope Z_scope.

(* the state in which the notice is published: subscriptions and logger entry dropped, socket closed *)
Definition closed_state (s : mstate) (c : Z) : mstate :=
  let s1 := with_subs s (drop_subs c (m_subs (find_mod c (mods s))) (subs s)) in
  let s2 := with_loggers s1 (zremove c (loggers s1)) in
  with_mods s2 (upd_mod c mm_close (mods s2)).

Definition cc_hdr : hdr := mgr_hdr MT_CLIENT_CLOSED SZ_CLIENT_CLOSED 0.

Lemma remove_unfold_explicit cfg rec c s : m_reg (find_mod c (mods s)) = true ->
  remove_module_with cfg rec c s = rm_rest cfg rec c (closed_state s c).
Proof. intros Hreg. unfold remove_module_with. unfold bind at 1. unfold get. rewrite Hreg. reflexivity. Qed.

Lemma closed_state_inv X c s : ~ In c X -> RegInvX X s -> m_reg (find_mod c (mods s)) = true ->
  RegInvX (c :: X) (closed_state s c) /\ 0 <= c /\ m_closed (find_mod c (mods s)) = false.
Proof.
  intros HcX H0 Hreg.
  assert (Hopen : m_closed (find_mod c (mods s)) = false).
  { destruct (m_closed (find_mod c (mods s))) eqn:E; [|reflexivity]. exfalso. apply HcX.
    pose proof (find_mod_reg_In c _ Hreg) as [Hi Hcc]. rewrite <- Hcc. apply (ro_flight _ _ _ _ _ H0 _ Hi Hreg E). }
  assert (Hpos : 0 <= c).
  { pose proof (find_mod_reg_In c _ Hreg) as [Hi Hcc]. rewrite <- Hcc. apply (ro_pos _ _ _ _ _ H0 _ Hi). }
  split; [|split; [exact Hpos|exact Hopen]].
  unfold closed_state. cbv zeta.
  set (s1 := with_subs s (drop_subs c (m_subs (find_mod c (mods s))) (subs s))).
  set (s2 := with_loggers s1 (zremove c (loggers s1))).
  assert (H1 : RegInvX X s1) by (apply reg_ok_drop_subs; exact H0).
  assert (H2 : RegInvX X s2) by (apply reg_ok_drop_logger; exact H1).
  unfold RegInvX. simpl. apply reg_ok_close; auto.
  - intros t. apply (drop_subs_gone _ _ _ _ _ c H0 t).
  - simpl. intro Hin. apply zremove_In in Hin. tauto.
Qed.

Theorem departure_exact cfg (k : nat) c s X :
  ~ In c X -> RegInvX X s -> m_reg (find_mod c (mods s)) = true -> 10 < loglevel cfg ->
  (forall f, In f (snapshot (closed_state s c) MT_CLIENT_CLOSED) ->
             zmem f (wl s) = true /\ flookup f (faults s) = None) ->
  exists s', remove_module_with cfg (forward cfg (Datatypes.S k)) c s = Ok tt s' /\
    out s' = out s ++ frames cc_hdr (client_payload true (find_mod c (mods (closed_state s c)))) (closed_state s c)
                             (snapshot (closed_state s c) MT_CLIENT_CLOSED) /\
    m_reg (find_mod c (mods s')) = false /\ m_closed (find_mod c (mods s')) = true /\
    ~ In c (snapshot (closed_state s c) MT_CLIENT_CLOSED) /\
    subs s' = subs (closed_state s c) /\ loggers s' = loggers (closed_state s c).
Proof.
  intros HcX H0 Hreg Hlog Henv.
  destruct (closed_state_inv X c s HcX H0 Hreg) as (H3 & Hpos & Hopen).
  rewrite (remove_unfold_explicit cfg _ c s Hreg). set (s3 := closed_state s c) in *.
  assert (Hnin : ~ In c (snapshot s3 MT_CLIENT_CLOSED)).
  { intros Hin. apply (snapshot_not_inflight (c :: X) s3 MT_CLIENT_CLOSED c H3 Hin). left. reflexivity. }
  destruct (ro_xreg _ _ _ _ _ H3 c (or_introl eq_refl)) as [Hr3 Hc3].
  unfold rm_rest. unfold bind at 1. fold (mlog cfg (Datatypes.S k)).
  assert (Hoff : loglevel cfg <=? 10 = false) by lia.
  unfold mlog_with at 1. rewrite Hoff. cbn [andb].
  unfold bind at 1. unfold get. unfold bind at 1. unfold send_mgr_with.
  destruct (forward_exact cfg k cc_hdr (client_payload true (find_mod c (mods s3))) s3) as (s' & E & Ho & Hsb & Hlg & Hkeep).
  - reflexivity.
  - reflexivity.
  - change (h_type cc_hdr) with MT_CLIENT_CLOSED. eapply snapshot_NoDup; eauto. discriminate.
  - change (h_type cc_hdr) with MT_CLIENT_CLOSED. intros f Hin. destruct (Henv f Hin) as [Hw Hf].
    eapply RegInv_ready; eauto.
  - change (mgr_hdr MT_CLIENT_CLOSED SZ_CLIENT_CLOSED 0) with cc_hdr. rewrite E.
    unfold bind at 1. unfold get.
    assert (Ek : find_mod c (mods s') = find_mod c (mods s3)) by (apply Hkeep; exact Hnin).
    rewrite Ek, Hr3. unfold set_mod, modify. eexists. split; [reflexivity|].
    cbn [out subs loggers mods with_mods]. split; [rewrite Ho; reflexivity|].
    assert (Hcc : m_conn (find_mod c (mods s')) = c) by (rewrite Ek; apply find_mod_conn_of_reg; exact Hr3).
    rewrite find_upd_same; auto; [|intro; reflexivity]. rewrite Hcc, Z.eqb_refl. cbn [mm_unreg m_reg m_closed].
    rewrite Ek. repeat split; auto.
Qed.
