(* C06: assign_module_id (Model/Manager.v: assign_loop) *)
From Coq Require Import ZArith List Bool Lia ZifyBool.
From Mgr Require Import Gen.MgrDefs Model.Manager Proofs.ListLemmas.
Import ListNotations.
Open Scope Z_scope.
Ltac Zify.zify_post_hook ::= Z.div_mod_to_equations.

Lemma dyn_consts : DYN_MOD_ID_START = 100 /\ MAX_DYN_IDS = 100 /\ MAX_MODULES = 200.
Proof. repeat split. Qed.

Lemma assign_loop_spec used : forall n off,
  0 <= off < MAX_DYN_IDS ->
  match assign_loop n off used with
  | (Some mid, off') =>
      ~ In mid used /\ DYN_MOD_ID_START <= mid < MAX_MODULES /\ 0 <= off' < MAX_DYN_IDS
  | (None, off') =>
      0 <= off' < MAX_DYN_IDS /\ off' = (off + Z.of_nat n) mod MAX_DYN_IDS /\
      forall j, 0 <= j < Z.of_nat n -> In (DYN_MOD_ID_START + (off + j) mod MAX_DYN_IDS) used
  end.
Proof.
  destruct dyn_consts as (E1 & E2 & E3). rewrite E1, E2, E3.
  induction n as [|n IH]; intros off Hoff; cbn [assign_loop].
  - split; [lia|]. split; [lia|]. intros j Hj. lia.
  - unfold dyn_wrap. rewrite E1, E2.
    set (off2 := if off + 1 =? 100 then 0 else off + 1).
    assert (Hoff2 : 0 <= off2 < 100 /\ off2 = (off + 1) mod 100) by (unfold off2; destruct (off + 1 =? 100) eqn:E; lia).
    destruct (zmem (off + 100) used) eqn:Em.
    + specialize (IH off2 (proj1 Hoff2)).
      destruct (assign_loop n off2 used) as [[mid|] off'].
      * exact IH.
      * destruct IH as (I1 & I2 & I3). split; [exact I1|]. split; [lia|].
        intros j Hj. destruct (Z.eq_dec j 0) as [->|Hj0].
        -- apply zmem_In in Em. replace (100 + (off + 0) mod 100) with (off + 100) by lia. exact Em.
        -- specialize (I3 (j - 1) ltac:(lia)).
           replace (100 + (off + j) mod 100) with (100 + (off2 + (j - 1)) mod 100) by lia. exact I3.
    + apply zmem_false in Em. split; [exact Em|]. lia.
Qed.

(* a full scan that finds nothing means every dynamic id is taken *)
Lemma assign_none_all_used used off off' :
  0 <= off < MAX_DYN_IDS -> assign_loop (Z.to_nat MAX_DYN_IDS) off used = (None, off') ->
  forall mid, DYN_MOD_ID_START <= mid < MAX_MODULES -> In mid used.
Proof.
  intros Hoff H mid Hmid. pose proof (assign_loop_spec used (Z.to_nat MAX_DYN_IDS) off Hoff) as S.
  rewrite H in S. destruct S as (_ & _ & S).
  destruct dyn_consts as (E1 & E2 & E3). rewrite E1, E2, E3 in *.
  specialize (S ((mid - 100 - off) mod 100) ltac:(lia)).
  replace (100 + (off + (mid - 100 - off) mod 100) mod 100) with mid in S by lia. exact S.
Qed.
