(* Every step of the manager preserves the step-level invariant and never raises anything but
   XFuel: C03 (modulo the nesting budget), C06 (unique identities), and the base of C07. *)
From Coq Require Import ZArith List Bool Lia ZifyBool.
From Mgr Require Import Gen.MgrDefs Model.Manager Proofs.ListLemmas Proofs.Hoare Proofs.RegInv Proofs.Frame
                        Proofs.RegTraverse Proofs.Assign Proofs.RegTop Proofs.Connect Proofs.Traffic.
Import ListNotations.
Open Scope Z_scope.

Definition NuInv (s : mstate) : Prop := 0 <= next_uid s.
Definition StepInv (s : mstate) : Prop := RegInv s /\ IdInv s /\ UniqInv s /\ DynInv s /\ NuInv s.

Definition S {A} (m : M A) : Prop :=
  forall s, StepInv s -> match m s with Ok _ s' => StepInv s' | Crash e _ => e = XFuel end.

Lemma StepInv_Keep s s' : StepInv s -> RegInv s' -> Keep s s' -> StepInv s'.
Proof.
  intros (H1 & H2 & H3 & H4 & H5) R K. split; [exact R|]. split; [eapply IdInv_Keep; eauto|].
  split; [eapply UniqInv_Keep; eauto|]. split; [unfold DynInv in *; rewrite (kp_dyn _ _ K); exact H4|].
  unfold NuInv in *. rewrite (kp_uid _ _ K). exact H5.
Qed.

Lemma T_S {A} (m : M A) : T m -> S m.
Proof.
  intros H s Hs. pose proof Hs as (R & _). specialize (H s R). destruct (m s); auto.
  destruct H as [R' K]. eapply StepInv_Keep; eauto.
Qed.

Lemma S_ret {A} (a : A) : S (ret a).
Proof. intros s H. exact H. Qed.

Lemma S_bind {A B} (m : M A) (k : A -> M B) : S m -> (forall a, S (k a)) -> S (bind m k).
Proof.
  intros Hm Hk s H. unfold bind. specialize (Hm s H). destruct (m s) as [a s1|e s1]; [|exact Hm]. apply Hk; auto.
Qed.

Lemma S_get {A} (k : mstate -> M A) :
  (forall s0, StepInv s0 -> match k s0 s0 with Ok _ s' => StepInv s' | Crash e _ => e = XFuel end) -> S (bind get k).
Proof. intros H s Hs. unfold bind, get. apply H; auto. Qed.

Lemma S_mapM {A} (f : A -> M unit) l : (forall x, S (f x)) -> S (mapM_ f l).
Proof. intros H. induction l as [|x r IH]; simpl; [apply S_ret|]. apply S_bind; [apply H|]. intros _. exact IH. Qed.

Lemma In_find_unique s x : RegInv s -> In x (mods s) -> find_mod (m_conn x) (mods s) = x.
Proof. intros H Hx. apply In_find_mod_nodup; auto. apply (ro_nodup _ _ _ _ _ H). Qed.

Lemma conn_StepInv c s s' :
  StepInv s -> RegInv s' -> KeepX c s s' -> DynInv s' ->
  ((m_connected (find_mod c (mods s)) = true /\ s' = s) \/
   (m_connected (find_mod c (mods s)) = false /\ ConnPost c s')) ->
  StepInv s'.
Proof.
  intros Hs R K D [[_ ->]|[Hcn P]]; [exact Hs|]. destruct Hs as (R0 & I0 & U0 & D0 & N0).
  split; [exact R|]. split; [|split; [|split; [exact D|unfold NuInv in *; rewrite (kx_uid _ _ _ K); exact N0]]].
  - intros x Hx Hr. destruct (Z.eq_dec (m_conn x) c) as [E|E].
    + pose proof (In_find_unique s' x R Hx) as Ef. rewrite E in Ef. rewrite <- Ef.
      apply P. rewrite Ef. exact Hr.
    + destruct (KeepX_In_r c s s' x K Hx E) as (a & Ha & [K1 K2 K3 K4 K5]). rewrite K2. apply I0; auto.
  - intros a b Ha Hb [La1 La2] [Lb1 Lb2] Hne Hid.
    destruct (Z.eq_dec (m_conn a) c) as [Ea|Ea]; destruct (Z.eq_dec (m_conn b) c) as [Eb|Eb]; try congruence.
    + pose proof (In_find_unique s' a R Ha) as Ef. rewrite Ea in Ef.
      assert (Hrc : m_reg (find_mod c (mods s')) = true) by (rewrite Ef; exact La1).
      destruct (P Hrc) as [_ Pu]. assert (Hcc : m_connected (find_mod c (mods s')) = true) by (rewrite Ef; exact La2).
      destruct (Pu Hcc b Hb (conj Lb1 Lb2) Eb ltac:(rewrite Ef; congruence)) as [Q1 Q2]. rewrite Ef in Q2. auto.
    + pose proof (In_find_unique s' b R Hb) as Ef. rewrite Eb in Ef.
      assert (Hrc : m_reg (find_mod c (mods s')) = true) by (rewrite Ef; exact Lb1).
      destruct (P Hrc) as [_ Pu]. assert (Hcc : m_connected (find_mod c (mods s')) = true) by (rewrite Ef; exact Lb2).
      destruct (Pu Hcc a Ha (conj La1 La2) Ea ltac:(rewrite Ef; congruence)) as [Q1 Q2]. rewrite Ef in Q2. auto.
    + destruct (KeepX_In_r c s s' a K Ha Ea) as (a0 & Ha0 & [A1 A2 A3 A4 A5]).
      destruct (KeepX_In_r c s s' b K Hb Eb) as (b0 & Hb0 & [B1 B2 B3 B4 B5]).
      rewrite A3, B3. apply U0; auto; try (split; auto); congruence.
Qed.

Section Steps.
Variable cfg : config.
Variable FUEL : nat.

Lemma S_mlog lvl : S (mlog cfg FUEL lvl).
Proof. apply T_S, J_T, J_mlog_top. Qed.
Lemma S_send_client_info c : S (send_client_info cfg FUEL c).
Proof. apply T_S, J_T, J_send_client_info. Qed.
Lemma S_send_ack c : S (send_ack cfg FUEL c).
Proof. apply T_S, J_T, J_send_ack. Qed.
Lemma S_remove_module c : S (remove_module cfg FUEL c).
Proof. apply T_S, J_T, J_remove_module_top. intros []. Qed.
Lemma S_fwd h p : S (fwd cfg FUEL h p).
Proof. apply T_S, J_T, J_fwd. Qed.
Lemma S_send_mgr t sz pl : S (send_mgr cfg FUEL t sz pl).
Proof. apply T_S, J_T, J_send_mgr_top. Qed.

Lemma S_set_keeps c f : keeps f -> (forall m, m_logger (f m) = m_logger m) -> (forall m, keep_mod m (f m)) -> S (set_mod c f).
Proof.
  intros K L Km. apply T_S. intros s H. unfold set_mod, modify. split.
  - unfold RegInv, RegInvX. simpl. apply reg_ok_upd'; auto.
  - apply Keep_upd; auto.
Qed.

Lemma km_name m n : keep_mod m (mm_name m n). Proof. constructor; auto. Qed.
Lemma km_pid m n : keep_mod m (mm_pid m n). Proof. constructor; auto. Qed.

Definition Spre {A} (P : mstate -> Prop) (m : M A) : Prop :=
  forall s, StepInv s -> P s -> match m s with Ok _ s' => StepInv s' | Crash e _ => e = XFuel end.

Lemma Tpre_Spre {A} P (m : M A) : Tpre P m -> Spre P m.
Proof.
  intros H s Hs Hp. pose proof Hs as (R & _). specialize (H s R Hp). destruct (m s); auto.
  destruct H as [R' K]. eapply StepInv_Keep; eauto.
Qed.

Lemma process_message_S c h ip : Spre (fun s => m_reg (find_mod c (mods s)) = true) (process_message cfg FUEL c h ip).
Proof.
  intros s Hs Hreg. unfold process_message. cbv zeta.
  destruct ((h_type h =? MT_CONNECT) || (h_type h =? MT_CONNECT_V2)).
  { unfold bind at 1. pose proof Hs as (R & I & U & D & N).
    pose proof (connect_module_spec cfg FUEL c h ip s R D Hreg) as C.
    destruct (connect_module cfg FUEL c h ip s) as [ok s1|e s1]; [|exact C].
    destruct C as (R1 & K1 & D1 & P1). pose proof (conn_StepInv c s s1 Hs R1 K1 D1 P1) as Hs1.
    destruct ok; [|exact Hs1].
    apply (S_bind (send_ack cfg FUEL c) _ (S_send_ack c)); [|exact Hs1]. intros _.
    apply S_bind; [apply S_send_client_info|]. intros _. apply S_mlog. }
  destruct (h_type h =? MT_DISCONNECT).
  { apply (S_bind _ _ (S_remove_module c)); [|exact Hs]. intros _. apply S_mlog. }
  destruct ((h_type h =? MT_SUBSCRIBE) || (h_type h =? MT_RESUME_SUBSCRIPTION)).
  { unfold bind at 1. destruct ip; try (cbn [ret]; apply S_send_ack; exact Hs).
    pose proof (Tpre_Spre _ _ (add_subscription_T cfg FUEL c msg_type) s Hs Hreg) as A.
    destruct (add_subscription cfg FUEL c msg_type s) as [u s1|e s1]; [|exact A]. apply S_send_ack; exact A. }
  destruct ((h_type h =? MT_UNSUBSCRIBE) || (h_type h =? MT_PAUSE_SUBSCRIPTION)).
  { unfold bind at 1. destruct ip; try (cbn [ret]; apply S_send_ack; exact Hs).
    pose proof (Tpre_Spre _ _ (remove_subscription_T cfg FUEL c msg_type) s Hs Hreg) as A.
    destruct (remove_subscription cfg FUEL c msg_type s) as [u s1|e s1]; [|exact A]. apply S_send_ack; exact A. }
  destruct (h_type h =? MT_CLIENT_SET_NAME).
  { revert s Hs Hreg. intros s Hs _. revert s Hs. apply S_bind; [|intros _; apply S_send_client_info].
    destruct ip; try apply S_mlog. destruct ascii; [|apply S_mlog].
    apply S_bind; [|intros _; apply S_mlog].
    apply S_set_keeps; [apply keeps_name|reflexivity|intro; apply km_name]. }
  destruct (h_type h =? MT_MODULE_READY).
  { revert s Hs Hreg. intros s Hs _. revert s Hs. apply S_bind; [|intros _; apply S_send_client_info].
    destruct ip; try apply S_ret. apply S_set_keeps; [apply keeps_pid|reflexivity|intro; apply km_pid]. }
  revert s Hs Hreg. intros s Hs _. revert s Hs. apply S_bind; [apply S_mlog|]. intros _. apply S_fwd.
Qed.

Lemma service_S c ib : S (service cfg FUEL c ib).
Proof.
  unfold service. apply S_get. intros s Hs.
  destruct (m_reg (find_mod c (mods s))) eqn:Hreg; cbn [negb]; [|exact Hs].
  assert (Rm : forall lvl, S (remove_module cfg FUEL c ;;; mlog cfg FUEL lvl)).
  { intros lvl. apply S_bind; [apply S_remove_module|]. intros _. apply S_mlog. }
  destruct ib as [h ip| |h| |h].
  - destruct (bad_size (h_nbytes h)); [apply Rm; exact Hs|]. apply process_message_S; auto.
  - apply Rm; exact Hs.
  - destruct (bad_size (h_nbytes h)); [apply Rm; exact Hs|].
    destruct (h_nbytes h =? 0); [apply process_message_S; auto|apply Rm; exact Hs].
  - apply Rm; exact Hs.
  - destruct (bad_size (h_nbytes h)); [apply Rm; exact Hs|].
    destruct (h_nbytes h =? 0); [apply process_message_S; auto|apply Rm; exact Hs].
Qed.


(* ---------- periodic senders ---------- *)

Lemma pid_writes_some l : (forall m, In m l -> - LEN_ModulePID <= m_mod_id m < LEN_ModulePID) ->
  exists pw, pid_writes l = Some pw.
Proof.
  induction l as [|m r IH]; intros H; simpl; [eexists; reflexivity|].
  destruct IH as [pw E]; [intros x Hx; apply H; right; exact Hx|]. rewrite E.
  pose proof (H m (or_introl eq_refl)) as Hm. unfold norm_index.
  destruct (m_mod_id m <? 0) eqn:E1.
  - destruct ((0 <=? m_mod_id m + LEN_ModulePID) && (m_mod_id m + LEN_ModulePID <? LEN_ModulePID)) eqn:E2; [eexists; reflexivity|lia].
  - destruct ((0 <=? m_mod_id m) && (m_mod_id m <? LEN_ModulePID)) eqn:E2; [eexists; reflexivity|lia].
Qed.

Lemma Keep_same_mods s s' : mods s' = mods s -> dyn_off s' = dyn_off s -> next_uid s' = next_uid s -> Keep s s'.
Proof. intros E1 E2 E3. constructor; auto. rewrite E1. apply Forall2_refl, keep_mod_refl. Qed.

Lemma S_modify_aux f : (forall s, mods (f s) = mods s /\ subs (f s) = subs s /\ loggers (f s) = loggers s /\
                                   dyn_off (f s) = dyn_off s /\ next_uid (f s) = next_uid s) -> S (modify f).
Proof.
  intros H. apply T_S. intros s R. simpl. destruct (H s) as (E1 & E2 & E3 & E4 & E5). split.
  - unfold RegInv, RegInvX in *. rewrite E1, E2, E3, E5. exact R.
  - apply Keep_same_mods; auto.
Qed.

Lemma send_timing_S : S (send_timing_message cfg FUEL).
Proof.
  unfold send_timing_message. apply S_get. intros s Hs. rewrite timing_writes_exact.
  pose proof Hs as (R & I & _).
  destruct (pid_writes_some (registered s)) as [pw E].
  { intros m Hm. unfold registered in Hm. apply filter_In in Hm. destruct Hm. apply I; auto. }
  rewrite E. cbv zeta. generalize (sending_traffic s). intros prev.
  generalize (map (fun x : Z * Z => (fst x, wrap16 (snd x))) (filter (fun x : Z * Z => timing_slot_ok (fst x)) (counts s))).
  intros tw. clear R I E. revert s Hs.
  apply S_bind; [apply S_modify_aux; intros; simpl; auto|]. intros _.
  apply S_bind; [apply S_modify_aux; intros; simpl; auto|]. intros _.
  apply S_bind; [apply S_send_mgr|]. intros _. apply S_modify_aux; intros; simpl; auto.
Qed.

Lemma send_traffic_S now : S (send_traffic cfg FUEL now).
Proof.
  unfold send_traffic. apply S_get. intros s Hs. cbv zeta. generalize (sending_traffic s). intros prev. revert s Hs.
  apply S_bind; [apply S_modify_aux; intros; simpl; auto|]. intros _.
  apply S_bind; [apply S_mlog|]. intros _.
  apply S_get. intros s1 Hs1. revert s1 Hs1.
  intros s1. generalize (traffic_seq s1), (traffic_messages (traffic s1)). intros sq l. revert s1.
  apply S_bind; [apply S_mapM; intros [[sub ty] ct]; apply S_send_mgr|]. intros _.
  apply S_bind; [apply S_modify_aux; intros; simpl; auto|]. intros _.
  apply S_bind; [apply S_modify_aux; intros; simpl; auto|]. intros _.
  apply S_modify_aux; intros; simpl; auto.
Qed.

Lemma active_slot_in_array i : active_slot_ok i && negb (i <? LEN_client_mod_id) = false.
Proof. unfold active_slot_ok. change MAX_ACTIVE_CLIENTS with 256. change LEN_client_mod_id with 256. lia. Qed.

Lemma active_loop_S : forall l i acc, S (active_loop cfg FUEL i l acc).
Proof.
  induction l as [|c r IH]; intros i acc; simpl; [apply S_ret|].
  apply S_get. intros s Hs. cbv zeta. rewrite active_slot_in_array.
  generalize (if active_slot_ok i then acc ++ [(m_mod_id (find_mod c (mods s)), m_pid (find_mod c (mods s)))] else acc).
  intros acc'. revert s Hs.
  apply S_bind; [apply S_ret|]. intros _. apply S_bind; [apply S_send_client_info|]. intros _. apply IH.
Qed.

Lemma send_active_S now : S (send_active_clients cfg FUEL now).
Proof.
  unfold send_active_clients. apply S_bind; [apply S_mlog|]. intros _.
  apply S_get. intros s Hs. revert s Hs. intros s0. generalize (map m_conn (registered s0)). intros l. revert s0.
  apply S_bind; [apply active_loop_S|]. intros entries.
  apply S_get. intros s1 Hs1. revert s1 Hs1. intros s1. generalize (Z.of_nat (length (registered s1)) - 1). intros n. revert s1.
  apply S_bind; [apply S_send_mgr|]. intros _. apply S_modify_aux; intros; simpl; auto.
Qed.

Lemma periodic_S now : S (periodic cfg FUEL now).
Proof.
  unfold periodic. apply S_get. intros s Hs. revert s Hs. intros s0.
  generalize (timing_on cfg && elapsed now (t_timing s0) PER_timing_num PER_timing_den). intros b0. revert s0.
  apply S_bind.
  { destruct b0; [|apply S_ret]. apply S_bind; [apply send_timing_S|]. intros _. apply S_modify_aux; intros; simpl; auto. }
  intros _. apply S_get. intros s1 Hs1. revert s1 Hs1. intros s1.
  generalize (elapsed now (t_traffic s1) PER_traffic_num PER_traffic_den). intros b1. revert s1.
  apply S_bind; [destruct b1; [apply send_traffic_S|apply S_ret]|]. intros _.
  apply S_get. intros s2 Hs2. revert s2 Hs2. intros s2.
  generalize (elapsed now (t_info s2) PER_info_num PER_info_den). intros b2. revert s2.
  destruct b2; [apply send_active_S|apply S_ret].
Qed.

(* ---------- one loop iteration ---------- *)

Lemma accept_StepInv s : StepInv s ->
  StepInv (with_uid (with_mods s (mods s ++ [new_module (next_uid s + 1)])) (next_uid s + 1)).
Proof.
  intros (R & I & U & D & N). unfold NuInv in N.
  assert (Hsplit : forall m, In m (mods s ++ [new_module (next_uid s + 1)]) -> In m (mods s) \/ m = new_module (next_uid s + 1)).
  { intros m Hin. apply in_app_or in Hin. destruct Hin as [Hin|[<-|[]]]; auto. }
  split; [|split; [|split; [|split]]].
  - unfold RegInv, RegInvX. simpl. apply reg_ok_accept; auto. lia.
  - intros m Hin Hr. simpl in Hin. destruct (Hsplit m Hin) as [H| ->]; [apply I; auto|].
    simpl. change LEN_ModulePID with 200. lia.
  - intros a b Ha Hb [La1 La2] [Lb1 Lb2] Hne Hid. simpl in Ha, Hb.
    destruct (Hsplit a Ha) as [Ha'| ->]; [|simpl in La2; discriminate].
    destruct (Hsplit b Hb) as [Hb'| ->]; [|simpl in Lb2; discriminate].
    apply U; auto; split; auto.
  - exact D.
  - unfold NuInv. simpl. lia.
Qed.

Lemma step_S e : S (step cfg FUEL e).
Proof.
  destruct e as [accept ready0 writable now|c n]; simpl.
  2:{ apply S_modify_aux. intros s. destruct (flookup c (faults s)) as [k|]; [destruct (k <=? 0)|]; simpl; auto. }
  apply S_get. intros s0 Hs0. revert s0 Hs0. intros s0.
  generalize (filter (fun x => m_reg (find_mod (fst x) (mods s0))) ready0). intros ready. revert s0.
  apply S_bind; [|intros _; apply periodic_S].
  destruct (accept || negb match ready with [] => true | _ :: _ => false end); [|apply S_ret].
  apply S_bind.
  { destruct accept; [|apply S_ret]. apply S_bind; [apply S_mlog|]. intros _.
    intros s Hs. simpl. apply accept_StepInv; exact Hs. }
  intros _. apply S_bind; [apply S_modify_aux; intros; simpl; auto|]. intros _.
  apply S_mapM. intros [c ib]. apply service_S.
Qed.

(* ---------- all histories ---------- *)

Lemma init0_StepInv : StepInv init0.
Proof.
  split; [|split; [|split; [|split]]].
  - constructor; simpl; try tauto; try (intros; contradiction); try (constructor; fail).
    + intros m [<-|[]] Hall. simpl in Hall. contradiction.
    + intros m [<-|[]] Hr. simpl in Hr. discriminate.
    + intros m [<-|[]]. simpl. lia.
    + intros m [<-|[]] _ _. reflexivity.
    + intros m [<-|[]] _ Hc. simpl in Hc. discriminate.
    + constructor; [simpl; tauto|constructor].
    + intros m [<-|[]]. simpl. lia.
  - intros m [<-|[]] _. simpl. change LEN_ModulePID with 200. lia.
  - intros a b [<-|[]] [<-|[]] _ _ Hne. contradiction.
  - unfold DynInv. simpl. change MAX_DYN_IDS with 100. lia.
  - unfold NuInv. simpl. lia.
Qed.

Lemma run_from_S : forall es r,
  match r with Ok _ s => StepInv s | Crash e _ => e = XFuel end ->
  match run_from cfg FUEL r es with Ok _ s => StepInv s | Crash e _ => e = XFuel end.
Proof.
  induction es as [|e es IH]; intros r Hr; destruct r as [u s|x s]; simpl; auto.
  apply IH. apply step_S. exact Hr.
Qed.

Theorem run_safe : forall es,
  match run cfg FUEL es with Ok _ s => StepInv s | Crash e _ => e = XFuel end.
Proof.
  intros es. unfold run. apply run_from_S. unfold init. apply S_mlog. exact init0_StepInv.
Qed.

End Steps.
