(* forward_exact at every reachable state: the registry invariant supplies everything about the
   recipients except what the environment decides (who is writable, whose sends fail). *)
From Coq Require Import ZArith List Bool Lia ZifyBool.
From Mgr Require Import Gen.MgrDefs Model.Manager Proofs.ListLemmas Proofs.Hoare Proofs.RegInv Proofs.RegTop
                        Proofs.StepInv Proofs.Routing Proofs.OutInv Proofs.C05Inv Proofs.Exact.
Import ListNotations.
Open Scope Z_scope.

Lemma RegInv_ready X s t c : RegInvX X s -> In c (snapshot s t) ->
  zmem c (wl s) = true -> flookup c (faults s) = None -> ready s c.
Proof.
  intros H Hin Hw Hf. destruct (snapshot_wants X s t c H Hin) as (Hr & Hc & _).
  destruct (find_mod_reg_In c _ Hr) as [Hi Hcc]. pose proof (ro_pos _ _ _ _ _ H _ Hi) as Hp.
  unfold ready. repeat split; auto. lia.
Qed.

Theorem forward_exact_reachable cfg fuel es u s (k : nat) h p :
  run cfg fuel es = Ok u s ->
  h_type h <> ALL_MESSAGE_TYPES ->
  bad_dest_mod (h_dst_mod h) = false -> bad_dest_host (h_dst_host h) = false ->
  (forall c, In c (snapshot s (h_type h)) -> zmem c (wl s) = true /\ flookup c (faults s) = None) ->
  exists s', forward cfg (Datatypes.S k) h p s = Ok tt s' /\
    out s' = out s ++ frames h p s (snapshot s (h_type h)) /\
    forall c, proj c (out s') = proj c (out s) ++
      (if in_dec Z.eq_dec c (snapshot s (h_type h))
       then if eligible (h_dst_mod h) s c then [OHdr (set_count h (cnt s c + 1)); OPay p] else []
       else []).
Proof.
  intros Hrun Ht Hm Hh Henv. pose proof (run_safe cfg fuel es) as R. rewrite Hrun in R. destruct R as (R & _).
  assert (Hnd : NoDup (snapshot s (h_type h))) by (eapply snapshot_NoDup; eauto).
  destruct (forward_exact cfg k h p s Hm Hh Hnd) as (s' & E & Ho & _).
  { intros c Hin. destruct (Henv c Hin) as [Hw Hf]. eapply RegInv_ready; eauto. }
  exists s'. split; [exact E|]. split; [exact Ho|]. intros c. rewrite Ho, proj_app. f_equal.
  destruct (in_dec Z.eq_dec c (snapshot s (h_type h))) as [Hin|Hnin].
  - destruct (eligible (h_dst_mod h) s c) eqn:El.
    + apply proj_frames_in; auto.
    + apply proj_frames_out. right. exact El.
  - apply proj_frames_out. left. exact Hnin.
Qed.

(* C14 at every reachable state *)
Theorem notice_exact_reachable cfg fuel es u s (k : nat) p hh c :
  run cfg fuel es = Ok u s ->
  zmem (h_type hh) no_notice_types = false ->
  m_reg (find_mod c (mods s)) = true -> zmem c (wl s) = false -> m_logger (find_mod c (mods s)) = false ->
  (forall f, In f (snapshot s MT_FAILED_MESSAGE) -> zmem f (wl s) = true /\ flookup f (faults s) = None) ->
  exists s', deliver_with cfg (forward cfg (Datatypes.S k)) p hh c s = Ok hh s' /\
    out s' = out s ++ frames fail_hdr (PFailed (m_mod_id (find_mod c (mods s))) hh) s (snapshot s MT_FAILED_MESSAGE) /\
    m_drops (find_mod c (mods s')) = m_drops (find_mod c (mods s)) + 1.
Proof.
  intros Hrun Ht Hreg Hw Hlg Henv. pose proof (run_safe cfg fuel es) as R. rewrite Hrun in R. destruct R as (R & _).
  assert (Hpos : 0 <= c).
  { destruct (find_mod_reg_In c _ Hreg) as [Hi Hcc]. pose proof (ro_pos _ _ _ _ _ R _ Hi). lia. }
  apply notice_exact; auto.
  - eapply snapshot_NoDup; eauto. discriminate.
  - intros f Hin. destruct (Henv f Hin). eapply RegInv_ready; eauto.
Qed.
