(* Invariants over what has been written (C05): a generic traversal.

   `view s` is everything such an invariant may look at: the output, the fault plan, and per
   module its connection, sequence counter and closed flag.  The only operations of the model
   that change the view are Module.send_message (mod_send), closing a module, accepting a
   connection and the fault event; everything else leaves it untouched.  Hence any predicate on
   the view that is preserved by those four is an invariant of every history - also at a crash. *)
From Coq Require Import ZArith List Bool Lia ZifyBool.
From Mgr Require Import Gen.MgrDefs Model.Manager Proofs.ListLemmas Proofs.Hoare.
Import ListNotations.
Open Scope Z_scope.

Definition mview (m : module) : Z * Z * bool := (m_conn m, m_count m, m_closed m).
Definition view (s : mstate) := (out s, faults s, map mview (mods s), next_uid s).

Lemma map_mview_upd c f l : (forall m, mview (f m) = mview m) -> map mview (upd_mod c f l) = map mview l.
Proof.
  intros H. induction l as [|m r IH]; simpl; [reflexivity|].
  destruct (m_conn m =? c); simpl; [rewrite H|rewrite IH]; reflexivity.
Qed.

(* the payload kinds and the byte count each occupies on the wire *)
Definition pay_size (p : payload) : Z :=
  match p with
  | PData _ len => len
  | PFailed _ _ => SZ_FAILED_MESSAGE
  | PClient false _ _ _ _ _ _ => SZ_CLIENT_INFO
  | PClient true _ _ _ _ _ _ => SZ_CLIENT_CLOSED
  | PTiming _ _ => SZ_TIMING_MESSAGE
  | PTraffic _ _ _ _ => SZ_MESSAGE_TRAFFIC
  | PActive _ _ => SZ_ACTIVE_CLIENTS
  | PLog _ => SZ_RTMA_LOG
  end.

(* the header declares exactly the size of the payload that follows it *)
Definition sized (h : hdr) (p : payload) : Prop := pay_size p = h_nbytes h.

Lemma sized_mgr t sz dst pl : pay_size pl = sz -> sized (mgr_hdr t sz dst) pl.
Proof. intros H. exact H. Qed.

Lemma mod_send_hdr c h p s :
  match mod_send c h p s with Ok r _ => h_nbytes (snd r) = h_nbytes h | Crash _ _ => True end.
Proof.
  unfold mod_send, bind, get, set_mod, modify, ret. cbv zeta.
  destruct (sendall c _ _) as [[| |] s2|e s2]; simpl; auto.
  destruct (sendall c _ s2) as [r2 s3|e s3]; simpl; auto.
Qed.

Section Generic.
Variable cfg : config.
Variable FUEL : nat.
Variable I : mstate -> Prop.
Hypothesis Hview : forall s s', view s' = view s -> I s -> I s'.
Hypothesis Hsend : forall c h p, sized h p -> pres I (mod_send c h p).
Hypothesis Hclose : forall c, pres I (set_mod c mm_close).
Hypothesis Haccept : forall s, I s -> I (with_uid (with_mods s (mods s ++ [new_module (next_uid s + 1)])) (next_uid s + 1)).
Hypothesis Hfault : forall c n s, I s -> (forall k, flookup c (faults s) = Some k -> 0 < k) ->
                                  I (with_out s (out s) (fset c n (faults s))).

Lemma pres_getk {A} (k : mstate -> M A) : (forall s0, pres I (k s0)) -> pres I (bind get k).
Proof. intros H s Hs. unfold bind, get. apply H; auto. Qed.

Lemma pres_view f : (forall s, view (f s) = view s) -> pres I (modify f).
Proof. intros H. apply pres_modify. intros s Hs. eapply Hview; eauto. Qed.

Lemma pres_set_view c f : (forall m, mview (f m) = mview m) -> pres I (set_mod c f).
Proof.
  intros H. unfold set_mod. apply pres_view. intros s. unfold view. simpl. rewrite map_mview_upd; auto.
Qed.

(* an operation that returns a header: the invariant, and the header still declares p's size *)
Definition presH (p : payload) (m : M hdr) : Prop :=
  hoare I m (fun hh' s => I s /\ sized hh' p) (fun _ => I).

Lemma presH_bind {B} p (m : M hdr) (k : hdr -> M B) :
  presH p m -> (forall hh', sized hh' p -> pres I (k hh')) -> pres I (bind m k).
Proof.
  intros Hm Hk s Hs. unfold bind. specialize (Hm s Hs). destruct (m s) as [hh' s'|e s']; [|exact Hm].
  destruct Hm as [Hi Hz]. exact (Hk hh' Hz s' Hi).
Qed.

Lemma presH_ret p hh : sized hh p -> presH p (ret hh).
Proof. intros Hz s Hs. simpl. auto. Qed.

Lemma presH_seq {A} p (m : M A) (k : M hdr) : pres I m -> presH p k -> presH p (bind m (fun _ => k)).
Proof.
  intros Hm Hk s Hs. unfold bind. specialize (Hm s Hs). destruct (m s) as [a s'|e s']; [|exact Hm]. exact (Hk s' Hm).
Qed.

Lemma presH_getk p (k : mstate -> M hdr) : (forall s0, presH p (k s0)) -> presH p (bind get k).
Proof. intros H s Hs. unfold bind, get. apply H; auto. Qed.

Ltac pv := first [ apply pres_view; intros; reflexivity
                 | apply pres_set_view; intros; reflexivity ].

Section WithRec.
Variable rec : hdr -> payload -> M unit.
Hypothesis Hrec : forall h p, sized h p -> pres I (rec h p).

Lemma o_mlog lvl : pres I (mlog_with cfg rec lvl).
Proof.
  intros s Hs. unfold mlog_with. destruct ((loglevel cfg <=? lvl) && rtma_log s); [|exact Hs].
  specialize (Hrec (mgr_hdr (log_type lvl) SZ_RTMA_LOG 0) (PLog lvl) eq_refl s Hs).
  destruct (rec (mgr_hdr (log_type lvl) SZ_RTMA_LOG 0) (PLog lvl) s) as [u s'|e s']; [exact Hrec|].
  destruct e; try exact Hrec; (eapply Hview; [|exact Hrec]; reflexivity).
Qed.

Lemma o_send_mgr t sz pl : pay_size pl = sz -> pres I (send_mgr_with rec t sz pl).
Proof. intros H. apply Hrec. exact H. Qed.

Lemma o_send_failed c hh : pres I (send_failed_with rec c hh).
Proof.
  unfold send_failed_with. destruct (zmem _ _); [apply pres_ret|]. apply pres_getk. intros s0. apply o_send_mgr. reflexivity.
Qed.

Lemma o_remove_module c : pres I (remove_module_with cfg rec c).
Proof.
  unfold remove_module_with. apply pres_getk. intros s0.
  destruct (negb (m_reg (find_mod c (mods s0)))); [apply pres_ret|].
  apply pres_bind; [pv|]. intros _. apply pres_bind; [pv|]. intros _.
  apply pres_bind; [apply Hclose|]. intros _. apply pres_bind; [apply o_mlog|]. intros _.
  apply pres_getk. intros s1. apply pres_bind; [apply o_send_mgr; reflexivity|]. intros _.
  apply pres_getk. intros s2. destruct (m_reg _); [pv|apply pres_crash].
Qed.

Lemma o_on_conn_err c hh : pres I (on_conn_err_with cfg rec c hh).
Proof.
  unfold on_conn_err_with. apply pres_bind; [apply o_remove_module|]. intros _.
  apply pres_bind; [apply o_mlog|]. intros _. apply o_send_failed.
Qed.

Lemma o_send_checked c hh p : sized hh p -> presH p (send_checked_with cfg rec c hh p).
Proof.
  intros Hz s Hs. unfold send_checked_with. unfold bind at 1.
  pose proof (Hsend c hh p Hz s Hs) as H1. pose proof (mod_send_hdr c hh p s) as H2.
  destruct (mod_send c hh p s) as [[r h'] s1|e s1]; [|exact H1]. simpl in H2.
  assert (Hz' : sized h' p) by (unfold sized in *; congruence).
  destruct r; cbn [fst snd].
  - assert (Hd : pres I (set_mod c (fun m => mm_drops m 0))) by pv.
    exact (presH_seq p _ _ Hd (presH_ret p h' Hz') s1 H1).
  - exact (presH_seq p _ _ (o_on_conn_err c h') (presH_ret p h' Hz') s1 H1).
  - exact (presH_seq p _ _ (o_on_conn_err c h') (presH_ret p h' Hz') s1 H1).
Qed.

Lemma presH_crash p e : presH p (@crash hdr e).
Proof. intros s Hs. exact Hs. Qed.

Lemma o_deliver p hh c : sized hh p -> presH p (deliver_with cfg rec p hh c).
Proof.
  intros Hz. unfold deliver_with. apply presH_getk. intros s0.
  destruct (negb _); [apply presH_ret; exact Hz|]. destruct (zmem c (wl s0)).
  - destruct (dest_filter _ _ _); [apply o_send_checked; exact Hz|apply presH_ret; exact Hz].
  - destruct (m_logger _); [destruct (m_closed _); [apply presH_crash|apply o_send_checked; exact Hz]|].
    apply presH_seq; [pv|]. apply presH_seq; [apply o_send_failed|]. apply presH_ret; exact Hz.
Qed.

Lemma o_deliver_loop p : forall l hh, sized hh p -> pres I (deliver_loop cfg rec p hh l).
Proof.
  induction l as [|c r IH]; intros hh Hz; simpl; [apply pres_ret|].
  apply (presH_bind p); [apply o_deliver; exact Hz|]. intros hh' Hz'. apply IH. exact Hz'.
Qed.

Lemma o_count_msg t : pres I (count_msg cfg t).
Proof. unfold count_msg. apply pres_getk. intros s0. destruct (negb _); [pv|apply pres_ret]. Qed.

Lemma o_forward_body h p : sized h p -> pres I (forward_body cfg rec h p).
Proof.
  intros Hz. unfold forward_body. apply pres_bind; [apply o_count_msg|]. intros _.
  destruct (bad_dest_mod _); [apply o_mlog|]. destruct (bad_dest_host _); [apply o_mlog|].
  apply pres_getk. intros s0. apply o_deliver_loop. exact Hz.
Qed.

End WithRec.

Lemma o_forward : forall fuel h p, sized h p -> pres I (forward cfg fuel h p).
Proof.
  induction fuel as [|k IH]; intros h p Hz; simpl; [apply pres_crash|]. apply o_forward_body; [exact IH|exact Hz].
Qed.

Notation fwd := (fwd cfg FUEL).
Lemma o_fwd h p : sized h p -> pres I (fwd h p). Proof. apply o_forward. Qed.
Lemma ot_mlog lvl : pres I (mlog cfg FUEL lvl). Proof. apply o_mlog. intros; apply o_fwd; assumption. Qed.
Lemma ot_send_mgr t sz pl : pay_size pl = sz -> pres I (send_mgr cfg FUEL t sz pl). Proof. intros H. apply o_send_mgr; [intros; apply o_fwd; assumption|exact H]. Qed.
Lemma ot_send_failed c hh : pres I (send_failed cfg FUEL c hh). Proof. apply o_send_failed. intros; apply o_fwd; assumption. Qed.
Lemma ot_remove_module c : pres I (remove_module cfg FUEL c). Proof. apply o_remove_module. intros; apply o_fwd; assumption. Qed.
Lemma ot_send_checked c hh p : sized hh p -> presH p (send_checked cfg FUEL c hh p). Proof. apply o_send_checked. intros; apply o_fwd; assumption. Qed.

Lemma ot_send_client_info c : pres I (send_client_info cfg FUEL c).
Proof.
  unfold send_client_info. apply pres_bind; [apply ot_mlog|]. intros _. apply pres_getk. intros s0. apply ot_send_mgr.
  unfold client_payload. reflexivity.
Qed.

Lemma ot_loggers_loop : forall l hh p, sized hh p -> pres I (loggers_loop cfg FUEL hh p l).
Proof.
  induction l as [|c r IH]; intros hh p Hz; simpl; [apply pres_ret|].
  apply pres_getk. intros s0. destruct (negb _); [apply IH; exact Hz|].
  destruct (_ && _); [apply pres_crash|]. apply (presH_bind p); [apply ot_send_checked; exact Hz|]. intros hh' Hz'. apply IH. exact Hz'.
Qed.

Lemma ot_send_ack c : pres I (send_ack cfg FUEL c).
Proof.
  unfold send_ack. apply pres_getk. intros s0. apply (presH_bind (PData 0 0)); [apply ot_send_checked; reflexivity|]. intros hh' Hz'.
  unfold send_to_loggers. apply pres_getk. intros s1. apply ot_loggers_loop. exact Hz'.
Qed.

Lemma ot_assign : pres I (assign_module_id cfg FUEL).
Proof.
  unfold assign_module_id. apply pres_getk. intros s0. cbv zeta.
  destruct (assign_loop _ _ _) as [[mid|] off]; (apply pres_bind; [pv|]); intros _; [apply pres_ret|].
  apply pres_bind; [apply ot_mlog|]. intros _. apply pres_ret.
Qed.

Lemma ot_connect_scan c me : forall others, pres I (connect_scan cfg FUEL c me others).
Proof.
  induction others as [|m r IH]; simpl; [apply pres_ret|].
  destruct (m_conn m =? c); [exact IH|].
  assert (R : pres I (mlog cfg FUEL 40 ;;; remove_module cfg FUEL c ;;; ret true)).
  { apply pres_bind; [apply ot_mlog|]. intros _. apply pres_bind; [apply ot_remove_module|]. intros _. apply pres_ret. }
  destruct (_ && _); [exact R|]. destruct (negb _); [|exact IH].
  destruct (_ && _); [exact R|]. apply pres_bind; [apply ot_mlog|]. intros _. exact IH.
Qed.

Lemma ot_connect_module c h ip : pres I (connect_module cfg FUEL c h ip).
Proof.
  unfold connect_module. apply pres_getk. intros s0. destruct (m_connected _); [apply pres_ret|].
  assert (R : pres I (mlog cfg FUEL 40 ;;; remove_module cfg FUEL c ;;; ret true)).
  { apply pres_bind; [apply ot_mlog|]. intros _. apply pres_bind; [apply ot_remove_module|]. intros _. apply pres_ret. }
  apply pres_bind.
  { destruct ip; try apply pres_ret.
    - apply pres_bind; [pv|]. intros _. apply pres_bind; [pv|]. intros _. apply pres_ret.
    - apply pres_bind; [pv|]. intros _. destruct ascii; [|exact R].
      apply pres_bind; [pv|]. intros _. apply pres_bind; [pv|]. intros _. apply pres_ret. }
  intros bad. destruct bad; [apply pres_ret|]. apply pres_getk. intros s1. apply pres_bind.
  { destruct (negb _).
    - destruct (bad_user_id _); [exact R|apply ot_connect_scan].
    - apply pres_bind; [apply ot_assign|]. intros [mid|].
      + apply pres_bind; [pv|]. intros _. apply pres_ret.
      + apply pres_bind; [apply ot_remove_module|]. intros _. apply pres_ret. }
  intros refused. destruct refused; [apply pres_ret|].
  apply pres_bind; [pv|]. intros _. apply pres_getk. intros s2.
  apply pres_bind; [destruct (m_logger _ && m_reg _); [pv|apply pres_ret]|]. intros _. apply pres_ret.
Qed.

Lemma ot_add_subscription c t : pres I (add_subscription cfg FUEL c t).
Proof.
  unfold add_subscription. apply pres_getk. intros s0. destruct (t =? _).
  - apply pres_bind; [pv|]. intros _. apply pres_bind; [pv|]. intros _. apply pres_bind; [pv|]. intros _. apply ot_mlog.
  - destruct (zmem _ _); [apply pres_ret|].
    apply pres_bind; [pv|]. intros _. apply pres_bind; [pv|]. intros _. apply ot_mlog.
Qed.

Lemma ot_remove_subscription c t : pres I (remove_subscription cfg FUEL c t).
Proof.
  unfold remove_subscription. apply pres_getk. intros s0. destruct (t =? _).
  - apply pres_bind; [pv|]. intros _. apply pres_bind; [pv|]. intros _. apply pres_bind; [pv|]. intros _. apply ot_mlog.
  - destruct (zmem _ _); [apply pres_ret|].
    apply pres_bind; [pv|]. intros _. apply pres_bind; [pv|]. intros _. apply ot_mlog.
Qed.

Lemma ot_process_message c h ip : pres I (process_message cfg FUEL c h ip).
Proof.
  unfold process_message. cbv zeta.
  destruct (_ || _).
  { apply pres_bind; [apply ot_connect_module|]. intros ok. destruct ok; [|apply pres_ret].
    apply pres_bind; [apply ot_send_ack|]. intros _. apply pres_bind; [apply ot_send_client_info|]. intros _. apply ot_mlog. }
  destruct (_ =? MT_DISCONNECT). { apply pres_bind; [apply ot_remove_module|]. intros _. apply ot_mlog. }
  destruct (_ || _).
  { apply pres_bind; [destruct ip; try apply pres_ret; apply ot_add_subscription|]. intros _. apply ot_send_ack. }
  destruct (_ || _).
  { apply pres_bind; [destruct ip; try apply pres_ret; apply ot_remove_subscription|]. intros _. apply ot_send_ack. }
  destruct (_ =? MT_CLIENT_SET_NAME).
  { apply pres_bind; [|intros _; apply ot_send_client_info]. destruct ip; try apply ot_mlog.
    destruct ascii; [|apply ot_mlog]. apply pres_bind; [pv|]. intros _. apply ot_mlog. }
  destruct (_ =? MT_MODULE_READY).
  { apply pres_bind; [|intros _; apply ot_send_client_info]. destruct ip; try apply pres_ret. pv. }
  apply pres_bind; [apply ot_mlog|]. intros _. apply o_fwd. destruct ip; reflexivity.
Qed.

Lemma ot_service c ib : pres I (service cfg FUEL c ib).
Proof.
  unfold service. apply pres_getk. intros s0. destruct (negb _); [apply pres_ret|].
  assert (R : forall lvl, pres I (remove_module cfg FUEL c ;;; mlog cfg FUEL lvl)).
  { intros lvl. apply pres_bind; [apply ot_remove_module|]. intros _. apply ot_mlog. }
  destruct ib as [h ip| |h| |h]; try apply R.
  - destruct (bad_size _); [apply R|apply ot_process_message].
  - destruct (bad_size _); [apply R|]. destruct (_ =? 0); [apply ot_process_message|apply R].
  - destruct (bad_size _); [apply R|]. destruct (_ =? 0); [apply ot_process_message|apply R].
Qed.

Lemma ot_send_timing : pres I (send_timing_message cfg FUEL).
Proof.
  unfold send_timing_message. apply pres_getk. intros s0.
  destruct (timing_writes _); [|apply pres_crash]. apply pres_bind; [pv|]. intros _.
  destruct (pid_writes _); [|apply pres_crash]. cbv zeta.
  apply pres_bind; [pv|]. intros _. apply pres_bind; [apply ot_send_mgr; reflexivity|]. intros _. pv.
Qed.

Lemma ot_send_traffic now : pres I (send_traffic cfg FUEL now).
Proof.
  unfold send_traffic. apply pres_getk. intros s0. cbv zeta.
  apply pres_bind; [pv|]. intros _. apply pres_bind; [apply ot_mlog|]. intros _.
  apply pres_getk. intros s1.
  apply pres_bind; [apply pres_mapM; intros [[sub ty] ct]; apply ot_send_mgr; reflexivity|]. intros _.
  apply pres_bind; [pv|]. intros _. apply pres_bind; [pv|]. intros _. pv.
Qed.

Lemma ot_active_loop : forall l i acc, pres I (active_loop cfg FUEL i l acc).
Proof.
  induction l as [|c r IH]; intros i acc; simpl; [apply pres_ret|].
  apply pres_getk. intros s0. cbv zeta.
  apply pres_bind; [destruct (_ && _); [apply pres_crash|apply pres_ret]|]. intros _.
  apply pres_bind; [apply ot_send_client_info|]. intros _. apply IH.
Qed.

Lemma ot_send_active now : pres I (send_active_clients cfg FUEL now).
Proof.
  unfold send_active_clients. apply pres_bind; [apply ot_mlog|]. intros _.
  apply pres_getk. intros s0. apply pres_bind; [apply ot_active_loop|]. intros entries.
  apply pres_getk. intros s1. apply pres_bind; [apply ot_send_mgr; reflexivity|]. intros _. pv.
Qed.

Lemma ot_periodic now : pres I (periodic cfg FUEL now).
Proof.
  unfold periodic. apply pres_getk. intros s0.
  apply pres_bind; [destruct (_ && _); [apply pres_bind; [apply ot_send_timing|intros _; pv]|apply pres_ret]|]. intros _.
  apply pres_getk. intros s1. apply pres_bind; [destruct (elapsed _ _ _ _); [apply ot_send_traffic|apply pres_ret]|]. intros _.
  apply pres_getk. intros s2. destruct (elapsed _ _ _ _); [apply ot_send_active|apply pres_ret].
Qed.

Lemma ot_step e : pres I (step cfg FUEL e).
Proof.
  destruct e as [accept ready0 writable now|c n]; simpl.
  2:{ apply pres_modify. intros s Hs. destruct (flookup c (faults s)) as [k|] eqn:E; [destruct (k <=? 0) eqn:Ek; [exact Hs|]|];
      apply Hfault; auto; intros k' Hk'; rewrite E in Hk'; [inversion Hk'; subst; lia|discriminate]. }
  apply pres_getk. intros s0. cbv zeta.
  apply pres_bind; [|intros _; apply ot_periodic].
  destruct (_ || _); [|apply pres_ret].
  apply pres_bind.
  { destruct accept; [|apply pres_ret]. apply pres_bind; [apply ot_mlog|]. intros _.
    apply pres_modify. exact Haccept. }
  intros _. apply pres_bind; [pv|]. intros _. apply pres_mapM. intros [c ib]. apply ot_service.
Qed.

Theorem out_invariant : I init0 -> forall es, I (st (run cfg FUEL es)).
Proof.
  intros H0 es. unfold run.
  assert (Hi : I (st (init cfg FUEL))) by (unfold init; apply pres_st; [apply ot_mlog|exact H0]).
  revert Hi. generalize (init cfg FUEL). induction es as [|e es IH]; intros r Hr; destruct r as [u s|x s]; simpl in *; auto.
  apply IH. apply pres_st; [apply ot_step|exact Hr].
Qed.

End Generic.
