(* C01 / C07 / C14, the liveness half, unconditionally: a recipient that is subscribed, writable, passes the
   destination filter and whose own writes do not fail receives the published message EXACTLY ONCE, as one whole
   frame - whatever happens to the other recipients, to the subscribers of the notices, whatever the log level and
   however deep the nested removals go - whenever forward_message returns at all (the only alternative is running
   out of the nesting budget, cf. Proofs/FuelTop.v); and it is still registered, open and fault-free afterwards.

   Key fact: a connection with an open socket and no armed fault is never closed or unregistered by
   forward_message or anything it re-enters (removal is only ever triggered by a failed write to that very
   connection), stays fault-free (a fault plan only changes on the connection written to, and only if armed),
   keeps its identity, its place in the writable set and its subscriptions. *)
From Coq Require Import ZArith List Bool Lia ZifyBool.
From Mgr Require Import Gen.MgrDefs Model.Manager Proofs.ListLemmas Proofs.Hoare Proofs.RegInv Proofs.Frame
                        Proofs.RegTraverse Proofs.RegTop Proofs.StepInv Proofs.Routing Proofs.OutInv Proofs.C05Inv
                        Proofs.Exact Proofs.ExactTop Proofs.AckExact Proofs.FailExact Proofs.CtrlExact
                        Proofs.OnlyRecipients.
Import ListNotations.
Open Scope Z_scope.

(* ---------- a healthy connection is left alone by the whole closure of forward_message ---------- *)
Section Keep.
Variable cfg : config.
Variable c : Z.
Variable s0 : mstate.

Definition Stays (s : mstate) : Prop :=
  0 <= c /\ m_reg (find_mod c (mods s)) = true /\ m_closed (find_mod c (mods s)) = false /\
  flookup c (faults s) = None /\
  m_mod_id (find_mod c (mods s)) = m_mod_id (find_mod c (mods s0)) /\
  m_logger (find_mod c (mods s)) = m_logger (find_mod c (mods s0)) /\
  wl s = wl s0 /\ forall t, In c (alookup t (subs s0)) -> In c (alookup t (subs s)).

Lemma Stays_ext s s' :
  m_reg (find_mod c (mods s')) = m_reg (find_mod c (mods s)) -> m_closed (find_mod c (mods s')) = m_closed (find_mod c (mods s)) ->
  m_mod_id (find_mod c (mods s')) = m_mod_id (find_mod c (mods s)) -> m_logger (find_mod c (mods s')) = m_logger (find_mod c (mods s)) ->
  flookup c (faults s') = flookup c (faults s) -> wl s' = wl s ->
  (forall t, In c (alookup t (subs s)) -> In c (alookup t (subs s'))) -> Stays s -> Stays s'.
Proof.
  intros E1 E2 E3 E4 E5 E6 E7 (A & B & C & D & E & F & G & H). unfold Stays. rewrite E1, E2, E3, E4, E5, E6. auto 12.
Qed.

Lemma k_getk {A} (k : mstate -> M A) : (forall s1, pres Stays (k s1)) -> pres Stays (bind get k).
Proof. intros H s Hs. unfold bind, get. apply H; auto. Qed.

(* an update that keeps registration, socket and identity of whatever module it touches *)
Lemma k_set_keep c' f :
  (forall m, m_reg (f m) = m_reg m /\ m_closed (f m) = m_closed m /\ m_mod_id (f m) = m_mod_id m /\ m_logger (f m) = m_logger m) ->
  conn_pres f -> pres Stays (set_mod c' f).
Proof.
  intros Hf Hc. unfold set_mod. apply pres_modify. intros s. apply Stays_ext; cbn [mods faults wl subs with_mods]; auto;
    apply (find_upd_field _ c' c f); auto; intro m; destruct (Hf m) as (A & B & C & D); auto.
Qed.

(* any update of another module *)
Lemma k_set_other c' f : conn_pres f -> c' <> c -> pres Stays (set_mod c' f).
Proof.
  intros Hc Hne. unfold set_mod. apply pres_modify. intros s.
  assert (E : find_mod c (mods (with_mods s (upd_mod c' f (mods s)))) = find_mod c (mods s)).
  { cbn [mods with_mods]. apply find_upd_other; auto. }
  apply Stays_ext; try (rewrite E; reflexivity); auto.
Qed.

Lemma k_modify_plain f :
  (forall s, mods (f s) = mods s /\ faults (f s) = faults s /\ wl (f s) = wl s /\ subs (f s) = subs s) -> pres Stays (modify f).
Proof.
  intros H. apply pres_modify. intros s. destruct (H s) as (A & B & C & D).
  apply Stays_ext; rewrite ?A, ?B, ?C, ?D; auto.
Qed.

Lemma k_drop_subs c' ts : c' <> c -> pres Stays (modify (fun s => with_subs s (drop_subs c' ts (subs s)))).
Proof.
  intros Hne. apply pres_modify. intros s. apply Stays_ext; auto. cbn [subs with_subs]. intros t Hin.
  rewrite alookup_drop_subs. destruct (zmem t ts); [apply zremove_In; auto|exact Hin].
Qed.

Lemma k_sendall c' it : c' <> c -> pres Stays (sendall c' it).
Proof.
  intros Hne s Hs. destruct (sendall_cases c' it s) as [[_ E]|[(_ & _ & E)|(_ & f' & E & Hf & _)]]; rewrite E; [exact Hs|exact Hs|].
  revert Hs. apply Stays_ext; auto; cbn [faults with_out]; apply Hf; auto.
Qed.

Lemma k_mod_send c' hh p :
  hoare Stays (mod_send c' hh p) (fun r s => Stays s /\ (c' = c -> fst r = SOk)) (fun _ => Stays).
Proof.
  intros s Hs. destruct (Z.eq_dec c' c) as [->|Hne].
  - destruct Hs as (A & B & C & D & E & F & G & H). rewrite (mod_send_exact c hh p s A C D). cbn [fst]. split; [|auto].
    unfold Stays. cbn [mods faults wl subs with_out with_mods].
    rewrite !(find_upd_field _ c c (fun m => mm_count m (cnt s c + 1))); try (intro; reflexivity). auto 12.
  - rewrite mod_send_eq. cbv zeta.
    set (s1 := with_mods s (upd_mod c' (fun m => mm_count m (m_count (find_mod c' (mods s)) + 1)) (mods s))).
    assert (H1 : Stays s1) by exact (k_set_other c' (fun m => mm_count m (m_count (find_mod c' (mods s)) + 1)) (fun _ => eq_refl) Hne s Hs).
    pose proof (k_sendall c' (OHdr (set_count hh (m_count (find_mod c' (mods s)) + 1))) Hne s1 H1) as H2.
    destruct (sendall c' (OHdr _) s1) as [[| |] s2|e s2]; try exact H2; try (split; [exact H2|intros; contradiction]).
    pose proof (k_sendall c' (OPay p) Hne s2 H2) as H3.
    destruct (sendall c' (OPay p) s2) as [r s3|e s3]; [|exact H3]. split; [exact H3|intros; contradiction].
Qed.

Section WithRec.
Variable rec : hdr -> payload -> M unit.
Hypothesis Hrec : forall hm pm, pres Stays (rec hm pm).

Lemma k_mlog lvl : pres Stays (mlog_with cfg rec lvl).
Proof.
  intros s Hs. unfold mlog_with. destruct ((loglevel cfg <=? lvl) && rtma_log s); [|exact Hs].
  pose proof (Hrec (mgr_hdr (log_type lvl) SZ_RTMA_LOG 0) (PLog lvl) s Hs) as H.
  destruct (rec (mgr_hdr (log_type lvl) SZ_RTMA_LOG 0) (PLog lvl) s) as [u s'|e s']; [exact H|].
  destruct e; try exact H; (revert H; apply Stays_ext; auto).
Qed.

Lemma k_send_mgr t sz pl : pres Stays (send_mgr_with rec t sz pl).
Proof. apply Hrec. Qed.

Lemma k_send_failed c' hh : pres Stays (send_failed_with rec c' hh).
Proof. unfold send_failed_with. destruct (zmem _ _); [apply pres_ret|]. apply k_getk. intros s1. apply k_send_mgr. Qed.

(* removing ANOTHER module *)
Lemma k_remove_module c' : c' <> c -> pres Stays (remove_module_with cfg rec c').
Proof.
  intros Hne. unfold remove_module_with. apply k_getk. intros s1.
  destruct (negb (m_reg (find_mod c' (mods s1)))); [apply pres_ret|].
  apply pres_bind; [apply k_drop_subs; exact Hne|]. intros _.
  apply pres_bind; [apply k_modify_plain; intros; cbn; auto|]. intros _.
  apply pres_bind; [apply k_set_other; [intro; reflexivity|exact Hne]|]. intros _.
  apply pres_bind; [apply k_mlog|]. intros _.
  apply k_getk. intros s2. apply pres_bind; [apply k_send_mgr|]. intros _.
  apply k_getk. intros s3. destruct (m_reg _); [apply k_set_other; [intro; reflexivity|exact Hne]|apply pres_crash].
Qed.

Lemma k_on_conn_err c' hh : c' <> c -> pres Stays (on_conn_err_with cfg rec c' hh).
Proof.
  intros Hne. unfold on_conn_err_with. apply pres_bind; [apply k_remove_module; exact Hne|]. intros _.
  apply pres_bind; [apply k_mlog|]. intros _. apply k_send_failed.
Qed.

(* a failed write can only be a write to somebody else *)
Lemma k_send_checked c' hh p : pres Stays (send_checked_with cfg rec c' hh p).
Proof.
  intros s Hs. unfold send_checked_with. unfold bind at 1. pose proof (k_mod_send c' hh p s Hs) as H1.
  destruct (mod_send c' hh p s) as [[r h'] s1|e s1]; [|exact H1]. destruct H1 as [H1 Hok]. cbn [fst snd] in *.
  assert (Kd : pres Stays (set_mod c' (fun m => mm_drops m 0) ;;; ret h')).
  { apply pres_bind; [apply k_set_keep; [intro; auto|intro; reflexivity]|]. intros _. apply pres_ret. }
  destruct r.
  - exact (Kd s1 H1).
  - assert (Hne : c' <> c) by (intro E; specialize (Hok E); discriminate).
    assert (Ke : pres Stays (on_conn_err_with cfg rec c' h' ;;; ret h')) by (apply pres_bind; [apply k_on_conn_err; exact Hne|intros _; apply pres_ret]).
    exact (Ke s1 H1).
  - assert (Hne : c' <> c) by (intro E; specialize (Hok E); discriminate).
    assert (Ke : pres Stays (on_conn_err_with cfg rec c' h' ;;; ret h')) by (apply pres_bind; [apply k_on_conn_err; exact Hne|intros _; apply pres_ret]).
    exact (Ke s1 H1).
Qed.

Lemma k_deliver p hh c' : pres Stays (deliver_with cfg rec p hh c').
Proof.
  unfold deliver_with. apply k_getk. intros s1.
  destruct (negb _); [apply pres_ret|]. destruct (zmem c' (wl s1)).
  - destruct (dest_filter _ _ _); [apply k_send_checked|apply pres_ret].
  - destruct (m_logger _); [destruct (m_closed _); [apply pres_crash|apply k_send_checked]|].
    apply pres_bind; [apply k_set_keep; [intro; auto|intro; reflexivity]|]. intros _.
    apply pres_bind; [apply k_send_failed|]. intros _. apply pres_ret.
Qed.

Lemma k_deliver_loop p : forall l hh, pres Stays (deliver_loop cfg rec p hh l).
Proof.
  induction l as [|c' r IH]; intros hh; cbn [deliver_loop]; [apply pres_ret|].
  apply pres_bind; [apply k_deliver|]. intros hh'. apply IH.
Qed.

Lemma k_count_msg t : pres Stays (count_msg cfg t).
Proof. unfold count_msg. apply k_getk. intros s1. destruct (negb _); [apply k_modify_plain; intros; cbn; auto|apply pres_ret]. Qed.

Lemma k_forward_body h p : pres Stays (forward_body cfg rec h p).
Proof.
  unfold forward_body. apply pres_bind; [apply k_count_msg|]. intros _.
  destruct (bad_dest_mod _); [apply k_mlog|]. destruct (bad_dest_host _); [apply k_mlog|].
  apply k_getk. intros s1. apply k_deliver_loop.
Qed.

End WithRec.

Lemma k_forward : forall fuel h p, pres Stays (forward cfg fuel h p).
Proof.
  induction fuel as [|k IH]; intros h p; cbn [forward]; [apply pres_crash|]. apply k_forward_body. exact IH.
Qed.

End Keep.

(* ---------- the published message reaches the healthy recipient ---------- *)

(* exactly one copy, one whole frame *)
Definition served_once (h : hdr) (p : payload) (c : Z) (suf : list (Z * item)) : Prop :=
  (exists a n b, suf = a ++ [(c, OHdr (set_count h n)); (c, OPay p)] ++ b /\
                 filter (same_item h) (proj c a) = [] /\ filter (same_item h) (proj c b) = []) /\
  length (filter (same_item h) (proj c suf)) = 1%nat.

Lemma same_item_count h n : same_item h (OHdr (set_count h n)) = true.
Proof. unfold same_item, same_msgb. apply hdr_eqb_spec. reflexivity. Qed.

Lemma served_split h p c a n b :
  filter (same_item h) (proj c (a ++ [(c, OHdr (set_count h n)); (c, OPay p)] ++ b)) =
  filter (same_item h) (proj c a) ++ [OHdr (set_count h n)] ++ filter (same_item h) (proj c b).
Proof.
  rewrite !proj_app, !filter_app. cbn [proj]. rewrite Z.eqb_refl. cbn [filter app]. rewrite same_item_count. reflexivity.
Qed.

Lemma served_from h p c a n b :
  (length (filter (same_item h) (proj c (a ++ [(c, OHdr (set_count h n)); (c, OPay p)] ++ b))) <= 1)%nat ->
  served_once h p c (a ++ [(c, OHdr (set_count h n)); (c, OPay p)] ++ b).
Proof.
  intros Hle. unfold served_once. rewrite served_split in *. rewrite !app_length in *. cbn [length] in *.
  assert (Ha : filter (same_item h) (proj c a) = []) by (destruct (filter (same_item h) (proj c a)); [reflexivity|cbn [length] in Hle; lia]).
  assert (Hb : filter (same_item h) (proj c b) = []) by (destruct (filter (same_item h) (proj c b)); [reflexivity|cbn [length] in Hle; lia]).
  split; [exists a, n, b; auto|]. rewrite Ha, Hb. reflexivity.
Qed.

Section Served.
Variable cfg : config.
Variable p : payload.
Variable h : hdr.
Hypothesis Hext : h_extra h <> 0.
Variable c : Z.
Variable s0 : mstate.                      (* the state in which c is judged *)
Hypothesis Hwl : zmem c (wl s0) = true.
Hypothesis Hel : eligible (h_dst_mod h) s0 c = true.

Lemma Post_N o0 L si x s' : Post p h o0 L si x s' -> exists L', N p o0 L' s'.
Proof. intros [A|(n & _ & A)]; eauto. Qed.

(* the output only grows along the loop *)
Lemma ext_loop k o0 : forall r hh si L, hsame h hh -> N p o0 L si ->
  exists L', N p o0 L' (st (deliver_loop cfg (forward cfg k) p hh r si)).
Proof.
  induction r as [|x r IH]; intros hh si L Hh HN; [exists L; exact HN|].
  cbn [deliver_loop]. unfold bind at 1. pose proof (deliver_top cfg p h Hext o0 k L hh x si Hh HN) as D.
  destruct (deliver_with cfg (forward cfg k) p hh x si) as [hh' s1|e s1].
  - destruct D as [Hh' P1]. destruct (Post_N _ _ _ _ _ P1) as (L1 & HN1). apply (IH hh' s1 L1 Hh' HN1).
  - cbn [st]. apply (Post_N _ _ _ _ _ D).
Qed.

Lemma N_ext o0 L s' : N p o0 L s' -> exists suf, out s' = o0 ++ suf.
Proof. intros (suf & Ho & _). exists suf. exact Ho. Qed.

Lemma served_loop k : forall r hh si s', hsame h hh -> Stays c s0 si -> In c r ->
  deliver_loop cfg (forward cfg k) p hh r si = Ok tt s' ->
  exists a n b, out s' = out si ++ a ++ [(c, OHdr (set_count h n)); (c, OPay p)] ++ b /\ Stays c s0 s'.
Proof.
  assert (Hrec : forall hm pm, pres (Stays c s0) (forward cfg k hm pm)) by (intros; apply k_forward).
  induction r as [|x r IH]; intros hh si s' Hh HS Hin E; [destruct Hin|].
  cbn [deliver_loop] in E. unfold bind at 1 in E.
  pose proof (k_deliver cfg c s0 (forward cfg k) Hrec p hh x si HS) as KS.
  destruct (Z.eq_dec x c) as [->|Hne].
  - (* c's own turn *)
    pose proof HS as (A & B & C & D & Em & El & Ew & Es).
    assert (Hr : ready si c) by (unfold ready; rewrite Ew; auto).
    assert (Hel' : eligible (h_dst_mod hh) si c = true).
    { unfold eligible in *. rewrite (hsame_dst h hh Hh), Em, El. exact Hel. }
    assert (Ed : deliver_with cfg (forward cfg k) p hh c si = Ok (set_count hh (cnt si c + 1)) (after_send hh p si c)).
    { unfold deliver_with. unfold bind at 1. unfold get. rewrite B. cbn [negb]. rewrite Ew, Hwl.
      fold (eligible (h_dst_mod hh) si c). rewrite Hel'. apply send_checked_exact. exact Hr. }
    rewrite Ed in E, KS.
    pose proof (k_deliver_loop cfg c s0 (forward cfg k) Hrec p r (set_count hh (cnt si c + 1)) (after_send hh p si c) KS) as KS'.
    destruct (ext_loop k (out (after_send hh p si c)) r (set_count hh (cnt si c + 1)) (after_send hh p si c) []
                (hsame_count h hh _ Hh) (N_init p _)) as (L' & HN').
    rewrite E in KS', HN'. cbn [st] in HN'. destruct (N_ext _ _ _ HN') as (b & Hb).
    exists [], (cnt si c + 1), b. split; [|exact KS'].
    rewrite Hb. change (out (after_send hh p si c)) with (out si ++ frame_for hh p si c). unfold frame_for.
    rewrite (Hh (cnt si c + 1)). rewrite <- app_assoc. reflexivity.
  - (* somebody else's turn *)
    destruct Hin as [->|Hin]; [contradiction|].
    pose proof (deliver_top cfg p h Hext (out si) k [] hh x si Hh (N_init p si)) as D.
    destruct (deliver_with cfg (forward cfg k) p hh x si) as [hh' s1|e s1]; [|discriminate E].
    destruct D as [Hh' P1]. destruct (Post_N _ _ _ _ _ P1) as (L1 & HN1). destruct (N_ext _ _ _ HN1) as (a1 & Ha1).
    destruct (IH hh' s1 s' Hh' KS Hin E) as (a & n & b & Ho & HS').
    exists (a1 ++ a), n, b. split; [|exact HS']. rewrite Ho, Ha1, <- !app_assoc. reflexivity.
Qed.

Lemma served_core fuel s1 s' :
  bad_dest_mod (h_dst_mod h) = false -> bad_dest_host (h_dst_host h) = false ->
  Stays c s0 s1 -> In c (snapshot s1 (h_type h)) ->
  forward cfg fuel h p s1 = Ok tt s' ->
  exists a n b, out s' = out s1 ++ a ++ [(c, OHdr (set_count h n)); (c, OPay p)] ++ b /\ Stays c s0 s'.
Proof.
  intros Hm Hh HS Hin E. destruct fuel as [|k]; [discriminate E|].
  change (forward cfg (Datatypes.S k) h p s1) with (forward_body cfg (forward cfg k) h p s1) in E.
  unfold forward_body in E. unfold bind at 1 in E.
  assert (E0 : exists sc, count_msg cfg (h_type h) s1 = Ok tt sc /\ out sc = out s1 /\ Stays c s0 sc /\
                          snapshot sc (h_type h) = snapshot s1 (h_type h)).
  { unfold count_msg, bind, get. destruct (negb (sending_traffic s1)).
    - eexists. split; [reflexivity|]. split; [reflexivity|]. split; [|reflexivity]. revert HS. apply Stays_ext; auto.
    - exists s1. auto. }
  destruct E0 as (sc & E0 & Eo & HSc & Esn). rewrite E0, Hm, Hh in E. unfold bind at 1 in E. unfold get in E. rewrite Esn in E.
  destruct (served_loop k (snapshot s1 (h_type h)) h sc s' (hsame_refl h) HSc Hin E) as (a & n & b & Ho & HS').
  exists a, n, b. split; [rewrite Ho, Eo; reflexivity|exact HS'].
Qed.

End Served.

Lemma Stays_init X s c t : RegInvX X s -> In c (snapshot s t) -> flookup c (faults s) = None -> Stays c s s.
Proof.
  intros H Hin Hf. destruct (snapshot_wants X s t c H Hin) as (Hr & Hc & _).
  destruct (find_mod_reg_In c _ Hr) as [Hi Hcc]. pose proof (ro_pos _ _ _ _ _ H _ Hi) as Hp. rewrite Hcc in Hp.
  unfold Stays. auto 12.
Qed.

Lemma Stays_snapshot c s0 s t : Stays c s0 s -> In c (snapshot s0 t) -> In c (snapshot s t).
Proof.
  intros (_ & _ & _ & _ & _ & _ & _ & Hs) Hin. unfold snapshot in *. apply in_app_or in Hin. apply in_or_app.
  destruct Hin as [Hin|Hin]; [left|right]; apply Hs; exact Hin.
Qed.

(* what is still true of c afterwards *)
Definition still_healthy (c : Z) (s s' : mstate) : Prop :=
  m_reg (find_mod c (mods s')) = true /\ m_closed (find_mod c (mods s')) = false /\ flookup c (faults s') = None /\
  wl s' = wl s /\ (forall t, In c (alookup t (subs s)) -> In c (alookup t (subs s'))).

Lemma Stays_still c s s' : Stays c s s' -> still_healthy c s s'.
Proof. intros (_ & A & B & C & _ & _ & D & E). unfold still_healthy. auto. Qed.

Theorem healthy_recipient_served cfg fuel h p s X c s' :
  RegInvX X s -> h_extra h <> 0 -> h_type h <> ALL_MESSAGE_TYPES ->
  bad_dest_mod (h_dst_mod h) = false -> bad_dest_host (h_dst_host h) = false ->
  In c (snapshot s (h_type h)) -> zmem c (wl s) = true -> eligible (h_dst_mod h) s c = true ->
  flookup c (faults s) = None ->
  forward cfg fuel h p s = Ok tt s' ->
  exists suf, out s' = out s ++ suf /\ served_once h p c suf /\ still_healthy c s s'.
Proof.
  intros H Hext Hall Hm Hh Hin Hwl Hel Hf E.
  destruct (served_core cfg p h Hext c s Hwl Hel fuel s s' Hm Hh (Stays_init X s c _ H Hin Hf) Hin E) as (a & n & b & Ho & HS).
  destruct (forward_only_recipients cfg fuel h p s X H Hext Hall) as (suf & Ho' & Hsafe). rewrite E in Ho'. cbn [st] in Ho'.
  rewrite Ho in Ho'. apply app_inv_head in Ho'. subst suf.
  eexists. split; [exact Ho|]. split; [|apply Stays_still; exact HS].
  apply served_from. apply (or_once _ _ _ _ (Safe_spelled h p s _ Hext Hsafe)).
Qed.

Theorem data_frame_healthy_served cfg FUEL c0 h ip s X c s' :
  RegInvX X s -> data_type (h_type h) -> h_extra h <> 0 -> h_type h <> ALL_MESSAGE_TYPES ->
  bad_dest_mod (h_dst_mod h) = false -> bad_dest_host (h_dst_host h) = false ->
  In c (snapshot s (h_type h)) -> zmem c (wl s) = true -> eligible (h_dst_mod h) s c = true ->
  flookup c (faults s) = None ->
  process_message cfg FUEL c0 h ip s = Ok tt s' ->
  exists suf, out s' = out s ++ suf /\ served_once h (data_payload h ip) c suf /\ still_healthy c s s'.
Proof.
  intros H Hd Hext Hall Hm Hh Hin Hwl Hel Hf E. set (p := data_payload h ip).
  destruct (data_frame_only_recipients cfg FUEL c0 h ip s X H Hd Hext Hall) as (suf & Ho' & Hsafe). rewrite E in Ho'. cbn [st] in Ho'.
  rewrite (process_data cfg FUEL c0 h ip Hd) in E. fold p in E. unfold bind in E.
  pose proof (k_mlog cfg c s (forward cfg FUEL) (k_forward cfg c s FUEL) 10 s (Stays_init X s c _ H Hin Hf)) as KS.
  pose proof (nest_mlog cfg p (out s) FUEL [] 10 s (N_init p s)) as HN.
  pose proof (J_mlog_top cfg FUEL X 10 s H) as HJ. unfold mlog, fwd in *.
  destruct (mlog_with cfg (forward cfg FUEL) 10 s) as [u s1|e s1]; [|discriminate E].
  destruct (N_ext p _ _ _ HN) as (suf1 & Ho1).
  destruct (served_core cfg p h Hext c s Hwl Hel FUEL s1 s' Hm Hh KS (Stays_snapshot c s s1 _ KS Hin) E) as (a & n & b & Ho & HS).
  assert (Etot : out s' = out s ++ (suf1 ++ a) ++ [(c, OHdr (set_count h n)); (c, OPay p)] ++ b).
  { rewrite Ho, Ho1, <- !app_assoc. reflexivity. }
  rewrite Etot in Ho'. apply app_inv_head in Ho'. subst suf.
  eexists. split; [exact Etot|]. split; [|apply Stays_still; exact HS].
  apply served_from. apply (or_once _ _ _ _ (Safe_spelled h p s _ Hext Hsafe)).
Qed.

Theorem service_healthy_served cfg FUEL c0 h ip s X c s' :
  RegInvX X s -> m_reg (find_mod c0 (mods s)) = true -> bad_size (h_nbytes h) = false ->
  data_type (h_type h) -> h_extra h <> 0 -> h_type h <> ALL_MESSAGE_TYPES ->
  bad_dest_mod (h_dst_mod h) = false -> bad_dest_host (h_dst_host h) = false ->
  In c (snapshot s (h_type h)) -> zmem c (wl s) = true -> eligible (h_dst_mod h) s c = true ->
  flookup c (faults s) = None ->
  service cfg FUEL c0 (IFrame h ip) s = Ok tt s' ->
  exists suf, out s' = out s ++ suf /\ served_once h (data_payload h ip) c suf /\ still_healthy c s s'.
Proof.
  intros H Hr0 Hb Hd Hext Hall Hm Hh Hin Hwl Hel Hf E. rewrite (service_frame cfg FUEL c0 h ip s Hr0 Hb) in E.
  eapply data_frame_healthy_served; eauto.
Qed.

(* ---------- at every reachable state; and with the budget of run_total the outcome is Ok ---------- *)

Theorem healthy_recipient_served_reachable cfg fuel es u s k h p c s' :
  run cfg fuel es = Ok u s -> h_extra h <> 0 -> h_type h <> ALL_MESSAGE_TYPES ->
  bad_dest_mod (h_dst_mod h) = false -> bad_dest_host (h_dst_host h) = false ->
  In c (snapshot s (h_type h)) -> zmem c (wl s) = true -> eligible (h_dst_mod h) s c = true ->
  flookup c (faults s) = None ->
  forward cfg k h p s = Ok tt s' ->
  exists suf, out s' = out s ++ suf /\ served_once h p c suf /\ still_healthy c s s'.
Proof.
  intros Hrun. pose proof (run_safe cfg fuel es) as R. rewrite Hrun in R. destruct R as (R & _).
  apply healthy_recipient_served with (X := []). exact R.
Qed.

Theorem service_healthy_served_reachable cfg fuel es u s FUEL c0 h ip c s' :
  run cfg fuel es = Ok u s -> m_reg (find_mod c0 (mods s)) = true -> bad_size (h_nbytes h) = false ->
  data_type (h_type h) -> h_extra h <> 0 -> h_type h <> ALL_MESSAGE_TYPES ->
  bad_dest_mod (h_dst_mod h) = false -> bad_dest_host (h_dst_host h) = false ->
  In c (snapshot s (h_type h)) -> zmem c (wl s) = true -> eligible (h_dst_mod h) s c = true ->
  flookup c (faults s) = None ->
  service cfg FUEL c0 (IFrame h ip) s = Ok tt s' ->
  exists suf, out s' = out s ++ suf /\ served_once h (data_payload h ip) c suf /\ still_healthy c s s'.
Proof.
  intros Hrun. pose proof (run_safe cfg fuel es) as R. rewrite Hrun in R. destruct R as (R & _).
  apply service_healthy_served with (X := []). exact R.
Qed.

From Mgr Require Proofs.FuelTop.

(* with a budget of 2 * (number of modules) + 2 the service of the frame does return *)
Theorem service_healthy_served_total cfg fuel es u s FUEL c0 h ip c :
  run cfg fuel es = Ok u s -> (2 * length (mods s) + 2 <= FUEL)%nat ->
  m_reg (find_mod c0 (mods s)) = true -> bad_size (h_nbytes h) = false ->
  data_type (h_type h) -> h_extra h <> 0 -> h_type h <> ALL_MESSAGE_TYPES ->
  bad_dest_mod (h_dst_mod h) = false -> bad_dest_host (h_dst_host h) = false ->
  In c (snapshot s (h_type h)) -> zmem c (wl s) = true -> eligible (h_dst_mod h) s c = true ->
  flookup c (faults s) = None ->
  exists s' suf, service cfg FUEL c0 (IFrame h ip) s = Ok tt s' /\
                 out s' = out s ++ suf /\ served_once h (data_payload h ip) c suf /\ still_healthy c s s'.
Proof.
  intros Hrun HF Hr0 Hb Hd Hext Hall Hm Hh Hin Hwl Hel Hf.
  pose proof (run_safe cfg fuel es) as R. rewrite Hrun in R.
  pose proof (FuelTop.NS_service cfg FUEL (length (mods s)) HF c0 (IFrame h ip) s R eq_refl) as Hok.
  destruct (service cfg FUEL c0 (IFrame h ip) s) as [[] s'|e s'] eqn:E; [|destruct Hok].
  destruct (service_healthy_served_reachable cfg fuel es u s FUEL c0 h ip c s' Hrun Hr0 Hb Hd Hext Hall Hm Hh Hin Hwl Hel Hf E)
    as (suf & A & B & C).
  exists s', suf. auto.
Qed.

(* ---------- non-vacuity ----------
   The state of Proofs/LoopExact.v's example (conn 1: logger subscribed to everything; conn 3 healthy, conn 4 not
   writable, conn 5 failing, all three subscribed to type 100).  Conn 3 meets every hypothesis of
   healthy_recipient_served, and one publish gives it exactly one copy.  Then a deeper case: the monitor itself
   stops accepting writes at the same instant - the notice about conn 4 fails, the monitor is removed inside the
   delivery, conn 5 is removed as well, nobody is left to tell; the only thing written is conn 3's copy. *)
From Mgr Require Import Proofs.LoopExact.

Example healthy_served_ex :
  match run lx_cfg 20%nat lx_hist with
  | Ok _ s =>
    ((zmem 3 (snapshot s (h_type lx_msg)), zmem 3 (wl s), eligible (h_dst_mod lx_msg) s 3, flookup 3 (faults s),
      bad_dest lx_msg, negb (h_extra lx_msg =? 0)),
     match forward lx_cfg 2 lx_msg (PData 5 1) s with
     | Ok _ s' =>
       let suf := skipn (length (out s)) (out s') in
       (length suf, length (filter (same_item lx_msg) (proj 3 suf)), proj 3 suf,
        (m_reg (find_mod 3 (mods s')), m_closed (find_mod 3 (mods s')), flookup 3 (faults s')))
     | Crash _ _ => (0%nat, 0%nat, [], (false, true, None))
     end)
  | Crash _ _ => ((false, false, false, None, true, false), (0%nat, 0%nat, [], (false, true, None)))
  end =
  ((true, true, true, None, false, true),
   (10%nat, 1%nat, [OHdr (set_count lx_msg 3); OPay (PData 5 1)], (true, false, None))).
Proof. vm_compute. reflexivity. Qed.

Example healthy_served_ex_monitor_fails :
  match run lx_cfg 20%nat (lx_hist ++ [EFault 1 0]) with
  | Ok _ s =>
    ((zmem 3 (snapshot s (h_type lx_msg)), zmem 3 (wl s), eligible (h_dst_mod lx_msg) s 3, flookup 3 (faults s), flookup 1 (faults s)),
     match forward lx_cfg 3 lx_msg (PData 5 1) s with
     | Ok _ s' =>
       let suf := skipn (length (out s)) (out s') in
       (suf, length (filter (same_item lx_msg) (proj 3 suf)),
        map (fun c => m_reg (find_mod c (mods s'))) [1; 2; 3; 4; 5])
     | Crash _ _ => ([], 0%nat, [])
     end,
     match forward lx_cfg 2 lx_msg (PData 5 1) s with Crash XFuel _ => true | _ => false end)
  | Crash _ _ => ((false, false, false, None, None), ([], 0%nat, []), false)
  end =
  ((true, true, true, None, Some 0),
   ([(3, OHdr (set_count lx_msg 3)); (3, OPay (PData 5 1))], 1%nat, [false; true; true; true; false]),
   true).
Proof. vm_compute. reflexivity. Qed.

