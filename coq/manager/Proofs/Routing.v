(* C01/C14/C19: local characterisations of the delivery decision. *)
From Coq Require Import ZArith List Bool Lia ZifyBool.
From Mgr Require Import Gen.MgrDefs Model.Manager Proofs.ListLemmas Proofs.Hoare Proofs.RegInv.
Import ListNotations.
Open Scope Z_scope.

Lemma sorted_app_disjoint_NoDup (l1 l2 : list Z) :
  sorted l1 -> sorted l2 -> (forall x, In x l1 -> ~ In x l2) -> NoDup (l1 ++ l2).
Proof.
  intros H1 H2 Hd. pose proof (sorted_NoDup _ H1) as N1. pose proof (sorted_NoDup _ H2) as N2.
  induction l1 as [|x r IH]; simpl; [exact N2|].
  inversion N1 as [|? ? Hx Hr]; subst. inversion H1 as [|? ? Hs Hall]; subst. constructor.
  - intro Hin. apply in_app_or in Hin. destruct Hin as [Hin|Hin]; [contradiction|]. apply (Hd x); [left; reflexivity|exact Hin].
  - apply IH; auto. intros y Hy. apply Hd. right. exact Hy.
Qed.

(* the recipient snapshot of a message whose type is not the ALL sentinel has no duplicates:
   a module is in at most one of the two chained sets *)
Lemma snapshot_NoDup X s t : RegInvX X s -> t <> ALL_MESSAGE_TYPES -> NoDup (snapshot s t).
Proof.
  intros H Ht. unfold snapshot. apply sorted_app_disjoint_NoDup; try apply (ro_sorted _ _ _ _ _ H).
  intros c H1 H2.
  destruct (ro_sub _ _ _ _ _ H _ _ H1) as (Hr & _ & S1). destruct (ro_sub _ _ _ _ _ H _ _ H2) as (_ & _ & S2).
  pose proof (find_mod_reg_In c _ Hr) as [Hi _].
  pose proof (ro_all _ _ _ _ _ H _ Hi S2) as E. rewrite E in S1. destruct S1 as [S1|[]]. congruence.
Qed.

Lemma snapshot_wants X s t c : RegInvX X s -> In c (snapshot s t) ->
  m_reg (find_mod c (mods s)) = true /\ m_closed (find_mod c (mods s)) = false /\
  (In t (m_subs (find_mod c (mods s))) \/ m_subs (find_mod c (mods s)) = [ALL_MESSAGE_TYPES]).
Proof.
  intros H Hin. unfold snapshot in Hin. apply in_app_or in Hin. destruct Hin as [Hin|Hin];
    destruct (ro_sub _ _ _ _ _ H _ _ Hin) as (Hr & Hc & Hs); repeat split; auto.
  right. pose proof (find_mod_reg_In c _ Hr) as [Hi _]. apply (ro_all _ _ _ _ _ H _ Hi Hs).
Qed.

Lemma mod_send_ok c h p s :
  0 <= c -> m_closed (find_mod c (mods s)) = false -> flookup c (faults s) = None ->
  exists s', mod_send c h p s = Ok (SOk, set_count h (m_count (find_mod c (mods s)) + 1)) s' /\
             out s' = out s ++ [(c, OHdr (set_count h (m_count (find_mod c (mods s)) + 1))); (c, OPay p)].
Proof.
  intros Hc0 Hc Hf. unfold mod_send. unfold bind at 1. unfold get. unfold bind at 1. unfold set_mod, modify.
  set (n := m_count (find_mod c (mods s)) + 1).
  set (s1 := with_mods s (upd_mod c (fun m => mm_count m n) (mods s))).
  assert (Hc1 : m_closed (find_mod c (mods s1)) = false).
  { unfold s1. simpl. pose proof (find_mod_conn_of_open _ _ Hc) as Hcc.
    rewrite find_upd_same; auto; [|intro; reflexivity]. rewrite Hcc, Z.eqb_refl. simpl. exact Hc. }
  assert (Hf1 : flookup c (faults s1) = None) by exact Hf.
  unfold bind at 1.
  assert (E1 : sendall c (OHdr (set_count h n)) s1 = Ok SOk (with_out s1 (out s1 ++ [(c, OHdr (set_count h n))]) (faults s1))).
  { unfold sendall. rewrite Hc1, Hf1. reflexivity. }
  rewrite E1. set (s2 := with_out s1 (out s1 ++ [(c, OHdr (set_count h n))]) (faults s1)).
  assert (E2 : sendall c (OPay p) s2 = Ok SOk (with_out s2 (out s2 ++ [(c, OPay p)]) (faults s2))).
  { unfold sendall. change (mods s2) with (mods s1). rewrite Hc1. change (faults s2) with (faults s1). rewrite Hf1. reflexivity. }
  unfold bind at 1. rewrite E2. simpl. eexists. split; [reflexivity|]. simpl. rewrite <- app_assoc. reflexivity.
Qed.
