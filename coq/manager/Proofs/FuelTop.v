(* With a nesting budget of 2 * (number of modules) + 2 no operation of the manager crashes at all:
   Proofs/StepInv.v shows that the only possible crash is XFuel, Proofs/Fuel.v that forward_message does
   not run out of budget when 2 * live + rank <= budget.  Here the two are put together for every
   top-level operation, one loop iteration, and every history:

     run_total : 2 * (accepts es + 1) + 2 <= FUEL -> exists s, run cfg FUEL es = Ok tt s /\ StepInv s

   (the module list holds the manager's own module plus one entry per accepted connection). *)
From Coq Require Import ZArith List Bool Lia ZifyBool.
From Mgr Require Import Gen.MgrDefs Model.Manager Proofs.ListLemmas Proofs.Hoare Proofs.RegInv Proofs.Frame
                        Proofs.RegTraverse Proofs.Assign Proofs.RegTop Proofs.Connect Proofs.Traffic
                        Proofs.StepInv Proofs.OutInv Proofs.Fuel.
Import ListNotations.
Open Scope Z_scope.

(* ---------- the length of the module list ---------- *)

Definition Len (n : nat) (s : mstate) : Prop := length (mods s) = n.

Lemma Len_view n s s' : view s' = view s -> Len n s -> Len n s'.
Proof.
  unfold Len. intros E H.
  assert (E2 : map mview (mods s') = map mview (mods s)) by (unfold view in E; congruence).
  apply (f_equal (@length _)) in E2. rewrite !map_length in E2. congruence.
Qed.

Lemma upd_mod_length c f l : length (upd_mod c f l) = length l.
Proof. induction l as [|m r IH]; simpl; [reflexivity|]. destruct (m_conn m =? c); simpl; congruence. Qed.

Lemma Len_set_mod n c f : pres (Len n) (set_mod c f).
Proof. unfold set_mod. apply pres_modify. intros s H. unfold Len in *. simpl. rewrite upd_mod_length. exact H. Qed.

Lemma Len_sendall n c it : pres (Len n) (sendall c it).
Proof.
  intros s H. unfold sendall. destruct (m_closed _); [exact H|].
  destruct (flookup c (faults s)) as [k|]; [destruct (k <=? 0)|]; exact H.
Qed.

Lemma Len_mod_send n c h p : pres (Len n) (mod_send c h p).
Proof.
  unfold mod_send. apply pres_getk. intros s0. apply pres_bind; [apply Len_set_mod|]. intros _.
  apply pres_bind; [apply Len_sendall|]. intros r1. destruct r1; try apply pres_ret.
  apply pres_bind; [apply Len_sendall|]. intros r2. apply pres_ret.
Qed.

Lemma Len_send n c h p : sized h p -> pres (Len n) (mod_send c h p).
Proof. intros _. apply Len_mod_send. Qed.

Lemma Len_close n c : pres (Len n) (set_mod c mm_close).
Proof. apply Len_set_mod. Qed.

Lemma Forall2_len {A B} (R : A -> B -> Prop) l l' : Forall2 R l l' -> length l' = length l.
Proof. induction 1; simpl; congruence. Qed.

Lemma Frame_len s s' : Frame s s' -> length (mods s') = length (mods s).
Proof. intros F. apply (Forall2_len _ _ _ (fr_mods _ _ F)). Qed.

Lemma Keep_len s s' : Keep s s' -> length (mods s') = length (mods s).
Proof. intros K. apply (Forall2_len _ _ _ (kp_mods _ _ K)). Qed.

Lemma KeepX_len c s s' : KeepX c s s' -> length (mods s') = length (mods s).
Proof. intros K. apply (Forall2_len _ _ _ (kx_mods _ _ _ K)). Qed.

Section TopFuel.
Variable cfg : config.
Variable FUEL : nat.
Variable n : nat.
Hypothesis HF : (2 * n + 2 <= FUEL)%nat.

(* ---------- the operations of the J world: never a crash under the budget ---------- *)

Lemma NCt_fwd X k h p : (2 * k + 2 <= FUEL)%nat -> NC X k (fwd cfg FUEL h p).
Proof. intros H. apply NC_forward. pose proof (rank_le h). lia. Qed.

Lemma NCt_mlog X k lvl : (2 * k + 1 <= FUEL)%nat -> NC X k (mlog cfg FUEL lvl).
Proof. intros H. exact (NC_mlog cfg (forward cfg FUEL) FUEL (NC_forward cfg FUEL) X k lvl H). Qed.

Lemma NCt_send_mgr X k t sz pl : (2 * k + 2 <= FUEL)%nat -> NC X k (send_mgr cfg FUEL t sz pl).
Proof. intros H. exact (NC_send_mgr (forward cfg FUEL) FUEL (NC_forward cfg FUEL) X k t sz pl H). Qed.

Lemma NCt_remove_module X k c : ~ In c X -> (2 * k <= FUEL)%nat -> NC X k (remove_module cfg FUEL c).
Proof.
  intros Hc H. exact (NC_remove_module cfg (forward cfg FUEL) FUEL (J_forward cfg FUEL) (NC_forward cfg FUEL) X k c Hc H).
Qed.

Lemma NCt_send_checked X k c hh p : ~ In c X -> (2 * k + 1 <= FUEL)%nat -> NC X k (send_checked cfg FUEL c hh p).
Proof.
  intros Hc H.
  exact (NC_send_checked cfg (forward cfg FUEL) FUEL (J_forward cfg FUEL) (NC_forward cfg FUEL) X k c hh p Hc H).
Qed.

Lemma NCt_send_client_info X k c : (2 * k + 2 <= FUEL)%nat -> NC X k (send_client_info cfg FUEL c).
Proof.
  intros H. unfold send_client_info. apply NC_bind; [apply J_mlog_top|apply NCt_mlog; lia|]. intros _.
  apply NC_get. intros s0. apply NCt_send_mgr. exact H.
Qed.

Lemma NCt_loggers_loop k : (2 * k + 1 <= FUEL)%nat -> forall l hh p, NC [] k (loggers_loop cfg FUEL hh p l).
Proof.
  intros H. induction l as [|c r IH]; intros hh p; cbn [loggers_loop]; [apply NC_ret|].
  apply NC_get. intros s0 H0 Hl.
  destruct (m_reg (find_mod c (mods s0))) eqn:Hreg; cbn [negb]; [|apply IH; assumption].
  destruct (reg_open s0 c H0 Hreg) as (Hopen & _). rewrite Hopen, andb_false_r. revert H0 Hl.
  apply NCat_bind; [apply J_send_checked_top; intros []|apply NCt_send_checked; [intros []|exact H]|].
  intros hh'. apply IH.
Qed.

Lemma NCt_send_to_loggers k hh p : (2 * k + 1 <= FUEL)%nat -> NC [] k (send_to_loggers cfg FUEL hh p).
Proof. intros H. unfold send_to_loggers. apply NC_get. intros s0. apply NCt_loggers_loop. exact H. Qed.

Lemma NCt_send_ack k c : (2 * k + 1 <= FUEL)%nat -> NC [] k (send_ack cfg FUEL c).
Proof.
  intros H. unfold send_ack. apply NC_get. intros s0.
  apply NCat_bind; [apply J_send_checked_top; intros []|apply NCt_send_checked; [intros []|exact H]|].
  intros hh'. apply NCt_send_to_loggers. exact H.
Qed.

(* ---------- the top-level no-crash judgement ---------- *)

Definition NSat {A} (s : mstate) (m : M A) : Prop :=
  StepInv s -> Len n s -> match m s with Ok _ _ => True | Crash _ _ => False end.
Definition NS {A} (m : M A) : Prop := forall s, NSat s m.

Lemma NS_of_NC {A} (m : M A) : NC [] n m -> NS m.
Proof.
  clear HF. intros H s Hs Hl. apply H; [destruct Hs as (R & _); exact R|].
  pose proof (live_le s). unfold Len in Hl. lia.
Qed.

Lemma NSat_bind' {A B} s (m : M A) (k : A -> M B) :
  (StepInv s -> match m s with Ok _ s' => StepInv s' | Crash e _ => e = XFuel end) ->
  pres (Len n) m -> NSat s m ->
  (forall a s1, m s = Ok a s1 -> NSat s1 (k a)) -> NSat s (bind m k).
Proof.
  intros HS HL HN Hk Hs Hl. unfold bind. specialize (HS Hs). specialize (HL s Hl). specialize (HN Hs Hl).
  destruct (m s) as [a s1|e s1]; [|exact HN]. exact (Hk a s1 eq_refl HS HL).
Qed.

Lemma NSat_bind {A B} s (m : M A) (k : A -> M B) :
  S m -> pres (Len n) m -> NSat s m -> (forall a, NS (k a)) -> NSat s (bind m k).
Proof. intros HS HL HN Hk. apply NSat_bind'; [apply HS|exact HL|exact HN|]. intros a s1 _. apply Hk. Qed.

Lemma NS_bind {A B} (m : M A) (k : A -> M B) :
  S m -> pres (Len n) m -> NS m -> (forall a, NS (k a)) -> NS (bind m k).
Proof. intros HS HL HN Hk s. apply NSat_bind; auto. Qed.

Lemma NS_ret {A} (a : A) : NS (ret a).
Proof. intros s _ _. exact I. Qed.

Lemma NS_get {A} (k : mstate -> M A) : (forall s0, NSat s0 (k s0)) -> NS (bind get k).
Proof. intros H s Hs Hl. unfold bind, get. apply H; auto. Qed.

Lemma NS_modify f : NS (modify f).
Proof. intros s _ _. exact I. Qed.

Lemma NS_set_mod c f : NS (set_mod c f).
Proof. apply NS_modify. Qed.

Lemma NS_mapM {A} (f : A -> M unit) l :
  (forall x, S (f x)) -> (forall x, pres (Len n) (f x)) -> (forall x, NS (f x)) -> NS (mapM_ f l).
Proof.
  intros HS HL HN. induction l as [|x r IH]; cbn [mapM_]; [apply NS_ret|].
  apply NS_bind; auto.
Qed.

(* Len n is an invariant of everything but accept *)
Local Notation LV := (Len_view n).
Local Notation LS := (Len_send n).
Local Notation LC := (Len_close n).

Lemma L_mlog lvl : pres (Len n) (mlog cfg FUEL lvl).
Proof. exact (ot_mlog cfg FUEL (Len n) LV LS LC lvl). Qed.
Lemma L_remove_module c : pres (Len n) (remove_module cfg FUEL c).
Proof. exact (ot_remove_module cfg FUEL (Len n) LV LS LC c). Qed.
Lemma L_send_ack c : pres (Len n) (send_ack cfg FUEL c).
Proof. exact (ot_send_ack cfg FUEL (Len n) LV LS LC c). Qed.
Lemma L_send_client_info c : pres (Len n) (send_client_info cfg FUEL c).
Proof. exact (ot_send_client_info cfg FUEL (Len n) LV LS LC c). Qed.
Lemma L_send_mgr t sz pl : pay_size pl = sz -> pres (Len n) (send_mgr cfg FUEL t sz pl).
Proof. exact (ot_send_mgr cfg FUEL (Len n) LV LS LC t sz pl). Qed.
Lemma L_process_message c h ip : pres (Len n) (process_message cfg FUEL c h ip).
Proof. exact (ot_process_message cfg FUEL (Len n) LV LS LC c h ip). Qed.
Lemma L_service c ib : pres (Len n) (service cfg FUEL c ib).
Proof. exact (ot_service cfg FUEL (Len n) LV LS LC c ib). Qed.
Lemma L_send_timing : pres (Len n) (send_timing_message cfg FUEL).
Proof. exact (ot_send_timing cfg FUEL (Len n) LV LS LC). Qed.
Lemma L_send_traffic now : pres (Len n) (send_traffic cfg FUEL now).
Proof. exact (ot_send_traffic cfg FUEL (Len n) LV LS LC now). Qed.
Lemma L_active_loop l i acc : pres (Len n) (active_loop cfg FUEL i l acc).
Proof. exact (ot_active_loop cfg FUEL (Len n) LV LS LC l i acc). Qed.
Lemma L_send_active now : pres (Len n) (send_active_clients cfg FUEL now).
Proof. exact (ot_send_active cfg FUEL (Len n) LV LS LC now). Qed.
Lemma L_periodic now : pres (Len n) (periodic cfg FUEL now).
Proof. exact (ot_periodic cfg FUEL (Len n) LV LS LC now). Qed.
Lemma L_modify f : (forall s, mods (f s) = mods s) -> pres (Len n) (modify f).
Proof. intros H. apply pres_modify. intros s Hs. unfold Len in *. rewrite H. exact Hs. Qed.

(* J-world operations as NS facts *)
Lemma NS_mlog lvl : NS (mlog cfg FUEL lvl).
Proof. apply NS_of_NC, NCt_mlog. lia. Qed.
Lemma NS_send_mgr t sz pl : NS (send_mgr cfg FUEL t sz pl).
Proof. apply NS_of_NC, NCt_send_mgr. lia. Qed.
Lemma NS_fwd h p : NS (fwd cfg FUEL h p).
Proof. apply NS_of_NC, NCt_fwd. lia. Qed.
Lemma NS_remove_module c : NS (remove_module cfg FUEL c).
Proof. apply NS_of_NC, NCt_remove_module; [intros []|lia]. Qed.
Lemma NS_send_client_info c : NS (send_client_info cfg FUEL c).
Proof. apply NS_of_NC, NCt_send_client_info. lia. Qed.
Lemma NS_send_ack c : NS (send_ack cfg FUEL c).
Proof. apply NS_of_NC, NCt_send_ack. lia. Qed.

(* ---------- subscriptions ---------- *)

Lemma live_bound s : length (mods s) = n -> (live s <= n)%nat.
Proof. clear HF. intros H. pose proof (live_le s). lia. Qed.

Lemma NS_add_subscription c t s : m_reg (find_mod c (mods s)) = true -> NSat s (add_subscription cfg FUEL c t).
Proof.
  intros Hreg Hs Hl. pose proof Hs as (H & _). unfold Len in Hl.
  destruct (reg_open s c H Hreg) as (Hopen & Hc & Hin).
  pose proof (find_mod_conn_of_reg _ _ Hreg) as Hcc.
  unfold add_subscription. unfold bind at 1. unfold get.
  destruct (t =? ALL_MESSAGE_TYPES) eqn:Et.
  - apply Z.eqb_eq in Et. subst t.
    set (sb1 := drop_subs c (m_subs (find_mod c (mods s))) (subs s)).
    set (ms' := upd_mod c (fun m => mm_subs m [ALLT]) (mods s)).
    set (s3 := with_mods (with_subs (with_subs s sb1) (aupdate ALLT (zinsert c) sb1)) ms').
    assert (H3 : RegInv s3).
    { unfold RegInv, RegInvX, s3. simpl.
      assert (A : reg_ok [] (mods s) sb1 (loggers s) (next_uid s)) by (apply reg_ok_drop_subs; exact H).
      assert (B : reg_ok [] ms' sb1 (loggers s) (next_uid s)).
      { apply reg_ok_set_subs_absent; auto. intros t. apply (drop_subs_gone _ _ _ _ _ c H t). }
      assert (Hf : find_mod c ms' = mm_subs (find_mod c (mods s)) [ALLT]).
      { unfold ms'. rewrite find_upd_hit; auto. intro; reflexivity. }
      apply reg_ok_list_add; auto; rewrite Hf; simpl; auto. }
    assert (L3 : length (mods s3) = n) by (unfold s3, ms'; simpl; rewrite upd_mod_length; exact Hl).
    change (match (mlog cfg FUEL 10) s3 with Ok _ _ => True | Crash _ _ => False end).
    apply (NCt_mlog [] n 10 ltac:(lia) s3 H3 (live_bound s3 L3)).
  - destruct (zmem ALL_MESSAGE_TYPES (m_subs (find_mod c (mods s)))) eqn:Eall; [exact I|].
    apply zmem_false in Eall. apply Z.eqb_neq in Et.
    set (s3 := with_mods (with_subs s (aupdate t (zinsert c) (subs s)))
                         (upd_mod c (fun m => mm_subs m (zinsert t (m_subs m))) (mods s))).
    assert (H3 : RegInv s3).
    { unfold RegInv, RegInvX, s3. simpl. apply reg_ok_sub_one; auto. }
    assert (L3 : length (mods s3) = n) by (unfold s3; simpl; rewrite upd_mod_length; exact Hl).
    change (match (mlog cfg FUEL 10) s3 with Ok _ _ => True | Crash _ _ => False end).
    apply (NCt_mlog [] n 10 ltac:(lia) s3 H3 (live_bound s3 L3)).
Qed.

Lemma NS_remove_subscription c t s : m_reg (find_mod c (mods s)) = true -> NSat s (remove_subscription cfg FUEL c t).
Proof.
  intros Hreg Hs Hl. pose proof Hs as (H & _). unfold Len in Hl.
  destruct (reg_open s c H Hreg) as (Hopen & Hc & Hin).
  unfold remove_subscription. unfold bind at 1. unfold get.
  destruct (t =? ALL_MESSAGE_TYPES) eqn:Et.
  - apply Z.eqb_eq in Et. subst t.
    set (sb1 := aupdate ALLT (zremove c) (subs s)).
    set (sb2 := drop_subs c (m_subs (find_mod c (mods s))) sb1).
    set (ms' := upd_mod c (fun m => mm_subs m []) (mods s)).
    set (s3 := with_mods (with_subs (with_subs s sb1) sb2) ms').
    assert (H3 : RegInv s3).
    { unfold RegInv, RegInvX, s3. simpl.
      assert (A : reg_ok [] (mods s) sb1 (loggers s) (next_uid s)) by (apply reg_ok_aupdate_remove; exact H).
      assert (B : reg_ok [] (mods s) sb2 (loggers s) (next_uid s)) by (apply reg_ok_drop_subs; exact A).
      apply reg_ok_set_subs_absent; auto.
      - intros t. apply (drop_subs_gone _ _ _ _ _ c A t).
      - simpl. tauto. }
    assert (L3 : length (mods s3) = n) by (unfold s3, ms'; simpl; rewrite upd_mod_length; exact Hl).
    change (match (mlog cfg FUEL 10) s3 with Ok _ _ => True | Crash _ _ => False end).
    apply (NCt_mlog [] n 10 ltac:(lia) s3 H3 (live_bound s3 L3)).
  - destruct (zmem ALL_MESSAGE_TYPES (m_subs (find_mod c (mods s)))) eqn:Eall; [exact I|].
    apply zmem_false in Eall.
    set (s3 := with_mods (with_subs s (aupdate t (zremove c) (subs s)))
                         (upd_mod c (fun m => mm_subs m (zremove t (m_subs m))) (mods s))).
    assert (H3 : RegInv s3).
    { unfold RegInv, RegInvX, s3. simpl. apply reg_ok_unsub_one; auto. }
    assert (L3 : length (mods s3) = n) by (unfold s3; simpl; rewrite upd_mod_length; exact Hl).
    change (match (mlog cfg FUEL 10) s3 with Ok _ _ => True | Crash _ _ => False end).
    apply (NCt_mlog [] n 10 ltac:(lia) s3 H3 (live_bound s3 L3)).
Qed.

(* ---------- the connect path ---------- *)

Definition okr {A} (r : res A) : Prop := match r with Ok _ _ => True | Crash _ _ => False end.

Lemma NCt_refuse c : NC [] n (mlog cfg FUEL 40 ;;; remove_module cfg FUEL c ;;; ret true).
Proof.
  apply NC_bind; [apply J_mlog_top|apply NCt_mlog; lia|]. intros _.
  apply NC_bind; [apply J_remove_module_top; intros []|apply NCt_remove_module; [intros []|lia]|]. intros _. apply NC_ret.
Qed.

Lemma NCt_connect_scan c me : forall others, NC [] n (connect_scan cfg FUEL c me others).
Proof.
  induction others as [|m r IH]; cbn [connect_scan]; [apply NC_ret|].
  destruct (m_conn m =? c); [exact IH|].
  destruct ((m_mod_id m =? m_mod_id me) && (m_unique m || m_unique me)); [apply NCt_refuse|].
  destruct (negb (m_name me =? 0)); [|exact IH].
  destruct ((m_unique m || m_unique me) && (m_name m =? m_name me)); [apply NCt_refuse|].
  apply NC_bind; [apply J_mlog_top|apply NCt_mlog; lia|]. intros _. exact IH.
Qed.

Lemma assign_ok s : RegInv s -> length (mods s) = n -> okr (assign_module_id cfg FUEL s).
Proof.
  intros H Hl. unfold assign_module_id. unfold bind at 1. unfold get. cbv zeta.
  destruct (assign_loop (Z.to_nat MAX_DYN_IDS) (dyn_off s) (map m_mod_id (registered s))) as [[mid|] off'].
  - exact I.
  - unfold bind at 1. unfold modify. set (s1 := with_dyn s off').
    assert (H1 : RegInv s1) by exact H. assert (L1 : length (mods s1) = n) by exact Hl.
    unfold bind at 1. pose proof (NCt_mlog [] n 40 ltac:(lia) s1 H1 (live_bound s1 L1)) as N.
    destruct (mlog cfg FUEL 40 s1) as [u s2|e s2]; [exact I|exact N].
Qed.

Lemma finish_conn_ok c s : okr (finish_conn c s).
Proof.
  unfold finish_conn, bind, set_mod, modify, get, ret. cbv beta.
  destruct (m_logger _ && m_reg _); exact I.
Qed.

Lemma phase2_ok c s : RegInv s -> DynInv s -> length (mods s) = n -> m_reg (find_mod c (mods s)) = true ->
  okr (phase2 cfg FUEL c s).
Proof.
  intros H Hd Hl Hreg. unfold phase2. unfold bind at 1. unfold get. set (me := find_mod c (mods s)).
  destruct (negb (m_mod_id me =? 0)) eqn:Eid.
  - destruct (bad_user_id (m_mod_id me)) eqn:Ebad.
    + unfold bind at 1. pose proof (NCt_refuse c s H (live_bound s Hl)) as N.
      destruct ((mlog cfg FUEL 40;;; remove_module cfg FUEL c;;; ret true) s) as [b s1|e s1]; [|exact N].
      destruct b; [exact I|apply finish_conn_ok].
    + unfold bind at 1. pose proof (NCt_connect_scan c me (registered s) s H (live_bound s Hl)) as N.
      destruct (connect_scan cfg FUEL c me (registered s) s) as [b s1|e s1]; [|exact N].
      destruct b; [exact I|apply finish_conn_ok].
  - unfold bind at 1. unfold bind at 1. pose proof (assign_spec cfg FUEL c s H Hd) as A.
    pose proof (assign_ok s H Hl) as N.
    destruct (assign_module_id cfg FUEL s) as [[mid|] s1|e s1]; [| |exact N].
    + unfold bind at 1. unfold set_mod, modify. cbn [ret bind]. cbv beta iota. apply finish_conn_ok.
    + destruct A as (H1 & K1 & D1). pose proof (KeepX_len _ _ _ K1) as L1.
      unfold bind at 1.
      pose proof (NCt_remove_module [] n c (fun x => x) ltac:(lia) s1 H1 (live_bound s1 ltac:(lia))) as Nr.
      destruct (remove_module cfg FUEL c s1) as [u3 s3|e s3]; [exact I|exact Nr].
Qed.

Lemma connect_module_ok c h ip s : RegInv s -> DynInv s -> length (mods s) = n ->
  m_reg (find_mod c (mods s)) = true -> okr (connect_module cfg FUEL c h ip s).
Proof.
  intros H Hd Hl Hreg. rewrite connect_module_unfold. unfold bind at 1. unfold get. cbv zeta.
  destruct (m_connected (find_mod c (mods s))) eqn:Hcn; [exact I|].
  assert (Finish : forall s1, RegInv s1 -> dyn_off s1 = dyn_off s -> length (mods s1) = n ->
            m_reg (find_mod c (mods s1)) = true -> okr (phase2 cfg FUEL c s1)).
  { intros s1 H1 D1 L1 R1. apply phase2_ok; auto. unfold DynInv; rewrite D1; exact Hd. }
  assert (Refuse : forall s1, RegInv s1 -> length (mods s1) = n ->
            okr ((bad <- (mlog cfg FUEL 40 ;;; remove_module cfg FUEL c ;;; ret true) ;;
                  if bad then ret false else phase2 cfg FUEL c) s1)).
  { intros s1 H1 L1. unfold bind at 1. pose proof (refuse_spec cfg FUEL c s1 H1) as R.
    pose proof (NCt_refuse c s1 H1 (live_bound s1 L1)) as N.
    destruct ((mlog cfg FUEL 40;;; remove_module cfg FUEL c;;; ret true) s1) as [b s2|e s2]; [|exact N].
    destruct R as (-> & _). exact I. }
  destruct ip as [id|lg dm|lg dm am mid pid name ascii|mt|pid|name ascii|].
  + cbn [bind ret]. apply Finish; auto.
  + unfold bind at 1. unfold bind at 1. unfold set_mod at 1, modify.
    destruct (store_keeps c (fun m => mm_modid m (h_src_mod h)) s H (keeps_modid _) Hcn Hreg) as (A1 & A2 & A3 & A4 & A5).
    pose proof (KeepX_len _ _ _ A2) as LA.
    set (s1 := with_mods s (upd_mod c (fun m => mm_modid m (h_src_mod h)) (mods s))) in *.
    unfold bind at 1. unfold set_mod at 1, modify.
    destruct (store_keeps c (fun m => mm_flags m (lg =? 1) (dm =? 1)) s1 A1 (keeps_flags _ _) A3 A4) as (B1 & B2 & B3 & B4 & B5).
    pose proof (KeepX_len _ _ _ B2) as LB.
    set (s2 := with_mods s1 (upd_mod c (fun m => mm_flags m (lg =? 1) (dm =? 1)) (mods s1))) in *.
    cbn [bind ret]. cbv beta iota. apply Finish; [exact B1|congruence|congruence|exact B4].
  + unfold bind at 1. unfold bind at 1. unfold set_mod at 1, modify.
    destruct (store_keeps c (fun m => mm_ident m mid pid (m_name m) (am =? 0)) s H (keeps_ident _ _ _) Hcn Hreg) as (A1 & A2 & A3 & A4 & A5).
    pose proof (KeepX_len _ _ _ A2) as LA.
    set (s1 := with_mods s (upd_mod c (fun m => mm_ident m mid pid (m_name m) (am =? 0)) (mods s))) in *.
    destruct ascii.
    * unfold bind at 1. unfold set_mod at 1, modify.
      destruct (store_keeps c (fun m => mm_name m name) s1 A1 (keeps_name _) A3 A4) as (B1 & B2 & B3 & B4 & B5).
      pose proof (KeepX_len _ _ _ B2) as LB.
      set (s2 := with_mods s1 (upd_mod c (fun m => mm_name m name) (mods s1))) in *.
      unfold bind at 1. unfold set_mod at 1, modify.
      destruct (store_keeps c (fun m => mm_flags m (lg =? 1) (dm =? 1)) s2 B1 (keeps_flags _ _) B3 B4) as (C1 & C2 & C3 & C4 & C5).
      pose proof (KeepX_len _ _ _ C2) as LC'.
      set (s3 := with_mods s2 (upd_mod c (fun m => mm_flags m (lg =? 1) (dm =? 1)) (mods s2))) in *.
      cbn [bind ret]. cbv beta iota. apply Finish; [exact C1|congruence|congruence|exact C4].
    * apply (Refuse s1 A1). congruence.
  + cbn [bind ret]. apply Finish; auto.
  + cbn [bind ret]. apply Finish; auto.
  + cbn [bind ret]. apply Finish; auto.
  + cbn [bind ret]. apply Finish; auto.
Qed.

(* ---------- messages ---------- *)

Lemma NS_process_message c h ip s : m_reg (find_mod c (mods s)) = true -> NSat s (process_message cfg FUEL c h ip).
Proof.
  intros Hreg Hs Hl. unfold process_message. cbv zeta.
  destruct ((h_type h =? MT_CONNECT) || (h_type h =? MT_CONNECT_V2)).
  { unfold bind at 1. pose proof Hs as (R & I0 & U & D & N).
    pose proof (connect_module_spec cfg FUEL c h ip s R D Hreg) as C.
    pose proof (connect_module_ok c h ip s R D Hl Hreg) as Nc.
    destruct (connect_module cfg FUEL c h ip s) as [ok s1|e s1]; [|exact Nc].
    destruct C as (R1 & K1 & D1 & P1). pose proof (conn_StepInv c s s1 Hs R1 K1 D1 P1) as Hs1.
    assert (Hl1 : Len n s1) by (unfold Len in *; rewrite (KeepX_len _ _ _ K1); exact Hl).
    destruct ok; [|exact I].
    apply (NS_bind (send_ack cfg FUEL c) _ (S_send_ack cfg FUEL c) (L_send_ack c) (NS_send_ack c)); [|exact Hs1|exact Hl1].
    intros _. apply NS_bind; [apply S_send_client_info|apply L_send_client_info|apply NS_send_client_info|].
    intros _. apply NS_mlog. }
  destruct (h_type h =? MT_DISCONNECT).
  { apply (NS_bind _ _ (S_remove_module cfg FUEL c) (L_remove_module c) (NS_remove_module c)); [|exact Hs|exact Hl].
    intros _. apply NS_mlog. }
  destruct ((h_type h =? MT_SUBSCRIBE) || (h_type h =? MT_RESUME_SUBSCRIPTION)).
  { unfold bind at 1. destruct ip; try (cbn [ret]; apply NS_send_ack; assumption).
    pose proof (Tpre_Spre _ _ (add_subscription_T cfg FUEL c msg_type) s Hs Hreg) as A.
    pose proof (ot_add_subscription cfg FUEL (Len n) LV LS LC c msg_type s Hl) as B.
    pose proof (NS_add_subscription c msg_type s Hreg Hs Hl) as Nc.
    destruct (add_subscription cfg FUEL c msg_type s) as [u s1|e s1]; [|exact Nc]. apply NS_send_ack; assumption. }
  destruct ((h_type h =? MT_UNSUBSCRIBE) || (h_type h =? MT_PAUSE_SUBSCRIPTION)).
  { unfold bind at 1. destruct ip; try (cbn [ret]; apply NS_send_ack; assumption).
    pose proof (Tpre_Spre _ _ (remove_subscription_T cfg FUEL c msg_type) s Hs Hreg) as A.
    pose proof (ot_remove_subscription cfg FUEL (Len n) LV LS LC c msg_type s Hl) as B.
    pose proof (NS_remove_subscription c msg_type s Hreg Hs Hl) as Nc.
    destruct (remove_subscription cfg FUEL c msg_type s) as [u s1|e s1]; [|exact Nc]. apply NS_send_ack; assumption. }
  destruct (h_type h =? MT_CLIENT_SET_NAME).
  { revert s Hs Hl Hreg. intros s Hs Hl _. revert s Hs Hl.
    assert (Sn : forall nm, S (set_mod c (fun m => mm_name m nm))).
    { intros nm. apply S_set_keeps; [apply keeps_name|reflexivity|intro; apply km_name]. }
    apply NS_bind; [| | |intros _; apply NS_send_client_info].
    - destruct ip; try apply S_mlog. destruct ascii; [|apply S_mlog].
      apply S_bind; [apply Sn|intros _; apply S_mlog].
    - destruct ip; try apply L_mlog. destruct ascii; [|apply L_mlog].
      apply pres_bind; [apply Len_set_mod|intros _; apply L_mlog].
    - destruct ip; try apply NS_mlog. destruct ascii; [|apply NS_mlog].
      apply NS_bind; [apply Sn|apply Len_set_mod|apply NS_set_mod|intros _; apply NS_mlog]. }
  destruct (h_type h =? MT_MODULE_READY).
  { revert s Hs Hl Hreg. intros s Hs Hl _. revert s Hs Hl.
    apply NS_bind; [| | |intros _; apply NS_send_client_info].
    - destruct ip; try apply S_ret. apply S_set_keeps; [apply keeps_pid|reflexivity|intro; apply km_pid].
    - destruct ip; try apply pres_ret. apply Len_set_mod.
    - destruct ip; try apply NS_ret. apply NS_set_mod. }
  revert s Hs Hl Hreg. intros s Hs Hl _. revert s Hs Hl.
  apply NS_bind; [apply S_mlog|apply L_mlog|apply NS_mlog|]. intros _. apply NS_fwd.
Qed.

Lemma NS_service c ib : NS (service cfg FUEL c ib).
Proof.
  unfold service. apply NS_get. intros s Hs Hl.
  destruct (m_reg (find_mod c (mods s))) eqn:Hreg; cbn [negb]; [|exact I].
  assert (Rm : forall lvl, NS (remove_module cfg FUEL c ;;; mlog cfg FUEL lvl)).
  { intros lvl. apply NS_bind; [apply S_remove_module|apply L_remove_module|apply NS_remove_module|]. intros _. apply NS_mlog. }
  destruct ib as [h ip| |h| |h].
  - destruct (bad_size (h_nbytes h)); [apply Rm; assumption|]. apply NS_process_message; auto.
  - apply Rm; assumption.
  - destruct (bad_size (h_nbytes h)); [apply Rm; assumption|].
    destruct (h_nbytes h =? 0); [apply NS_process_message; auto|apply Rm; assumption].
  - apply Rm; assumption.
  - destruct (bad_size (h_nbytes h)); [apply Rm; assumption|].
    destruct (h_nbytes h =? 0); [apply NS_process_message; auto|apply Rm; assumption].
Qed.

(* ---------- periodic senders ---------- *)

Lemma S_mod_aux f : (forall s, mods (f s) = mods s /\ subs (f s) = subs s /\ loggers (f s) = loggers s /\
                                dyn_off (f s) = dyn_off s /\ next_uid (f s) = next_uid s) -> S (modify f).
Proof. apply S_modify_aux. Qed.

Ltac mod_step := apply NS_bind; [apply S_mod_aux; intros; simpl; auto|apply L_modify; reflexivity|apply NS_modify|]; intros _.

Lemma NS_send_timing : NS (send_timing_message cfg FUEL).
Proof.
  unfold send_timing_message. apply NS_get. intros s Hs Hl. rewrite timing_writes_exact.
  pose proof Hs as (R & I0 & _).
  destruct (pid_writes_some (registered s)) as [pw E].
  { intros m Hm. unfold registered in Hm. apply filter_In in Hm. destruct Hm. apply I0; auto. }
  rewrite E. cbv zeta. generalize (sending_traffic s). intros prev.
  generalize (map (fun x : Z * Z => (fst x, wrap16 (snd x))) (filter (fun x : Z * Z => timing_slot_ok (fst x)) (counts s))).
  intros tw. clear R I0 E. revert s Hs Hl.
  mod_step. mod_step.
  apply NS_bind; [apply S_send_mgr|apply L_send_mgr; reflexivity|apply NS_send_mgr|]. intros _. apply NS_modify.
Qed.

Lemma NS_send_traffic now : NS (send_traffic cfg FUEL now).
Proof.
  unfold send_traffic. apply NS_get. intros s Hs Hl. cbv zeta. generalize (sending_traffic s). intros prev. revert s Hs Hl.
  mod_step.
  apply NS_bind; [apply S_mlog|apply L_mlog|apply NS_mlog|]. intros _.
  apply NS_get. intros s1 Hs1 Hl1. revert s1 Hs1 Hl1.
  intros s1. generalize (traffic_seq s1), (traffic_messages (traffic s1)). intros sq l. revert s1.
  apply NS_bind.
  - apply S_mapM; intros [[sub ty] ct]; apply S_send_mgr.
  - apply pres_mapM; intros [[sub ty] ct]; apply L_send_mgr; reflexivity.
  - apply NS_mapM; intros [[sub ty] ct]; [apply S_send_mgr|apply L_send_mgr; reflexivity|apply NS_send_mgr].
  - intros _. mod_step. mod_step. apply NS_modify.
Qed.

Lemma NS_active_loop : forall l i acc, NS (active_loop cfg FUEL i l acc).
Proof.
  induction l as [|c r IH]; intros i acc; cbn [active_loop]; [apply NS_ret|].
  apply NS_get. intros s Hs Hl. cbv zeta. rewrite active_slot_in_array.
  generalize (if active_slot_ok i then acc ++ [(m_mod_id (find_mod c (mods s)), m_pid (find_mod c (mods s)))] else acc).
  intros acc'. revert s Hs Hl.
  apply NS_bind; [apply S_ret|apply pres_ret|apply NS_ret|]. intros _.
  apply NS_bind; [apply S_send_client_info|apply L_send_client_info|apply NS_send_client_info|]. intros _. apply IH.
Qed.

Lemma NS_send_active now : NS (send_active_clients cfg FUEL now).
Proof.
  unfold send_active_clients. apply NS_bind; [apply S_mlog|apply L_mlog|apply NS_mlog|]. intros _.
  apply NS_get. intros s Hs Hl. revert s Hs Hl. intros s0. generalize (map m_conn (registered s0)). intros l. revert s0.
  apply NS_bind; [apply active_loop_S|apply L_active_loop|apply NS_active_loop|]. intros entries.
  apply NS_get. intros s1 Hs1 Hl1. revert s1 Hs1 Hl1. intros s1. generalize (Z.of_nat (length (registered s1)) - 1). intros k. revert s1.
  apply NS_bind; [apply S_send_mgr|apply L_send_mgr; reflexivity|apply NS_send_mgr|]. intros _. apply NS_modify.
Qed.

Lemma NS_periodic now : NS (periodic cfg FUEL now).
Proof.
  unfold periodic. apply NS_get. intros s Hs Hl. revert s Hs Hl. intros s0.
  generalize (timing_on cfg && elapsed now (t_timing s0) PER_timing_num PER_timing_den). intros b0. revert s0.
  assert (Tm : forall f, (forall s, mods (f s) = mods s /\ subs (f s) = subs s /\ loggers (f s) = loggers s /\
                                    dyn_off (f s) = dyn_off s /\ next_uid (f s) = next_uid s) ->
                         S (send_timing_message cfg FUEL ;;; modify f) /\
                         pres (Len n) (send_timing_message cfg FUEL ;;; modify f) /\
                         NS (send_timing_message cfg FUEL ;;; modify f)).
  { intros f Hf. split; [|split].
    - apply S_bind; [apply send_timing_S|]. intros _. apply S_mod_aux. exact Hf.
    - apply pres_bind; [apply L_send_timing|]. intros _. apply L_modify. intros s. apply (Hf s).
    - apply NS_bind; [apply send_timing_S|apply L_send_timing|apply NS_send_timing|]. intros _. apply NS_modify. }
  apply NS_bind.
  { destruct b0; [|apply S_ret]. apply Tm. intros; simpl; auto. }
  { destruct b0; [|apply pres_ret]. apply Tm. intros; simpl; auto. }
  { destruct b0; [|apply NS_ret]. apply Tm. intros; simpl; auto. }
  intros _. apply NS_get. intros s1 Hs1 Hl1. revert s1 Hs1 Hl1. intros s1.
  generalize (elapsed now (t_traffic s1) PER_traffic_num PER_traffic_den). intros b1. revert s1.
  apply NS_bind.
  { destruct b1; [apply send_traffic_S|apply S_ret]. }
  { destruct b1; [apply L_send_traffic|apply pres_ret]. }
  { destruct b1; [apply NS_send_traffic|apply NS_ret]. }
  intros _.
  apply NS_get. intros s2 Hs2 Hl2. revert s2 Hs2 Hl2. intros s2.
  generalize (elapsed now (t_info s2) PER_info_num PER_info_den). intros b2. revert s2.
  destruct b2; [apply NS_send_active|apply NS_ret].
Qed.

End TopFuel.

(* ---------- one loop iteration ---------- *)

(* total judgement: from a good state with n modules to a good state with n' modules, no crash *)
Definition TS {A} (n n' : nat) (m : M A) : Prop :=
  forall s, StepInv s -> Len n s -> match m s with Ok _ s' => StepInv s' /\ Len n' s' | Crash _ _ => False end.

Lemma TS_bind {A B} n n1 n2 (m : M A) (k : A -> M B) : TS n n1 m -> (forall a, TS n1 n2 (k a)) -> TS n n2 (bind m k).
Proof.
  intros Hm Hk s Hs Hl. unfold bind. specialize (Hm s Hs Hl). destruct (m s) as [a s1|e s1]; [|exact Hm].
  destruct Hm as [Hs1 Hl1]. exact (Hk a s1 Hs1 Hl1).
Qed.

Lemma TS_of {A} n (m : M A) : S m -> pres (Len n) m -> NS n m -> TS n n m.
Proof.
  intros HS HL HN s Hs Hl. specialize (HS s Hs). specialize (HL s Hl). specialize (HN s Hs Hl).
  destruct (m s) as [a s1|e s1]; [split; assumption|exact HN].
Qed.

Lemma TS_ret {A} n (a : A) : TS n n (ret a).
Proof. intros s Hs Hl. split; assumption. Qed.

Definition acc (e : event) : nat := match e with ERound true _ _ _ => 1%nat | _ => 0%nat end.

Lemma TS_accept cfg FUEL n : (2 * n + 1 <= FUEL)%nat ->
  TS n (n + 1)
     (mlog cfg FUEL 20 ;;;
      modify (fun s => with_uid (with_mods s (mods s ++ [new_module (next_uid s + 1)])) (next_uid s + 1))).
Proof.
  intros HF. apply TS_bind with (n1 := n).
  - apply TS_of; [apply S_mlog|apply L_mlog|apply NS_of_NC, NCt_mlog; exact HF].
  - intros _ s Hs Hl. unfold modify. split; [apply accept_StepInv; exact Hs|].
    unfold Len in *. simpl. rewrite app_length. simpl. lia.
Qed.

Lemma TS_wl_service cfg FUEL n (ready : list (Z * inbound)) wlv : (2 * n + 2 <= FUEL)%nat ->
  TS n n (modify (fun s => with_wl s wlv) ;;; mapM_ (fun x => service cfg FUEL (fst x) (snd x)) ready).
Proof.
  intros HF. apply TS_bind with (n1 := n).
  - apply TS_of; [apply S_modify_aux; intros; simpl; auto|apply L_modify; reflexivity|apply NS_modify].
  - intros _. apply TS_of.
    + apply S_mapM. intros [c ib]. apply service_S.
    + apply pres_mapM. intros [c ib]. apply L_service.
    + apply NS_mapM; intros [c ib]; [apply service_S|apply L_service|apply NS_service; exact HF].
Qed.

Lemma step_total cfg FUEL e n : (2 * (n + acc e) + 2 <= FUEL)%nat -> TS n (n + acc e) (step cfg FUEL e).
Proof.
  intros HF. destruct e as [accept ready0 writable now|c k].
  2:{ cbn [acc]. rewrite Nat.add_0_r. intros s Hs Hl. pose proof (step_S cfg FUEL (EFault c k) s Hs) as H.
      cbn [step] in *. unfold modify in *. split; [exact H|].
      unfold Len in *. destruct (flookup c (faults s)) as [j|]; [destruct (j <=? 0)|]; exact Hl. }
  intros s Hs Hl. cbn [step]. unfold bind at 1. unfold get.
  generalize (filter (fun x : Z * inbound => m_reg (find_mod (fst x) (mods s))) ready0). intros ready.
  revert s Hs Hl. change (TS n (n + acc (ERound accept ready0 writable now))
    ((if accept || negb match ready with [] => true | _ :: _ => false end
      then (if accept
            then mlog cfg FUEL 20 ;;;
                 modify (fun s => with_uid (with_mods s (mods s ++ [new_module (next_uid s + 1)])) (next_uid s + 1))
            else ret tt) ;;;
           modify (fun s => with_wl s match ready with [] => [] | _ :: _ => writable end) ;;;
           mapM_ (fun x => service cfg FUEL (fst x) (snd x)) ready
      else ret tt) ;;; periodic cfg FUEL now)).
  apply TS_bind with (n1 := (n + acc (ERound accept ready0 writable now))%nat).
  2:{ intros _. apply TS_of; [apply periodic_S|apply L_periodic|apply NS_periodic; exact HF]. }
  destruct accept; cbn [acc orb] in *.
  - apply TS_bind with (n1 := (n + 1)%nat); [apply TS_accept; lia|]. intros _. apply TS_wl_service. exact HF.
  - rewrite Nat.add_0_r in *. destruct (negb match ready with [] => true | _ :: _ => false end); [|apply TS_ret].
    apply TS_bind with (n1 := n); [apply TS_ret|]. intros _. apply TS_wl_service. exact HF.
Qed.

(* ---------- all histories ---------- *)

Fixpoint accepts (es : list event) : nat :=
  match es with
  | [] => 0%nat
  | ERound true _ _ _ :: r => (1 + accepts r)%nat
  | _ :: r => accepts r
  end.

Lemma accepts_cons e r : accepts (e :: r) = (acc e + accepts r)%nat.
Proof. destruct e as [[|] ? ? ?|? ?]; reflexivity. Qed.

Lemma run_from_total cfg FUEL : forall es s n, StepInv s -> length (mods s) = n ->
  (2 * (n + accepts es) + 2 <= FUEL)%nat ->
  exists s', run_from cfg FUEL (Ok tt s) es = Ok tt s' /\ StepInv s'.
Proof.
  induction es as [|e es IH]; intros s n Hs Hl HF.
  - exists s. split; [reflexivity|exact Hs].
  - rewrite accepts_cons in HF. cbn [run_from].
    pose proof (step_total cfg FUEL e n ltac:(lia) s Hs Hl) as H.
    destruct (step cfg FUEL e s) as [u s1|x s1]; [|destruct H]. destruct H as [Hs1 Hl1]. destruct u.
    apply (IH s1 (n + acc e)%nat Hs1 Hl1). lia.
Qed.

Theorem run_total : forall cfg FUEL es,
  (2 * (accepts es + 1) + 2 <= FUEL)%nat ->
  exists s, run cfg FUEL es = Ok tt s /\ StepInv s.
Proof.
  intros cfg FUEL es HF. unfold run, init.
  assert (T0 : TS 1 1 (mlog cfg FUEL 20)).
  { apply TS_of; [apply S_mlog|apply L_mlog|apply NS_of_NC, NCt_mlog; lia]. }
  specialize (T0 init0 init0_StepInv eq_refl).
  destruct (mlog cfg FUEL 20 init0) as [u s0|x s0]; [|destruct T0]. destruct T0 as [Hs0 Hl0]. destruct u.
  apply (run_from_total cfg FUEL es s0 1%nat Hs0 Hl0). lia.
Qed.

Theorem run_total_never_crashes : forall cfg FUEL es,
  (2 * (accepts es + 1) + 2 <= FUEL)%nat ->
  match run cfg FUEL es with Ok _ _ => True | Crash _ _ => False end.
Proof. intros cfg FUEL es HF. destruct (run_total cfg FUEL es HF) as (s & E & _). rewrite E. exact I. Qed.

(* ---------- the bound is linear in the number of connections, and a linear budget is needed ----------
   Three accepted connections subscribe to CLIENT_CLOSED and then all stop accepting writes; when the first one
   hangs up, publishing its CLIENT_CLOSED closes the second, whose CLIENT_CLOSED closes the third: three nested
   forward_message calls.  A budget of 2 runs out, the budget of run_total (2 * (3 + 1) + 2 = 10) does not
   (here 3 is already enough: each level of nesting closes one more module; the factor 2 of the bound is the
   price of the uniform rank argument of Proofs/Fuel.v). *)
Definition ex_hdr (t nb : Z) : hdr := mkHdr t 1 0 0 0 0 nb 7.
Definition ex_cascade : list event :=
  [ERound true [] [] 0; ERound true [] [] 0; ERound true [] [] 0;
   ERound false [(1, IFrame (ex_hdr MT_CONNECT 4) (InConnect 0 0)); (2, IFrame (ex_hdr MT_CONNECT 4) (InConnect 0 0));
                 (3, IFrame (ex_hdr MT_CONNECT 4) (InConnect 0 0))] [1;2;3] 0;
   ERound false [(1, IFrame (ex_hdr MT_SUBSCRIBE 4) (InSub MT_CLIENT_CLOSED));
                 (2, IFrame (ex_hdr MT_SUBSCRIBE 4) (InSub MT_CLIENT_CLOSED));
                 (3, IFrame (ex_hdr MT_SUBSCRIBE 4) (InSub MT_CLIENT_CLOSED))] [1;2;3] 0;
   EFault 1 0; EFault 2 0; EFault 3 0;
   ERound false [(1, IEof)] [1;2;3] 0].

Example ex_cascade_accepts : (2 * (accepts ex_cascade + 1) + 2 = 10)%nat.
Proof. reflexivity. Qed.

Example ex_cascade_small_budget_runs_out :
  match run (mkConfig 10 true) 2 ex_cascade with Crash XFuel _ => True | _ => False end.
Proof. vm_compute. exact I. Qed.

Example ex_cascade_bound_budget_ok :
  match run (mkConfig 10 true) 10 ex_cascade with
  | Ok _ s => map (fun m => (m_conn m, m_reg m)) (mods s) = [(0, true); (1, false); (2, false); (3, false)]
  | Crash _ _ => False
  end.
Proof. vm_compute. reflexivity. Qed.

Example ex_cascade_three_is_enough :
  match run (mkConfig 10 true) 3 ex_cascade with Ok _ _ => True | Crash _ _ => False end.
Proof. vm_compute. exact I. Qed.
