(* With a nesting budget of 2 * (number of modules) + 2 no operation of the manager crashes at all:
   Proofs/StepInv.v shows that the only possible crash is XFuel, Proofs/Fuel.v that forward_message does
   not run out of budget when 2 * live + rank <= budget.  Here the two are put together for every
   top-level operation, one loop iteration, and every history:

     run_total : 2 * (accepts es + 1) + 2 <= FUEL -> exists s, run cfg FUEL es = Ok tt s /\ StepInv s

   (the module list holds the manager's own module plus one entry per accepted connection). *)
From Coq Require Import ZArith List Bool Lia ZifyBool.
From Mgr Require Import Gen.MgrDefs Model.Manager Proofs.ListLemmas Proofs.Hoare Proofs.RegInv Proofs.Frame
                        Proofs.RegTraverse Proofs.Assign Proofs.RegTop Proofs.Connect Proofs.Traffic
                        Proofs.StepInv Proofs.OutInv Proofs.Fuel.
Import ListNotations.
Open Scope Z_scope.

(* ---------- the length of the module list ---------- *)

Definition Len (n : nat) (s : mstate) : Prop := length (mods s) = n.

Lemma Len_view n s s' : view s' = view s -> Len n s -> Len n s'.
Proof.
  unfold Len. intros E H.
  assert (E2 : map mview (mods s') = map mview (mods s)) by (unfold view in E; congruence).
  apply (f_equal (@length _)) in E2. rewrite !map_length in E2. congruence.
Qed.

Lemma upd_mod_length c f l : length (upd_mod c f l) = length l.
Proof. induction l as [|m r IH]; simpl; [reflexivity|]. destruct (m_conn m =? c); simpl; congruence. Qed.

Lemma Len_set_mod n c f : pres (Len n) (set_mod c f).
Proof. unfold set_mod. apply pres_modify. intros s H. unfold Len in *. simpl. rewrite upd_mod_length. exact H. Qed.

Lemma Len_sendall n c it : pres (Len n) (sendall c it).
Proof.
  intros s H. unfold sendall. destruct (m_closed _); [exact H|].
  destruct (flookup c (faults s)) as [k|]; [destruct (k <=? 0)|]; exact H.
Qed.

Lemma Len_mod_send n c h p : pres (Len n) (mod_send c h p).
Proof.
  unfold mod_send. apply pres_getk. intros s0. apply pres_bind; [apply Len_set_mod|]. intros _.
  apply pres_bind; [apply Len_sendall|]. intros r1. destruct r1; try apply pres_ret.
  apply pres_bind; [apply Len_sendall|]. intros r2. apply pres_ret.
Qed.

Lemma Len_send n c h p : sized h p -> pres (Len n) (mod_send c h p).
Proof. intros _. apply Len_mod_send. Qed.

Lemma Len_close n c : pres (Len n) (set_mod c mm_close).
Proof. apply Len_set_mod. Qed.

Lemma Forall2_len {A B} (R : A -> B -> Prop) l l' : Forall2 R l l' -> length l' = length l.
Proof. induction 1; simpl; congruence. Qed.

Lemma Frame_len s s' : Frame s s' -> length (mods s') = length (mods s).
Proof. intros F. apply (Forall2_len _ _ _ (fr_mods _ _ F)). Qed.

Lemma Keep_len s s' : Keep s s' -> length (mods s') = length (mods s).
Proof. intros K. apply (Forall2_len _ _ _ (kp_mods _ _ K)). Qed.

Lemma KeepX_len c s s' : KeepX c s s' -> length (mods s') = length (mods s).
Proof. intros K. apply (Forall2_len _ _ _ (kx_mods _ _ _ K)). Qed.

Section TopFuel.
Variable cfg : config.
Variable FUEL : nat.
Variable n : nat.
Hypothesis HF : (2 * n + 2 <= FUEL)%nat.

(* ---------- the operations of the J world: never a crash under the budget ---------- *)

Lemma NCt_fwd X k h p : (2 * k + 2 <= FUEL)%nat -> NC X k (fwd cfg FUEL h p).
Proof. intros H. apply NC_forward. pose proof (rank_le h). lia. Qed.

Lemma NCt_mlog X k lvl : (2 * k + 1 <= FUEL)%nat -> NC X k (mlog cfg FUEL lvl).
Proof. intros H. exact (NC_mlog cfg (forward cfg FUEL) FUEL (NC_forward cfg FUEL) X k lvl H). Qed.

Lemma NCt_send_mgr X k t sz pl : (2 * k + 2 <= FUEL)%nat -> NC X k (send_mgr cfg FUEL t sz pl).
Proof. intros H. exact (NC_send_mgr (forward cfg FUEL) FUEL (NC_forward cfg FUEL) X k t sz pl H). Qed.

Lemma NCt_remove_module X k c : ~ In c X -> (2 * k <= FUEL)%nat -> NC X k (remove_module cfg FUEL c).
Proof.
  intros Hc H. exact (NC_remove_module cfg (forward cfg FUEL) FUEL (J_forward cfg FUEL) (NC_forward cfg FUEL) X k c Hc H).
Qed.

Lemma NCt_send_checked X k c hh p : ~ In c X -> (2 * k + 1 <= FUEL)%nat -> NC X k (send_checked cfg FUEL c hh p).
Proof.
  intros Hc H.
  exact (NC_send_checked cfg (forward cfg FUEL) FUEL (J_forward cfg FUEL) (NC_forward cfg FUEL) X k c hh p Hc H).
Qed.

Lemma NCt_send_client_info X k c : (2 * k + 2 <= FUEL)%nat -> NC X k (send_client_info cfg FUEL c).
Proof.
  intros H. unfold send_client_info. apply NC_bind; [apply J_mlog_top|apply NCt_mlog; lia|]. intros _.
  apply NC_get. intros s0. apply NCt_send_mgr. exact H.
Qed.

Lemma NCt_loggers_loop k : (2 * k + 1 <= FUEL)%nat -> forall l hh p, NC [] k (loggers_loop cfg FUEL hh p l).
Proof.
  intros H. induction l as [|c r IH]; intros hh p; cbn [loggers_loop]; [apply NC_ret|].
  apply NC_get. intros s0 H0 Hl.
  destruct (m_reg (find_mod c (mods s0))) eqn:Hreg; cbn [negb]; [|apply IH; assumption].
  destruct (reg_open s0 c H0 Hreg) as (Hopen & _). rewrite Hopen, andb_false_r. revert H0 Hl.
  apply NCat_bind; [apply J_send_checked_top; intros []|apply NCt_send_checked; [intros []|exact H]|].
  intros hh'. apply IH.
Qed.

Lemma NCt_send_to_loggers k hh p : (2 * k + 1 <= FUEL)%nat -> NC [] k (send_to_loggers cfg FUEL hh p).
Proof. intros H. unfold send_to_loggers. apply NC_get. intros s0. apply NCt_loggers_loop. exact H. Qed.

Lemma NCt_send_ack k c : (2 * k + 1 <= FUEL)%nat -> NC [] k (send_ack cfg FUEL c).
Proof.
  intros H. unfold send_ack. apply NC_get. intros s0.
  apply NCat_bind; [apply J_send_checked_top; intros []|apply NCt_send_checked; [intros []|exact H]|].
  intros hh'. apply NCt_send_to_loggers. exact H.
Qed.

(* ---------- the top-level no-crash judgement ---------- *)

Definition NSat {A} (s : mstate) (m : M A) : Prop :=
  StepInv s -> Len n s -> match m s with Ok _ _ => True | Crash _ _ => False end.
Definition NS {A} (m : M A) : Prop := forall s, NSat s m.

Lemma NS_of_NC {A} (m : M A) : NC [] n m -> NS m.
Proof.
  intros H s Hs Hl. apply H; [destruct Hs as (R & _); exact R|].
  pose proof (live_le s). unfold Len in Hl. lia.
Qed.

Lemma NSat_bind' {A B} s (m : M A) (k : A -> M B) :
  (StepInv s -> match m s with Ok _ s' => StepInv s' | Crash e _ => e = XFuel end) ->
  pres (Len n) m -> NSat s m ->
  (forall a s1, m s = Ok a s1 -> NSat s1 (k a)) -> NSat s (bind m k).
Proof.
  intros HS HL HN Hk Hs Hl. unfold bind. specialize (HS Hs). specialize (HL s Hl). specialize (HN Hs Hl).
  destruct (m s) as [a s1|e s1]; [|exact HN]. exact (Hk a s1 eq_refl HS HL).
Qed.

Lemma NSat_bind {A B} s (m : M A) (k : A -> M B) :
  S m -> pres (Len n) m -> NSat s m -> (forall a, NS (k a)) -> NSat s (bind m k).
Proof. intros HS HL HN Hk. apply NSat_bind'; [apply HS|exact HL|exact HN|]. intros a s1 _. apply Hk. Qed.

Lemma NS_bind {A B} (m : M A) (k : A -> M B) :
  S m -> pres (Len n) m -> NS m -> (forall a, NS (k a)) -> NS (bind m k).
Proof. intros HS HL HN Hk s. apply NSat_bind; auto. Qed.

Lemma NS_ret {A} (a : A) : NS (ret a).
Proof. intros s _ _. exact I. Qed.

Lemma NS_get {A} (k : mstate -> M A) : (forall s0, NSat s0 (k s0)) -> NS (bind get k).
Proof. intros H s Hs Hl. unfold bind, get. apply H; auto. Qed.

Lemma NS_modify f : NS (modify f).
Proof. intros s _ _. exact I. Qed.

Lemma NS_set_mod c f : NS (set_mod c f).
Proof. apply NS_modify. Qed.

Lemma NS_mapM {A} (f : A -> M unit) l :
  (forall x, S (f x)) -> (forall x, pres (Len n) (f x)) -> (forall x, NS (f x)) -> NS (mapM_ f l).
Proof.
  intros HS HL HN. induction l as [|x r IH]; cbn [mapM_]; [apply NS_ret|].
  apply NS_bind; auto.
Qed.

(* Len n is an invariant of everything but accept *)
Local Notation LV := (Len_view n).
Local Notation LS := (Len_send n).
Local Notation LC := (Len_close n).

Lemma L_mlog lvl : pres (Len n) (mlog cfg FUEL lvl).
Proof. exact (ot_mlog cfg FUEL (Len n) LV LS LC lvl). Qed.
Lemma L_remove_module c : pres (Len n) (remove_module cfg FUEL c).
Proof. exact (ot_remove_module cfg FUEL (Len n) LV LS LC c). Qed.
Lemma L_send_ack c : pres (Len n) (send_ack cfg FUEL c).
Proof. exact (ot_send_ack cfg FUEL (Len n) LV LS LC c). Qed.
Lemma L_send_client_info c : pres (Len n) (send_client_info cfg FUEL c).
Proof. exact (ot_send_client_info cfg FUEL (Len n) LV LS LC c). Qed.
Lemma L_send_mgr t sz pl : pay_size pl = sz -> pres (Len n) (send_mgr cfg FUEL t sz pl).
Proof. exact (ot_send_mgr cfg FUEL (Len n) LV LS LC t sz pl). Qed.
Lemma L_process_message c h ip : pres (Len n) (process_message cfg FUEL c h ip).
Proof. exact (ot_process_message cfg FUEL (Len n) LV LS LC c h ip). Qed.
Lemma L_service c ib : pres (Len n) (service cfg FUEL c ib).
Proof. exact (ot_service cfg FUEL (Len n) LV LS LC c ib). Qed.
Lemma L_send_timing : pres (Len n) (send_timing_message cfg FUEL).
Proof. exact (ot_send_timing cfg FUEL (Len n) LV LS LC). Qed.
Lemma L_send_traffic now : pres (Len n) (send_traffic cfg FUEL now).
Proof. exact (ot_send_traffic cfg FUEL (Len n) LV LS LC now). Qed.
Lemma L_active_loop l i acc : pres (Len n) (active_loop cfg FUEL i l acc).
Proof. exact (ot_active_loop cfg FUEL (Len n) LV LS LC l i acc). Qed.
Lemma L_send_active now : pres (Len n) (send_active_clients cfg FUEL now).
Proof. exact (ot_send_active cfg FUEL (Len n) LV LS LC now). Qed.
Lemma L_periodic now : pres (Len n) (periodic cfg FUEL now).
Proof. exact (ot_periodic cfg FUEL (Len n) LV LS LC now). Qed.
Lemma L_modify f : (forall s, mods (f s) = mods s) -> pres (Len n) (modify f).
Proof. intros H. apply pres_modify. intros s Hs. unfold Len in *. rewrite H. exact Hs. Qed.

(* J-world operations as NS facts *)
Lemma NS_mlog lvl : NS (mlog cfg FUEL lvl).
Proof. apply NS_of_NC, NCt_mlog. lia. Qed.
Lemma NS_send_mgr t sz pl : NS (send_mgr cfg FUEL t sz pl).
Proof. apply NS_of_NC, NCt_send_mgr. lia. Qed.
Lemma NS_fwd h p : NS (fwd cfg FUEL h p).
Proof. apply NS_of_NC, NCt_fwd. lia. Qed.
Lemma NS_remove_module c : NS (remove_module cfg FUEL c).
Proof. apply NS_of_NC, NCt_remove_module; [intros []|lia]. Qed.
Lemma NS_send_client_info c : NS (send_client_info cfg FUEL c).
Proof. apply NS_of_NC, NCt_send_client_info. lia. Qed.
Lemma NS_send_ack c : NS (send_ack cfg FUEL c).
Proof. apply NS_of_NC, NCt_send_ack. lia. Qed.

End TopFuel.
