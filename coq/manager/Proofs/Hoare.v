(* A small Hoare logic for the state/exception monad of Model/Manager.v.
   hoare P m Q C : from any state satisfying P, m either returns a with final
   state satisfying Q a, or crashes in a state satisfying C. *)
From Coq Require Import ZArith List Bool Lia.
From Mgr Require Import Gen.MgrDefs Model.Manager.
Import ListNotations.
Open Scope Z_scope.

Definition hoare {A} (P : mstate -> Prop) (m : M A) (Q : A -> mstate -> Prop) (C : exn -> mstate -> Prop) : Prop :=
  forall s, P s -> match m s with Ok a s' => Q a s' | Crash e s' => C e s' end.

Lemma hoare_ret {A} (P : mstate -> Prop) (a : A) (Q : A -> mstate -> Prop) (C : exn -> mstate -> Prop) : (forall s, P s -> Q a s) -> hoare P (ret a) Q C.
Proof. intros H s Hs. simpl. auto. Qed.

Lemma hoare_bind {A B} (P : mstate -> Prop) (m : M A) (k : A -> M B) (R : A -> mstate -> Prop) (Q : B -> mstate -> Prop) (C : exn -> mstate -> Prop) :
  hoare P m R C -> (forall a, hoare (R a) (k a) Q C) -> hoare P (bind m k) Q C.
Proof.
  intros Hm Hk s Hs. unfold bind. specialize (Hm s Hs).
  destruct (m s) as [a s'|e s']; [apply (Hk a s' Hm)|exact Hm].
Qed.

Lemma hoare_get (P : mstate -> Prop) (k : mstate -> M unit) (Q : unit -> mstate -> Prop) (C : exn -> mstate -> Prop) :
  (forall s0, hoare (fun s => P s /\ s = s0) (k s0) Q C) -> hoare P (bind get k) Q C.
Proof. intros H s Hs. unfold bind, get. apply (H s s). auto. Qed.

Lemma hoare_get_gen {A} (P : mstate -> Prop) (k : mstate -> M A) (Q : A -> mstate -> Prop) (C : exn -> mstate -> Prop) :
  (forall s0, hoare (fun s => P s /\ s = s0) (k s0) Q C) -> hoare P (bind get k) Q C.
Proof. intros H s Hs. unfold bind, get. apply (H s s). auto. Qed.

Lemma hoare_modify (P : mstate -> Prop) f (Q : unit -> mstate -> Prop) (C : exn -> mstate -> Prop) :
  (forall s, P s -> Q tt (f s)) -> hoare P (modify f) Q C.
Proof. intros H s Hs. simpl. auto. Qed.

Lemma hoare_crash {A} (P : mstate -> Prop) e (Q : A -> mstate -> Prop) (C : exn -> mstate -> Prop) :
  (forall s, P s -> C e s) -> hoare P (crash e) Q C.
Proof. intros H s Hs. simpl. auto. Qed.

Lemma hoare_weaken {A} (P P' : mstate -> Prop) (m : M A) (Q Q' : A -> mstate -> Prop) (C C' : exn -> mstate -> Prop) :
  hoare P' m Q' C' -> (forall s, P s -> P' s) -> (forall a s, Q' a s -> Q a s) -> (forall e s, C' e s -> C e s) ->
  hoare P m Q C.
Proof.
  intros H HP HQ HC s Hs. specialize (H s (HP s Hs)). destruct (m s); auto.
Qed.

Lemma hoare_pre {A} (P P' : mstate -> Prop) (m : M A) (Q : A -> mstate -> Prop) (C : exn -> mstate -> Prop) :
  hoare P' m Q C -> (forall s, P s -> P' s) -> hoare P m Q C.
Proof. intros H HP. eapply hoare_weaken; eauto. Qed.

Lemma hoare_if {A} (b : bool) (P : mstate -> Prop) (m1 m2 : M A) (Q : A -> mstate -> Prop) (C : exn -> mstate -> Prop) :
  (b = true -> hoare P m1 Q C) -> (b = false -> hoare P m2 Q C) -> hoare P (if b then m1 else m2) Q C.
Proof. destruct b; auto. Qed.

Lemma hoare_false {A} (m : M A) (Q : A -> mstate -> Prop) (C : exn -> mstate -> Prop) : hoare (fun _ => False) m Q C.
Proof. intros s []. Qed.

(* pure knowledge can be pulled out of the precondition *)
Lemma hoare_pure {A} (F : Prop) (P : mstate -> Prop) (m : M A) (Q : A -> mstate -> Prop) (C : exn -> mstate -> Prop) :
  (F -> hoare P m Q C) -> hoare (fun s => F /\ P s) m Q C.
Proof. intros H s [HF HP]. exact (H HF s HP). Qed.

Lemma hoare_mapM {A} (I : mstate -> Prop) (f : A -> M unit) (l : list A) (C : exn -> mstate -> Prop) :
  (forall x, In x l -> hoare I (f x) (fun _ => I) C) -> hoare I (mapM_ f l) (fun _ => I) C.
Proof.
  induction l as [|x r IH]; intros H; simpl.
  - apply hoare_ret; auto.
  - eapply hoare_bind; [apply H; left; reflexivity|]. intros ?. apply IH. intros y Hy. apply H. right. exact Hy.
Qed.

(* invariants: same predicate before, after and at a crash *)
Definition pres {A} (I : mstate -> Prop) (m : M A) : Prop := hoare I m (fun _ => I) (fun _ => I).

Lemma pres_ret {A} (I : mstate -> Prop) (a : A) : pres I (ret a).
Proof. apply hoare_ret; auto. Qed.

Lemma pres_bind {A B} (I : mstate -> Prop) (m : M A) (k : A -> M B) : pres I m -> (forall a, pres I (k a)) -> pres I (bind m k).
Proof. intros H1 H2. eapply hoare_bind; [exact H1|exact H2]. Qed.

Lemma pres_crash {A} (I : mstate -> Prop) e : pres I (@crash A e).
Proof. apply hoare_crash; auto. Qed.

Lemma pres_if {A} (b : bool) (I : mstate -> Prop) (m1 m2 : M A) : pres I m1 -> pres I m2 -> pres I (if b then m1 else m2).
Proof. destruct b; auto. Qed.

Lemma pres_modify (I : mstate -> Prop) f : (forall s, I s -> I (f s)) -> pres I (modify f).
Proof. intros H. apply hoare_modify; auto. Qed.

Lemma pres_get {A} (I : mstate -> Prop) (k : mstate -> M A) : (forall s0, I s0 -> hoare (fun s => I s /\ s = s0) (k s0) (fun _ => I) (fun _ => I)) -> pres I (bind get k).
Proof.
  intros H s Hs. unfold bind, get. apply (H s Hs s). auto.
Qed.

Lemma pres_mapM {A} (I : mstate -> Prop) (f : A -> M unit) l : (forall x, pres I (f x)) -> pres I (mapM_ f l).
Proof. intros H. apply hoare_mapM. intros x _. apply H. Qed.

(* final state of a result *)
Definition st {A} (r : res A) : mstate := match r with Ok _ s => s | Crash _ s => s end.

Lemma pres_st {A} (I : mstate -> Prop) (m : M A) s : pres I m -> I s -> I (st (m s)).
Proof. intros H Hs. specialize (H s Hs). destruct (m s); exact H. Qed.
