(* C19, end to end at the level of process_message / service:
   (1) a SUBSCRIBE / RESUME_SUBSCRIPTION / UNSUBSCRIBE / PAUSE_SUBSCRIPTION frame is answered by exactly one
       ACKNOWLEDGE frame on the sender's connection followed by one copy per registered logger, nothing else
       (debug logging off, sender and loggers can be written to) - the right-hand side is stated on the state
       in which the frame arrives;
   (2) DISCONNECT, MODULE_READY, CLIENT_SET_NAME and data frames never make the manager write an ACKNOWLEDGE
       header of its own to anybody - with no assumption at all on who is writable or whose sends fail
       (a traversal of forward_message and everything it re-enters, parameterised by a guard on the headers
       handed to Module.send_message);
   (3) an accepted CONNECT writes the acknowledgement, its logger copies, the CLIENT_INFO frames, nothing else. *)
From Coq Require Import ZArith List Bool Lia ZifyBool.
From Mgr Require Import Gen.MgrDefs Model.Manager Proofs.ListLemmas Proofs.Hoare Proofs.RegInv Proofs.Frame
                        Proofs.RegTraverse Proofs.RegTop Proofs.Connect Proofs.StepInv Proofs.Routing Proofs.OutInv
                        Proofs.C05Inv Proofs.Exact Proofs.ExactTop Proofs.AckExact.
Import ListNotations.
Open Scope Z_scope.

(* ---------- counting the manager's acknowledgements ---------- *)

Definition is_ack (it : item) : bool :=
  match it with
  | OHdr h => (h_type h =? MT_ACKNOWLEDGE) && (h_src_mod h =? MID_MESSAGE_MANAGER)
  | OPay _ => false
  end.
Definition acks_in (l : list item) : nat := length (filter is_ack l).

Lemma acks_in_app a b : acks_in (a ++ b) = (acks_in a + acks_in b)%nat.
Proof. unfold acks_in. rewrite filter_app, app_length. reflexivity. Qed.

Lemma proj_frame_for_any h q st c f :
  proj f (frame_for h q st c) = if c =? f then [OHdr (set_count h (cnt st c + 1)); OPay q] else [].
Proof. unfold frame_for. cbn [proj]. destruct (c =? f); reflexivity. Qed.

(* ---------- lframes / frame_for only look at registration, counters and open sockets ---------- *)

Definition qsim (s s1 : mstate) : Prop :=
  forall x, m_closed (find_mod x (mods s1)) = m_closed (find_mod x (mods s)) /\
            m_reg (find_mod x (mods s1)) = m_reg (find_mod x (mods s)) /\
            m_count (find_mod x (mods s1)) = m_count (find_mod x (mods s)).

Lemma quiet_qsim s s1 : quiet_step s s1 -> qsim s s1.
Proof. intros (_ & _ & _ & _ & H) x. destruct (H x) as (A & B & C & _). auto. Qed.

Lemma after_send_count_at h p s c x : 0 <= c -> m_closed (find_mod c (mods s)) = false ->
  m_count (find_mod x (mods (after_send h p s c))) = if x =? c then cnt s c + 1 else m_count (find_mod x (mods s)).
Proof.
  intros Hc Ho. pose proof (find_mod_conn_of_open _ _ Ho) as Hcc. unfold after_send. cbn [mods with_mods].
  rewrite (find_upd_field m_count c x (fun m => mm_drops m 0)); [|intro; reflexivity|intro; reflexivity].
  rewrite find_upd; [|intro; reflexivity|exact Hc]. destruct (x =? c); [rewrite Hcc, Z.eqb_refl; reflexivity|reflexivity].
Qed.

Lemma qsim_after h p s s1 d : qsim s s1 -> 0 <= d -> m_closed (find_mod d (mods s)) = false ->
  qsim (after_send h p s d) (after_send h p s1 d).
Proof.
  intros Q Hd Ho x. destruct (Q x) as (A & B & C). destruct (Q d) as (Ad & _ & Cd).
  rewrite !(after_send_field m_closed), !(after_send_field m_reg); auto.
  rewrite !after_send_count_at; auto; [|congruence]. unfold cnt. rewrite Cd, C. auto.
Qed.

Lemma lframes_qsim h p : forall l s s1, qsim s s1 ->
  (forall x, In x l -> m_reg (find_mod x (mods s)) = true -> 0 <= x /\ m_closed (find_mod x (mods s)) = false) ->
  lframes h p s1 l = lframes h p s l.
Proof.
  induction l as [|d r IH]; intros s s1 Q Hl; cbn [lframes]; [reflexivity|].
  destruct (Q d) as (A & B & C). rewrite B. destruct (m_reg (find_mod d (mods s))) eqn:Hreg.
  - destruct (Hl d (or_introl eq_refl) Hreg) as [Hd Ho].
    unfold frame_for, cnt. rewrite C. f_equal. apply IH; [apply qsim_after; auto|].
    intros x Hx Hr. rewrite (after_send_field m_reg) in Hr; auto. rewrite (after_send_field m_closed); auto.
    apply Hl; [right; exact Hx|exact Hr].
  - apply IH; auto. intros x Hx. apply Hl. right. exact Hx.
Qed.

(* ---------- (1) the four subscription control frames ---------- *)

Definition is_ctrl (t : Z) : bool :=
  (t =? MT_SUBSCRIBE) || (t =? MT_RESUME_SUBSCRIPTION) || (t =? MT_UNSUBSCRIBE) || (t =? MT_PAUSE_SUBSCRIPTION).

(* one ACKNOWLEDGE frame to c, then a copy to every registered logger, in logger order *)
Definition ack_frames (s : mstate) (c : Z) : list (Z * item) :=
  frame_for (ack_hdr s c) (PData 0 0) s c ++
  lframes (ack_hdr s c) (PData 0 0) (after_send (ack_hdr s c) (PData 0 0) s c) (loggers s).

Definition loggers_sendable (s : mstate) : Prop :=
  forall l, In l (loggers s) -> m_reg (find_mod l (mods s)) = true -> sendable s l.

Lemma sendable_quiet s s1 x : quiet_step s s1 -> sendable s x -> sendable s1 x.
Proof.
  intros (_ & Ef & _ & _ & H) (H0 & Hc & Hf). destruct (H x) as (A & _). unfold sendable. rewrite A, Ef. auto.
Qed.

Lemma ack_frames_quiet s s1 c : quiet_step s s1 -> sendable s c -> loggers_sendable s -> ack_frames s1 c = ack_frames s c.
Proof.
  intros Q Hc Hl. pose proof (quiet_qsim s s1 Q) as Qs. destruct Q as (_ & _ & Elg & _ & H).
  assert (Eh : ack_hdr s1 c = ack_hdr s c).
  { unfold ack_hdr. destruct (H c) as (_ & _ & _ & E). rewrite E. reflexivity. }
  unfold ack_frames. rewrite Eh, Elg. destruct Hc as (Hc0 & Hco & Hcf). f_equal.
  - unfold frame_for, cnt. destruct (Qs c) as (_ & _ & C). rewrite C. reflexivity.
  - apply lframes_qsim; [apply qsim_after; auto|].
    intros x Hx Hr. rewrite (after_send_field m_reg) in Hr; auto. rewrite (after_send_field m_closed); auto.
    destruct (Hl x Hx Hr) as (A & B & _). auto.
Qed.

Lemma ack_after_quiet cfg FUEL (op : M unit) c s s1 :
  op s = Ok tt s1 -> quiet_step s s1 -> sendable s c -> loggers_sendable s ->
  exists s', (op ;;; send_ack cfg FUEL c) s = Ok tt s' /\ out s' = out s ++ ack_frames s c.
Proof.
  intros E Q Hc Hl. unfold bind. rewrite E.
  destruct (send_ack_exact cfg FUEL c s1) as (s' & E' & Ho).
  - apply (sendable_quiet s s1); auto.
  - intros l Hin Hr. pose proof Q as (_ & _ & Elg & _ & H). destruct (H l) as (_ & B & _).
    apply (sendable_quiet s s1); auto. apply Hl; [rewrite <- Elg; exact Hin|congruence].
  - exists s'. split; [exact E'|]. rewrite Ho. fold (ack_frames s1 c).
    rewrite (ack_frames_quiet s s1 c Q Hc Hl). destruct Q as (Eo & _). rewrite Eo. reflexivity.
Qed.

Theorem ctrl_frame_exact cfg FUEL c h t s :
  10 < loglevel cfg -> is_ctrl (h_type h) = true -> sendable s c -> loggers_sendable s ->
  exists s', process_message cfg FUEL c h (InSub t) s = Ok tt s' /\ out s' = out s ++ ack_frames s c.
Proof.
  intros Hlog Hct Hc Hl. destruct (subscription_quiet cfg FUEL c t s Hlog) as [(sa & Ea & Qa) (sr & Er & Qr)].
  unfold is_ctrl in Hct. rewrite !orb_true_iff, !Z.eqb_eq in Hct.
  assert (Hadd : h_type h = MT_SUBSCRIBE \/ h_type h = MT_RESUME_SUBSCRIPTION ->
                 process_message cfg FUEL c h (InSub t) = (add_subscription cfg FUEL c t ;;; send_ack cfg FUEL c)).
  { intros [H|H]; unfold process_message; rewrite H; reflexivity. }
  assert (Hrem : h_type h = MT_UNSUBSCRIBE \/ h_type h = MT_PAUSE_SUBSCRIPTION ->
                 process_message cfg FUEL c h (InSub t) = (remove_subscription cfg FUEL c t ;;; send_ack cfg FUEL c)).
  { intros [H|H]; unfold process_message; rewrite H; reflexivity. }
  destruct Hct as [[[H|H]|H]|H].
  - rewrite Hadd; auto. eapply ack_after_quiet; eauto.
  - rewrite Hadd; auto. eapply ack_after_quiet; eauto.
  - rewrite Hrem; auto. eapply ack_after_quiet; eauto.
  - rewrite Hrem; auto. eapply ack_after_quiet; eauto.
Qed.

(* the frames are acknowledgements of the manager, addressed to the sender's module *)
Lemma ack_hdr_fields s c n :
  h_type (set_count (ack_hdr s c) n) = MT_ACKNOWLEDGE /\ h_src_mod (set_count (ack_hdr s c) n) = MID_MESSAGE_MANAGER /\
  h_dst_mod (set_count (ack_hdr s c) n) = m_mod_id (find_mod c (mods s)) /\ h_nbytes (set_count (ack_hdr s c) n) = 0 /\
  h_count (set_count (ack_hdr s c) n) = n.
Proof. repeat split. Qed.

Lemma acks_lframes h p x : is_ack (OHdr h) = true -> forall l st, NoDup l ->
  acks_in (proj x (lframes h p st l)) = if zmem x l && m_reg (find_mod x (mods st)) then 1%nat else 0%nat.
Proof.
  intros Hh. induction l as [|d r IH]; intros st Hnd; [reflexivity|].
  apply NoDup_cons_iff in Hnd. destruct Hnd as [Hnin Hnd]. cbn [lframes zmem].
  destruct (m_reg (find_mod d (mods st))) eqn:Hreg.
  - rewrite proj_app, acks_in_app, proj_frame_for_any, (IH _ Hnd), (after_send_field m_reg); auto.
    destruct (d =? x) eqn:E.
    + apply Z.eqb_eq in E. subst d. rewrite Z.eqb_refl, Hreg. cbn [orb andb].
      assert (Hz : zmem x r = false) by (apply zmem_false; exact Hnin). rewrite Hz. cbn [andb].
      unfold acks_in. cbn [filter]. change (is_ack (OHdr (set_count h (cnt st x + 1)))) with (is_ack (OHdr h)). rewrite Hh. reflexivity.
    + assert (E' : x =? d = false) by lia. rewrite E'. reflexivity.
  - rewrite (IH _ Hnd). destruct (x =? d) eqn:E; [|reflexivity].
    apply Z.eqb_eq in E. subst d. rewrite Hreg, !andb_false_r. reflexivity.
Qed.

(* exactly one acknowledgement on the sender's connection (two if the sender is itself a registered logger:
   its own copy), exactly one on every other registered logger's connection, none anywhere else *)
Theorem ack_frames_count s c x : NoDup (loggers s) ->
  acks_in (proj x (ack_frames s c)) =
    ((if (x =? c)%Z then 1 else 0) + (if zmem x (loggers s) && m_reg (find_mod x (mods s)) then 1 else 0))%nat.
Proof.
  intros Hnd. unfold ack_frames. rewrite proj_app, acks_in_app, proj_frame_for_any.
  rewrite (acks_lframes (ack_hdr s c) (PData 0 0) x eq_refl (loggers s) _ Hnd), (after_send_field m_reg); auto.
  f_equal. rewrite (Z.eqb_sym x c). destruct (c =? x); reflexivity.
Qed.

(* ---------- (2) a guard on every header the manager writes ----------
   If the header handed to forward_message satisfies G, G is stable under stamping the sequence number and holds
   of the headers of the notices the manager originates on the way (log records, FAILED_MESSAGE, CLIENT_CLOSED),
   then every header appended to the output satisfies G - whoever is writable, whatever fails. *)
Section HeaderGuard.
Variable cfg : config.
Variable G : hdr -> Prop.
Hypothesis Gcount : forall h n, G h -> G (set_count h n).
Hypothesis Glog : forall lvl, G (mgr_hdr (log_type lvl) SZ_RTMA_LOG 0).
Hypothesis Gfailed : G (mgr_hdr MT_FAILED_MESSAGE SZ_FAILED_MESSAGE 0).
Hypothesis Gclosed : G (mgr_hdr MT_CLIENT_CLOSED SZ_CLIENT_CLOSED 0).
Variable o0 : list (Z * item).

Definition okitem (ci : Z * item) : Prop := match snd ci with OHdr h => G h | OPay _ => True end.
Definition Only (s : mstate) : Prop := exists suf, out s = o0 ++ suf /\ Forall okitem suf.

Lemma Only_same s s' : out s' = out s -> Only s -> Only s'.
Proof. intros E (suf & Ho & Hf). exists suf. rewrite E. auto. Qed.

Lemma Only_snoc s s' ci : out s' = out s ++ [ci] -> okitem ci -> Only s -> Only s'.
Proof.
  intros E Hk (suf & Ho & Hf). exists (suf ++ [ci]). rewrite E, Ho, app_assoc. split; [reflexivity|].
  apply Forall_app. split; [exact Hf|constructor; [exact Hk|constructor]].
Qed.

Lemma g_getk {A} (k : mstate -> M A) : (forall s0, pres Only (k s0)) -> pres Only (bind get k).
Proof. intros H s Hs. unfold bind, get. apply H; auto. Qed.

Lemma g_modify f : (forall s, out (f s) = out s) -> pres Only (modify f).
Proof. intros H. apply pres_modify. intros s Hs. eapply Only_same; eauto. Qed.

Lemma g_set_mod c f : pres Only (set_mod c f).
Proof. unfold set_mod. apply g_modify. reflexivity. Qed.

Lemma g_sendall c it : okitem (c, it) -> pres Only (sendall c it).
Proof.
  intros Hk s Hs. unfold sendall. destruct (m_closed _); [exact Hs|].
  destruct (flookup c (faults s)) as [n|]; [destruct (n <=? 0); [exact Hs|]|];
    (eapply Only_snoc; [|exact Hk|exact Hs]; reflexivity).
Qed.

(* operations that return a header: it still satisfies G *)
Definition presG (m : M hdr) : Prop := hoare Only m (fun hh s => Only s /\ G hh) (fun _ => Only).

Lemma presG_bind {B} (m : M hdr) (k : hdr -> M B) : presG m -> (forall hh, G hh -> pres Only (k hh)) -> pres Only (bind m k).
Proof.
  intros Hm Hk s Hs. unfold bind. specialize (Hm s Hs). destruct (m s) as [hh s'|e s']; [|exact Hm].
  destruct Hm as [Hi Hg]. exact (Hk hh Hg s' Hi).
Qed.

Lemma presG_ret hh : G hh -> presG (ret hh).
Proof. intros Hg s Hs. simpl. auto. Qed.

Lemma presG_seq {A} (m : M A) (k : M hdr) : pres Only m -> presG k -> presG (bind m (fun _ => k)).
Proof.
  intros Hm Hk s Hs. unfold bind. specialize (Hm s Hs). destruct (m s) as [a s'|e s']; [|exact Hm]. exact (Hk s' Hm).
Qed.

Lemma presG_getk (k : mstate -> M hdr) : (forall s0, presG (k s0)) -> presG (bind get k).
Proof. intros H s Hs. unfold bind, get. apply H; auto. Qed.

Lemma presG_crash e : presG (@crash hdr e).
Proof. intros s Hs. exact Hs. Qed.

Lemma g_mod_send c h p : G h ->
  hoare Only (mod_send c h p) (fun r s => Only s /\ G (snd r)) (fun _ => Only).
Proof.
  intros Hg s Hs. rewrite mod_send_eq. cbv zeta.
  set (n := m_count (find_mod c (mods s)) + 1). set (s1 := with_mods s (upd_mod c (fun m => mm_count m n) (mods s))).
  assert (H1 : Only s1) by (eapply Only_same; [|exact Hs]; reflexivity).
  pose proof (g_sendall c (OHdr (set_count h n)) (Gcount h n Hg) s1 H1) as H2.
  destruct (sendall c (OHdr (set_count h n)) s1) as [[| |] s2|e s2]; try exact H2; try (split; [exact H2|apply Gcount; exact Hg]).
  pose proof (g_sendall c (OPay p) I s2 H2) as H3.
  destruct (sendall c (OPay p) s2) as [r s3|e s3]; [|exact H3]. split; [exact H3|apply Gcount; exact Hg].
Qed.

Section WithRec.
Variable rec : hdr -> payload -> M unit.
Hypothesis Hrec : forall h p, G h -> pres Only (rec h p).

Lemma g_mlog lvl : pres Only (mlog_with cfg rec lvl).
Proof.
  intros s Hs. unfold mlog_with. destruct ((loglevel cfg <=? lvl) && rtma_log s); [|exact Hs].
  pose proof (Hrec (mgr_hdr (log_type lvl) SZ_RTMA_LOG 0) (PLog lvl) (Glog lvl) s Hs) as H.
  destruct (rec (mgr_hdr (log_type lvl) SZ_RTMA_LOG 0) (PLog lvl) s) as [u s'|e s']; [exact H|].
  destruct e; try exact H; (eapply Only_same; [|exact H]; reflexivity).
Qed.

Lemma g_send_mgr t sz pl : G (mgr_hdr t sz 0) -> pres Only (send_mgr_with rec t sz pl).
Proof. intros H. apply Hrec. exact H. Qed.

Lemma g_send_failed c hh : pres Only (send_failed_with rec c hh).
Proof.
  unfold send_failed_with. destruct (zmem _ _); [apply pres_ret|]. apply g_getk. intros s0. apply g_send_mgr. exact Gfailed.
Qed.

Lemma g_remove_module c : pres Only (remove_module_with cfg rec c).
Proof.
  unfold remove_module_with. apply g_getk. intros s0.
  destruct (negb (m_reg (find_mod c (mods s0)))); [apply pres_ret|].
  apply pres_bind; [apply g_modify; reflexivity|]. intros _. apply pres_bind; [apply g_modify; reflexivity|]. intros _.
  apply pres_bind; [apply g_set_mod|]. intros _. apply pres_bind; [apply g_mlog|]. intros _.
  apply g_getk. intros s1. apply pres_bind; [apply g_send_mgr; exact Gclosed|]. intros _.
  apply g_getk. intros s2. destruct (m_reg _); [apply g_set_mod|apply pres_crash].
Qed.

Lemma g_on_conn_err c hh : pres Only (on_conn_err_with cfg rec c hh).
Proof.
  unfold on_conn_err_with. apply pres_bind; [apply g_remove_module|]. intros _.
  apply pres_bind; [apply g_mlog|]. intros _. apply g_send_failed.
Qed.

Lemma g_send_checked c hh p : G hh -> presG (send_checked_with cfg rec c hh p).
Proof.
  intros Hg s Hs. unfold send_checked_with. unfold bind at 1.
  pose proof (g_mod_send c hh p Hg s Hs) as H1.
  destruct (mod_send c hh p s) as [[r h'] s1|e s1]; [|exact H1]. destruct H1 as [H1 Hg']. cbn [fst snd] in *.
  destruct r.
  - exact (presG_seq _ _ (g_set_mod c (fun m => mm_drops m 0)) (presG_ret h' Hg') s1 H1).
  - exact (presG_seq _ _ (g_on_conn_err c h') (presG_ret h' Hg') s1 H1).
  - exact (presG_seq _ _ (g_on_conn_err c h') (presG_ret h' Hg') s1 H1).
Qed.

Lemma g_deliver p hh c : G hh -> presG (deliver_with cfg rec p hh c).
Proof.
  intros Hg. unfold deliver_with. apply presG_getk. intros s0.
  destruct (negb _); [apply presG_ret; exact Hg|]. destruct (zmem c (wl s0)).
  - destruct (dest_filter _ _ _); [apply g_send_checked; exact Hg|apply presG_ret; exact Hg].
  - destruct (m_logger _); [destruct (m_closed _); [apply presG_crash|apply g_send_checked; exact Hg]|].
    apply presG_seq; [apply g_set_mod|]. apply presG_seq; [apply g_send_failed|]. apply presG_ret; exact Hg.
Qed.

Lemma g_deliver_loop p : forall l hh, G hh -> pres Only (deliver_loop cfg rec p hh l).
Proof.
  induction l as [|c r IH]; intros hh Hg; cbn [deliver_loop]; [apply pres_ret|].
  apply presG_bind; [apply g_deliver; exact Hg|]. intros hh' Hg'. apply IH. exact Hg'.
Qed.

Lemma g_count_msg t : pres Only (count_msg cfg t).
Proof. unfold count_msg. apply g_getk. intros s0. destruct (negb _); [apply g_modify; reflexivity|apply pres_ret]. Qed.

Lemma g_forward_body h p : G h -> pres Only (forward_body cfg rec h p).
Proof.
  intros Hg. unfold forward_body. apply pres_bind; [apply g_count_msg|]. intros _.
  destruct (bad_dest_mod _); [apply g_mlog|]. destruct (bad_dest_host _); [apply g_mlog|].
  apply g_getk. intros s0. apply g_deliver_loop. exact Hg.
Qed.

End WithRec.

Lemma g_forward : forall fuel h p, G h -> pres Only (forward cfg fuel h p).
Proof.
  induction fuel as [|k IH]; intros h p Hg; cbn [forward]; [apply pres_crash|]. apply g_forward_body; [exact IH|exact Hg].
Qed.

Variable FUEL : nat.
Hypothesis Ginfo : G (mgr_hdr MT_CLIENT_INFO SZ_CLIENT_INFO 0).

Lemma gt_fwd h p : G h -> pres Only (fwd cfg FUEL h p).
Proof. apply g_forward. Qed.
Lemma gt_mlog lvl : pres Only (mlog cfg FUEL lvl).
Proof. apply g_mlog. intros; apply gt_fwd; assumption. Qed.
Lemma gt_remove_module c : pres Only (remove_module cfg FUEL c).
Proof. apply g_remove_module. intros; apply gt_fwd; assumption. Qed.
Lemma gt_send_client_info c : pres Only (send_client_info cfg FUEL c).
Proof.
  unfold send_client_info. apply pres_bind; [apply gt_mlog|]. intros _. apply g_getk. intros s0.
  apply g_send_mgr; [intros; apply gt_fwd; assumption|exact Ginfo].
Qed.

Definition plain_type (t : Z) : Prop :=
  t <> MT_CONNECT /\ t <> MT_CONNECT_V2 /\ t <> MT_SUBSCRIBE /\ t <> MT_RESUME_SUBSCRIPTION /\
  t <> MT_UNSUBSCRIBE /\ t <> MT_PAUSE_SUBSCRIPTION.

(* DISCONNECT, CLIENT_SET_NAME, MODULE_READY and every data frame *)
Lemma gt_process_plain c h ip : plain_type (h_type h) -> G h -> pres Only (process_message cfg FUEL c h ip).
Proof.
  intros (N1 & N2 & N3 & N4 & N5 & N6) Hg. unfold process_message. cbv zeta.
  apply Z.eqb_neq in N1, N2, N3, N4, N5, N6. rewrite N1, N2. cbn [orb].
  destruct (h_type h =? MT_DISCONNECT). { apply pres_bind; [apply gt_remove_module|]. intros _. apply gt_mlog. }
  rewrite N3, N4, N5, N6. cbn [orb].
  destruct (h_type h =? MT_CLIENT_SET_NAME).
  { apply pres_bind; [|intros _; apply gt_send_client_info]. destruct ip; try apply gt_mlog.
    destruct ascii; [|apply gt_mlog]. apply pres_bind; [apply g_set_mod|]. intros _. apply gt_mlog. }
  destruct (h_type h =? MT_MODULE_READY).
  { apply pres_bind; [|intros _; apply gt_send_client_info]. destruct ip; try apply pres_ret. apply g_set_mod. }
  apply pres_bind; [apply gt_mlog|]. intros _. apply gt_fwd. exact Hg.
Qed.

(* the same for whatever a ready socket delivers *)
Definition plain_inbound (ib : inbound) : Prop :=
  match ib with
  | IFrame h _ | IEofData h | IResetData h => plain_type (h_type h) /\ G h
  | IEof | IReset => True
  end.

Lemma gt_service_plain c ib : plain_inbound ib -> pres Only (service cfg FUEL c ib).
Proof.
  intros Hp. unfold service. apply g_getk. intros s0. destruct (negb _); [apply pres_ret|].
  assert (R : forall lvl, pres Only (remove_module cfg FUEL c ;;; mlog cfg FUEL lvl)).
  { intros lvl. apply pres_bind; [apply gt_remove_module|]. intros _. apply gt_mlog. }
  destruct ib as [h ip| |h| |h]; try apply R; destruct Hp as [Hp Hg].
  - destruct (bad_size _); [apply R|apply gt_process_plain; auto].
  - destruct (bad_size _); [apply R|]. destruct (_ =? 0); [apply gt_process_plain; auto|apply R].
  - destruct (bad_size _); [apply R|]. destruct (_ =? 0); [apply gt_process_plain; auto|apply R].
Qed.

End HeaderGuard.

(* ---------- (2) instantiated: no acknowledgement of the manager's is ever written ---------- *)

Definition no_ack (h : hdr) : Prop := is_ack (OHdr h) = false.

Lemma no_ack_count h n : no_ack h -> no_ack (set_count h n).
Proof. intros H. exact H. Qed.

Lemma no_ack_log lvl : no_ack (mgr_hdr (log_type lvl) SZ_RTMA_LOG 0).
Proof.
  unfold no_ack, log_type. destruct (lvl =? 10); [reflexivity|]. destruct (lvl =? 20); [reflexivity|].
  destruct (lvl =? 30); [reflexivity|]. destruct (lvl =? 40); [reflexivity|]. destruct (lvl =? 50); reflexivity.
Qed.

Lemma no_ack_of_type h : h_type h <> MT_ACKNOWLEDGE -> no_ack h.
Proof. intros H. unfold no_ack, is_ack. apply Z.eqb_neq in H. rewrite H. reflexivity. Qed.

Lemma Only_init G s : Only G (out s) s.
Proof. exists []. rewrite app_nil_r. split; [reflexivity|constructor]. Qed.

Lemma okitems_no_acks suf : Forall (okitem no_ack) suf ->
  (forall c' h', In (c', OHdr h') suf -> is_ack (OHdr h') = false) /\ forall x, acks_in (proj x suf) = 0%nat.
Proof.
  intros H. split.
  - intros c' h' Hin. rewrite Forall_forall in H. exact (H _ Hin).
  - intros x. induction H as [|[c' it] r Hk Hr IH]; [reflexivity|]. cbn [proj].
    destruct (c' =? x); [|exact IH]. unfold acks_in in *. cbn [filter].
    destruct it as [h'|q]; [unfold okitem, no_ack in Hk; cbn [snd] in Hk; rewrite Hk; exact IH|exact IH].
Qed.

Definition no_new_acks (s : mstate) (s' : mstate) : Prop :=
  exists suf, out s' = out s ++ suf /\
    (forall c' h', In (c', OHdr h') suf -> is_ack (OHdr h') = false) /\ forall x, acks_in (proj x suf) = 0%nat.

Lemma Only_no_new_acks s s' : Only no_ack (out s) s' -> no_new_acks s s'.
Proof. intros (suf & Ho & Hf). exists suf. split; [exact Ho|]. apply okitems_no_acks. exact Hf. Qed.

(* DISCONNECT, MODULE_READY, CLIENT_SET_NAME, data frames: whatever the outcome (also a crash), whoever is
   writable, whatever fails - no ACKNOWLEDGE header of the manager's is appended to any connection *)
Theorem never_acked cfg FUEL c h ip s :
  plain_type (h_type h) -> is_ack (OHdr h) = false ->
  no_new_acks s (st (process_message cfg FUEL c h ip s)).
Proof.
  intros Hp Hg. apply Only_no_new_acks. apply pres_st; [|apply Only_init].
  apply (gt_process_plain cfg no_ack no_ack_count no_ack_log eq_refl eq_refl (out s) FUEL eq_refl c h ip Hp Hg).
Qed.

Corollary never_acked_type cfg FUEL c h ip s :
  plain_type (h_type h) -> h_type h <> MT_ACKNOWLEDGE -> no_new_acks s (st (process_message cfg FUEL c h ip s)).
Proof. intros Hp Ht. apply never_acked; [exact Hp|apply no_ack_of_type; exact Ht]. Qed.

(* ---------- the same at the level of service (what run() calls for a ready connection) ---------- *)

Lemma service_frame cfg FUEL c h ip s : m_reg (find_mod c (mods s)) = true -> bad_size (h_nbytes h) = false ->
  service cfg FUEL c (IFrame h ip) s = process_message cfg FUEL c h ip s.
Proof. intros Hr Hb. unfold service. unfold bind at 1. unfold get. rewrite Hr, Hb. reflexivity. Qed.

Theorem ctrl_frame_exact_service cfg FUEL c h t s :
  10 < loglevel cfg -> is_ctrl (h_type h) = true -> m_reg (find_mod c (mods s)) = true -> bad_size (h_nbytes h) = false ->
  sendable s c -> loggers_sendable s ->
  exists s', service cfg FUEL c (IFrame h (InSub t)) s = Ok tt s' /\ out s' = out s ++ ack_frames s c.
Proof. intros Hlog Hct Hr Hb Hc Hl. rewrite service_frame; auto. apply ctrl_frame_exact; auto. Qed.

(* any read outcome (frame, EOF, reset, truncated payload, invalid length) whose header - if there is one - is not
   a connection or subscription request *)
Theorem never_acked_service cfg FUEL c ib s :
  plain_inbound no_ack ib -> no_new_acks s (st (service cfg FUEL c ib s)).
Proof.
  intros Hp. apply Only_no_new_acks. apply pres_st; [|apply Only_init].
  apply (gt_service_plain cfg no_ack no_ack_count no_ack_log eq_refl eq_refl (out s) FUEL eq_refl c ib Hp).
Qed.

(* ---------- (3) an accepted CONNECT ---------- *)

(* what the acknowledgement and its copies leave alone: everything but sequence counters, drop counts, output *)
Definition keeps (s s' : mstate) : Prop :=
  subs s' = subs s /\ wl s' = wl s /\ faults s' = faults s /\ loggers s' = loggers s /\
  forall (A : Type) (pi : module -> A), (forall m n, pi (mm_count m n) = pi m) -> (forall m n, pi (mm_drops m n) = pi m) ->
    forall x, pi (find_mod x (mods s')) = pi (find_mod x (mods s)).

Lemma keeps_refl s : keeps s s.
Proof. unfold keeps. repeat split; auto. Qed.

Lemma keeps_trans a b c : keeps a b -> keeps b c -> keeps a c.
Proof.
  intros (A1 & A2 & A3 & A4 & A5) (B1 & B2 & B3 & B4 & B5). unfold keeps. repeat split; try congruence.
  intros T pi H1 H2 x. rewrite (B5 T pi H1 H2 x). apply A5; auto.
Qed.

Lemma keeps_after_send h p s c : keeps s (after_send h p s c).
Proof. unfold keeps. repeat split; auto. intros T pi H1 H2 x. apply after_send_field; auto. Qed.

Lemma loggers_loop_exact2 cfg FUEL p : forall l hh s,
  (forall c, In c l -> m_reg (find_mod c (mods s)) = true -> sendable s c) ->
  exists s', loggers_loop cfg FUEL hh p l s = Ok tt s' /\ out s' = out s ++ lframes hh p s l /\ keeps s s'.
Proof.
  induction l as [|c r IH]; intros hh s Hs.
  - exists s. simpl. rewrite app_nil_r. split; [reflexivity|split; [reflexivity|apply keeps_refl]].
  - cbn [loggers_loop lframes]. unfold bind at 1. unfold get.
    destruct (m_reg (find_mod c (mods s))) eqn:Hreg; cbn [negb].
    + assert (Hc : sendable s c) by (apply Hs; [left; reflexivity|exact Hreg]).
      destruct Hc as (Hc0 & Hcl & Hfl). rewrite Hcl, andb_false_r. unfold bind at 1.
      unfold send_checked. rewrite (send_checked_exact' cfg (fwd cfg FUEL) c hh p s (conj Hc0 (conj Hcl Hfl))).
      destruct (IH (set_count hh (cnt s c + 1)) (after_send hh p s c)) as (s' & E & Ho & K).
      { intros x Hin Hr. apply sendable_after. apply Hs; [right; exact Hin|].
        rewrite (after_send_field m_reg) in Hr; auto. }
      exists s'. split; [exact E|]. split.
      * rewrite Ho. change (out (after_send hh p s c)) with (out s ++ frame_for hh p s c).
        rewrite <- app_assoc. f_equal. f_equal. apply lframes_count.
      * eapply keeps_trans; [apply keeps_after_send|exact K].
    + apply IH. intros x Hin. apply Hs. right. exact Hin.
Qed.

Lemma send_ack_exact2 cfg FUEL c s : sendable s c -> loggers_sendable s ->
  exists s', send_ack cfg FUEL c s = Ok tt s' /\ out s' = out s ++ ack_frames s c /\ keeps s s'.
Proof.
  intros Hc Hl. unfold send_ack. unfold bind at 1. unfold get. unfold bind at 1. fold (ack_hdr s c).
  unfold send_checked. rewrite (send_checked_exact' cfg (fwd cfg FUEL) c (ack_hdr s c) (PData 0 0) s Hc).
  unfold send_to_loggers. unfold bind at 1. unfold get.
  change (loggers (after_send (ack_hdr s c) (PData 0 0) s c)) with (loggers s).
  destruct (loggers_loop_exact2 cfg FUEL (PData 0 0) (loggers s) (set_count (ack_hdr s c) (cnt s c + 1))
              (after_send (ack_hdr s c) (PData 0 0) s c)) as (s' & E & Ho & K).
  { intros x Hin Hr. apply sendable_after. apply Hl; auto. rewrite (after_send_field m_reg) in Hr; auto. }
  exists s'. split; [exact E|]. split.
  - rewrite Ho. unfold ack_frames.
    change (out (after_send (ack_hdr s c) (PData 0 0) s c)) with (out s ++ frame_for (ack_hdr s c) (PData 0 0) s c).
    rewrite <- app_assoc. f_equal. f_equal. apply lframes_count.
  - eapply keeps_trans; [apply keeps_after_send|exact K].
Qed.

(* the state after connect_module has accepted: identity and flags stored, connected, a logger joins the logger set *)
Definition setm (c : Z) (f : module -> module) (s : mstate) : mstate := with_mods s (upd_mod c f (mods s)).
Definition stored (s : mstate) (c : Z) (h : hdr) (lg dm : Z) : mstate :=
  setm c (fun m => mm_flags m (lg =? 1) (dm =? 1)) (setm c (fun m => mm_modid m (h_src_mod h)) s).
Definition connected_state (s1 : mstate) (c : Z) : mstate :=
  let s2 := setm c mm_connected s1 in
  if m_logger (find_mod c (mods s2)) && m_reg (find_mod c (mods s2)) then with_loggers s2 (zinsert c (loggers s2)) else s2.

Lemma connect_scan_free cfg FUEL c me : 10 < loglevel cfg -> forall others s,
  forallb (no_conflict c me) others = true -> connect_scan cfg FUEL c me others s = Ok false s.
Proof.
  intros Hlog. assert (Hoff : loglevel cfg <=? 10 = false) by lia.
  induction others as [|m r IH]; intros s H; cbn [connect_scan]; [reflexivity|].
  cbn [forallb] in H. apply andb_true_iff in H. destruct H as [Hm Hr]. unfold no_conflict in Hm.
  destruct (m_conn m =? c); [apply IH; exact Hr|]. cbn [orb] in Hm. apply negb_true_iff in Hm.
  apply orb_false_iff in Hm. destruct Hm as [HA HB]. rewrite HA.
  destruct (negb (m_name me =? 0)); [|apply IH; exact Hr]. cbn [andb] in HB. rewrite HB.
  unfold bind. rewrite mlog_off; [|exact Hoff]. apply IH. exact Hr.
Qed.

Lemma connect_accept cfg FUEL c h lg dm s :
  10 < loglevel cfg -> m_connected (find_mod c (mods s)) = false ->
  let s1 := stored s c h lg dm in
  m_mod_id (find_mod c (mods s1)) <> 0 -> bad_user_id (m_mod_id (find_mod c (mods s1))) = false ->
  forallb (no_conflict c (find_mod c (mods s1))) (registered s1) = true ->
  connect_module cfg FUEL c h (InConnect lg dm) s = Ok true (connected_state s1 c).
Proof.
  intros Hlog Hcn s1 Hid Hbad Hfree. rewrite connect_module_unfold. unfold bind at 1. unfold get. cbv zeta. rewrite Hcn.
  unfold bind at 1. unfold bind at 1. unfold set_mod at 1, modify.
  unfold bind at 1. unfold set_mod at 1, modify. cbn [bind ret]. cbv beta iota.
  change (phase2 cfg FUEL c s1 = Ok true (connected_state s1 c)).
  unfold phase2. unfold bind at 1. unfold get.
  assert (Hid' : negb (m_mod_id (find_mod c (mods s1)) =? 0) = true) by lia. rewrite Hid', Hbad.
  unfold bind at 1. rewrite (connect_scan_free cfg FUEL c _ Hlog _ s1 Hfree).
  unfold finish_conn, connected_state, setm, bind, set_mod, modify, get, ret.
  destruct (m_logger _ && m_reg _); reflexivity.
Qed.

Definition ci_hdr : hdr := mgr_hdr MT_CLIENT_INFO SZ_CLIENT_INFO 0.

Lemma setm_field {A} (pi : module -> A) c f s x : (forall m, pi (f m) = pi m) -> conn_pres f ->
  pi (find_mod x (mods (setm c f s))) = pi (find_mod x (mods s)).
Proof. intros H1 H2. unfold setm. cbn [mods with_mods]. apply find_upd_field; auto. Qed.

(* closed / registered flags of every connection in the accepted state are those of s *)
Lemma connected_state_flags s c h lg dm x :
  let s2 := connected_state (stored s c h lg dm) c in
  m_closed (find_mod x (mods s2)) = m_closed (find_mod x (mods s)) /\
  m_reg (find_mod x (mods s2)) = m_reg (find_mod x (mods s)) /\
  faults s2 = faults s /\ wl s2 = wl s /\ subs s2 = subs s /\
  (loggers s2 = loggers s \/ loggers s2 = zinsert c (loggers s)).
Proof.
  cbv zeta. unfold connected_state. cbv zeta.
  set (s1 := stored s c h lg dm). set (s2 := setm c mm_connected s1).
  assert (Hc : m_closed (find_mod x (mods s2)) = m_closed (find_mod x (mods s))).
  { unfold s2, s1, stored. rewrite !(setm_field m_closed); auto; intro; reflexivity. }
  assert (Hr : m_reg (find_mod x (mods s2)) = m_reg (find_mod x (mods s))).
  { unfold s2, s1, stored. rewrite !(setm_field m_reg); auto; intro; reflexivity. }
  destruct (m_logger (find_mod c (mods s2)) && m_reg (find_mod c (mods s2))); cbn [mods faults wl subs loggers with_loggers]; repeat split; auto.
Qed.

Theorem connect_acked_exact cfg (k : nat) c h lg dm s :
  20 < loglevel cfg -> h_type h = MT_CONNECT -> m_connected (find_mod c (mods s)) = false ->
  let s1 := stored s c h lg dm in
  let s2 := connected_state s1 c in
  m_mod_id (find_mod c (mods s1)) <> 0 -> bad_user_id (m_mod_id (find_mod c (mods s1))) = false ->
  forallb (no_conflict c (find_mod c (mods s1))) (registered s1) = true ->
  sendable s c -> loggers_sendable s ->
  NoDup (snapshot s MT_CLIENT_INFO) -> (forall f, In f (snapshot s MT_CLIENT_INFO) -> ready s f) ->
  exists s3 s',
    process_message cfg (Datatypes.S k) c h (InConnect lg dm) s = Ok tt s' /\
    out s3 = out s ++ ack_frames s2 c /\
    out s' = out s3 ++ frames ci_hdr (client_payload false (find_mod c (mods s2))) s3 (snapshot s MT_CLIENT_INFO) /\
    (forall d f, eligible d s3 f = eligible d s2 f) /\
    m_connected (find_mod c (mods s2)) = true.
Proof.
  intros Hlog Ht Hcn s1 s2 Hid Hbad Hfree Hc Hl Hnd Hrd.
  assert (Hflags := connected_state_flags s c h lg dm). cbv zeta in Hflags. fold s1 in Hflags. fold s2 in Hflags.
  assert (Hs2 : forall x, sendable s2 x <-> sendable s x).
  { intros x. destruct (Hflags x) as (A & _ & B & _). unfold sendable. rewrite A, B. tauto. }
  assert (Hc2 : sendable s2 c) by (apply Hs2; exact Hc).
  assert (Hl2 : loggers_sendable s2).
  { intros l Hin Hr. apply Hs2. destruct (Hflags l) as (_ & B & _ & _ & _ & [E|E]).
    - apply Hl; [rewrite <- E; exact Hin|congruence].
    - rewrite E in Hin. apply zinsert_In in Hin. destruct Hin as [->|Hin]; [exact Hc|apply Hl; [exact Hin|congruence]]. }
  destruct (send_ack_exact2 cfg (Datatypes.S k) c s2 Hc2 Hl2) as (s3 & Eack & Ho3 & K).
  destruct K as (K1 & K2 & K3 & K4 & K5).
  assert (Esn3 : snapshot s3 MT_CLIENT_INFO = snapshot s MT_CLIENT_INFO).
  { unfold snapshot. destruct (Hflags c) as (_ & _ & _ & _ & E & _). rewrite K1, E. reflexivity. }
  assert (Epl : client_payload false (find_mod c (mods s3)) = client_payload false (find_mod c (mods s2))).
  { apply (K5 _ (client_payload false)); intros; reflexivity. }
  destruct (forward_exact cfg k ci_hdr (client_payload false (find_mod c (mods s3))) s3) as (s' & Efw & Ho' & _).
  { reflexivity. }
  { reflexivity. }
  { change (h_type ci_hdr) with MT_CLIENT_INFO. rewrite Esn3. exact Hnd. }
  { change (h_type ci_hdr) with MT_CLIENT_INFO. rewrite Esn3. intros f Hin. destruct (Hrd f Hin) as (R0 & R1 & R2 & R3 & R4).
    destruct (Hflags f) as (A & B & C & D & _). unfold ready.
    rewrite (K5 _ m_reg), (K5 _ m_closed), K2, K3, A, B, C, D; auto. }
  exists s3, s'. split; [|split; [|split; [|split]]].
  - assert (Hoff10 : loglevel cfg <=? 10 = false) by lia. assert (Hoff20 : loglevel cfg <=? 20 = false) by lia.
    unfold process_message. rewrite Ht. cbn [Z.eqb orb]. cbv zeta.
    change ((MT_CONNECT =? MT_CONNECT) || (MT_CONNECT =? MT_CONNECT_V2)) with true. cbv iota.
    unfold bind at 1. rewrite (connect_accept cfg (Datatypes.S k) c h lg dm s ltac:(lia) Hcn Hid Hbad Hfree).
    fold s1. fold s2. unfold bind at 1. rewrite Eack. unfold bind at 1.
    unfold send_client_info. unfold bind at 1. rewrite mlog_off; [|exact Hoff10]. unfold bind at 1. unfold get.
    unfold send_mgr, send_mgr_with. change (mgr_hdr MT_CLIENT_INFO SZ_CLIENT_INFO 0) with ci_hdr.
    change (fwd cfg (Datatypes.S k)) with (forward cfg (Datatypes.S k)). rewrite Efw.
    apply mlog_off. exact Hoff20.
  - rewrite Ho3. assert (Eo2 : out s2 = out s) by (unfold s2, connected_state; cbv zeta; destruct (m_logger _ && m_reg _); reflexivity).
    rewrite Eo2. reflexivity.
  - rewrite Ho'. change (h_type ci_hdr) with MT_CLIENT_INFO. rewrite Esn3, Epl. reflexivity.
  - intros d f. unfold eligible. rewrite (K5 _ m_mod_id), (K5 _ m_logger); auto.
  - unfold s2, connected_state. cbv zeta. unfold sendable in Hc. destruct Hc as (H0 & Ho & _).
    assert (E : m_connected (find_mod c (mods (setm c mm_connected s1))) = true).
    { unfold setm. cbn [mods with_mods]. rewrite find_upd_same; auto; [|intro; reflexivity].
      assert (Hcc : m_conn (find_mod c (mods s1)) = c).
      { apply find_mod_conn_of_open. unfold s1, stored. rewrite !(setm_field m_closed); auto; intro; reflexivity. }
      rewrite Hcc, Z.eqb_refl. reflexivity. }
    destruct (m_logger _ && m_reg _); exact E.
Qed.

(* ---------- at every reachable state ---------- *)

Theorem ctrl_frame_acked_once cfg fuel es u s FUEL c h t :
  run cfg fuel es = Ok u s -> 10 < loglevel cfg -> is_ctrl (h_type h) = true -> sendable s c -> loggers_sendable s ->
  exists s', process_message cfg FUEL c h (InSub t) s = Ok tt s' /\ out s' = out s ++ ack_frames s c /\
    forall x, acks_in (proj x (ack_frames s c)) =
      ((if (x =? c)%Z then 1 else 0) + (if zmem x (loggers s) && m_reg (find_mod x (mods s)) then 1 else 0))%nat.
Proof.
  intros Hrun Hlog Hct Hc Hl. pose proof (run_safe cfg fuel es) as R. rewrite Hrun in R. destruct R as (R & _).
  destruct (ctrl_frame_exact cfg FUEL c h t s Hlog Hct Hc Hl) as (s' & E & Ho). exists s'. split; [exact E|]. split; [exact Ho|].
  intros x. apply ack_frames_count. apply sorted_NoDup. apply (ro_logsorted _ _ _ _ _ R).
Qed.

Theorem connect_acked_exact_reachable cfg fuel es u s (k : nat) c h lg dm :
  run cfg fuel es = Ok u s ->
  20 < loglevel cfg -> h_type h = MT_CONNECT -> m_connected (find_mod c (mods s)) = false ->
  let s1 := stored s c h lg dm in
  let s2 := connected_state s1 c in
  m_mod_id (find_mod c (mods s1)) <> 0 -> bad_user_id (m_mod_id (find_mod c (mods s1))) = false ->
  forallb (no_conflict c (find_mod c (mods s1))) (registered s1) = true ->
  sendable s c -> loggers_sendable s ->
  (forall f, In f (snapshot s MT_CLIENT_INFO) -> zmem f (wl s) = true /\ flookup f (faults s) = None) ->
  exists s3 s',
    process_message cfg (Datatypes.S k) c h (InConnect lg dm) s = Ok tt s' /\
    out s3 = out s ++ ack_frames s2 c /\
    out s' = out s3 ++ frames ci_hdr (client_payload false (find_mod c (mods s2))) s3 (snapshot s MT_CLIENT_INFO) /\
    (forall d f, eligible d s3 f = eligible d s2 f) /\
    m_connected (find_mod c (mods s2)) = true.
Proof.
  intros Hrun Hlog Ht Hcn s1 s2 Hid Hbad Hfree Hc Hl Henv.
  pose proof (run_safe cfg fuel es) as R. rewrite Hrun in R. destruct R as (R & _).
  apply connect_acked_exact; auto.
  - eapply snapshot_NoDup; eauto. discriminate.
  - intros f Hin. destruct (Henv f Hin). eapply RegInv_ready; eauto.
Qed.

(* ---------- non-vacuity ----------
   conn 1: a logger (module 10) subscribed to CLIENT_INFO; conn 2: a client (module 11); conn 3: accepted, not yet
   connected.  In the state reached:
   - a SUBSCRIBE from conn 2 (which changes nothing the second time) writes exactly ack_frames: one ACKNOWLEDGE to
     conn 2 and its copy to the logger;
   - a data frame and a DISCONNECT from conn 2 write no acknowledgement at all (the data frame reaches nobody here;
     the DISCONNECT publishes CLIENT_CLOSED to nobody);
   - CONNECT from conn 3 asking for module 12 is accepted: ack to conn 3, copy to the logger, CLIENT_INFO to the
     logger. *)
Definition cx_hdr (t sm : Z) : hdr := mkHdr t 1 0 sm 0 0 4 7.
Definition cx_hist : list event :=
  [ERound true [] [] 0; ERound true [] [] 0; ERound true [] [] 0;
   ERound false [(1, IFrame (cx_hdr MT_CONNECT 10) (InConnect 1 0)); (2, IFrame (cx_hdr MT_CONNECT 11) (InConnect 0 0))] [1;2;3] 0;
   ERound false [(1, IFrame (cx_hdr MT_SUBSCRIBE 10) (InSub MT_CLIENT_INFO)); (2, IFrame (cx_hdr MT_SUBSCRIBE 11) (InSub 100))] [1;2;3] 0].
Definition cx_cfg : config := mkConfig 60 true.

Example ctrl_ex_subscribe :
  match run cx_cfg 20%nat cx_hist with
  | Ok _ s =>
    match process_message cx_cfg 20 2 (cx_hdr MT_SUBSCRIBE 11) (InSub 100) s with
    | Ok _ s' =>
      (skipn (length (out s)) (out s'), ack_frames s 2,
       map (fun x => acks_in (proj x (ack_frames s 2))) [1; 2; 3], (loggers s, m_mod_id (find_mod 2 (mods s))))
    | Crash _ _ => ([], [], [], ([], 0))
    end
  | Crash _ _ => ([], [], [], ([], 0))
  end =
  ([(2, OHdr (mkHdr MT_ACKNOWLEDGE 3 0 0 0 11 0 0)); (2, OPay (PData 0 0));
    (1, OHdr (mkHdr MT_ACKNOWLEDGE 7 0 0 0 11 0 0)); (1, OPay (PData 0 0))],
   [(2, OHdr (mkHdr MT_ACKNOWLEDGE 3 0 0 0 11 0 0)); (2, OPay (PData 0 0));
    (1, OHdr (mkHdr MT_ACKNOWLEDGE 7 0 0 0 11 0 0)); (1, OPay (PData 0 0))],
   [1%nat; 1%nat; 0%nat], ([1], 11)).
Proof. vm_compute. reflexivity. Qed.

Example ctrl_ex_never_acked :
  match run cx_cfg 20%nat cx_hist with
  | Ok _ s =>
    (match process_message cx_cfg 20 2 (mkHdr 100 1 0 11 0 0 1 9) (InData 5) s with
     | Ok _ s' => map (fun x => acks_in (proj x (skipn (length (out s)) (out s')))) [1; 2; 3] | Crash _ _ => [] end,
     match process_message cx_cfg 20 2 (cx_hdr MT_DISCONNECT 11) InNone s with
     | Ok _ s' => (map (fun x => acks_in (proj x (skipn (length (out s)) (out s')))) [1; 2; 3], m_reg (find_mod 2 (mods s')))
     | Crash _ _ => ([], true) end)
  | Crash _ _ => ([], ([], true))
  end = ([0; 0; 0]%nat, ([0; 0; 0]%nat, false)).
Proof. vm_compute. reflexivity. Qed.

Example ctrl_ex_connect :
  match run cx_cfg 20%nat cx_hist with
  | Ok _ s =>
    let h := cx_hdr MT_CONNECT 12 in
    let s1 := stored s 3 h 0 0 in
    ((m_connected (find_mod 3 (mods s)), m_mod_id (find_mod 3 (mods s1)), bad_user_id (m_mod_id (find_mod 3 (mods s1))),
      forallb (no_conflict 3 (find_mod 3 (mods s1))) (registered s1), snapshot s MT_CLIENT_INFO,
      map (fun f => (zmem f (wl s), flookup f (faults s))) (snapshot s MT_CLIENT_INFO)),
     match process_message cx_cfg 20 3 h (InConnect 0 0) s with
     | Ok _ s' => skipn (length (out s)) (out s')
     | Crash _ _ => []
     end)
  | Crash _ _ => ((true, 0, true, false, [], []), [])
  end =
  ((false, 12, false, true, [1], [(true, None)]),
   [(3, OHdr (mkHdr MT_ACKNOWLEDGE 1 0 0 0 12 0 0)); (3, OPay (PData 0 0));
    (1, OHdr (mkHdr MT_ACKNOWLEDGE 7 0 0 0 12 0 0)); (1, OPay (PData 0 0));
    (1, OHdr (mkHdr MT_CLIENT_INFO 8 0 0 0 0 80 0)); (1, OPay (PClient false 3 0 12 false true 0))]).
Proof. vm_compute. reflexivity. Qed.

