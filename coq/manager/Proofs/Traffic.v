(* C18: the chunking loop of send_traffic and the slot guard of send_timing_message,
   as pure functions of the counters.  (Model/Manager.v: traffic_messages, timing_writes.) *)
From Coq Require Import ZArith List Bool Lia ZifyBool.
From Mgr Require Import Gen.MgrDefs Model.Manager.
Import ListNotations.
Open Scope Z_scope.
Ltac Zify.zify_post_hook ::= Z.div_mod_to_equations.

(* what a reader extracts from one MESSAGE_TRAFFIC sub-message: the (type, count) pairs up to the -1 terminator *)
Fixpoint entries (ty ct : list Z) : list (Z * Z) :=
  match ty, ct with
  | t :: r, c :: r' => if t =? -1 then [] else (t, c) :: entries r r'
  | _, _ => []
  end.

Definition msg_entries (m : Z * list Z * list Z) : list (Z * Z) := let '(_, ty, ct) := m in entries ty ct.
Definition reported (x : Z * Z) : Z * Z := (fst x, wrap16 (snd x)).

Lemma SIZE_is : MESSAGE_TRAFFIC_SIZE = 64. Proof. reflexivity. Qed.

(* ---- list_set / fill_from / entries ---- *)

Lemma list_set_length l i v : length (list_set l i v) = length l.
Proof. revert i; induction l as [|x r IH]; intros [|i]; simpl; auto. Qed.

Lemma fill_from_length l i v : length (fill_from l i v) = length l.
Proof. revert i; induction l as [|x r IH]; intros [|i]; simpl; auto. Qed.

Lemma firstn_list_set_ge l i v k : (k <= i)%nat -> firstn k (list_set l i v) = firstn k l.
Proof.
  revert i k; induction l as [|x r IH]; intros [|i] [|k] H; simpl; auto; try lia.
  f_equal. apply IH. lia.
Qed.

Lemma firstn_S_list_set l i v : (i < length l)%nat -> firstn (S i) (list_set l i v) = firstn i l ++ [v].
Proof.
  revert i; induction l as [|x r IH]; intros [|i] H; simpl in *; try lia; auto.
  f_equal. apply IH. lia.
Qed.

Lemma firstn_fill_from l i v : firstn i (fill_from l i v) = firstn i l.
Proof. revert i; induction l as [|x r IH]; intros [|i]; simpl; auto. f_equal. apply IH. Qed.

Lemma nth_fill_from l i : (i < length l)%nat -> nth_error (fill_from l i (-1)) i = Some (-1).
Proof.
  revert i; induction l as [|x r IH]; intros [|i] H; simpl in *; try lia; auto. apply IH. lia.
Qed.

(* entries of arrays whose first k types are real and whose k-th type (if any) is -1 *)
Lemma entries_prefix : forall (k : nat) ty ct,
  (k <= length ty)%nat -> length ty = length ct ->
  Forall (fun t => t <> -1) (firstn k ty) ->
  (k = length ty \/ nth_error ty k = Some (-1)) ->
  entries ty ct = combine (firstn k ty) (firstn k ct).
Proof.
  induction k as [|k IH]; intros ty ct Hk Hl Hreal Hend.
  - destruct ty as [|t r]; simpl; [reflexivity|]. destruct ct as [|c r']; [simpl in Hl; lia|].
    destruct Hend as [H|H]; [simpl in H; lia|]. simpl in H. inversion H; subst. reflexivity.
  - destruct ty as [|t r]; [simpl in Hk; lia|]. destruct ct as [|c r']; [simpl in Hl; lia|].
    simpl in *. inversion Hreal as [|? ? Ht Hr]; subst.
    destruct (t =? -1) eqn:E; [lia|]. f_equal. apply IH; try lia; auto.
    destruct Hend as [H|H]; [left; lia|right; exact H].
Qed.

(* ---- the loop ---- *)

(* state relation: k entries are pending in the current chunk *)
Record loop_ok (n : Z) (k : nat) (nsent i : Z) (ty ct : list Z) : Prop := {
  lo_len_ty : length ty = 64%nat;
  lo_len_ct : length ct = 64%nat;
  lo_k : Z.of_nat k = n mod 64;
  lo_n : 0 <= n;
  lo_nsent : nsent = n - Z.of_nat k;
  lo_i : i = if n =? 0 then -1 else (n - 1) mod 64;
  lo_real : Forall (fun t => t <> -1) (firstn k ty)
}.

Definition finish (total : Z) (r : list (Z * list Z * list Z) * (Z * Z * Z * list Z * list Z)) :=
  let '(l, (dsub, nsent, i, ty, ct)) := r in
  if 0 <=? i then
    if traffic_tail_needed nsent total then l ++ [(dsub, fill_from ty (Z.to_nat (i + 1)) (-1), ct)] else l
  else l.

Lemma combine_app_same {A B} (l1 l2 : list A) (m1 m2 : list B) :
  length l1 = length m1 -> combine (l1 ++ l2) (m1 ++ m2) = combine l1 m1 ++ combine l2 m2.
Proof.
  revert m1; induction l1 as [|x r IH]; intros [|y m1] H; simpl in *; try lia; auto.
  f_equal. apply IH. lia.
Qed.

Lemma combine_firstn_snoc (k : nat) (ty ct : list Z) a b :
  (k < length ty)%nat -> length ty = length ct ->
  combine (firstn (S k) (list_set ty k a)) (firstn (S k) (list_set ct k b))
  = combine (firstn k ty) (firstn k ct) ++ [(a, b)].
Proof.
  intros Hk Hl. rewrite !firstn_S_list_set by lia.
  rewrite combine_app_same; [reflexivity|]. rewrite !firstn_length. lia.
Qed.

Lemma traffic_loop_entries : forall items n k sub dsub nsent i ty ct,
  loop_ok n k nsent i ty ct ->
  Forall (fun x => fst x <> -1) items ->
  flat_map msg_entries (finish (n + Z.of_nat (length items)) (traffic_loop items n sub dsub nsent i ty ct))
  = combine (firstn k ty) (firstn k ct) ++ map reported items.
Proof.
  induction items as [|[mt cnt] r IH]; intros n k sub dsub nsent i ty ct Hok Hreal.
  - (* end of the counter: the tail message carries the pending entries *)
    destruct Hok as [L1 L2 Lk Ln Lns Li Lr]. simpl. rewrite app_nil_r.
    unfold traffic_tail_needed. replace (n + 0) with n by lia.
    destruct (n =? 0) eqn:En.
    + assert (k = 0%nat) by lia. subst. simpl. reflexivity.
    + assert (Hi : i = (n - 1) mod 64) by exact Li.
      assert (0 <= i) by lia. destruct (0 <=? i) eqn:E0; [|lia].
      destruct (nsent <? n) eqn:Et.
      * (* k > 0 : a partial chunk is pending *)
        assert (Hk : (0 < k)%nat) by lia.
        assert (Hi1 : Z.to_nat (i + 1) = k) by lia.
        simpl. rewrite app_nil_r. rewrite Hi1.
        rewrite (entries_prefix k); rewrite ?fill_from_length, ?firstn_fill_from; auto; try lia.
        destruct (Nat.eq_dec k 64) as [->|Hne]; [left; lia|right; apply nth_fill_from; lia].
      * assert (k = 0%nat) by lia. subst. simpl. reflexivity.
  - inversion Hreal as [|? ? Hmt Hr]; subst. simpl in Hmt.
    pose proof Hok as [L1 L2 Lk Ln Lns Li Lr].
    assert (Hk64 : (k < 64)%nat) by lia.
    cbn [traffic_loop]. unfold traffic_index, traffic_send_now, traffic_nsent. rewrite SIZE_is.
    assert (Hidx : Z.to_nat (n mod 64) = k) by lia. rewrite Hidx.
    set (ty' := list_set ty k mt). set (ct' := list_set ct k (wrap16 cnt)).
    assert (Hpend : combine (firstn (S k) ty') (firstn (S k) ct') = combine (firstn k ty) (firstn k ct) ++ [(mt, wrap16 cnt)]).
    { apply combine_firstn_snoc; lia. }
    assert (Hreal' : Forall (fun t => t <> -1) (firstn (S k) ty')).
    { unfold ty'. rewrite firstn_S_list_set by lia. apply Forall_app. split; [exact Lr|constructor; [exact Hmt|constructor]]. }
    replace (n + Z.of_nat (length ((mt, cnt) :: r))) with ((n + 1) + Z.of_nat (length r)) by (simpl length; lia).
    destruct (n mod 64 =? 64 - 1) eqn:Esend.
    + (* the chunk is full: it is sent now, nothing stays pending *)
      assert (Hk63 : k = 63%nat) by lia.
      assert (Hok' : loop_ok (n + 1) 0 (n + 1) (n mod 64) ty' ct').
      { constructor; unfold ty', ct'; rewrite ?list_set_length; auto; try lia.
        - destruct (n + 1 =? 0) eqn:E; [lia|]. replace (n + 1 - 1) with n by lia. reflexivity.
        - simpl. constructor. }
      specialize (IH (n + 1) 0%nat (sub + 1) sub (n + 1) (n mod 64) ty' ct' Hok' Hr).
      destruct (traffic_loop r (n + 1) (sub + 1) sub (n + 1) (n mod 64) ty' ct') as [l [[[[ds ns] ii] tt] cc]] eqn:El.
      simpl in IH. cbn [finish]. unfold finish in IH.
      (* the sent message contributes exactly the 64 entries of the chunk *)
      assert (Hmsg : entries ty' ct' = combine (firstn k ty) (firstn k ct) ++ [(mt, wrap16 cnt)]).
      { assert (L1' : length ty' = 64%nat) by (unfold ty'; rewrite list_set_length; exact L1).
        assert (L2' : length ct' = 64%nat) by (unfold ct'; rewrite list_set_length; exact L2).
        rewrite (entries_prefix 64 ty' ct'); try lia.
        - rewrite <- Hpend. rewrite Hk63. reflexivity.
        - rewrite Hk63 in Hreal'. exact Hreal'. }
      destruct (0 <=? ii); [destruct (traffic_tail_needed ns (n + 1 + Z.of_nat (length r)))|];
        cbn [flat_map app]; unfold msg_entries at 1; rewrite Hmsg, <- app_assoc; f_equal; simpl; f_equal; exact IH.
    + assert (Hk62 : (k < 63)%nat) by lia.
      assert (Hok' : loop_ok (n + 1) (S k) nsent (n mod 64) ty' ct').
      { constructor; unfold ty', ct'; rewrite ?list_set_length; auto; try lia.
        destruct (n + 1 =? 0) eqn:E; [lia|]. replace (n + 1 - 1) with n by lia. reflexivity. }
      specialize (IH (n + 1) (S k) sub sub nsent (n mod 64) ty' ct' Hok' Hr).
      rewrite IH, Hpend, <- app_assoc. reflexivity.
Qed.

Theorem traffic_messages_exact items :
  Forall (fun x => fst x <> -1) items ->
  flat_map msg_entries (traffic_messages items) = map reported items.
Proof.
  intros H. unfold traffic_messages. rewrite SIZE_is.
  pose proof (traffic_loop_entries items 0 0%nat 1 0 0 (-1) (repeat 0 (Z.to_nat 64)) (repeat 0 (Z.to_nat 64))) as E.
  simpl (0 + _) in E. unfold finish in E.
  destruct (traffic_loop items 0 1 0 0 (-1) (repeat 0 (Z.to_nat 64)) (repeat 0 (Z.to_nat 64))) as [l [[[[ds ns] ii] tt] cc]].
  apply E; auto. constructor; try reflexivity; try lia. constructor.
Qed.

(* ---- TIMING_MESSAGE ---- *)

Lemma timing_slot_in_array mt : timing_slot_ok mt = true -> norm_index LEN_timing mt = Some mt.
Proof.
  unfold timing_slot_ok, norm_index. intros H.
  assert (0 <= mt < 10000) by (change MAX_MESSAGE_TYPES with 10000 in H; lia).
  change LEN_timing with 10000.
  destruct (mt <? 0) eqn:E; [lia|]. destruct ((0 <=? mt) && (mt <? 10000)) eqn:E2; [reflexivity|lia].
Qed.

(* never an index error; exactly the in-range types are written, with their counts mod 2^16 *)
Theorem timing_writes_exact : forall l,
  timing_writes l = Some (map (fun x => (fst x, wrap16 (snd x))) (filter (fun x => timing_slot_ok (fst x)) l)).
Proof.
  induction l as [|[mt cnt] r IH]; simpl; [reflexivity|].
  destruct (timing_slot_ok mt) eqn:E; simpl; [|exact IH].
  rewrite (timing_slot_in_array mt E), IH. reflexivity.
Qed.
