(* What forward_message (and everything it re-enters) may change: counters, drop counts,
   output, fault plan, and "shrinking" changes - closing/unregistering modules, removing
   connections from subscriber lists and from the logger set.  Identities never change. *)
From Coq Require Import ZArith List Bool Lia.
From Mgr Require Import Gen.MgrDefs Model.Manager Proofs.ListLemmas.
Import ListNotations.
Open Scope Z_scope.

Record frame_mod (a b : module) : Prop := {
  fm_conn : m_conn b = m_conn a;
  fm_name : m_name b = m_name a;
  fm_mod_id : m_mod_id b = m_mod_id a;
  fm_pid : m_pid b = m_pid a;
  fm_subs : m_subs b = m_subs a;
  fm_logger : m_logger b = m_logger a;
  fm_daemon : m_daemon b = m_daemon a;
  fm_unique : m_unique b = m_unique a;
  fm_reg : m_reg b = true -> m_reg a = true;
  fm_closed : m_closed a = true -> m_closed b = true;
  fm_connected : m_connected b = true -> m_connected a = true
}.

Record Frame (s s' : mstate) : Prop := {
  fr_mods : Forall2 frame_mod (mods s) (mods s');
  fr_subs : forall t c, In c (alookup t (subs s')) -> In c (alookup t (subs s));
  fr_log : forall c, In c (loggers s') -> In c (loggers s);
  fr_uid : next_uid s' = next_uid s;
  fr_dyn : dyn_off s' = dyn_off s;
  fr_wl : wl s' = wl s;
  fr_sending : sending_traffic s' = sending_traffic s;
  fr_seq : traffic_seq s' = traffic_seq s;
  fr_t1 : t_timing s' = t_timing s;
  fr_t2 : t_traffic s' = t_traffic s;
  fr_t3 : t_info s' = t_info s
}.

Lemma frame_mod_refl a : frame_mod a a.
Proof. constructor; auto. Qed.

Lemma frame_mod_trans a b c : frame_mod a b -> frame_mod b c -> frame_mod a c.
Proof. intros [] []. constructor; try congruence; auto. Qed.

Lemma Forall2_refl {A} (R : A -> A -> Prop) l : (forall x, R x x) -> Forall2 R l l.
Proof. intros H; induction l; constructor; auto. Qed.

Lemma Forall2_trans {A} (R : A -> A -> Prop) l1 l2 l3 :
  (forall x y z, R x y -> R y z -> R x z) -> Forall2 R l1 l2 -> Forall2 R l2 l3 -> Forall2 R l1 l3.
Proof.
  intros HT H12. revert l3. induction H12; intros l3 H23; inversion H23; subst; constructor; eauto.
Qed.

Lemma Frame_refl s : Frame s s.
Proof. constructor; auto. apply Forall2_refl. apply frame_mod_refl. Qed.

Lemma Frame_trans s1 s2 s3 : Frame s1 s2 -> Frame s2 s3 -> Frame s1 s3.
Proof.
  intros [] []. constructor; try congruence; auto.
  eapply Forall2_trans; eauto. apply frame_mod_trans.
Qed.

Lemma Forall2_upd c f l : (forall m, frame_mod m (f m)) -> Forall2 frame_mod l (upd_mod c f l).
Proof.
  intros Hf. induction l as [|m r IH]; simpl; [constructor|].
  destruct (m_conn m =? c); constructor; auto; [apply Forall2_refl; apply frame_mod_refl|apply frame_mod_refl].
Qed.

(* the state transformers used inside forward_message *)
Lemma Frame_upd s c f : (forall m, frame_mod m (f m)) -> Frame s (with_mods s (upd_mod c f (mods s))).
Proof. intros Hf. constructor; simpl; auto. apply Forall2_upd; auto. Qed.

Lemma Frame_out s o f : Frame s (with_out s o f).
Proof. constructor; simpl; auto. apply Forall2_refl, frame_mod_refl. Qed.

Lemma Frame_counts s c t : Frame s (with_counts s c t).
Proof. constructor; simpl; auto. apply Forall2_refl, frame_mod_refl. Qed.

Lemma Frame_rtma s b : Frame s (with_rtma s b).
Proof. constructor; simpl; auto. apply Forall2_refl, frame_mod_refl. Qed.

Lemma Frame_drop_subs s c ts : Frame s (with_subs s (drop_subs c ts (subs s))).
Proof.
  constructor; simpl; auto; [apply Forall2_refl, frame_mod_refl|].
  intros t c' Hin. rewrite alookup_drop_subs in Hin. destruct (zmem t ts); [apply zremove_In in Hin; tauto|exact Hin].
Qed.

Lemma Frame_drop_logger s c : Frame s (with_loggers s (zremove c (loggers s))).
Proof.
  constructor; simpl; auto; [apply Forall2_refl, frame_mod_refl|].
  intros c' Hin. apply zremove_In in Hin. tauto.
Qed.

Lemma fm_count m n : frame_mod m (mm_count m n). Proof. constructor; auto. Qed.
Lemma fm_drops m n : frame_mod m (mm_drops m n). Proof. constructor; auto. Qed.
Lemma fm_close m : frame_mod m (mm_close m). Proof. constructor; simpl; auto; discriminate. Qed.
Lemma fm_unreg m : frame_mod m (mm_unreg m). Proof. constructor; simpl; auto; discriminate. Qed.

(* consequences for lookups *)
Lemma Forall2_find c l l' : Forall2 frame_mod l l' -> frame_mod (find_mod c l) (find_mod c l').
Proof.
  induction 1 as [|a b l l' Hab Hl IH]; simpl; [apply frame_mod_refl|].
  rewrite (fm_conn _ _ Hab). destruct (m_conn a =? c); auto.
Qed.

Lemma Frame_find s s' c : Frame s s' -> frame_mod (find_mod c (mods s)) (find_mod c (mods s')).
Proof. intros F. apply Forall2_find. apply (fr_mods _ _ F). Qed.
