(* How much nesting can a history need?  forward_message re-enters itself only to publish a log
   record, a CLIENT_CLOSED or a FAILED_MESSAGE; the last two kinds of notices about log records and
   failure notices are suppressed, and every other re-entry happens after a live module has been
   closed.  Hence forward_message with budget k never runs out of it when
       2 * (number of live modules) + rank(header) <= k
   where a header has rank 1 if it is a valid-destination log record / failure notice and 2 otherwise.
   "Never runs out" together with J (the only possible crash is XFuel) means: never crashes. *)
From Coq Require Import ZArith List Bool Lia ZifyBool.
From Mgr Require Import Gen.MgrDefs Model.Manager Proofs.ListLemmas Proofs.Hoare Proofs.RegInv Proofs.Frame
                        Proofs.RegTraverse.
Import ListNotations.
Open Scope Z_scope.

Definition livem (m : module) : bool := m_reg m && negb (m_closed m).
Definition nlive (l : list module) : nat := length (filter livem l).
Definition live (s : mstate) : nat := nlive (mods s).

Lemma frame_livem a b : frame_mod a b -> livem b = true -> livem a = true.
Proof.
  intros F H. unfold livem in *. apply andb_true_iff in H. destruct H as [Hr Hc].
  rewrite (fm_reg _ _ F Hr). destruct (m_closed a) eqn:E; [|reflexivity].
  rewrite (fm_closed _ _ F E) in Hc. discriminate.
Qed.

Lemma Forall2_nlive l l' : Forall2 frame_mod l l' -> (nlive l' <= nlive l)%nat.
Proof.
  induction 1 as [|a b l l' Hab Hl IH]; [apply le_n|]. unfold nlive in *. cbn [filter].
  destruct (livem b) eqn:Eb.
  - rewrite (frame_livem a b Hab Eb). simpl. lia.
  - destruct (livem a); simpl; lia.
Qed.

Lemma Frame_live s s' : Frame s s' -> (live s' <= live s)%nat.
Proof. intros F. apply Forall2_nlive. apply (fr_mods _ _ F). Qed.

Lemma nlive_close c l : m_conn (find_mod c l) = c -> livem (find_mod c l) = true ->
  (nlive (upd_mod c mm_close l) + 1 = nlive l)%nat.
Proof.
  induction l as [|m r IH]; simpl; [discriminate|]. unfold nlive in *. cbn [filter].
  destruct (m_conn m =? c) eqn:E; intros Hc Hl.
  - cbn [filter]. rewrite Hl. assert (Hm : livem (mm_close m) = false) by (unfold livem; simpl; apply andb_false_r).
    rewrite Hm. simpl. lia.
  - cbn [filter]. specialize (IH Hc Hl). destruct (livem m); simpl; lia.
Qed.

(* rank of a header: which notices its delivery can still provoke without closing anybody *)
Definition rank (h : hdr) : nat :=
  if zmem (h_type h) no_notice_types && negb (bad_dest_mod (h_dst_mod h)) && negb (bad_dest_host (h_dst_host h))
  then 1%nat else 2%nat.

Lemma rank_le h : (1 <= rank h <= 2)%nat.
Proof. unfold rank. destruct (_ && _); lia. Qed.

Lemma rank_log lvl sz : rank (mgr_hdr (log_type lvl) sz 0) = 1%nat.
Proof.
  unfold rank, log_type, mgr_hdr. cbn [h_type h_dst_mod h_dst_host].
  destruct (lvl =? 10); [reflexivity|]. destruct (lvl =? 20); [reflexivity|]. destruct (lvl =? 30); [reflexivity|].
  destruct (lvl =? 40); [reflexivity|]. destruct (lvl =? 50); reflexivity.
Qed.

Lemma rank_failed sz : rank (mgr_hdr MT_FAILED_MESSAGE sz 0) = 1%nat.
Proof. reflexivity. Qed.

(* no-crash judgement; the state facts at intermediate points come from J *)
Definition NCat {A} (X : list Z) (n : nat) (s0 : mstate) (m : M A) : Prop :=
  RegInvX X s0 -> (live s0 <= n)%nat -> match m s0 with Ok _ _ => True | Crash _ _ => False end.
Definition NC {A} (X : list Z) (n : nat) (m : M A) : Prop := forall s0, NCat X n s0 m.

Lemma NC_ret {A} X n (a : A) : NC X n (ret a).
Proof. intros s _ _. exact I. Qed.

Lemma NCat_bind' {A B} X n s0 (m : M A) (k : A -> M B) :
  Jat X s0 m -> NCat X n s0 m -> (forall a s1, m s0 = Ok a s1 -> NCat X n s1 (k a)) -> NCat X n s0 (bind m k).
Proof.
  intros HJ HN Hk H0 Hl. unfold bind. specialize (HJ H0). specialize (HN H0 Hl).
  destruct (m s0) as [a s1|e s1] eqn:E; [|exact HN]. destruct HJ as [H1 F].
  apply (Hk a s1 eq_refl H1). pose proof (Frame_live _ _ F). lia.
Qed.

Lemma NCat_bind {A B} X n s0 (m : M A) (k : A -> M B) :
  Jat X s0 m -> NCat X n s0 m -> (forall a, NC X n (k a)) -> NCat X n s0 (bind m k).
Proof. intros HJ HN Hk. apply NCat_bind'; auto. intros a s1 _. apply Hk. Qed.

Lemma NC_bind {A B} X n (m : M A) (k : A -> M B) : J X m -> NC X n m -> (forall a, NC X n (k a)) -> NC X n (bind m k).
Proof. intros HJ HN Hk s0. apply NCat_bind; auto. Qed.

Lemma NC_get {A} X n (k : mstate -> M A) : (forall s0, NCat X n s0 (k s0)) -> NC X n (bind get k).
Proof. intros H s0 H0 Hl. unfold bind, get. apply H; auto. Qed.

Lemma NC_mono {A} X n n' (m : M A) : (n' <= n)%nat -> NC X n m -> NC X n' m.
Proof. intros Hle H s0 H0 Hl. apply H; auto. lia. Qed.

(* operations that cannot crash at all *)
Lemma NC_of_total {A} X n (m : M A) : (forall s, exists a s', m s = Ok a s') -> NC X n m.
Proof. intros H s0 _ _. destruct (H s0) as (a & s' & ->). exact I. Qed.

Lemma NC_modify X n f : NC X n (modify f).
Proof. apply NC_of_total. intros s. eexists; eexists; reflexivity. Qed.

Lemma NC_set_mod X n c f : NC X n (set_mod c f).
Proof. apply NC_modify. Qed.

Lemma sendall_total c it s : exists r s', sendall c it s = Ok r s'.
Proof.
  unfold sendall. destruct (m_closed _); [eauto|]. destruct (flookup _ _) as [k|]; [destruct (k <=? 0)|]; eauto.
Qed.

Lemma mod_send_total c h p s : exists r s', mod_send c h p s = Ok r s'.
Proof.
  unfold mod_send, bind, get, set_mod, modify, ret. cbv zeta.
  match goal with |- context [sendall c (OHdr ?hh) ?st] => destruct (sendall_total c (OHdr hh) st) as (r1 & s2 & E1) end.
  rewrite E1. destruct r1; eauto.
  destruct (sendall_total c (OPay p) s2) as (r2 & s3 & E2). rewrite E2. eauto.
Qed.

Lemma NC_mod_send X n c h p : NC X n (mod_send c h p).
Proof. apply NC_of_total. apply mod_send_total. Qed.

Lemma find_upd_reg c c' f l : (forall m, m_reg (f m) = m_reg m) -> conn_pres f ->
  m_reg (find_mod c' (upd_mod c f l)) = m_reg (find_mod c' l).
Proof.
  intros Hr Hc. induction l as [|m r IH]; simpl; [reflexivity|]. destruct (m_conn m =? c) eqn:E; simpl.
  - rewrite Hc. destruct (m_conn m =? c'); [apply Hr|reflexivity].
  - destruct (m_conn m =? c'); [reflexivity|exact IH].
Qed.

Lemma mod_send_reg c h p s c' :
  match mod_send c h p s with
  | Ok r s' => m_reg (find_mod c' (mods s')) = m_reg (find_mod c' (mods s)) /\ h_type (snd r) = h_type h
  | Crash _ _ => True
  end.
Proof.
  unfold mod_send, bind, get, set_mod, modify, ret. cbv zeta.
  set (f := fun m => mm_count m (m_count (find_mod c (mods s)) + 1)).
  assert (Hf : m_reg (find_mod c' (upd_mod c f (mods s))) = m_reg (find_mod c' (mods s))).
  { apply find_upd_reg; intro; reflexivity. }
  unfold sendall at 1. simpl.
  destruct (m_closed (find_mod c (upd_mod c f (mods s)))); [simpl; auto|].
  destruct (flookup c (faults s)) as [k|].
  - destruct (k <=? 0); [simpl; auto|]. unfold sendall. simpl.
    destruct (m_closed (find_mod c (upd_mod c f (mods s)))); [simpl; auto|].
    destruct (flookup c (fset c (k - 1) (faults s))) as [k2|]; [destruct (k2 <=? 0)|]; simpl; auto.
  - unfold sendall. simpl. destruct (m_closed (find_mod c (upd_mod c f (mods s)))); [simpl; auto|].
    destruct (flookup c (faults s)) as [k2|]; [destruct (k2 <=? 0)|]; simpl; auto.
Qed.

Section WithRec.
Variable cfg : config.
Variable rec : hdr -> payload -> M unit.
Variable K : nat.
Hypothesis Hrec : forall X h p, J X (rec h p).
Hypothesis HrecN : forall X n h p, (2 * n + rank h <= K)%nat -> NC X n (rec h p).

Lemma NC_mlog X n lvl : (2 * n + 1 <= K)%nat -> NC X n (mlog_with cfg rec lvl).
Proof.
  intros Hb s H Hl. unfold mlog_with. destruct ((loglevel cfg <=? lvl) && rtma_log s); [|exact I].
  assert (Hr : (2 * n + rank (mgr_hdr (log_type lvl) SZ_RTMA_LOG 0) <= K)%nat) by (rewrite rank_log; exact Hb).
  pose proof (HrecN X n _ (PLog lvl) Hr s H Hl) as HN.
  destruct (rec (mgr_hdr (log_type lvl) SZ_RTMA_LOG 0) (PLog lvl) s) as [u s'|e s']; [exact I|destruct HN].
Qed.

Lemma NC_send_mgr X n t sz pl : (2 * n + 2 <= K)%nat -> NC X n (send_mgr_with rec t sz pl).
Proof. intros Hb. unfold send_mgr_with. apply HrecN. pose proof (rank_le (mgr_hdr t sz 0)). lia. Qed.

Lemma NC_send_failed X n c hh : (2 * n + 1 <= K)%nat -> NC X n (send_failed_with rec c hh).
Proof.
  intros Hb. unfold send_failed_with. destruct (zmem (h_type hh) no_notice_types); [apply NC_ret|].
  apply NC_get. intros s0. unfold send_mgr_with. apply HrecN. rewrite rank_failed. exact Hb.
Qed.

(* a failure notice is only ever published for a type outside no_notice_types *)
Lemma NC_send_failed' X n c hh : (zmem (h_type hh) no_notice_types = false -> (2 * n + 1 <= K)%nat) ->
  NC X n (send_failed_with rec c hh).
Proof.
  intros Hb. unfold send_failed_with. destruct (zmem (h_type hh) no_notice_types) eqn:E; [apply NC_ret|].
  apply NC_get. intros s0. unfold send_mgr_with. apply HrecN. rewrite rank_failed. auto.
Qed.

(* the tail of remove_module after the module has been closed *)
Definition rm_rest (c : Z) : M unit :=
  mlog_with cfg rec 10 ;;; (s1' <- get ;; send_mgr_with rec MT_CLIENT_CLOSED SZ_CLIENT_CLOSED
                                            (client_payload true (find_mod c (mods s1'))) ;;;
                            (s2' <- get ;; if m_reg (find_mod c (mods s2')) then set_mod c mm_unreg else crash XKeyError)).

Lemma remove_module_unfold X c s0 : ~ In c X -> RegInvX X s0 -> m_reg (find_mod c (mods s0)) = true ->
  exists s3, remove_module_with cfg rec c s0 = rm_rest c s3 /\ RegInvX (c :: X) s3 /\ Frame s0 s3 /\
             (live s3 + 1 <= live s0)%nat.
Proof.
  intros HcX H0 Hreg.
  assert (Hopen : m_closed (find_mod c (mods s0)) = false).
  { destruct (m_closed (find_mod c (mods s0))) eqn:E; [|reflexivity]. exfalso. apply HcX.
    pose proof (find_mod_reg_In c _ Hreg) as [Hi Hcc]. rewrite <- Hcc. apply (ro_flight _ _ _ _ _ H0 _ Hi Hreg E). }
  assert (Hpos : 0 <= c).
  { pose proof (find_mod_reg_In c _ Hreg) as [Hi Hcc]. rewrite <- Hcc. apply (ro_pos _ _ _ _ _ H0 _ Hi). }
  set (s1 := with_subs s0 (drop_subs c (m_subs (find_mod c (mods s0))) (subs s0))).
  set (s2 := with_loggers s1 (zremove c (loggers s1))).
  set (s3 := with_mods s2 (upd_mod c mm_close (mods s2))).
  exists s3. split; [|split; [|split]].
  - unfold remove_module_with. unfold bind at 1. unfold get. rewrite Hreg. reflexivity.
  - assert (H1 : RegInvX X s1) by (apply reg_ok_drop_subs; exact H0).
    assert (H2 : RegInvX X s2) by (apply reg_ok_drop_logger; exact H1).
    unfold RegInvX, s3. simpl. apply reg_ok_close; auto.
    + intros t. apply (drop_subs_gone _ _ _ _ _ c H0 t).
    + simpl. intro Hin. apply zremove_In in Hin. tauto.
  - eapply Frame_trans; [apply Frame_drop_subs|]. eapply Frame_trans; [apply Frame_drop_logger|].
    apply Frame_upd. intro; apply fm_close.
  - unfold live, s3, s2, s1. simpl. pose proof (nlive_close c (mods s0)) as Hn.
    rewrite <- Hn; [lia|apply find_mod_conn_of_reg; exact Hreg|unfold livem; rewrite Hreg, Hopen; reflexivity].
Qed.

Lemma rm_rest_J X c s3 : RegInvX (c :: X) s3 ->
  match rm_rest c s3 with Ok _ s' => Frame s3 s' | Crash e _ => e = XFuel end.
Proof.
  intros H3. unfold rm_rest. unfold bind at 1. pose proof (J_mlog cfg rec Hrec (c :: X) 10 s3 H3) as Hl.
  destruct (mlog_with cfg rec 10 s3) as [u s4|e s4]; [|exact Hl]. destruct Hl as [H4 F34].
  unfold bind at 1. unfold get. unfold bind at 1.
  pose proof (J_send_mgr rec Hrec (c :: X) MT_CLIENT_CLOSED SZ_CLIENT_CLOSED (client_payload true (find_mod c (mods s4))) s4 H4) as Hc.
  destruct (send_mgr_with rec MT_CLIENT_CLOSED SZ_CLIENT_CLOSED (client_payload true (find_mod c (mods s4))) s4) as [u' s5|e s5]; [|exact Hc].
  destruct Hc as [H5 F45]. unfold bind at 1. unfold get.
  destruct (ro_xreg _ _ _ _ _ H5 c (or_introl eq_refl)) as [Hr5 Hc5]. rewrite Hr5.
  unfold set_mod, modify. eapply Frame_trans; [exact F34|]. eapply Frame_trans; [exact F45|].
  apply Frame_upd. intro; apply fm_unreg.
Qed.

Lemma rm_rest_NC X c n s3 : RegInvX (c :: X) s3 -> (live s3 <= n)%nat -> (2 * n + 2 <= K)%nat ->
  match rm_rest c s3 with Ok _ _ => True | Crash _ _ => False end.
Proof.
  intros H3 Hl Hb. unfold rm_rest. unfold bind at 1. pose proof (J_mlog cfg rec Hrec (c :: X) 10 s3 H3) as HJ.
  pose proof (NC_mlog (c :: X) n 10 ltac:(lia) s3 H3 Hl) as HN.
  destruct (mlog_with cfg rec 10 s3) as [u s4|e s4]; [|exact HN]. destruct HJ as [H4 F34].
  assert (Hl4 : (live s4 <= n)%nat) by (pose proof (Frame_live _ _ F34); lia).
  unfold bind at 1. unfold get. unfold bind at 1.
  pose proof (J_send_mgr rec Hrec (c :: X) MT_CLIENT_CLOSED SZ_CLIENT_CLOSED (client_payload true (find_mod c (mods s4))) s4 H4) as Hc.
  pose proof (NC_send_mgr (c :: X) n MT_CLIENT_CLOSED SZ_CLIENT_CLOSED (client_payload true (find_mod c (mods s4))) Hb s4 H4 Hl4) as Hn.
  destruct (send_mgr_with rec MT_CLIENT_CLOSED SZ_CLIENT_CLOSED (client_payload true (find_mod c (mods s4))) s4) as [u' s5|e s5]; [|exact Hn].
  destruct Hc as [H5 F45]. unfold bind at 1. unfold get.
  destruct (ro_xreg _ _ _ _ _ H5 c (or_introl eq_refl)) as [Hr5 Hc5]. rewrite Hr5. exact I.
Qed.

(* removing a module: the nested publications happen with one live module fewer *)
Lemma NC_remove_module X n c : ~ In c X -> (2 * n <= K)%nat -> NC X n (remove_module_with cfg rec c).
Proof.
  intros HcX Hb s0 H0 Hl. destruct (m_reg (find_mod c (mods s0))) eqn:Hreg.
  - destruct (remove_module_unfold X c s0 HcX H0 Hreg) as (s3 & E & H3 & F & Hlive). rewrite E.
    apply (rm_rest_NC X c (n - 1) s3 H3); lia.
  - unfold remove_module_with. unfold bind at 1. unfold get. rewrite Hreg. exact I.
Qed.

Lemma remove_module_live X c s0 : ~ In c X -> RegInvX X s0 -> m_reg (find_mod c (mods s0)) = true ->
  match remove_module_with cfg rec c s0 with Ok _ s' => (live s' + 1 <= live s0)%nat | Crash _ _ => True end.
Proof.
  intros HcX H0 Hreg. destruct (remove_module_unfold X c s0 HcX H0 Hreg) as (s3 & E & H3 & F & Hlive). rewrite E.
  pose proof (rm_rest_J X c s3 H3) as HJ. destruct (rm_rest c s3) as [u s'|e s']; [|exact I].
  pose proof (Frame_live _ _ HJ). lia.
Qed.

Lemma NCat_on_conn_err X n c hh s0 : ~ In c X -> m_reg (find_mod c (mods s0)) = true -> (2 * n <= K)%nat ->
  NCat X n s0 (on_conn_err_with cfg rec c hh).
Proof.
  intros HcX Hreg Hb H0 Hl. unfold on_conn_err_with. unfold bind at 1.
  pose proof (J_remove_module cfg rec Hrec X c HcX s0 H0) as HJ.
  pose proof (NC_remove_module X n c HcX Hb s0 H0 Hl) as HN.
  pose proof (remove_module_live X c s0 HcX H0 Hreg) as HL.
  destruct (remove_module_with cfg rec c s0) as [u s1|e s1]; [|exact HN]. destruct HJ as [H1 F1].
  assert (Hn1 : (live s1 <= n - 1)%nat) by lia.
  assert (Hb1 : (2 * (n - 1) + 1 <= K)%nat) by lia.
  apply (NC_bind X (n - 1) _ _ (J_mlog cfg rec Hrec X 40) (NC_mlog X (n - 1) 40 Hb1)); auto.
  intros _. apply NC_send_failed. exact Hb1.
Qed.

Lemma NCat_send_checked X n c hh p s0 : ~ In c X -> m_reg (find_mod c (mods s0)) = true -> (2 * n <= K)%nat ->
  NCat X n s0 (send_checked_with cfg rec c hh p).
Proof.
  intros HcX Hreg Hb. unfold send_checked_with.
  apply NCat_bind'; [apply J_mod_send|apply NC_mod_send|]. intros [r h'] s1 E.
  pose proof (mod_send_reg c hh p s0 c) as Hr. rewrite E in Hr. destruct Hr as [Hr _].
  destruct r; cbn [fst snd].
  - apply NC_bind; [apply (J_set_drops X c (fun _ => 0))|apply NC_set_mod|]. intros _. apply NC_ret.
  - apply NCat_bind; [apply J_on_conn_err; auto|apply NCat_on_conn_err; auto; congruence|]. intros _. apply NC_ret.
  - apply NCat_bind; [apply J_on_conn_err; auto|apply NCat_on_conn_err; auto; congruence|]. intros _. apply NC_ret.
Qed.

(* without knowing that c is still registered (top-level callers): one unit more *)
Lemma NC_on_conn_err X n c hh : ~ In c X -> (2 * n + 1 <= K)%nat -> NC X n (on_conn_err_with cfg rec c hh).
Proof.
  intros HcX Hb. unfold on_conn_err_with.
  apply NC_bind; [apply J_remove_module; auto|apply NC_remove_module; [auto|lia]|]. intros _.
  apply NC_bind; [apply J_mlog; exact Hrec|apply NC_mlog; exact Hb|]. intros _. apply NC_send_failed. exact Hb.
Qed.

Lemma NC_send_checked X n c hh p : ~ In c X -> (2 * n + 1 <= K)%nat -> NC X n (send_checked_with cfg rec c hh p).
Proof.
  intros HcX Hb. unfold send_checked_with. apply NC_bind; [apply J_mod_send|apply NC_mod_send|]. intros [r h'].
  destruct r; cbn [fst snd].
  - apply NC_bind; [apply (J_set_drops X c (fun _ => 0))|apply NC_set_mod|]. intros _. apply NC_ret.
  - apply NC_bind; [apply J_on_conn_err; auto|apply NC_on_conn_err; auto|]. intros _. apply NC_ret.
  - apply NC_bind; [apply J_on_conn_err; auto|apply NC_on_conn_err; auto|]. intros _. apply NC_ret.
Qed.

Definition budget (n : nat) (hh : hdr) : Prop :=
  (2 * n <= K)%nat /\ (zmem (h_type hh) no_notice_types = false -> (2 * n + 1 <= K)%nat).

Lemma deliver_type p hh c s :
  match deliver_with cfg rec p hh c s with Ok hh' _ => h_type hh' = h_type hh | Crash _ _ => True end.
Proof.
  unfold deliver_with. unfold bind at 1. unfold get.
  assert (SC : match send_checked_with cfg rec c hh p s with Ok hh' _ => h_type hh' = h_type hh | Crash _ _ => True end).
  { unfold send_checked_with. unfold bind at 1. pose proof (mod_send_reg c hh p s c) as Hr.
    destruct (mod_send c hh p s) as [[r h'] s1|e s1]; [|exact I]. destruct Hr as [_ Ht]. simpl in Ht.
    destruct r; cbn [fst snd]; unfold bind.
    - destruct (set_mod c _ s1); simpl; auto.
    - destruct (on_conn_err_with cfg rec c h' s1); simpl; auto.
    - destruct (on_conn_err_with cfg rec c h' s1); simpl; auto. }
  destruct (negb _); [reflexivity|]. destruct (zmem c (wl s)).
  - destruct (dest_filter _ _ _); [exact SC|reflexivity].
  - destruct (m_logger _); [destruct (m_closed _); [exact I|exact SC]|].
    unfold bind. destruct (set_mod c _ s) as [u s1|]; [|exact I]. destruct (send_failed_with rec c hh s1); simpl; auto.
Qed.

Lemma NC_deliver X n p hh c : ~ In c X -> budget n hh -> NC X n (deliver_with cfg rec p hh c).
Proof.
  intros HcX [Hb1 Hb2]. unfold deliver_with. apply NC_get. intros s0 H0 Hl.
  destruct (m_reg (find_mod c (mods s0))) eqn:Hreg; cbn [negb]; [|exact I].
  assert (Hopen : m_closed (find_mod c (mods s0)) = false).
  { destruct (m_closed (find_mod c (mods s0))) eqn:E; [|reflexivity]. exfalso. apply HcX.
    pose proof (find_mod_reg_In c _ Hreg) as [Hi Hcc]. rewrite <- Hcc. apply (ro_flight _ _ _ _ _ H0 _ Hi Hreg E). }
  destruct (zmem c (wl s0)).
  - destruct (dest_filter _ _ _); [exact (NCat_send_checked X n c hh p s0 HcX Hreg Hb1 H0 Hl)|exact I].
  - destruct (m_logger (find_mod c (mods s0))).
    + rewrite Hopen. exact (NCat_send_checked X n c hh p s0 HcX Hreg Hb1 H0 Hl).
    + revert H0 Hl. apply NCat_bind; [apply (J_set_drops X c (fun m => m_drops m + 1))|apply NC_set_mod|]. intros _.
      apply NC_bind; [apply J_send_failed; exact Hrec|apply NC_send_failed'; exact Hb2|]. intros _. apply NC_ret.
Qed.

Lemma NC_deliver_loop X n p : forall l hh, (forall c, In c l -> ~ In c X) -> budget n hh ->
  NC X n (deliver_loop cfg rec p hh l).
Proof.
  induction l as [|c r IH]; intros hh Hl Hb; cbn [deliver_loop]; [apply NC_ret|].
  intros s0. apply NCat_bind'; [apply J_deliver; [exact Hrec|apply Hl; left; reflexivity]|apply NC_deliver; [apply Hl; left; reflexivity|exact Hb]|].
  intros hh' s1 E. pose proof (deliver_type p hh c s0) as Ht. rewrite E in Ht.
  apply IH; [intros c' Hc'; apply Hl; right; exact Hc'|]. unfold budget in *. rewrite Ht. exact Hb.
Qed.

Lemma NC_forward_body X n h p : (2 * n + rank h <= S K)%nat -> NC X n (forward_body cfg rec h p).
Proof.
  intros Hb. unfold forward_body.
  apply NC_bind; [apply count_msg_J|unfold count_msg; apply NC_get; intros s0; destruct (negb _); [apply NC_modify|apply NC_ret]|].
  intros _. unfold rank in Hb.
  destruct (bad_dest_mod (h_dst_mod h)) eqn:E1.
  { apply NC_mlog. rewrite andb_false_r in Hb. simpl in Hb. lia. }
  destruct (bad_dest_host (h_dst_host h)) eqn:E2.
  { apply NC_mlog. rewrite andb_false_r in Hb. lia. }
  apply NC_get. intros s0 H0.
  apply (NC_deliver_loop X n p (snapshot s0 (h_type h)) h); [| |exact H0].
  - intros c Hin. eapply snapshot_not_inflight; eauto.
  - unfold budget. destruct (zmem (h_type h) no_notice_types); simpl in Hb; split; try lia; intros; try discriminate; lia.
Qed.

End WithRec.

Theorem NC_forward cfg : forall fuel X n h p, (2 * n + rank h <= fuel)%nat -> NC X n (forward cfg fuel h p).
Proof.
  induction fuel as [|k IH]; intros X n h p Hb.
  - pose proof (rank_le h). lia.
  - cbn [forward]. apply (NC_forward_body cfg (forward cfg k) k (J_forward cfg k) IH). exact Hb.
Qed.

Lemma nlive_le l : (nlive l <= length l)%nat.
Proof. unfold nlive. induction l as [|m r IH]; simpl; [lia|]. destruct (livem m); simpl; lia. Qed.

Lemma live_le s : (live s <= length (mods s))%nat.
Proof. apply nlive_le. Qed.

(* J and NC together: an operation that, under the budget, cannot crash at all *)
Lemma J_NC_ok {A} X n (m : M A) s : J X m -> NC X n m -> RegInvX X s -> (live s <= n)%nat ->
  exists a s', m s = Ok a s' /\ RegInvX X s' /\ Frame s s'.
Proof.
  intros HJ HN H Hl. specialize (HJ s H). specialize (HN s H Hl). destruct (m s) as [a s'|e s']; [|destruct HN].
  exists a, s'. destruct HJ. auto.
Qed.
