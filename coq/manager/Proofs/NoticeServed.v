(* C14, the notice itself, unconditionally (no assumption on the log level, on the other subscribers of
   FAILED_MESSAGE, on the nesting depth):
   (1) when a registered recipient c of a client message hh is not writable (and not a logger), every healthy
       subscriber g of FAILED_MESSAGE - writable, its own writes not failing - receives exactly one whole
       FAILED_MESSAGE frame naming c's module id and embedding hh;
   (2) the same when c is writable, passes the filter, and the write to it fails: the notice embeds the header as
       stamped for c and is published after c's removal;
   (3) no notice is ever published ABOUT a log record or a failure notice: every FAILED_MESSAGE payload written
       while such a message is forwarded is that message's own payload or embeds a header of a type that is
       eligible for notices (a nested CLIENT_CLOSED, say), never a copy of the message itself.
   "hh is a client message" is h_extra hh <> 0: every header the manager originates has h_extra 0, so a notice that
   embeds hh cannot be confused with the notices about CLIENT_CLOSED publications that nested removals may add. *)
From Coq Require Import ZArith List Bool Lia ZifyBool.
From Mgr Require Import Gen.MgrDefs Model.Manager Proofs.ListLemmas Proofs.Hoare Proofs.RegInv Proofs.Frame
                        Proofs.RegTraverse Proofs.RegTop Proofs.StepInv Proofs.Routing Proofs.OutInv Proofs.C05Inv
                        Proofs.Exact Proofs.ExactTop Proofs.AckExact Proofs.FailExact Proofs.CtrlExact
                        Proofs.OnlyRecipients Proofs.HealthyServed.
Import ListNotations.
Open Scope Z_scope.

(* ---------- a traversal of the closure with a guard on the (header, payload) pairs handed to send_message ---------- *)
Section Nest2.
Variable cfg : config.
Variable GP : hdr -> payload -> Prop.
Hypothesis GPcount : forall h q n, GP h q -> GP (set_count h n) q.
Hypothesis GPlog : forall lvl, GP (mgr_hdr (log_type lvl) SZ_RTMA_LOG 0) (PLog lvl).
Hypothesis GPclosed : forall m, GP (mgr_hdr MT_CLIENT_CLOSED SZ_CLIENT_CLOSED 0) (client_payload true m).
Hypothesis GPfailed : forall h q mid, GP h q -> zmem (h_type h) no_notice_types = false ->
  GP (mgr_hdr MT_FAILED_MESSAGE SZ_FAILED_MESSAGE 0) (PFailed mid h).
Variable I : mstate -> Prop.
Hypothesis Iout : forall s s', out s' = out s -> I s -> I s'.
Hypothesis Isend : forall c h q, GP h q ->
  hoare I (mod_send c h q) (fun r s => I s /\ exists n, snd r = set_count h n) (fun _ => I).

Lemma m_getk {A} (k : mstate -> M A) : (forall s0, pres I (k s0)) -> pres I (bind get k).
Proof. intros H s Hs. unfold bind, get. apply H; auto. Qed.
Lemma m_modify f : (forall s, out (f s) = out s) -> pres I (modify f).
Proof. intros H. apply pres_modify. intros s Hs. eapply Iout; eauto. Qed.
Lemma m_set_mod c f : pres I (set_mod c f).
Proof. unfold set_mod. apply m_modify. reflexivity. Qed.

Definition presQ (q : payload) (m : M hdr) : Prop := hoare I m (fun hh s => I s /\ GP hh q) (fun _ => I).

Lemma presQ_bind {B} q (m : M hdr) (k : hdr -> M B) : presQ q m -> (forall hh, GP hh q -> pres I (k hh)) -> pres I (bind m k).
Proof.
  intros Hm Hk s Hs. unfold bind. specialize (Hm s Hs). destruct (m s) as [hh s'|e s']; [|exact Hm].
  destruct Hm as [Hi Hg]. exact (Hk hh Hg s' Hi).
Qed.
Lemma presQ_ret q hh : GP hh q -> presQ q (ret hh).
Proof. intros Hg s Hs. simpl. auto. Qed.
Lemma presQ_seq {A} q (m : M A) (k : M hdr) : pres I m -> presQ q k -> presQ q (bind m (fun _ => k)).
Proof. intros Hm Hk s Hs. unfold bind. specialize (Hm s Hs). destruct (m s) as [a s'|e s']; [|exact Hm]. exact (Hk s' Hm). Qed.
Lemma presQ_getk q (k : mstate -> M hdr) : (forall s0, presQ q (k s0)) -> presQ q (bind get k).
Proof. intros H s Hs. unfold bind, get. apply H; auto. Qed.
Lemma presQ_crash q e : presQ q (@crash hdr e).
Proof. intros s Hs. exact Hs. Qed.

Section WithRec.
Variable rec : hdr -> payload -> M unit.
Hypothesis Hrec : forall h q, GP h q -> pres I (rec h q).

Lemma m_mlog lvl : pres I (mlog_with cfg rec lvl).
Proof.
  intros s Hs. unfold mlog_with. destruct ((loglevel cfg <=? lvl) && rtma_log s); [|exact Hs].
  pose proof (Hrec _ _ (GPlog lvl) s Hs) as H.
  destruct (rec (mgr_hdr (log_type lvl) SZ_RTMA_LOG 0) (PLog lvl) s) as [u s'|e s']; [exact H|].
  destruct e; try exact H; (eapply Iout; [|exact H]; reflexivity).
Qed.

Lemma m_send_failed c hh q : GP hh q -> pres I (send_failed_with rec c hh).
Proof.
  intros Hg. unfold send_failed_with. destruct (zmem (h_type hh) no_notice_types) eqn:E; [apply pres_ret|].
  apply m_getk. intros s0. unfold send_mgr_with. apply Hrec. eapply GPfailed; eauto.
Qed.

Lemma m_remove_module c : pres I (remove_module_with cfg rec c).
Proof.
  unfold remove_module_with. apply m_getk. intros s0.
  destruct (negb (m_reg (find_mod c (mods s0)))); [apply pres_ret|].
  apply pres_bind; [apply m_modify; reflexivity|]. intros _. apply pres_bind; [apply m_modify; reflexivity|]. intros _.
  apply pres_bind; [apply m_set_mod|]. intros _. apply pres_bind; [apply m_mlog|]. intros _.
  apply m_getk. intros s1. apply pres_bind; [unfold send_mgr_with; apply Hrec; apply GPclosed|]. intros _.
  apply m_getk. intros s2. destruct (m_reg _); [apply m_set_mod|apply pres_crash].
Qed.

Lemma m_on_conn_err c hh q : GP hh q -> pres I (on_conn_err_with cfg rec c hh).
Proof.
  intros Hg. unfold on_conn_err_with. apply pres_bind; [apply m_remove_module|]. intros _.
  apply pres_bind; [apply m_mlog|]. intros _. eapply m_send_failed; eauto.
Qed.

Lemma m_send_checked c hh q : GP hh q -> presQ q (send_checked_with cfg rec c hh q).
Proof.
  intros Hg s Hs. unfold send_checked_with. unfold bind at 1.
  pose proof (Isend c hh q Hg s Hs) as H1.
  destruct (mod_send c hh q s) as [[r h'] s1|e s1]; [|exact H1]. destruct H1 as [H1 (n & En)]. cbn [fst snd] in *.
  assert (Hg' : GP h' q) by (rewrite En; apply GPcount; exact Hg).
  destruct r.
  - exact (presQ_seq q _ _ (m_set_mod c (fun m => mm_drops m 0)) (presQ_ret q h' Hg') s1 H1).
  - exact (presQ_seq q _ _ (m_on_conn_err c h' q Hg') (presQ_ret q h' Hg') s1 H1).
  - exact (presQ_seq q _ _ (m_on_conn_err c h' q Hg') (presQ_ret q h' Hg') s1 H1).
Qed.

Lemma m_deliver q hh c : GP hh q -> presQ q (deliver_with cfg rec q hh c).
Proof.
  intros Hg. unfold deliver_with. apply presQ_getk. intros s0.
  destruct (negb _); [apply presQ_ret; exact Hg|]. destruct (zmem c (wl s0)).
  - destruct (dest_filter _ _ _); [apply m_send_checked; exact Hg|apply presQ_ret; exact Hg].
  - destruct (m_logger _); [destruct (m_closed _); [apply presQ_crash|apply m_send_checked; exact Hg]|].
    apply presQ_seq; [apply m_set_mod|]. apply presQ_seq; [eapply m_send_failed; eauto|]. apply presQ_ret; exact Hg.
Qed.

Lemma m_deliver_loop q : forall l hh, GP hh q -> pres I (deliver_loop cfg rec q hh l).
Proof.
  induction l as [|c r IH]; intros hh Hg; cbn [deliver_loop]; [apply pres_ret|].
  apply (presQ_bind q); [apply m_deliver; exact Hg|]. intros hh' Hg'. apply IH. exact Hg'.
Qed.

Lemma m_count_msg t : pres I (count_msg cfg t).
Proof. unfold count_msg. apply m_getk. intros s0. destruct (negb _); [apply m_modify; reflexivity|apply pres_ret]. Qed.

Lemma m_forward_body h q : GP h q -> pres I (forward_body cfg rec h q).
Proof.
  intros Hg. unfold forward_body. apply pres_bind; [apply m_count_msg|]. intros _.
  destruct (bad_dest_mod _); [apply m_mlog|]. destruct (bad_dest_host _); [apply m_mlog|].
  apply m_getk. intros s0. apply m_deliver_loop. exact Hg.
Qed.

End WithRec.

Lemma m_forward : forall fuel h q, GP h q -> pres I (forward cfg fuel h q).
Proof.
  induction fuel as [|k IH]; intros h q Hg; cbn [forward]; [apply pres_crash|]. apply m_forward_body; [exact IH|exact Hg].
Qed.

End Nest2.

(* ---------- (3) no notice about a log record or a failure notice ---------- *)

(* a FAILED_MESSAGE payload about a message whose type is eligible for notices *)
Definition nn_type (q : payload) : Prop :=
  match q with PFailed _ e => zmem (h_type e) no_notice_types = false | _ => True end.

Section NoCascade.
Variable cfg : config.
Variable q0 : payload.
Variable o0 : list (Z * item).

Definition GPB (h : hdr) (q : payload) : Prop := q = q0 \/ nn_type q.
Definition okB (ci : Z * item) : Prop := match snd ci with OPay q => q = q0 \/ nn_type q | OHdr _ => True end.
Definition IB (s : mstate) : Prop := exists suf, out s = o0 ++ suf /\ Forall okB suf.

Lemma IB_out s s' : out s' = out s -> IB s -> IB s'.
Proof. intros E (suf & Ho & Hf). exists suf. rewrite E. auto. Qed.

Lemma IB_send c h q : GPB h q ->
  hoare IB (mod_send c h q) (fun r s => IB s /\ exists n, snd r = set_count h n) (fun _ => IB).
Proof.
  intros Hg s (suf & Ho & Hf). pose proof (mod_send_trace c h q s) as T.
  destruct (mod_send c h q s) as [r s'|e s']; [|destruct T]. destruct T as [Er Hcase]. split; [|eexists; exact Er].
  destruct Hcase as [E|[E|E]].
  - exists suf. rewrite E. auto.
  - exists (suf ++ [(c, OHdr (set_count h (cnt s c + 1)))]). rewrite E, Ho, app_assoc. split; [reflexivity|].
    apply Forall_app. split; [exact Hf|]. constructor; [exact I|constructor].
  - exists (suf ++ [(c, OHdr (set_count h (cnt s c + 1))); (c, OPay q)]). rewrite E, Ho, app_assoc. split; [reflexivity|].
    apply Forall_app. split; [exact Hf|]. constructor; [exact I|]. constructor; [exact Hg|constructor].
Qed.

Lemma IB_forward fuel h q : GPB h q -> pres IB (forward cfg fuel h q).
Proof.
  apply (m_forward cfg GPB); auto.
  - intros lvl. right. exact I.
  - intros m. right. exact I.
  - intros h1 q1 mid _ Hn. right. exact Hn.
  - exact IB_out.
  - exact IB_send.
Qed.

End NoCascade.

(* every FAILED_MESSAGE payload written while (hh, q) is forwarded is q itself or is about a message of a type
   eligible for notices - for any state, any budget, Ok or Crash *)
Theorem notice_payloads cfg fuel hh q s :
  exists suf, out (st (forward cfg fuel hh q s)) = out s ++ suf /\
    forall x m e, In (x, OPay (PFailed m e)) suf -> PFailed m e = q \/ zmem (h_type e) no_notice_types = false.
Proof.
  assert (H0 : IB q (out s) s) by (exists []; rewrite app_nil_r; split; [reflexivity|constructor]).
  pose proof (pres_st _ _ s (IB_forward cfg q (out s) fuel hh q (or_introl eq_refl)) H0) as (suf & Ho & Hf).
  exists suf. split; [exact Ho|]. intros x m e Hin. rewrite Forall_forall in Hf. exact (Hf _ Hin).
Qed.

(* in particular: a failure to deliver a log record or a failure notice never produces a notice about it *)
Theorem no_notice_for_notices cfg fuel hh q s :
  zmem (h_type hh) no_notice_types = true ->
  exists suf, out (st (forward cfg fuel hh q s)) = out s ++ suf /\
    forall x m e, In (x, OPay (PFailed m e)) suf -> PFailed m e = q \/ ~ same_msg hh e.
Proof.
  intros Ht. destruct (notice_payloads cfg fuel hh q s) as (suf & Ho & Hp). exists suf. split; [exact Ho|].
  intros x m e Hin. destruct (Hp x m e Hin) as [E|E]; [left; exact E|right]. intros Hs.
  pose proof (f_equal h_type Hs) as Et. simpl in Et. congruence.
Qed.

(* ---------- the notices that embed a client header ---------- *)

Definition okpayA (q : payload) : Prop := match q with PFailed _ e => h_extra e = 0 | _ => True end.
Definition GPA (h : hdr) (q : payload) : Prop := h_extra h = 0 /\ okpayA q.

(* the FAILED_MESSAGE payloads about client messages, with the connection they were written to *)
Definition nl (l : list (Z * item)) : list (Z * (Z * hdr)) :=
  flat_map (fun ci => match ci with
                      | (x, OPay (PFailed m e)) => if isc e then [(x, (m, e))] else []
                      | _ => [] end) l.

Lemma nl_app a b : nl (a ++ b) = nl a ++ nl b.
Proof. unfold nl. apply flat_map_app. Qed.

Definition NN (o0 : list (Z * item)) (L : list (Z * (Z * hdr))) (s : mstate) : Prop :=
  exists suf, out s = o0 ++ suf /\ nl suf = L.

Lemma NN_out o0 L s s' : out s' = out s -> NN o0 L s -> NN o0 L s'.
Proof. intros E (suf & Ho & Hc). exists suf. rewrite E. auto. Qed.

Lemma NN_init s : NN (out s) [] s.
Proof. exists []. rewrite app_nil_r. auto. Qed.

Lemma NN_ext o0 L s : NN o0 L s -> exists suf, out s = o0 ++ suf.
Proof. intros (suf & Ho & _). eauto. Qed.

Lemma nl_pay_A x q : okpayA q -> nl [(x, OPay q)] = [].
Proof.
  intros H. destruct q; try reflexivity. cbn [nl flat_map okpayA] in *. unfold isc. rewrite H. reflexivity.
Qed.

Lemma NN_items_A o0 L s s' x hm q : okpayA q -> NN o0 L s ->
  (out s' = out s \/ out s' = out s ++ [(x, OHdr hm)] \/ out s' = out s ++ [(x, OHdr hm); (x, OPay q)]) -> NN o0 L s'.
Proof.
  intros Hq (suf & Ho & Hc) [E|[E|E]].
  - exists suf. rewrite E. auto.
  - exists (suf ++ [(x, OHdr hm)]). rewrite E, Ho, app_assoc. split; [reflexivity|]. rewrite nl_app, Hc. apply app_nil_r.
  - exists (suf ++ [(x, OHdr hm); (x, OPay q)]). rewrite E, Ho, app_assoc. split; [reflexivity|].
    rewrite nl_app, Hc. change [(x, OHdr hm); (x, OPay q)] with ([(x, OHdr hm)] ++ [(x, OPay q)]).
    rewrite nl_app, (nl_pay_A x q Hq). apply app_nil_r.
Qed.

Lemma NN_send o0 L c h q : GPA h q ->
  hoare (NN o0 L) (mod_send c h q) (fun r s => NN o0 L s /\ exists n, snd r = set_count h n) (fun _ => NN o0 L).
Proof.
  intros [_ Hq] s Hs. pose proof (mod_send_trace c h q s) as T.
  destruct (mod_send c h q s) as [r s'|e s']; [|destruct T]. destruct T as [Er Hcase]. split; [|eexists; exact Er].
  eapply NN_items_A; eauto.
Qed.

Lemma GPA_count h q n : GPA h q -> GPA (set_count h n) q.
Proof. intros H. exact H. Qed.
Lemma GPA_log lvl : GPA (mgr_hdr (log_type lvl) SZ_RTMA_LOG 0) (PLog lvl).
Proof. split; [reflexivity|exact I]. Qed.
Lemma GPA_closed m : GPA (mgr_hdr MT_CLIENT_CLOSED SZ_CLIENT_CLOSED 0) (client_payload true m).
Proof. split; [reflexivity|exact I]. Qed.
Lemma GPA_failed h q mid : GPA h q -> zmem (h_type h) no_notice_types = false ->
  GPA (mgr_hdr MT_FAILED_MESSAGE SZ_FAILED_MESSAGE 0) (PFailed mid h).
Proof. intros [H _] _. split; [reflexivity|exact H]. Qed.

(* ---------- forwarding the notice PFailed m hh about a client message ---------- *)
Section NoticeTop.
Variable cfg : config.
Variable m : Z.
Variable hh : hdr.
Hypothesis Hiso : isc hh = true.
Variable o0 : list (Z * item).

Notation q0 := (PFailed m hh).
Notation NL := (NN o0).

(* the notice header up to the stamped sequence number *)
Definition hsameF (hf : hdr) : Prop := forall n, set_count hf n = set_count fail_hdr n.
Lemma hsameF_refl : hsameF fail_hdr.
Proof. intros n. reflexivity. Qed.
Lemma hsameF_count hf n : hsameF hf -> hsameF (set_count hf n).
Proof. intros H k. rewrite set_count_twice. apply H. Qed.
Lemma hsameF_extra hf : hsameF hf -> h_extra hf = 0.
Proof. intros H. exact (f_equal h_extra (H 0)). Qed.
Lemma hsameF_dst hf : hsameF hf -> h_dst_mod hf = 0.
Proof. intros H. exact (f_equal h_dst_mod (H 0)). Qed.
Lemma hsameF_type hf : hsameF hf -> h_type hf = MT_FAILED_MESSAGE.
Proof. intros H. exact (f_equal h_type (H 0)). Qed.

Lemma nn_rec k L h q : GPA h q -> pres (NL L) (forward cfg k h q).
Proof. exact (m_forward cfg GPA GPA_count GPA_log GPA_closed GPA_failed (NL L) (NN_out o0 L) (NN_send o0 L) k h q). Qed.

Lemma nn_on_conn_err k L x hf : h_extra hf = 0 -> pres (NL L) (on_conn_err_with cfg (forward cfg k) x hf).
Proof.
  intros He. apply (m_on_conn_err cfg GPA GPA_log GPA_closed GPA_failed (NL L) (NN_out o0 L) (forward cfg k) (nn_rec k L) x hf (PLog 0)).
  split; [exact He|exact I].
Qed.

Lemma nn_send_failed k L x hf : h_extra hf = 0 -> pres (NL L) (send_failed_with (forward cfg k) x hf).
Proof.
  intros He. apply (m_send_failed GPA GPA_failed (NL L) (forward cfg k) (nn_rec k L) x hf (PLog 0)). split; [exact He|exact I].
Qed.

Lemma nn_mlog k L lvl : pres (NL L) (mlog_with cfg (forward cfg k) lvl).
Proof. exact (m_mlog cfg GPA GPA_log (NL L) (NN_out o0 L) (forward cfg k) (nn_rec k L) lvl). Qed.

Lemma nn_remove_module k L x : pres (NL L) (remove_module_with cfg (forward cfg k) x).
Proof. exact (m_remove_module cfg GPA GPA_log GPA_closed (NL L) (NN_out o0 L) (forward cfg k) (nn_rec k L) x). Qed.

Lemma nn_set_mod L x f : pres (NL L) (set_mod x f).
Proof. exact (m_set_mod (NL L) (NN_out o0 L) x f). Qed.

Definition Post2 (L : list (Z * (Z * hdr))) (x : Z) (s' : mstate) : Prop :=
  NL L s' \/ NL (L ++ [(x, (m, hh))]) s'.

Lemma NN_items_top L s s' x hf :
  NL L s ->
  (out s' = out s \/ out s' = out s ++ [(x, OHdr hf)] \/ out s' = out s ++ [(x, OHdr hf); (x, OPay q0)]) -> Post2 L x s'.
Proof.
  intros (suf & Ho & Hc) [E|[E|E]].
  - left. exists suf. rewrite E. auto.
  - left. exists (suf ++ [(x, OHdr hf)]). rewrite E, Ho, app_assoc. split; [reflexivity|]. rewrite nl_app, Hc. apply app_nil_r.
  - right. exists (suf ++ [(x, OHdr hf); (x, OPay q0)]). rewrite E, Ho, app_assoc. split; [reflexivity|].
    rewrite nl_app, Hc. cbn [nl flat_map]. rewrite Hiso. reflexivity.
Qed.

Lemma send_checked_top2 k L hf x si : hsameF hf -> NL L si ->
  match send_checked_with cfg (forward cfg k) x hf q0 si with
  | Ok hf' s' => hsameF hf' /\ Post2 L x s'
  | Crash _ s' => Post2 L x s'
  end.
Proof.
  intros Hh HN. unfold send_checked_with. unfold bind at 1. pose proof (mod_send_trace x hf q0 si) as T.
  destruct (mod_send x hf q0 si) as [[r h'] s1|e s1]; [|destruct T]. cbn [fst snd] in *. destruct T as [Er Hcase].
  subst h'. set (n := cnt si x + 1) in *.
  assert (Hs' : hsameF (set_count hf n)) by (apply hsameF_count; exact Hh).
  assert (P1 : Post2 L x s1) by (eapply NN_items_top; eauto).
  assert (K : forall (mm : M unit), (forall L', pres (NL L') mm) ->
              match (mm ;;; ret (set_count hf n)) s1 with Ok hf' s' => hsameF hf' /\ Post2 L x s' | Crash _ s' => Post2 L x s' end).
  { intros mm Hm. unfold bind. destruct P1 as [A|A].
    - pose proof (Hm L s1 A) as B. destruct (mm s1) as [u s2|e s2]; cbn [ret]; [split; [exact Hs'|]|]; left; exact B.
    - pose proof (Hm _ s1 A) as B. destruct (mm s1) as [u s2|e s2]; cbn [ret]; [split; [exact Hs'|]|]; right; exact B. }
  destruct r.
  - apply K. intros L'. apply nn_set_mod.
  - apply K. intros L'. apply nn_on_conn_err. apply (hsameF_extra _ Hs').
  - apply K. intros L'. apply nn_on_conn_err. apply (hsameF_extra _ Hs').
Qed.

Lemma deliver_top2 k L hf x si : hsameF hf -> NL L si ->
  match deliver_with cfg (forward cfg k) q0 hf x si with
  | Ok hf' s' => hsameF hf' /\ Post2 L x s'
  | Crash _ s' => Post2 L x s'
  end.
Proof.
  intros Hh HN. unfold deliver_with. unfold bind at 1. unfold get.
  destruct (m_reg (find_mod x (mods si))); cbn [negb]; [|cbn [ret]; split; [exact Hh|left; exact HN]].
  destruct (zmem x (wl si)).
  - destruct (dest_filter _ _ _); [apply send_checked_top2; auto|cbn [ret]; split; [exact Hh|left; exact HN]].
  - destruct (m_logger (find_mod x (mods si))).
    + destruct (m_closed (find_mod x (mods si))); [left; exact HN|apply send_checked_top2; auto].
    + unfold bind at 1. unfold set_mod, modify.
      set (s1 := with_mods si (upd_mod x (fun m0 => mm_drops m0 (m_drops m0 + 1)) (mods si))).
      assert (HN1 : NL L s1) by (eapply NN_out; [|exact HN]; reflexivity).
      unfold bind at 1. pose proof (nn_send_failed k L x hf (hsameF_extra _ Hh) s1 HN1) as Hm.
      destruct (send_failed_with (forward cfg k) x hf s1) as [u s2|e s2]; cbn [ret]; [split; [exact Hh|]|]; left; exact Hm.
Qed.

(* the notices about hh written so far went to members of `done`, one each *)
Definition GoodN (done : list Z) (L : list (Z * (Z * hdr))) : Prop :=
  NoDup (map fst L) /\ forall x y, In (x, y) L -> In x done.

Lemma GoodN_mono d d' L : (forall x, In x d -> In x d') -> GoodN d L -> GoodN d' L.
Proof. intros H [A B]. split; [exact A|]. intros x y Hin. apply H. eapply B; eauto. Qed.

Lemma GoodN_step done L x s' : ~ In x done -> GoodN done L -> Post2 L x s' ->
  exists L1, NL L1 s' /\ GoodN (done ++ [x]) L1.
Proof.
  intros Hnin G [A|A].
  - exists L. split; [exact A|]. eapply GoodN_mono; [|exact G]. intros y Hy. apply in_or_app. left. exact Hy.
  - exists (L ++ [(x, (m, hh))]). split; [exact A|]. destruct G as [G1 G2]. split.
    + rewrite map_app. cbn [map fst]. apply NoDup_snoc; [exact G1|]. intros Hin. apply in_map_iff in Hin.
      destruct Hin as ([x' y] & E & Hin). cbn [fst] in E. subst x'. apply Hnin. eapply G2; eauto.
    + intros x' y Hin. apply in_app_or in Hin. apply in_or_app. destruct Hin as [Hin|[E|[]]].
      * left. eapply G2; eauto.
      * inversion E; subst. right. left. reflexivity.
Qed.

Lemma loop_top2 k : forall r hf si L done, hsameF hf -> NL L si -> GoodN done L -> NoDup r ->
  (forall x, In x r -> ~ In x done) ->
  exists L', NL L' (st (deliver_loop cfg (forward cfg k) q0 hf r si)) /\ GoodN (done ++ r) L'.
Proof.
  induction r as [|x r IH]; intros hf si L done Hh HN G Hnd Hr.
  - exists L. cbn [deliver_loop ret st]. rewrite app_nil_r. auto.
  - apply NoDup_cons_iff in Hnd. destruct Hnd as [Hnin Hnd]. pose proof (Hr x (or_introl eq_refl)) as Hxd.
    cbn [deliver_loop]. unfold bind at 1. pose proof (deliver_top2 k L hf x si Hh HN) as D.
    assert (Hmono : forall y, In y (done ++ [x]) -> In y (done ++ x :: r)).
    { intros y Hy. apply in_app_or in Hy. apply in_or_app. destruct Hy as [Hy|[->|[]]]; [left; exact Hy|right; left; reflexivity]. }
    destruct (deliver_with cfg (forward cfg k) q0 hf x si) as [hf' s1|e s1].
    + destruct D as [Hh' P1]. destruct (GoodN_step done L x s1 Hxd G P1) as (L1 & HN1 & G1).
      destruct (IH hf' s1 L1 (done ++ [x]) Hh' HN1 G1 Hnd) as (L' & HN' & G').
      { intros y Hy Hin. apply in_app_or in Hin. destruct Hin as [Hin|[->|[]]]; [exact (Hr y (or_intror Hy) Hin)|contradiction]. }
      exists L'. split; [exact HN'|]. rewrite <- app_assoc in G'. exact G'.
    + cbn [st]. destruct (GoodN_step done L x s1 Hxd G D) as (L1 & HN1 & G1).
      exists L1. split; [exact HN1|]. eapply GoodN_mono; [exact Hmono|exact G1].
Qed.

Lemma forward_top2 fuel si : NoDup (snapshot si MT_FAILED_MESSAGE) -> NL [] si ->
  exists L, NL L (st (forward cfg fuel fail_hdr q0 si)) /\ NoDup (map fst L).
Proof.
  intros Hnd HN. destruct fuel as [|k].
  { exists []. cbn [forward crash st]. split; [exact HN|constructor]. }
  change (forward cfg (Datatypes.S k) fail_hdr q0 si) with (forward_body cfg (forward cfg k) fail_hdr q0 si).
  unfold forward_body. unfold bind at 1.
  assert (E0 : exists sc, count_msg cfg (h_type fail_hdr) si = Ok tt sc /\ out sc = out si /\
                          snapshot sc MT_FAILED_MESSAGE = snapshot si MT_FAILED_MESSAGE).
  { unfold count_msg, bind, get. destruct (negb (sending_traffic si)); eexists; split; try reflexivity; split; reflexivity. }
  destruct E0 as (sc & E0 & Eo & Esn). rewrite E0.
  change (bad_dest_mod (h_dst_mod fail_hdr)) with false. change (bad_dest_host (h_dst_host fail_hdr)) with false. cbv iota.
  unfold bind at 1. unfold get. change (h_type fail_hdr) with MT_FAILED_MESSAGE. rewrite Esn.
  destruct (loop_top2 k (snapshot si MT_FAILED_MESSAGE) fail_hdr sc [] [] hsameF_refl (NN_out _ _ _ _ Eo HN)) as (L & HNL & [G1 _]).
  - split; [constructor|intros x y []].
  - exact Hnd.
  - intros x _ [].
  - exists L. auto.
Qed.

End NoticeTop.

(* ---------- counting the notices about (m, e) on a connection ---------- *)

Definition is_notice (m : Z) (e : hdr) (it : item) : bool :=
  match it with OPay (PFailed m' e') => (m' =? m) && hdr_eqb e' e | _ => false end.

Lemma is_notice_true m e it : is_notice m e it = true -> it = OPay (PFailed m e).
Proof.
  destruct it as [h'|[| m' e' | | | | |]]; cbn [is_notice]; try discriminate. intros H. apply andb_true_iff in H. destruct H as [A B].
  apply Z.eqb_eq in A. apply hdr_eqb_spec in B. subst. reflexivity.
Qed.

Lemma is_notice_self m e : is_notice m e (OPay (PFailed m e)) = true.
Proof. cbn [is_notice]. rewrite Z.eqb_refl. apply hdr_eqb_spec. reflexivity. Qed.

Lemma nl_cons x it r :
  nl ((x, it) :: r) = (match it with OPay (PFailed m e) => if isc e then [(x, (m, e))] else [] | _ => [] end) ++ nl r.
Proof. reflexivity. Qed.

Lemma nl_absent_proj m e g suf : isc e = true ->
  ~ In g (map fst (nl suf)) -> filter (is_notice m e) (proj g suf) = [].
Proof.
  intros Hi. induction suf as [|[x it] r IH]; intros Hnin; [reflexivity|]. cbn [proj].
  assert (Hr : ~ In g (map fst (nl r))).
  { intros Hin. apply Hnin. rewrite nl_cons, map_app. apply in_or_app. right. exact Hin. }
  destruct (x =? g) eqn:E; [|apply IH; exact Hr]. apply Z.eqb_eq in E. subst x. cbn [filter].
  destruct (is_notice m e it) eqn:En; [|apply IH; exact Hr]. exfalso. apply Hnin.
  rewrite (is_notice_true m e it En), nl_cons, Hi. cbn [app map fst]. left. reflexivity.
Qed.

Lemma nl_nodup_once m e g suf : isc e = true ->
  NoDup (map fst (nl suf)) -> (length (filter (is_notice m e) (proj g suf)) <= 1)%nat.
Proof.
  intros Hi. induction suf as [|[x it] r IH]; intros Hnd; [cbn; lia|]. rewrite nl_cons, map_app in Hnd.
  assert (Hndr : NoDup (map fst (nl r))).
  { destruct it as [h'|[| m' e' | | | | |]]; try exact Hnd. destruct (isc e'); [|exact Hnd]. cbn [app map fst] in Hnd. apply NoDup_cons_iff in Hnd. tauto. }
  cbn [proj]. destruct (x =? g) eqn:E; [|apply IH; exact Hndr]. apply Z.eqb_eq in E. subst x. cbn [filter].
  destruct (is_notice m e it) eqn:En; [|apply IH; exact Hndr].
  rewrite (is_notice_true m e it En), Hi in Hnd. cbn [app map fst] in Hnd. apply NoDup_cons_iff in Hnd. destruct Hnd as [Hnin _].
  rewrite (nl_absent_proj m e g r Hi Hnin). cbn. lia.
Qed.

(* exactly one notice about (m, e), one whole FAILED_MESSAGE frame *)
Definition notice_once (m : Z) (e : hdr) (g : Z) (suf : list (Z * item)) : Prop :=
  (exists a n b, suf = a ++ [(g, OHdr (set_count fail_hdr n)); (g, OPay (PFailed m e))] ++ b /\
                 filter (is_notice m e) (proj g a) = [] /\ filter (is_notice m e) (proj g b) = []) /\
  length (filter (is_notice m e) (proj g suf)) = 1%nat.

Lemma notice_split m e g a n b :
  filter (is_notice m e) (proj g (a ++ [(g, OHdr (set_count fail_hdr n)); (g, OPay (PFailed m e))] ++ b)) =
  filter (is_notice m e) (proj g a) ++ [OPay (PFailed m e)] ++ filter (is_notice m e) (proj g b).
Proof.
  rewrite !proj_app, !filter_app. cbn [proj]. rewrite Z.eqb_refl. cbn [filter app]. rewrite is_notice_self. reflexivity.
Qed.

Lemma notice_from m e g a n b :
  (length (filter (is_notice m e) (proj g (a ++ [(g, OHdr (set_count fail_hdr n)); (g, OPay (PFailed m e))] ++ b))) <= 1)%nat ->
  notice_once m e g (a ++ [(g, OHdr (set_count fail_hdr n)); (g, OPay (PFailed m e))] ++ b).
Proof.
  intros Hle. unfold notice_once. rewrite notice_split in *. rewrite !app_length in *. cbn [length] in *.
  assert (Ha : filter (is_notice m e) (proj g a) = []) by (destruct (filter (is_notice m e) (proj g a)); [reflexivity|cbn [length] in Hle; lia]).
  assert (Hb : filter (is_notice m e) (proj g b) = []) by (destruct (filter (is_notice m e) (proj g b)); [reflexivity|cbn [length] in Hle; lia]).
  split; [exists a, n, b; auto|]. rewrite Ha, Hb. reflexivity.
Qed.

(* ---------- the notice reaches the healthy subscriber ---------- *)
Section NServed.
Variable cfg : config.
Variable m : Z.
Variable hh : hdr.
Hypothesis Hiso : isc hh = true.
Variable g : Z.
Variable s0 : mstate.
Hypothesis Hwl : zmem g (wl s0) = true.

Notation q0 := (PFailed m hh).

Lemma Post2_ext o0 L x s' : Post2 m hh o0 L x s' -> exists suf, out s' = o0 ++ suf.
Proof. intros [A|A]; eapply NN_ext; eauto. Qed.

Lemma ext_loop2 k o0 : forall r hf si L, hsameF hf -> NN o0 L si ->
  exists suf, out (st (deliver_loop cfg (forward cfg k) q0 hf r si)) = o0 ++ suf.
Proof.
  induction r as [|x r IH]; intros hf si L Hh HN; [cbn [deliver_loop ret st]; eapply NN_ext; eauto|].
  cbn [deliver_loop]. unfold bind at 1. pose proof (deliver_top2 cfg m hh Hiso o0 k L hf x si Hh HN) as D.
  destruct (deliver_with cfg (forward cfg k) q0 hf x si) as [hf' s1|e s1].
  - destruct D as [Hh' [A|A]]; eapply IH; eauto.
  - cbn [st]. eapply Post2_ext; eauto.
Qed.

Lemma nserved_loop k : forall r hf si s', hsameF hf -> Stays g s0 si -> In g r ->
  deliver_loop cfg (forward cfg k) q0 hf r si = Ok tt s' ->
  exists a n b, out s' = out si ++ a ++ [(g, OHdr (set_count fail_hdr n)); (g, OPay q0)] ++ b /\ Stays g s0 s'.
Proof.
  assert (Hrec : forall hm pm, pres (Stays g s0) (forward cfg k hm pm)) by (intros; apply k_forward).
  induction r as [|x r IH]; intros hf si s' Hh HS Hin E; [destruct Hin|].
  cbn [deliver_loop] in E. unfold bind at 1 in E.
  pose proof (k_deliver cfg g s0 (forward cfg k) Hrec q0 hf x si HS) as KS.
  destruct (Z.eq_dec x g) as [->|Hne].
  - pose proof HS as (A & B & C & D & Em & El & Ew & Es).
    assert (Hr : ready si g) by (unfold ready; rewrite Ew; auto).
    assert (Ed : deliver_with cfg (forward cfg k) q0 hf g si = Ok (set_count hf (cnt si g + 1)) (after_send hf q0 si g)).
    { unfold deliver_with. unfold bind at 1. unfold get. rewrite B. cbn [negb]. rewrite Ew, Hwl.
      rewrite (hsameF_dst hf Hh). change (dest_filter 0 (m_mod_id (find_mod g (mods si))) (m_logger (find_mod g (mods si)))) with true.
      cbv iota. apply send_checked_exact. exact Hr. }
    rewrite Ed in E, KS.
    pose proof (k_deliver_loop cfg g s0 (forward cfg k) Hrec q0 r (set_count hf (cnt si g + 1)) (after_send hf q0 si g) KS) as KS'.
    destruct (ext_loop2 k (out (after_send hf q0 si g)) r (set_count hf (cnt si g + 1)) (after_send hf q0 si g) []
                (hsameF_count hf _ Hh) (NN_init _)) as (b & Hb).
    rewrite E in KS', Hb. cbn [st] in Hb.
    exists [], (cnt si g + 1), b. split; [|exact KS'].
    rewrite Hb. change (out (after_send hf q0 si g)) with (out si ++ frame_for hf q0 si g). unfold frame_for.
    rewrite (Hh (cnt si g + 1)). rewrite <- app_assoc. reflexivity.
  - destruct Hin as [->|Hin]; [contradiction|].
    pose proof (deliver_top2 cfg m hh Hiso (out si) k [] hf x si Hh (NN_init si)) as D.
    destruct (deliver_with cfg (forward cfg k) q0 hf x si) as [hf' s1|e s1]; [|discriminate E].
    destruct D as [Hh' P1]. destruct (Post2_ext _ _ _ _ P1) as (a1 & Ha1).
    destruct (IH hf' s1 s' Hh' KS Hin E) as (a & n & b & Ho & HS').
    exists (a1 ++ a), n, b. split; [|exact HS']. rewrite Ho, Ha1, <- !app_assoc. reflexivity.
Qed.

Lemma nserved_core fuel s1 s' : Stays g s0 s1 -> In g (snapshot s1 MT_FAILED_MESSAGE) ->
  forward cfg fuel fail_hdr q0 s1 = Ok tt s' ->
  exists a n b, out s' = out s1 ++ a ++ [(g, OHdr (set_count fail_hdr n)); (g, OPay q0)] ++ b /\ Stays g s0 s'.
Proof.
  intros HS Hin E. destruct fuel as [|k]; [discriminate E|].
  change (forward cfg (Datatypes.S k) fail_hdr q0 s1) with (forward_body cfg (forward cfg k) fail_hdr q0 s1) in E.
  unfold forward_body in E. unfold bind at 1 in E.
  assert (E0 : exists sc, count_msg cfg (h_type fail_hdr) s1 = Ok tt sc /\ out sc = out s1 /\ Stays g s0 sc /\
                          snapshot sc MT_FAILED_MESSAGE = snapshot s1 MT_FAILED_MESSAGE).
  { unfold count_msg, bind, get. destruct (negb (sending_traffic s1)).
    - eexists. split; [reflexivity|]. split; [reflexivity|]. split; [|reflexivity]. revert HS. apply Stays_ext; auto.
    - exists s1. auto. }
  destruct E0 as (sc & E0 & Eo & HSc & Esn). rewrite E0 in E.
  change (bad_dest_mod (h_dst_mod fail_hdr)) with false in E. change (bad_dest_host (h_dst_host fail_hdr)) with false in E. cbv iota in E.
  unfold bind at 1 in E. unfold get in E. change (h_type fail_hdr) with MT_FAILED_MESSAGE in E. rewrite Esn in E.
  destruct (nserved_loop k (snapshot s1 MT_FAILED_MESSAGE) fail_hdr sc s' (hsameF_refl) HSc Hin E) as (a & n & b & Ho & HS').
  exists a, n, b. split; [rewrite Ho, Eo; reflexivity|exact HS'].
Qed.

(* the common last step of both cases: the notice is forwarded from a state s2 in which nothing about hh has been
   written yet and g is still what it was in s0 *)
Lemma notice_finish X fuel s2 s' :
  RegInvX X s2 -> NN (out s0) [] s2 -> Stays g s0 s2 -> In g (snapshot s2 MT_FAILED_MESSAGE) ->
  forward cfg fuel fail_hdr q0 s2 = Ok tt s' ->
  exists suf, out s' = out s0 ++ suf /\ notice_once m hh g suf /\ still_healthy g s0 s'.
Proof.
  intros H2 HN HS Hin E.
  destruct (nserved_core fuel s2 s' HS Hin E) as (a & n & b & Ho & HS').
  destruct (forward_top2 cfg m hh Hiso (out s0) fuel s2 (snapshot_NoDup X s2 MT_FAILED_MESSAGE H2 ltac:(discriminate)) HN) as (L & HNL & Hnd).
  rewrite E in HNL. cbn [st] in HNL. destruct HNL as (suf & Hsuf & Hnl). destruct (NN_ext _ _ _ HN) as (pre & Hpre).
  assert (Etot : out s' = out s0 ++ (pre ++ a) ++ [(g, OHdr (set_count fail_hdr n)); (g, OPay q0)] ++ b).
  { rewrite Ho, Hpre, <- !app_assoc. reflexivity. }
  rewrite Etot in Hsuf. apply app_inv_head in Hsuf. subst suf.
  eexists. split; [exact Etot|]. split; [|apply Stays_still; exact HS'].
  apply notice_from. apply nl_nodup_once; [exact Hiso|]. rewrite Hnl. exact Hnd.
Qed.

End NServed.

(* ---------- (1) and (2): the two ways a recipient can fail ---------- *)
From Mgr Require Import Proofs.LoopExact.

Lemma isc_of_extra hh : h_extra hh <> 0 -> isc hh = true.
Proof. intros H. unfold isc. apply negb_true_iff. lia. Qed.

Theorem notice_reaches_healthy_blocked cfg fuel p hh c s X g hh' s' :
  RegInvX X s -> h_extra hh <> 0 -> zmem (h_type hh) no_notice_types = false ->
  is_blocked s c = true ->
  In g (snapshot s MT_FAILED_MESSAGE) -> zmem g (wl s) = true -> flookup g (faults s) = None ->
  deliver_with cfg (forward cfg fuel) p hh c s = Ok hh' s' ->
  hh' = hh /\
  exists suf, out s' = out s ++ suf /\ notice_once (m_mod_id (find_mod c (mods s))) hh g suf /\ still_healthy g s s'.
Proof.
  intros H Hext Ht Hb Hin Hwl Hf E. pose proof (isc_of_extra hh Hext) as Hiso.
  unfold is_blocked in Hb. apply andb_true_iff in Hb. destruct Hb as [Hb Hlg]. apply andb_true_iff in Hb. destruct Hb as [Hreg Hw].
  apply negb_true_iff in Hlg. apply negb_true_iff in Hw.
  unfold deliver_with in E. unfold bind at 1 in E. unfold get in E. rewrite Hreg, Hw, Hlg in E. cbn [negb] in E.
  unfold bind at 1 in E. unfold set_mod, modify in E.
  set (s1 := with_mods s (upd_mod c (fun m0 => mm_drops m0 (m_drops m0 + 1)) (mods s))) in *.
  unfold bind at 1 in E. unfold send_failed_with in E. rewrite Ht in E. unfold bind at 1 in E. unfold get in E.
  unfold send_mgr_with in E. change (mgr_hdr MT_FAILED_MESSAGE SZ_FAILED_MESSAGE 0) with fail_hdr in E.
  assert (Em : m_mod_id (find_mod c (mods s1)) = m_mod_id (find_mod c (mods s))).
  { unfold s1. cbn [mods with_mods]. apply (find_upd_field m_mod_id); intro; reflexivity. }
  rewrite Em in E.
  destruct (forward cfg fuel fail_hdr (PFailed (m_mod_id (find_mod c (mods s))) hh) s1) as [[] s2|e s2] eqn:Ef; [|discriminate E].
  cbn [ret] in E. inversion E; subst hh' s'. split; [reflexivity|].
  pose proof (J_set_drops X c (fun m0 => m_drops m0 + 1) s H) as HJ. unfold set_mod, modify in HJ. fold s1 in HJ. destruct HJ as [H1 _].
  assert (S1 : Stays g s s1).
  { apply (k_set_keep g s c (fun m0 => mm_drops m0 (m_drops m0 + 1)) (fun _ => conj eq_refl (conj eq_refl (conj eq_refl eq_refl))) (fun _ => eq_refl) s).
    eapply Stays_init; eauto. }
  apply (notice_finish cfg _ hh Hiso g s Hwl X fuel s1 s2); auto.
  eapply NN_out; [|apply NN_init]. reflexivity.
Qed.

Theorem notice_reaches_healthy_failing cfg fuel p hh c s X g hh' s' :
  RegInvX X s -> h_extra hh <> 0 -> zmem (h_type hh) no_notice_types = false ->
  In c (snapshot s (h_type hh)) -> is_failing (h_dst_mod hh) s c = true ->
  In g (snapshot s MT_FAILED_MESSAGE) -> zmem g (wl s) = true -> flookup g (faults s) = None ->
  deliver_with cfg (forward cfg fuel) p hh c s = Ok hh' s' ->
  hh' = set_count hh (cnt s c + 1) /\
  exists suf, out s' = out s ++ suf /\
    notice_once (m_mod_id (find_mod c (mods s))) (set_count hh (cnt s c + 1)) g suf /\ still_healthy g s s' /\
    m_reg (find_mod c (mods s')) = false.
Proof.
  intros H Hext Ht Hc Hfl Hin Hwl Hf E. pose proof (isc_of_extra hh Hext) as Hiso.
  unfold is_failing in Hfl. apply andb_true_iff in Hfl. destruct Hfl as [Hfl Hex]. apply andb_true_iff in Hfl. destruct Hfl as [Hfl Hdf].
  apply andb_true_iff in Hfl. destruct Hfl as [Hreg Hwlc]. apply exhausted_spec in Hex. unfold eligible in Hdf.
  destruct (snapshot_wants X s _ c H Hc) as (_ & Hopen & _). pose proof (snapshot_not_inflight X s _ c H Hc) as HcX.
  assert (Hgc : c <> g) by (intro; subst g; destruct Hex as (n & En & _); congruence).
  set (rec := forward cfg fuel) in *.
  assert (HrecJ : forall Y h0 q, J Y (rec h0 q)) by (intros; apply J_forward).
  assert (HrecK : forall h0 q, pres (Stays g s) (rec h0 q)) by (intros; apply k_forward).
  unfold deliver_with in E. unfold bind at 1 in E. unfold get in E. rewrite Hreg, Hwlc, Hdf in E. cbn [negb] in E.
  unfold send_checked_with in E. unfold bind at 1 in E. rewrite (mod_send_fail c hh p s Hopen Hex) in E. cbn [fst snd] in E.
  fold (bumped s c) in E. set (hh1 := set_count hh (cnt s c + 1)) in *.
  unfold bind at 1 in E. unfold on_conn_err_with in E. unfold bind at 1 in E.
  (* facts about the state after the counter bump *)
  pose proof (J_set_count X c (cnt s c + 1) s H) as HJ0. unfold set_mod, modify in HJ0. fold (bumped s c) in HJ0. destruct HJ0 as [H0b F0b].
  assert (S0b : Stays g s (bumped s c)).
  { apply (k_set_keep g s c (fun m0 => mm_count m0 (cnt s c + 1)) (fun _ => conj eq_refl (conj eq_refl (conj eq_refl eq_refl))) (fun _ => eq_refl) s).
    eapply Stays_init; eauto. }
  assert (N0b : NN (out s) [] (bumped s c)) by (eapply NN_out; [|apply NN_init]; reflexivity).
  (* the removal *)
  pose proof (remove_module_post cfg rec HrecJ X c HcX (bumped s c) H0b) as HJm.
  pose proof (k_remove_module cfg g s rec HrecK c Hgc (bumped s c) S0b) as Sm.
  pose proof (nn_remove_module cfg (out s) fuel [] c (bumped s c) N0b) as Nm. fold rec in Nm.
  destruct (remove_module_with cfg rec c (bumped s c)) as [um sm|e sm]; [|discriminate E]. destruct HJm as (Hm & Fm & Hunreg).
  (* the log record *)
  unfold bind at 1 in E.
  pose proof (J_mlog cfg rec HrecJ X 40 sm Hm) as HJ2. pose proof (k_mlog cfg g s rec HrecK 40 sm Sm) as S2.
  pose proof (nn_mlog cfg (out s) fuel [] 40 sm Nm) as N2. fold rec in N2.
  destruct (mlog_with cfg rec 40 sm) as [u2 s2|e s2]; [|discriminate E]. destruct HJ2 as [H2 F2].
  (* the notice *)
  unfold send_failed_with in E. change (h_type hh1) with (h_type hh) in E. rewrite Ht in E. unfold bind at 1 in E. unfold get in E.
  unfold send_mgr_with in E. change (mgr_hdr MT_FAILED_MESSAGE SZ_FAILED_MESSAGE 0) with fail_hdr in E.
  assert (Em : m_mod_id (find_mod c (mods s2)) = m_mod_id (find_mod c (mods s))).
  { rewrite (fm_mod_id _ _ (Frame_find sm s2 c F2)), (fm_mod_id _ _ (Frame_find (bumped s c) sm c Fm)).
    unfold bumped. cbn [mods with_mods]. apply (find_upd_field m_mod_id); intro; reflexivity. }
  rewrite Em in E.
  pose proof (J_forward cfg fuel X fail_hdr (PFailed (m_mod_id (find_mod c (mods s))) hh1) s2 H2) as HJ3. fold rec in HJ3.
  destruct (rec fail_hdr (PFailed (m_mod_id (find_mod c (mods s))) hh1) s2) as [[] s3|e s3] eqn:Ef; [|discriminate E].
  cbn [ret] in E. inversion E; subst hh' s'. split; [reflexivity|]. destruct HJ3 as [_ F3].
  destruct (notice_finish cfg (m_mod_id (find_mod c (mods s))) hh1 Hiso g s Hwl X fuel s2 s3 H2 N2 S2 (Stays_snapshot g s s2 _ S2 Hin) Ef)
    as (suf & Ho & Hn & Hh).
  exists suf. split; [exact Ho|]. split; [exact Hn|]. split; [exact Hh|].
  destruct (m_reg (find_mod c (mods s3))) eqn:Er; [|reflexivity].
  pose proof (fm_reg _ _ (Frame_find s2 s3 c F3) Er) as Er2. pose proof (fm_reg _ _ (Frame_find sm s2 c F2) Er2) as Erm. congruence.
Qed.

(* ---------- at every reachable state ---------- *)

Theorem notice_reaches_healthy_blocked_reachable cfg fuel es u s k p hh c g hh' s' :
  run cfg fuel es = Ok u s -> h_extra hh <> 0 -> zmem (h_type hh) no_notice_types = false ->
  is_blocked s c = true ->
  In g (snapshot s MT_FAILED_MESSAGE) -> zmem g (wl s) = true -> flookup g (faults s) = None ->
  deliver_with cfg (forward cfg k) p hh c s = Ok hh' s' ->
  hh' = hh /\
  exists suf, out s' = out s ++ suf /\ notice_once (m_mod_id (find_mod c (mods s))) hh g suf /\ still_healthy g s s'.
Proof.
  intros Hrun. pose proof (run_safe cfg fuel es) as R. rewrite Hrun in R. destruct R as (R & _).
  apply notice_reaches_healthy_blocked with (X := []). exact R.
Qed.

Theorem notice_reaches_healthy_failing_reachable cfg fuel es u s k p hh c g hh' s' :
  run cfg fuel es = Ok u s -> h_extra hh <> 0 -> zmem (h_type hh) no_notice_types = false ->
  In c (snapshot s (h_type hh)) -> is_failing (h_dst_mod hh) s c = true ->
  In g (snapshot s MT_FAILED_MESSAGE) -> zmem g (wl s) = true -> flookup g (faults s) = None ->
  deliver_with cfg (forward cfg k) p hh c s = Ok hh' s' ->
  hh' = set_count hh (cnt s c + 1) /\
  exists suf, out s' = out s ++ suf /\
    notice_once (m_mod_id (find_mod c (mods s))) (set_count hh (cnt s c + 1)) g suf /\ still_healthy g s s' /\
    m_reg (find_mod c (mods s')) = false.
Proof.
  intros Hrun. pose proof (run_safe cfg fuel es) as R. rewrite Hrun in R. destruct R as (R & _).
  apply notice_reaches_healthy_failing with (X := []). exact R.
Qed.

(* ---------- a blocked recipient stays blocked until its turn ----------
   a registered connection that is not writable and is not a logger is never written to, hence never removed, by
   forward_message or anything it re-enters *)
Section KeepB.
Variable cfg : config.
Variable c : Z.
Variable s0 : mstate.
Hypothesis Hnw : zmem c (wl s0) = false.

Definition Blk (s : mstate) : Prop :=
  m_reg (find_mod c (mods s)) = true /\ m_logger (find_mod c (mods s)) = false /\
  m_mod_id (find_mod c (mods s)) = m_mod_id (find_mod c (mods s0)) /\ wl s = wl s0.

Lemma Blk_ext s s' :
  m_reg (find_mod c (mods s')) = m_reg (find_mod c (mods s)) -> m_logger (find_mod c (mods s')) = m_logger (find_mod c (mods s)) ->
  m_mod_id (find_mod c (mods s')) = m_mod_id (find_mod c (mods s)) -> wl s' = wl s -> Blk s -> Blk s'.
Proof. intros E1 E2 E3 E4 (A & B & C & D). unfold Blk. rewrite E1, E2, E3, E4. auto. Qed.

Lemma b_getk {A} (k : mstate -> M A) : (forall s1, pres Blk (k s1)) -> pres Blk (bind get k).
Proof. intros H s Hs. unfold bind, get. apply H; auto. Qed.

Lemma b_set_keep c' f :
  (forall m, m_reg (f m) = m_reg m /\ m_logger (f m) = m_logger m /\ m_mod_id (f m) = m_mod_id m) -> conn_pres f ->
  pres Blk (set_mod c' f).
Proof.
  intros Hf Hc. unfold set_mod. apply pres_modify. intros s. apply Blk_ext; cbn [mods wl with_mods]; auto;
    apply (find_upd_field _ c' c f); auto; intro m; destruct (Hf m) as (A & B & C); auto.
Qed.

Lemma b_set_other c' f : conn_pres f -> c' <> c -> pres Blk (set_mod c' f).
Proof.
  intros Hc Hne. unfold set_mod. apply pres_modify. intros s.
  assert (E : find_mod c (mods (with_mods s (upd_mod c' f (mods s)))) = find_mod c (mods s)).
  { cbn [mods with_mods]. apply find_upd_other; auto. }
  apply Blk_ext; try (rewrite E; reflexivity); auto.
Qed.

Lemma b_modify_plain f : (forall s, mods (f s) = mods s /\ wl (f s) = wl s) -> pres Blk (modify f).
Proof. intros H. apply pres_modify. intros s. destruct (H s) as (A & B). apply Blk_ext; rewrite ?A, ?B; auto. Qed.

Lemma b_sendall c' it : pres Blk (sendall c' it).
Proof.
  intros s Hs. destruct (sendall_cases c' it s) as [[_ E]|[(_ & _ & E)|(_ & f' & E & _)]]; rewrite E; [exact Hs|exact Hs|].
  revert Hs. apply Blk_ext; auto.
Qed.

Lemma b_mod_send c' hh p : pres Blk (mod_send c' hh p).
Proof.
  intros s Hs. rewrite mod_send_eq. cbv zeta.
  set (s1 := with_mods s (upd_mod c' (fun m => mm_count m (m_count (find_mod c' (mods s)) + 1)) (mods s))).
  assert (H1 : Blk s1).
  { exact (b_set_keep c' (fun m => mm_count m (m_count (find_mod c' (mods s)) + 1)) (fun _ => conj eq_refl (conj eq_refl eq_refl)) (fun _ => eq_refl) s Hs). }
  pose proof (b_sendall c' (OHdr (set_count hh (m_count (find_mod c' (mods s)) + 1))) s1 H1) as H2.
  destruct (sendall c' (OHdr _) s1) as [[| |] s2|e s2]; try exact H2.
  pose proof (b_sendall c' (OPay p) s2 H2) as H3. destruct (sendall c' (OPay p) s2) as [r s3|e s3]; exact H3.
Qed.

Section WithRec.
Variable rec : hdr -> payload -> M unit.
Hypothesis Hrec : forall hm pm, pres Blk (rec hm pm).

Lemma b_mlog lvl : pres Blk (mlog_with cfg rec lvl).
Proof.
  intros s Hs. unfold mlog_with. destruct ((loglevel cfg <=? lvl) && rtma_log s); [|exact Hs].
  pose proof (Hrec (mgr_hdr (log_type lvl) SZ_RTMA_LOG 0) (PLog lvl) s Hs) as H.
  destruct (rec (mgr_hdr (log_type lvl) SZ_RTMA_LOG 0) (PLog lvl) s) as [u s'|e s']; [exact H|].
  destruct e; try exact H; (revert H; apply Blk_ext; auto).
Qed.

Lemma b_send_failed c' hh : pres Blk (send_failed_with rec c' hh).
Proof. unfold send_failed_with. destruct (zmem (h_type hh) no_notice_types); [apply pres_ret|]. apply b_getk. intros s1. apply Hrec. Qed.

Lemma b_remove_module c' : c' <> c -> pres Blk (remove_module_with cfg rec c').
Proof.
  intros Hne. unfold remove_module_with. apply b_getk. intros s1.
  destruct (negb (m_reg (find_mod c' (mods s1)))); [apply pres_ret|].
  apply pres_bind; [apply b_modify_plain; intros; cbn; auto|]. intros _.
  apply pres_bind; [apply b_modify_plain; intros; cbn; auto|]. intros _.
  apply pres_bind; [apply b_set_other; [intro; reflexivity|exact Hne]|]. intros _.
  apply pres_bind; [apply b_mlog|]. intros _.
  apply b_getk. intros s2. apply pres_bind; [apply Hrec|]. intros _.
  apply b_getk. intros s3. destruct (m_reg _); [apply b_set_other; [intro; reflexivity|exact Hne]|apply pres_crash].
Qed.

Lemma b_on_conn_err c' hh : c' <> c -> pres Blk (on_conn_err_with cfg rec c' hh).
Proof.
  intros Hne. unfold on_conn_err_with. apply pres_bind; [apply b_remove_module; exact Hne|]. intros _.
  apply pres_bind; [apply b_mlog|]. intros _. apply b_send_failed.
Qed.

Lemma b_send_checked c' hh p : c' <> c -> pres Blk (send_checked_with cfg rec c' hh p).
Proof.
  intros Hne. unfold send_checked_with. apply pres_bind; [apply b_mod_send|]. intros [r h']. cbn [fst snd]. destruct r.
  - apply pres_bind; [apply b_set_keep; [intro; auto|intro; reflexivity]|]. intros _. apply pres_ret.
  - apply pres_bind; [apply b_on_conn_err; exact Hne|]. intros _. apply pres_ret.
  - apply pres_bind; [apply b_on_conn_err; exact Hne|]. intros _. apply pres_ret.
Qed.

(* c itself always takes the drop branch *)
Lemma b_deliver p hh c' : pres Blk (deliver_with cfg rec p hh c').
Proof.
  intros s Hs. pose proof Hs as (A & B & C & D). unfold deliver_with. unfold bind at 1. unfold get.
  destruct (m_reg (find_mod c' (mods s))) eqn:Er; cbn [negb]; [|exact Hs].
  assert (Kdrop : pres Blk (set_mod c' (fun m => mm_drops m (m_drops m + 1)) ;;; send_failed_with rec c' hh ;;; ret hh)).
  { apply pres_bind; [apply b_set_keep; [intro; auto|intro; reflexivity]|]. intros _.
    apply pres_bind; [apply b_send_failed|]. intros _. apply pres_ret. }
  destruct (Z.eq_dec c' c) as [->|Hne].
  - rewrite D, Hnw, B. exact (Kdrop s Hs).
  - destruct (zmem c' (wl s)).
    + destruct (dest_filter _ _ _); [exact (b_send_checked c' hh p Hne s Hs)|exact Hs].
    + destruct (m_logger (find_mod c' (mods s))); [|exact (Kdrop s Hs)].
      destruct (m_closed (find_mod c' (mods s))); [exact Hs|exact (b_send_checked c' hh p Hne s Hs)].
Qed.

Lemma b_deliver_loop p : forall l hh, pres Blk (deliver_loop cfg rec p hh l).
Proof.
  induction l as [|c' r IH]; intros hh; cbn [deliver_loop]; [apply pres_ret|].
  apply pres_bind; [apply b_deliver|]. intros hh'. apply IH.
Qed.

Lemma b_forward_body h p : pres Blk (forward_body cfg rec h p).
Proof.
  unfold forward_body. apply pres_bind.
  { unfold count_msg. apply b_getk. intros s1. destruct (negb _); [apply b_modify_plain; intros; cbn; auto|apply pres_ret]. }
  intros _. destruct (bad_dest_mod _); [apply b_mlog|]. destruct (bad_dest_host _); [apply b_mlog|].
  apply b_getk. intros s1. apply b_deliver_loop.
Qed.

End WithRec.

(* blocked_stays *)
Lemma b_forward : forall fuel h p, pres Blk (forward cfg fuel h p).
Proof.
  induction fuel as [|k IH]; intros h p; cbn [forward]; [apply pres_crash|]. apply b_forward_body. exact IH.
Qed.

End KeepB.

(* ---------- at the level of forward_message: a recipient that is blocked when the message is published ---------- *)
Section FwdBlocked.
Variable cfg : config.
Variable p : payload.
Variable h : hdr.
Hypothesis Hext : h_extra h <> 0.
Hypothesis Hnn : zmem (h_type h) no_notice_types = false.
Variable X : list Z.
Variable c g : Z.
Variable s0 : mstate.
Hypothesis Hnw : zmem c (wl s0) = false.
Hypothesis Hgw : zmem g (wl s0) = true.
Hypothesis Hgs : In g (snapshot s0 MT_FAILED_MESSAGE).

Lemma hsame_extra hf : hsame h hf -> h_extra hf <> 0.
Proof. intros H. pose proof (f_equal h_extra (H 0)) as E. simpl in E. congruence. Qed.
Lemma hsame_type hf : hsame h hf -> h_type hf = h_type h.
Proof. intros H. exact (f_equal h_type (H 0)). Qed.

Lemma notice_loop k : forall r hf si s',
  hsame h hf -> RegInvX X si -> Stays g s0 si -> Blk c s0 si -> (forall x, In x r -> ~ In x X) -> In c r ->
  deliver_loop cfg (forward cfg k) p hf r si = Ok tt s' ->
  exists a n e b,
    out s' = out si ++ a ++ [(g, OHdr (set_count fail_hdr n)); (g, OPay (PFailed (m_mod_id (find_mod c (mods s0))) e))] ++ b /\
    same_msg h e /\ Stays g s0 s'.
Proof.
  assert (HrecK : forall hm pm, pres (Stays g s0) (forward cfg k hm pm)) by (intros; apply k_forward).
  assert (HrecB : forall hm pm, pres (Blk c s0) (forward cfg k hm pm)) by (intros; apply b_forward; exact Hnw).
  induction r as [|x r IH]; intros hf si s' Hh H HS HB HX Hin E; [destruct Hin|].
  cbn [deliver_loop] in E. unfold bind at 1 in E.
  pose proof (k_deliver cfg g s0 (forward cfg k) HrecK p hf x si HS) as KS.
  pose proof (b_deliver cfg c s0 Hnw (forward cfg k) HrecB p hf x si HB) as KB.
  pose proof (J_deliver cfg (forward cfg k) (J_forward cfg k) X p hf x (HX x (or_introl eq_refl)) si H) as HJ.
  pose proof (deliver_top cfg p h Hext (out si) k [] hf x si Hh (N_init p si)) as D.
  destruct (deliver_with cfg (forward cfg k) p hf x si) as [hf' s1|e1 s1] eqn:Ed; [|discriminate E].
  destruct D as [Hh' P1]. destruct HJ as [H1 F1].
  destruct (Z.eq_dec x c) as [->|Hne].
  - (* c's turn: it is still blocked, g is still healthy and subscribed *)
    pose proof HB as (B1 & B2 & B3 & B4). pose proof HS as (_ & _ & _ & G4 & _ & _ & G7 & _).
    assert (Hblk : is_blocked si c = true) by (unfold is_blocked; rewrite B1, B2, B4, Hnw; reflexivity).
    destruct (notice_reaches_healthy_blocked cfg k p hf c si X g hf' s1 H (hsame_extra hf Hh)
                ltac:(rewrite (hsame_type hf Hh); exact Hnn) Hblk (Stays_snapshot g s0 si _ HS Hgs)
                ltac:(rewrite G7; exact Hgw) G4 Ed) as (-> & suf1 & Ho1 & ((a & n & b & Es & _ & _) & _) & _).
    destruct (ext_loop cfg p h Hext k (out s1) r hf s1 [] Hh (N_init p s1)) as (L' & HN').
    pose proof (k_deliver_loop cfg g s0 (forward cfg k) HrecK p r hf s1 KS) as KS'.
    rewrite E in HN', KS'. cbn [st] in HN'. destruct (N_ext p _ _ _ HN') as (b2 & Hb2).
    exists a, n, hf, (b ++ b2). split; [|split; [exact (Hh 0)|exact KS']].
    rewrite Hb2, Ho1, Es, B3, <- !app_assoc. reflexivity.
  - destruct Hin as [->|Hin]; [contradiction|].
    destruct (Post_N p h _ _ _ _ _ P1) as (L1 & HN1). destruct (N_ext p _ _ _ HN1) as (a1 & Ha1).
    destruct (IH hf' s1 s' Hh' H1 KS KB (fun y Hy => HX y (or_intror Hy)) Hin E) as (a & n & e & b & Ho & Hsm & HS').
    exists (a1 ++ a), n, e, b. split; [|auto]. rewrite Ho, Ha1, <- !app_assoc. reflexivity.
Qed.

End FwdBlocked.

(* a recipient of the published message that is not writable (and not a logger) is reported to every healthy
   subscriber of FAILED_MESSAGE, as one whole frame naming it and embedding the published header as last stamped -
   whatever happens to the recipients served before it *)
Theorem forward_notice_blocked cfg fuel hh p s X c g s' :
  RegInvX X s -> h_extra hh <> 0 -> zmem (h_type hh) no_notice_types = false ->
  bad_dest_mod (h_dst_mod hh) = false -> bad_dest_host (h_dst_host hh) = false ->
  In c (snapshot s (h_type hh)) -> is_blocked s c = true ->
  In g (snapshot s MT_FAILED_MESSAGE) -> zmem g (wl s) = true -> flookup g (faults s) = None ->
  forward cfg fuel hh p s = Ok tt s' ->
  exists a n e b,
    out s' = out s ++ a ++ [(g, OHdr (set_count fail_hdr n)); (g, OPay (PFailed (m_mod_id (find_mod c (mods s))) e))] ++ b /\
    same_msg hh e /\ still_healthy g s s'.
Proof.
  intros H Hext Hnn Hm Hh Hc Hb Hg Hgw Hgf E.
  unfold is_blocked in Hb. apply andb_true_iff in Hb. destruct Hb as [Hb Hlg]. apply andb_true_iff in Hb. destruct Hb as [Hreg Hw].
  apply negb_true_iff in Hlg. apply negb_true_iff in Hw.
  destruct fuel as [|k]; [discriminate E|].
  change (forward cfg (Datatypes.S k) hh p s) with (forward_body cfg (forward cfg k) hh p s) in E.
  unfold forward_body in E. unfold bind at 1 in E.
  assert (HS : Stays g s s) by (eapply Stays_init; eauto).
  assert (HB : Blk c s s) by (unfold Blk; auto).
  assert (E0 : exists sc, count_msg cfg (h_type hh) s = Ok tt sc /\ out sc = out s /\ RegInvX X sc /\ Stays g s sc /\ Blk c s sc /\
                          snapshot sc (h_type hh) = snapshot s (h_type hh)).
  { unfold count_msg, bind, get. destruct (negb (sending_traffic s)).
    - eexists. split; [reflexivity|]. split; [reflexivity|]. split; [exact H|]. split; [revert HS; apply Stays_ext; auto|].
      split; [revert HB; apply Blk_ext; auto|reflexivity].
    - exists s. auto 10. }
  destruct E0 as (sc & E0 & Eo & Hsc & HSc & HBc & Esn). rewrite E0, Hm, Hh in E. unfold bind at 1 in E. unfold get in E. rewrite Esn in E.
  destruct (notice_loop cfg p hh Hext Hnn X c g s Hw Hgw Hg k (snapshot s (h_type hh)) hh sc s' (hsame_refl hh) Hsc HSc HBc
              (fun x Hx => snapshot_not_inflight X s _ x H Hx) Hc E) as (a & n & e & b & Ho & Hsm & HS').
  exists a, n, e, b. split; [rewrite Ho, Eo; reflexivity|]. split; [exact Hsm|apply Stays_still; exact HS'].
Qed.

Theorem forward_notice_blocked_reachable cfg fuel es u s k hh p c g s' :
  run cfg fuel es = Ok u s -> h_extra hh <> 0 -> zmem (h_type hh) no_notice_types = false ->
  bad_dest_mod (h_dst_mod hh) = false -> bad_dest_host (h_dst_host hh) = false ->
  In c (snapshot s (h_type hh)) -> is_blocked s c = true ->
  In g (snapshot s MT_FAILED_MESSAGE) -> zmem g (wl s) = true -> flookup g (faults s) = None ->
  forward cfg k hh p s = Ok tt s' ->
  exists a n e b,
    out s' = out s ++ a ++ [(g, OHdr (set_count fail_hdr n)); (g, OPay (PFailed (m_mod_id (find_mod c (mods s))) e))] ++ b /\
    same_msg hh e /\ still_healthy g s s'.
Proof.
  intros Hrun. pose proof (run_safe cfg fuel es) as R. rewrite Hrun in R. destruct R as (R & _).
  apply forward_notice_blocked with (X := []). exact R.
Qed.

(* ---------- non-vacuity, with a failing FAILED_MESSAGE subscriber in it ----------
   The example of Proofs/LoopExact.v with a sixth connection subscribed to FAILED_MESSAGE whose writes fail: conn 1 a
   logger subscribed to everything (healthy), conn 2 the publisher, conns 3 (healthy), 4 (not writable), 5 (failing)
   subscribed to type 100, conn 6 (failing) subscribed to FAILED_MESSAGE and served BEFORE conn 1.  One publish of
   type 100: the notice about conn 4 first goes to conn 6, fails, conn 6 is removed inside that delivery (its
   CLIENT_CLOSED reaches conn 1) - and conn 1 still gets exactly one notice naming module 13 (conn 4) and exactly one
   naming module 14 (conn 5), each as a whole FAILED_MESSAGE frame. *)
Definition nx_hist : list event :=
  [ERound true [] [] 0; ERound true [] [] 0; ERound true [] [] 0; ERound true [] [] 0; ERound true [] [] 0; ERound true [] [] 0;
   ERound false [(1, IFrame (lx_hdr MT_CONNECT 10) (InConnect 1 0)); (2, IFrame (lx_hdr MT_CONNECT 11) (InConnect 0 0));
                 (3, IFrame (lx_hdr MT_CONNECT 12) (InConnect 0 0)); (4, IFrame (lx_hdr MT_CONNECT 13) (InConnect 0 0));
                 (5, IFrame (lx_hdr MT_CONNECT 14) (InConnect 0 0)); (6, IFrame (lx_hdr MT_CONNECT 15) (InConnect 0 0))] [1;2;3;4;5;6] 0;
   ERound false [(1, IFrame (lx_hdr MT_SUBSCRIBE 10) (InSub ALL_MESSAGE_TYPES)); (4, IFrame (lx_hdr MT_SUBSCRIBE 13) (InSub 100));
                 (5, IFrame (lx_hdr MT_SUBSCRIBE 14) (InSub 100)); (6, IFrame (lx_hdr MT_SUBSCRIBE 15) (InSub MT_FAILED_MESSAGE))] [1;2;3;4;5;6] 0;
   ERound false [(3, IFrame (lx_hdr MT_SUBSCRIBE 12) (InSub 100))] [1;2;3;5;6] 0;
   EFault 5 0; EFault 6 0].

Example notice_served_ex :
  match run lx_cfg 20%nat nx_hist with
  | Ok _ s =>
    ((snapshot s 100, snapshot s MT_FAILED_MESSAGE, map (fun c => (is_blocked s c, is_failing 0 s c)) [4; 5]),
     (zmem 1 (wl s), flookup 1 (faults s), flookup 6 (faults s), negb (h_extra lx_msg =? 0), zmem (h_type lx_msg) no_notice_types),
     match forward lx_cfg 3 lx_msg (PData 5 1) s with
     | Ok _ s' =>
       let suf := skipn (length (out s)) (out s') in
       (map (fun ci => (fst ci, match snd ci with OHdr h' => h_type h' | OPay (PFailed m e) => 1000 + m | OPay _ => -1 end)) suf,
        (length (filter (is_notice 13 (set_count lx_msg 3)) (proj 1 suf)), length (filter (is_notice 14 (set_count lx_msg 3)) (proj 1 suf))),
        map (fun c => m_reg (find_mod c (mods s'))) [1; 2; 3; 4; 5; 6])
     | Crash _ _ => ([], (0%nat, 0%nat), [])
     end,
     match forward lx_cfg 2 lx_msg (PData 5 1) s with Crash XFuel _ => true | _ => false end)
  | Crash _ _ => (([], [], []), (false, None, None, false, true), ([], (0%nat, 0%nat), []), false)
  end =
  (([3; 4; 5; 1], [6; 1], [(true, false); (false, true)]),
   (true, None, Some 0, true, false),
   ([(3, 100); (3, -1); (1, MT_CLIENT_CLOSED); (1, -1); (1, MT_FAILED_MESSAGE); (1, 1013);
     (1, MT_CLIENT_CLOSED); (1, -1); (1, MT_FAILED_MESSAGE); (1, 1014); (1, 100); (1, -1)],
    (1%nat, 1%nat), [true; true; true; true; false; false]),
   true).
Proof. vm_compute. reflexivity. Qed.

