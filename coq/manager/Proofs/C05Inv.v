(* C05: the stream written to every connection is H P H P ... (possibly ending in a lone header
   on a dead connection) and its sequence numbers are 1, 2, ..., n - for every history. *)
From Coq Require Import ZArith List Bool Lia ZifyBool.
From Mgr Require Import Gen.MgrDefs Model.Manager Proofs.ListLemmas Proofs.Hoare Proofs.RegInv Proofs.OutInv.
Import ListNotations.
Open Scope Z_scope.

Fixpoint proj (c : Z) (o : list (Z * item)) : list item :=
  match o with [] => [] | (c', it) :: r => if c' =? c then it :: proj c r else proj c r end.

Definition hcounts (l : list item) : list Z :=
  flat_map (fun it => match it with OHdr h => [h_count h] | OPay _ => [] end) l.

Fixpoint seqZ (start : Z) (n : nat) : list Z :=
  match n with O => [] | S k => start :: seqZ (start + 1) k end.

(* framing automaton: a header opens a frame and declares a size; only a payload of exactly that size closes it *)
Inductive fstate := FIdle | FHdr (declared : Z) | FBad.
Definition fstep (q : fstate) (it : item) : fstate :=
  match q, it with
  | FIdle, OHdr h => FHdr (h_nbytes h)
  | FHdr n, OPay p => if pay_size p =? n then FIdle else FBad
  | _, _ => FBad
  end.
Definition framing (l : list item) : fstate := fold_left fstep l FIdle.

Definition dead (s : mstate) (c : Z) : Prop :=
  m_closed (find_mod c (mods s)) = true \/ exists k, flookup c (faults s) = Some k /\ k <= 0.

Record CInv (s : mstate) : Prop := {
  ci_pos : forall m, In m (mods s) -> 0 <= m_conn m <= next_uid s;
  ci_absent : forall c, (forall m, In m (mods s) -> m_conn m <> c) -> proj c (out s) = [];
  ci_conn : forall c,
    let l := proj c (out s) in
    hcounts l = seqZ 1 (length (hcounts l)) /\ framing l <> FBad /\
    ((m_count (find_mod c (mods s)) = Z.of_nat (length (hcounts l)) /\ framing l = FIdle) \/ dead s c);
  ci_uid : 0 <= next_uid s
}.

(* ---- list facts ---- *)
Lemma proj_app c a b : proj c (a ++ b) = proj c a ++ proj c b.
Proof. induction a as [|[c' it] r IH]; simpl; auto. destruct (c' =? c); simpl; rewrite IH; reflexivity. Qed.

Lemma hcounts_app a b : hcounts (a ++ b) = hcounts a ++ hcounts b.
Proof. unfold hcounts. apply flat_map_app. Qed.

Lemma seqZ_snoc : forall n start, seqZ start (S n) = seqZ start n ++ [start + Z.of_nat n].
Proof.
  induction n as [|n IH]; intros start.
  - simpl. f_equal. lia.
  - change (seqZ start (S (S n))) with (start :: seqZ (start + 1) (S n)). rewrite IH.
    change (seqZ start (S n)) with (start :: seqZ (start + 1) n). simpl. f_equal. f_equal. f_equal. lia.
Qed.

Lemma framing_snoc l x : framing (l ++ [x]) = fstep (framing l) x.
Proof. unfold framing. rewrite fold_left_app. reflexivity. Qed.


Lemma flookup_fset c c' v l : flookup c' (fset c v l) = if c' =? c then Some v else flookup c' l.
Proof.
  induction l as [|[k w] r IH]; simpl.
  - destruct (c' =? c); reflexivity.
  - destruct (c =? k) eqn:E; simpl.
    + apply Z.eqb_eq in E. subst k. destruct (c' =? c); reflexivity.
    + destruct (c' =? k) eqn:E2.
      * apply Z.eqb_eq in E2. subst k. destruct (c' =? c) eqn:E3; [apply Z.eqb_eq in E3; subst; rewrite Z.eqb_refl in E; discriminate|reflexivity].
      * exact IH.
Qed.

(* ---- the view determines what CInv looks at ---- *)
Lemma mview_find c : forall l l', map mview l' = map mview l -> mview (find_mod c l') = mview (find_mod c l).
Proof.
  induction l as [|m r IH]; intros [|m' r'] H; cbn [map find_mod] in *; try discriminate; auto.
  unfold mview at 1 3 in H. injection H as H1 H2 H3 H4.
  rewrite H1. destruct (m_conn m =? c); auto. unfold mview. congruence.
Qed.

Lemma mview_In l l' m' : map mview l' = map mview l -> In m' l' -> exists m, In m l /\ mview m = mview m'.
Proof.
  intros H Hin. assert (Hi : In (mview m') (map mview l)) by (rewrite <- H; apply in_map; exact Hin).
  apply in_map_iff in Hi. destruct Hi as (m & E & Hm). exists m. auto.
Qed.

Lemma CInv_view s s' : view s' = view s -> CInv s -> CInv s'.
Proof.
  unfold view. intros E [P A C U]. inversion E as [[E1 E2 E3 E4]]. constructor; [| | |rewrite E4; exact U].
  - intros m' Hin. destruct (mview_In _ _ _ E3 Hin) as (m & Hm & Ev). specialize (P m Hm).
    unfold mview in Ev. inversion Ev. rewrite E4. lia.
  - intros c Hc. rewrite E1. apply A. intros m Hm Hcc.
    symmetry in E3. destruct (mview_In _ _ _ E3 Hm) as (m' & Hm' & Ev). apply (Hc m' Hm').
    unfold mview in Ev. inversion Ev. congruence.
  - intros c. cbv zeta. rewrite E1. destruct (C c) as (C1 & C2 & C3). split; [exact C1|]. split; [exact C2|].
    pose proof (mview_find c _ _ E3) as Ef. unfold mview in Ef. inversion Ef as [[F1 F2 F3]].
    destruct C3 as [[C3 C4]|[D|(k & D1 & D2)]].
    + left. split; [congruence|exact C4].
    + right. left. congruence.
    + right. right. exists k. rewrite E2. auto.
Qed.

(* the sendall primitive on a connection, in terms of what it appends *)
Lemma sendall_cases c it s :
  (m_closed (find_mod c (mods s)) = true /\ sendall c it s = Ok SOSErr s) \/
  (m_closed (find_mod c (mods s)) = false /\ (exists k, flookup c (faults s) = Some k /\ k <= 0) /\ sendall c it s = Ok SConnErr s) \/
  (m_closed (find_mod c (mods s)) = false /\
   exists f', sendall c it s = Ok SOk (with_out s (out s ++ [(c, it)]) f') /\
              (forall c', c' <> c -> flookup c' f' = flookup c' (faults s)) /\
              ~ (exists k, flookup c (faults s) = Some k /\ k <= 0)).
Proof.
  unfold sendall. destruct (m_closed (find_mod c (mods s))) eqn:Ec; [left; auto|right].
  destruct (flookup c (faults s)) as [n|] eqn:Ef.
  - destruct (n <=? 0) eqn:En.
    + left. split; auto. split; [exists n; split; [reflexivity|lia]|reflexivity].
    + right. split; auto. exists (fset c (n - 1) (faults s)). split; [reflexivity|]. split.
      * intros c' Hne. rewrite flookup_fset. destruct (c' =? c) eqn:E; [lia|reflexivity].
      * intros (k & Hk & Hk0). inversion Hk. subst. lia.
  - right. split; auto. exists (faults s). split; [reflexivity|]. split; [auto|].
    intros (k & Hk & _). discriminate.
Qed.

Lemma proj_snoc_same c it o : proj c (o ++ [(c, it)]) = proj c o ++ [it].
Proof. rewrite proj_app. simpl. rewrite Z.eqb_refl. reflexivity. Qed.

Lemma proj_snoc_other c c' it o : c' <> c -> proj c' (o ++ [(c, it)]) = proj c' o.
Proof. intros H. rewrite proj_app. simpl. destruct (c =? c') eqn:E; [lia|]. apply app_nil_r. Qed.

Lemma mod_send_eq c h p s :
  mod_send c h p s =
  let n := m_count (find_mod c (mods s)) + 1 in
  let s1 := with_mods s (upd_mod c (fun m => mm_count m n) (mods s)) in
  match sendall c (OHdr (set_count h n)) s1 with
  | Ok SOk s2 => match sendall c (OPay p) s2 with
                 | Ok r2 s3 => Ok (r2, set_count h n) s3
                 | Crash e s3 => Crash e s3
                 end
  | Ok r1 s2 => Ok (r1, set_count h n) s2
  | Crash e s2 => Crash e s2
  end.
Proof.
  unfold mod_send, bind, seq, get, set_mod, modify, ret. cbv zeta.
  destruct (sendall c _ _) as [[| |] s2|e s2]; try reflexivity.
Qed.

Lemma CInv_mod_send c h p : sized h p -> pres CInv (mod_send c h p).
Proof.
  intros Hz s Hs. rewrite mod_send_eq. cbv zeta.
  set (n := m_count (find_mod c (mods s)) + 1).
  set (s1 := with_mods s (upd_mod c (fun m => mm_count m n) (mods s))).
  destruct Hs as [P A C U].
  (* facts about lookups in s1 *)
  assert (Kc : conn_pres (fun m => mm_count m n)) by (intro; reflexivity).
  assert (Hmods1 : forall m', In m' (mods s1) -> exists m, In m (mods s) /\ m_conn m' = m_conn m).
  { intros m' Hin. unfold s1 in Hin. simpl in Hin. apply In_upd_mod in Hin.
    destruct Hin as [Hin|(m & Hin & _ & ->)]; eauto. }
  assert (Hmods1' : forall m, In m (mods s) -> exists m', In m' (mods s1) /\ m_conn m' = m_conn m).
  { intros m Hin. assert (Hi : In (m_conn m) (map m_conn (mods s1))).
    { unfold s1. simpl. rewrite map_conn_upd; auto. apply in_map. exact Hin. }
    apply in_map_iff in Hi. destruct Hi as (m' & E & Hm'). eauto. }
  assert (Hfind1 : forall c', let m' := find_mod c' (mods s1) in let m := find_mod c' (mods s) in
             m_closed m' = m_closed m /\ (c' <> c -> m_count m' = m_count m) /\
             (c' = c -> m_closed m = false -> m_count m' = n)).
  { intros c'. cbv zeta. unfold s1. simpl. destruct (Z_le_gt_dec 0 c) as [Hc0|Hc0].
    - rewrite (find_upd c c' _ (mods s) Kc Hc0). destruct (c' =? c) eqn:E.
      + apply Z.eqb_eq in E. subst c'. destruct (m_conn (find_mod c (mods s)) =? c) eqn:E2.
        * simpl. repeat split; auto; congruence.
        * destruct (find_mod_cases c (mods s)) as [Hd|[_ Hd]].
          -- rewrite Hd. simpl. repeat split; auto; try congruence.
          -- rewrite Hd, Z.eqb_refl in E2. discriminate.
      + apply Z.eqb_neq in E. repeat split; auto; congruence.
    - rewrite upd_mod_absent.
      + repeat split; auto. intros -> Ho. exfalso. apply find_mod_open_In in Ho. destruct Ho as [Hi Hcc].
        specialize (P _ Hi). lia.
      + intros m Hin E. specialize (P _ Hin). lia. }
  (* first sendall: the header *)
  destruct (sendall_cases c (OHdr (set_count h n)) s1) as [[Hcl E]|[[Hop [Hex E]]|[Hop (f' & E & Hf' & Hnex)]]]; rewrite E.
  - (* closed: nothing written; c is dead *)
    simpl. constructor; [| | |exact U].
    + intros m' Hin. destruct (Hmods1 m' Hin) as (m & Hm & ->). exact (P m Hm).
    + intros c0 Hc0. apply A. intros m Hm. destruct (Hmods1' m Hm) as (m' & Hm' & <-). apply Hc0; auto.
    + intros c0. cbv zeta. change (out s1) with (out s). destruct (C c0) as (C1 & C2 & C3).
      split; [exact C1|]. split; [exact C2|]. destruct (Hfind1 c0) as (F1 & F2 & F3).
      destruct (Z.eq_dec c0 c) as [->|Hne].
      * right. left. exact Hcl.
      * destruct C3 as [[C3 C4]|[D|D]]; [left; split; [rewrite F2; auto|exact C4]|right; left; congruence|right; right; exact D].
  - (* fault plan exhausted: nothing written; c is dead *)
    simpl. constructor; [| | |exact U].
    + intros m' Hin. destruct (Hmods1 m' Hin) as (m & Hm & ->). exact (P m Hm).
    + intros c0 Hc0. apply A. intros m Hm. destruct (Hmods1' m Hm) as (m' & Hm' & <-). apply Hc0; auto.
    + intros c0. cbv zeta. change (out s1) with (out s). destruct (C c0) as (C1 & C2 & C3).
      split; [exact C1|]. split; [exact C2|]. destruct (Hfind1 c0) as (F1 & F2 & F3).
      destruct (Z.eq_dec c0 c) as [->|Hne].
      * right. right. exact Hex.
      * destruct C3 as [[C3 C4]|[D|D]]; [left; split; [rewrite F2; auto|exact C4]|right; left; congruence|right; right; exact D].
  - (* header written *)
    set (s2 := with_out s1 (out s1 ++ [(c, OHdr (set_count h n))]) f').
    assert (Hc_open : m_closed (find_mod c (mods s)) = false) by (destruct (Hfind1 c) as (F1 & _); congruence).
    assert (Hnd : ~ dead s c).
    { intros [D|D]; [congruence|]. apply Hnex. exact D. }
    destruct (C c) as (Cc1 & Cc2 & Cc3). destruct Cc3 as [[Cc3 Cc4]|D]; [|contradiction].
    assert (Hn : n = Z.of_nat (length (hcounts (proj c (out s)))) + 1) by (unfold n; lia).
    (* invariant after the header, with framing FHdr on c *)
    assert (Hmid : (forall m', In m' (mods s2) -> 0 <= m_conn m' <= next_uid s2) /\
                   (forall c0, (forall m, In m (mods s2) -> m_conn m <> c0) -> proj c0 (out s2) = []) /\
                   (forall c0, c0 <> c -> let l := proj c0 (out s2) in
                      hcounts l = seqZ 1 (length (hcounts l)) /\ framing l <> FBad /\
                      ((m_count (find_mod c0 (mods s2)) = Z.of_nat (length (hcounts l)) /\ framing l = FIdle) \/ dead s2 c0)) /\
                   (let l := proj c (out s2) in
                      hcounts l = seqZ 1 (length (hcounts l)) /\ framing l = FHdr (h_nbytes h) /\
                      m_count (find_mod c (mods s2)) = Z.of_nat (length (hcounts l)))).
    { split; [|split; [|split]].
      - intros m' Hin. destruct (Hmods1 m' Hin) as (m & Hm & ->). exact (P m Hm).
      - intros c0 Hc0. change (out s2) with (out s ++ [(c, OHdr (set_count h n))]).
        assert (c0 <> c).
        { intro; subst c0. apply find_mod_open_In in Hc_open. destruct Hc_open as [Hi Hcc].
          destruct (Hmods1' _ Hi) as (m' & Hm' & E'). apply (Hc0 m' Hm'). congruence. }
        rewrite proj_snoc_other; auto. apply A. intros m Hm. destruct (Hmods1' m Hm) as (m' & Hm' & <-). apply Hc0; auto.
      - intros c0 Hne. cbv zeta. change (out s2) with (out s ++ [(c, OHdr (set_count h n))]).
        rewrite proj_snoc_other; auto. destruct (C c0) as (C1 & C2 & C3). split; [exact C1|]. split; [exact C2|].
        destruct (Hfind1 c0) as (F1 & F2 & _). change (mods s2) with (mods s1).
        destruct C3 as [[C3 C4]|[D|(k & D1 & D2)]].
        + left. split; [rewrite F2; auto|exact C4].
        + right. left. unfold dead. change (mods s2) with (mods s1). congruence.
        + right. right. exists k. change (faults s2) with f'. rewrite Hf'; auto.
      - cbv zeta. change (out s2) with (out s ++ [(c, OHdr (set_count h n))]). rewrite proj_snoc_same.
        rewrite hcounts_app, framing_snoc, Cc4. simpl. rewrite app_length. simpl.
        replace (length (hcounts (proj c (out s))) + 1)%nat with (S (length (hcounts (proj c (out s))))) by lia.
        rewrite seqZ_snoc, <- Cc1. split; [f_equal; f_equal; lia|]. split; [reflexivity|].
        destruct (Hfind1 c) as (_ & _ & F3). specialize (F3 eq_refl Hc_open). unfold s1 in F3. simpl in F3. rewrite F3. lia. }
    destruct Hmid as (M1 & M2 & M3 & M4). cbv zeta in M4. destruct M4 as (M4a & M4b & M4c).
    destruct (sendall_cases c (OPay p) s2) as [[Hcl E2]|[[Hop2 [Hex2 E2]]|[Hop2 (f'' & E2 & Hf'' & Hnex2)]]]; rewrite E2; cbv beta iota.
    + (* cannot be closed: mods unchanged since the header *)
      exfalso. change (mods s2) with (mods s1) in Hcl. congruence.
    + (* payload write fails: lone header, c is dead (plan exhausted) *)
      constructor; [exact M1|exact M2| |exact U]. intros c0. destruct (Z.eq_dec c0 c) as [->|Hne]; [|apply M3; exact Hne].
      cbv zeta. split; [exact M4a|]. split; [rewrite M4b; discriminate|]. right. right. exact Hex2.
    + (* whole frame written *)
      set (s3 := with_out s2 (out s2 ++ [(c, OPay p)]) f'').
      constructor; [| | |exact U].
      * exact M1.
      * intros c0 Hc0. change (out s3) with (out s2 ++ [(c, OPay p)]).
        assert (c0 <> c).
        { intro; subst c0. apply find_mod_open_In in Hop2. destruct Hop2 as [Hi Hcc]. apply (Hc0 _ Hi). exact Hcc. }
        rewrite proj_snoc_other; auto.
      * intros c0. cbv zeta. change (out s3) with (out s2 ++ [(c, OPay p)]). change (mods s3) with (mods s2).
        destruct (Z.eq_dec c0 c) as [->|Hne].
        -- rewrite proj_snoc_same, hcounts_app, framing_snoc, M4b. simpl. rewrite app_nil_r.
           unfold sized in Hz. rewrite Hz, Z.eqb_refl.
           split; [exact M4a|]. split; [discriminate|]. left. split; [exact M4c|reflexivity].
        -- rewrite proj_snoc_other; auto. destruct (M3 c0 Hne) as (N1 & N2 & N3). split; [exact N1|]. split; [exact N2|].
           destruct N3 as [N3|[D|(k & D1 & D2)]]; [left; exact N3|right; left; exact D|].
           right. right. exists k. change (faults s3) with f''. rewrite Hf''; auto.
Qed.

(* ---- closing a connection ---- *)
Lemma CInv_close c : pres CInv (set_mod c mm_close).
Proof.
  unfold set_mod. apply pres_modify. intros s [P A C U].
  assert (Kc : conn_pres mm_close) by (intro; reflexivity).
  set (l' := upd_mod c mm_close (mods s)).
  assert (Hf : forall c', m_count (find_mod c' l') = m_count (find_mod c' (mods s)) /\
                          (m_closed (find_mod c' (mods s)) = true -> m_closed (find_mod c' l') = true)).
  { intros c'. unfold l'. destruct (Z_le_gt_dec 0 c) as [Hc0|Hc0].
    - rewrite (find_upd c c' _ (mods s) Kc Hc0). destruct (c' =? c) eqn:E; [|auto].
      apply Z.eqb_eq in E. subst c'. destruct (m_conn (find_mod c (mods s)) =? c) eqn:E2; [simpl; auto|].
      destruct (find_mod_cases c (mods s)) as [Hd|[_ Hd]]; [rewrite Hd; auto|].
      rewrite Hd, Z.eqb_refl in E2. discriminate.
    - rewrite upd_mod_absent; auto. intros m Hin E. specialize (P _ Hin). lia. }
  assert (Hc : map m_conn l' = map m_conn (mods s)) by (apply map_conn_upd; exact Kc).
  constructor.
  - intros m' Hin. change (mods _) with l' in Hin. assert (Hi : In (m_conn m') (map m_conn (mods s))) by (rewrite <- Hc; apply in_map; exact Hin).
    apply in_map_iff in Hi. destruct Hi as (m & E & Hm). rewrite <- E. exact (P m Hm).
  - intros c0 Hc0. apply A. intros m Hm E. assert (Hi : In (m_conn m) (map m_conn l')) by (rewrite Hc; apply in_map; exact Hm).
    apply in_map_iff in Hi. destruct Hi as (m' & E' & Hm'). apply (Hc0 m' Hm'). congruence.
  - intros c0. cbv zeta. change (mods (with_mods s l')) with l'. change (out (with_mods s l')) with (out s).
    destruct (C c0) as (C1 & C2 & C3). split; [exact C1|]. split; [exact C2|]. destruct (Hf c0) as (F1 & F2).
    destruct C3 as [[C3 C4]|[D|D]]; [left; split; [congruence|exact C4]|right; left; apply F2; exact D|right; right; exact D].
  - exact U.
Qed.

(* ---- accepting a connection ---- *)
Lemma find_mod_app_l c l l2 : In c (map m_conn l) -> find_mod c (l ++ l2) = find_mod c l.
Proof.
  induction l as [|m r IH]; simpl; [tauto|]. intros [E|H].
  - rewrite E, Z.eqb_refl. reflexivity.
  - destruct (m_conn m =? c); auto.
Qed.

Lemma find_mod_app_r c l l2 : ~ In c (map m_conn l) -> find_mod c (l ++ l2) = find_mod c l2 /\ find_mod c l = dummy_module.
Proof.
  induction l as [|m r IH]; simpl; [auto|]. intros H.
  destruct (m_conn m =? c) eqn:E; [apply Z.eqb_eq in E; tauto|]. apply IH. tauto.
Qed.

Lemma CInv_accept s : CInv s ->
  CInv (with_uid (with_mods s (mods s ++ [new_module (next_uid s + 1)])) (next_uid s + 1)).
Proof.
  intros [P A C U]. constructor.
  - intros m Hin. simpl in Hin. apply in_app_or in Hin. destruct Hin as [Hin|[<-|[]]]; simpl; [specialize (P m Hin)|]; lia.
  - intros c Hc. simpl. apply A. intros m Hm. apply Hc. simpl. apply in_or_app. left. exact Hm.
  - intros c. cbv zeta. simpl. destruct (C c) as (C1 & C2 & C3). split; [exact C1|]. split; [exact C2|].
    destruct (in_dec Z.eq_dec c (map m_conn (mods s))) as [Hin|Hnin].
    + unfold dead. simpl. rewrite (find_mod_app_l c _ _ Hin). exact C3.
    + destruct (find_mod_app_r c _ [new_module (next_uid s + 1)] Hnin) as [E1 E2].
      assert (Hnil : proj c (out s) = []).
      { apply A. intros m Hm E. apply Hnin. rewrite <- E. apply in_map. exact Hm. }
      unfold dead. simpl. rewrite E1. simpl. destruct (next_uid s + 1 =? c) eqn:E.
      * left. rewrite Hnil. simpl. auto.
      * unfold dead in C3. rewrite E2 in C3. exact C3.
  - simpl. lia.
Qed.

(* ---- arming a fault plan ---- *)
Lemma CInv_fault c n s : CInv s -> (forall k, flookup c (faults s) = Some k -> 0 < k) ->
  CInv (with_out s (out s) (fset c n (faults s))).
Proof.
  intros [P A C U] Hk. constructor; try assumption.
  intros c0. cbv zeta. change (out (with_out _ _ _)) with (out s). change (mods (with_out s (out s) (fset c n (faults s)))) with (mods s).
  destruct (C c0) as (C1 & C2 & C3). split; [exact C1|]. split; [exact C2|].
  destruct C3 as [C3|[D|(k & D1 & D2)]]; [left; exact C3|right; left; exact D|].
  right. right. destruct (Z.eq_dec c0 c) as [->|Hne].
  - specialize (Hk k D1). lia.
  - exists k. simpl. rewrite flookup_fset. destruct (c0 =? c) eqn:E; [lia|auto].
Qed.

Lemma CInv_init : CInv init0.
Proof.
  constructor.
  - intros m [<-|[]]. simpl. lia.
  - intros c _. reflexivity.
  - intros c. cbv zeta. simpl. split; [reflexivity|]. split; [discriminate|]. left. split; [|reflexivity].
    destruct c; reflexivity.
  - simpl. lia.
Qed.

Theorem CInv_run cfg FUEL es : CInv (st (run cfg FUEL es)).
Proof.
  apply (out_invariant cfg FUEL CInv CInv_view CInv_mod_send CInv_close CInv_accept CInv_fault CInv_init).
Qed.

(* ---- readable form: a stream that frames correctly is a concatenation of whole frames ---- *)
Definition unframe (fs : list (hdr * payload)) : list item :=
  flat_map (fun f => [OHdr (fst f); OPay (snd f)]) fs.
Definition all_sized (fs : list (hdr * payload)) : Prop := forall f, In f fs -> sized (fst f) (snd f).

Lemma framing_shape l :
  match framing l with
  | FIdle => exists fs, l = unframe fs /\ all_sized fs
  | FHdr n => exists fs h, l = unframe fs ++ [OHdr h] /\ all_sized fs /\ n = h_nbytes h
  | FBad => True
  end.
Proof.
  induction l as [|x l IH] using rev_ind.
  - exists []. split; [reflexivity|intros f []].
  - rewrite framing_snoc. destruct (framing l) as [|n|]; destruct x as [h|p]; simpl; auto.
    + destruct IH as (fs & -> & Hs). exists fs, h. auto.
    + destruct IH as (fs & h & -> & Hs & ->). destruct (pay_size p =? h_nbytes h) eqn:E; [|exact I].
      exists (fs ++ [(h, p)]). split.
      * unfold unframe. rewrite flat_map_app. simpl. rewrite <- app_assoc. reflexivity.
      * intros f Hf. apply in_app_or in Hf. destruct Hf as [Hf|[<-|[]]]; [apply Hs; exact Hf|].
        unfold sized. simpl. lia.
Qed.

Lemma hcounts_unframe fs : hcounts (unframe fs) = map (fun f => h_count (fst f)) fs.
Proof. induction fs as [|[h p] r IH]; simpl; [reflexivity|]. f_equal. exact IH. Qed.

Theorem stream_frames cfg FUEL es c :
  exists fs tail, proj c (out (st (run cfg FUEL es))) = unframe fs ++ tail /\ all_sized fs /\
    map (fun f => h_count (fst f)) fs = seqZ 1 (length fs) /\
    (tail = [] \/ (exists h, tail = [OHdr h] /\ h_count h = Z.of_nat (length fs) + 1 /\ dead (st (run cfg FUEL es)) c)).
Proof.
  destruct (CInv_run cfg FUEL es) as [_ _ C _]. specialize (C c). cbv zeta in C. destruct C as (C1 & C2 & C3).
  pose proof (framing_shape (proj c (out (st (run cfg FUEL es))))) as Hs.
  destruct (framing (proj c (out (st (run cfg FUEL es))))) eqn:Ef; [| |congruence].
  - destruct Hs as (fs & E & Hz). exists fs, []. rewrite app_nil_r. split; [exact E|]. split; [exact Hz|]. split; [|left; reflexivity].
    rewrite E, hcounts_unframe, map_length in C1. exact C1.
  - destruct Hs as (fs & h & E & Hz & _). exists fs, [OHdr h]. split; [exact E|]. split; [exact Hz|].
    rewrite E, hcounts_app, hcounts_unframe in C1. simpl in C1. rewrite app_length, map_length in C1. simpl in C1.
    replace (length fs + 1)%nat with (S (length fs)) in C1 by lia. rewrite seqZ_snoc in C1.
    apply app_inj_tail in C1. destruct C1 as [C1a C1b]. split; [exact C1a|]. right. exists h. split; [reflexivity|].
    split; [lia|]. destruct C3 as [[_ C3]|D]; [discriminate|exact D].
Qed.

(* ---- append-only: nothing already written is ever changed, removed or reordered ---- *)
Definition Ext (o0 : list (Z * item)) (s : mstate) : Prop := exists suf, out s = o0 ++ suf.

Lemma Ext_view o0 s s' : view s' = view s -> Ext o0 s -> Ext o0 s'.
Proof. unfold view. intros E [suf H]. inversion E as [[E1 E2 E3 E4]]. exists suf. congruence. Qed.

Lemma Ext_sendall o0 c it : pres (Ext o0) (sendall c it).
Proof.
  intros s [suf H]. destruct (sendall_cases c it s) as [[_ E]|[[_ [_ E]]|[_ (f' & E & _)]]]; rewrite E.
  - exists suf; exact H.
  - exists suf; exact H.
  - exists (suf ++ [(c, it)]). simpl. rewrite H, app_assoc. reflexivity.
Qed.

Lemma Ext_mod_send o0 c h p : sized h p -> pres (Ext o0) (mod_send c h p).
Proof.
  intros _ s Hs. rewrite mod_send_eq. cbv zeta.
  set (s1 := with_mods s _). assert (H1 : Ext o0 s1) by exact Hs.
  pose proof (Ext_sendall o0 c (OHdr (set_count h (m_count (find_mod c (mods s)) + 1))) s1 H1) as H2.
  destruct (sendall c (OHdr _) s1) as [[| |] s2|e s2]; try exact H2.
  pose proof (Ext_sendall o0 c (OPay p) s2 H2) as H3.
  destruct (sendall c (OPay p) s2) as [r s3|e s3]; exact H3.
Qed.

Lemma Ext_close o0 c : pres (Ext o0) (set_mod c mm_close).
Proof. unfold set_mod. apply pres_modify. intros s H. exact H. Qed.

Lemma Ext_step o0 cfg FUEL e : pres (Ext o0) (step cfg FUEL e).
Proof.
  apply (ot_step cfg FUEL (Ext o0) (Ext_view o0) (Ext_mod_send o0) (Ext_close o0)).
  - intros s H. exact H.
  - intros c n s H _. exact H.
Qed.

Lemma Ext_service o0 cfg FUEL c ib : pres (Ext o0) (service cfg FUEL c ib).
Proof.
  apply (ot_service cfg FUEL (Ext o0) (Ext_view o0) (Ext_mod_send o0) (Ext_close o0)).
Qed.

Lemma run_from_app cfg FUEL : forall es1 es2 r,
  run_from cfg FUEL r (es1 ++ es2) = run_from cfg FUEL (run_from cfg FUEL r es1) es2.
Proof.
  induction es1 as [|e es1 IH]; intros es2 r; simpl.
  - destruct r as [[] s|x s]; [reflexivity|]. destruct es2; reflexivity.
  - destruct r as [u s|x s]; [apply IH|]. destruct es2; reflexivity.
Qed.

Lemma Ext_run_from o0 cfg FUEL : forall es r, Ext o0 (st r) -> Ext o0 (st (run_from cfg FUEL r es)).
Proof.
  induction es as [|e es IH]; intros r H; destruct r as [u s|x s]; simpl in *; auto.
  apply IH. apply pres_st; [apply Ext_step|exact H].
Qed.

Theorem out_append_only cfg FUEL es1 es2 :
  exists suf, out (st (run cfg FUEL (es1 ++ es2))) = out (st (run cfg FUEL es1)) ++ suf.
Proof.
  unfold run. rewrite run_from_app. apply Ext_run_from. exists []. rewrite app_nil_r. reflexivity.
Qed.
