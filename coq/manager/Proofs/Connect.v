(* connect_module: identities stay unique and in range (C06), registry invariant kept, no crash. *)
From Coq Require Import ZArith List Bool Lia.
From Mgr Require Import Gen.MgrDefs Model.Manager Proofs.ListLemmas Proofs.Hoare Proofs.RegInv Proofs.Frame
                        Proofs.RegTraverse Proofs.Assign Proofs.RegTop.
Import ListNotations.
Open Scope Z_scope.

Definition DynInv (s : mstate) : Prop := 0 <= dyn_off s < MAX_DYN_IDS.

(* every module except connection c keeps its identity *)
Record KeepX (c : Z) (s s' : mstate) : Prop := {
  kx_mods : Forall2 (fun a b => m_conn b = m_conn a /\ (m_conn a <> c -> keep_mod a b)) (mods s) (mods s');
  kx_uid : next_uid s' = next_uid s
}.

Lemma KeepX_refl c s : KeepX c s s.
Proof. constructor; auto. apply Forall2_refl. intros x. split; auto. intros _. apply keep_mod_refl. Qed.

Lemma KeepX_trans c s1 s2 s3 : KeepX c s1 s2 -> KeepX c s2 s3 -> KeepX c s1 s3.
Proof.
  intros [A1 A2] [B1 B2]. constructor; [|congruence].
  revert B1. generalize (mods s3). induction A1 as [|a b l l' [Hab1 Hab2] Hl IH]; intros l3 B1; inversion B1; subst; constructor.
  - destruct H1 as [Hbc1 Hbc2]. split; [congruence|]. intros Hne. eapply keep_mod_trans; [apply Hab2; auto|apply Hbc2; congruence].
  - apply IH. assumption.
Qed.

Lemma Keep_KeepX c s s' : Keep s s' -> KeepX c s s'.
Proof.
  intros [K1 K2 K3]. constructor; auto. induction K1; constructor; auto. split; [apply (km_conn _ _ H)|auto].
Qed.

Lemma KeepX_upd s c f : conn_pres f -> KeepX c s (with_mods s (upd_mod c f (mods s))).
Proof.
  intros Hf. constructor; simpl; auto. induction (mods s) as [|m r IH]; simpl; [constructor|].
  destruct (m_conn m =? c) eqn:E; constructor; auto.
  - split; [apply Hf|]. apply Z.eqb_eq in E. intros; congruence.
  - apply Forall2_refl. intros x; split; auto; intros; apply keep_mod_refl.
  - split; auto. intros; apply keep_mod_refl.
Qed.

Lemma KeepX_find c c' s s' : KeepX c s s' -> c' <> c -> keep_mod (find_mod c' (mods s)) (find_mod c' (mods s')).
Proof.
  intros [K _] Hne. induction K as [|a b l l' [H1 H2] Hl IH]; simpl; [apply keep_mod_refl|].
  rewrite H1. destruct (m_conn a =? c') eqn:E; [|exact IH]. apply Z.eqb_eq in E. apply H2. congruence.
Qed.

Lemma KeepX_In_r c s s' b : KeepX c s s' -> In b (mods s') -> m_conn b <> c ->
  exists a, In a (mods s) /\ keep_mod a b.
Proof.
  intros [K _] Hb Hne. destruct (Forall2_In_r _ _ _ _ K Hb) as (a & Ha & H1 & H2).
  exists a. split; auto. apply H2. congruence.
Qed.

Lemma KeepX_conn_found c s s' : KeepX c s s' -> m_conn (find_mod c (mods s')) = c -> m_conn (find_mod c (mods s)) = c.
Proof.
  intros [K _]. induction K as [|a b l l' [H1 H2] Hl IH]; simpl; auto.
  rewrite H1. destruct (m_conn a =? c) eqn:E; [intros _; apply Z.eqb_eq; exact E|exact IH].
Qed.

Section Conn.
Variable cfg : config.
Variable FUEL : nat.

Definition Cx {A} (c : Z) (m : M A) (Q : A -> mstate -> mstate -> Prop) : Prop :=
  forall s, RegInv s -> DynInv s ->
  match m s with
  | Ok a s' => RegInv s' /\ KeepX c s s' /\ DynInv s' /\ Q a s s'
  | Crash e _ => e = XFuel
  end.

Lemma Cx_of_J {A} c (m : M A) : J [] m -> Cx c m (fun _ s s' => Frame s s').
Proof.
  intros H s Hs Hd. specialize (H s Hs). destruct (m s); auto. destruct H as [H F].
  split; [exact H|]. split; [apply Keep_KeepX, Frame_Keep; exact F|].
  split; [unfold DynInv in *; rewrite (fr_dyn _ _ F); exact Hd|exact F].
Qed.

(* the scan of connect_module: what a "not refused" verdict guarantees *)
Definition no_conflict (c : Z) (me m : module) : bool :=
  (m_conn m =? c) ||
  negb (((m_mod_id m =? m_mod_id me) && (m_unique m || m_unique me)) ||
        (negb (m_name me =? 0) && (m_unique m || m_unique me) && (m_name m =? m_name me))).

Lemma connect_scan_spec c me : forall others s, RegInv s ->
  match connect_scan cfg FUEL c me others s with
  | Ok b s' => RegInv s' /\ Frame s s' /\ (b = false -> forallb (no_conflict c me) others = true) /\
               (b = true -> m_reg (find_mod c (mods s')) = false)
  | Crash e _ => e = XFuel
  end.
Proof.
  induction others as [|m r IH]; intros s H; simpl.
  - split; [exact H|]. split; [apply Frame_refl|]. split; [reflexivity|discriminate].
  - unfold no_conflict at 1. destruct (m_conn m =? c) eqn:Ec; simpl.
    + apply IH; auto.
    + destruct ((m_mod_id m =? m_mod_id me) && (m_unique m || m_unique me)) eqn:E1; simpl.
      * (* refused: id clash *)
        unfold bind at 1. pose proof (J_mlog_top cfg FUEL [] 40 s H) as Hl.
        destruct (mlog cfg FUEL 40 s) as [u s1|e s1]; [|exact Hl]. destruct Hl as [H1 F1].
        unfold bind at 1. pose proof (remove_module_post_top cfg FUEL [] c (fun x => x) s1 H1) as Hr.
        destruct (remove_module cfg FUEL c s1) as [u2 s2|e s2]; [|exact Hr]. destruct Hr as (H2 & F2 & U2).
        simpl. split; [exact H2|]. split; [eapply Frame_trans; eauto|]. split; [discriminate|intros _; exact U2].
      * destruct (negb (m_name me =? 0)) eqn:En; simpl.
        -- destruct ((m_unique m || m_unique me) && (m_name m =? m_name me)) eqn:E2; simpl.
           ++ unfold bind at 1. pose proof (J_mlog_top cfg FUEL [] 40 s H) as Hl.
              destruct (mlog cfg FUEL 40 s) as [u s1|e s1]; [|exact Hl]. destruct Hl as [H1 F1].
              unfold bind at 1. pose proof (remove_module_post_top cfg FUEL [] c (fun x => x) s1 H1) as Hr.
              destruct (remove_module cfg FUEL c s1) as [u2 s2|e s2]; [|exact Hr]. destruct Hr as (H2 & F2 & U2).
              simpl. split; [exact H2|]. split; [eapply Frame_trans; eauto|]. split; [discriminate|intros _; exact U2].
           ++ unfold bind at 1. pose proof (J_mlog_top cfg FUEL [] 10 s H) as Hl.
              destruct (mlog cfg FUEL 10 s) as [u s1|e s1]; [|exact Hl]. destruct Hl as [H1 F1].
              specialize (IH s1 H1). destruct (connect_scan cfg FUEL c me r s1) as [b s2|e s2]; [|exact IH].
              destruct IH as (H2 & F2 & Hb & Hb'). split; [exact H2|]. split; [eapply Frame_trans; eauto|].
              split; [intros Hbf; rewrite (Hb Hbf); reflexivity|exact Hb'].
        -- apply IH; auto.
Qed.


Definition uniq_against (c : Z) (s' : mstate) : Prop :=
  forall x, In x (mods s') -> live x -> m_conn x <> c ->
            m_mod_id x = m_mod_id (find_mod c (mods s')) ->
            m_unique x = false /\ m_unique (find_mod c (mods s')) = false.

Definition ConnPost (c : Z) (s' : mstate) : Prop :=
  m_reg (find_mod c (mods s')) = true ->
    - LEN_ModulePID <= m_mod_id (find_mod c (mods s')) < LEN_ModulePID /\
    (m_connected (find_mod c (mods s')) = true -> uniq_against c s').

Lemma refuse_spec c : forall s, RegInv s ->
  match (mlog cfg FUEL 40 ;;; remove_module cfg FUEL c ;;; ret true) s with
  | Ok b s' => b = true /\ RegInv s' /\ Frame s s' /\ m_reg (find_mod c (mods s')) = false
  | Crash e _ => e = XFuel
  end.
Proof.
  intros s H. unfold bind at 1. pose proof (J_mlog_top cfg FUEL [] 40 s H) as Hl.
  destruct (mlog cfg FUEL 40 s) as [u s1|e s1]; [|exact Hl]. destruct Hl as [H1 F1].
  unfold bind at 1. pose proof (remove_module_post_top cfg FUEL [] c (fun x => x) s1 H1) as Hr.
  destruct (remove_module cfg FUEL c s1) as [u2 s2|e s2]; [|exact Hr]. destruct Hr as (H2 & F2 & U2).
  simpl. split; [reflexivity|]. split; [exact H2|]. split; [eapply Frame_trans; eauto|exact U2].
Qed.

Lemma ConnPost_unreg c s : m_reg (find_mod c (mods s)) = false -> ConnPost c s.
Proof. intros H Hr. congruence. Qed.

Lemma Frame_KeepX c s s' : Frame s s' -> KeepX c s s'.
Proof. intros F. apply Keep_KeepX, Frame_Keep, F. Qed.

Lemma DynInv_Frame s s' : DynInv s -> Frame s s' -> DynInv s'.
Proof. intros H F. unfold DynInv in *. rewrite (fr_dyn _ _ F). exact H. Qed.

(* x registered in s' and not c: its counterpart is in `registered s1` with the same identity *)
Lemma registered_counterpart c s1 s' x :
  KeepX c s1 s' -> In x (mods s') -> m_reg x = true -> m_conn x <> c ->
  exists x1, In x1 (registered s1) /\ m_conn x1 = m_conn x /\ m_mod_id x1 = m_mod_id x /\ m_unique x1 = m_unique x.
Proof.
  intros K Hx Hr Hne. destruct (KeepX_In_r c s1 s' x K Hx Hne) as (x1 & Hx1 & [K1 K2 K3 K4 K5]).
  exists x1. split; [unfold registered; apply filter_In; split; auto|]. repeat split; congruence.
Qed.

(* the tail of connect_module after a verdict "not refused" *)
Definition finish_conn (c : Z) : M bool :=
  set_mod c mm_connected ;;;
  (s2 <- get ;; (if m_logger (find_mod c (mods s2)) && m_reg (find_mod c (mods s2)) then modify (fun s => with_loggers s (zinsert c (loggers s))) else ret tt) ;;;
   ret true).

Lemma connect_finish c : forall s, RegInv s -> m_connected (find_mod c (mods s)) = false \/ True ->
  match finish_conn c s with
  | Ok b s' => RegInv s' /\ KeepX c s s' /\ dyn_off s' = dyn_off s /\
               m_mod_id (find_mod c (mods s')) = m_mod_id (find_mod c (mods s)) /\
               m_unique (find_mod c (mods s')) = m_unique (find_mod c (mods s)) /\
               m_reg (find_mod c (mods s')) = m_reg (find_mod c (mods s))
  | Crash e _ => e = XFuel
  end.
Proof.
  intros s H _. unfold finish_conn. unfold bind at 1. unfold set_mod, modify.
  set (s1 := with_mods s (upd_mod c mm_connected (mods s))).
  assert (H1 : RegInv s1).
  { unfold RegInv, RegInvX, s1. simpl. apply reg_ok_connected; auto.
    intros Hr. destruct (reg_open s c H Hr) as (Ho & _). exact Ho. }
  assert (K1 : KeepX c s s1) by (apply KeepX_upd; intro; reflexivity).
  assert (Hf : let m := find_mod c (mods s) in let m' := find_mod c (mods s1) in
               m_mod_id m' = m_mod_id m /\ m_unique m' = m_unique m /\ m_reg m' = m_reg m /\ m_logger m' = m_logger m /\
               m_closed m' = m_closed m /\ (m_reg m = true -> m_connected m' = true)).
  { cbv zeta. destruct (Z_le_gt_dec 0 c) as [Hc|Hc].
    - unfold s1. simpl. rewrite find_upd_same; auto; [|intro; reflexivity].
      destruct (m_conn (find_mod c (mods s)) =? c) eqn:E; [simpl; repeat split; auto|].
      destruct (find_mod_cases c (mods s)) as [Hd|[_ Hd]]; [rewrite Hd; simpl; repeat split; auto; discriminate|].
      rewrite Hd, Z.eqb_refl in E. discriminate.
    - unfold s1. simpl. rewrite upd_mod_absent; [repeat split; auto|].
      + intros Hr. pose proof (find_mod_reg_In c _ Hr) as [Hi Hcc]. pose proof (ro_pos _ _ _ _ _ H _ Hi). lia.
      + intros m Hin E. pose proof (ro_pos _ _ _ _ _ H m Hin). lia. }
  cbv zeta in Hf. destruct Hf as (F1 & F2 & F3 & F4 & F5 & F6).
  assert (Hd1 : dyn_off s1 = dyn_off s) by reflexivity. clearbody s1.
  unfold bind at 1. unfold get. destruct (m_logger (find_mod c (mods s1)) && m_reg (find_mod c (mods s1))) eqn:Elr.
  - apply andb_true_iff in Elr. destruct Elr as [El Er].
    unfold bind at 1. simpl. split; [|split; [|split; [exact Hd1|auto]]].
    + unfold RegInv, RegInvX. simpl.
      assert (Hr0 : m_reg (find_mod c (mods s)) = true) by congruence.
      apply reg_ok_logger_add; [exact H1|exact Er| |exact El|apply F6; exact Hr0].
      rewrite F5. destruct (reg_open s c H Hr0) as (Ho & _). exact Ho.
    + constructor; [exact (kx_mods _ _ _ K1)|exact (kx_uid _ _ _ K1)].
  - simpl. split; [exact H1|]. split; [exact K1|]. split; [exact Hd1|auto].
Qed.

Lemma forallb_In {A} (f : A -> bool) l x : forallb f l = true -> In x l -> f x = true.
Proof. intros H Hin. rewrite forallb_forall in H. auto. Qed.

Lemma range_user mid : bad_user_id mid = false -> - LEN_ModulePID <= mid < LEN_ModulePID.
Proof. unfold bad_user_id. change DYN_MOD_ID_START with 100. change LEN_ModulePID with 200. lia. Qed.

Lemma range_dyn mid : DYN_MOD_ID_START <= mid < MAX_MODULES -> - LEN_ModulePID <= mid < LEN_ModulePID.
Proof. change DYN_MOD_ID_START with 100. change MAX_MODULES with 200. change LEN_ModulePID with 200. lia. Qed.


Lemma assign_spec c : forall s, RegInv s -> DynInv s ->
  match assign_module_id cfg FUEL s with
  | Ok (Some mid) s' => (exists off, s' = with_dyn s off /\ 0 <= off < MAX_DYN_IDS) /\
                        ~ In mid (map m_mod_id (registered s)) /\ DYN_MOD_ID_START <= mid < MAX_MODULES
  | Ok None s' => RegInv s' /\ KeepX c s s' /\ DynInv s'
  | Crash e _ => e = XFuel
  end.
Proof.
  intros s H Hd. unfold assign_module_id. unfold bind at 1. unfold get. cbv zeta.
  pose proof (assign_loop_spec (map m_mod_id (registered s)) (Z.to_nat MAX_DYN_IDS) (dyn_off s) Hd) as A.
  destruct (assign_loop (Z.to_nat MAX_DYN_IDS) (dyn_off s) (map m_mod_id (registered s))) as [[mid|] off'].
  - destruct A as (Afresh & Arange & Aoff). simpl. split; [exists off'; split; [reflexivity|exact Aoff]|]. split; auto.
  - destruct A as (Aoff & _ & _). unfold bind at 1. unfold modify. set (s1 := with_dyn s off').
    assert (H1 : RegInv s1) by exact H.
    unfold bind at 1. pose proof (J_mlog_top cfg FUEL [] 40 s1 H1) as Hl.
    destruct (mlog cfg FUEL 40 s1) as [u s2|e s2]; [|exact Hl]. destruct Hl as [H2 F2]. simpl.
    split; [exact H2|]. split.
    + eapply KeepX_trans; [|apply Frame_KeepX; exact F2].
      constructor; [|reflexivity]. apply Forall2_refl. intros x; split; auto; intros; apply keep_mod_refl.
    + unfold DynInv. rewrite (fr_dyn _ _ F2). exact Aoff.
Qed.

(* the second half of connect_module, from a state in which c's requested identity has been stored *)
Definition phase2 (c : Z) : M bool :=
  s1 <- get ;;
  let me := find_mod c (mods s1) in
  refused <-
    (if negb (m_mod_id me =? 0) then
       if bad_user_id (m_mod_id me) then mlog cfg FUEL 40 ;;; remove_module cfg FUEL c ;;; ret true
       else connect_scan cfg FUEL c me (registered s1)
     else
       r <- assign_module_id cfg FUEL ;;
       match r with
       | Some mid => set_mod c (fun m => mm_modid m mid) ;;; ret false
       | None => remove_module cfg FUEL c ;;; ret true
       end) ;;
  if refused then ret false else finish_conn c.

Lemma phase2_spec c : forall s, RegInv s -> DynInv s -> m_reg (find_mod c (mods s)) = true ->
  match phase2 c s with
  | Ok b s' => RegInv s' /\ KeepX c s s' /\ DynInv s' /\ ConnPost c s'
  | Crash e _ => e = XFuel
  end.
Proof.
  intros s H Hd Hreg. destruct (reg_open s c H Hreg) as (Hopen & Hc & Hin).
  pose proof (find_mod_conn_of_reg _ _ Hreg) as Hcc.
  unfold phase2. unfold bind at 1. unfold get. set (me := find_mod c (mods s)).
  destruct (negb (m_mod_id me =? 0)) eqn:Eid.
  - destruct (bad_user_id (m_mod_id me)) eqn:Ebad.
    + (* out of range: refused *)
      unfold bind at 1. pose proof (refuse_spec c s H) as R.
      destruct ((mlog cfg FUEL 40;;; remove_module cfg FUEL c;;; ret true) s) as [b s1|e s1]; [|exact R].
      destruct R as (-> & H1 & F1 & U1). simpl.
      split; [exact H1|]. split; [apply Frame_KeepX; exact F1|]. split; [eapply DynInv_Frame; eauto|apply ConnPost_unreg; exact U1].
    + (* explicit id in range: scan the registered modules *)
      unfold bind at 1. pose proof (connect_scan_spec c me (registered s) s H) as R.
      destruct (connect_scan cfg FUEL c me (registered s) s) as [b s1|e s1]; [|exact R].
      destruct R as (H1 & F1 & Hok & Hno). destruct b.
      * simpl. split; [exact H1|]. split; [apply Frame_KeepX; exact F1|]. split; [eapply DynInv_Frame; eauto|].
        apply ConnPost_unreg. apply Hno. reflexivity.
      * specialize (Hok eq_refl). cbv beta iota.
        pose proof (connect_finish c s1 H1 (or_intror I)) as R2.
        destruct (finish_conn c s1) as [b s2|e s2]; [|exact R2].
        destruct R2 as (H2 & K2 & D2 & I2 & U2 & G2).
        assert (K : KeepX c s s2) by (eapply KeepX_trans; [apply Frame_KeepX; exact F1|exact K2]).
        split; [exact H2|]. split; [exact K|]. split; [unfold DynInv in *; rewrite D2, (fr_dyn _ _ F1); exact Hd|].
        (* identity of c in the final state = me *)
        pose proof (Frame_find s s1 c F1) as Fc. fold me in Fc.
        assert (Eid2 : m_mod_id (find_mod c (mods s2)) = m_mod_id me) by (rewrite I2; apply (fm_mod_id _ _ Fc)).
        assert (Eun2 : m_unique (find_mod c (mods s2)) = m_unique me) by (rewrite U2; apply (fm_unique _ _ Fc)).
        intros Hr2. split; [rewrite Eid2; apply range_user; exact Ebad|].
        intros Hcn2 x Hx [Lx1 Lx2] Hne Hsame.
        destruct (registered_counterpart c s s2 x K Hx Lx1 Hne) as (x1 & Hx1 & C1 & C2 & C3).
        pose proof (forallb_In _ _ _ Hok Hx1) as Hnc. unfold no_conflict in Hnc.
        assert (Ecx : (m_conn x1 =? c) = false) by (apply Z.eqb_neq; congruence).
        rewrite Ecx in Hnc. simpl in Hnc. apply negb_true_iff in Hnc. apply orb_false_iff in Hnc. destruct Hnc as [Hnc _].
        assert (Eidx : (m_mod_id x1 =? m_mod_id me) = true) by (apply Z.eqb_eq; congruence).
        rewrite Eidx in Hnc. simpl in Hnc. apply orb_false_iff in Hnc. destruct Hnc as [N1 N2].
        rewrite Eun2. split; congruence.
  - (* dynamic id *)
    unfold bind at 1. unfold bind at 1. pose proof (assign_spec c s H Hd) as A.
    destruct (assign_module_id cfg FUEL s) as [[mid|] s1|e s1]; [| |exact A].
    + destruct A as ((off' & -> & Aoff) & Afresh & Arange).
      set (s1 := with_dyn s off'). assert (H1 : RegInv s1) by exact H.
      unfold bind at 1. unfold set_mod, modify.
      set (s2 := with_mods s1 (upd_mod c (fun m => mm_modid m mid) (mods s1))).
      assert (H2 : RegInv s2).
      { unfold RegInv, RegInvX, s2. simpl. apply reg_ok_upd'; [exact H|apply keeps_modid|left; reflexivity]. }
      assert (K2 : KeepX c s s2).
      { constructor; [|reflexivity]. exact (kx_mods _ _ _ (KeepX_upd s c (fun m => mm_modid m mid) (fun _ => eq_refl))). }
      assert (Hf2 : find_mod c (mods s2) = mm_modid me mid).
      { unfold s2, s1. simpl. rewrite find_upd_hit; auto. intro; reflexivity. }
      cbn [ret bind]. cbv beta iota.
      pose proof (connect_finish c s2 H2 (or_intror I)) as R2.
      destruct (finish_conn c s2) as [b s3|e s3]; [|exact R2].
      destruct R2 as (H3 & K3 & D3 & I3 & U3 & G3).
      assert (K : KeepX c s s3) by (eapply KeepX_trans; eauto).
      split; [exact H3|]. split; [exact K|]. split; [unfold DynInv; rewrite D3; exact Aoff|].
      intros Hr3. rewrite I3, Hf2. simpl. split; [apply range_dyn; exact Arange|].
      intros Hcn3 x Hx [Lx1 Lx2] Hne Hsame. exfalso.
      destruct (registered_counterpart c s s3 x K Hx Lx1 Hne) as (x1 & Hx1 & C1 & C2 & C3).
      apply Afresh. rewrite I3, Hf2 in Hsame. simpl in Hsame. rewrite <- Hsame, <- C2. apply in_map. exact Hx1.
    + (* every dynamic id is in use: refused *)
      destruct A as (H1 & K1 & D1).
      unfold bind at 1.
      pose proof (remove_module_post_top cfg FUEL [] c (fun x => x) s1 H1) as Hr.
      destruct (remove_module cfg FUEL c s1) as [u3 s3|e s3]; [|exact Hr]. destruct Hr as (H3 & F3 & U3).
      simpl. split; [exact H3|]. split; [|split; [|apply ConnPost_unreg; exact U3]].
      * eapply KeepX_trans; [exact K1|apply Frame_KeepX; exact F3].
      * eapply DynInv_Frame; eauto.
Qed.


Lemma connect_module_unfold c h ip :
  connect_module cfg FUEL c h ip =
  (s <- get ;;
   let m := find_mod c (mods s) in
   if m_connected m then ret false
   else
     bad_name <-
       (match ip with
        | InConnectV2 lg dm am mid pid name ascii =>
          set_mod c (fun m => mm_ident m mid pid (m_name m) (am =? 0)) ;;;
          if ascii then
            set_mod c (fun m => mm_name m name) ;;;
            set_mod c (fun m => mm_flags m (lg =? 1) (dm =? 1)) ;;; ret false
          else mlog cfg FUEL 40 ;;; remove_module cfg FUEL c ;;; ret true
        | InConnect lg dm =>
          set_mod c (fun m => mm_modid m (h_src_mod h)) ;;;
          set_mod c (fun m => mm_flags m (lg =? 1) (dm =? 1)) ;;; ret false
        | _ => ret false
        end) ;;
     if bad_name then ret false else phase2 c).
Proof. reflexivity. Qed.

(* storing the requested identity: a pure update of module c that keeps the registry invariant
   (c is not connected, hence in no logger list) *)
Lemma store_keeps c f s : RegInv s -> keeps f -> m_connected (find_mod c (mods s)) = false ->
  m_reg (find_mod c (mods s)) = true ->
  let s' := with_mods s (upd_mod c f (mods s)) in
  RegInv s' /\ KeepX c s s' /\ m_connected (find_mod c (mods s')) = false /\ m_reg (find_mod c (mods s')) = true
  /\ dyn_off s' = dyn_off s.
Proof.
  intros H K Hcn Hreg. pose proof K as (Kc & Ks & Kr & Kcl & Kcon).
  destruct (reg_open s c H Hreg) as (Hopen & Hc & Hin). pose proof (find_mod_conn_of_reg _ _ Hreg) as Hcc.
  cbv zeta. split; [|split; [|split; [|split; [|reflexivity]]]].
  - unfold RegInv, RegInvX. simpl. apply reg_ok_upd'; auto. right. intros Hl.
    destruct (ro_log _ _ _ _ _ H c Hl Hreg) as (_ & _ & Hx). congruence.
  - apply KeepX_upd; auto.
  - simpl. rewrite find_upd_hit; auto. rewrite Kcon. exact Hcn.
  - simpl. rewrite find_upd_hit; auto. rewrite Kr. exact Hreg.
Qed.

Lemma connect_module_spec c h ip : forall s, RegInv s -> DynInv s ->
  m_reg (find_mod c (mods s)) = true ->
  match connect_module cfg FUEL c h ip s with
  | Ok b s' => RegInv s' /\ KeepX c s s' /\ DynInv s' /\
               ((m_connected (find_mod c (mods s)) = true /\ s' = s) \/
                (m_connected (find_mod c (mods s)) = false /\ ConnPost c s'))
  | Crash e _ => e = XFuel
  end.
Proof.
  intros s H Hd Hreg. rewrite connect_module_unfold. unfold bind at 1. unfold get. cbv zeta.
  destruct (m_connected (find_mod c (mods s))) eqn:Hcn.
  - simpl. split; [exact H|]. split; [apply KeepX_refl|]. split; [exact Hd|left; auto].
  - assert (Finish : forall s1, RegInv s1 -> KeepX c s s1 -> dyn_off s1 = dyn_off s ->
              m_reg (find_mod c (mods s1)) = true ->
              match phase2 c s1 with
              | Ok b s' => RegInv s' /\ KeepX c s s' /\ DynInv s' /\
                           ((false = true /\ s' = s) \/ (false = false /\ ConnPost c s'))
              | Crash e _ => e = XFuel end).
    { intros s1 H1 K1 D1 R1. assert (Hd1 : DynInv s1) by (unfold DynInv; rewrite D1; exact Hd).
      pose proof (phase2_spec c s1 H1 Hd1 R1) as P. destruct (phase2 c s1) as [b s'|e s']; [|exact P].
      destruct P as (P1 & P2 & P3 & P4). split; [exact P1|]. split; [eapply KeepX_trans; eauto|]. split; [exact P3|right; auto]. }
    assert (Refuse : forall s1, RegInv s1 -> KeepX c s s1 -> dyn_off s1 = dyn_off s ->
              match (bad <- (mlog cfg FUEL 40 ;;; remove_module cfg FUEL c ;;; ret true) ;;
                     if bad then ret false else phase2 c) s1 with
              | Ok b s' => RegInv s' /\ KeepX c s s' /\ DynInv s' /\
                           ((false = true /\ s' = s) \/ (false = false /\ ConnPost c s'))
              | Crash e _ => e = XFuel end).
    { intros s1 H1 K1 D1. unfold bind at 1. pose proof (refuse_spec c s1 H1) as R.
      destruct ((mlog cfg FUEL 40;;; remove_module cfg FUEL c;;; ret true) s1) as [b s2|e s2]; [|exact R].
      destruct R as (-> & H2 & F2 & U2). simpl. split; [exact H2|].
      split; [eapply KeepX_trans; [exact K1|apply Frame_KeepX; exact F2]|].
      split; [unfold DynInv; rewrite (fr_dyn _ _ F2), D1; exact Hd|right; split; [reflexivity|apply ConnPost_unreg; exact U2]]. }
    destruct ip as [id|lg dm|lg dm am mid pid name ascii|mt|pid|name ascii|].
    + cbn [bind ret]. apply Finish; [exact H|apply KeepX_refl|reflexivity|exact Hreg].
    + (* CONNECT (v1) *)
      unfold bind at 1. unfold bind at 1. unfold set_mod at 1, modify.
      destruct (store_keeps c (fun m => mm_modid m (h_src_mod h)) s H (keeps_modid _) Hcn Hreg) as (A1 & A2 & A3 & A4 & A5).
      set (s1 := with_mods s (upd_mod c (fun m => mm_modid m (h_src_mod h)) (mods s))) in *.
      unfold bind at 1. unfold set_mod at 1, modify.
      destruct (store_keeps c (fun m => mm_flags m (lg =? 1) (dm =? 1)) s1 A1 (keeps_flags _ _) A3 A4) as (B1 & B2 & B3 & B4 & B5).
      set (s2 := with_mods s1 (upd_mod c (fun m => mm_flags m (lg =? 1) (dm =? 1)) (mods s1))) in *.
      cbn [bind ret]. cbv beta iota. apply Finish; [exact B1|eapply KeepX_trans; eauto|congruence|exact B4].
    + (* CONNECT_V2 *)
      unfold bind at 1. unfold bind at 1. unfold set_mod at 1, modify.
      destruct (store_keeps c (fun m => mm_ident m mid pid (m_name m) (am =? 0)) s H (keeps_ident _ _ _) Hcn Hreg) as (A1 & A2 & A3 & A4 & A5).
      set (s1 := with_mods s (upd_mod c (fun m => mm_ident m mid pid (m_name m) (am =? 0)) (mods s))) in *.
      destruct ascii.
      * unfold bind at 1. unfold set_mod at 1, modify.
        destruct (store_keeps c (fun m => mm_name m name) s1 A1 (keeps_name _) A3 A4) as (B1 & B2 & B3 & B4 & B5).
        set (s2 := with_mods s1 (upd_mod c (fun m => mm_name m name) (mods s1))) in *.
        unfold bind at 1. unfold set_mod at 1, modify.
        destruct (store_keeps c (fun m => mm_flags m (lg =? 1) (dm =? 1)) s2 B1 (keeps_flags _ _) B3 B4) as (C1 & C2 & C3 & C4 & C5).
        set (s3 := with_mods s2 (upd_mod c (fun m => mm_flags m (lg =? 1) (dm =? 1)) (mods s2))) in *.
        cbn [bind ret]. cbv beta iota. apply Finish; [exact C1|eapply KeepX_trans; [exact A2|eapply KeepX_trans; eauto]|congruence|exact C4].
      * (* the name is not ascii: refused *)
        apply (Refuse s1 A1 A2 A5).
    + cbn [bind ret]. apply Finish; [exact H|apply KeepX_refl|reflexivity|exact Hreg].
    + cbn [bind ret]. apply Finish; [exact H|apply KeepX_refl|reflexivity|exact Hreg].
    + cbn [bind ret]. apply Finish; [exact H|apply KeepX_refl|reflexivity|exact Hreg].
    + cbn [bind ret]. apply Finish; [exact H|apply KeepX_refl|reflexivity|exact Hreg].
Qed.

End Conn.
