(* C05: "messages from one sender reach each receiver in the order they were sent, and any two receivers that both
   get the same two messages get them in the same relative order" - at the level of what run() does: two data frames
   serviced one after the other (from one sender or from two) reach every healthy common receiver in that order,
   exactly one copy of each, with increasing sequence numbers on the receiver's connection - whatever happens to the
   other receivers in between.  Built on Proofs/HealthyServed.v (exactly-once delivery to a healthy receiver),
   Proofs/OnlyRecipients.v (nothing else is a copy of the message) and Proofs/C05Inv.v (the sequence numbers written
   to a connection are 1, 2, 3, ...). *)
From Coq Require Import ZArith List Bool Lia ZifyBool.
From Mgr Require Import Gen.MgrDefs Model.Manager Proofs.ListLemmas Proofs.Hoare Proofs.RegInv Proofs.Frame
                        Proofs.RegTraverse Proofs.RegTop Proofs.StepInv Proofs.Routing Proofs.OutInv Proofs.C05Inv
                        Proofs.Exact Proofs.ExactTop Proofs.OnlyRecipients Proofs.HealthyServed.
Import ListNotations.
Open Scope Z_scope.

(* ---------- list facts ---------- *)

Lemma seqZ_split : forall l1 a k n r, seqZ a k = l1 ++ n :: r ->
  n = a + Z.of_nat (length l1) /\ exists k', r = seqZ (n + 1) k'.
Proof.
  induction l1 as [|y l1 IH]; intros a k n r E.
  - destruct k as [|k]; [discriminate E|]. cbn [seqZ app] in E. inversion E; subst. split; [cbn; lia|exists k; reflexivity].
  - destruct k as [|k]; [discriminate E|]. cbn [seqZ app] in E. inversion E as [[Ey E']]. destruct (IH _ _ _ _ E') as [A B].
    split; [cbn [length]; lia|exact B].
Qed.

Lemma seqZ_two_increasing a k l1 n1 l2 n2 l3 : seqZ a k = l1 ++ [n1] ++ l2 ++ [n2] ++ l3 -> n1 < n2.
Proof.
  intros E. cbn [app] in E. destruct (seqZ_split l1 a k n1 _ E) as [_ (k' & E')].
  destruct (seqZ_split l2 _ _ n2 _ (eq_sym E')) as [A _]. lia.
Qed.

Lemma proj_In c it o : In it (proj c o) -> In (c, it) o.
Proof.
  induction o as [|[x i] r IH]; cbn [proj]; [intros []|]. destruct (x =? c) eqn:E.
  - apply Z.eqb_eq in E. subst x. intros [->|H]; [left; reflexivity|right; auto].
  - intros H. right. auto.
Qed.

Lemma filter_nil_app {A} (f : A -> bool) a b : filter f (a ++ b) = [] -> filter f a = [] /\ filter f b = [].
Proof. rewrite filter_app. intros H. apply app_eq_nil in H. exact H. Qed.

(* ---------- a message writes no copy of a different message ---------- *)

Lemma Safe_no_other h p s suf h2 c :
  h_extra h2 <> 0 -> ~ same_msg h h2 -> Safe h p s suf -> filter (same_item h2) (proj c suf) = [].
Proof.
  intros Hext Hne (_ & _ & Hr & _).
  assert (Hall : forall it, In it (proj c suf) -> same_item h2 it = false).
  { intros it Hin. destruct (same_item h2 it) eqn:E; [|reflexivity]. exfalso.
    destruct it as [h'|q]; [|discriminate E]. cbn [same_item] in E. apply same_msgb_spec in E.
    pose proof (proj_In c _ _ Hin) as Hin'. pose proof (In_cl c h' suf Hin' (same_msg_isc h2 h' Hext E)) as Hcl.
    destruct (Hr c h' Hcl) as (_ & _ & n & ->). apply Hne. unfold same_msg in *. rewrite <- E. reflexivity. }
  induction (proj c suf) as [|it r IH]; [reflexivity|]. cbn [filter]. rewrite (Hall it (or_introl eq_refl)).
  apply IH. intros x Hx. apply Hall. right. exact Hx.
Qed.

(* ---------- the statement ---------- *)

(* on c's connection: the copy of (h1, p1), later the copy of (h2, p2), increasing sequence numbers *)
Definition in_order (h1 : hdr) (p1 : payload) (h2 : hdr) (p2 : payload) (l : list item) : Prop :=
  exists x y z n1 n2,
    l = x ++ [OHdr (set_count h1 n1); OPay p1] ++ y ++ [OHdr (set_count h2 n2); OPay p2] ++ z /\ n1 < n2 /\
    filter (same_item h1) x = [] /\ filter (same_item h1) y = [] /\ filter (same_item h2) y = [] /\ filter (same_item h2) z = [].

(* ... and no other copy of either *)
Definition exactly_in_order (h1 : hdr) (p1 : payload) (h2 : hdr) (p2 : payload) (l : list item) : Prop :=
  in_order h1 p1 h2 p2 l /\ length (filter (same_item h1) l) = 1%nat /\ length (filter (same_item h2) l) = 1%nat.

Lemma served_proj h p c suf : served_once h p c suf ->
  exists x n z, proj c suf = x ++ [OHdr (set_count h n); OPay p] ++ z /\
                filter (same_item h) x = [] /\ filter (same_item h) z = [].
Proof.
  intros ((a & n & b & E & Ha & Hb) & _). exists (proj c a), n, (proj c b). split; [|auto].
  rewrite E, !proj_app. cbn [proj]. rewrite Z.eqb_refl. reflexivity.
Qed.

Lemma hcounts_frame h n p : hcounts [OHdr (set_count h n); OPay p] = [n].
Proof. reflexivity. Qed.

(* the core: two frames on a connection whose stream is numbered 1, 2, ... *)
Lemma order_core h1 p1 h2 p2 c s2 pre x1 n1 z1 m x2 n2 z2 :
  CInv s2 ->
  proj c (out s2) = pre ++ (x1 ++ [OHdr (set_count h1 n1); OPay p1] ++ z1) ++ m ++ (x2 ++ [OHdr (set_count h2 n2); OPay p2] ++ z2) ->
  n1 < n2.
Proof.
  intros HC Ep. destruct (ci_conn s2 HC c) as (Hseq & _). cbv zeta in Hseq. rewrite Ep in Hseq.
  rewrite !hcounts_app, !hcounts_frame in Hseq. symmetry in Hseq.
  eapply (seqZ_two_increasing 1 _ (hcounts pre ++ hcounts x1) n1 (hcounts z1 ++ hcounts m ++ hcounts x2) n2 (hcounts z2)).
  etransitivity; [exact Hseq|]. rewrite <- !app_assoc. reflexivity.
Qed.

Section Two.
Variable cfg : config.
Variable FUEL : nat.

Lemma CInv_service c ib : pres CInv (service cfg FUEL c ib).
Proof. apply (ot_service cfg FUEL CInv CInv_view CInv_mod_send CInv_close). Qed.

(* (1) two data frames serviced one after the other *)
Theorem two_frames_in_order fuel es u s a h1 ip1 s1 b h2 ip2 s2 c :
  run cfg fuel es = Ok u s ->
  service cfg FUEL a (IFrame h1 ip1) s = Ok tt s1 -> service cfg FUEL b (IFrame h2 ip2) s1 = Ok tt s2 ->
  h_extra h1 <> 0 -> h_extra h2 <> 0 -> ~ same_msg h1 h2 ->
  (* both are data frames with valid sizes and destinations from registered senders *)
  data_type (h_type h1) -> h_type h1 <> ALL_MESSAGE_TYPES -> bad_size (h_nbytes h1) = false ->
  bad_dest_mod (h_dst_mod h1) = false -> bad_dest_host (h_dst_host h1) = false -> m_reg (find_mod a (mods s)) = true ->
  data_type (h_type h2) -> h_type h2 <> ALL_MESSAGE_TYPES -> bad_size (h_nbytes h2) = false ->
  bad_dest_mod (h_dst_mod h2) = false -> bad_dest_host (h_dst_host h2) = false -> m_reg (find_mod b (mods s1)) = true ->
  (* c is a healthy receiver of both, judged when each frame arrives *)
  In c (snapshot s (h_type h1)) -> zmem c (wl s) = true -> eligible (h_dst_mod h1) s c = true -> flookup c (faults s) = None ->
  In c (snapshot s1 (h_type h2)) -> eligible (h_dst_mod h2) s1 c = true ->
  exists suf, out s2 = out s ++ suf /\
    exactly_in_order h1 (data_payload h1 ip1) h2 (data_payload h2 ip2) (proj c suf).
Proof.
  intros Hrun E1 E2 Hx1 Hx2 Hne D1 A1 B1 M1 M1' R1 D2 A2 B2 M2 M2' R2 I1 W1 L1 F1 I2 L2.
  pose proof (run_safe cfg fuel es) as R. rewrite Hrun in R. pose proof R as (RI & _).
  pose proof (service_S cfg FUEL a (IFrame h1 ip1) s R) as RS1. rewrite E1 in RS1. pose proof RS1 as (RI1 & _).
  pose proof (CInv_run cfg fuel es) as C0. rewrite Hrun in C0. cbn [st] in C0.
  pose proof (CInv_service a (IFrame h1 ip1) s C0) as C1. rewrite E1 in C1.
  pose proof (CInv_service b (IFrame h2 ip2) s1 C1) as C2. rewrite E2 in C2.
  destruct (service_healthy_served cfg FUEL a h1 ip1 s [] c s1 RI R1 B1 D1 Hx1 A1 M1 M1' I1 W1 L1 F1 E1) as (suf1 & Ho1 & S1 & Hh).
  destruct Hh as (_ & _ & Hf1 & Hw1 & _).
  destruct (service_healthy_served cfg FUEL b h2 ip2 s1 [] c s2 RI1 R2 B2 D2 Hx2 A2 M2 M2' I2 ltac:(rewrite Hw1; exact W1) L2 Hf1 E2)
    as (suf2 & Ho2 & S2 & _).
  destruct (service_only_recipients cfg FUEL a h1 ip1 s [] RI D1 Hx1 A1) as (suf1' & Ho1' & Safe1). rewrite E1 in Ho1'. cbn [st] in Ho1'.
  rewrite Ho1 in Ho1'. apply app_inv_head in Ho1'. subst suf1'.
  destruct (service_only_recipients cfg FUEL b h2 ip2 s1 [] RI1 D2 Hx2 A2) as (suf2' & Ho2' & Safe2). rewrite E2 in Ho2'. cbn [st] in Ho2'.
  rewrite Ho2 in Ho2'. apply app_inv_head in Ho2'. subst suf2'.
  pose proof (Safe_no_other h1 _ s suf1 h2 c Hx2 Hne Safe1) as N21.
  pose proof (Safe_no_other h2 _ s1 suf2 h1 c Hx1 (fun E => Hne (eq_sym E)) Safe2) as N12.
  set (p1 := data_payload h1 ip1) in *. set (p2 := data_payload h2 ip2) in *.
  destruct (served_proj _ _ _ _ S1) as (x1 & n1 & z1 & Ep1 & Ax1 & Az1).
  destruct (served_proj _ _ _ _ S2) as (x2 & n2 & z2 & Ep2 & Ax2 & Az2).
  exists (suf1 ++ suf2). split; [rewrite Ho2, Ho1, <- app_assoc; reflexivity|].
  assert (Hlt : n1 < n2).
  { apply (order_core h1 p1 h2 p2 c s2 (proj c (out s)) x1 n1 z1 [] x2 n2 z2 C2).
    rewrite Ho2, Ho1, !proj_app, Ep1, Ep2, <- !app_assoc. reflexivity. }
  rewrite Ep1 in N21. apply filter_nil_app in N21. destruct N21 as [Bx1 N21]. apply filter_nil_app in N21. destruct N21 as [_ Bz1].
  rewrite Ep2 in N12. apply filter_nil_app in N12. destruct N12 as [Cx2 N12]. apply filter_nil_app in N12. destruct N12 as [Cf2 Cz2].
  split; [|split].
  - exists x1, (z1 ++ x2), z2, n1, n2. split; [rewrite proj_app, Ep1, Ep2, <- !app_assoc; reflexivity|]. split; [exact Hlt|].
    rewrite !filter_app, Az1, Cx2, Bz1, Ax2. auto.
  - rewrite proj_app, filter_app, app_length. destruct S1 as (_ & ->). rewrite Ep2, !filter_app, Cx2, Cf2, Cz2. reflexivity.
  - rewrite proj_app, filter_app, app_length. destruct S2 as (_ & ->). rewrite Ep1, !filter_app, Bx1, Bz1.
    cbn [filter app length]. destruct (same_item h2 (OHdr (set_count h1 n1))) eqn:E; [|reflexivity]. exfalso.
    cbn [same_item] in E. apply same_msgb_spec in E. apply Hne. unfold same_msg in *. rewrite <- E. reflexivity.
Qed.

(* (2) any two healthy receivers of both messages see them in the same relative order *)
Theorem same_relative_order fuel es u s a h1 ip1 s1 b h2 ip2 s2 c d :
  run cfg fuel es = Ok u s ->
  service cfg FUEL a (IFrame h1 ip1) s = Ok tt s1 -> service cfg FUEL b (IFrame h2 ip2) s1 = Ok tt s2 ->
  h_extra h1 <> 0 -> h_extra h2 <> 0 -> ~ same_msg h1 h2 ->
  data_type (h_type h1) -> h_type h1 <> ALL_MESSAGE_TYPES -> bad_size (h_nbytes h1) = false ->
  bad_dest_mod (h_dst_mod h1) = false -> bad_dest_host (h_dst_host h1) = false -> m_reg (find_mod a (mods s)) = true ->
  data_type (h_type h2) -> h_type h2 <> ALL_MESSAGE_TYPES -> bad_size (h_nbytes h2) = false ->
  bad_dest_mod (h_dst_mod h2) = false -> bad_dest_host (h_dst_host h2) = false -> m_reg (find_mod b (mods s1)) = true ->
  (forall r, r = c \/ r = d ->
     In r (snapshot s (h_type h1)) /\ zmem r (wl s) = true /\ eligible (h_dst_mod h1) s r = true /\ flookup r (faults s) = None /\
     In r (snapshot s1 (h_type h2)) /\ eligible (h_dst_mod h2) s1 r = true) ->
  exists suf, out s2 = out s ++ suf /\
    exactly_in_order h1 (data_payload h1 ip1) h2 (data_payload h2 ip2) (proj c suf) /\
    exactly_in_order h1 (data_payload h1 ip1) h2 (data_payload h2 ip2) (proj d suf).
Proof.
  intros Hrun E1 E2 Hx1 Hx2 Hne D1 A1 B1 M1 M1' R1 D2 A2 B2 M2 M2' R2 Hr.
  destruct (Hr c (or_introl eq_refl)) as (c1 & c2 & c3 & c4 & c5 & c6). destruct (Hr d (or_intror eq_refl)) as (d1 & d2 & d3 & d4 & d5 & d6).
  destruct (two_frames_in_order fuel es u s a h1 ip1 s1 b h2 ip2 s2 c Hrun E1 E2 Hx1 Hx2 Hne D1 A1 B1 M1 M1' R1 D2 A2 B2 M2 M2' R2 c1 c2 c3 c4 c5 c6)
    as (suf & Ho & Oc).
  destruct (two_frames_in_order fuel es u s a h1 ip1 s1 b h2 ip2 s2 d Hrun E1 E2 Hx1 Hx2 Hne D1 A1 B1 M1 M1' R1 D2 A2 B2 M2 M2' R2 d1 d2 d3 d4 d5 d6)
    as (suf' & Ho' & Od).
  rewrite Ho in Ho'. apply app_inv_head in Ho'. subst suf'. exists suf. auto.
Qed.

(* (3) with arbitrary other events in between: sB is any later reachable state of the history (its output extends
   that of sA1).  The copy of h1 still precedes the copy of h2 with a smaller sequence number; "no other copy in
   between" is no longer claimed (a later round may legitimately publish the same header again). *)
Theorem two_frames_in_order_later fuelA esA uA sA a h1 ip1 sA1 fuelB esB uB sB mid b h2 ip2 sB1 c :
  run cfg fuelA esA = Ok uA sA -> service cfg FUEL a (IFrame h1 ip1) sA = Ok tt sA1 ->
  run cfg fuelB esB = Ok uB sB -> out sB = out sA1 ++ mid -> service cfg FUEL b (IFrame h2 ip2) sB = Ok tt sB1 ->
  h_extra h1 <> 0 -> h_extra h2 <> 0 ->
  data_type (h_type h1) -> h_type h1 <> ALL_MESSAGE_TYPES -> bad_size (h_nbytes h1) = false ->
  bad_dest_mod (h_dst_mod h1) = false -> bad_dest_host (h_dst_host h1) = false -> m_reg (find_mod a (mods sA)) = true ->
  data_type (h_type h2) -> h_type h2 <> ALL_MESSAGE_TYPES -> bad_size (h_nbytes h2) = false ->
  bad_dest_mod (h_dst_mod h2) = false -> bad_dest_host (h_dst_host h2) = false -> m_reg (find_mod b (mods sB)) = true ->
  In c (snapshot sA (h_type h1)) -> zmem c (wl sA) = true -> eligible (h_dst_mod h1) sA c = true -> flookup c (faults sA) = None ->
  In c (snapshot sB (h_type h2)) -> zmem c (wl sB) = true -> eligible (h_dst_mod h2) sB c = true -> flookup c (faults sB) = None ->
  exists suf x y z n1 n2, out sB1 = out sA ++ suf /\
    proj c suf = x ++ [OHdr (set_count h1 n1); OPay (data_payload h1 ip1)] ++ y ++
                      [OHdr (set_count h2 n2); OPay (data_payload h2 ip2)] ++ z /\ n1 < n2.
Proof.
  intros HrA E1 HrB Hmid E2 Hx1 Hx2 D1 A1 B1 M1 M1' R1 D2 A2 B2 M2 M2' R2 I1 W1 L1 F1 I2 W2 L2 F2.
  pose proof (run_safe cfg fuelA esA) as RA. rewrite HrA in RA. destruct RA as (RIA & _).
  pose proof (run_safe cfg fuelB esB) as RB. rewrite HrB in RB. destruct RB as (RIB & _).
  pose proof (CInv_run cfg fuelB esB) as CB. rewrite HrB in CB. cbn [st] in CB.
  pose proof (CInv_service b (IFrame h2 ip2) sB CB) as CB1. rewrite E2 in CB1.
  destruct (service_healthy_served cfg FUEL a h1 ip1 sA [] c sA1 RIA R1 B1 D1 Hx1 A1 M1 M1' I1 W1 L1 F1 E1) as (suf1 & Ho1 & S1 & _).
  destruct (service_healthy_served cfg FUEL b h2 ip2 sB [] c sB1 RIB R2 B2 D2 Hx2 A2 M2 M2' I2 W2 L2 F2 E2) as (suf2 & Ho2 & S2 & _).
  destruct (served_proj _ _ _ _ S1) as (x1 & n1 & z1 & Ep1 & _). destruct (served_proj _ _ _ _ S2) as (x2 & n2 & z2 & Ep2 & _).
  exists (suf1 ++ mid ++ suf2), x1, (z1 ++ proj c mid ++ x2), z2, n1, n2.
  split; [rewrite Ho2, Hmid, Ho1, <- !app_assoc; reflexivity|].
  split; [rewrite !proj_app, Ep1, Ep2, <- !app_assoc; reflexivity|].
  apply (order_core h1 (data_payload h1 ip1) h2 (data_payload h2 ip2) c sB1 (proj c (out sA)) x1 n1 z1 (proj c mid) x2 n2 z2 CB1).
  rewrite Ho2, Hmid, Ho1, !proj_app, Ep1, Ep2, <- !app_assoc. reflexivity.
Qed.

End Two.

(* ---------- non-vacuity ----------
   conn 1 publishes type 100 and then type 101; conn 2 is subscribed to both, conn 3 to ALL message types, conn 4 to both
   but its writes fail (it is removed during the first delivery; its CLIENT_CLOSED and the failure notice reach conn 3
   before conn 3's own copy of 100).
   Both healthy receivers get the copy of 100 before the copy of 101, exactly one of each, with increasing sequence
   numbers. *)
Definition os_hdr (t sm : Z) : hdr := mkHdr t 1 0 sm 0 0 4 7.
Definition os_setup : list event :=
  [ERound true [] [] 0; ERound true [] [] 0; ERound true [] [] 0; ERound true [] [] 0;
   ERound false [(1, IFrame (os_hdr MT_CONNECT 10) (InConnect 0 0)); (2, IFrame (os_hdr MT_CONNECT 11) (InConnect 0 0));
                 (3, IFrame (os_hdr MT_CONNECT 12) (InConnect 0 0)); (4, IFrame (os_hdr MT_CONNECT 13) (InConnect 0 0))] [1;2;3;4] 0;
   ERound false [(2, IFrame (os_hdr MT_SUBSCRIBE 11) (InSub 100)); (2, IFrame (os_hdr MT_SUBSCRIBE 11) (InSub 101));
                 (3, IFrame (os_hdr MT_SUBSCRIBE 12) (InSub ALL_MESSAGE_TYPES));
                 (4, IFrame (os_hdr MT_SUBSCRIBE 13) (InSub 100)); (4, IFrame (os_hdr MT_SUBSCRIBE 13) (InSub 101))] [1;2;3;4] 0;
   EFault 4 0].
Definition os_m1 : hdr := mkHdr 100 1 0 10 0 0 1 91.
Definition os_m2 : hdr := mkHdr 101 1 0 10 0 0 1 92.

Example order_served_ex :
  match run (mkConfig 60 true) 20%nat os_setup with
  | Ok _ s =>
    match service (mkConfig 60 true) 20 1 (IFrame os_m1 (InData 5)) s with
    | Ok _ s1 =>
      match service (mkConfig 60 true) 20 1 (IFrame os_m2 (InData 6)) s1 with
      | Ok _ s2 =>
        let suf := skipn (length (out s)) (out s2) in
        let view c := flat_map (fun it => match it with OHdr h' => [(h_type h', h_count h')] | OPay _ => [] end) (proj c suf) in
        (view 2, view 3, view 4, (m_reg (find_mod 4 (mods s1)), snapshot s 100, snapshot s1 101))
      | Crash _ _ => ([], [], [], (true, [], []))
      end
    | Crash _ _ => ([], [], [], (true, [], []))
    end
  | Crash _ _ => ([], [], [], (true, [], []))
  end =
  ([(100, 4); (101, 5)],
   [(MT_CLIENT_CLOSED, 3); (MT_FAILED_MESSAGE, 4); (100, 5); (101, 6)],
   [], (false, [2; 4; 3], [2; 3])).
Proof. vm_compute. reflexivity. Qed.

