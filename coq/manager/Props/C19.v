(* C19 - Control frames are acknowledged exactly once, in order, to their sender.
   Property theorems only.  Stage proved here (by case analysis of process_message and send_ack in the
   model): every SUBSCRIBE / UNSUBSCRIBE / PAUSE / RESUME frame ends in exactly one send_ack to its sender
   whatever the registry operation did (also when it was ignored); a connection request is acknowledged iff
   connect_module accepted it (so never for a refused one, nor for the CONNECT that follows an accepted
   CONNECT_V2: connect_module returns false when already connected); DISCONNECT, CLIENT_SET_NAME,
   MODULE_READY and data frames never call send_ack; send_ack writes one ACKNOWLEDGE header addressed to the
   sender's module id on the sender's own connection and then copies it to the loggers.
   End to end (C19_ack_exact, C19_registry_op_silent): when the sender and the registered loggers can be written
   to, send_ack appends to the global write log exactly one whole ACKNOWLEDGE frame (no payload bytes,
   destination = the sender's module id, next sequence number) on the sender's connection followed by one copy
   per registered logger in logger order - and nothing else; with debug logging off the registry operation that
   precedes it writes nothing and leaves every connection's counter, fault plan and the logger set unchanged.
   Because the log only grows (C05_append_only) the acknowledgements of successive control frames appear on the
   sender's connection in the order the frames were processed.
   At the level of what run() does for a ready connection (Proofs/CtrlExact.v):
   - C19_acked_once: at every reachable state, a SUBSCRIBE / RESUME / UNSUBSCRIBE / PAUSE frame (any argument,
     changing something or not) from a sender that can be written to appends exactly `ack_frames s c` - one
     ACKNOWLEDGE on the sender's connection, one copy per registered logger - so that the number of manager
     acknowledgements seen on connection x is 1 if x is the sender, plus 1 if x is a registered logger, else 0;
   - C19_never_acked: for DISCONNECT, MODULE_READY, CLIENT_SET_NAME and every data frame, and for every read outcome
     (EOF, reset, truncated, invalid length), NO manager acknowledgement is written to ANY connection - with no
     assumption at all about who is writable or whose sends fail, also when the operation crashes;
   - C19_connect_acked: an accepted CONNECT writes the ACKNOWLEDGE on the requester's connection, the logger
     copies, then the CLIENT_INFO notices, and nothing else.
   Failing-send cases of the acknowledgement itself at stream level: model correspondence and spec oracle. *)
From Coq Require Import ZArith List Bool Lia.
From Mgr Require Import Gen.MgrDefs Model.Manager Proofs.RegInv Proofs.RegTop Proofs.Connect Proofs.StepInv Proofs.Routing Proofs.Hoare Proofs.C05Inv Proofs.Exact Proofs.AckExact Proofs.CtrlExact.
Import ListNotations.
Open Scope Z_scope.

Section C19.
Variable cfg : config.
Variable fuel : nat.

Theorem C19_subscribe_acked : forall c h mt, h_type h = MT_SUBSCRIBE \/ h_type h = MT_RESUME_SUBSCRIPTION ->
  process_message cfg fuel c h (InSub mt) = (add_subscription cfg fuel c mt ;;; send_ack cfg fuel c).
Proof. intros c h mt [H|H]; unfold process_message; rewrite H; reflexivity. Qed.

Theorem C19_unsubscribe_acked : forall c h mt, h_type h = MT_UNSUBSCRIBE \/ h_type h = MT_PAUSE_SUBSCRIPTION ->
  process_message cfg fuel c h (InSub mt) = (remove_subscription cfg fuel c mt ;;; send_ack cfg fuel c).
Proof. intros c h mt [H|H]; unfold process_message; rewrite H; reflexivity. Qed.

(* requests that change nothing are acknowledged all the same: the registry operation returns without
   touching anything when the module is subscribed to all types, and the ack follows *)
Theorem C19_noop_still_acked : forall c t s, t <> ALL_MESSAGE_TYPES ->
  zmem ALL_MESSAGE_TYPES (m_subs (find_mod c (mods s))) = true ->
  add_subscription cfg fuel c t s = Ok tt s /\ remove_subscription cfg fuel c t s = Ok tt s.
Proof.
  intros c t s Ht H. apply Z.eqb_neq in Ht. unfold add_subscription, remove_subscription, bind, get.
  rewrite Ht, H. split; reflexivity.
Qed.

Theorem C19_connect_acked_iff_accepted : forall c h ip, h_type h = MT_CONNECT \/ h_type h = MT_CONNECT_V2 ->
  process_message cfg fuel c h ip =
  (ok <- connect_module cfg fuel c h ip ;;
   if ok then send_ack cfg fuel c ;;; send_client_info cfg fuel c ;;; mlog cfg fuel 20 else ret tt).
Proof. intros c h ip [H|H]; unfold process_message; rewrite H; reflexivity. Qed.

Theorem C19_second_connect_not_acked : forall c h ip s, m_connected (find_mod c (mods s)) = true ->
  connect_module cfg fuel c h ip s = Ok false s.
Proof. intros c h ip s H. unfold connect_module, bind, get. rewrite H. reflexivity. Qed.

Theorem C19_never_acked : forall c h ip,
  (h_type h = MT_DISCONNECT -> process_message cfg fuel c h ip = (remove_module cfg fuel c ;;; mlog cfg fuel 20)) /\
  (h_type h = MT_MODULE_READY -> process_message cfg fuel c h ip =
     ((match ip with InReady pid => set_mod c (fun m => mm_pid m pid) | _ => ret tt end) ;;; send_client_info cfg fuel c)) /\
  (h_type h = MT_CLIENT_SET_NAME -> process_message cfg fuel c h ip =
     ((match ip with
       | InName n ascii => if ascii then set_mod c (fun m => mm_name m n) ;;; mlog cfg fuel 20 else mlog cfg fuel 30
       | _ => mlog cfg fuel 20 end) ;;; send_client_info cfg fuel c)) /\
  (h_type h <> MT_CONNECT -> h_type h <> MT_CONNECT_V2 -> h_type h <> MT_DISCONNECT -> h_type h <> MT_SUBSCRIBE ->
   h_type h <> MT_RESUME_SUBSCRIPTION -> h_type h <> MT_UNSUBSCRIBE -> h_type h <> MT_PAUSE_SUBSCRIPTION ->
   h_type h <> MT_CLIENT_SET_NAME -> h_type h <> MT_MODULE_READY ->
   process_message cfg fuel c h ip =
     (mlog cfg fuel 10 ;;; fwd cfg fuel h (match ip with InData id => PData id (h_nbytes h) | _ => PData 0 (h_nbytes h) end))).
Proof.
  intros c h ip. repeat split.
  - intros H. unfold process_message. rewrite H. reflexivity.
  - intros H. unfold process_message. rewrite H. reflexivity.
  - intros H. unfold process_message. rewrite H. reflexivity.
  - intros H1 H2 H3 H4 H5 H6 H7 H8 H9. unfold process_message.
    repeat match goal with Hn : h_type h <> ?k |- _ => apply Z.eqb_neq in Hn; rewrite Hn; clear Hn end. reflexivity.
Qed.

(* the acknowledgement itself: one ACKNOWLEDGE header, no payload bytes, addressed to the sender's module id,
   written to the sender's connection, stamped with the next sequence number; then copied to the loggers *)
Theorem C19_ack_frame : forall c s, 0 <= c -> m_closed (find_mod c (mods s)) = false -> flookup c (faults s) = None ->
  let h := mgr_hdr MT_ACKNOWLEDGE 0 (m_mod_id (find_mod c (mods s))) in
  exists s1, mod_send c h (PData 0 0) s = Ok (SOk, set_count h (m_count (find_mod c (mods s)) + 1)) s1 /\
             out s1 = out s ++ [(c, OHdr (set_count h (m_count (find_mod c (mods s)) + 1))); (c, OPay (PData 0 0))].
Proof. intros c s H1 H2 H3. apply mod_send_ok; auto. Qed.

Theorem C19_ack_then_loggers : forall c s,
  send_ack cfg fuel c s =
  (hh' <- send_checked cfg fuel c (mgr_hdr MT_ACKNOWLEDGE 0 (m_mod_id (find_mod c (mods s)))) (PData 0 0) ;;
   send_to_loggers cfg fuel hh' (PData 0 0)) s.
Proof. reflexivity. Qed.

Theorem C19_ack_exact : forall c s,
  sendable s c -> (forall l, In l (loggers s) -> m_reg (find_mod l (mods s)) = true -> sendable s l) ->
  exists s', send_ack cfg fuel c s = Ok tt s' /\
    out s' = out s ++ [(c, OHdr (set_count (ack_hdr s c) (m_count (find_mod c (mods s)) + 1))); (c, OPay (PData 0 0))]
                   ++ lframes (ack_hdr s c) (PData 0 0) (after_send (ack_hdr s c) (PData 0 0) s c) (loggers s).
Proof. exact (send_ack_exact cfg fuel). Qed.

Theorem C19_ack_header : forall s c,
  h_type (ack_hdr s c) = MT_ACKNOWLEDGE /\ h_nbytes (ack_hdr s c) = 0 /\ h_dst_mod (ack_hdr s c) = m_mod_id (find_mod c (mods s)).
Proof. intros s c. repeat split. Qed.

Theorem C19_registry_op_silent : forall c t s, 10 < loglevel cfg ->
  (exists s1, add_subscription cfg fuel c t s = Ok tt s1 /\ quiet_step s s1) /\
  (exists s1, remove_subscription cfg fuel c t s = Ok tt s1 /\ quiet_step s s1).
Proof. intros c t s. exact (subscription_quiet cfg fuel c t s). Qed.

End C19.

(* lframes spelled out: a registered logger gets a copy, an unregistered entry is skipped *)
Example C19_lframes_ex : forall hh p s a b,
  m_reg (find_mod a (mods s)) = true -> m_reg (find_mod b (mods (after_send hh p s a))) = false ->
  lframes hh p s [a; b] = [(a, OHdr (set_count hh (m_count (find_mod a (mods s)) + 1))); (a, OPay p)].
Proof. intros hh p s a b Ha Hb. cbn [lframes]. rewrite Ha, Hb. unfold frame_for, cnt. rewrite app_nil_r. reflexivity. Qed.

(* non-vacuity: subscribe twice, unsubscribe something not subscribed, a data frame, a refused connect, with a
   logger connected: acks on conn 2 are exactly 3 (two subscribes, one unsubscribe), the logger (conn 1) gets a copy
   of each plus its own connect ack and its copy; the refused conn 3 gets none *)
Definition Hk (t sm : Z) : hdr := mkHdr t 1 0 sm 0 0 4 7.
Example C19_ex :
  match run (mkConfig 60 true) 60%nat
    [ERound true [] [] 0; ERound true [] [] 0; ERound true [] [] 0;
     ERound false [(1, IFrame (Hk MT_CONNECT 10) (InConnect 1 0))] [1;2;3] 0;
     ERound false [(2, IFrame (Hk MT_SUBSCRIBE 0) (InSub 100)); (3, IFrame (Hk MT_CONNECT 10) (InConnect 0 0))] [1;2;3] 0;
     ERound false [(2, IFrame (Hk MT_SUBSCRIBE 0) (InSub 100))] [1;2;3] 0;
     ERound false [(2, IFrame (Hk MT_UNSUBSCRIBE 0) (InSub 555))] [1;2;3] 0;
     ERound false [(2, IFrame (mkHdr 100 1 0 0 0 0 1 9) (InData 5))] [1;2;3] 0] with
  | Ok _ s => map (fun c => length (filter (fun ci => (fst ci =? c) && match snd ci with OHdr h => h_type h =? MT_ACKNOWLEDGE | _ => false end) (out s))) [1; 2; 3]
  | Crash _ _ => []
  end = [5; 3; 0]%nat.
Proof. vm_compute. reflexivity. Qed.

(* the hypotheses of C19_ack_exact are met by a reachable state: a logger on connection 1 and a client on 2 *)
Example C19_ack_exact_ex :
  match run (mkConfig 60 true) 60%nat
    [ERound true [] [] 0; ERound true [] [] 0;
     ERound false [(1, IFrame (Hk MT_CONNECT 10) (InConnect 1 0)); (2, IFrame (Hk MT_CONNECT 11) (InConnect 0 0))] [1;2] 0] with
  | Ok _ s => loggers s = [1] /\ sendable s 1 /\ sendable s 2 /\ m_reg (find_mod 1 (mods s)) = true
  | Crash _ _ => False
  end.
Proof. vm_compute. repeat split; discriminate. Qed.

(* ---- what run() does for one ready connection, end to end ---- *)
Theorem C19_acked_once : forall cfg fuel es u s FUEL c h t,
  run cfg fuel es = Ok u s -> 10 < loglevel cfg -> is_ctrl (h_type h) = true -> sendable s c -> loggers_sendable s ->
  exists s', process_message cfg FUEL c h (InSub t) s = Ok tt s' /\ out s' = out s ++ ack_frames s c /\
    forall x, acks_in (proj x (ack_frames s c)) =
      ((if (x =? c)%Z then 1 else 0) + (if zmem x (loggers s) && m_reg (find_mod x (mods s)) then 1 else 0))%nat.
Proof. exact ctrl_frame_acked_once. Qed.

Theorem C19_acked_once_service : forall cfg FUEL c h t s,
  10 < loglevel cfg -> is_ctrl (h_type h) = true -> m_reg (find_mod c (mods s)) = true -> bad_size (h_nbytes h) = false ->
  sendable s c -> loggers_sendable s ->
  exists s', service cfg FUEL c (IFrame h (InSub t)) s = Ok tt s' /\ out s' = out s ++ ack_frames s c.
Proof. exact ctrl_frame_exact_service. Qed.

Theorem C19_ack_fields : forall s c n,
  h_type (set_count (ack_hdr s c) n) = MT_ACKNOWLEDGE /\ h_src_mod (set_count (ack_hdr s c) n) = MID_MESSAGE_MANAGER /\
  h_dst_mod (set_count (ack_hdr s c) n) = m_mod_id (find_mod c (mods s)) /\ h_nbytes (set_count (ack_hdr s c) n) = 0 /\
  h_count (set_count (ack_hdr s c) n) = n.
Proof. exact ack_hdr_fields. Qed.

Theorem C19_never_acked_service : forall cfg FUEL c ib s,
  plain_inbound no_ack ib -> no_new_acks s (st (service cfg FUEL c ib s)).
Proof. exact never_acked_service. Qed.

Theorem C19_never_acked_process : forall cfg FUEL c h ip s,
  plain_type (h_type h) -> h_type h <> MT_ACKNOWLEDGE -> no_new_acks s (st (process_message cfg FUEL c h ip s)).
Proof. exact never_acked_type. Qed.

Theorem C19_connect_acked : forall cfg fuel es u s (k : nat) c h lg dm,
  run cfg fuel es = Ok u s ->
  20 < loglevel cfg -> h_type h = MT_CONNECT -> m_connected (find_mod c (mods s)) = false ->
  let s1 := stored s c h lg dm in
  let s2 := connected_state s1 c in
  m_mod_id (find_mod c (mods s1)) <> 0 -> bad_user_id (m_mod_id (find_mod c (mods s1))) = false ->
  forallb (no_conflict c (find_mod c (mods s1))) (registered s1) = true ->
  sendable s c -> loggers_sendable s ->
  (forall f, In f (snapshot s MT_CLIENT_INFO) -> zmem f (wl s) = true /\ flookup f (faults s) = None) ->
  exists s3 s',
    process_message cfg (Datatypes.S k) c h (InConnect lg dm) s = Ok tt s' /\
    out s3 = out s ++ ack_frames s2 c /\
    out s' = out s3 ++ frames ci_hdr (client_payload false (find_mod c (mods s2))) s3 (snapshot s MT_CLIENT_INFO) /\
    (forall d f, eligible d s3 f = eligible d s2 f) /\
    m_connected (find_mod c (mods s2)) = true.
Proof. exact connect_acked_exact_reachable. Qed.

Definition C19_ex_subscribe := ctrl_ex_subscribe.
Definition C19_ex_never_acked := ctrl_ex_never_acked.
Definition C19_ex_connect := ctrl_ex_connect.
