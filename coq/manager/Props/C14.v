(* C14 - Undeliverable messages are reported, not silently lost.  Property theorems only.
   Stage proved here (case analysis of deliver_with / send_checked_with / send_failed_with):
   a registered non-logger recipient that is not in the writable snapshot gets exactly the drop branch:
   its drop count is bumped and send_failed_message is invoked for it with the header as last stamped;
   a logger recipient outside the writable set is sent to (waited for), never dropped; a write failure
   (ConnectionError or any OSError) removes the module, logs and then invokes send_failed_message for it;
   send_failed_message forwards one FAILED_MESSAGE naming the module id and embedding the original header,
   through forward_message (so to everyone subscribed to FAILED_MESSAGE, by C01), and does nothing for
   FAILED_MESSAGE / RTMA_LOG* themselves (no cascade).  The other recipients of the snapshot are still
   visited: deliver_loop continues whatever one recipient's outcome was.
   End to end for the not-writable case (C14_notice_delivered, every reachable state): the notice - header
   FAILED_MESSAGE, payload naming the module and embedding the header as last stamped - is written as one whole
   frame to exactly the FAILED_MESSAGE subscribers that pass the destination filter (all ready), nothing else
   is written, the recipient's drop count goes up by one and the loop continues with the same header.
   End to end for the failing-send case (C14_failing_send, every reachable state, error logging off, the
   remaining subscribers of CLIENT_CLOSED and FAILED_MESSAGE writable): the recipient's counter is bumped, nothing
   reaches it, it is removed; one whole CLIENT_CLOSED frame describing it goes to each remaining eligible
   subscriber of CLIENT_CLOSED, then one whole FAILED_MESSAGE frame naming its module id and embedding the header
   as stamped goes to each remaining eligible subscriber of FAILED_MESSAGE - and nothing else is written; the
   delivery loop continues with the stamped header.
   The whole delivery, any mix (C14_mixed_delivery, every reachable state; one level of nesting: the subscribers of
   the two notices are themselves healthy): whatever number of recipients of one message are not writable or fail
   on the write, every healthy recipient that passes the destination filter still gets the message exactly once
   and unmodified, everybody else gets nothing of it, and every subscriber of FAILED_MESSAGE is told about exactly
   the recipients that could not be served, each once, in recipient order.
   UNCONDITIONALLY (no assumption about log levels, the other FAILED_MESSAGE subscribers or the nesting depth;
   Proofs/NoticeServed.v): C14_notice_reaches_blocked / C14_notice_reaches_failing - when a recipient of a client
   message is not writable, or its send fails, every subscriber of FAILED_MESSAGE that can accept data and whose
   own sends do not fail gets EXACTLY ONE whole FAILED_MESSAGE frame naming that recipient's module id and embedding
   the header (as stamped), and stays subscribed; C14_forward_notice_blocked - the same through the whole
   forward_message for a recipient that is not writable when the message arrives; C14_no_notice_about_notices -
   whatever fails while a log record or a failure notice is being delivered, no notice about IT is ever written
   (any state, any budget, Ok or Crash). *)
From Coq Require Import ZArith List Bool Lia.
From Mgr Require Import Gen.MgrDefs Model.Manager Proofs.RegInv Proofs.RegTop Proofs.StepInv Proofs.Exact Proofs.ExactTop Proofs.DepartExact Proofs.FailExact Proofs.Hoare Proofs.C05Inv Proofs.LoopExact Proofs.OnlyRecipients Proofs.HealthyServed Proofs.NoticeServed.
Import ListNotations.
Open Scope Z_scope.

Theorem C14_unwritable_reported : forall cfg rec p hh c s,
  m_reg (find_mod c (mods s)) = true -> zmem c (wl s) = false -> m_logger (find_mod c (mods s)) = false ->
  deliver_with cfg rec p hh c s =
  (set_mod c (fun m => mm_drops m (m_drops m + 1)) ;;; send_failed_with rec c hh ;;; ret hh) s.
Proof.
  intros cfg rec p hh c s Hr Hw Hl. unfold deliver_with. unfold bind at 1. unfold get. rewrite Hr, Hw, Hl. reflexivity.
Qed.

Theorem C14_logger_waited_for : forall cfg rec p hh c s,
  m_reg (find_mod c (mods s)) = true -> zmem c (wl s) = false -> m_logger (find_mod c (mods s)) = true ->
  m_closed (find_mod c (mods s)) = false ->
  deliver_with cfg rec p hh c s = send_checked_with cfg rec c hh p s.
Proof.
  intros cfg rec p hh c s Hr Hw Hl Hc. unfold deliver_with. unfold bind at 1. unfold get. rewrite Hr, Hw, Hl, Hc. reflexivity.
Qed.

Theorem C14_write_failure_reported : forall cfg rec c hh p s r h' s1,
  mod_send c hh p s = Ok (r, h') s1 -> r <> SOk ->
  send_checked_with cfg rec c hh p s =
  (remove_module_with cfg rec c ;;; mlog_with cfg rec 40 ;;; send_failed_with rec c h' ;;; ret h') s1.
Proof.
  intros cfg rec c hh p s r h' s1 H Hr. unfold send_checked_with. unfold bind at 1. rewrite H. simpl.
  destruct r; [congruence| |]; unfold on_conn_err_with, bind;
    destruct (remove_module_with cfg rec c s1); auto; destruct (mlog_with cfg rec 40 s0); auto;
    destruct (send_failed_with rec c h' s2); auto.
Qed.

Theorem C14_notice_content : forall rec c hh s, zmem (h_type hh) no_notice_types = false ->
  send_failed_with rec c hh s =
  rec (mgr_hdr MT_FAILED_MESSAGE SZ_FAILED_MESSAGE 0) (PFailed (m_mod_id (find_mod c (mods s))) hh) s.
Proof. intros rec c hh s H. unfold send_failed_with. rewrite H. reflexivity. Qed.

Theorem C14_no_cascade : forall rec c hh, zmem (h_type hh) no_notice_types = true -> send_failed_with rec c hh = ret tt.
Proof. intros rec c hh H. unfold send_failed_with. rewrite H. reflexivity. Qed.

Theorem C14_guarded_types : no_notice_types =
  [MT_FAILED_MESSAGE; MT_RTMA_LOG; MT_RTMA_LOG_CRITICAL; MT_RTMA_LOG_ERROR; MT_RTMA_LOG_WARNING; MT_RTMA_LOG_INFO; MT_RTMA_LOG_DEBUG].
Proof. reflexivity. Qed.

Theorem C14_notice_delivered : forall cfg fuel es u s (k : nat) p hh c,
  run cfg fuel es = Ok u s ->
  zmem (h_type hh) no_notice_types = false ->
  m_reg (find_mod c (mods s)) = true -> zmem c (wl s) = false -> m_logger (find_mod c (mods s)) = false ->
  (forall f, In f (snapshot s MT_FAILED_MESSAGE) -> zmem f (wl s) = true /\ flookup f (faults s) = None) ->
  exists s', deliver_with cfg (forward cfg (Datatypes.S k)) p hh c s = Ok hh s' /\
    out s' = out s ++ frames fail_hdr (PFailed (m_mod_id (find_mod c (mods s))) hh) s (snapshot s MT_FAILED_MESSAGE) /\
    m_drops (find_mod c (mods s')) = m_drops (find_mod c (mods s)) + 1.
Proof. exact notice_exact_reachable. Qed.

Theorem C14_failing_send : forall cfg fuel es u s (k : nat) p hh c,
  run cfg fuel es = Ok u s -> 40 < loglevel cfg ->
  zmem (h_type hh) no_notice_types = false ->
  m_reg (find_mod c (mods s)) = true -> zmem c (wl s) = true ->
  dest_filter (h_dst_mod hh) (m_mod_id (find_mod c (mods s))) (m_logger (find_mod c (mods s))) = true ->
  (exists n, flookup c (faults s) = Some n /\ n <= 0) ->
  (forall f, f <> c -> (In f (snapshot s MT_CLIENT_CLOSED) \/ In f (snapshot s MT_FAILED_MESSAGE)) ->
             zmem f (wl s) = true /\ flookup f (faults s) = None) ->
  let hh' := set_count hh (cnt s c + 1) in
  exists s1 s',
    deliver_with cfg (forward cfg (Datatypes.S k)) p hh c s = Ok hh' s' /\
    out s1 = out s ++ frames cc_hdr (client_payload true (find_mod c (mods s))) s (remaining s c MT_CLIENT_CLOSED) /\
    out s' = out s1 ++ frames fail_hdr (PFailed (m_mod_id (find_mod c (mods s))) hh') s1 (remaining s c MT_FAILED_MESSAGE) /\
    (forall dm f, eligible dm s1 f = eligible dm s f) /\
    m_reg (find_mod c (mods s')) = false /\ m_closed (find_mod c (mods s')) = true.
Proof. intros cfg fuel es u s k p hh c. exact (failing_send_exact_reachable cfg fuel es u s k p hh c). Qed.

(* `remaining s c t`: the subscribers of t (or of all types) other than c *)
Theorem C14_remaining_spec : forall s c t f, In f (remaining s c t) <-> f <> c /\ In f (snapshot s t).
Proof. exact remaining_In. Qed.

Theorem C14_mixed_delivery : forall cfg fuel es u s (k : nat) p hh,
  run cfg fuel es = Ok u s -> 40 < loglevel cfg -> Env s ->
  zmem (h_type hh) no_notice_types = false -> h_type hh <> ALL_MESSAGE_TYPES ->
  bad_dest_mod (h_dst_mod hh) = false -> bad_dest_host (h_dst_host hh) = false ->
  (forall c, In c (snapshot s (h_type hh)) -> classified (h_dst_mod hh) s c = true) ->
  let l := snapshot s (h_type hh) in
  let dm := h_dst_mod hh in
  exists fr hh' s',
    forward cfg (Datatypes.S (Datatypes.S k)) hh p s = Ok tt s' /\ out s' = out s ++ fr /\
    Loop cfg k p hh (counted cfg (h_type hh) s) l fr hh' s' /\
    (forall f, ~ In f (snapshot s MT_CLIENT_CLOSED) -> ~ In f (snapshot s MT_FAILED_MESSAGE) ->
       (In f l -> is_ready s f = true -> eligible dm s f = true -> exists n, proj f fr = [OHdr (set_count hh n); OPay p]) /\
       (~ (In f l /\ is_ready s f = true /\ eligible dm s f = true) -> proj f fr = [])) /\
    (not_failed p -> forall g, In g (snapshot s MT_FAILED_MESSAGE) ->
       failed_of (proj g fr) =
         map (fun c => m_mod_id (find_mod c (mods s))) (filter (fun c => is_blocked s c || is_failing dm s c) l)).
Proof. intros cfg fuel es u s k p hh. exact (forward_general_reachable cfg fuel es u s k p hh). Qed.

(* the three kinds of recipient, and the environment hypothesis, spelled out *)
Theorem C14_kinds : forall s c dm,
  (is_ready s c = true <-> ready s c) /\
  is_blocked s c = m_reg (find_mod c (mods s)) && negb (zmem c (wl s)) && negb (m_logger (find_mod c (mods s))) /\
  is_failing dm s c = m_reg (find_mod c (mods s)) && zmem c (wl s) && eligible dm s c && exhausted s c.
Proof. intros s c dm. split; [apply is_ready_spec|split; reflexivity]. Qed.

(* ---- unconditional ---- *)
Theorem C14_notice_reaches_blocked : forall cfg fuel es u s (k : nat) p hh c g hh' s',
  run cfg fuel es = Ok u s -> h_extra hh <> 0 -> zmem (h_type hh) no_notice_types = false ->
  is_blocked s c = true ->
  In g (snapshot s MT_FAILED_MESSAGE) -> zmem g (wl s) = true -> flookup g (faults s) = None ->
  deliver_with cfg (forward cfg k) p hh c s = Ok hh' s' ->
  hh' = hh /\
  exists suf, out s' = out s ++ suf /\ notice_once (m_mod_id (find_mod c (mods s))) hh g suf /\ still_healthy g s s'.
Proof. exact notice_reaches_healthy_blocked_reachable. Qed.

Theorem C14_notice_reaches_failing : forall cfg fuel es u s (k : nat) p hh c g hh' s',
  run cfg fuel es = Ok u s -> h_extra hh <> 0 -> zmem (h_type hh) no_notice_types = false ->
  In c (snapshot s (h_type hh)) -> is_failing (h_dst_mod hh) s c = true ->
  In g (snapshot s MT_FAILED_MESSAGE) -> zmem g (wl s) = true -> flookup g (faults s) = None ->
  deliver_with cfg (forward cfg k) p hh c s = Ok hh' s' ->
  hh' = set_count hh (cnt s c + 1) /\
  exists suf, out s' = out s ++ suf /\
    notice_once (m_mod_id (find_mod c (mods s))) (set_count hh (cnt s c + 1)) g suf /\ still_healthy g s s' /\
    m_reg (find_mod c (mods s')) = false.
Proof. exact notice_reaches_healthy_failing_reachable. Qed.

Theorem C14_forward_notice_blocked : forall cfg fuel es u s (k : nat) hh p c g s',
  run cfg fuel es = Ok u s -> h_extra hh <> 0 -> zmem (h_type hh) no_notice_types = false ->
  bad_dest_mod (h_dst_mod hh) = false -> bad_dest_host (h_dst_host hh) = false ->
  In c (snapshot s (h_type hh)) -> is_blocked s c = true ->
  In g (snapshot s MT_FAILED_MESSAGE) -> zmem g (wl s) = true -> flookup g (faults s) = None ->
  forward cfg k hh p s = Ok tt s' ->
  exists a n e b,
    out s' = out s ++ a ++ [(g, OHdr (set_count fail_hdr n)); (g, OPay (PFailed (m_mod_id (find_mod c (mods s))) e))] ++ b /\
    same_msg hh e /\ still_healthy g s s'.
Proof. exact forward_notice_blocked_reachable. Qed.

Theorem C14_no_notice_about_notices : forall cfg fuel hh q s,
  zmem (h_type hh) no_notice_types = true ->
  exists suf, out (st (forward cfg fuel hh q s)) = out s ++ suf /\
    forall x m e, In (x, OPay (PFailed m e)) suf -> PFailed m e = q \/ ~ same_msg hh e.
Proof. exact no_notice_for_notices. Qed.

Theorem C14_notices_only_about_reportable : forall cfg fuel hh q s,
  exists suf, out (st (forward cfg fuel hh q s)) = out s ++ suf /\
    forall x m e, In (x, OPay (PFailed m e)) suf -> PFailed m e = q \/ zmem (h_type e) no_notice_types = false.
Proof. exact notice_payloads. Qed.

Theorem C14_notice_once_meaning : forall m e g suf, notice_once m e g suf ->
  (exists a n b, suf = a ++ [(g, OHdr (set_count fail_hdr n)); (g, OPay (PFailed m e))] ++ b /\
                 filter (is_notice m e) (proj g a) = [] /\ filter (is_notice m e) (proj g b) = []) /\
  length (filter (is_notice m e) (proj g suf)) = 1%nat.
Proof. intros m e g suf H. exact H. Qed.

(* the rest of the snapshot is visited whatever happened to one recipient *)
Theorem C14_others_still_served : forall cfg rec p hh c r,
  deliver_loop cfg rec p hh (c :: r) = (hh' <- deliver_with cfg rec p hh c ;; deliver_loop cfg rec p hh' r).
Proof. reflexivity. Qed.

(* non-vacuity: two subscribers of type 100, one not writable and one whose write fails; a monitor (conn 3)
   subscribed to FAILED_MESSAGE sees two notices naming modules 10 and 11, the healthy subscriber 4 gets the message *)
Definition Hq (t sm : Z) : hdr := mkHdr t 1 0 sm 0 0 4 7.
Example C14_ex :
  match run (mkConfig 60 true) 60%nat
    [ERound true [] [] 0; ERound true [] [] 0; ERound true [] [] 0; ERound true [] [] 0; ERound true [] [] 0;
     ERound false [(1, IFrame (Hq MT_CONNECT 10) (InConnect 0 0)); (2, IFrame (Hq MT_CONNECT 11) (InConnect 0 0))] [1;2;3;4;5] 0;
     ERound false [(1, IFrame (Hq MT_SUBSCRIBE 10) (InSub 100)); (2, IFrame (Hq MT_SUBSCRIBE 11) (InSub 100));
                   (4, IFrame (Hq MT_SUBSCRIBE 0) (InSub 100)); (3, IFrame (Hq MT_SUBSCRIBE 0) (InSub MT_FAILED_MESSAGE))] [1;2;3;4;5] 0;
     EFault 2 0;
     ERound false [(5, IFrame (mkHdr 100 1 0 0 0 0 1 9) (InData 5))] [2;3;4;5] 0] with
  | Ok _ s => (flat_map (fun ci => match ci with (3, OPay (PFailed dm _)) => [dm] | _ => [] end) (out s),
               map fst (filter (fun ci => match snd ci with OPay (PData 5 _) => true | _ => false end) (out s)))
  | Crash _ _ => ([], [])
  end = ([10; 11], [4]).
Proof. vm_compute. reflexivity. Qed.

(* non-vacuity of C14_failing_send: a reachable state meeting every hypothesis, and the outcome computed on it *)
Definition C14_failing_send_ex_hypotheses := failing_send_ex_hypotheses.
Definition C14_failing_send_ex_outcome := failing_send_ex_outcome.
Definition C14_mixed_delivery_ex_hypotheses := loop_ex_hypotheses.
Definition C14_mixed_delivery_ex_outcome := loop_ex_outcome.
Definition C14_notice_served_ex := notice_served_ex.
