(* C06 - Module identity: unique ids, sound dynamic ids.  Property theorems only
   (proofs: Proofs/Connect.v, Proofs/StepInv.v, Proofs/Assign.v).  The client-side half of the
   property (options passed through Client.connect / client_context reach the CONNECT frames under the
   names they were given): Gen/ClientConnect.v is regenerated from client.py by following the argument
   bindings of client_context -> Client(...) / .connect(...) -> _connect_helper(...) symbolically;
   C06_connect_options_named / C06_context_options_named state that every option lands in its own field.
   The same is observed on the wire by the plumbing probe of vlib/props/C06.py (real Client, scripted peer). *)
From Coq Require Import ZArith List Bool Lia.
From Mgr Require Import Gen.MgrDefs Gen.ClientConnect Model.Manager Proofs.RegInv Proofs.RegTop Proofs.Connect Proofs.StepInv Proofs.Assign.
Import ListNotations.
Open Scope Z_scope.

(* at every moment (every reachable state, any history, any service order, any faults) no two
   connected modules hold the same id unless both allow multiple instances *)
Theorem C06_unique : forall cfg fuel es u s, run cfg fuel es = Ok u s ->
  forall a b, In a (mods s) -> In b (mods s) -> live a -> live b -> m_conn a <> m_conn b ->
              m_mod_id a = m_mod_id b -> m_unique a = false /\ m_unique b = false.
Proof.
  intros cfg fuel es u s H. pose proof (run_safe cfg fuel es) as R. rewrite H in R.
  destruct R as (_ & _ & U & _). exact U.
Qed.

(* what a connection request does, from any state satisfying the invariants: either the requester was
   already connected and nothing changes, or afterwards: every OTHER module keeps its identity
   (the incumbent is not disturbed), and if the requester is (still) registered its id is in range and,
   if it is now connected, it clashes with no live module unless both are non-unique *)
Theorem C06_connect : forall cfg fuel c h ip s, RegInv s -> DynInv s ->
  m_reg (find_mod c (mods s)) = true ->
  match connect_module cfg fuel c h ip s with
  | Ok b s' => RegInv s' /\ KeepX c s s' /\ DynInv s' /\
               ((m_connected (find_mod c (mods s)) = true /\ s' = s) \/
                (m_connected (find_mod c (mods s)) = false /\ ConnPost c s'))
  | Crash e _ => e = XFuel
  end.
Proof. exact connect_module_spec. Qed.

(* user-assignable range, as the generated guard states it *)
Theorem C06_user_range : forall mid, bad_user_id mid = false <-> 1 <= mid <= DYN_MOD_ID_START.
Proof. intros mid. unfold bad_user_id. lia. Qed.

(* dynamic ids: the scan returns an id of the dynamic range held by nobody in `used`, from any cursor
   position (the wrap of the cursor is covered: the statement is for every offset); it gives up only when
   every dynamic id is in use *)
Theorem C06_dynamic_fresh : forall used off,
  0 <= off < MAX_DYN_IDS ->
  match assign_loop (Z.to_nat MAX_DYN_IDS) off used with
  | (Some mid, off') => ~ In mid used /\ DYN_MOD_ID_START <= mid < MAX_MODULES /\ 0 <= off' < MAX_DYN_IDS
  | (None, _) => forall mid, DYN_MOD_ID_START <= mid < MAX_MODULES -> In mid used
  end.
Proof.
  intros used off Hoff. pose proof (assign_loop_spec used (Z.to_nat MAX_DYN_IDS) off Hoff) as S.
  destruct (assign_loop (Z.to_nat MAX_DYN_IDS) off used) as [[mid|] off'] eqn:E; [exact S|].
  intros mid Hmid. eapply assign_none_all_used; eauto.
Qed.

(* non-vacuity: two clients asking for id 10, the second is refused; a third asking for id 0 gets 100 *)
Definition Hc (sm : Z) : hdr := mkHdr MT_CONNECT 1 0 sm 0 0 4 7.
Example C06_ex :
  match run (mkConfig 60 true) 60%nat
    [ERound true [] [] 0; ERound true [] [] 0; ERound true [] [] 0;
     ERound false [(1, IFrame (Hc 10) (InConnect 0 0)); (2, IFrame (Hc 10) (InConnect 0 0)); (3, IFrame (Hc 0) (InConnect 0 0))] [1;2;3] 0] with
  | Ok _ s => map (fun m => (m_conn m, m_mod_id m, m_reg m, m_connected m)) (mods s)
  | Crash _ _ => []
  end = [(0, 0, true, true); (1, 10, true, true); (2, 10, false, false); (3, 100, true, true)].
Proof. vm_compute. reflexivity. Qed.

(* ---- the client side: options reach the manager under their own names ---- *)
Theorem C06_connect_options_named : forall mid lg dm am,
  connect_fields mid lg dm am =
  {| v2_logger := b2z lg; v2_daemon := b2z dm; v2_allow_multiple := b2z am; v2_mod_id := mid;
     v1_logger := b2z lg; v1_daemon := b2z dm |}.
Proof. intros mid lg dm am. unfold connect_fields. destruct (mid =? 0) eqn:E; [apply Z.eqb_eq in E; subst|]; reflexivity. Qed.

(* client_context has no daemon option: the daemon fields are 0, allow_multiple is allow_multiple *)
Theorem C06_context_options_named : forall mid lg am,
  context_fields mid lg am =
  {| v2_logger := b2z lg; v2_daemon := 0; v2_allow_multiple := b2z am; v2_mod_id := mid;
     v1_logger := b2z lg; v1_daemon := 0 |}.
Proof. intros mid lg am. unfold context_fields. destruct (mid =? 0) eqn:E; [apply Z.eqb_eq in E; subst|]; reflexivity. Qed.

