(* C03 - No client can take the manager down.  Property theorems only (proofs: Proofs/StepInv.v).
   Model: Model/Manager.v - every partial operation of manager.py is an explicit Crash
   (ValueError / IndexError / UnicodeDecodeError / OSError / "changed size during iteration" /
   KeyError / RuntimeError), every client-controlled value is an unconstrained Z, the service
   order, writable sets, read outcomes (frame / EOF / reset / truncated) and the send-fault plan
   are inputs.  XFuel is the model's budget for nested forward_message calls (Python's own
   limit is its recursion limit; see C03_fuel_note). *)
From Coq Require Import ZArith List Bool.
From Mgr Require Import Gen.MgrDefs Model.Manager Model.Encode Proofs.RegInv Proofs.Frame Proofs.RegTraverse Proofs.RegTop Proofs.Connect Proofs.StepInv Proofs.Fuel Proofs.FuelTop Proofs.FuelLower.
Import ListNotations.
Open Scope Z_scope.

(* for every configuration and every finite history of events - any header field, any declared
   length, any name bytes, EOF/reset at any point, any service order, any set of simultaneous
   write failures - the manager does not raise; the only non-Ok outcome of the MODEL is running
   out of its nesting budget *)
Theorem C03_never_crashes : forall cfg fuel es,
  match run cfg fuel es with Ok _ _ => True | Crash e _ => e = XFuel end.
Proof. intros cfg fuel es. pose proof (run_safe cfg fuel es) as H. destruct (run cfg fuel es); auto. Qed.

(* and every reachable state satisfies the registry / identity invariants, so the manager keeps
   routing for everybody else (recipients are exactly the registered, open modules of the lists) *)
Theorem C03_reachable_invariant : forall cfg fuel es u s, run cfg fuel es = Ok u s -> StepInv s.
Proof. intros cfg fuel es u s H. pose proof (run_safe cfg fuel es) as R. rewrite H in R. exact R. Qed.

(* How much nesting can a delivery need?  At any state satisfying the registry invariant (every reachable
   state does) with at most n live modules (registered, socket open), forward_message with a nesting budget
   of 2*n + 2 (2*n + 1 for a valid-destination log record / failure notice) does not crash AT ALL: every
   re-entry either publishes a notice about a message that itself provokes no further notice, or happens
   after one more live module has been closed.  The implementation's budget is Python's recursion limit:
   the deep-cascade history of the check (hundreds of subscribers failing at the same instant) exhausts it -
   that is the recorded finding crash:RecursionError:deep-cascade; nothing else can go wrong. *)
Theorem C03_fuel_bound : forall cfg fuel X n h p s,
  RegInvX X s -> (live s <= n)%nat -> (2 * n + rank h <= fuel)%nat ->
  exists s', forward cfg fuel h p s = Ok tt s' /\ RegInvX X s' /\ Frame s s'.
Proof.
  intros cfg fuel X n h p s H Hl Hb.
  destruct (J_NC_ok X n (forward cfg fuel h p) s (J_forward cfg fuel X h p) (NC_forward cfg fuel X n h p Hb) H Hl)
    as ([] & s' & E & H' & F). eauto.
Qed.

(* Whole histories: with a nesting budget of 2 * (accepted connections + 1) + 2 the manager never stops -
   for every configuration and EVERY finite history of events it runs to completion in a state satisfying
   the step invariant.  (The manager's own module counts as one; `accepts es` is the number of rounds of es
   in which a connection is accepted.) *)
Theorem C03_total : forall cfg FUEL es,
  (2 * (accepts es + 1) + 2 <= FUEL)%nat ->
  exists s, run cfg FUEL es = Ok tt s /\ StepInv s.
Proof. exact run_total. Qed.

(* the bound is of the right order: three subscribers of CLIENT_CLOSED failing together *)
Example C03_total_ex :
  (2 * (accepts ex_cascade + 1) + 2 = 10)%nat /\
  exn_code_of (run (mkConfig 60 true) 2%nat ex_cascade) <> 0 /\
  exn_code_of (run (mkConfig 60 true) 10%nat ex_cascade) = 0.
Proof. vm_compute. repeat split; discriminate. Qed.

(* ... and NO fixed budget is enough: for every B there is a finite history of legal client behaviour
   (B+1 connections subscribe to CLIENT_CLOSED, all fail at the same instant, the first one hangs up) on which a
   budget of B is exhausted.  This is the formal counterpart of the recorded finding crash:RecursionError:deep-cascade:
   the implementation's budget (Python's recursion limit) is fixed, so "no client can take the manager down" is
   refuted for it, while a budget linear in the number of connections suffices (C03_total).  cascade n needs
   exactly n levels (C03_cascade_window: exhausts n-1, completes with 2(n+1)+2). *)
Theorem C03_refuted_for_any_fixed_budget : forall B : nat,
  exists es, match run (mkConfig 60 true) B es with Crash XFuel _ => True | _ => False end.
Proof. exact no_fixed_budget. Qed.

Theorem C03_cascade_window : forall n, (1 <= n)%nat ->
  crashes_fuel (run kcfg (n - 1) (cascade n)) /\
  forall F, (2 * (n + 1) + 2 <= F)%nat -> exists s, run kcfg F (cascade n) = Ok tt s.
Proof. exact cascade_window. Qed.

Theorem C03_rank_le_2 : forall h, (1 <= rank h <= 2)%nat.
Proof. exact rank_le. Qed.

(* the worst outcome for an offender is that its own connection is removed: a frame with an invalid
   declared length is answered by removing that module only *)
Theorem C03_bad_length_only_offender : forall cfg fuel c h ip s,
  bad_size (h_nbytes h) = true -> m_reg (find_mod c (mods s)) = true ->
  service cfg fuel c (IFrame h ip) s = (remove_module cfg fuel c ;;; mlog cfg fuel 30) s.
Proof.
  intros cfg fuel c h ip s Hb Hr. unfold service. unfold bind at 1. unfold get. rewrite Hr, Hb. reflexivity.
Qed.

Theorem C03_bad_size_range : forall n, bad_size n = true <-> (n < 0 \/ DATA_BUFFER_SIZE < n).
Proof. intros n. unfold bad_size, bad_size_guard. rewrite orb_true_iff, !Z.ltb_lt. tauto. Qed.

(* non-vacuity: a history with a negative length, a type id >= MAX_MESSAGE_TYPES followed by a
   TIMING tick, a non-ascii name, two subscribers whose writes fail in the same delivery, and a
   logger whose write fails on an acknowledgement copy - all of which killed the pinned manager -
   runs to completion *)
Definition H0 (t nb : Z) : hdr := mkHdr t 1 0 0 0 0 nb 7.
Example C03_ex_survives :
  exn_code_of (run (mkConfig 10 true) 60%nat
    [ERound true [] [] 0; ERound true [] [] 0; ERound true [] [] 0; ERound true [] [] 0;
     ERound false [(1, IFrame (H0 MT_CONNECT 4) (InConnect 1 0))] [1;2;3;4] 0;
     ERound false [(2, IFrame (H0 MT_SUBSCRIBE 4) (InSub 100)); (3, IFrame (H0 MT_SUBSCRIBE 4) (InSub 100))] [1;2;3;4] 0;
     ERound false [(3, IFrame (H0 MT_SUBSCRIBE 4) (InSub MT_CLIENT_CLOSED))] [1;2;3;4] 0;
     EFault 2 0; EFault 3 0; EFault 1 1;
     ERound false [(4, IFrame (H0 100 1) (InData 5))] [1;2;3;4] 1;
     ERound false [(4, IFrame (H0 10000 0) (InData 0))] [4] 1;
     ERound false [(4, IFrame (H0 MT_CONNECT_V2 44) (InConnectV2 0 0 0 0 9 5 false))] [4] 2;
     ERound true [] [] 2;
     ERound false [(5, IFrame (H0 100 (-1)) InNone)] [5] 2;
     ERound false [] [] 30]) = 0.
Proof. vm_compute. reflexivity. Qed.
