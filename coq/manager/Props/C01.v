(* C01 - Pub/sub routing is exact.  Property theorems only (proofs: Proofs/Routing.v, Proofs/StepInv.v).
   Stage proved here: at every reachable state the recipient snapshot of forward_message is
   duplicate-free (exactly once), consists of registered open modules that asked for the type or for all
   types, the destination guards are the protocol's ranges, the destination filter is the stated one,
   an invalid destination delivers to nobody, and forward_message itself never changes anybody's
   subscriptions except by removing dead connections (Frame).  The byte-level statement "the frames
   written for a publish are exactly these recipients, unmodified" is decided against the implementation by
   the model correspondence and the spec oracle of vlib/mgr_oracles.py (check_C01). *)
From Coq Require Import ZArith List Bool Lia.
From Mgr Require Import Gen.MgrDefs Model.Manager Proofs.RegInv Proofs.Frame Proofs.RegTraverse Proofs.RegTop
                        Proofs.Connect Proofs.StepInv Proofs.Routing.
Import ListNotations.
Open Scope Z_scope.

Theorem C01_exactly_once : forall cfg fuel es u s t, run cfg fuel es = Ok u s ->
  t <> ALL_MESSAGE_TYPES -> NoDup (snapshot s t).
Proof.
  intros cfg fuel es u s t H Ht. pose proof (run_safe cfg fuel es) as R. rewrite H in R.
  destruct R as (R & _). eapply snapshot_NoDup; eauto.
Qed.

Theorem C01_recipients_subscribed : forall cfg fuel es u s t c, run cfg fuel es = Ok u s -> In c (snapshot s t) ->
  m_reg (find_mod c (mods s)) = true /\ m_closed (find_mod c (mods s)) = false /\
  (In t (m_subs (find_mod c (mods s))) \/ m_subs (find_mod c (mods s)) = [ALL_MESSAGE_TYPES]).
Proof.
  intros cfg fuel es u s t c H Hin. pose proof (run_safe cfg fuel es) as R. rewrite H in R.
  destruct R as (R & _). eapply snapshot_wants; eauto.
Qed.

(* destination guards = the protocol's valid ranges *)
Theorem C01_valid_dest : forall dm dh,
  (bad_dest_mod dm = false <-> 0 <= dm <= MAX_MODULES) /\ (bad_dest_host dh = false <-> 0 <= dh <= MAX_HOSTS).
Proof. intros dm dh. unfold bad_dest_mod, bad_dest_host. lia. Qed.

Theorem C01_dest_filter : forall dm mid lg, dest_filter dm mid lg = true <-> (dm = 0 \/ mid = dm \/ lg = true).
Proof. intros dm mid lg. unfold dest_filter. destruct lg; lia. Qed.

(* an out-of-range destination is delivered to nobody: after counting, only the error log is forwarded *)
Theorem C01_invalid_dest_nobody : forall cfg rec h p,
  bad_dest_mod (h_dst_mod h) = true \/ bad_dest_host (h_dst_host h) = true ->
  forward_body cfg rec h p = (count_msg cfg (h_type h) ;;; mlog_with cfg rec 40).
Proof.
  intros cfg rec h p [H|H]; unfold forward_body; [rewrite H; reflexivity|].
  destruct (bad_dest_mod (h_dst_mod h)); [reflexivity|rewrite H; reflexivity].
Qed.

(* the three-way decision for one recipient of the snapshot *)
Theorem C01_deliver_decision : forall cfg rec p hh c s,
  m_reg (find_mod c (mods s)) = true ->
  deliver_with cfg rec p hh c s =
    (if zmem c (wl s) then
       if dest_filter (h_dst_mod hh) (m_mod_id (find_mod c (mods s))) (m_logger (find_mod c (mods s)))
       then send_checked_with cfg rec c hh p s else Ok hh s
     else if m_logger (find_mod c (mods s)) then
       if m_closed (find_mod c (mods s)) then Crash XValueError s else send_checked_with cfg rec c hh p s
     else (set_mod c (fun m => mm_drops m (m_drops m + 1)) ;;; send_failed_with rec c hh ;;; ret hh) s).
Proof.
  intros cfg rec p hh c s Hr. unfold deliver_with. unfold bind at 1. unfold get. rewrite Hr. simpl.
  destruct (zmem c (wl s)); [destruct (dest_filter _ _ _); reflexivity|].
  destruct (m_logger (find_mod c (mods s))); [destruct (m_closed _); reflexivity|reflexivity].
Qed.

(* a successful write carries the published header (only msg_count is stamped) and the payload *)
Theorem C01_unmodified : forall c h p s,
  0 <= c -> m_closed (find_mod c (mods s)) = false -> flookup c (faults s) = None ->
  exists s', mod_send c h p s = Ok (SOk, set_count h (m_count (find_mod c (mods s)) + 1)) s' /\
             out s' = out s ++ [(c, OHdr (set_count h (m_count (find_mod c (mods s)) + 1))); (c, OPay p)].
Proof. exact mod_send_ok. Qed.

(* non-vacuity: addressed message, logger, all-subscriber, unwritable subscriber *)
Definition Hx (t sm dm nb x : Z) : hdr := mkHdr t 1 0 sm 0 dm nb x.
Example C01_ex :
  match run (mkConfig 60 true) 60%nat
    [ERound true [] [] 0; ERound true [] [] 0; ERound true [] [] 0; ERound true [] [] 0; ERound true [] [] 0;
     ERound false [(1, IFrame (Hx MT_CONNECT 10 0 4 1) (InConnect 0 0)); (2, IFrame (Hx MT_CONNECT 11 0 4 2) (InConnect 0 0));
                   (3, IFrame (Hx MT_CONNECT 12 0 4 3) (InConnect 1 0)); (4, IFrame (Hx MT_CONNECT 13 0 4 4) (InConnect 0 0))] [1;2;3;4;5] 0;
     ERound false [(1, IFrame (Hx MT_SUBSCRIBE 10 0 4 5) (InSub 100)); (2, IFrame (Hx MT_SUBSCRIBE 11 0 4 6) (InSub ALL_MESSAGE_TYPES));
                   (3, IFrame (Hx MT_SUBSCRIBE 12 0 4 7) (InSub 100)); (4, IFrame (Hx MT_SUBSCRIBE 13 0 4 8) (InSub 100))] [1;2;3;4;5] 0;
     ERound false [(5, IFrame (Hx 100 0 11 3 9) (InData 77))] [1;2;4;5] 0] with
  | Ok _ s => map fst (filter (fun ci => match snd ci with OPay (PData 77 _) => true | _ => false end) (out s))
  | Crash _ _ => []
  end = [3; 2].
Proof. vm_compute. reflexivity. Qed.
