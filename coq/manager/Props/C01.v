(* C01 - Pub/sub routing is exact.  Property theorems only (proofs: Proofs/Routing.v, Proofs/StepInv.v,
   Proofs/Exact.v, Proofs/ExactTop.v).
   - C01_forward_exact (end to end, every reachable state): when the environment lets every member of the
     recipient snapshot be written to (writable, no failing send), forward_message of a message with a valid
     destination writes to each connection c exactly: one whole frame - the published header with only
     msg_count stamped, and the payload unchanged - if c is in the snapshot and passes the destination
     filter; NOTHING otherwise.  The snapshot is duplicate-free and consists of registered open modules
     subscribed to the type or to all types (C01_exactly_once, C01_recipients_subscribed), the filter is the
     stated one (C01_dest_filter), the destination guards are the protocol's ranges (C01_valid_dest), an
     invalid destination delivers to nobody (C01_invalid_dest_nobody).
   - C01_only_recipients (the safety half, UNCONDITIONAL: every reachable state, any nesting budget, whoever is not
     writable, whatever sends fail, however deep the nested removals and notices go, Ok or Crash): every copy of a
     published message (a header equal to the published one up to the stamped sequence number; the published header is
     not of the manager's own form, h_extra <> 0) is written to a member of the recipient snapshot that passes the
     destination filter - hence a registered, open subscriber of the type or of all types at that moment -, is
     followed on that connection by exactly the published payload, at most ONE copy goes to any connection, and a
     message with an out-of-range destination module or host is copied to nobody.
   - C01_healthy_served (the liveness half, UNCONDITIONAL about everybody else): a subscriber of the type (or of all
     types) at that moment that can accept data, passes the filter and whose own sends do not fail gets EXACTLY ONE
     copy - one whole frame, the published header with only msg_count stamped, the published payload - whatever happens
     to the other recipients, to the notice subscribers, at whatever nesting depth, and is still registered, open and
     subscribed afterwards.  C01_service_total: at a reachable state with nesting budget 2 * modules + 2 this holds
     for what run() does with a ready data frame, with no termination hypothesis at all.
   - What happens to a recipient that is NOT writable or whose send fails is C14's subject
     (C01_deliver_decision is the three-way decision shared with it).
   The same statements are decided against the implementation by the model correspondence and the spec
   oracle of vlib/mgr_oracles.py (check_C01). *)
From Coq Require Import ZArith List Bool Lia.
From Mgr Require Import Gen.MgrDefs Model.Manager Proofs.RegInv Proofs.Frame Proofs.RegTraverse Proofs.RegTop
                        Proofs.Connect Proofs.StepInv Proofs.Routing Proofs.OutInv Proofs.C05Inv Proofs.Hoare Proofs.Exact Proofs.ExactTop Proofs.LoopExact Proofs.OnlyRecipients Proofs.HealthyServed.
Import ListNotations.
Open Scope Z_scope.

Theorem C01_exactly_once : forall cfg fuel es u s t, run cfg fuel es = Ok u s ->
  t <> ALL_MESSAGE_TYPES -> NoDup (snapshot s t).
Proof.
  intros cfg fuel es u s t H Ht. pose proof (run_safe cfg fuel es) as R. rewrite H in R.
  destruct R as (R & _). eapply snapshot_NoDup; eauto.
Qed.

Theorem C01_recipients_subscribed : forall cfg fuel es u s t c, run cfg fuel es = Ok u s -> In c (snapshot s t) ->
  m_reg (find_mod c (mods s)) = true /\ m_closed (find_mod c (mods s)) = false /\
  (In t (m_subs (find_mod c (mods s))) \/ m_subs (find_mod c (mods s)) = [ALL_MESSAGE_TYPES]).
Proof.
  intros cfg fuel es u s t c H Hin. pose proof (run_safe cfg fuel es) as R. rewrite H in R.
  destruct R as (R & _). eapply snapshot_wants; eauto.
Qed.

(* destination guards = the protocol's valid ranges *)
Theorem C01_valid_dest : forall dm dh,
  (bad_dest_mod dm = false <-> 0 <= dm <= MAX_MODULES) /\ (bad_dest_host dh = false <-> 0 <= dh <= MAX_HOSTS).
Proof. intros dm dh. unfold bad_dest_mod, bad_dest_host. lia. Qed.

Theorem C01_dest_filter : forall dm mid lg, dest_filter dm mid lg = true <-> (dm = 0 \/ mid = dm \/ lg = true).
Proof. intros dm mid lg. unfold dest_filter. destruct lg; lia. Qed.

(* an out-of-range destination is delivered to nobody: after counting, only the error log is forwarded *)
Theorem C01_invalid_dest_nobody : forall cfg rec h p,
  bad_dest_mod (h_dst_mod h) = true \/ bad_dest_host (h_dst_host h) = true ->
  forward_body cfg rec h p = (count_msg cfg (h_type h) ;;; mlog_with cfg rec 40).
Proof.
  intros cfg rec h p [H|H]; unfold forward_body; [rewrite H; reflexivity|].
  destruct (bad_dest_mod (h_dst_mod h)); [reflexivity|rewrite H; reflexivity].
Qed.

(* the three-way decision for one recipient of the snapshot *)
Theorem C01_deliver_decision : forall cfg rec p hh c s,
  m_reg (find_mod c (mods s)) = true ->
  deliver_with cfg rec p hh c s =
    (if zmem c (wl s) then
       if dest_filter (h_dst_mod hh) (m_mod_id (find_mod c (mods s))) (m_logger (find_mod c (mods s)))
       then send_checked_with cfg rec c hh p s else Ok hh s
     else if m_logger (find_mod c (mods s)) then
       if m_closed (find_mod c (mods s)) then Crash XValueError s else send_checked_with cfg rec c hh p s
     else (set_mod c (fun m => mm_drops m (m_drops m + 1)) ;;; send_failed_with rec c hh ;;; ret hh) s).
Proof.
  intros cfg rec p hh c s Hr. unfold deliver_with. unfold bind at 1. unfold get. rewrite Hr. simpl.
  destruct (zmem c (wl s)); [destruct (dest_filter _ _ _); reflexivity|].
  destruct (m_logger (find_mod c (mods s))); [destruct (m_closed _); reflexivity|reflexivity].
Qed.

(* a successful write carries the published header (only msg_count is stamped) and the payload *)
Theorem C01_unmodified : forall c h p s,
  0 <= c -> m_closed (find_mod c (mods s)) = false -> flookup c (faults s) = None ->
  exists s', mod_send c h p s = Ok (SOk, set_count h (m_count (find_mod c (mods s)) + 1)) s' /\
             out s' = out s ++ [(c, OHdr (set_count h (m_count (find_mod c (mods s)) + 1))); (c, OPay p)].
Proof. exact mod_send_ok. Qed.

(* non-vacuity: addressed message, logger, all-subscriber, unwritable subscriber *)
Definition Hx (t sm dm nb x : Z) : hdr := mkHdr t 1 0 sm 0 dm nb x.
Example C01_ex :
  match run (mkConfig 60 true) 60%nat
    [ERound true [] [] 0; ERound true [] [] 0; ERound true [] [] 0; ERound true [] [] 0; ERound true [] [] 0;
     ERound false [(1, IFrame (Hx MT_CONNECT 10 0 4 1) (InConnect 0 0)); (2, IFrame (Hx MT_CONNECT 11 0 4 2) (InConnect 0 0));
                   (3, IFrame (Hx MT_CONNECT 12 0 4 3) (InConnect 1 0)); (4, IFrame (Hx MT_CONNECT 13 0 4 4) (InConnect 0 0))] [1;2;3;4;5] 0;
     ERound false [(1, IFrame (Hx MT_SUBSCRIBE 10 0 4 5) (InSub 100)); (2, IFrame (Hx MT_SUBSCRIBE 11 0 4 6) (InSub ALL_MESSAGE_TYPES));
                   (3, IFrame (Hx MT_SUBSCRIBE 12 0 4 7) (InSub 100)); (4, IFrame (Hx MT_SUBSCRIBE 13 0 4 8) (InSub 100))] [1;2;3;4;5] 0;
     ERound false [(5, IFrame (Hx 100 0 11 3 9) (InData 77))] [1;2;4;5] 0] with
  | Ok _ s => map fst (filter (fun ci => match snd ci with OPay (PData 77 _) => true | _ => false end) (out s))
  | Crash _ _ => []
  end = [3; 2].
Proof. vm_compute. reflexivity. Qed.

(* ---- end to end ---- *)
Theorem C01_forward_exact : forall cfg fuel es u s (k : nat) h p,
  run cfg fuel es = Ok u s ->
  h_type h <> ALL_MESSAGE_TYPES ->
  bad_dest_mod (h_dst_mod h) = false -> bad_dest_host (h_dst_host h) = false ->
  (forall c, In c (snapshot s (h_type h)) -> zmem c (wl s) = true /\ flookup c (faults s) = None) ->
  exists s', forward cfg (Datatypes.S k) h p s = Ok tt s' /\
    out s' = out s ++ frames h p s (snapshot s (h_type h)) /\
    forall c, proj c (out s') = proj c (out s) ++
      (if in_dec Z.eq_dec c (snapshot s (h_type h))
       then if dest_filter (h_dst_mod h) (m_mod_id (find_mod c (mods s))) (m_logger (find_mod c (mods s)))
            then [OHdr (set_count h (m_count (find_mod c (mods s)) + 1)); OPay p] else []
       else []).
Proof. exact forward_exact_reachable. Qed.

(* the hypotheses are met by a non-trivial reachable state: three subscribers (one addressed, one logger,
   one neither), all writable *)
Example C01_forward_exact_ex :
  match run (mkConfig 60 true) 60%nat
    [ERound true [] [] 0; ERound true [] [] 0; ERound true [] [] 0;
     ERound false [(1, IFrame (Hx MT_CONNECT 10 0 4 1) (InConnect 0 0)); (2, IFrame (Hx MT_CONNECT 11 0 4 2) (InConnect 1 0));
                   (3, IFrame (Hx MT_CONNECT 12 0 4 3) (InConnect 0 0))] [1;2;3] 0;
     ERound false [(1, IFrame (Hx MT_SUBSCRIBE 10 0 4 5) (InSub 100)); (2, IFrame (Hx MT_SUBSCRIBE 11 0 4 6) (InSub 100));
                   (3, IFrame (Hx MT_SUBSCRIBE 12 0 4 7) (InSub 100))] [1;2;3] 0] with
  | Ok _ s => let h := Hx 100 12 10 3 9 in
              (snapshot s 100,
               forallb (fun c => zmem c (wl s) && match flookup c (faults s) with None => true | _ => false end) (snapshot s 100),
               map (fun c => dest_filter (h_dst_mod h) (m_mod_id (find_mod c (mods s))) (m_logger (find_mod c (mods s)))) (snapshot s 100))
  | Crash _ _ => ([], false, [])
  end = ([1; 2; 3], true, [true; true; false]).
Proof. vm_compute. reflexivity. Qed.

(* ---- the safety half, unconditional ---- *)
Theorem C01_only_recipients : forall cfg fuel es u s (k : nat) h p,
  run cfg fuel es = Ok u s -> h_extra h <> 0 -> h_type h <> ALL_MESSAGE_TYPES ->
  exists suf, out (st (forward cfg k h p s)) = out s ++ suf /\ OnlyRecipients h p s suf.
Proof. exact only_recipients_reachable. Qed.

Theorem C01_only_recipients_service : forall cfg fuel es u s FUEL c h ip,
  run cfg fuel es = Ok u s -> data_type (h_type h) -> h_extra h <> 0 -> h_type h <> ALL_MESSAGE_TYPES ->
  exists suf, out (st (service cfg FUEL c (IFrame h ip) s)) = out s ++ suf /\ OnlyRecipients h (data_payload h ip) s suf.
Proof. exact service_only_recipients_reachable. Qed.

(* OnlyRecipients spelled out *)
Theorem C01_only_recipients_meaning : forall h p s suf, OnlyRecipients h p s suf ->
  (forall c h', In (c, OHdr h') suf -> same_msg h h' ->
      In c (snapshot s (h_type h)) /\ eligible (h_dst_mod h) s c = true /\ exists n, h' = set_count h n) /\
  (forall a b c h' c2 q, suf = a ++ (c, OHdr h') :: (c2, OPay q) :: b -> same_msg h h' -> c2 = c /\ q = p) /\
  (forall c, (length (filter (same_item h) (proj c suf)) <= 1)%nat) /\
  (bad_dest h = true -> forall c h', In (c, OHdr h') suf -> ~ same_msg h h').
Proof. intros h p s suf [A B C D]. auto. Qed.

Definition C01_only_recipients_ex := only_recipients_ex.
Definition C01_only_recipients_ex_invalid := only_recipients_ex_invalid.

(* ---- the liveness half, unconditional about everybody else ---- *)
Theorem C01_healthy_served : forall cfg fuel es u s (k : nat) h p c s',
  run cfg fuel es = Ok u s -> h_extra h <> 0 -> h_type h <> ALL_MESSAGE_TYPES ->
  bad_dest_mod (h_dst_mod h) = false -> bad_dest_host (h_dst_host h) = false ->
  In c (snapshot s (h_type h)) -> zmem c (wl s) = true -> eligible (h_dst_mod h) s c = true ->
  flookup c (faults s) = None ->
  forward cfg k h p s = Ok tt s' ->
  exists suf, out s' = out s ++ suf /\ served_once h p c suf /\ still_healthy c s s'.
Proof. exact healthy_recipient_served_reachable. Qed.

Theorem C01_service_total : forall cfg fuel es u s FUEL c0 h ip c,
  run cfg fuel es = Ok u s -> (2 * length (mods s) + 2 <= FUEL)%nat ->
  m_reg (find_mod c0 (mods s)) = true -> bad_size (h_nbytes h) = false ->
  data_type (h_type h) -> h_extra h <> 0 -> h_type h <> ALL_MESSAGE_TYPES ->
  bad_dest_mod (h_dst_mod h) = false -> bad_dest_host (h_dst_host h) = false ->
  In c (snapshot s (h_type h)) -> zmem c (wl s) = true -> eligible (h_dst_mod h) s c = true ->
  flookup c (faults s) = None ->
  exists s' suf, service cfg FUEL c0 (IFrame h ip) s = Ok tt s' /\
                 out s' = out s ++ suf /\ served_once h (data_payload h ip) c suf /\ still_healthy c s s'.
Proof. exact service_healthy_served_total. Qed.

Theorem C01_served_once_meaning : forall h p c suf, served_once h p c suf ->
  (exists a n b, suf = a ++ [(c, OHdr (set_count h n)); (c, OPay p)] ++ b /\
                 filter (same_item h) (proj c a) = [] /\ filter (same_item h) (proj c b) = []) /\
  length (filter (same_item h) (proj c suf)) = 1%nat.
Proof. intros h p c suf H. exact H. Qed.

Definition C01_healthy_served_ex := healthy_served_ex.
Definition C01_healthy_served_ex_monitor_fails := healthy_served_ex_monitor_fails.
