(* C05 - Per-connection order, whole frames and gap-free sequence numbers.  Property theorems only.
   For EVERY history (any event list, any fuel, any configuration):
   - C05_stream_frames: what the manager has written to a connection c is unframe fs ++ tail, where fs is a
     list of whole frames (header, then a payload of EXACTLY the size the header declares, nothing in
     between), the sequence numbers in fs are
     exactly 1, 2, ..., length fs, and tail is empty or a single header numbered length fs + 1 on a connection
     that is dead (closed, or its sendall has started failing: the payload write failed after the header write).
     Acknowledgements, failure notices, periodic manager messages and forwarded client messages all go through
     the one counter.
   - C05_append_only / C05_service_appends: the global write log only grows - everything written while handling
     later events (or later ready connections of one round) comes after everything written before, on every
     connection, so each receiver's stream is a projection of ONE total order (same relative order at any two
     receivers; one sender's messages in the order the manager read them).
   - C05_sender_order / C05_same_relative_order (Proofs/OrderServed.v): two data frames serviced one after the other
     (same sender or not): every receiver that is subscribed, writable, eligible and whose own sends do not fail gets
     exactly one copy of each, the first one first and with a smaller sequence number - whatever happens to other
     recipients; two such receivers see them in the same relative order.
   Step-level facts (C05_stamp, C05_sendall_appends, sizes) are kept.  Declared payload sizes: see
   C05_failed_notice_sized / C05_ack_is_whole_frame / C05_forward_sized (call-site level) and the
   correspondence, which compares the byte length of every payload written by the implementation. *)
From Coq Require Import ZArith List Bool Lia.
From Mgr Require Import Gen.MgrDefs Model.Manager Proofs.Hoare Proofs.RegInv Proofs.RegTop Proofs.StepInv Proofs.Routing Proofs.OutInv Proofs.C05Inv Proofs.Exact Proofs.OnlyRecipients Proofs.HealthyServed Proofs.OrderServed.
Import ListNotations.
Open Scope Z_scope.

Theorem C05_stamp : forall c h p s,
  0 <= c -> m_closed (find_mod c (mods s)) = false -> flookup c (faults s) = None ->
  exists s', mod_send c h p s = Ok (SOk, set_count h (m_count (find_mod c (mods s)) + 1)) s' /\
             out s' = out s ++ [(c, OHdr (set_count h (m_count (find_mod c (mods s)) + 1))); (c, OPay p)].
Proof. exact mod_send_ok. Qed.

(* sendall only ever appends *)
Theorem C05_sendall_appends : forall c it s,
  match sendall c it s with
  | Ok SOk s' => out s' = out s ++ [(c, it)]
  | Ok _ s' => out s' = out s
  | Crash _ _ => False
  end.
Proof.
  intros c it s. unfold sendall. destruct (m_closed (find_mod c (mods s))); [reflexivity|].
  destruct (flookup c (faults s)) as [n|]; [destruct (n <=? 0)|]; reflexivity.
Qed.

(* manager-originated headers declare the size of the payload they carry (pay_size: Proofs/OutInv.v) *)
Theorem C05_failed_notice_sized : forall rec c hh s, zmem (h_type hh) no_notice_types = false ->
  send_failed_with rec c hh s =
  rec (mgr_hdr MT_FAILED_MESSAGE (pay_size (PFailed (m_mod_id (find_mod c (mods s))) hh)) 0)
      (PFailed (m_mod_id (find_mod c (mods s))) hh) s.
Proof. intros rec c hh s H. unfold send_failed_with. rewrite H. reflexivity. Qed.

Theorem C05_ack_is_whole_frame : forall cfg fuel c s,
  send_ack cfg fuel c s =
  (hh' <- send_checked cfg fuel c (mgr_hdr MT_ACKNOWLEDGE (pay_size (PData 0 0)) (m_mod_id (find_mod c (mods s)))) (PData 0 0) ;;
   send_to_loggers cfg fuel hh' (PData 0 0)) s.
Proof. reflexivity. Qed.

(* a client frame is forwarded with the payload length its header declares *)
Theorem C05_forward_sized : forall cfg fuel c h id,
  h_type h <> MT_CONNECT -> h_type h <> MT_CONNECT_V2 -> h_type h <> MT_DISCONNECT -> h_type h <> MT_SUBSCRIBE ->
  h_type h <> MT_RESUME_SUBSCRIPTION -> h_type h <> MT_UNSUBSCRIBE -> h_type h <> MT_PAUSE_SUBSCRIPTION ->
  h_type h <> MT_CLIENT_SET_NAME -> h_type h <> MT_MODULE_READY ->
  exists p, pay_size p = h_nbytes h /\ process_message cfg fuel c h (InData id) = (mlog cfg fuel 10 ;;; fwd cfg fuel h p).
Proof.
  intros cfg fuel c h id H1 H2 H3 H4 H5 H6 H7 H8 H9. exists (PData id (h_nbytes h)). split; [reflexivity|].
  unfold process_message.
  repeat match goal with Hn : h_type h <> ?k |- _ => apply Z.eqb_neq in Hn; rewrite Hn; clear Hn end. reflexivity.
Qed.

(* non-vacuity: acks, data, a failure notice and a periodic TIMING_MESSAGE interleaved on one connection:
   counts are 1..n and every header is followed by its payload *)
Definition Hz (t : Z) : hdr := mkHdr t 1 0 0 0 0 4 7.
Example C05_ex :
  match run (mkConfig 60 true) 60%nat
    [ERound true [] [] 0; ERound true [] [] 0; ERound true [] [] 0;
     ERound false [(1, IFrame (Hz MT_SUBSCRIBE) (InSub ALL_MESSAGE_TYPES)); (2, IFrame (Hz MT_SUBSCRIBE) (InSub 100))] [1;2;3] 0;
     ERound false [(3, IFrame (mkHdr 100 1 0 0 0 0 1 9) (InData 5))] [1;3] 0;
     ERound false [(3, IFrame (mkHdr 100 2 0 0 0 0 0 10) (InData 0))] [1;2;3] 5] with
  | Ok _ s => let mine := filter (fun ci => fst ci =? 1) (out s) in
              (flat_map (fun ci => match snd ci with OHdr h => [h_count h] | _ => [] end) mine,
               map (fun ci => match snd ci with OHdr _ => 1 | OPay _ => 2 end) mine)
  | Crash _ _ => ([], [])
  end = ([1; 2; 3; 4; 5; 6], [1;2; 1;2; 1;2; 1;2; 1;2; 1;2]).
Proof. vm_compute. reflexivity. Qed.

(* ---- stream-level statements, every history ---- *)
Theorem C05_stream_frames : forall cfg FUEL es c,
  exists fs tail, proj c (out (st (run cfg FUEL es))) = unframe fs ++ tail /\
    (forall f, In f fs -> pay_size (snd f) = h_nbytes (fst f)) /\
    map (fun f => h_count (fst f)) fs = seqZ 1 (length fs) /\
    (tail = [] \/ (exists h, tail = [OHdr h] /\ h_count h = Z.of_nat (length fs) + 1 /\ dead (st (run cfg FUEL es)) c)).
Proof. exact stream_frames. Qed.

Theorem C05_append_only : forall cfg FUEL es1 es2,
  exists suf, out (st (run cfg FUEL (es1 ++ es2))) = out (st (run cfg FUEL es1)) ++ suf.
Proof. exact out_append_only. Qed.

Theorem C05_per_connection_order : forall cfg FUEL es1 es2 c,
  exists suf, proj c (out (st (run cfg FUEL (es1 ++ es2)))) = proj c (out (st (run cfg FUEL es1))) ++ proj c suf.
Proof. intros cfg FUEL es1 es2 c. destruct (out_append_only cfg FUEL es1 es2) as [suf H]. exists suf. rewrite H. apply proj_app. Qed.

Theorem C05_service_appends : forall cfg FUEL c ib s,
  exists suf, out (st (service cfg FUEL c ib s)) = out s ++ suf.
Proof.
  intros cfg FUEL c ib s. apply (pres_st (Ext (out s))); [apply Ext_service|]. exists []. rewrite app_nil_r. reflexivity.
Qed.

(* the shapes used above, spelled out *)
Example C05_unframe_ex : forall h1 p1 h2 p2, unframe [(h1, p1); (h2, p2)] = [OHdr h1; OPay p1; OHdr h2; OPay p2].
Proof. reflexivity. Qed.
Example C05_seqZ_ex : seqZ 1 4 = [1; 2; 3; 4].
Proof. reflexivity. Qed.

(* ---- order of delivery, unconditional about everybody else ---- *)
Theorem C05_sender_order : forall cfg FUEL fuel es u s a h1 ip1 s1 b h2 ip2 s2 c,
  run cfg fuel es = Ok u s ->
  service cfg FUEL a (IFrame h1 ip1) s = Ok tt s1 -> service cfg FUEL b (IFrame h2 ip2) s1 = Ok tt s2 ->
  h_extra h1 <> 0 -> h_extra h2 <> 0 -> ~ same_msg h1 h2 ->
  data_type (h_type h1) -> h_type h1 <> ALL_MESSAGE_TYPES -> bad_size (h_nbytes h1) = false ->
  bad_dest_mod (h_dst_mod h1) = false -> bad_dest_host (h_dst_host h1) = false -> m_reg (find_mod a (mods s)) = true ->
  data_type (h_type h2) -> h_type h2 <> ALL_MESSAGE_TYPES -> bad_size (h_nbytes h2) = false ->
  bad_dest_mod (h_dst_mod h2) = false -> bad_dest_host (h_dst_host h2) = false -> m_reg (find_mod b (mods s1)) = true ->
  In c (snapshot s (h_type h1)) -> zmem c (wl s) = true -> eligible (h_dst_mod h1) s c = true ->
  flookup c (faults s) = None ->
  In c (snapshot s1 (h_type h2)) -> eligible (h_dst_mod h2) s1 c = true ->
  exists suf, out s2 = out s ++ suf /\
    exactly_in_order h1 (data_payload h1 ip1) h2 (data_payload h2 ip2) (proj c suf).
Proof. intros cfg FUEL. exact (two_frames_in_order cfg FUEL). Qed.

Theorem C05_same_relative_order : forall cfg FUEL fuel es u s a h1 ip1 s1 b h2 ip2 s2 c d,
  run cfg fuel es = Ok u s ->
  service cfg FUEL a (IFrame h1 ip1) s = Ok tt s1 -> service cfg FUEL b (IFrame h2 ip2) s1 = Ok tt s2 ->
  h_extra h1 <> 0 -> h_extra h2 <> 0 -> ~ same_msg h1 h2 ->
  data_type (h_type h1) -> h_type h1 <> ALL_MESSAGE_TYPES -> bad_size (h_nbytes h1) = false ->
  bad_dest_mod (h_dst_mod h1) = false -> bad_dest_host (h_dst_host h1) = false -> m_reg (find_mod a (mods s)) = true ->
  data_type (h_type h2) -> h_type h2 <> ALL_MESSAGE_TYPES -> bad_size (h_nbytes h2) = false ->
  bad_dest_mod (h_dst_mod h2) = false -> bad_dest_host (h_dst_host h2) = false -> m_reg (find_mod b (mods s1)) = true ->
  (forall r, r = c \/ r = d ->
     In r (snapshot s (h_type h1)) /\ zmem r (wl s) = true /\ eligible (h_dst_mod h1) s r = true /\ flookup r (faults s) = None /\
     In r (snapshot s1 (h_type h2)) /\ eligible (h_dst_mod h2) s1 r = true) ->
  exists suf, out s2 = out s ++ suf /\
    exactly_in_order h1 (data_payload h1 ip1) h2 (data_payload h2 ip2) (proj c suf) /\
    exactly_in_order h1 (data_payload h1 ip1) h2 (data_payload h2 ip2) (proj d suf).
Proof. intros cfg FUEL. exact (same_relative_order cfg FUEL). Qed.

Theorem C05_in_order_meaning : forall h1 p1 h2 p2 l, exactly_in_order h1 p1 h2 p2 l ->
  (exists x y z n1 n2,
     l = x ++ [OHdr (set_count h1 n1); OPay p1] ++ y ++ [OHdr (set_count h2 n2); OPay p2] ++ z /\ n1 < n2 /\
     filter (same_item h1) x = [] /\ filter (same_item h1) y = [] /\
     filter (same_item h2) y = [] /\ filter (same_item h2) z = []) /\
  length (filter (same_item h1) l) = 1%nat /\ length (filter (same_item h2) l) = 1%nat.
Proof. intros h1 p1 h2 p2 l H. exact H. Qed.

Definition C05_order_served_ex := order_served_ex.
