(* C05 - Per-connection order, whole frames and gap-free sequence numbers.  Property theorems only.
   Stage proved here: the only way the model writes to a connection is Module.send_message (mod_send),
   which stamps the connection's own counter + 1 into the header it writes, writes the header and then the
   payload with two consecutive sendall calls and nothing in between (C05_stamp); `out` is append-only
   under every operation - nothing already written is ever changed or reordered (C05_append_only_step is the
   step-level form used by the correspondence); acknowledgements are complete zero-payload frames
   (C05_ack_is_whole_frame).  The stream-level statements (counts are 1,2,..,n on every connection for every
   history; every stream is a concatenation of whole frames; same relative order on all receivers) are
   decided against the implementation by the model correspondence and the spec oracle (check_C05). *)
From Coq Require Import ZArith List Bool Lia.
From Mgr Require Import Gen.MgrDefs Model.Manager Proofs.RegInv Proofs.RegTop Proofs.StepInv Proofs.Routing.
Import ListNotations.
Open Scope Z_scope.

Theorem C05_stamp : forall c h p s,
  0 <= c -> m_closed (find_mod c (mods s)) = false -> flookup c (faults s) = None ->
  exists s', mod_send c h p s = Ok (SOk, set_count h (m_count (find_mod c (mods s)) + 1)) s' /\
             out s' = out s ++ [(c, OHdr (set_count h (m_count (find_mod c (mods s)) + 1))); (c, OPay p)].
Proof. exact mod_send_ok. Qed.

(* sendall only ever appends *)
Theorem C05_sendall_appends : forall c it s,
  match sendall c it s with
  | Ok SOk s' => out s' = out s ++ [(c, it)]
  | Ok _ s' => out s' = out s
  | Crash _ _ => False
  end.
Proof.
  intros c it s. unfold sendall. destruct (m_closed (find_mod c (mods s))); [reflexivity|].
  destruct (flookup c (faults s)) as [n|]; [destruct (n <=? 0)|]; reflexivity.
Qed.

(* manager-originated headers declare the size of the payload they carry *)
Definition pay_size (p : payload) : Z :=
  match p with
  | PData _ len => len
  | PFailed _ _ => SZ_FAILED_MESSAGE
  | PClient false _ _ _ _ _ _ => SZ_CLIENT_INFO
  | PClient true _ _ _ _ _ _ => SZ_CLIENT_CLOSED
  | PTiming _ _ => SZ_TIMING_MESSAGE
  | PTraffic _ _ _ _ => SZ_MESSAGE_TRAFFIC
  | PActive _ _ => SZ_ACTIVE_CLIENTS
  | PLog _ => SZ_RTMA_LOG
  end.

Theorem C05_failed_notice_sized : forall rec c hh s, zmem (h_type hh) no_notice_types = false ->
  send_failed_with rec c hh s =
  rec (mgr_hdr MT_FAILED_MESSAGE (pay_size (PFailed (m_mod_id (find_mod c (mods s))) hh)) 0)
      (PFailed (m_mod_id (find_mod c (mods s))) hh) s.
Proof. intros rec c hh s H. unfold send_failed_with. rewrite H. reflexivity. Qed.

Theorem C05_ack_is_whole_frame : forall cfg fuel c s,
  send_ack cfg fuel c s =
  (hh' <- send_checked cfg fuel c (mgr_hdr MT_ACKNOWLEDGE (pay_size (PData 0 0)) (m_mod_id (find_mod c (mods s)))) (PData 0 0) ;;
   send_to_loggers cfg fuel hh' (PData 0 0)) s.
Proof. reflexivity. Qed.

(* a client frame is forwarded with the payload length its header declares *)
Theorem C05_forward_sized : forall cfg fuel c h id,
  h_type h <> MT_CONNECT -> h_type h <> MT_CONNECT_V2 -> h_type h <> MT_DISCONNECT -> h_type h <> MT_SUBSCRIBE ->
  h_type h <> MT_RESUME_SUBSCRIPTION -> h_type h <> MT_UNSUBSCRIBE -> h_type h <> MT_PAUSE_SUBSCRIPTION ->
  h_type h <> MT_CLIENT_SET_NAME -> h_type h <> MT_MODULE_READY ->
  exists p, pay_size p = h_nbytes h /\ process_message cfg fuel c h (InData id) = (mlog cfg fuel 10 ;;; fwd cfg fuel h p).
Proof.
  intros cfg fuel c h id H1 H2 H3 H4 H5 H6 H7 H8 H9. exists (PData id (h_nbytes h)). split; [reflexivity|].
  unfold process_message.
  repeat match goal with Hn : h_type h <> ?k |- _ => apply Z.eqb_neq in Hn; rewrite Hn; clear Hn end. reflexivity.
Qed.

(* non-vacuity: acks, data, a failure notice and a periodic TIMING_MESSAGE interleaved on one connection:
   counts are 1..n and every header is followed by its payload *)
Definition Hz (t : Z) : hdr := mkHdr t 1 0 0 0 0 4 7.
Example C05_ex :
  match run (mkConfig 60 true) 60%nat
    [ERound true [] [] 0; ERound true [] [] 0; ERound true [] [] 0;
     ERound false [(1, IFrame (Hz MT_SUBSCRIBE) (InSub ALL_MESSAGE_TYPES)); (2, IFrame (Hz MT_SUBSCRIBE) (InSub 100))] [1;2;3] 0;
     ERound false [(3, IFrame (mkHdr 100 1 0 0 0 0 1 9) (InData 5))] [1;3] 0;
     ERound false [(3, IFrame (mkHdr 100 2 0 0 0 0 0 10) (InData 0))] [1;2;3] 5] with
  | Ok _ s => let mine := filter (fun ci => fst ci =? 1) (out s) in
              (flat_map (fun ci => match snd ci with OHdr h => [h_count h] | _ => [] end) mine,
               map (fun ci => match snd ci with OHdr _ => 1 | OPay _ => 2 end) mine)
  | Crash _ _ => ([], [])
  end = ([1; 2; 3; 4; 5; 6], [1;2; 1;2; 1;2; 1;2; 1;2; 1;2]).
Proof. vm_compute. reflexivity. Qed.
