(* C07 - A departed client leaves no trace.  Property theorems only
   (proofs: Proofs/RegTraverse.v, Proofs/RegTop.v, Proofs/StepInv.v).
   Proved here: after remove_module (however the departure was discovered, also nested inside a
   delivery, also several in the same round) the module is unregistered; in every reachable state only
   registered, open modules are in subscriber lists (so an unregistered module is never a recipient), its
   id can be reused (uniqueness only constrains live modules), and the removal itself only shrinks the
   registry (Frame): the other modules' identities and subscriptions are untouched.
   "Exactly one CLIENT_CLOSED": C07_departure_exact - at every reachable state, removing a registered module
   (debug logging off, the remaining CLIENT_CLOSED subscribers writable) appends to the write log exactly one whole
   CLIENT_CLOSED frame describing it for each remaining eligible subscriber of CLIENT_CLOSED and nothing else,
   and leaves it unregistered, closed, in no subscriber list and not a logger; a second removal is a no-op
   (C07_second_removal_noop).
   UNCONDITIONALLY (Proofs/ClosedOnce.v): C07_closed_at_most_once - for EVERY configuration, budget and history
   (DISCONNECT, EOF, reset, truncated frame, refusal at connect, failing sends, any nesting; Ok or Crash), to any
   connection at most ONE CLIENT_CLOSED about a given connection id is ever written; C07_closed_reaches_healthy -
   when a registered module is removed, every subscriber of CLIENT_CLOSED that can accept data and whose own sends do
   not fail gets exactly one whole CLIENT_CLOSED frame describing it (uid, pid, module id, logger, unique, name as
   they were), whatever else fails, and the module ends unregistered and closed. *)
From Coq Require Import ZArith List Bool Lia.
From Mgr Require Import Gen.MgrDefs Model.Manager Proofs.ListLemmas Proofs.RegInv Proofs.Frame Proofs.RegTraverse Proofs.RegTop
                        Proofs.Connect Proofs.StepInv Proofs.C05Inv Proofs.Exact Proofs.DepartExact Proofs.LoopExact Proofs.Hoare Proofs.OnlyRecipients Proofs.HealthyServed Proofs.ClosedOnce.
Import ListNotations.
Open Scope Z_scope.

Theorem C07_gone : forall cfg fuel c s, RegInv s ->
  match remove_module cfg fuel c s with
  | Ok _ s' => RegInv s' /\ Frame s s' /\ m_reg (find_mod c (mods s')) = false
  | Crash e _ => e = XFuel
  end.
Proof. intros cfg fuel c s H. apply (remove_module_post_top cfg fuel [] c); auto. Qed.

(* in every reachable state a subscriber-list entry is a registered, open module that itself records the
   subscription; hence an unregistered (departed) module is in no list *)
Theorem C07_lists_only_live : forall cfg fuel es u s, run cfg fuel es = Ok u s ->
  forall t c, In c (alookup t (subs s)) ->
    m_reg (find_mod c (mods s)) = true /\ m_closed (find_mod c (mods s)) = false /\ In t (m_subs (find_mod c (mods s))).
Proof.
  intros cfg fuel es u s H t c Hin. pose proof (run_safe cfg fuel es) as R. rewrite H in R.
  destruct R as (R & _). exact (ro_sub _ _ _ _ _ R t c Hin).
Qed.

(* ... and whoever is in the logger set is a key of the module table, open, a logger and connected (since /repo
   926cc4e; before it a client dying inside its own connection request could be added after its removal) *)
Theorem C07_loggers_only_live : forall cfg fuel es u s, run cfg fuel es = Ok u s ->
  forall c, In c (loggers s) ->
    m_reg (find_mod c (mods s)) = true /\ m_closed (find_mod c (mods s)) = false /\
    m_logger (find_mod c (mods s)) = true /\ m_connected (find_mod c (mods s)) = true.
Proof.
  intros cfg fuel es u s H c Hin. pose proof (run_safe cfg fuel es) as R. rewrite H in R.
  destruct R as (R & _). pose proof (ro_loglive _ _ _ _ _ R c Hin) as Hr.
  destruct (ro_log _ _ _ _ _ R c Hin Hr) as (A & B & C). auto.
Qed.

(* the three places a module is registered are erased together: a connection that is no longer a key of the module
   table is in no subscriber list and not in the logger set, in every reachable state *)
Theorem C07_departed_in_no_table : forall cfg fuel es u s, run cfg fuel es = Ok u s ->
  forall c, m_reg (find_mod c (mods s)) = false ->
    (forall t, ~ In c (alookup t (subs s))) /\ ~ In c (loggers s).
Proof.
  intros cfg fuel es u s H c Hr. split.
  - intros t Hin. destruct (C07_lists_only_live cfg fuel es u s H _ _ Hin) as (H1 & _). congruence.
  - intros Hin. destruct (C07_loggers_only_live cfg fuel es u s H _ Hin) as (H1 & _). congruence.
Qed.

(* two loggers connect, one subscribes and leaves: it is gone from all three tables, the other stays *)
Example C07_tables_ex :
  match run (mkConfig 60 true) 60%nat
    [ERound true [] [] 0; ERound true [] [] 0;
     ERound false [(1, IFrame (mkHdr MT_CONNECT 1 0 10 0 0 4 1) (InConnect 1 0));
                   (2, IFrame (mkHdr MT_CONNECT 1 0 11 0 0 4 2) (InConnect 1 0))] [1;2] 0;
     ERound false [(2, IFrame (mkHdr MT_SUBSCRIBE 1 0 0 0 0 4 7) (InSub 100))] [1;2] 0;
     ERound false [(2, IEof)] [1;2] 0] with
  | Ok _ s => (map m_reg (mods s), loggers s, alookup 100 (subs s))
  | Crash _ _ => ([], [], [])
  end = ([true; true; false], [1], []).
Proof. vm_compute. reflexivity. Qed.

Theorem C07_departed_not_recipient : forall cfg fuel es u s, run cfg fuel es = Ok u s ->
  forall c t, m_reg (find_mod c (mods s)) = false -> ~ In c (snapshot s t).
Proof.
  intros cfg fuel es u s H c t Hr Hin. unfold snapshot in Hin. apply in_app_or in Hin.
  destruct Hin as [Hin|Hin]; destruct (C07_lists_only_live cfg fuel es u s H _ _ Hin) as (H1 & _); congruence.
Qed.

(* forward_message (hence a removal discovered inside a delivery) only shrinks the registry:
   nobody else's identity, subscriptions or logger status changes *)
Theorem C07_rest_untouched : forall cfg fuel h p s, RegInv s ->
  match fwd cfg fuel h p s with
  | Ok _ s' => RegInv s' /\ Frame s s'
  | Crash e _ => e = XFuel
  end.
Proof. intros cfg fuel h p s H. exact (J_fwd cfg fuel [] h p s H). Qed.

Theorem C07_departure_exact : forall cfg fuel es u s (k : nat) c,
  run cfg fuel es = Ok u s -> m_reg (find_mod c (mods s)) = true -> 10 < loglevel cfg ->
  (forall f, In f (snapshot (closed_state s c) MT_CLIENT_CLOSED) -> zmem f (wl s) = true /\ flookup f (faults s) = None) ->
  exists s', remove_module cfg (Datatypes.S k) c s = Ok tt s' /\
    out s' = out s ++ frames cc_hdr (client_payload true (find_mod c (mods (closed_state s c)))) (closed_state s c)
                             (snapshot (closed_state s c) MT_CLIENT_CLOSED) /\
    m_reg (find_mod c (mods s')) = false /\ m_closed (find_mod c (mods s')) = true /\
    ~ In c (snapshot (closed_state s c) MT_CLIENT_CLOSED) /\
    subs s' = subs (closed_state s c) /\ loggers s' = loggers (closed_state s c).
Proof.
  intros cfg fuel es u s k c Hrun Hreg Hl Henv. pose proof (run_safe cfg fuel es) as R. rewrite Hrun in R.
  destruct R as (R & _). apply (departure_exact cfg k c s []); auto.
Qed.

(* after the departure the connection is in no subscriber list and not in the logger set *)
Theorem C07_closed_state_clean : forall s c t,
  ~ In c (alookup t (subs (closed_state s c))) \/ zmem t (m_subs (find_mod c (mods s))) = false.
Proof.
  intros s c t. unfold closed_state. simpl. rewrite alookup_drop_subs.
  destruct (zmem t (m_subs (find_mod c (mods s)))); [left|right; reflexivity].
  intro Hin. apply zremove_In in Hin. tauto.
Qed.

Theorem C07_second_removal_noop : forall cfg rec c s, m_reg (find_mod c (mods s)) = false ->
  remove_module_with cfg rec c s = Ok tt s.
Proof. intros cfg rec c s H. unfold remove_module_with, bind, get. rewrite H. reflexivity. Qed.

(* "its module id and name can be reused immediately": the uniqueness scan of a later connection request and the
   in-use list of the dynamic-id assignment range over `registered s` only, and a departed module is not in it *)
Theorem C07_id_and_name_free : forall s m, In m (registered s) -> m_reg m = true.
Proof. intros s m H. unfold registered in H. apply filter_In in H. tauto. Qed.

Theorem C07_departed_not_in_use : forall cfg fuel es u s, run cfg fuel es = Ok u s ->
  forall c, m_reg (find_mod c (mods s)) = false -> ~ In (find_mod c (mods s)) (registered s).
Proof. intros cfg fuel es u s _ c Hr Hin. apply C07_id_and_name_free in Hin. congruence. Qed.

(* "Delivery among the remaining clients is unaffected, including for the message during whose delivery the failure
   was discovered": whatever number of recipients of one message turn out to be dead or not writable while it is being
   delivered, every healthy recipient that is not itself a notice subscriber gets exactly one whole unmodified copy,
   and everybody else gets nothing of it (one level of nesting; see C14_mixed_delivery for the full statement) *)
Theorem C07_inflight_delivery_unaffected : forall cfg fuel es u s (k : nat) p hh,
  run cfg fuel es = Ok u s -> 40 < loglevel cfg -> Env s ->
  zmem (h_type hh) no_notice_types = false -> h_type hh <> ALL_MESSAGE_TYPES ->
  bad_dest_mod (h_dst_mod hh) = false -> bad_dest_host (h_dst_host hh) = false ->
  (forall c, In c (snapshot s (h_type hh)) -> classified (h_dst_mod hh) s c = true) ->
  exists fr s', forward cfg (Datatypes.S (Datatypes.S k)) hh p s = Ok tt s' /\ out s' = out s ++ fr /\
    forall f, ~ In f (snapshot s MT_CLIENT_CLOSED) -> ~ In f (snapshot s MT_FAILED_MESSAGE) ->
      (In f (snapshot s (h_type hh)) -> is_ready s f = true -> eligible (h_dst_mod hh) s f = true ->
         exists n, proj f fr = [OHdr (set_count hh n); OPay p]) /\
      (~ (In f (snapshot s (h_type hh)) /\ is_ready s f = true /\ eligible (h_dst_mod hh) s f = true) -> proj f fr = []).
Proof.
  intros cfg fuel es u s k p hh H1 H2 H3 H4 H5 H6 H7 H8.
  destruct (forward_general_reachable cfg fuel es u s k p hh H1 H2 H3 H4 H5 H6 H7 H8) as (fr & hh' & s' & E & Ho & _ & Hp & _).
  exists fr, s'. split; [exact E|]. split; [exact Ho|exact Hp].
Qed.

(* the same with NO assumption about the other recipients or the notice subscribers (any number of failures, any
   nesting): a recipient that can accept data and whose own sends do not fail gets exactly one whole copy of the very
   message during whose delivery the departures were discovered, and is still a subscriber afterwards *)
Theorem C07_inflight_delivery_unconditional : forall cfg fuel es u s (k : nat) h p c s',
  run cfg fuel es = Ok u s -> h_extra h <> 0 -> h_type h <> ALL_MESSAGE_TYPES ->
  bad_dest_mod (h_dst_mod h) = false -> bad_dest_host (h_dst_host h) = false ->
  In c (snapshot s (h_type h)) -> zmem c (wl s) = true -> eligible (h_dst_mod h) s c = true ->
  flookup c (faults s) = None ->
  forward cfg k h p s = Ok tt s' ->
  exists suf, out s' = out s ++ suf /\ served_once h p c suf /\ still_healthy c s s'.
Proof. exact healthy_recipient_served_reachable. Qed.

(* ---- exactly one CLIENT_CLOSED, unconditionally ---- *)
Theorem C07_closed_at_most_once : forall cfg FUEL es g c,
  (length (filter (is_cc c) (proj g (out (st (run cfg FUEL es))))) <= 1)%nat.
Proof. exact closed_at_most_once. Qed.

Theorem C07_closed_reaches_healthy : forall cfg fuel es u s (k : nat) c g s',
  run cfg fuel es = Ok u s -> m_reg (find_mod c (mods s)) = true ->
  In g (snapshot s MT_CLIENT_CLOSED) -> g <> c -> zmem g (wl s) = true -> flookup g (faults s) = None ->
  remove_module cfg k c s = Ok tt s' ->
  exists suf, out s' = out s ++ suf /\
    closed_once c (client_payload true (find_mod c (mods s))) g suf /\ still_healthy g s s' /\
    m_reg (find_mod c (mods s')) = false /\ m_closed (find_mod c (mods s')) = true.
Proof.
  intros cfg fuel es u s k c g s'. exact (departure_reaches_healthy_reachable cfg fuel es u s k c g s').
Qed.

(* is_cc c: a CLIENT_CLOSED payload about connection id c *)
Theorem C07_is_cc_meaning : forall c uid pid mid lg uq nm,
  is_cc c (OPay (PClient true uid pid mid lg uq nm)) = (uid =? c) /\
  is_cc c (OPay (PClient false uid pid mid lg uq nm)) = false.
Proof. intros. split; reflexivity. Qed.

(* non-vacuity: a subscriber whose write fails during a delivery is gone afterwards, the other
   subscriber still got the message, and one CLIENT_CLOSED was published (to the monitor, conn 3) *)
Definition Hs (t : Z) : hdr := mkHdr t 1 0 0 0 0 4 7.
Example C07_ex :
  match run (mkConfig 60 true) 60%nat
    [ERound true [] [] 0; ERound true [] [] 0; ERound true [] [] 0; ERound true [] [] 0;
     ERound false [(1, IFrame (Hs MT_SUBSCRIBE) (InSub 100)); (2, IFrame (Hs MT_SUBSCRIBE) (InSub 100));
                   (3, IFrame (Hs MT_SUBSCRIBE) (InSub MT_CLIENT_CLOSED))] [1;2;3;4] 0;
     EFault 1 0;
     ERound false [(4, IFrame (mkHdr 100 1 0 0 0 0 1 9) (InData 5))] [1;2;3;4] 0] with
  | Ok _ s => (map m_reg (mods s), alookup 100 (subs s),
               length (filter (fun ci => match snd ci with OHdr h => h_type h =? MT_CLIENT_CLOSED | _ => false end) (out s)),
               length (filter (fun ci => match snd ci with OPay (PData 5 _) => true | _ => false end) (out s)))
  | Crash _ _ => ([], [], 0%nat, 0%nat)
  end = ([true; false; true; true; true], [2], 1%nat, 1%nat).
Proof. vm_compute. reflexivity. Qed.
Definition C07_closed_once_ex := closed_once_ex.
