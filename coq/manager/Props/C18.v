(* C18 - Manager traffic statistics are exact.  Property theorems only.
   Model: Model/Manager.v (count_msg, send_timing_message/timing_writes, send_traffic/traffic_messages),
   constants and the chunk / slot guards regenerated from /repo into Gen/MgrDefs.v. *)
From Coq Require Import ZArith List Bool Lia.
From Mgr Require Import Gen.MgrDefs Model.Manager Proofs.Traffic.
Import ListNotations.
Open Scope Z_scope.

(* MESSAGE_TRAFFIC: for every interval counter (any number of distinct types: 0, 1, 64, 65, hundreds...), the
   entries of the sub-messages up to each terminator, concatenated, are exactly the counter's (type, count mod 2^16)
   pairs, in order: every type once, exact count, nothing else.  (Type id -1 is the wire terminator itself and
   cannot be represented: excluded by hypothesis.) *)
Theorem C18_traffic_exact : forall items,
  Forall (fun x => fst x <> -1) items ->
  flat_map msg_entries (traffic_messages items) = map reported items.
Proof. exact traffic_messages_exact. Qed.

(* TIMING_MESSAGE: never an index error; exactly the types with a slot are written, with their count mod 2^16 *)
Theorem C18_timing_exact : forall counts,
  timing_writes counts = Some (map (fun x => (fst x, wrap16 (snd x))) (filter (fun x => timing_slot_ok (fst x)) counts)).
Proof. exact timing_writes_exact. Qed.

Theorem C18_timing_slots : forall mt, timing_slot_ok mt = true <-> 0 <= mt < MAX_MESSAGE_TYPES.
Proof. intros mt. unfold timing_slot_ok. lia. Qed.

(* the statistics messages themselves are not counted: while sending_traffic is set, count_msg is the identity *)
Theorem C18_stats_not_counted : forall cfg t s, sending_traffic s = true -> count_msg cfg t s = Ok tt s.
Proof. intros cfg t s H. unfold count_msg, bind, get. rewrite H. reflexivity. Qed.

(* outside, every forwarded message increments its type by exactly one (Counter semantics) *)
Fixpoint clookup (k : Z) (l : list (Z * Z)) : Z :=
  match l with [] => 0 | (k', v) :: r => if k =? k' then v else clookup k r end.
Theorem C18_counter_incr : forall l k k', clookup k' (cincr k l) = if k' =? k then clookup k' l + 1 else clookup k' l.
Proof.
  induction l as [|[a v] r IH]; intros k k'; simpl.
  - destruct (k' =? k); reflexivity.
  - destruct (k =? a) eqn:E; simpl.
    + apply Z.eqb_eq in E. subst a. destruct (k' =? k); reflexivity.
    + destruct (k' =? a) eqn:E2.
      * apply Z.eqb_eq in E2. subst a. destruct (k' =? k) eqn:E3; [apply Z.eqb_eq in E3; subst; rewrite Z.eqb_refl in E; discriminate|reflexivity].
      * apply IH.
Qed.

(* what a forwarded message does to the two counters, for EVERY configuration: outside a statistics report the
   MESSAGE_TRAFFIC counter of its type goes up by exactly one whether or not TIMING_MESSAGE is enabled (option -T only
   stops the per-type TIMING counts), every other type keeps its count, and nothing else in the state changes *)
Theorem C18_counted_with_or_without_timing : forall cfg t s, sending_traffic s = false ->
  exists s', count_msg cfg t s = Ok tt s' /\
    (forall k, clookup k (traffic s') = if k =? t then clookup k (traffic s) + 1 else clookup k (traffic s)) /\
    (forall k, clookup k (counts s') =
               if timing_on cfg then (if k =? t then clookup k (counts s) + 1 else clookup k (counts s))
               else clookup k (counts s)) /\
    mods s' = mods s /\ subs s' = subs s /\ loggers s' = loggers s /\ out s' = out s.
Proof.
  intros cfg t s H. unfold count_msg, bind, get. rewrite H. cbn [negb]. unfold modify.
  eexists. split; [reflexivity|]. cbn [traffic counts with_counts mods subs loggers out].
  split; [intros k; apply C18_counter_incr|]. split; [|repeat split].
  intros k. destruct (timing_on cfg); [apply C18_counter_incr|reflexivity].
Qed.

(* non-vacuity: 130 distinct types give three sub-messages (64 + 64 + 2) reporting all 130 *)
Example C18_ex_130 :
  let items := map (fun i => (200 + Z.of_nat i, 1 + Z.of_nat i)) (seq 0 130) in
  length (traffic_messages items) = 3%nat /\
  map (fun m => length (msg_entries m)) (traffic_messages items) = [64; 64; 2]%nat /\
  map (fun m => fst (fst m)) (traffic_messages items) = [1; 2; 3].
Proof. vm_compute. repeat split. Qed.

Example C18_ex_empty : traffic_messages [] = [].
Proof. reflexivity. Qed.

Example C18_ex_64 :
  let items := map (fun i => (Z.of_nat i, 70000)) (seq 0 64) in
  map (fun m => length (msg_entries m)) (traffic_messages items) = [64]%nat /\
  Forall (fun e => snd e = 70000 mod 65536) (flat_map msg_entries (traffic_messages items)).
Proof. vm_compute. split; [reflexivity|]. repeat constructor. Qed.

(* every interval starts from empty counters, whether or not anybody was listening to the report: whatever
   send_traffic forwarded (to nobody, to healthy or to failing subscribers), if it returns, the interval's counter
   list is empty - counts of an interval can never resurface in a later report *)
Theorem C18_interval_starts_empty : forall cfg fuel now s u s',
  send_traffic cfg fuel now s = Ok u s' -> traffic s' = [].
Proof.
  intros cfg fuel now s u s' H. unfold send_traffic in H. unfold bind at 1 in H. unfold get in H. cbv zeta in H.
  unfold bind at 1 in H. unfold modify at 1 in H.
  unfold bind at 1 in H. destruct (mlog cfg fuel 10 _) as [u1 s1|e1 s1]; [|discriminate].
  unfold bind at 1 in H. unfold get in H. unfold bind at 1 in H.
  destruct (mapM_ _ _ s1) as [u2 s2|e2 s2]; [|discriminate].
  unfold bind, modify in H. inversion H. reflexivity.
Qed.
