(* Canonical flat encoding of the observable outcome of a run, compared with what
   the harness decodes from the real manager's writes.  Proof-free. *)
From Coq Require Import ZArith List Bool.
From Mgr Require Import Gen.MgrDefs Model.Manager.
Import ListNotations.
Open Scope Z_scope.

Definition b2z (b : bool) : Z := if b then 1 else 0.

Definition enc_hdr (h : hdr) : list Z :=
  [h_type h; h_count h; h_src_host h; h_src_mod h; h_dst_host h; h_dst_mod h; h_nbytes h; h_extra h].

(* final array contents of a sequence of writes index:=value : last writer wins,
   ascending index, zero entries dropped *)
Fixpoint ins_write (k v : Z) (l : list (Z * Z)) : list (Z * Z) :=
  match l with
  | [] => [(k, v)]
  | (k', v') :: r => if k <? k' then (k, v) :: l else if k =? k' then (k, v) :: r else (k', v') :: ins_write k v r
  end.
Definition canon_writes (w : list (Z * Z)) : list (Z * Z) :=
  filter (fun kv => negb (snd kv =? 0)) (fold_left (fun acc kv => ins_write (fst kv) (snd kv) acc) w []).

Definition enc_pairs (l : list (Z * Z)) : list Z :=
  Z.of_nat (length l) :: flat_map (fun kv => [fst kv; snd kv]) l.

Definition enc_payload (p : payload) : list Z :=
  match p with
  | PData id len => [0; id; len]
  | PFailed dm h => [1; dm] ++ enc_hdr h
  | PClient closed uid pid mid lg uq name => [2; b2z closed; uid; pid; mid; b2z lg; b2z uq; name]
  | PTiming tw pw => [3] ++ enc_pairs (canon_writes tw) ++ enc_pairs (canon_writes pw)
  | PTraffic seq sub ty ct => [4; seq; sub] ++ ty ++ ct
  | PActive num entries => [5; num] ++ enc_pairs entries
  | PLog lvl => [6; lvl]
  end.

Definition enc_item (ci : Z * item) : list Z :=
  match snd ci with
  | OHdr h => [fst ci; 1] ++ enc_hdr h
  | OPay p => [fst ci; 2] ++ enc_payload p
  end.

Definition exn_code (e : exn) : Z :=
  match e with
  | XValueError => 1 | XIndexError => 2 | XUnicode => 3 | XOSError => 4 | XSetSize => 5
  | XDictSize => 6 | XKeyError => 7 | XDynIds => 8 | XFuel => 99
  end.

Definition exn_code_of (r : res unit) : Z := match r with Ok _ _ => 0 | Crash e _ => exn_code e end.

Definition enc_res (r : res unit) : list Z :=
  match r with
  | Ok _ s => 0 :: flat_map enc_item (out s)
  | Crash e s => exn_code e :: flat_map enc_item (out s)
  end.

Fixpoint zl_eqb (a b : list Z) : bool :=
  match a, b with [], [] => true | x :: r, y :: s => (x =? y) && zl_eqb r s | _, _ => false end.

(* first index at which two lists differ (for diagnostics), -1 if equal *)
Fixpoint first_diff (a b : list Z) (i : Z) : Z :=
  match a, b with
  | [], [] => -1
  | x :: r, y :: s => if x =? y then first_diff r s (i + 1) else i
  | _, _ => i
  end.
