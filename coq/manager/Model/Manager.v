(* Executable model of pyrtma.manager.MessageManager (src/pyrtma/manager.py).
   Proof-free.  The whole environment is input: service order and writable set
   of every select round, what every ready socket delivers, the virtual clock,
   and a send-fault plan per connection.

   Python objects with identity (Module) are records in a list that is never
   shortened: m_reg says whether the module is still a key of self.modules, so
   that a module removed by a nested call can still be found by the outer
   recipient loop, exactly as the Python list snapshot keeps the object alive. *)
From Coq Require Import ZArith List Bool.
From Mgr Require Import Gen.MgrDefs.
Import ListNotations.
Open Scope Z_scope.

(* ------------------------------------------------------------------ data *)

Record hdr := mkHdr {
  h_type : Z; h_count : Z; h_src_host : Z; h_src_mod : Z; h_dst_host : Z; h_dst_mod : Z;
  h_nbytes : Z;
  h_extra : Z   (* opaque id of send_time/recv_time/remaining_bytes/is_dynamic/reserved and the utc fields *)
}.

Definition set_count (h : hdr) (c : Z) : hdr :=
  mkHdr (h_type h) c (h_src_host h) (h_src_mod h) (h_dst_host h) (h_dst_mod h) (h_nbytes h) (h_extra h).

Inductive payload :=
| PData (id len : Z)                                     (* bytes received from a client; id 0 = empty *)
| PFailed (dest_mod : Z) (h : hdr)                       (* FAILED_MESSAGE *)
| PClient (closed : bool) (uid pid mod_id : Z) (is_logger is_unique : bool) (name : Z)  (* CLIENT_INFO / CLIENT_CLOSED *)
| PTiming (timing : list (Z * Z)) (pids : list (Z * Z))  (* writes index:=value, in order *)
| PTraffic (seqno sub_seqno : Z) (types counts : list Z) (* the two arrays *)
| PActive (num : Z) (entries : list (Z * Z))             (* (mod_id, pid) for the slots written *)
| PLog (lvl : Z).

Inductive item := OHdr (h : hdr) | OPay (p : payload).

Record module := mkModule {
  m_conn : Z;            (* = uid; 0 is the manager's own module on the listening socket *)
  m_name : Z;            (* interned name id; 0 = "" *)
  m_mod_id : Z; m_pid : Z;
  m_subs : list Z;
  m_connected : bool; m_logger : bool; m_daemon : bool; m_unique : bool;
  m_drops : Z; m_count : Z;
  m_closed : bool;       (* conn.close() was called *)
  m_reg : bool           (* still a key of self.modules *)
}.

Inductive exn :=
| XValueError | XIndexError | XUnicode | XOSError | XSetSize | XDictSize | XKeyError | XDynIds | XFuel.

Record mstate := mkState {
  mods : list module;
  loggers : list Z;                 (* logger_modules, ascending conn *)
  subs : list (Z * list Z);         (* subscriptions : type -> ascending conns *)
  dyn_off : Z; next_uid : Z;
  wl : list Z;
  counts : list (Z * Z);            (* message_counts (Counter, insertion order) *)
  traffic : list (Z * Z);           (* traffic_counter *)
  traffic_seq : Z;
  t_timing : Z; t_traffic : Z; t_info : Z;   (* in quarter seconds *)
  sending_traffic : bool;
  rtma_log : bool;                  (* RTMA log handler still attached *)
  out : list (Z * item);            (* every successful sendall, global order *)
  faults : list (Z * Z)             (* conn -> number of further sendall calls that succeed *)
}.

Record config := mkConfig { loglevel : Z; timing_on : bool }.

Inductive res (A : Type) := Ok (a : A) (s : mstate) | Crash (e : exn) (s : mstate).
Arguments Ok {A}. Arguments Crash {A}.
Definition M (A : Type) := mstate -> res A.
Definition ret {A} (a : A) : M A := fun s => Ok a s.
Definition bind {A B} (m : M A) (k : A -> M B) : M B :=
  fun s => match m s with Ok a s' => k a s' | Crash e s' => Crash e s' end.
Definition crash {A} (e : exn) : M A := fun s => Crash e s.
Definition get : M mstate := fun s => Ok s s.
Definition put (s : mstate) : M unit := fun _ => Ok tt s.
Notation "x <- m ;; k" := (bind m (fun x => k)) (at level 61, m at next level, right associativity).
Notation "m ;;; k" := (bind m (fun _ => k)) (at level 61, right associativity).

Fixpoint mapM_ {A} (f : A -> M unit) (l : list A) : M unit :=
  match l with [] => ret tt | x :: r => f x ;;; mapM_ f r end.

(* ------------------------------------------------------------- list utils *)

Fixpoint zmem (x : Z) (l : list Z) : bool :=
  match l with [] => false | y :: r => (x =? y) || zmem x r end.

Fixpoint zinsert (x : Z) (l : list Z) : list Z :=     (* set.add on an ascending list *)
  match l with
  | [] => [x]
  | y :: r => if x <? y then x :: l else if x =? y then l else y :: zinsert x r
  end.

Fixpoint zremove (x : Z) (l : list Z) : list Z :=     (* set.discard *)
  match l with [] => [] | y :: r => if x =? y then zremove x r else y :: zremove x r end.

Fixpoint alookup (k : Z) (l : list (Z * list Z)) : list Z :=
  match l with [] => [] | (k', v) :: r => if k =? k' then v else alookup k r end.

Fixpoint aupdate (k : Z) (f : list Z -> list Z) (l : list (Z * list Z)) : list (Z * list Z) :=
  match l with
  | [] => [(k, f [])]
  | (k', v) :: r => if k =? k' then (k', f v) :: r else (k', v) :: aupdate k f r
  end.

Fixpoint cincr (k : Z) (l : list (Z * Z)) : list (Z * Z) :=   (* Counter[k] += 1 *)
  match l with
  | [] => [(k, 1)]
  | (k', v) :: r => if k =? k' then (k', v + 1) :: r else (k', v) :: cincr k r
  end.

Fixpoint flookup (c : Z) (l : list (Z * Z)) : option Z :=
  match l with [] => None | (k, v) :: r => if c =? k then Some v else flookup c r end.

Fixpoint fset (c v : Z) (l : list (Z * Z)) : list (Z * Z) :=
  match l with
  | [] => [(c, v)]
  | (k, w) :: r => if c =? k then (k, v) :: r else (k, w) :: fset c v r
  end.

Definition dummy_module : module :=
  mkModule (-1) 0 0 0 [] false false false true 0 0 true false.

Fixpoint find_mod (c : Z) (l : list module) : module :=
  match l with [] => dummy_module | m :: r => if m_conn m =? c then m else find_mod c r end.

Fixpoint upd_mod (c : Z) (f : module -> module) (l : list module) : list module :=
  match l with [] => [] | m :: r => if m_conn m =? c then f m :: r else m :: upd_mod c f r end.

Definition registered (s : mstate) : list module := filter m_reg (mods s).

(* ---------------------------------------------------------- state setters *)

Definition with_mods (s : mstate) (x : list module) : mstate :=
  mkState x (loggers s) (subs s) (dyn_off s) (next_uid s) (wl s) (counts s) (traffic s) (traffic_seq s)
          (t_timing s) (t_traffic s) (t_info s) (sending_traffic s) (rtma_log s) (out s) (faults s).
Definition with_loggers (s : mstate) (x : list Z) : mstate :=
  mkState (mods s) x (subs s) (dyn_off s) (next_uid s) (wl s) (counts s) (traffic s) (traffic_seq s)
          (t_timing s) (t_traffic s) (t_info s) (sending_traffic s) (rtma_log s) (out s) (faults s).
Definition with_subs (s : mstate) (x : list (Z * list Z)) : mstate :=
  mkState (mods s) (loggers s) x (dyn_off s) (next_uid s) (wl s) (counts s) (traffic s) (traffic_seq s)
          (t_timing s) (t_traffic s) (t_info s) (sending_traffic s) (rtma_log s) (out s) (faults s).
Definition with_dyn (s : mstate) (x : Z) : mstate :=
  mkState (mods s) (loggers s) (subs s) x (next_uid s) (wl s) (counts s) (traffic s) (traffic_seq s)
          (t_timing s) (t_traffic s) (t_info s) (sending_traffic s) (rtma_log s) (out s) (faults s).
Definition with_uid (s : mstate) (x : Z) : mstate :=
  mkState (mods s) (loggers s) (subs s) (dyn_off s) x (wl s) (counts s) (traffic s) (traffic_seq s)
          (t_timing s) (t_traffic s) (t_info s) (sending_traffic s) (rtma_log s) (out s) (faults s).
Definition with_wl (s : mstate) (x : list Z) : mstate :=
  mkState (mods s) (loggers s) (subs s) (dyn_off s) (next_uid s) x (counts s) (traffic s) (traffic_seq s)
          (t_timing s) (t_traffic s) (t_info s) (sending_traffic s) (rtma_log s) (out s) (faults s).
Definition with_counts (s : mstate) (c t : list (Z * Z)) : mstate :=
  mkState (mods s) (loggers s) (subs s) (dyn_off s) (next_uid s) (wl s) c t (traffic_seq s)
          (t_timing s) (t_traffic s) (t_info s) (sending_traffic s) (rtma_log s) (out s) (faults s).
Definition with_times (s : mstate) (seq a b c : Z) : mstate :=
  mkState (mods s) (loggers s) (subs s) (dyn_off s) (next_uid s) (wl s) (counts s) (traffic s) seq
          a b c (sending_traffic s) (rtma_log s) (out s) (faults s).
Definition with_sending (s : mstate) (x : bool) : mstate :=
  mkState (mods s) (loggers s) (subs s) (dyn_off s) (next_uid s) (wl s) (counts s) (traffic s) (traffic_seq s)
          (t_timing s) (t_traffic s) (t_info s) x (rtma_log s) (out s) (faults s).
Definition with_rtma (s : mstate) (x : bool) : mstate :=
  mkState (mods s) (loggers s) (subs s) (dyn_off s) (next_uid s) (wl s) (counts s) (traffic s) (traffic_seq s)
          (t_timing s) (t_traffic s) (t_info s) (sending_traffic s) x (out s) (faults s).
Definition with_out (s : mstate) (o : list (Z * item)) (f : list (Z * Z)) : mstate :=
  mkState (mods s) (loggers s) (subs s) (dyn_off s) (next_uid s) (wl s) (counts s) (traffic s) (traffic_seq s)
          (t_timing s) (t_traffic s) (t_info s) (sending_traffic s) (rtma_log s) o f.

Definition modify (f : mstate -> mstate) : M unit := fun s => Ok tt (f s).
Definition set_mod (c : Z) (f : module -> module) : M unit :=
  modify (fun s => with_mods s (upd_mod c f (mods s))).

Definition mm_count (m : module) (x : Z) : module :=
  mkModule (m_conn m) (m_name m) (m_mod_id m) (m_pid m) (m_subs m) (m_connected m) (m_logger m) (m_daemon m)
           (m_unique m) (m_drops m) x (m_closed m) (m_reg m).
Definition mm_drops (m : module) (x : Z) : module :=
  mkModule (m_conn m) (m_name m) (m_mod_id m) (m_pid m) (m_subs m) (m_connected m) (m_logger m) (m_daemon m)
           (m_unique m) x (m_count m) (m_closed m) (m_reg m).
Definition mm_subs (m : module) (x : list Z) : module :=
  mkModule (m_conn m) (m_name m) (m_mod_id m) (m_pid m) x (m_connected m) (m_logger m) (m_daemon m)
           (m_unique m) (m_drops m) (m_count m) (m_closed m) (m_reg m).
Definition mm_close (m : module) : module :=
  mkModule (m_conn m) (m_name m) (m_mod_id m) (m_pid m) (m_subs m) false (m_logger m) (m_daemon m)
           (m_unique m) (m_drops m) (m_count m) true (m_reg m).
Definition mm_unreg (m : module) : module :=
  mkModule (m_conn m) (m_name m) (m_mod_id m) (m_pid m) (m_subs m) (m_connected m) (m_logger m) (m_daemon m)
           (m_unique m) (m_drops m) (m_count m) (m_closed m) false.
Definition mm_pid (m : module) (x : Z) : module :=
  mkModule (m_conn m) (m_name m) (m_mod_id m) x (m_subs m) (m_connected m) (m_logger m) (m_daemon m)
           (m_unique m) (m_drops m) (m_count m) (m_closed m) (m_reg m).
Definition mm_name (m : module) (x : Z) : module :=
  mkModule (m_conn m) x (m_mod_id m) (m_pid m) (m_subs m) (m_connected m) (m_logger m) (m_daemon m)
           (m_unique m) (m_drops m) (m_count m) (m_closed m) (m_reg m).
Definition mm_ident (m : module) (mid pid name : Z) (uniq : bool) : module :=
  mkModule (m_conn m) name mid pid (m_subs m) (m_connected m) (m_logger m) (m_daemon m)
           uniq (m_drops m) (m_count m) (m_closed m) (m_reg m).
Definition mm_flags (m : module) (lg dm : bool) : module :=
  mkModule (m_conn m) (m_name m) (m_mod_id m) (m_pid m) (m_subs m) (m_connected m) lg dm
           (m_unique m) (m_drops m) (m_count m) (m_closed m) (m_reg m).
Definition mm_modid (m : module) (x : Z) : module :=
  mkModule (m_conn m) (m_name m) x (m_pid m) (m_subs m) (m_connected m) (m_logger m) (m_daemon m)
           (m_unique m) (m_drops m) (m_count m) (m_closed m) (m_reg m).
Definition mm_connected (m : module) : module :=
  mkModule (m_conn m) (m_name m) (m_mod_id m) (m_pid m) (m_subs m) true (m_logger m) (m_daemon m)
           (m_unique m) (m_drops m) (m_count m) (m_closed m) (m_reg m).

(* ------------------------------------------------------------- the socket *)

Inductive sendres := SOk | SConnErr | SOSErr.

(* one sock.sendall call *)
Definition sendall (c : Z) (it : item) : M sendres := fun s =>
  let m := find_mod c (mods s) in
  if m_closed m then Ok SOSErr s                      (* EBADF on a closed socket: OSError, not ConnectionError *)
  else match flookup c (faults s) with
       | Some n => if n <=? 0 then Ok SConnErr s
                   else Ok SOk (with_out s (out s ++ [(c, it)]) (fset c (n - 1) (faults s)))
       | None => Ok SOk (with_out s (out s ++ [(c, it)]) (faults s))
       end.

(* Module.send_message: returns the header as stamped (the Python header object is mutated) *)
Definition mod_send (c : Z) (h : hdr) (p : payload) : M (sendres * hdr) :=
  s <- get ;;
  let m := find_mod c (mods s) in
  let n := m_count m + 1 in
  set_mod c (fun m => mm_count m n) ;;;
  let h' := set_count h n in
  r1 <- sendall c (OHdr h') ;;
  match r1 with
  | SOk => r2 <- sendall c (OPay p) ;; ret (r2, h')
  | _ => ret (r1, h')
  end.

(* ------------------------------------------------------------ the manager *)

Definition mgr_hdr (t nbytes dst : Z) : hdr := mkHdr t 0 0 MID_MESSAGE_MANAGER 0 dst nbytes 0.

Definition log_type (lvl : Z) : Z :=
  if lvl =? 10 then MT_RTMA_LOG_DEBUG else if lvl =? 20 then MT_RTMA_LOG_INFO
  else if lvl =? 30 then MT_RTMA_LOG_WARNING else if lvl =? 40 then MT_RTMA_LOG_ERROR
  else if lvl =? 50 then MT_RTMA_LOG_CRITICAL else MT_RTMA_LOG.

Definition client_payload (closed : bool) (m : module) : payload :=
  PClient closed (m_conn m) (m_pid m) (m_mod_id m) (m_logger m) (m_unique m) (m_name m).

Section WithConfig.
Variable cfg : config.

(* forward_message and everything it can re-enter.  Open recursion: every helper takes
   `rec`, the function used for a nested forward_message call; `forward` ties the knot
   on explicit fuel. *)

(* logging through the RTMA handler: exceptions inside emit() are swallowed and detach the handler *)
Definition mlog_with (rec : hdr -> payload -> M unit) (lvl : Z) : M unit := fun s =>
  if (loglevel cfg <=? lvl) && rtma_log s then
    match rec (mgr_hdr (log_type lvl) SZ_RTMA_LOG 0) (PLog lvl) s with
    | Ok _ s' => Ok tt s'
    | Crash XFuel s' => Crash XFuel s'
    | Crash _ s' => Ok tt (with_rtma s' false)
    end
  else Ok tt s.

Definition send_mgr_with (rec : hdr -> payload -> M unit) (t sz : Z) (pl : payload) : M unit :=
  rec (mgr_hdr t sz 0) pl.

Definition send_failed_with (rec : hdr -> payload -> M unit) (c : Z) (hh : hdr) : M unit :=
  if zmem (h_type hh) no_notice_types then ret tt
  else s <- get ;;
       send_mgr_with rec MT_FAILED_MESSAGE SZ_FAILED_MESSAGE (PFailed (m_mod_id (find_mod c (mods s))) hh).

Definition drop_subs (c : Z) (ts : list Z) (sb : list (Z * list Z)) : list (Z * list Z) :=
  fold_left (fun acc t => aupdate t (zremove c) acc) ts sb.

Definition remove_module_with (rec : hdr -> payload -> M unit) (c : Z) : M unit :=
  s <- get ;;
  let m := find_mod c (mods s) in
  if negb (m_reg m) then ret tt else      (* self.modules.get(conn) is not module: already removed *)
  modify (fun s => with_subs s (drop_subs c (m_subs m) (subs s))) ;;;
  modify (fun s => with_loggers s (zremove c (loggers s))) ;;;
  set_mod c mm_close ;;;
  mlog_with rec 10 ;;;
  s1 <- get ;;
  send_mgr_with rec MT_CLIENT_CLOSED SZ_CLIENT_CLOSED (client_payload true (find_mod c (mods s1))) ;;;
  s2 <- get ;;
  if m_reg (find_mod c (mods s2)) then set_mod c mm_unreg else crash XKeyError.

Definition on_conn_err_with (rec : hdr -> payload -> M unit) (c : Z) (hh : hdr) : M unit :=
  remove_module_with rec c ;;; mlog_with rec 40 ;;; send_failed_with rec c hh.

(* send to one module and handle the outcome the way every call site does *)
Definition send_checked_with (rec : hdr -> payload -> M unit) (c : Z) (hh : hdr) (p : payload) : M hdr :=
  r <- mod_send c hh p ;;
  match fst r with
  | SOk => set_mod c (fun m => mm_drops m 0) ;;; ret (snd r)
  | SConnErr | SOSErr => on_conn_err_with rec c (snd r) ;;; ret (snd r)   (* except OSError *)
  end.

(* one recipient of the snapshot; returns the header as last stamped *)
Definition deliver_with (rec : hdr -> payload -> M unit) (p : payload) (hh : hdr) (c : Z) : M hdr :=
  s <- get ;;
  let m := find_mod c (mods s) in
  if negb (m_reg m) then ret hh else      (* removed while delivering to an earlier subscriber *)
  if zmem c (wl s) then
    if dest_filter (h_dst_mod hh) (m_mod_id m) (m_logger m) then send_checked_with rec c hh p
    else ret hh
  else if m_logger m then
    if m_closed m then crash XValueError        (* select() on a closed socket *)
    else send_checked_with rec c hh p
  else
    set_mod c (fun m => mm_drops m (m_drops m + 1)) ;;;
    send_failed_with rec c hh ;;; ret hh.

Fixpoint deliver_loop (rec : hdr -> payload -> M unit) (p : payload) (hh : hdr) (l : list Z) : M unit :=
  match l with [] => ret tt | c :: r => hh' <- deliver_with rec p hh c ;; deliver_loop rec p hh' r end.

Definition count_msg (t : Z) : M unit :=
  s <- get ;;
  if negb (sending_traffic s) then
    modify (fun s => with_counts s (if timing_on cfg then cincr t (counts s) else counts s) (cincr t (traffic s)))
  else ret tt.

Definition snapshot (s : mstate) (t : Z) : list Z := alookup t (subs s) ++ alookup ALL_MESSAGE_TYPES (subs s).

Definition forward_body (rec : hdr -> payload -> M unit) (h : hdr) (p : payload) : M unit :=
  count_msg (h_type h) ;;;
  if bad_dest_mod (h_dst_mod h) then mlog_with rec 40
  else if bad_dest_host (h_dst_host h) then mlog_with rec 40
  else
    s <- get ;;
    deliver_loop rec p h (snapshot s (h_type h)).

Fixpoint forward (fuel : nat) (h : hdr) (p : payload) {struct fuel} : M unit :=
  match fuel with
  | O => crash XFuel
  | S k => forward_body (forward k) h p
  end.

(* nesting budget of forward_message (Python's own limit is its recursion limit) *)
Variable FUEL : nat.
Definition fwd : hdr -> payload -> M unit := forward FUEL.

Definition mlog := mlog_with fwd.
Definition send_mgr := send_mgr_with fwd.
Definition send_failed := send_failed_with fwd.
Definition remove_module := remove_module_with fwd.
Definition send_checked := send_checked_with fwd.

Definition send_client_info (c : Z) : M unit :=
  mlog 10 ;;;
  s <- get ;;
  send_mgr MT_CLIENT_INFO SZ_CLIENT_INFO (client_payload false (find_mod c (mods s))).

(* send_to_loggers: iterates over a copy of the set, skipping modules removed meanwhile *)
Fixpoint loggers_loop (hh : hdr) (p : payload) (l : list Z) : M unit :=
  match l with
  | [] => ret tt
  | c :: r =>
    s <- get ;;
    let m := find_mod c (mods s) in
    if negb (m_reg m) then loggers_loop hh p r
    else if negb (zmem c (wl s)) && m_closed m then crash XValueError
    else hh' <- send_checked c hh p ;; loggers_loop hh' p r
  end.

Definition send_to_loggers (hh : hdr) (p : payload) : M unit :=
  s <- get ;; loggers_loop hh p (loggers s).

Definition send_ack (c : Z) : M unit :=
  s <- get ;;
  let hh := mgr_hdr MT_ACKNOWLEDGE 0 (m_mod_id (find_mod c (mods s))) in
  hh' <- send_checked c hh (PData 0 0) ;;
  send_to_loggers hh' (PData 0 0).

(* assign_module_id *)
Fixpoint assign_loop (n : nat) (off : Z) (used : list Z) : option Z * Z :=
  match n with
  | O => (None, off)
  | S k =>
    let mid := off + DYN_MOD_ID_START in
    let off1 := off + 1 in
    let off2 := if dyn_wrap off1 then 0 else off1 in
    if zmem mid used then assign_loop k off2 used else (Some mid, off2)
  end.

Definition assign_module_id : M (option Z) :=
  s <- get ;;
  let used := map m_mod_id (registered s) in
  let '(r, off) := assign_loop (Z.to_nat MAX_DYN_IDS) (dyn_off s) used in
  modify (fun s => with_dyn s off) ;;;
  match r with
  | Some mid => ret (Some mid)
  | None => mlog 40 ;;; ret None          (* RuntimeError, caught in connect_module *)
  end.

(* what the wire delivered, decoded the way the manager decodes it *)
Inductive inpayload :=
| InData (id : Z)
| InConnect (logger daemon : Z)
| InConnectV2 (logger daemon allow_multiple mod_id pid name : Z) (ascii : bool)
| InSub (msg_type : Z)
| InReady (pid : Z)
| InName (name : Z) (ascii : bool)
| InNone.

(* the loop over self.modules.values() in connect_module; true = refused *)
Fixpoint connect_scan (c : Z) (me : module) (others : list module) : M bool :=
  match others with
  | [] => ret false
  | m :: r =>
    if m_conn m =? c then connect_scan c me r
    else if (m_mod_id m =? m_mod_id me) && (m_unique m || m_unique me) then
      mlog 40 ;;; remove_module c ;;; ret true
    else if negb (m_name me =? 0) then
      if (m_unique m || m_unique me) && (m_name m =? m_name me) then
        mlog 40 ;;; remove_module c ;;; ret true
      else mlog 10 ;;; connect_scan c me r
    else connect_scan c me r
  end.

Definition connect_module (c : Z) (h : hdr) (ip : inpayload) : M bool :=
  s <- get ;;
  let m := find_mod c (mods s) in
  if m_connected m then ret false
  else
    bad_name <-
      (match ip with
       | InConnectV2 lg dm am mid pid name ascii =>
         (* mod_id, unique, pid are stored before the name is decoded *)
         set_mod c (fun m => mm_ident m mid pid (m_name m) (am =? 0)) ;;;
         if ascii then
           set_mod c (fun m => mm_name m name) ;;;
           set_mod c (fun m => mm_flags m (lg =? 1) (dm =? 1)) ;;; ret false
         else mlog 40 ;;; remove_module c ;;; ret true      (* UnicodeDecodeError: refused *)
       | InConnect lg dm =>
         set_mod c (fun m => mm_modid m (h_src_mod h)) ;;;
         set_mod c (fun m => mm_flags m (lg =? 1) (dm =? 1)) ;;; ret false
       | _ => ret false
       end) ;;
    if bad_name then ret false else
    s1 <- get ;;
    let me := find_mod c (mods s1) in
    refused <-
      (if negb (m_mod_id me =? 0) then
         if bad_user_id (m_mod_id me) then mlog 40 ;;; remove_module c ;;; ret true
         else connect_scan c me (registered s1)
       else
         r <- assign_module_id ;;
         match r with
         | Some mid => set_mod c (fun m => mm_modid m mid) ;;; ret false
         | None => remove_module c ;;; ret true
         end) ;;
    if refused then ret false
    else
      set_mod c mm_connected ;;;
      s2 <- get ;;
      (if m_logger (find_mod c (mods s2)) && m_reg (find_mod c (mods s2)) then modify (fun s => with_loggers s (zinsert c (loggers s))) else ret tt) ;;;
      ret true.

Definition add_subscription (c t : Z) : M unit :=
  s <- get ;;
  let m := find_mod c (mods s) in
  if t =? ALL_MESSAGE_TYPES then
    modify (fun s => with_subs s (drop_subs c (m_subs m) (subs s))) ;;;
    modify (fun s => with_subs s (aupdate t (zinsert c) (subs s))) ;;;
    set_mod c (fun m => mm_subs m [t]) ;;;
    mlog 10
  else if zmem ALL_MESSAGE_TYPES (m_subs m) then ret tt
  else
    modify (fun s => with_subs s (aupdate t (zinsert c) (subs s))) ;;;
    set_mod c (fun m => mm_subs m (zinsert t (m_subs m))) ;;;
    mlog 10.

Definition remove_subscription (c t : Z) : M unit :=
  s <- get ;;
  let m := find_mod c (mods s) in
  if t =? ALL_MESSAGE_TYPES then
    modify (fun s => with_subs s (aupdate t (zremove c) (subs s))) ;;;
    modify (fun s => with_subs s (drop_subs c (m_subs m) (subs s))) ;;;
    set_mod c (fun m => mm_subs m []) ;;;
    mlog 10
  else if zmem ALL_MESSAGE_TYPES (m_subs m) then ret tt
  else
    modify (fun s => with_subs s (aupdate t (zremove c) (subs s))) ;;;
    set_mod c (fun m => mm_subs m (zremove t (m_subs m))) ;;;
    mlog 10.

Definition process_message (c : Z) (h : hdr) (ip : inpayload) : M unit :=
  let t := h_type h in
  if (t =? MT_CONNECT) || (t =? MT_CONNECT_V2) then
    ok <- connect_module c h ip ;;
    if ok then send_ack c ;;; send_client_info c ;;; mlog 20 else ret tt
  else if t =? MT_DISCONNECT then remove_module c ;;; mlog 20
  else if (t =? MT_SUBSCRIBE) || (t =? MT_RESUME_SUBSCRIPTION) then
    (match ip with InSub mt => add_subscription c mt | _ => ret tt end) ;;; send_ack c
  else if (t =? MT_UNSUBSCRIBE) || (t =? MT_PAUSE_SUBSCRIPTION) then
    (match ip with InSub mt => remove_subscription c mt | _ => ret tt end) ;;; send_ack c
  else if t =? MT_CLIENT_SET_NAME then
    (match ip with
     | InName n ascii => if ascii then set_mod c (fun m => mm_name m n) ;;; mlog 20 else mlog 30
     | _ => mlog 20 end) ;;;
    send_client_info c
  else if t =? MT_MODULE_READY then
    (match ip with InReady pid => set_mod c (fun m => mm_pid m pid) | _ => ret tt end) ;;;
    send_client_info c
  else
    mlog 10 ;;;
    fwd h (match ip with InData id => PData id (h_nbytes h) | _ => PData 0 (h_nbytes h) end).

(* what a ready socket delivers to read_message *)
Inductive inbound :=
| IFrame (h : hdr) (p : inpayload)
| IEof                   (* short header read: peer closed *)
| IEofData (h : hdr)     (* header ok, payload cut short *)
| IReset                 (* ConnectionError while reading the header *)
| IResetData (h : hdr).  (* ... while reading the payload *)

Definition bad_size (n : Z) : bool := bad_size_guard n DATA_BUFFER_SIZE.

Definition service (c : Z) (ib : inbound) : M unit :=
  s <- get ;;
  if negb (m_reg (find_mod c (mods s))) then ret tt      (* self.modules.get(sock) is None *)
  else match ib with
       | IEof => remove_module c ;;; mlog 30
       | IReset => remove_module c ;;; mlog 40
       | IEofData h => if bad_size (h_nbytes h) then remove_module c ;;; mlog 30
                       else if h_nbytes h =? 0 then process_message c h InNone
                       else remove_module c ;;; mlog 30
       | IResetData h => if bad_size (h_nbytes h) then remove_module c ;;; mlog 30
                         else if h_nbytes h =? 0 then process_message c h InNone
                         else remove_module c ;;; mlog 40
       | IFrame h ip => if bad_size (h_nbytes h) then remove_module c ;;; mlog 30
                        else process_message c h ip
       end.

(* ---- periodic senders ---- *)

Definition wrap16 (v : Z) : Z := v mod 65536.

Definition norm_index (len i : Z) : option Z :=
  let j := if i <? 0 then i + len else i in
  if (0 <=? j) && (j <? len) then Some j else None.

Fixpoint timing_writes (l : list (Z * Z)) : option (list (Z * Z)) :=
  match l with
  | [] => Some []
  | (mt, cnt) :: r =>
    if timing_slot_ok mt then
      match norm_index LEN_timing mt, timing_writes r with
      | Some j, Some w => Some ((j, wrap16 cnt) :: w)
      | _, _ => None
      end
    else timing_writes r
  end.

Fixpoint pid_writes (l : list module) : option (list (Z * Z)) :=
  match l with
  | [] => Some []
  | m :: r =>
    match norm_index LEN_ModulePID (m_mod_id m), pid_writes r with
    | Some j, Some w => Some ((j, m_pid m) :: w)
    | _, _ => None
    end
  end.

Definition send_timing_message : M unit :=
  s <- get ;;
  match timing_writes (counts s) with
  | None => crash XIndexError
  | Some tw =>
    modify (fun s => with_counts s [] (traffic s)) ;;;
    match pid_writes (registered s) with
    | None => crash XIndexError
    | Some pw =>
      let prev := sending_traffic s in
      modify (fun s => with_sending s true) ;;;
      send_mgr MT_TIMING_MESSAGE SZ_TIMING_MESSAGE (PTiming tw pw) ;;;
      modify (fun s => with_sending s prev)   (* token reset: restores the previous value *)
    end
  end.

Fixpoint list_set (l : list Z) (i : nat) (v : Z) : list Z :=
  match l, i with
  | [], _ => []
  | _ :: r, O => v :: r
  | x :: r, S k => x :: list_set r k v
  end.

Fixpoint fill_from (l : list Z) (i : nat) (v : Z) : list Z :=
  match l, i with
  | [], _ => []
  | _ :: r, O => v :: fill_from r O v
  | x :: r, S k => x :: fill_from r k v
  end.

(* the loop of send_traffic: returns the list of (sub_seqno, types, counts) sent, pure.
   dsub is data.sub_seqno as last assigned inside the loop (the tail send reuses it). *)
Fixpoint traffic_loop (items : list (Z * Z)) (n sub dsub nsent i : Z) (ty ct : list Z)
  : list (Z * list Z * list Z) * (Z * Z * Z * list Z * list Z) :=
  match items with
  | [] => ([], (dsub, nsent, i, ty, ct))
  | (mt, cnt) :: r =>
    let i' := traffic_index n in
    let ty' := list_set ty (Z.to_nat i') mt in
    let ct' := list_set ct (Z.to_nat i') (wrap16 cnt) in
    if traffic_send_now n then
      let '(l, fin) := traffic_loop r (n + 1) (sub + 1) sub (traffic_nsent n) i' ty' ct' in
      ((sub, ty', ct') :: l, fin)
    else traffic_loop r (n + 1) sub sub nsent i' ty' ct'
  end.

Definition traffic_messages (items : list (Z * Z)) : list (Z * list Z * list Z) :=
  let zeros := repeat 0 (Z.to_nat MESSAGE_TRAFFIC_SIZE) in
  let '(l, (dsub, nsent, i, ty, ct)) := traffic_loop items 0 1 0 0 (-1) zeros zeros in
  if 0 <=? i then
    if traffic_tail_needed nsent (Z.of_nat (length items)) then
      l ++ [(dsub, fill_from ty (Z.to_nat (i + 1)) (-1), ct)]
    else l
  else l.

Definition send_traffic (now : Z) : M unit :=
  s <- get ;;
  let prev := sending_traffic s in
  modify (fun s => with_sending s true) ;;;
  mlog 10 ;;;
  s1 <- get ;;
  mapM_ (fun x => let '(sub, ty, ct) := x in
                  send_mgr MT_MESSAGE_TRAFFIC SZ_MESSAGE_TRAFFIC (PTraffic (traffic_seq s1) sub ty ct))
        (traffic_messages (traffic s1)) ;;;
  modify (fun s => with_sending s prev) ;;;
  modify (fun s => with_counts s (counts s) []) ;;;
  modify (fun s => with_times s (traffic_seq s + 1) (t_timing s) now (t_info s)).

Fixpoint active_loop (i : Z) (l : list Z) (acc : list (Z * Z)) : M (list (Z * Z)) :=
  match l with
  | [] => ret acc
  | c :: r =>
    s <- get ;;
    let cur := find_mod c (mods s) in
    let acc' := if active_slot_ok i then acc ++ [(m_mod_id cur, m_pid cur)] else acc in
    (if active_slot_ok i && negb (i <? LEN_client_mod_id) then crash XIndexError else ret tt) ;;;
    send_client_info c ;;;
    active_loop (i + 1) r acc'
  end.

Definition send_active_clients (now : Z) : M unit :=
  mlog 10 ;;;
  s <- get ;;
  entries <- active_loop 0 (map m_conn (registered s)) [] ;;
  s1 <- get ;;
  send_mgr MT_ACTIVE_CLIENTS SZ_ACTIVE_CLIENTS (PActive (Z.of_nat (length (registered s1)) - 1) entries) ;;;
  modify (fun s => with_times s (traffic_seq s) (t_timing s) (t_traffic s) now).

(* (now - t) > period, with now and t in quarter seconds *)
Definition elapsed (now t num den : Z) : bool := (num * 4) <? ((now - t) * den).

Definition periodic (now : Z) : M unit :=
  s <- get ;;
  (if timing_on cfg && elapsed now (t_timing s) PER_timing_num PER_timing_den then
     send_timing_message ;;; modify (fun s => with_times s (traffic_seq s) now (t_traffic s) (t_info s))
   else ret tt) ;;;
  s1 <- get ;;
  (if elapsed now (t_traffic s1) PER_traffic_num PER_traffic_den then send_traffic now else ret tt) ;;;
  s2 <- get ;;
  (if elapsed now (t_info s2) PER_info_num PER_info_den then send_active_clients now else ret tt).

Definition new_module (uid : Z) : module :=
  mkModule uid 0 0 0 [] false false false true 0 0 false true.

Inductive event :=
| ERound (accept : bool) (ready : list (Z * inbound)) (writable : list Z) (now : Z)
| EFault (c n : Z).       (* from now on conn c completes n more sendall calls, then fails *)

Definition step (e : event) : M unit :=
  match e with
  | EFault c n =>
    (* a connection that has started failing keeps failing: a new plan does not revive it *)
    modify (fun s => match flookup c (faults s) with
                     | Some k => if k <=? 0 then s else with_out s (out s) (fset c n (faults s))
                     | None => with_out s (out s) (fset c n (faults s))
                     end)
  | ERound accept ready0 writable now =>
    s0 <- get ;;
    (* select() only polls sockets that are keys of self.modules *)
    let ready := filter (fun x => m_reg (find_mod (fst x) (mods s0))) ready0 in
    (if accept || negb (match ready with [] => true | _ => false end) then
       (if accept then
          mlog 20 ;;;
          modify (fun s => with_uid (with_mods s (mods s ++ [new_module (next_uid s + 1)])) (next_uid s + 1))
        else ret tt) ;;;
       modify (fun s => with_wl s (match ready with [] => [] | _ => writable end)) ;;;
       mapM_ (fun x => service (fst x) (snd x)) ready
     else ret tt) ;;;
    periodic now
  end.

Definition MM_PID : Z := 4242.
Definition mm_module : module := mkModule 0 1 0 MM_PID [] true false false true 0 0 false true.

Definition init0 : mstate :=
  mkState [mm_module] [] [] 0 0 [] [] [] 1 0 0 0 false true [] [].

(* MessageManager.__init__ ends with logger.info("Message Manager Initialized.") *)
Definition init : res unit := mlog 20 init0.

Fixpoint run_from (r : res unit) (es : list event) : res unit :=
  match r with
  | Crash e s => Crash e s
  | Ok _ s => match es with [] => Ok tt s | e :: rest => run_from (step e s) rest end
  end.

Definition run (es : list event) : res unit := run_from init es.

End WithConfig.
