(* Lemmas about CPython's remove-while-iterating loop (Lib/PyList.v). *)
From Coq Require Import ZArith List Bool Lia ZifyBool.
From Cli Require Import Model.SubBase Lib.PyList Proofs.SetLemmas.
Import ListNotations.
Open Scope Z_scope.

Lemma remove_first_length x l : (length (remove_first x l) <= length l)%nat.
Proof. induction l as [|y l IH]; cbn; [lia|]. destruct (x =? y); cbn; lia. Qed.

Lemma remove_first_incl x l y : In y (remove_first x l) -> In y l.
Proof.
  induction l as [|z l IH]; cbn; [tauto|]. destruct (x =? z); cbn; [tauto|]. intros [H|H]; [left; exact H|right; exact (IH H)].
Qed.

(* the fuel of iter_remove is sufficient: the loop always terminates normally *)
Lemma iter_remove_fuel_total p fuel : forall l i, (length l - i < fuel)%nat ->
  exists l', iter_remove_fuel fuel p l i = Some l'.
Proof.
  induction fuel as [|k IH]; intros l i H; [lia|]. cbn [iter_remove_fuel].
  destruct (nth_error l i) as [x|] eqn:N; [|eexists; reflexivity].
  assert (Hi : (i < length l)%nat) by (apply nth_error_Some; congruence).
  destruct (p x); apply IH; [pose proof (remove_first_length x l)|]; lia.
Qed.
Lemma iter_remove_total p l : exists l', iter_remove p l = Some l'.
Proof. apply iter_remove_fuel_total. lia. Qed.

(* survivors come from the original list *)
Lemma iter_remove_fuel_incl p fuel : forall l i l', iter_remove_fuel fuel p l i = Some l' ->
  forall y, In y l' -> In y l.
Proof.
  induction fuel as [|k IH]; intros l i l' H y Hy; [discriminate|]. cbn [iter_remove_fuel] in H.
  destruct (nth_error l i) as [x|]; [|inversion H; subst; exact Hy].
  destruct (p x); [|exact (IH _ _ _ H y Hy)]. apply (remove_first_incl x). exact (IH _ _ _ H y Hy).
Qed.
Lemma iter_remove_incl p l l' : iter_remove p l = Some l' -> forall y, In y l' -> In y l.
Proof. apply iter_remove_fuel_incl. Qed.

(* entries that do not satisfy the test are never removed *)
Lemma remove_first_keeps x l y : x <> y -> In y l -> In y (remove_first x l).
Proof.
  intros NE. induction l as [|z l IH]; cbn; [tauto|]. destruct (x =? z) eqn:E.
  - apply Z.eqb_eq in E. subst. intros [H|H]; [congruence|exact H].
  - intros [H|H]; [left; exact H|right; exact (IH H)].
Qed.
Lemma iter_remove_fuel_keeps p fuel : forall l i l' y, iter_remove_fuel fuel p l i = Some l' ->
  p y = false -> In y l -> In y l'.
Proof.
  induction fuel as [|k IH]; intros l i l' y H P Hy; [discriminate|]. cbn [iter_remove_fuel] in H.
  destruct (nth_error l i) as [x|]; [|inversion H; subst; exact Hy].
  destruct (p x) eqn:Px; [|exact (IH _ _ _ y H P Hy)].
  apply (IH _ _ _ y H P). apply remove_first_keeps; [intros C; subst; congruence|exact Hy].
Qed.
Lemma iter_remove_keeps p l l' y : iter_remove p l = Some l' -> p y = false -> In y l -> In y l'.
Proof. apply iter_remove_fuel_keeps. Qed.

(* on a duplicate-free list `remove` deletes exactly the element under the iterator ... *)
Lemma remove_first_at pre x rest : ~ In x pre -> remove_first x (pre ++ x :: rest) = pre ++ rest.
Proof.
  induction pre as [|y pre IH]; intros H; cbn.
  - rewrite Z.eqb_refl. reflexivity.
  - destruct (x =? y) eqn:E; [apply Z.eqb_eq in E; subst; exfalso; apply H; left; reflexivity|].
    rewrite IH; [reflexivity|]. intros C. apply H. right. exact C.
Qed.
Lemma nth_error_at {A} (pre : list A) x rest : nth_error (pre ++ x :: rest) (length pre) = Some x.
Proof. rewrite nth_error_app2 by lia. rewrite Nat.sub_diag. reflexivity. Qed.
Lemma nth_error_end {A} (pre : list A) : nth_error (pre ++ []) (length pre) = None.
Proof. apply nth_error_None. rewrite app_nil_r. lia. Qed.

(* ... and the loop computes skip_filter: the element after a removed one is never examined *)
Lemma iter_remove_fuel_nodup p fuel : forall rest pre, NoDup (pre ++ rest) -> (length rest < fuel)%nat ->
  iter_remove_fuel fuel p (pre ++ rest) (length pre) = Some (pre ++ skip_filter p rest).
Proof.
  induction fuel as [|k IH]; intros rest pre ND HF; [lia|]. cbn [iter_remove_fuel].
  destruct rest as [|x r].
  - rewrite nth_error_end. reflexivity.
  - rewrite nth_error_at. cbn [skip_filter]. destruct (p x) eqn:P.
    + rewrite remove_first_at by (apply NoDup_remove_2 in ND; intros C; apply ND; apply in_or_app; left; exact C).
      apply NoDup_remove_1 in ND. destruct r as [|y r'].
      * destruct k; [cbn in HF; lia|]. cbn [iter_remove_fuel].
        replace (nth_error (pre ++ []) (S (length pre))) with (@None Z); [reflexivity|].
        symmetry. apply nth_error_None. rewrite app_nil_r. lia.
      * replace (pre ++ y :: r') with ((pre ++ [y]) ++ r') by (rewrite <- app_assoc; reflexivity).
        replace (S (length pre)) with (length (pre ++ [y])) by (rewrite app_length; cbn; lia).
        rewrite IH.
        -- rewrite <- app_assoc. reflexivity.
        -- rewrite <- app_assoc. exact ND.
        -- cbn in HF. lia.
    + replace (pre ++ x :: r) with ((pre ++ [x]) ++ r) by (rewrite <- app_assoc; reflexivity).
      replace (S (length pre)) with (length (pre ++ [x])) by (rewrite app_length; cbn; lia).
      rewrite IH.
      * rewrite <- app_assoc. reflexivity.
      * rewrite <- app_assoc. exact ND.
      * cbn in HF. lia.
Qed.
Lemma iter_remove_nodup p l : NoDup l -> iter_remove p l = Some (skip_filter p l).
Proof. intros H. exact (iter_remove_fuel_nodup p (S (length l)) l [] H (Nat.lt_succ_diag_r _)). Qed.

Lemma no_adjacent_tail p x l : no_adjacent p (x :: l) = true -> no_adjacent p l = true.
Proof. destruct l as [|y r]; [reflexivity|]. cbn [no_adjacent]. intros H. apply andb_true_iff in H. exact (proj2 H). Qed.

Lemma no_adjacent_ext p q l : (forall x, p x = q x) -> no_adjacent p l = no_adjacent q l.
Proof.
  intros E. induction l as [|x r IH]; [reflexivity|]. destruct r as [|y r']; [reflexivity|].
  change (negb (p x && p y) && no_adjacent p (y :: r') = negb (q x && q y) && no_adjacent q (y :: r')).
  rewrite IH, !E. reflexivity.
Qed.

Lemma skip_filter_no_adjacent_n p n : forall l, (length l <= n)%nat -> no_adjacent p l = true ->
  skip_filter p l = filter (fun x => negb (p x)) l.
Proof.
  induction n as [|n IH]; intros l HL HN.
  - destruct l; [reflexivity|cbn in HL; lia].
  - destruct l as [|x r]; [reflexivity|]. cbn [skip_filter filter]. destruct (p x) eqn:P; cbn [negb].
    + destruct r as [|y r']; [reflexivity|]. cbn [no_adjacent] in HN. rewrite P in HN. cbn [andb] in HN.
      apply andb_true_iff in HN. destruct HN as [H1 H2]. apply negb_true_iff in H1.
      cbn [filter]. rewrite H1. cbn [negb]. f_equal. apply IH; [cbn in HL; lia|].
      exact (no_adjacent_tail p y r' H2).
    + f_equal. apply IH; [cbn in HL; lia|]. exact (no_adjacent_tail p x r HN).
Qed.
Lemma skip_filter_no_adjacent p l : no_adjacent p l = true -> skip_filter p l = filter (fun x => negb (p x)) l.
Proof. apply (skip_filter_no_adjacent_n p (length l)). lia. Qed.

Lemma nodupb_NoDup l : nodupb l = true -> NoDup l.
Proof.
  induction l as [|x r IH]; intros H; [constructor|]. cbn [nodupb] in H. apply andb_true_iff in H.
  destruct H as [H1 H2]. constructor; [|exact (IH H2)]. apply negb_true_iff in H1. apply mem_false_iff. exact H1.
Qed.

(* the intended filter, under the syntactic side condition *)
Lemma iter_remove_ideal p l : nodupb l = true -> no_adjacent p l = true ->
  iter_remove p l = Some (filter (fun x => negb (p x)) l).
Proof. intros H1 H2. rewrite (iter_remove_nodup p l (nodupb_NoDup l H1)), (skip_filter_no_adjacent p l H2). reflexivity. Qed.
