(* The remove-from-the-list-while-iterating-a-copy loop of the context managers (Lib/PyList.v) is the filter. *)
From Coq Require Import ZArith List Bool Lia ZifyBool.
From Cli Require Import Model.SubBase Lib.PyList Proofs.SetLemmas.
Import ListNotations.
Open Scope Z_scope.

Lemma remove_first_at pre x rest : ~ In x pre -> remove_first x (pre ++ x :: rest) = pre ++ rest.
Proof.
  induction pre as [|y pre IH]; intros H; cbn.
  - rewrite Z.eqb_refl. reflexivity.
  - destruct (x =? y) eqn:E; [apply Z.eqb_eq in E; subst; exfalso; apply H; left; reflexivity|].
    rewrite IH; [reflexivity|]. intros C. apply H. right. exact C.
Qed.

(* after the copy's prefix `pre` has been visited, msg_list = (kept part of pre) ++ (unvisited suffix) *)
Lemma copy_remove_from_spec p : forall suf pre,
  copy_remove_from p suf (filter (fun x => negb (p x)) pre ++ suf) = filter (fun x => negb (p x)) (pre ++ suf).
Proof.
  induction suf as [|x suf IH]; intros pre.
  - cbn. rewrite !app_nil_r. reflexivity.
  - unfold copy_remove_from in *. cbn [fold_left]. destruct (p x) eqn:P.
    + rewrite remove_first_at.
      * rewrite IH. rewrite !filter_app. cbn [filter]. rewrite P. reflexivity.
      * intros C. apply filter_In in C. rewrite P in C. destruct C; discriminate.
    + replace (filter (fun y => negb (p y)) pre ++ x :: suf)
        with (filter (fun y => negb (p y)) (pre ++ [x]) ++ suf)
        by (rewrite filter_app; cbn [filter]; rewrite P; cbn [negb]; rewrite <- app_assoc; reflexivity).
      rewrite IH. rewrite <- app_assoc. reflexivity.
Qed.

Theorem copy_remove_filter p l : copy_remove p l = filter (fun x => negb (p x)) l.
Proof. exact (copy_remove_from_spec p l []). Qed.

Lemma mem_copy_remove x p l : mem x (copy_remove p l) = mem x l && negb (p x).
Proof. rewrite copy_remove_filter. apply mem_filter. Qed.
