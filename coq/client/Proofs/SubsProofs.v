(* Proofs about the generated subscription algebra (Gen/ClientSub.v, Gen/MgrSub.v) composed in
   Model/ClientSubs.v.  Everything is stated through `mem`, so the list representation of sets and the
   order in which a python set is iterated do not matter. *)
From Coq Require Import ZArith List Bool String Lia ZifyBool.
From Cli Require Import Model.SubBase Lib.PyList Gen.ClientSub Gen.MgrSub Model.ClientSubs Proofs.SetLemmas.
Import ListNotations.
Open Scope Z_scope.

Notation ALL := ALL_MESSAGE_TYPES.

(* ------------------------------------------------------------------ *)
(* 1. what the generated client function does, case by case            *)
(* ------------------------------------------------------------------ *)

Inductive ckind := KSub | KUnsub | KPause | KResume.
Definition kstr (k : ckind) : string :=
  match k with KSub => "Subscribe" | KUnsub => "Unsubscribe" | KPause => "PauseSubscription"
             | KResume => "ResumeSubscription" end%string.
Definition kmt (k : ckind) : Z :=
  match k with KSub => MT_SUBSCRIBE | KUnsub => MT_UNSUBSCRIBE | KPause => MT_PAUSE_SUBSCRIPTION
             | KResume => MT_RESUME_SUBSCRIPTION end.
Definition adds (k : ckind) : bool := match k with KSub | KResume => true | _ => false end.

(* the intended set algebra (the spec side), individual types *)
Definition spec_ind (k : ckind) (c : cstate) (s : list Z) : cstate :=
  match k with
  | KSub | KResume => mkC (set_union (subscribed c) s) (set_diff (paused c) s) (sub_all c)
  | KUnsub => mkC (set_diff (subscribed c) s) (set_diff (paused c) s) (sub_all c)
  | KPause => mkC (set_diff (subscribed c) s) (set_union (paused c) s) (sub_all c)
  end.
Definition spec_all (k : ckind) : cstate :=
  if adds k then mkC [ALL] [] true else mkC [] [] false.

Lemma sub_ctrl_eq k c l :
  sub_ctrl c l (kstr k) =
    if mem ALL l then SOk (spec_all k) [(kmt k, ALL)]
    else if sub_all c then SRaise EInvalidSubscription c
    else SOk (spec_ind k c (to_set l)) (map (fun t => (kmt k, t)) (to_set l)).
Proof.
  unfold sub_ctrl. destruct c as [s p a]. destruct (mem ALL l) eqn:HA; destruct k; cbn;
    destruct a; cbn; reflexivity.
Qed.

(* ------------------------------------------------------------------ *)
(* 2. what the generated manager functions do                           *)
(* ------------------------------------------------------------------ *)

Lemma fold_discard_msubs l m :
  msubs (fold_left (fun (m : mstate) (t : Z) => with_memb m (set_discard (memb m) t)) l m) = msubs m.
Proof. revert m. induction l as [|x l IH]; intros m; [reflexivity|]. cbn [fold_left]. rewrite IH. reflexivity. Qed.

Lemma fold_discard_memb x l m :
  mem x (memb (fold_left (fun (m : mstate) (t : Z) => with_memb m (set_discard (memb m) t)) l m))
  = mem x (memb m) && negb (mem x l).
Proof.
  revert m. induction l as [|y l IH]; intros m; cbn [fold_left].
  - rewrite mem_nil, andb_true_r. reflexivity.
  - rewrite IH. cbn [with_memb memb]. rewrite mem_set_discard, mem_cons.
    destruct (mem x (memb m)), (x =? y), (mem x l); reflexivity.
Qed.

Lemma mgr_recv_kind k m t :
  mgr_recv m (kmt k, t) = if adds k then mgr_add_subscription m t else mgr_remove_subscription m t.
Proof. destruct k; reflexivity. Qed.

Lemma add_ind m t : (t =? ALL) = false -> mem ALL (msubs m) = false ->
  mgr_add_subscription m t = mkM (set_add (msubs m) t) (set_add (memb m) t).
Proof. intros H1 H2. unfold mgr_add_subscription. rewrite H1, H2. reflexivity. Qed.
Lemma remove_ind m t : (t =? ALL) = false -> mem ALL (msubs m) = false ->
  mgr_remove_subscription m t = mkM (set_discard (msubs m) t) (set_discard (memb m) t).
Proof. intros H1 H2. unfold mgr_remove_subscription. rewrite H1, H2. reflexivity. Qed.
Lemma add_ignored m t : (t =? ALL) = false -> mem ALL (msubs m) = true -> mgr_add_subscription m t = m.
Proof. intros H1 H2. unfold mgr_add_subscription. rewrite H1, H2. reflexivity. Qed.
Lemma remove_ignored m t : (t =? ALL) = false -> mem ALL (msubs m) = true -> mgr_remove_subscription m t = m.
Proof. intros H1 H2. unfold mgr_remove_subscription. rewrite H1, H2. reflexivity. Qed.

Lemma add_all_msubs x m : mem x (msubs (mgr_add_subscription m ALL)) = (x =? ALL).
Proof.
  unfold mgr_add_subscription. rewrite Z.eqb_refl. cbn [with_msubs msubs memb].
  rewrite mem_set_add, mem_nil. reflexivity.
Qed.
(* NOTE the order of the statements in manager.py (since fix a892a86): the module is FIRST discarded from
   subscriptions[s] for every s in Module.subs - which contains ALL itself when the module is already
   subscribed to everything - and only THEN added to subscriptions[ALL]. *)
Lemma add_all_memb x m :
  mem x (memb (mgr_add_subscription m ALL)) = (mem x (memb m) && negb (mem x (msubs m))) || (x =? ALL).
Proof.
  unfold mgr_add_subscription. rewrite Z.eqb_refl. cbn [with_msubs with_memb msubs memb].
  rewrite mem_set_add, fold_discard_memb. reflexivity.
Qed.
Lemma remove_all_msubs x m : mem x (msubs (mgr_remove_subscription m ALL)) = false.
Proof. unfold mgr_remove_subscription. rewrite Z.eqb_refl. reflexivity. Qed.
Lemma remove_all_memb x m :
  mem x (memb (mgr_remove_subscription m ALL)) = mem x (memb m) && negb (x =? ALL) && negb (mem x (msubs m)).
Proof.
  unfold mgr_remove_subscription. rewrite Z.eqb_refl. cbn [with_msubs msubs memb].
  rewrite fold_discard_memb. cbn [with_memb memb msubs]. rewrite mem_set_discard. reflexivity.
Qed.

(* a batch of individual control frames, in ANY order and with any repetitions *)
Lemma recv_all_ind k l : forall m,
  mem ALL l = false -> mem ALL (msubs m) = false ->
  let m' := mgr_recv_all m (map (fun t => (kmt k, t)) l) in
  mem ALL (msubs m') = false /\
  (forall x, mem x (msubs m') = if adds k then mem x (msubs m) || mem x l else mem x (msubs m) && negb (mem x l)) /\
  (forall x, mem x (memb m') = if adds k then mem x (memb m) || mem x l else mem x (memb m) && negb (mem x l)).
Proof.
  induction l as [|t l IH]; intros m HA HM; cbn zeta.
  - cbn. split; [exact HM|]. split; intros x; destruct (adds k); rewrite ?orb_false_r, ?andb_true_r; reflexivity.
  - rewrite mem_cons in HA. apply orb_false_iff in HA. destruct HA as [HA1 HA2].
    cbn [map mgr_recv_all fold_left]. rewrite mgr_recv_kind.
    assert (Ht : (t =? ALL) = false) by (rewrite Z.eqb_sym; exact HA1).
    destruct (adds k) eqn:K.
    + rewrite (add_ind m t Ht HM).
      specialize (IH (mkM (set_add (msubs m) t) (set_add (memb m) t)) HA2).
      cbn [msubs memb] in IH. rewrite mem_set_add, HM, HA1 in IH. specialize (IH eq_refl).
      cbn zeta in IH. unfold mgr_recv_all in IH. rewrite ?K in IH. destruct IH as (I1 & I2 & I3).
      split; [exact I1|]. split; intros x; rewrite ?I2, ?I3, mem_set_add, mem_cons;
        destruct (x =? t); rewrite ?orb_true_r, ?orb_false_r; cbn; reflexivity.
    + rewrite (remove_ind m t Ht HM).
      specialize (IH (mkM (set_discard (msubs m) t) (set_discard (memb m) t)) HA2).
      cbn [msubs memb] in IH. rewrite mem_set_discard, HM in IH. specialize (IH eq_refl).
      cbn zeta in IH. unfold mgr_recv_all in IH. rewrite ?K in IH. destruct IH as (I1 & I2 & I3).
      split; [exact I1|]. split; intros x; rewrite ?I2, ?I3, mem_set_discard, mem_cons;
        destruct (x =? t); rewrite ?andb_false_r, ?andb_true_r; cbn; reflexivity.
Qed.

(* individual control frames are ignored by a manager that has the module subscribed to everything *)
Lemma recv_all_ignored k l : forall m, mem ALL l = false -> mem ALL (msubs m) = true ->
  mgr_recv_all m (map (fun t => (kmt k, t)) l) = m.
Proof.
  induction l as [|t l IH]; intros m HA HM; [reflexivity|].
  rewrite mem_cons in HA. apply orb_false_iff in HA. destruct HA as [HA1 HA2].
  assert (Ht : (t =? ALL) = false) by (rewrite Z.eqb_sym; exact HA1).
  cbn [map mgr_recv_all fold_left]. rewrite mgr_recv_kind.
  destruct (adds k); rewrite ?(add_ignored m t Ht HM), ?(remove_ignored m t Ht HM); apply IH; assumption.
Qed.

(* ------------------------------------------------------------------ *)
(* 3. the agreement invariant                                          *)
(* ------------------------------------------------------------------ *)

Definition Inv (s : sys) : Prop :=
  let c := cl s in let m := mg s in
  if sub_all c then
    (forall x, mem x (subscribed c) = (x =? ALL)) /\ (forall x, mem x (paused c) = false) /\
    (forall x, mem x (msubs m) = (x =? ALL)) /\ (forall x, mem x (memb m) = (x =? ALL))
  else
    mem ALL (subscribed c) = false /\ mem ALL (paused c) = false /\
    (forall x, mem x (subscribed c) && mem x (paused c) = false) /\
    (forall x, mem x (msubs m) = mem x (subscribed c)) /\ (forall x, mem x (memb m) = mem x (subscribed c)).

Lemma Inv_init : Inv sys_init.
Proof. cbn. repeat split; intros; reflexivity. Qed.

Lemma Inv_agree s : Inv s ->
  (forall t, reported (cl s) t = delivered (mg s) t) /\
  (forall t, mem t (paused (cl s)) = true -> delivered (mg s) t = false).
Proof.
  unfold Inv, reported, delivered. destruct s as [c m]. cbn [cl mg]. destruct (sub_all c) eqn:A.
  - intros (H1 & H2 & H3 & H4). split.
    + intros t. rewrite (H4 ALL), Z.eqb_refl, orb_true_r. reflexivity.
    + intros t Ht. rewrite H2 in Ht. discriminate.
  - intros (H1 & H2 & H3 & H4 & H5). split.
    + intros t. rewrite !H5, H1, orb_false_r. reflexivity.
    + intros t Ht. rewrite !H5, H1, orb_false_r. specialize (H3 t). rewrite Ht, andb_true_r in H3. exact H3.
Qed.

Lemma Inv_c_wf s : Inv s -> c_wf (cl s) = true.
Proof.
  unfold Inv, c_wf. destruct s as [c m]. cbn [cl mg]. destruct (sub_all c) eqn:A.
  - intros (H1 & H2 & _). rewrite H2. cbn. rewrite andb_true_r, andb_true_iff. split.
    + apply forallb_forall. intros x _. rewrite H2. reflexivity.
    + rewrite andb_true_iff. split; apply seteq_spec; intros x; rewrite ?H1, ?H2, ?mem_cons, ?mem_nil, ?orb_false_r; reflexivity.
  - intros (H1 & H2 & H3 & _). rewrite H1, H2. cbn. rewrite !andb_true_r.
    apply forallb_forall. intros x Hx. apply mem_true_iff in Hx. specialize (H3 x). rewrite Hx in H3.
    cbn in H3. rewrite H3. reflexivity.
Qed.

(* one call of _subscription_control followed by the manager processing its frames *)
Definition ctrl_step (s : sys) (k : ckind) (l : list Z) : sys * option cexc :=
  match sub_ctrl (cl s) l (kstr k) with
  | SOk c' fs => (mkS c' (mgr_recv_all (mg s) fs), None)
  | SRaise e c' => (mkS c' (mg s), Some e)
  end.

Lemma ctrl_step_Inv s k l : Inv s -> Inv (fst (ctrl_step s k l)).
Proof.
  intros HI. unfold ctrl_step. rewrite sub_ctrl_eq. destruct s as [c m]. cbn [cl mg] in *.
  unfold Inv in HI. cbn [cl mg] in HI. destruct (mem ALL l) eqn:HA.
  - (* names ALL_MESSAGE_TYPES: one frame *)
    cbn [fst]. unfold mgr_recv_all. cbn [fold_left]. rewrite mgr_recv_kind. unfold spec_all.
    destruct (adds k) eqn:K.
    + (* subscribe/resume ALL, also when already subscribed to all *)
      unfold Inv. cbn [cl mg sub_all subscribed paused].
      split; [intros x; rewrite mem_cons, mem_nil, orb_false_r; reflexivity|].
      split; [intros x; reflexivity|]. split; intros x.
      * apply add_all_msubs.
      * rewrite add_all_memb. destruct (sub_all c).
        -- destruct HI as (H1 & H2 & H3 & H4). rewrite H3, H4. destruct (x =? ALL); reflexivity.
        -- destruct HI as (H1 & H2 & H3 & H4 & H5). rewrite H4, H5.
           destruct (mem x (subscribed c)), (x =? ALL); reflexivity.
    + unfold Inv. cbn [cl mg sub_all subscribed paused].
      split; [reflexivity|]. split; [reflexivity|]. split; [intros x; reflexivity|].
      split; intros x; rewrite ?mem_nil.
      * reflexivity.
      * rewrite remove_all_memb. destruct (sub_all c).
        -- destruct HI as (H1 & H2 & H3 & H4). rewrite H4, H3. destruct (x =? ALL); reflexivity.
        -- destruct HI as (H1 & H2 & H3 & H4 & H5). rewrite H4, H5. destruct (mem x (subscribed c)), (x =? ALL); reflexivity.
  - destruct (sub_all c) eqn:A.
    + (* refused *) cbn [fst]. unfold Inv. cbn [cl mg]. rewrite A. exact HI.
    + destruct HI as (H1 & H2 & H3 & H4 & H5). cbn [fst].
      assert (HA' : mem ALL (to_set l) = false) by (rewrite mem_to_set; exact HA).
      assert (HM : mem ALL (msubs m) = false) by (rewrite H4; exact H1).
      destruct (recv_all_ind k (to_set l) m HA' HM) as (I1 & I2 & I3). cbn zeta in *.
      unfold Inv. cbn [cl mg].
      destruct k; cbn [spec_ind adds sub_all subscribed paused] in *; rewrite A;
        (repeat split; [..|intros x; rewrite I2|intros x; rewrite I3]);
        try intros x; autorewrite with memdb; rewrite ?H1, ?H2, ?H4, ?H5, ?HA; try reflexivity;
        try (specialize (H3 x); destruct (mem x (subscribed c)), (mem x (paused c)), (mem x l); cbn in *; congruence).
Qed.

Lemma sys_step_as_ctrl s o :
  sys_step s o =
  match o with
  | OSub l => ctrl_step s KSub l | OUnsub l => ctrl_step s KUnsub l
  | OPause l => ctrl_step s KPause l | OResume l => ctrl_step s KResume l
  | OUnsubAll => ctrl_step s KUnsub (to_set (subscribed (cl s)))
  | OPauseAll => ctrl_step s KPause (to_set (subscribed (cl s)))
  | OResumeAll => ctrl_step s KResume (to_set (paused (cl s)))
  end.
Proof. destruct o; reflexivity. Qed.

Lemma sys_step_Inv s o : Inv s -> Inv (fst (sys_step s o)).
Proof. intros HI. rewrite sys_step_as_ctrl. destruct o; apply ctrl_step_Inv; exact HI. Qed.

Lemma run_Inv ops : forall s, Inv s -> Inv (run s ops).
Proof.
  induction ops as [|o r IH]; intros s HI; [exact HI|]. cbn [run]. apply IH. apply sys_step_Inv. exact HI.
Qed.

(* the emitted frames depend on msg_list only as a set, and their order is irrelevant to the manager *)
Lemma recv_all_order_irrelevant k l1 l2 m :
  mem ALL l1 = false -> mem ALL (msubs m) = false -> (forall x, mem x l1 = mem x l2) ->
  let m1 := mgr_recv_all m (map (fun t => (kmt k, t)) l1) in
  let m2 := mgr_recv_all m (map (fun t => (kmt k, t)) l2) in
  (forall x, mem x (msubs m1) = mem x (msubs m2)) /\ (forall x, mem x (memb m1) = mem x (memb m2)).
Proof.
  intros H1 HM HE. assert (H2 : mem ALL l2 = false) by (rewrite <- HE; exact H1).
  destruct (recv_all_ind k l1 m H1 HM) as (_ & A2 & A3). destruct (recv_all_ind k l2 m H2 HM) as (_ & B2 & B3).
  cbn zeta in *. split; intros x; rewrite ?A2, ?A3, ?B2, ?B3, HE; reflexivity.
Qed.

(* ---------------- statement used verbatim by Props/C02.v ---------------- *)
Definition individual_request (o : op) (l : list Z) : Prop :=
  o = OSub l \/ o = OUnsub l \/ o = OPause l \/ o = OResume l.

Lemma refused : forall s o l, sub_all (cl s) = true -> individual_request o l ->
  mem ALL_MESSAGE_TYPES l = false ->
  client_step (cl s) o = SRaise EInvalidSubscription (cl s) /\ sys_step s o = (s, Some EInvalidSubscription).
Proof.
  intros [c m] o l A R HA. cbn [cl] in *.
  assert (E : client_step c o = SRaise EInvalidSubscription c).
  { destruct R as [R|[R|[R|R]]]; subst o; cbn [client_step];
      [change (subscribe c l) with (sub_ctrl c l (kstr KSub))|change (unsubscribe c l) with (sub_ctrl c l (kstr KUnsub))
      |change (pause_subscription c l) with (sub_ctrl c l (kstr KPause))
      |change (resume_subscription c l) with (sub_ctrl c l (kstr KResume))]; rewrite sub_ctrl_eq, HA, A; reflexivity. }
  split; [exact E|]. unfold sys_step. cbn [cl mg]. rewrite E. reflexivity.
Qed.
