(* Proofs about the read-path model (Model/ClientRead.v with the generated guards Gen/ReadGuards.v). *)
From Coq Require Import ZArith List Bool Lia ZifyBool.
From Cli Require Import Model.SubBase Gen.ReadGuards Model.ClientRead Proofs.SetLemmas.
Import ListNotations.
Open Scope Z_scope.

(* ---------------- recv on a stream that starts with the wanted bytes ---------------- *)
Lemma firstn_app_exact {A} (a b : list A) : firstn (length a) (a ++ b) = a.
Proof. induction a as [|x a IH]; cbn; [destruct b; reflexivity|rewrite IH; reflexivity]. Qed.
Lemma skipn_app_exact {A} (a b : list A) : skipn (length a) (a ++ b) = b.
Proof. induction a as [|x a IH]; cbn; [reflexivity|exact IH]. Qed.

Lemma recv_exact a rest tm n : n = length a ->
  recv_waitall n (mkStream (a ++ rest) tm) = RData a (mkStream rest tm).
Proof.
  intros ->. unfold recv_waitall. cbn [sbytes sterm].
  replace (length a <=? length (a ++ rest))%nat with true by (symmetry; apply Nat.leb_le; rewrite app_length; lia).
  rewrite firstn_app_exact, skipn_app_exact. reflexivity.
Qed.

Lemma readable_nonempty x l tm : readable (mkStream (x :: l) tm) = true.
Proof. reflexivity. Qed.

Lemma select_phase_cases t s :
  select_phase t s = None \/ select_phase t s = Some OBlocked \/ select_phase t s = Some ONone.
Proof. unfold select_phase. destruct t, (readable s); auto. Qed.

Lemma wf_frame_enc f : wf_frame f -> exists x l, enc f = x :: l.
Proof.
  intros [H _]. unfold enc. destruct (fh f) as [|x l]; [vm_compute in H; discriminate|]. exists x, (l ++ fp f). reflexivity.
Qed.

(* ---------------- one whole frame: every outcome consumes exactly that frame ---------------- *)
Lemma read_raw_frame tbl cfg st f rest tm : wf_frame f -> connected st = true ->
  read_raw tbl cfg st (mkStream (enc f ++ rest) tm) = (classify tbl (sync_check cfg) f, st, mkStream rest tm).
Proof.
  intros WF C. pose proof WF as [HL HN]. unfold read_raw. rewrite C. cbn [negb].
  destruct (wf_frame_enc f WF) as (x & l & E).
  assert (R : readable (mkStream (enc f ++ rest) tm) = true) by (rewrite E; reflexivity).
  replace (select_phase (timeout cfg) (mkStream (enc f ++ rest) tm)) with (@None outcome)
    by (unfold select_phase; rewrite R; destruct (timeout cfg); reflexivity).
  unfold enc. rewrite <- app_assoc. rewrite (recv_exact (fh f) (fp f ++ rest) tm _ (eq_sym HL)).
  unfold classify. destruct (lookup (hdr_type (fh f)) tbl) as [[tsz th]|].
  - unfold size_guard. destruct (negb (tsz =? hdr_nbytes (fh f))) eqn:G1.
    + unfold drain, drain_len_size. rewrite HN.
      replace (Z.of_nat (length (fp f)) <? 0) with false by lia.
      rewrite (recv_exact (fp f) rest tm _ (Nat2Z.id _)). reflexivity.
    + unfold version_guard.
      destruct (sync_check cfg && negb (hdr_version (fh f) =? 0) && negb (hdr_version (fh f) =? th)) eqn:G2.
      * unfold drain, drain_len_version. rewrite HN.
        replace (Z.of_nat (length (fp f)) <? 0) with false by lia.
        rewrite (recv_exact (fp f) rest tm _ (Nat2Z.id _)). reflexivity.
      * apply negb_false_iff, Z.eqb_eq in G1. subst tsz. rewrite HN.
        destruct (Z.of_nat (length (fp f)) =? 0) eqn:Z0.
        -- destruct (fp f) as [|b p]; [reflexivity|cbn in Z0; lia].
        -- rewrite (recv_exact (fp f) rest tm _ (Nat2Z.id _)). reflexivity.
  - unfold drain, drain_len_unknown. rewrite HN.
    replace (Z.of_nat (length (fp f)) <? 0) with false by lia.
    rewrite (recv_exact (fp f) rest tm _ (Nat2Z.id _)). reflexivity.
Qed.

(* ---------------- read_raw never touches the subscription part of the state ---------------- *)
Lemma drain_sub len st s k o st' s' : drain len st s k = (o, st', s') ->
  r_sub_all st' = r_sub_all st /\ r_subscribed st' = r_subscribed st.
Proof.
  unfold drain. destruct (len <? 0); [intros H; inversion H; split; reflexivity|].
  destruct (recv_waitall _ s); intros H; inversion H; split; reflexivity.
Qed.
Lemma read_raw_sub tbl cfg st s o st' s' : read_raw tbl cfg st s = (o, st', s') ->
  r_sub_all st' = r_sub_all st /\ r_subscribed st' = r_subscribed st.
Proof.
  unfold read_raw. destruct (negb (connected st)); [intros H; inversion H; split; reflexivity|].
  destruct (select_phase (timeout cfg) s); [intros H; inversion H; split; reflexivity|].
  destruct (recv_waitall (Z.to_nat HEADER_SIZE) s) as [h s1| |s1|]; try (intros H; inversion H; split; reflexivity).
  destruct (lookup _ tbl) as [[tsz th]|]; [|apply drain_sub].
  destruct (size_guard _ _); [apply drain_sub|]. destruct (version_guard _ _ _); [apply drain_sub|].
  destruct (_ =? 0); [intros H; inversion H; split; reflexivity|].
  destruct (recv_waitall _ s1); intros H; inversion H; split; reflexivity.
Qed.

(* a returned message has consumed at least its header *)
Lemma recv_data_len n s d s' : recv_waitall n s = RData d s' -> (length (sbytes s') + n = length (sbytes s))%nat.
Proof.
  unfold recv_waitall. destruct (n <=? length (sbytes s))%nat eqn:L.
  - intros H. inversion H; subst. cbn [sbytes]. rewrite skipn_length. apply Nat.leb_le in L. lia.
  - destruct (sterm s); [discriminate|discriminate|destruct (sbytes s); discriminate].
Qed.
Lemma recv_len_le n s : match recv_waitall n s with
  | RData _ s' | RShort _ s' | RReset s' => (length (sbytes s') <= length (sbytes s))%nat | RBlock => True end.
Proof.
  unfold recv_waitall. destruct (n <=? length (sbytes s))%nat.
  - cbn [sbytes]. rewrite skipn_length. lia.
  - destruct (sterm s); [exact I|cbn; lia|destruct (sbytes s); cbn; lia].
Qed.
Lemma read_raw_msg_len tbl cfg st s h p st' s' : read_raw tbl cfg st s = (OMsg h p, st', s') ->
  (length (sbytes s') < length (sbytes s))%nat.
Proof.
  unfold read_raw. destruct (negb (connected st)); [discriminate|].
  destruct (select_phase_cases (timeout cfg) s) as [S|[S|S]]; rewrite S; try discriminate.
  destruct (recv_waitall (Z.to_nat HEADER_SIZE) s) as [h0 s1| |s1|] eqn:R; try discriminate.
  apply recv_data_len in R. assert (HS : (0 < Z.to_nat HEADER_SIZE)%nat) by (vm_compute; lia).
  assert (D : forall len k, (forall raw, k raw <> OMsg h p) -> drain len st s1 k <> (OMsg h p, st', s')).
  { intros len k Hk. unfold drain. destruct (len <? 0); [intros H; inversion H|].
    destruct (recv_waitall _ s1); intros H; inversion H; subst; eapply Hk; eauto. }
  destruct (lookup _ tbl) as [[tsz th]|].
  - destruct (size_guard _ _); [intros H; exfalso; eapply D; [|exact H]; intros; discriminate|].
    destruct (version_guard _ _ _); [intros H; exfalso; eapply D; [|exact H]; intros; discriminate|].
    destruct (_ =? 0); [intros H; inversion H; subst; lia|].
    pose proof (recv_len_le (Z.to_nat tsz) s1) as L.
    destruct (recv_waitall (Z.to_nat tsz) s1); intros H; inversion H; subst; lia.
  - intros H. exfalso. eapply D; [|exact H]. intros; discriminate.
Qed.

(* ---------------- the filter loop ---------------- *)
Lemma filter_loop_nonmsg fuel tbl cfg o st s :
  (forall h p, o <> OMsg h p) -> filter_loop fuel tbl cfg (o, st, s) = (o, st, s).
Proof. intros H. destruct fuel; destruct o; try reflexivity; exfalso; eapply H; reflexivity. Qed.

(* the fuel given by `read` is never exhausted, whatever the stream contains *)
Lemma filter_loop_no_fuel tbl cfg fuel : forall o st s, (length (sbytes s) < fuel)%nat ->
  fst (fst (filter_loop fuel tbl cfg (o, st, s))) = OFuel -> o = OFuel.
Proof.
  induction fuel as [|k IH]; intros o st s HF; [lia|].
  destruct o; try (cbn; intros H; exact H).
  cbn [filter_loop]. destruct (mem _ _); [cbn; discriminate|]. destruct (ack cfg && _); [cbn; discriminate|].
  assert (X : fst (fst (filter_loop k tbl cfg (read_raw tbl cfg st s))) = OFuel -> False).
  { destruct (read_raw tbl cfg st s) as [[o1 st1] s1] eqn:R. intros H.
    destruct o1; try (rewrite filter_loop_nonmsg in H by (intros; discriminate); cbn in H; discriminate).
    - apply read_raw_msg_len in R. apply IH in H; [discriminate|lia].
    - (* read_raw itself never produces OFuel *)
      clear - R. unfold read_raw in R. destruct (negb (connected st)); [discriminate|].
      destruct (select_phase_cases (timeout cfg) s) as [S|[S|S]]; rewrite S in R; try discriminate.
      destruct (recv_waitall (Z.to_nat HEADER_SIZE) s) as [h0 s2| |s2|]; try discriminate.
      assert (DD : forall len k, (forall raw, k raw <> OFuel) -> drain len st s2 k <> (OFuel, st1, s1)).
      { intros len k Hk. unfold drain. destruct (len <? 0); [discriminate|].
        destruct (recv_waitall _ s2); intros H; inversion H; subst; try discriminate; eapply Hk; eauto. }
      destruct (lookup _ tbl) as [[tsz th]|]; [|eapply DD; [|exact R]; intros; discriminate].
      destruct (size_guard _ _); [eapply DD; [|exact R]; intros; discriminate|].
      destruct (version_guard _ _ _); [eapply DD; [|exact R]; intros; discriminate|].
      destruct (_ =? 0); [discriminate|]. destruct (recv_waitall _ s2); discriminate. }
  destruct (timeout cfg); try (intros H; exfalso; exact (X H)). cbn. discriminate.
Qed.

Lemma read_no_fuel tbl cfg st s : fst (fst (read tbl cfg st s)) <> OFuel.
Proof.
  unfold read. destruct (negb (connected st)); [cbn; discriminate|].
  destruct (read_raw tbl cfg st s) as [[o st1] s1] eqn:R.
  assert (NF : o <> OFuel).
  { intros ->. unfold read_raw in R. destruct (negb (connected st)); [discriminate|].
    destruct (select_phase_cases (timeout cfg) s) as [S|[S|S]]; rewrite S in R; try discriminate.
    destruct (recv_waitall (Z.to_nat HEADER_SIZE) s) as [h0 s2| |s2|]; try discriminate.
    assert (DD : forall len k, (forall raw, k raw <> OFuel) -> drain len st s2 k <> (OFuel, st1, s1)).
    { intros len k Hk. unfold drain. destruct (len <? 0); [discriminate|].
      destruct (recv_waitall _ s2); intros H; inversion H; subst; try discriminate; eapply Hk; eauto. }
    destruct (lookup _ tbl) as [[tsz th]|]; [|eapply DD; [|exact R]; intros; discriminate].
    destruct (size_guard _ _); [eapply DD; [|exact R]; intros; discriminate|].
    destruct (version_guard _ _ _); [eapply DD; [|exact R]; intros; discriminate|].
    destruct (_ =? 0); [discriminate|]. destruct (recv_waitall _ s2); discriminate. }
  destruct (r_sub_all st1); [cbn; exact NF|].
  intros H. destruct o; try (rewrite filter_loop_nonmsg in H by (intros; discriminate); cbn in H; exact (NF H)).
  apply filter_loop_no_fuel in H; [discriminate|]. apply read_raw_msg_len in R. lia.
Qed.

(* a message is returned only if it passes the filter of THIS call, whatever the stream holds *)
Lemma filter_loop_passes tbl cfg fuel : forall o st s h p st' s',
  filter_loop fuel tbl cfg (o, st, s) = (OMsg h p, st', s') ->
  (mem (hdr_type h) (r_subscribed st) = true \/ (ack cfg = true /\ hdr_type h = MT_ACKNOWLEDGE)) /\
  r_subscribed st' = r_subscribed st.
Proof.
  induction fuel as [|k IH]; intros o st s h p st' s' H.
  - destruct o; try (cbn in H; inversion H; fail). cbn [filter_loop] in H.
    destruct (mem (hdr_type hdr) (r_subscribed st)) eqn:M; [inversion H; subst; split; [left; exact M|reflexivity]|].
    destruct (ack cfg && (hdr_type hdr =? MT_ACKNOWLEDGE)) eqn:A.
    + inversion H; subst. apply andb_true_iff in A. destruct A as [A1 A2]. apply Z.eqb_eq in A2.
      split; [right; split; assumption|reflexivity].
    + destruct (timeout cfg); inversion H.
  - destruct o; try (cbn in H; inversion H; fail). cbn [filter_loop] in H.
    destruct (mem (hdr_type hdr) (r_subscribed st)) eqn:M; [inversion H; subst; split; [left; exact M|reflexivity]|].
    destruct (ack cfg && (hdr_type hdr =? MT_ACKNOWLEDGE)) eqn:A.
    + inversion H; subst. apply andb_true_iff in A. destruct A as [A1 A2]. apply Z.eqb_eq in A2.
      split; [right; split; assumption|reflexivity].
    + destruct (read_raw tbl cfg st s) as [[o1 st1] s1] eqn:R. destruct (read_raw_sub _ _ _ _ _ _ _ R) as [_ E].
      destruct (timeout cfg); try (inversion H; fail); apply IH in H; rewrite E in H; exact H.
Qed.

Lemma read_filter tbl cfg st s h p st' s' : read tbl cfg st s = (OMsg h p, st', s') -> r_sub_all st = false ->
  mem (hdr_type h) (r_subscribed st) = true \/ (ack cfg = true /\ hdr_type h = MT_ACKNOWLEDGE).
Proof.
  unfold read. destruct (negb (connected st)); [discriminate|].
  destruct (read_raw tbl cfg st s) as [[o st1] s1] eqn:R. destruct (read_raw_sub _ _ _ _ _ _ _ R) as [E1 E2].
  intros H A. rewrite E1, A in H. apply filter_loop_passes in H. rewrite E2 in H. exact (proj1 H).
Qed.

(* ---------------- a queue of whole frames ---------------- *)
Lemma encs_cons f fs tail : encs (f :: fs) ++ tail = enc f ++ (encs fs ++ tail).
Proof. unfold encs. cbn [flat_map]. rewrite app_assoc. reflexivity. Qed.

Lemma classify_msg tbl sync f h p : classify tbl sync f = OMsg h p -> h = fh f /\ p = fp f.
Proof.
  unfold classify. destruct (lookup _ tbl) as [[a b]|]; [|discriminate].
  destruct (negb _); [discriminate|]. destruct (_ && _ && _); [discriminate|]. intros H; inversion H; split; reflexivity.
Qed.

Lemma loop_frames tbl cfg st tail tm : connected st = true -> r_sub_all st = false ->
  forall fs fuel, Forall wf_frame fs -> (length fs <= fuel)%nat ->
  filter_loop fuel tbl cfg (read_raw tbl cfg st (mkStream (encs fs ++ tail) tm)) =
  match spec_read tbl cfg st fs with
  | Some (o, r) => (o, st, mkStream (encs r ++ tail) tm)
  | None => filter_loop (fuel - length fs) tbl cfg (read_raw tbl cfg st (mkStream tail tm))
  end.
Proof.
  intros C A. induction fs as [|f fs IH]; intros fuel WF HF.
  - cbn [spec_read encs flat_map app length]. rewrite Nat.sub_0_r. reflexivity.
  - inversion WF as [|? ? W1 W2]; subst. rewrite encs_cons, (read_raw_frame tbl cfg st f _ tm W1 C).
    cbn [spec_read]. destruct (classify tbl (sync_check cfg) f) as [h p|h raw| |e| |] eqn:CL;
      try (rewrite filter_loop_nonmsg by (intros; discriminate); reflexivity).
    unfold passes. rewrite A. cbn [orb]. destruct fuel as [|k]; [cbn in HF; lia|]. cbn [filter_loop].
    destruct (mem (hdr_type h) (r_subscribed st)); [reflexivity|]. cbn [orb].
    destruct (ack cfg && (hdr_type h =? MT_ACKNOWLEDGE)); [reflexivity|].
    destruct (timeout cfg) eqn:T; try reflexivity;
      (rewrite IH by (try exact W2; cbn in HF; lia); cbn [length]; replace (S k - S (length fs))%nat with (k - length fs)%nat by lia; reflexivity).
Qed.

Lemma length_encs_ge fs : Forall wf_frame fs -> (length fs <= length (encs fs))%nat.
Proof.
  induction 1 as [|f fs W _ IH]; [cbn; lia|]. unfold encs in *. cbn [flat_map length]. rewrite app_length.
  destruct (wf_frame_enc f W) as (x & l & E). rewrite E. cbn. lia.
Qed.

(* read_message on a queue of whole frames followed by anything *)
Theorem read_frames tbl cfg st fs tail tm : connected st = true -> Forall wf_frame fs ->
  read tbl cfg st (mkStream (encs fs ++ tail) tm) =
  match spec_read tbl cfg st fs with
  | Some (o, r) => (o, st, mkStream (encs r ++ tail) tm)
  | None => let r := read_raw tbl cfg st (mkStream tail tm) in
            if r_sub_all st then r
            else filter_loop (S (length (encs fs ++ tail)) - length fs) tbl cfg r
  end.
Proof.
  intros C WF. unfold read. rewrite C. cbn [negb].
  destruct (r_sub_all st) eqn:A.
  - destruct fs as [|f fs].
    + cbn [spec_read encs flat_map app]. destruct (read_raw _ _ _ _) as [[o st1] s1] eqn:R.
      destruct (read_raw_sub _ _ _ _ _ _ _ R) as [E _]. rewrite E, A. reflexivity.
    + inversion WF as [|? ? W1 W2]; subst. rewrite encs_cons, (read_raw_frame tbl cfg st f _ tm W1 C), A.
      cbn [spec_read]. unfold passes. rewrite A. cbn [orb].
      destruct (classify tbl (sync_check cfg) f); reflexivity.
  - destruct (read_raw tbl cfg st (mkStream (encs fs ++ tail) tm)) as [[o st1] s1] eqn:R.
    destruct (read_raw_sub _ _ _ _ _ _ _ R) as [E _]. rewrite E, A. rewrite <- R. cbn [sbytes].
    rewrite (loop_frames tbl cfg st tail tm C A fs _ WF).
    + destruct (spec_read tbl cfg st fs) as [[o' r]|]; reflexivity.
    + pose proof (length_encs_ge fs WF). rewrite app_length. lia.
Qed.

Lemma spec_read_origin tbl cfg st : forall fs o r, spec_read tbl cfg st fs = Some (o, r) ->
  exists pre f, fs = pre ++ f :: r /\
    (* everything before f was a decodable message that this call filtered out *)
    Forall (fun g => exists h p, classify tbl (sync_check cfg) g = OMsg h p /\ passes cfg st (hdr_type h) = false) pre /\
    ((o = classify tbl (sync_check cfg) f /\
      match o with OMsg h p => passes cfg st (hdr_type h) = true | ONone | OBlocked | OFuel => False | _ => True end)
     \/ (o = ONone /\ timeout cfg = TZero /\ pre = [] /\
         exists h p, classify tbl (sync_check cfg) f = OMsg h p /\ passes cfg st (hdr_type h) = false)).
Proof.
  induction fs as [|f fs IH]; intros o r H; [discriminate|]. cbn [spec_read] in H.
  destruct (classify tbl (sync_check cfg) f) as [h p|h raw| |e| |] eqn:CL.
  - destruct (passes cfg st (hdr_type h)) eqn:P.
    + inversion H; subst. exists [], f. split; [reflexivity|]. split; [constructor|]. left. rewrite CL. split; [reflexivity|exact P].
    + destruct (timeout cfg) eqn:T.
      1,2,4: destruct (IH _ _ H) as (pre & g & E & F & D); exists (f :: pre), g; split; [rewrite E; reflexivity|];
        (split; [constructor; [exists h, p; split; assumption|exact F]|]);
        (destruct D as [D|(D1 & D2 & _)]; [left; exact D|congruence]).
      inversion H; subst. exists [], f. split; [reflexivity|]. split; [constructor|]. right.
      repeat split; try reflexivity. exists h, p. split; assumption.
  - inversion H; subst. exists [], f. split; [reflexivity|]. split; [constructor|]. left. rewrite CL. split; [reflexivity|exact I].
  - inversion H; subst. exists [], f. split; [reflexivity|]. split; [constructor|]. left.
    exfalso. unfold classify in CL. destruct (lookup _ tbl) as [[a b]|]; [|discriminate].
    destruct (negb _); [discriminate|]. destruct (_ && _ && _); discriminate.
  - inversion H; subst. exists [], f. split; [reflexivity|]. split; [constructor|]. left. rewrite CL. split; [reflexivity|exact I].
  - exfalso. unfold classify in CL. destruct (lookup _ tbl) as [[a b]|]; [|discriminate].
    destruct (negb _); [discriminate|]. destruct (_ && _ && _); discriminate.
  - exfalso. unfold classify in CL. destruct (lookup _ tbl) as [[a b]|]; [|discriminate].
    destruct (negb _); [discriminate|]. destruct (_ && _ && _); discriminate.
Qed.

Lemma spec_read_suffix_wf tbl cfg st fs o r : Forall wf_frame fs -> spec_read tbl cfg st fs = Some (o, r) ->
  Forall wf_frame r.
Proof.
  intros WF H. destruct (spec_read_origin tbl cfg st fs o r H) as (pre & f & E & _). subst fs.
  apply Forall_app in WF. destruct WF as [_ W]. inversion W; assumption.
Qed.

(* successive calls (options and subscription state may change between calls) *)
Theorem read_many_frames tbl tail tm : forall calls fs os r, Forall wf_frame fs ->
  spec_many tbl calls fs = Some (os, r) ->
  read_many tbl calls true (mkStream (encs fs ++ tail) tm) = (os, mkStream (encs r ++ tail) tm).
Proof.
  induction calls as [|c calls IH]; intros fs os r WF H.
  - inversion H; subst. reflexivity.
  - cbn [spec_many] in H. cbn [read_many].
    destruct (spec_read tbl (c_cfg c) (mkR true (c_sub_all c) (c_subscribed c)) fs) as [[o fs']|] eqn:S; [|discriminate].
    destruct (spec_many tbl calls fs') as [[os' fs'']|] eqn:M; [|discriminate]. inversion H; subst.
    rewrite (read_frames tbl (c_cfg c) (mkR true (c_sub_all c) (c_subscribed c)) fs tail tm eq_refl WF), S. cbn [connected].
    rewrite (IH fs' os' r (spec_read_suffix_wf _ _ _ _ _ _ WF S) M). reflexivity.
Qed.

(* a returned message is one of the queued frames, bytes unchanged *)
Theorem read_faithful tbl cfg st fs tail tm h p st' s' : connected st = true -> Forall wf_frame fs ->
  (forall h p st' s', read_raw tbl cfg st (mkStream tail tm) <> (OMsg h p, st', s')) ->
  read tbl cfg st (mkStream (encs fs ++ tail) tm) = (OMsg h p, st', s') ->
  exists f, In f fs /\ h = fh f /\ p = fp f /\ passes cfg st (hdr_type h) = true.
Proof.
  intros C WF NT H. rewrite (read_frames tbl cfg st fs tail tm C WF) in H.
  destruct (spec_read tbl cfg st fs) as [[o r]|] eqn:S.
  - inversion H; subst. destruct (spec_read_origin _ _ _ _ _ _ S) as (pre & f & E & _ & D).
    destruct D as [(D1 & D2)|(D1 & _)]; [|discriminate].
    symmetry in D1. apply classify_msg in D1. destruct D1 as [-> ->]. exists f. split; [|auto].
    rewrite E. apply in_or_app. right. left. reflexivity.
  - cbn zeta in H. destruct (read_raw tbl cfg st (mkStream tail tm)) as [[o1 st1] s1] eqn:R.
    destruct (r_sub_all st); [inversion H; subst; exfalso; exact (NT _ _ _ _ eq_refl)|].
    destruct o1; try (rewrite filter_loop_nonmsg in H by (intros; discriminate); discriminate).
    exfalso. exact (NT _ _ _ _ eq_refl).
Qed.

(* ---------------- cut streams ---------------- *)
Lemma read_nonmsg tbl cfg st s o st' s' : connected st = true -> read_raw tbl cfg st s = (o, st', s') ->
  (forall h p, o <> OMsg h p) -> read tbl cfg st s = (o, st', s').
Proof.
  intros C R N. unfold read. rewrite C, R. cbn [negb]. destruct (r_sub_all st'); [reflexivity|].
  apply filter_loop_nonmsg. exact N.
Qed.

Lemma recv_short n b tm : (length b < n)%nat ->
  recv_waitall n (mkStream b tm) =
  match tm with
  | Open => RBlock
  | Fin => RShort b (mkStream [] Fin)
  | Rst => match b with [] => RReset (mkStream [] Fin) | _ => RShort b (mkStream [] Rst) end
  end.
Proof.
  intros H. unfold recv_waitall. cbn [sbytes sterm].
  replace (n <=? length b)%nat with false by (symmetry; apply Nat.leb_gt; exact H). reflexivity.
Qed.

Definition closed (tm : term) : bool := match tm with Open => false | _ => true end.
Lemma select_closed t b tm : closed tm = true -> select_phase t (mkStream b tm) = None.
Proof. destruct tm; [discriminate|..]; intros _; destruct t, b; reflexivity. Qed.

(* what is left of the stream after a recv that ran into the end *)
Definition after_cut (tm : term) (pending : list Z) : stream :=
  match tm, pending with Rst, _ :: _ => mkStream [] Rst | _, _ => mkStream [] Fin end.

(* the peer closed inside (or right before) a header *)
Lemma raw_cut_header tbl cfg st b tm : connected st = true -> closed tm = true ->
  (length b < Z.to_nat HEADER_SIZE)%nat ->
  read_raw tbl cfg st (mkStream b tm) = (ORaise EConnLost, disconnected st, after_cut tm b).
Proof.
  intros C CL H. unfold read_raw. rewrite C, (select_closed _ _ _ CL), (recv_short _ _ _ H). cbn [negb].
  destruct tm; [discriminate| |]; destruct b; reflexivity.
Qed.

(* the peer closed after a complete header h announcing n > |pp| payload bytes, of which pp arrived:
   decodable or not, the loss is reported *)
Lemma raw_cut_payload tbl cfg st h pp tm : connected st = true -> closed tm = true ->
  length h = Z.to_nat HEADER_SIZE -> (Z.of_nat (length pp) < hdr_nbytes h) ->
  read_raw tbl cfg st (mkStream (h ++ pp) tm) = (ORaise EConnLost, disconnected st, after_cut tm pp).
Proof.
  intros C CL HL HN. unfold read_raw. rewrite C. cbn [negb].
  replace (select_phase (timeout cfg) (mkStream (h ++ pp) tm)) with (@None outcome)
    by (symmetry; apply select_closed; exact CL).
  rewrite (recv_exact h pp tm _ (eq_sym HL)).
  assert (SH : (length pp < Z.to_nat (hdr_nbytes h))%nat) by lia.
  assert (D : forall k, drain (hdr_nbytes h) st (mkStream pp tm) k = (ORaise EConnLost, disconnected st, after_cut tm pp)).
  { intros k. unfold drain. replace (hdr_nbytes h <? 0) with false by lia. rewrite (recv_short _ _ _ SH).
    destruct tm; [discriminate| |]; destruct pp; reflexivity. }
  destruct (lookup (hdr_type h) tbl) as [[tsz th]|]; [|apply D].
  unfold size_guard, drain_len_size, drain_len_version, drain_len_unknown in *.
  destruct (negb (tsz =? hdr_nbytes h)) eqn:G1; [apply D|].
  destruct (version_guard _ _ _); [apply D|].
  apply negb_false_iff, Z.eqb_eq in G1. subst tsz. replace (hdr_nbytes h =? 0) with false by lia.
  rewrite (recv_short _ _ _ SH). destruct tm; [discriminate| |]; destruct pp; reflexivity.
Qed.

Lemma read_not_connected tbl cfg st s : connected st = false -> read tbl cfg st s = (ORaise ENotConnected, st, s).
Proof. intros C. unfold read. rewrite C. reflexivity. Qed.

(* a stream that ends inside (or right before) a frame *)
Definition cut_stream (b : list Z) : Prop :=
  (length b < Z.to_nat HEADER_SIZE)%nat \/
  exists h pp, b = h ++ pp /\ length h = Z.to_nat HEADER_SIZE /\ Z.of_nat (length pp) < hdr_nbytes h.

(* the call that reaches the point where the peer closed or reset raises ConnectionLost and leaves the
   client disconnected - at every byte offset, for FIN and for RST, decodable frame or not *)
Lemma raw_cut_lost tbl cfg st b tm : connected st = true -> closed tm = true -> cut_stream b ->
  exists s', read_raw tbl cfg st (mkStream b tm) = (ORaise EConnLost, disconnected st, s').
Proof.
  intros C CL [H|(h & pp & -> & HL & HN)]; eexists.
  - apply raw_cut_header; assumption.
  - apply raw_cut_payload; assumption.
Qed.

(* a cut frame never yields a message, whatever the peer did afterwards (including nothing yet) *)
Lemma raw_cut_not_msg tbl cfg st b tm : cut_stream b ->
  forall h p st' s', read_raw tbl cfg st (mkStream b tm) <> (OMsg h p, st', s').
Proof.
  intros CUT h0 p0 st' s'. unfold read_raw. destruct (negb (connected st)); [discriminate|].
  destruct (select_phase_cases (timeout cfg) (mkStream b tm)) as [S|[S|S]]; rewrite S; try discriminate.
  destruct CUT as [H|(h & pp & -> & HL & HN)].
  - rewrite (recv_short _ _ _ H). destruct tm; [discriminate|discriminate|destruct b; discriminate].
  - rewrite (recv_exact h pp tm _ (eq_sym HL)).
    assert (SH : (length pp < Z.to_nat (hdr_nbytes h))%nat) by lia.
    assert (D : forall k, (forall raw, k raw <> OMsg h0 p0) ->
                drain (hdr_nbytes h) st (mkStream pp tm) k <> (OMsg h0 p0, st', s')).
    { intros k Hk. unfold drain. replace (hdr_nbytes h <? 0) with false by lia. rewrite (recv_short _ _ _ SH).
      destruct tm; [discriminate| |destruct pp]; intros E; inversion E; try discriminate; eapply Hk; eauto. }
    destruct (lookup (hdr_type h) tbl) as [[tsz th]|]; [|apply D; intros; discriminate].
    unfold size_guard, drain_len_size, drain_len_version, drain_len_unknown in *.
    destruct (negb (tsz =? hdr_nbytes h)) eqn:G1; [apply D; intros; discriminate|].
    destruct (version_guard _ _ _); [apply D; intros; discriminate|].
    apply negb_false_iff, Z.eqb_eq in G1. subst tsz. replace (hdr_nbytes h =? 0) with false by lia.
    rewrite (recv_short _ _ _ SH). destruct tm; [discriminate|discriminate|destruct pp; discriminate].
Qed.

(* a call that is not decided within the queued whole frames behaves like a call on the rest *)
Lemma read_frames_none tbl cfg st fs tail tm o st' s' : connected st = true -> Forall wf_frame fs ->
  spec_read tbl cfg st fs = None -> read_raw tbl cfg st (mkStream tail tm) = (o, st', s') ->
  (forall h p, o <> OMsg h p) -> read tbl cfg st (mkStream (encs fs ++ tail) tm) = (o, st', s').
Proof.
  intros C WF S R N. rewrite (read_frames tbl cfg st fs tail tm C WF), S. cbn zeta. rewrite R.
  destruct (r_sub_all st); [reflexivity|]. apply filter_loop_nonmsg. exact N.
Qed.

(* ---------------- statements used verbatim by Props/C08.v ---------------- *)
Definition decode_error (o : outcome) : Prop :=
  (exists h raw, o = OUnknown h raw) \/ o = ORaise EBadSize \/ o = ORaise EBadVersion.

Lemma resync_next : forall tbl cfg cfg' st st' f g rest tail tm,
  connected st = true -> connected st' = true -> wf_frame f -> wf_frame g -> Forall wf_frame rest ->
  decode_error (classify tbl (sync_check cfg) f) ->
  (exists h p, classify tbl (sync_check cfg') g = OMsg h p /\ passes cfg' st' (hdr_type h) = true) ->
  let s0 := mkStream (encs (f :: g :: rest) ++ tail) tm in
  let s1 := mkStream (encs (g :: rest) ++ tail) tm in
  read tbl cfg st s0 = (classify tbl (sync_check cfg) f, st, s1) /\
  read tbl cfg' st' s1 = (OMsg (fh g) (fp g), st', mkStream (encs rest ++ tail) tm).
Proof.
  intros tbl cfg cfg' st st' f g rest tail tm C C' Wf Wg Wr DE (h & p & CG & PG) s0 s1. split.
  - unfold s0, s1. rewrite (read_frames tbl cfg st _ tail tm C (Forall_cons _ Wf (Forall_cons _ Wg Wr))).
    cbn [spec_read]. destruct DE as [(h1 & r1 & E)|[E|E]]; rewrite E; reflexivity.
  - unfold s1. rewrite (read_frames tbl cfg' st' _ tail tm C' (Forall_cons _ Wg Wr)). cbn [spec_read].
    rewrite CG, PG. destruct (classify_msg _ _ _ _ _ CG) as [-> ->]. reflexivity.
Qed.

Lemma lost_full tbl cfg st fs b tm :
  connected st = true -> closed tm = true -> Forall wf_frame fs -> spec_read tbl cfg st fs = None ->
  cut_stream b ->
  exists s', read tbl cfg st (mkStream (encs fs ++ b) tm) = (ORaise EConnLost, disconnected st, s').
Proof.
  intros C CL WF S CUT. destruct (raw_cut_lost tbl cfg st b tm C CL CUT) as [s' R]. exists s'.
  eapply read_frames_none; [exact C|exact WF|exact S|exact R|intros; discriminate].
Qed.
