(* subscription_context / paused_subscription_context (as repaired by 651ddd8 and aa63f93): exit restores
   the entry state, for every reachable entry state and every list of individual types. *)
From Coq Require Import ZArith List Bool String Lia ZifyBool.
From Cli Require Import Model.SubBase Lib.PyList Gen.ClientSub Gen.MgrSub Model.ClientSubs
  Proofs.SetLemmas Proofs.PyListProofs Proofs.SubsProofs.
Import ListNotations.
Open Scope Z_scope.

Definition same_client (c c' : cstate) : Prop :=
  (forall x, mem x (subscribed c') = mem x (subscribed c)) /\
  (forall x, mem x (paused c') = mem x (paused c)) /\ sub_all c' = sub_all c.

(* one individual-type control call from a not-subscribed-to-all state *)
Lemma ctrl_step_ind s k l : sub_all (cl s) = false -> mem ALL l = false ->
  ctrl_step s k l = (mkS (spec_ind k (cl s) (to_set l))
                         (mgr_recv_all (mg s) (map (fun t => (kmt k, t)) (to_set l))), None).
Proof. intros A HA. unfold ctrl_step. rewrite sub_ctrl_eq, HA, A. reflexivity. Qed.

(* ... as a system step: the new client state, Inv preserved, still not subscribed to all *)
Lemma step_ind s k o l : (forall s, sys_step s o = ctrl_step s k l) ->
  Inv s -> sub_all (cl s) = false -> mem ALL l = false ->
  exists s', sys_step s o = (s', None) /\ cl s' = spec_ind k (cl s) (to_set l) /\ Inv s' /\ sub_all (cl s') = false.
Proof.
  intros E HI A HA. rewrite E, (ctrl_step_ind s k l A HA). eexists. split; [reflexivity|]. split; [reflexivity|].
  split.
  - pose proof (ctrl_step_Inv s k l HI) as H. rewrite (ctrl_step_ind s k l A HA) in H. exact H.
  - destruct k; exact A.
Qed.

Lemma same_client_delivered s s' : Inv s -> Inv s' -> same_client (cl s) (cl s') ->
  forall t, delivered (mg s') t = delivered (mg s) t.
Proof.
  intros I I' (H1 & H2 & H3) t. destruct (Inv_agree s I) as [A _]. destruct (Inv_agree s' I') as [A' _].
  rewrite <- A, <- A'. unfold reported. rewrite H1, H3. reflexivity.
Qed.

(* ---------------- subscription_context ---------------- *)

Theorem sub_ctx_restore s l : Inv s -> sub_all (cl s) = false -> mem ALL l = false ->
  exists s_in s', subscription_context s l = (CtxOk s', Some s_in) /\
    same_client (cl s) (cl s') /\ (forall t, delivered (mg s') t = delivered (mg s) t) /\
    (forall t, mem t l = true -> reported (cl s_in) t = true /\ delivered (mg s_in) t = true).
Proof.
  intros HI A HA. unfold subscription_context.
  set (l' := sub_ctx_list (cl s) l). set (wp := filter (fun mt => mem mt (to_set (paused (cl s)))) l').
  assert (F : forall x, mem x l' = mem x l && negb (mem x (subscribed (cl s)))).
  { intros x. unfold l', sub_ctx_list. rewrite mem_copy_remove, mem_to_set. reflexivity. }
  assert (W : forall x, mem x wp = mem x l' && mem x (paused (cl s))).
  { intros x. unfold wp. rewrite mem_filter, mem_to_set. reflexivity. }
  assert (HA' : mem ALL l' = false) by (rewrite F, HA; reflexivity).
  assert (HW : mem ALL wp = false) by (rewrite W, HA'; reflexivity).
  destruct (step_ind s KSub (OSub l') l' (fun _ => eq_refl) HI A HA') as (s1 & E1 & C1 & I1 & A1).
  destruct (step_ind s1 KUnsub (OUnsub l') l' (fun _ => eq_refl) I1 A1 HA') as (s2 & E2 & C2 & I2 & A2).
  assert (IN : forall t, mem t l = true -> reported (cl s1) t = true /\ delivered (mg s1) t = true).
  { intros t Ht. destruct (Inv_agree s1 I1) as [AG _]. rewrite <- AG.
    assert (R : reported (cl s1) t = true); [|split; exact R].
    unfold reported. rewrite C1. cbn [spec_ind subscribed sub_all]. rewrite A. cbn [orb].
    autorewrite with memdb. rewrite F, Ht. destruct (mem t (subscribed (cl s))); reflexivity. }
  unfold ctx_cycle. rewrite E1. destruct wp as [|w wr] eqn:EW.
  - cbn [ctx_exit]. rewrite E2. exists s1, s2. split; [reflexivity|].
    assert (SC : same_client (cl s) (cl s2)).
    { unfold same_client. rewrite C2, C1. cbn [spec_ind subscribed paused sub_all].
      split; [|split; [|reflexivity]]; intros x; autorewrite with memdb; pose proof (W x) as Wx; rewrite F in *;
        cbn [mem existsb] in Wx; destruct (mem x l), (mem x (subscribed (cl s))), (mem x (paused (cl s)));
        cbn in *; congruence. }
    split; [exact SC|]. split; [exact (same_client_delivered s s2 HI I2 SC)|exact IN].
  - rewrite <- EW in *. clear EW.
    destruct (step_ind s2 KPause (OPause wp) wp (fun _ => eq_refl) I2 A2 HW) as (s3 & E3 & C3 & I3 & A3).
    cbn [ctx_exit]. rewrite E2, E3. exists s1, s3. split; [reflexivity|].
    assert (SC : same_client (cl s) (cl s3)).
    { unfold same_client. rewrite C3, C2, C1. cbn [spec_ind subscribed paused sub_all].
      split; [|split; [|reflexivity]]; intros x; autorewrite with memdb; rewrite ?W, ?F;
        destruct (mem x l), (mem x (subscribed (cl s))), (mem x (paused (cl s))); reflexivity. }
    split; [exact SC|]. split; [exact (same_client_delivered s s3 HI I3 SC)|exact IN].
Qed.

(* in the subscribed-to-all state the context is refused on entry and nothing changes *)
Theorem sub_ctx_refused s l : sub_all (cl s) = true -> mem ALL l = false ->
  subscription_context s l = (CtxEnterRaised EInvalidSubscription s, None).
Proof.
  intros A HA. unfold subscription_context, ctx_cycle.
  set (l' := sub_ctx_list (cl s) l).
  assert (HA' : mem ALL l' = false).
  { unfold l', sub_ctx_list. rewrite mem_copy_remove, HA. reflexivity. }
  change (sys_step s (OSub l')) with (ctrl_step s KSub l'). unfold ctrl_step.
  rewrite sub_ctrl_eq, HA', A. destruct s; reflexivity.
Qed.

(* ---------------- paused_subscription_context ---------------- *)

Theorem pause_ctx_restore s l : Inv s -> sub_all (cl s) = false -> mem ALL l = false ->
  exists s_in s', paused_subscription_context s l = (CtxOk s', Some s_in) /\
    same_client (cl s) (cl s') /\ (forall t, delivered (mg s') t = delivered (mg s) t) /\
    (forall t, mem t l = true -> reported (cl s_in) t = false /\ delivered (mg s_in) t = false).
Proof.
  intros HI A HA. unfold paused_subscription_context.
  set (l' := pause_ctx_list (cl s) l).
  assert (F : forall x, mem x l' = mem x l && mem x (subscribed (cl s))).
  { intros x. unfold l', pause_ctx_list. rewrite mem_copy_remove, mem_to_set, negb_involutive. reflexivity. }
  assert (HA' : mem ALL l' = false) by (rewrite F, HA; reflexivity).
  pose proof HI as HI'. unfold Inv in HI'. rewrite A in HI'. destruct HI' as (_ & _ & DJ & _).
  destruct (step_ind s KPause (OPause l') l' (fun _ => eq_refl) HI A HA') as (s1 & E1 & C1 & I1 & A1).
  destruct (step_ind s1 KResume (OResume l') l' (fun _ => eq_refl) I1 A1 HA') as (s2 & E2 & C2 & I2 & A2).
  unfold ctx_cycle. rewrite E1. cbn [ctx_exit]. rewrite E2. exists s1, s2. split; [reflexivity|].
  assert (SC : same_client (cl s) (cl s2)).
  { unfold same_client. rewrite C2, C1. cbn [spec_ind subscribed paused sub_all].
    split; [|split; [|reflexivity]]; intros x; autorewrite with memdb; rewrite ?F; specialize (DJ x);
      destruct (mem x l), (mem x (subscribed (cl s))), (mem x (paused (cl s))); cbn in *; congruence. }
  split; [exact SC|]. split; [exact (same_client_delivered s s2 HI I2 SC)|].
  intros t Ht. destruct (Inv_agree s1 I1) as [AG _]. rewrite <- AG.
  assert (R : reported (cl s1) t = false); [|split; exact R].
  unfold reported. rewrite C1. cbn [spec_ind subscribed sub_all]. rewrite A. cbn [orb].
  autorewrite with memdb. rewrite F, Ht. destruct (mem t (subscribed (cl s))); reflexivity.
Qed.

Theorem pause_ctx_refused s l : sub_all (cl s) = true -> mem ALL l = false ->
  paused_subscription_context s l = (CtxEnterRaised EInvalidSubscription s, None).
Proof.
  intros A HA. unfold paused_subscription_context, ctx_cycle.
  set (l' := pause_ctx_list (cl s) l).
  assert (HA' : mem ALL l' = false).
  { unfold l', pause_ctx_list. rewrite mem_copy_remove, HA. reflexivity. }
  change (sys_step s (OPause l')) with (ctrl_step s KPause l'). unfold ctrl_step.
  rewrite sub_ctrl_eq, HA', A. destruct s; reflexivity.
Qed.
