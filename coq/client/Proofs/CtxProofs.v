(* subscription_context / paused_subscription_context: exit restores the entry state exactly when the
   remove-while-iterating loop left the intended list (Model/ClientSubs.v: sub_ctx_ok / pause_ctx_ok). *)
From Coq Require Import ZArith List Bool String Lia ZifyBool.
From Cli Require Import Model.SubBase Lib.PyList Gen.ClientSub Gen.MgrSub Model.ClientSubs
  Proofs.SetLemmas Proofs.PyListProofs Proofs.SubsProofs.
Import ListNotations.
Open Scope Z_scope.

Definition same_client (c c' : cstate) : Prop :=
  (forall x, mem x (subscribed c') = mem x (subscribed c)) /\
  (forall x, mem x (paused c') = mem x (paused c)) /\ sub_all c' = sub_all c.

Lemma mem_false_of_incl (l l' : list Z) a : (forall y, In y l' -> In y l) -> mem a l = false -> mem a l' = false.
Proof. intros H M. apply mem_false_iff. intros C. apply mem_false_iff in M. apply M. exact (H a C). Qed.

(* one individual-type control call from a not-subscribed-to-all state *)
Lemma ctrl_step_ind s k l : sub_all (cl s) = false -> mem ALL l = false ->
  ctrl_step s k l = (mkS (spec_ind k (cl s) (to_set l))
                         (mgr_recv_all (mg s) (map (fun t => (kmt k, t)) (to_set l))), None).
Proof. intros A HA. unfold ctrl_step. rewrite sub_ctrl_eq, HA, A. reflexivity. Qed.

Lemma ctx_cycle_ind s k1 k2 o1 o2 l :
  (forall s, sys_step s o1 = ctrl_step s k1 l) -> (forall s, sys_step s o2 = ctrl_step s k2 l) ->
  Inv s -> sub_all (cl s) = false -> mem ALL l = false ->
  let c1 := spec_ind k1 (cl s) (to_set l) in
  let c2 := spec_ind k2 c1 (to_set l) in
  exists s1 s2, ctx_cycle o1 o2 s = (CtxOk s2, Some s1) /\ cl s1 = c1 /\ cl s2 = c2 /\ Inv s1 /\ Inv s2.
Proof.
  intros E1 E2 HI A HA c1 c2. unfold ctx_cycle. rewrite E1, (ctrl_step_ind s k1 l A HA).
  set (s1 := mkS _ _). assert (A1 : sub_all (cl s1) = false) by (destruct k1; exact A).
  rewrite E2, (ctrl_step_ind s1 k2 l A1 HA). eexists. eexists. split; [reflexivity|].
  split; [reflexivity|]. split; [reflexivity|].
  assert (I1 : Inv s1).
  { pose proof (ctrl_step_Inv s k1 l HI) as H. rewrite (ctrl_step_ind s k1 l A HA) in H. exact H. }
  split; [exact I1|].
  pose proof (ctrl_step_Inv s1 k2 l I1) as H. rewrite (ctrl_step_ind s1 k2 l A1 HA) in H. exact H.
Qed.

Lemma same_client_delivered s s' : Inv s -> Inv s' -> same_client (cl s) (cl s') ->
  forall t, delivered (mg s') t = delivered (mg s) t.
Proof.
  intros I I' (H1 & H2 & H3) t. destruct (Inv_agree s I) as [A _]. destruct (Inv_agree s' I') as [A' _].
  rewrite <- A, <- A'. unfold reported. rewrite H1, H3. reflexivity.
Qed.

(* ---------------- subscription_context ---------------- *)

Theorem sub_ctx_restore s l : Inv s -> sub_all (cl s) = false -> mem ALL l = false ->
  sub_ctx_ok (cl s) l = true ->
  exists s_in s', subscription_context s l = (CtxOk s', Some s_in) /\
    same_client (cl s) (cl s') /\ (forall t, delivered (mg s') t = delivered (mg s) t) /\
    (forall t, mem t l = true -> reported (cl s_in) t = true /\ delivered (mg s_in) t = true).
Proof.
  intros HI A HA OK. unfold subscription_context. unfold sub_ctx_ok in OK.
  destruct (sub_ctx_list (cl s) l) as [l'|] eqn:L; [|discriminate].
  assert (HA' : mem ALL l' = false) by (apply (mem_false_of_incl l l' ALL (iter_remove_incl _ _ _ L) HA)).
  destruct (ctx_cycle_ind s KSub KUnsub (OSub l') (OUnsub l') l' (fun _ => eq_refl) (fun _ => eq_refl) HI A HA')
    as (s1 & s2 & E & C1 & C2 & I1 & I2).
  exists s1, s2. split; [exact E|].
  assert (F : forall x, mem x l' = true -> mem x (subscribed (cl s)) = false /\ mem x (paused (cl s)) = false).
  { intros x Hx. rewrite forallb_forall in OK. apply mem_true_iff in Hx. specialize (OK x Hx).
    apply andb_true_iff in OK. destruct OK as [O1 O2]. apply negb_true_iff in O1, O2. split; assumption. }
  assert (SC : same_client (cl s) (cl s2)).
  { unfold same_client. rewrite C2. cbn [spec_ind subscribed paused sub_all]. repeat split; try reflexivity; intros x;
      autorewrite with memdb; (destruct (mem x l') eqn:M; [destruct (F x M) as [F1 F2]; rewrite ?F1, ?F2|]);
      cbn; rewrite ?andb_true_r, ?andb_false_r, ?orb_false_r; reflexivity. }
  split; [exact SC|]. split; [exact (same_client_delivered s s2 HI I2 SC)|].
  intros t Ht. destruct (Inv_agree s1 I1) as [AG _]. rewrite <- AG.
  assert (R : reported (cl s1) t = true); [|split; exact R].
  unfold reported. rewrite C1. cbn [spec_ind subscribed sub_all]. rewrite A. cbn [orb]. autorewrite with memdb.
  (* every entry of l is subscribed inside the body: either it was already, or it survived into l' *)
  destruct (mem t (subscribed (cl s))) eqn:S; [reflexivity|]. cbn [orb].
  apply mem_true_iff. unfold sub_ctx_list in L. apply (iter_remove_keeps _ _ _ t L).
  - rewrite mem_to_set. exact S.
  - apply mem_true_iff. exact Ht.
Qed.

(* exactness: whenever the side condition fails, the entry state is NOT restored *)
Theorem sub_ctx_not_restored s l : Inv s -> sub_all (cl s) = false -> mem ALL l = false ->
  sub_ctx_ok (cl s) l = false ->
  exists s_in s', subscription_context s l = (CtxOk s', Some s_in) /\ ~ same_client (cl s) (cl s').
Proof.
  intros HI A HA OK. unfold subscription_context. unfold sub_ctx_ok in OK.
  destruct (iter_remove_total (fun mt => mem mt (to_set (subscribed (cl s)))) l) as [l' L].
  unfold sub_ctx_list in *. rewrite L in *.
  assert (HA' : mem ALL l' = false) by (apply (mem_false_of_incl l l' ALL (iter_remove_incl _ _ _ L) HA)).
  destruct (ctx_cycle_ind s KSub KUnsub (OSub l') (OUnsub l') l' (fun _ => eq_refl) (fun _ => eq_refl) HI A HA')
    as (s1 & s2 & E & C1 & C2 & I1 & I2).
  exists s1, s2. split; [exact E|]. intros (S1 & S2 & _).
  assert (X : exists x, In x l' /\ (mem x (subscribed (cl s)) = true \/ mem x (paused (cl s)) = true)).
  { clear - OK. induction l' as [|y r IH]; [discriminate|]. cbn [forallb] in OK. apply andb_false_iff in OK.
    destruct OK as [O|O].
    - exists y. split; [left; reflexivity|]. destruct (mem y (subscribed (cl s))); [left; reflexivity|].
      destruct (mem y (paused (cl s))); [right; reflexivity|discriminate].
    - destruct (IH O) as (x & Hx & Hc). exists x. split; [right; exact Hx|exact Hc]. }
  destruct X as (x & Hx & Hc). apply mem_true_iff in Hx. specialize (S1 x). specialize (S2 x).
  rewrite C2 in S1, S2. cbn [spec_ind subscribed paused] in S1, S2. autorewrite with memdb in S1, S2.
  rewrite Hx in S1, S2. cbn in S1, S2. rewrite ?andb_false_r in S1, S2. destruct Hc; congruence.
Qed.

(* in the subscribed-to-all state the context is refused on entry and nothing changes *)
Theorem sub_ctx_refused s l l' : sub_all (cl s) = true -> mem ALL l = false -> sub_ctx_list (cl s) l = Some l' ->
  subscription_context s l = (CtxEnterRaised EInvalidSubscription s, None).
Proof.
  intros A HA L. unfold subscription_context. rewrite L.
  assert (HA' : mem ALL l' = false) by (apply (mem_false_of_incl l l' ALL (iter_remove_incl _ _ _ L) HA)).
  unfold ctx_cycle. change (sys_step s (OSub l')) with (ctrl_step s KSub l'). unfold ctrl_step.
  rewrite sub_ctrl_eq, HA', A. destruct s; reflexivity.
Qed.

(* the syntactic side condition implies the semantic one *)
Lemma sub_ctx_ok_syntactic c l :
  nodupb l = true -> no_adjacent (fun t => mem t (subscribed c)) l = true ->
  forallb (fun t => negb (mem t (paused c))) l = true -> sub_ctx_ok c l = true.
Proof.
  intros H1 H2 H3. unfold sub_ctx_ok, sub_ctx_list.
  rewrite (iter_remove_ideal (fun mt => mem mt (to_set (subscribed c))) l H1).
  - apply forallb_forall. intros x Hx. apply filter_In in Hx. destruct Hx as [Hx Px]. rewrite mem_to_set in Px.
    rewrite Px. rewrite forallb_forall in H3. rewrite (H3 x Hx). reflexivity.
  - rewrite <- H2. apply no_adjacent_ext. intros x. apply mem_to_set.
Qed.

(* ---------------- paused_subscription_context ---------------- *)

Theorem pause_ctx_restore s l : Inv s -> sub_all (cl s) = false -> mem ALL l = false ->
  pause_ctx_ok (cl s) l = true ->
  exists s_in s', paused_subscription_context s l = (CtxOk s', Some s_in) /\
    same_client (cl s) (cl s') /\ (forall t, delivered (mg s') t = delivered (mg s) t) /\
    (forall t, mem t l = true -> reported (cl s_in) t = false /\ delivered (mg s_in) t = false).
Proof.
  intros HI A HA OK. unfold paused_subscription_context. unfold pause_ctx_ok in OK.
  destruct (pause_ctx_list (cl s) l) as [l'|] eqn:L; [|discriminate].
  assert (HA' : mem ALL l' = false) by (apply (mem_false_of_incl l l' ALL (iter_remove_incl _ _ _ L) HA)).
  destruct (ctx_cycle_ind s KPause KResume (OPause l') (OResume l') l' (fun _ => eq_refl) (fun _ => eq_refl) HI A HA')
    as (s1 & s2 & E & C1 & C2 & I1 & I2).
  exists s1, s2. split; [exact E|].
  pose proof HI as HI'. unfold Inv in HI'. rewrite A in HI'. destruct HI' as (_ & _ & DJ & _).
  assert (F : forall x, mem x l' = true -> mem x (subscribed (cl s)) = true /\ mem x (paused (cl s)) = false).
  { intros x Hx. rewrite forallb_forall in OK. apply mem_true_iff in Hx. specialize (OK x Hx).
    split; [exact OK|]. specialize (DJ x). rewrite OK in DJ. exact DJ. }
  assert (SC : same_client (cl s) (cl s2)).
  { unfold same_client. rewrite C2. cbn [spec_ind subscribed paused sub_all]. repeat split; try reflexivity; intros x;
      autorewrite with memdb; (destruct (mem x l') eqn:M; [destruct (F x M) as [F1 F2]; rewrite ?F1, ?F2|]);
      cbn; rewrite ?andb_true_r, ?andb_false_r, ?orb_false_r; reflexivity. }
  split; [exact SC|]. split; [exact (same_client_delivered s s2 HI I2 SC)|].
  intros t Ht. destruct (Inv_agree s1 I1) as [AG _]. rewrite <- AG.
  assert (R : reported (cl s1) t = false); [|split; exact R].
  unfold reported. rewrite C1. cbn [spec_ind subscribed sub_all]. rewrite A. cbn [orb]. autorewrite with memdb.
  destruct (mem t (subscribed (cl s))) eqn:S; [|reflexivity]. cbn [andb].
  apply negb_false_iff. apply mem_true_iff. unfold pause_ctx_list in L. apply (iter_remove_keeps _ _ _ t L).
  - rewrite mem_to_set, S. reflexivity.
  - apply mem_true_iff. exact Ht.
Qed.

Theorem pause_ctx_not_restored s l : Inv s -> sub_all (cl s) = false -> mem ALL l = false ->
  pause_ctx_ok (cl s) l = false ->
  exists s_in s', paused_subscription_context s l = (CtxOk s', Some s_in) /\ ~ same_client (cl s) (cl s').
Proof.
  intros HI A HA OK. unfold paused_subscription_context. unfold pause_ctx_ok in OK.
  destruct (iter_remove_total (fun mt => negb (mem mt (to_set (subscribed (cl s))))) l) as [l' L].
  unfold pause_ctx_list in *. rewrite L in *.
  assert (HA' : mem ALL l' = false) by (apply (mem_false_of_incl l l' ALL (iter_remove_incl _ _ _ L) HA)).
  destruct (ctx_cycle_ind s KPause KResume (OPause l') (OResume l') l' (fun _ => eq_refl) (fun _ => eq_refl) HI A HA')
    as (s1 & s2 & E & C1 & C2 & I1 & I2).
  exists s1, s2. split; [exact E|]. intros (S1 & _ & _).
  assert (X : exists x, In x l' /\ mem x (subscribed (cl s)) = false).
  { clear - OK. induction l' as [|y r IH]; [discriminate|]. cbn [forallb] in OK. apply andb_false_iff in OK.
    destruct OK as [O|O]; [exists y; split; [left; reflexivity|exact O]|].
    destruct (IH O) as (x & Hx & Hc). exists x. split; [right; exact Hx|exact Hc]. }
  destruct X as (x & Hx & Hc). apply mem_true_iff in Hx. specialize (S1 x).
  rewrite C2 in S1. cbn [spec_ind subscribed paused] in S1. autorewrite with memdb in S1.
  rewrite Hx, Hc in S1. cbn in S1. discriminate.
Qed.

Theorem pause_ctx_refused s l l' : sub_all (cl s) = true -> mem ALL l = false -> pause_ctx_list (cl s) l = Some l' ->
  paused_subscription_context s l = (CtxEnterRaised EInvalidSubscription s, None).
Proof.
  intros A HA L. unfold paused_subscription_context. rewrite L.
  assert (HA' : mem ALL l' = false) by (apply (mem_false_of_incl l l' ALL (iter_remove_incl _ _ _ L) HA)).
  unfold ctx_cycle. change (sys_step s (OPause l')) with (ctrl_step s KPause l'). unfold ctrl_step.
  rewrite sub_ctrl_eq, HA', A. destruct s; reflexivity.
Qed.

Lemma pause_ctx_ok_syntactic c l :
  nodupb l = true -> no_adjacent (fun t => negb (mem t (subscribed c))) l = true -> pause_ctx_ok c l = true.
Proof.
  intros H1 H2. unfold pause_ctx_ok, pause_ctx_list.
  rewrite (iter_remove_ideal (fun mt => negb (mem mt (to_set (subscribed c)))) l H1).
  - apply forallb_forall. intros x Hx. apply filter_In in Hx. destruct Hx as [Hx Px]. rewrite mem_to_set in Px.
    apply negb_true_iff in Px. apply negb_false_iff in Px. exact Px.
  - rewrite <- H2. apply no_adjacent_ext. intros x. rewrite mem_to_set. reflexivity.
Qed.
