(* Membership characterisation of the list-as-set operations of Model/SubBase.v. *)
From Coq Require Import ZArith List Bool Lia ZifyBool.
From Cli Require Import Model.SubBase.
Import ListNotations.
Open Scope Z_scope.

Lemma mem_nil x : mem x [] = false. Proof. reflexivity. Qed.
Lemma mem_cons x y s : mem x (y :: s) = (x =? y) || mem x s. Proof. reflexivity. Qed.
Lemma mem_app x a b : mem x (a ++ b) = mem x a || mem x b.
Proof. unfold mem. apply existsb_app. Qed.
Lemma mem_true_iff x s : mem x s = true <-> In x s.
Proof.
  unfold mem. rewrite existsb_exists. split.
  - intros (y & Hy & E). apply Z.eqb_eq in E. subst. exact Hy.
  - intros H. exists x. split; [exact H|apply Z.eqb_refl].
Qed.
Lemma mem_false_iff x s : mem x s = false <-> ~ In x s.
Proof. rewrite <- mem_true_iff. destruct (mem x s); split; congruence. Qed.
Lemma mem_filter x f s : mem x (filter f s) = mem x s && f x.
Proof.
  induction s as [|y s IH]; [reflexivity|]. cbn [filter].
  destruct (f y) eqn:Fy; rewrite ?mem_cons, IH; destruct (x =? y) eqn:E; cbn; try reflexivity.
  - apply Z.eqb_eq in E. subst. rewrite Fy. reflexivity.
  - apply Z.eqb_eq in E. subst. rewrite Fy. rewrite andb_false_r. reflexivity.
Qed.
Lemma mem_to_set x l : mem x (to_set l) = mem x l.
Proof.
  induction l as [|y l IH]; [reflexivity|]. cbn [to_set].
  destruct (mem y l) eqn:M; rewrite ?mem_cons, IH; [|reflexivity].
  destruct (x =? y) eqn:E; [|reflexivity]. apply Z.eqb_eq in E. subst. rewrite M. reflexivity.
Qed.
Lemma mem_set_add x s y : mem x (set_add s y) = mem x s || (x =? y).
Proof.
  unfold set_add. destruct (mem y s) eqn:M.
  - destruct (x =? y) eqn:E; [|rewrite orb_false_r; reflexivity].
    apply Z.eqb_eq in E. subst. rewrite M. reflexivity.
  - rewrite mem_app, mem_cons, mem_nil, orb_false_r. reflexivity.
Qed.
Lemma mem_set_discard x s y : mem x (set_discard s y) = mem x s && negb (x =? y).
Proof. unfold set_discard. rewrite mem_filter, (Z.eqb_sym y x). reflexivity. Qed.
Lemma mem_set_union x a b : mem x (set_union a b) = mem x a || mem x b.
Proof.
  unfold set_union. rewrite mem_app, mem_filter, mem_to_set.
  destruct (mem x a), (mem x b); reflexivity.
Qed.
Lemma mem_set_diff x a b : mem x (set_diff a b) = mem x a && negb (mem x b).
Proof. unfold set_diff. apply mem_filter. Qed.

Lemma subset_spec a b : subset a b = true <-> (forall x, mem x a = true -> mem x b = true).
Proof.
  unfold subset. rewrite forallb_forall. split.
  - intros H x Hx. apply H. apply mem_true_iff. exact Hx.
  - intros H x Hx. apply H. apply mem_true_iff. exact Hx.
Qed.
Lemma seteq_spec a b : seteq a b = true <-> (forall x, mem x a = mem x b).
Proof.
  unfold seteq. rewrite andb_true_iff, !subset_spec. split.
  - intros [H1 H2] x. destruct (mem x a) eqn:A, (mem x b) eqn:B; try reflexivity.
    + rewrite (H1 x A) in B. discriminate.
    + rewrite (H2 x B) in A. discriminate.
  - intros H. split; intros x Hx; [rewrite <- H|rewrite H]; exact Hx.
Qed.

#[export] Hint Rewrite mem_nil mem_cons mem_app mem_filter mem_to_set mem_set_add mem_set_discard
  mem_set_union mem_set_diff : memdb.

(* bool/Z case analysis after everything has been rewritten to mem-equations *)
Ltac bool_crush :=
  repeat match goal with
  | |- context [mem ?x ?s] => let E := fresh "M" in destruct (mem x s) eqn:E
  | H : context [mem ?x ?s] |- _ => let E := fresh "M" in destruct (mem x s) eqn:E
  end; cbn in *; try reflexivity; try discriminate; try lia.
