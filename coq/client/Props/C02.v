(* C02 - Client and manager always agree on the subscription set.
   Property theorems only; proofs live in Proofs/{SubsProofs,PyListProofs,CtxProofs}.v.
   Models: Gen/ClientSub.v (Client._subscription_control and its wrappers, REGENERATED from /repo),
           Gen/MgrSub.v (MessageManager.add_subscription / remove_subscription / dispatch, REGENERATED),
           Model/ClientSubs.v (composition, context managers), Lib/PyList.v (CPython list iteration).

   Vocabulary
     run sys_init ops        the client issues `ops` (any of subscribe / unsubscribe / pause_subscription /
                             resume_subscription with ARBITRARY argument lists, unsubscribe_from_all,
                             pause_all_subscriptions, resume_all_subscriptions); after each call the manager
                             processes the control frames the call sent.
     reported c t            t is in Client.subscribed_types, {ALL_MESSAGE_TYPES} standing for every type
     delivered m t           the manager forwards a message of type t to this module
                             (module in subscriptions[t] or in subscriptions[ALL_MESSAGE_TYPES])            *)
From Coq Require Import ZArith List Bool String Lia.
From Cli Require Import Model.SubBase Lib.PyList Gen.ClientSub Gen.MgrSub Model.ClientSubs
  Proofs.SetLemmas Proofs.PyListProofs Proofs.SubsProofs Proofs.CtxProofs.
Import ListNotations.
Open Scope Z_scope.

Definition agree (s : sys) : Prop :=
  (forall t, reported (cl s) t = delivered (mg s) t) /\
  (forall t, mem t (paused (cl s)) = true -> delivered (mg s) t = false).

(* ------------------------------------------------------------------------------------------------
   C02_agree, the property as stated, for EVERY operation history (no exclusion).
   History: on the snapshot tree this was false - a second subscribe naming ALL_MESSAGE_TYPES made
   add_subscription add the module to subscriptions[ALL] and then discard it again; fixed in /repo by
   a892a86 (known_findings.d/client.txt `fixed:` agree:resubscribe-all).  Gen/MgrSub.v is regenerated from the
   code on every run, so a reordering of those statements breaks Proofs/SubsProofs.v add_all_memb again.
   ------------------------------------------------------------------------------------------------ *)
Theorem C02_agree : forall ops, agree (run sys_init ops).
Proof. intros ops. exact (Inv_agree _ (run_Inv ops sys_init Inv_init)). Qed.

(* a history that uses every operation, ALL mixed with individual types, duplicates, pausing something never
   subscribed, a refused call and a repeated subscribe-to-all *)
Example C02_agree_nonvacuous :
  let ops := [OSub [10; 11; 11]; OPause [11; 12]; OResume [12]; OSub [7; ALL_MESSAGE_TYPES]; OUnsub [10];
              OSub [ALL_MESSAGE_TYPES]; OResume [ALL_MESSAGE_TYPES; 3];
              OPauseAll; OSub [10; 13]; OPause [13]; OResumeAll; OUnsubAll; OResume [ALL_MESSAGE_TYPES; 5];
              OSub [ALL_MESSAGE_TYPES]] in
  reported (cl (run sys_init ops)) 99 = true /\ delivered (mg (run sys_init ops)) 99 = true /\
  let ops' := [OSub [10; 11]; OPause [11; 12]] in
  reported (cl (run sys_init ops')) 10 = true /\ delivered (mg (run sys_init ops')) 10 = true /\
  delivered (mg (run sys_init ops')) 11 = false /\ mem 11 (paused (cl (run sys_init ops'))) = true.
Proof. vm_compute. repeat split. Qed.

(* every reachable state is well-formed on the client side: subscribed and paused disjoint, ALL only as the
   singleton that stands for the subscribed-to-all state *)
Theorem C02_client_wf : forall ops, c_wf (cl (run sys_init ops)) = true.
Proof. intros ops. exact (Inv_c_wf _ (run_Inv ops sys_init Inv_init)). Qed.

(* the manager-side result of a call depends on msg_list only as a set: neither the iteration order of
   the python set `msg_set` nor duplicates matter *)
Theorem C02_frame_order_irrelevant : forall k l1 l2 m,
  mem ALL_MESSAGE_TYPES l1 = false -> mem ALL_MESSAGE_TYPES (msubs m) = false ->
  (forall x, mem x l1 = mem x l2) ->
  forall t, delivered (mgr_recv_all m (map (fun t => (kmt k, t)) l1)) t =
            delivered (mgr_recv_all m (map (fun t => (kmt k, t)) l2)) t.
Proof.
  intros k l1 l2 m H1 H2 H3 t. destruct (recv_all_order_irrelevant k l1 l2 m H1 H2 H3) as [_ E].
  unfold delivered. rewrite !E. reflexivity.
Qed.

(* ------------------------------------------------------------------------------------------------
   C02_refused: while subscribed to all types an individual request raises InvalidSubscription, sends
   nothing, and changes nothing on either side.
   ------------------------------------------------------------------------------------------------ *)
(* individual_request o l (Proofs/SubsProofs.v):  o = OSub l \/ o = OUnsub l \/ o = OPause l \/ o = OResume l *)
Theorem C02_refused : forall s o l, sub_all (cl s) = true -> individual_request o l ->
  mem ALL_MESSAGE_TYPES l = false ->
  client_step (cl s) o = SRaise EInvalidSubscription (cl s) /\ sys_step s o = (s, Some EInvalidSubscription).
Proof. exact refused. Qed.

(* and even if individual control frames did reach a manager that has the module subscribed to all, it
   would ignore them (manager.py: `if src_module.sub_all: return`) *)
Theorem C02_refused_manager : forall k l m, mem ALL_MESSAGE_TYPES (msubs m) = true ->
  mem ALL_MESSAGE_TYPES l = false -> mgr_recv_all m (map (fun t => (kmt k, t)) l) = m.
Proof. intros k l m H1 H2. exact (recv_all_ignored k l m H2 H1). Qed.

Example C02_refused_nonvacuous :
  let s := run sys_init [OSub [3]; OSub [ALL_MESSAGE_TYPES]] in
  sub_all (cl s) = true /\ sys_step s (OUnsub [3; 4]) = (s, Some EInvalidSubscription).
Proof. vm_compute. split; reflexivity. Qed.

(* ------------------------------------------------------------------------------------------------
   C02_ctx_restore / C02_pause_ctx_restore, the property as stated, in full: from EVERY reachable state that is
   not subscribed-to-all and for EVERY list of individual types (any length, duplicates, any overlap with the
   subscribed and the paused set, in any position), entering and leaving the context (empty body) restores
   exactly the subscribed and paused sets - and what the manager delivers.  Inside the body every listed
   type is subscribed and delivered (resp. not delivered).
   History: on the snapshot tree this was false - the filtering loop removed entries from the list it was
   iterating and skipped the entry after each removed one (fixed by 651ddd8), and subscription_context([t])
   with t paused on entry left t neither subscribed nor paused (fixed by aa63f93); `fixed:` lines ctx:* in
   known_findings.d/client.txt.  The context managers are hand-modelled (Model/ClientSubs.v, Lib/PyList.v)
   and tied to the code by the correspondence on every run.
   ------------------------------------------------------------------------------------------------ *)
Theorem C02_ctx_restore : forall ops l, let s := run sys_init ops in
  sub_all (cl s) = false -> mem ALL_MESSAGE_TYPES l = false ->
  exists s_in s', subscription_context s l = (CtxOk s', Some s_in) /\
    same_client (cl s) (cl s') /\ (forall t, delivered (mg s') t = delivered (mg s) t) /\
    (forall t, mem t l = true -> reported (cl s_in) t = true /\ delivered (mg s_in) t = true).
Proof. intros ops l s. exact (sub_ctx_restore s l (run_Inv ops sys_init Inv_init)). Qed.

Theorem C02_pause_ctx_restore : forall ops l, let s := run sys_init ops in
  sub_all (cl s) = false -> mem ALL_MESSAGE_TYPES l = false ->
  exists s_in s', paused_subscription_context s l = (CtxOk s', Some s_in) /\
    same_client (cl s) (cl s') /\ (forall t, delivered (mg s') t = delivered (mg s) t) /\
    (forall t, mem t l = true -> reported (cl s_in) t = false /\ delivered (mg s_in) t = false).
Proof. intros ops l s. exact (pause_ctx_restore s l (run_Inv ops sys_init Inv_init)). Qed.

(* in the subscribed-to-all state both context managers are refused on entry and nothing changes *)
Theorem C02_ctx_refused : forall s l, sub_all (cl s) = true -> mem ALL_MESSAGE_TYPES l = false ->
  subscription_context s l = (CtxEnterRaised EInvalidSubscription s, None) /\
  paused_subscription_context s l = (CtxEnterRaised EInvalidSubscription s, None).
Proof. intros s l A HA. split; [exact (sub_ctx_refused s l A HA)|exact (pause_ctx_refused s l A HA)]. Qed.

(* the filtering loop (remove from msg_list while iterating a copy of it) is the filter *)
Theorem C02_ctx_loop_is_filter : forall p l, copy_remove p l = filter (fun x => negb (p x)) l.
Proof. exact copy_remove_filter. Qed.

(* non-vacuity: the formerly failing inputs (adjacent already-subscribed entries, a duplicate, an entry paused
   on entry, adjacent not-subscribed entries) now restore the entry state *)
Example C02_ctx_nonvacuous :
  let s := run sys_init [OSub [1; 2; 3]; OPause [3; 4]] in
  sub_all (cl s) = false /\
  (exists s_in s', subscription_context s [1; 2; 6; 6; 4] = (CtxOk s', Some s_in) /\
     seteq (subscribed (cl s')) [1; 2] = true /\ seteq (paused (cl s')) [3; 4] = true /\
     seteq (subscribed (cl s_in)) [1; 2; 6; 4] = true /\ seteq (paused (cl s_in)) [3] = true) /\
  (exists s_in s', paused_subscription_context s [5; 6; 1; 1; 3] = (CtxOk s', Some s_in) /\
     seteq (subscribed (cl s')) [1; 2] = true /\ seteq (paused (cl s')) [3; 4] = true /\
     seteq (subscribed (cl s_in)) [2] = true /\ seteq (paused (cl s_in)) [1; 3; 4] = true).
Proof.
  split; [reflexivity|]. split; do 2 eexists; (split; [vm_compute; reflexivity|]); repeat split; vm_compute; reflexivity.
Qed.
