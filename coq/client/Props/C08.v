(* C08 - Client read path is faithful, filtered and self-resynchronising.
   Property theorems only; proofs live in Proofs/ReadProofs.v.
   Model: Model/ClientRead.v (Client._read_message / read_message over a TCP byte stream);
          Gen/ReadGuards.v (size / version guards, drain lengths, header layout: REGENERATED from /repo).

   Vocabulary
     frame f            48 header bytes fh f + payload fp f with num_data_bytes = |fp f| (wf_frame; hence
                        0 <= num_data_bytes: HYPOTHESIS of every theorem - a negative num_data_bytes makes
                        recv raise ValueError, modelled as EValue but outside the property: the manager never
                        delivers such a frame)
     encs fs ++ tail    the bytes the peer has sent: whole frames fs, then `tail` (arbitrary bytes / a cut frame)
     tm                 what the peer did next: Open | Fin | Rst
     classify tbl sync f   what f decodes to under the local definitions tbl
     spec_read ... fs   frame-level meaning of one read_message call (written from the property text)
     recv_time is not modelled: the returned header is the received one "except recv_time".            *)
From Coq Require Import ZArith List Bool Lia.
From Cli Require Import Model.SubBase Gen.ReadGuards Model.ClientRead Proofs.SetLemmas Proofs.ReadProofs.
Import ListNotations.
Open Scope Z_scope.

(* decode_error o (Proofs/ReadProofs.v):
     (exists h raw, o = OUnknown h raw) \/ o = ORaise EBadSize \/ o = ORaise EBadVersion *)

(* C08_resync.  Whenever a call is decided within the queued whole frames - in particular whenever it raises
   UnknownMessageType / InvalidMessageDefinition - its outcome is the classification of ONE frame f, every
   frame before f was a decodable message filtered out by this call, the client state is unchanged, and
   the stream left behind is EXACTLY the frames after f (followed by whatever came after the queue). *)
Theorem C08_resync : forall tbl cfg st fs tail tm o r,
  connected st = true -> Forall wf_frame fs -> spec_read tbl cfg st fs = Some (o, r) ->
  read tbl cfg st (mkStream (encs fs ++ tail) tm) = (o, st, mkStream (encs r ++ tail) tm) /\
  exists pre f, fs = pre ++ f :: r /\
    Forall (fun g => exists h p, classify tbl (sync_check cfg) g = OMsg h p /\ passes cfg st (hdr_type h) = false) pre /\
    (o = classify tbl (sync_check cfg) f \/ (o = ONone /\ timeout cfg = TZero)).
Proof.
  intros tbl cfg st fs tail tm o r C WF S. split.
  - rewrite (read_frames tbl cfg st fs tail tm C WF), S. reflexivity.
  - destruct (spec_read_origin tbl cfg st fs o r S) as (pre & f & E & F & D). exists pre, f.
    split; [exact E|]. split; [exact F|]. destruct D as [[D _]|(D1 & D2 & _)]; [left; exact D|right; split; assumption].
Qed.

(* the documented error is raised for an undecodable frame at the head of the queue and the next call
   returns the following frame intact *)
Theorem C08_resync_next : forall tbl cfg cfg' st st' f g rest tail tm,
  connected st = true -> connected st' = true -> wf_frame f -> wf_frame g -> Forall wf_frame rest ->
  decode_error (classify tbl (sync_check cfg) f) ->
  (exists h p, classify tbl (sync_check cfg') g = OMsg h p /\ passes cfg' st' (hdr_type h) = true) ->
  let s0 := mkStream (encs (f :: g :: rest) ++ tail) tm in
  let s1 := mkStream (encs (g :: rest) ++ tail) tm in
  read tbl cfg st s0 = (classify tbl (sync_check cfg) f, st, s1) /\
  read tbl cfg' st' s1 = (OMsg (fh g) (fp g), st', mkStream (encs rest ++ tail) tm).
Proof. exact resync_next. Qed.

(* by induction: the outcomes of successive calls - each with its own timeout/ack/sync_check options and its
   own subscription state - are the frame-level outcomes, and the stream left is the unread frames *)
Theorem C08_sequence : forall tbl calls fs tail tm os r, Forall wf_frame fs ->
  spec_many tbl calls fs = Some (os, r) ->
  read_many tbl calls true (mkStream (encs fs ++ tail) tm) = (os, mkStream (encs r ++ tail) tm).
Proof. intros tbl calls fs tail tm os r. exact (read_many_frames tbl tail tm calls fs os r). Qed.

(* C08_faithful.  A returned message is one of the frames that were sent, header and payload bytes unchanged
   (the stream may end in a cut frame and the peer may have closed, reset or done nothing yet). *)
Theorem C08_faithful : forall tbl cfg st fs tail tm h p st' s',
  connected st = true -> Forall wf_frame fs -> cut_stream tail ->
  read tbl cfg st (mkStream (encs fs ++ tail) tm) = (OMsg h p, st', s') ->
  exists f, In f fs /\ h = fh f /\ p = fp f.
Proof.
  intros tbl cfg st fs tail tm h p st' s' C WF CUT H.
  destruct (read_faithful tbl cfg st fs tail tm h p st' s' C WF (raw_cut_not_msg tbl cfg st tail tm CUT) H)
    as (f & I & E1 & E2 & _). exists f. auto.
Qed.

(* C08_filter.  Whatever bytes are queued (no hypothesis on the stream at all): a message returned while not
   subscribed to all types has a type that is subscribed at the time of THIS call, or is the ACKNOWLEDGE the
   caller asked for. *)
Theorem C08_filter : forall tbl cfg st s h p st' s',
  read tbl cfg st s = (OMsg h p, st', s') -> r_sub_all st = false ->
  mem (hdr_type h) (r_subscribed st) = true \/ (ack cfg = true /\ hdr_type h = MT_ACKNOWLEDGE).
Proof. exact read_filter. Qed.

(* the filter loop always terminates normally (model fuel is never exhausted) *)
Theorem C08_no_fuel : forall tbl cfg st s, fst (fst (read tbl cfg st s)) <> OFuel.
Proof. exact read_no_fuel. Qed.

(* ------------------------------------------------------------------------------------------------
   C08_lost, the property as stated ("loss of the connection is reported as ConnectionLost and leaves the
   client in the disconnected state"), in full: the call that reaches the point where the peer closed (FIN) or
   reset (RST) - at ANY byte offset of a frame, header or payload, decodable frame or not, after any number
   of queued whole frames that this call filters out - raises ConnectionLost and leaves connected = False.
   History: on the snapshot tree this was false in three classes (reset with no byte pending left connected
   True; the same reset escaped the unguarded drain as a raw ConnectionResetError; a cut inside a drained
   payload was reported as the decode error) - fixed in /repo by 5577bbe (`fixed:` lines lost:* in
   known_findings.d/client.txt).  Gen/ReadGuards.v regenerates, on every run, whether each of those paths
   clears _connected and whether Client._drain checks for a short read; removing any of them breaks
   Proofs/ReadProofs.v raw_cut_header / raw_cut_payload.
   ------------------------------------------------------------------------------------------------ *)
Definition tbl_ex : deftable := [(15, (4, 4122228680)); (2, (0, 3072701825))].
Definition st_all : rstate := mkR true true [].
Definition cfg_none : rcfg := mkCfg TNone false false.

Theorem C08_lost : forall tbl cfg st fs b tm,
  connected st = true -> closed tm = true -> Forall wf_frame fs -> spec_read tbl cfg st fs = None ->
  cut_stream b ->
  exists s', read tbl cfg st (mkStream (encs fs ++ b) tm) = (ORaise EConnLost, disconnected st, s').
Proof. exact lost_full. Qed.

(* the three formerly failing inputs: reset at a recv boundary, reset right after the header of an unknown
   type, orderly close inside the payload of an unknown type *)
Example C08_lost_nonvacuous :
  cut_stream [] /\ cut_stream (hdr_of 7777 6 0) /\ cut_stream (hdr_of 7777 6 0 ++ [1; 2]) /\
  read tbl_ex cfg_none st_all (mkStream [] Rst) = (ORaise EConnLost, disconnected st_all, mkStream [] Fin) /\
  read tbl_ex cfg_none st_all (mkStream (hdr_of 7777 6 0) Rst) = (ORaise EConnLost, disconnected st_all, mkStream [] Fin) /\
  read tbl_ex cfg_none st_all (mkStream (hdr_of 7777 6 0 ++ [1; 2]) Fin) = (ORaise EConnLost, disconnected st_all, mkStream [] Fin).
Proof.
  split; [left; vm_compute; lia|]. split; [right; exists (hdr_of 7777 6 0), []; rewrite app_nil_r; repeat split; vm_compute; reflexivity|].
  split; [right; exists (hdr_of 7777 6 0), [1; 2]; repeat split; vm_compute; reflexivity|].
  repeat split; vm_compute; reflexivity.
Qed.

(* once disconnected, every call raises NotConnectedError and reads nothing *)
Theorem C08_disconnected_stays : forall tbl cfg st s, connected st = false ->
  read tbl cfg st s = (ORaise ENotConnected, st, s).
Proof. exact read_not_connected. Qed.

(* ---------------- non-vacuity ---------------- *)
Definition f_good : frame := mkFrame (hdr_of 15 4 0) [1; 2; 3; 4].
Definition f_unknown : frame := mkFrame (hdr_of 7777 3 0) [9; 8; 7].
Definition f_size : frame := mkFrame (hdr_of 15 6 0) [1; 2; 3; 4; 5; 6].
Definition f_version : frame := mkFrame (hdr_of 15 4 77) [5; 6; 7; 8].
Definition f_ack : frame := mkFrame (hdr_of 2 0 0) [].

Example C08_frames_wf : Forall wf_frame [f_good; f_unknown; f_size; f_version; f_ack].
Proof. repeat constructor; vm_compute; reflexivity. Qed.

(* unknown, wrong size, wrong version (sync_check on), zero-length unsubscribed, then the good frame:
   five calls give the three documented errors, skip the unsubscribed ACK, and return the good frame intact *)
Example C08_sequence_nonvacuous :
  let c := mkCall (mkCfg TNone false true) false [15] in
  spec_many tbl_ex [c; c; c; c] [f_unknown; f_size; f_version; f_ack; f_good] =
    Some ([(OUnknown (fh f_unknown) (fp f_unknown), true); (ORaise EBadSize, true); (ORaise EBadVersion, true);
           (OMsg (fh f_good) (fp f_good), true)], []) /\
  fst (read_many tbl_ex [c; c; c; c] true
         (mkStream (encs [f_unknown; f_size; f_version; f_ack; f_good]) Fin)) =
    [(OUnknown (fh f_unknown) (fp f_unknown), true); (ORaise EBadSize, true); (ORaise EBadVersion, true);
     (OMsg (fh f_good) (fp f_good), true)].
Proof. split; vm_compute; reflexivity. Qed.

Example C08_lost_after_frame_nonvacuous :
  let b := firstn 50 (enc f_good) in
  read tbl_ex cfg_none st_all (mkStream (enc f_good ++ b) Rst) =
    (OMsg (fh f_good) (fp f_good), st_all, mkStream b Rst) /\
  read tbl_ex cfg_none st_all (mkStream b Rst) = (ORaise EConnLost, disconnected st_all, mkStream [] Rst).
Proof. split; vm_compute; reflexivity. Qed.
