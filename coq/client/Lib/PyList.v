(* CPython list semantics needed by the client's context managers (client.py, since fix 651ddd8):

       msg_list = list(msg_list)
       for mt in list(msg_list):        # iterate over a COPY
           if P(mt):
               msg_list.remove(mt)      # deletes the FIRST element equal to mt

   Executable, proof-free.  (Before 651ddd8 the loop iterated msg_list itself, whose index-based iterator
   skipped the element after each removed one; that model and its lemmas were retired with the fix.) *)
From Coq Require Import ZArith List Bool.
Import ListNotations.
Open Scope Z_scope.

Fixpoint remove_first (x : Z) (l : list Z) : list Z :=
  match l with
  | [] => []
  | y :: r => if x =? y then r else y :: remove_first x r
  end.

(* the loop: `copy` is what is iterated, the accumulator is msg_list *)
Definition copy_remove_from (p : Z -> bool) (copy acc : list Z) : list Z :=
  fold_left (fun acc x => if p x then remove_first x acc else acc) copy acc.
Definition copy_remove (p : Z -> bool) (l : list Z) : list Z := copy_remove_from p l l.
