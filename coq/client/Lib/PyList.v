(* CPython list semantics needed by the client's context managers:

       for mt in msg_list:
           if P(mt):
               msg_list.remove(mt)

   The list iterator keeps an INDEX into the list; `list.remove(x)` deletes the FIRST element equal to x
   and shifts the tail left, so the element that followed a removed one is never visited.
   Executable, proof-free.  Fuel: every iteration increases the index and the list never grows, so
   `S (length l)` iterations suffice (Proofs/PyListProofs.v: iter_remove_total). *)
From Coq Require Import ZArith List Bool.
Import ListNotations.
Open Scope Z_scope.

Fixpoint remove_first (x : Z) (l : list Z) : list Z :=
  match l with
  | [] => []
  | y :: r => if x =? y then r else y :: remove_first x r
  end.

Fixpoint iter_remove_fuel (fuel : nat) (p : Z -> bool) (l : list Z) (i : nat) : option (list Z) :=
  match fuel with
  | O => None
  | S k =>
    match nth_error l i with
    | None => Some l                                   (* index past the end: StopIteration *)
    | Some x => if p x then iter_remove_fuel k p (remove_first x l) (S i)
                else iter_remove_fuel k p l (S i)
    end
  end.

Definition iter_remove (p : Z -> bool) (l : list Z) : option (list Z) :=
  iter_remove_fuel (S (length l)) p l 0.

(* what the loop computes on a duplicate-free tail: after a removed element the next one is skipped *)
Fixpoint skip_filter (p : Z -> bool) (l : list Z) : list Z :=
  match l with
  | [] => []
  | x :: r => if p x then match r with [] => [] | y :: r' => y :: skip_filter p r' end
              else x :: skip_filter p r
  end.

(* a syntactic condition under which the loop is the intended filter: no duplicates, no two neighbours
   that are both removed *)
Fixpoint no_adjacent (p : Z -> bool) (l : list Z) : bool :=
  match l with
  | x :: ((y :: _) as r) => negb (p x && p y) && no_adjacent p r
  | _ => true
  end.
Fixpoint nodupb (l : list Z) : bool :=
  match l with [] => true | x :: r => negb (existsb (Z.eqb x) r) && nodupb r end.

