(* Model of Client._read_message / Client.read_message (client.py:687-808) reading from a TCP byte
   stream.  Executable, proof-free.

   Stream  = bytes already sent by the peer, followed by what the peer did next:
               Open (nothing yet), Fin (orderly close), Rst (reset, SO_LINGER 0).
   recv(n, MSG_WAITALL) as observed on Linux (validated by the correspondence, not verified):
     * n bytes are pending                       -> exactly n bytes
     * fewer pending, Open                       -> blocks (outcome OBlocked)
     * fewer pending, Fin                        -> the pending bytes (possibly none); later reads: EOF
     * fewer pending, Rst, some bytes pending    -> the pending bytes; the reset is reported by the next recv
     * fewer pending, Rst, nothing pending       -> ConnectionResetError, once; later reads: EOF
   Guards, drain lengths and the "does this path clear _connected" flags come from Gen/ReadGuards.v
   (regenerated from /repo on every run). *)
From Coq Require Import ZArith List Bool.
From Cli Require Import Model.SubBase Gen.ReadGuards.
Import ListNotations.
Open Scope Z_scope.

Inductive term := Open | Fin | Rst.
Record stream := mkStream { sbytes : list Z; sterm : term }.

Inductive rcv :=
| RData (d : list Z) (s : stream)     (* full count *)
| RShort (d : list Z) (s : stream)    (* fewer than asked (peer closed / reset after partial data) *)
| RReset (s : stream)                 (* ConnectionResetError *)
| RBlock.

Definition recv_waitall (n : nat) (s : stream) : rcv :=
  if (n <=? length (sbytes s))%nat then RData (firstn n (sbytes s)) (mkStream (skipn n (sbytes s)) (sterm s))
  else match sterm s with
       | Open => RBlock
       | Fin => RShort (sbytes s) (mkStream [] Fin)
       | Rst => match sbytes s with
                | [] => RReset (mkStream [] Fin)
                | _ => RShort (sbytes s) (mkStream [] Rst)
                end
       end.

(* select([sock],[],[],t): readable when data is pending or the peer closed/reset *)
Definition readable (s : stream) : bool :=
  match sbytes s, sterm s with [], Open => false | _, _ => true end.

(* little-endian int32 / uint32 at a byte offset of the header *)
Definition byte_at (h : list Z) (i : Z) : Z := nth (Z.to_nat i) h 0.
Definition le_u32 (h : list Z) (off : Z) : Z :=
  byte_at h off + 256 * byte_at h (off + 1) + 65536 * byte_at h (off + 2) + 16777216 * byte_at h (off + 3).
Definition le_i32 (h : list Z) (off : Z) : Z :=
  let u := le_u32 h off in if u <? 2147483648 then u else u - 4294967296.
Definition hdr_type (h : list Z) : Z := le_i32 h OFF_MSG_TYPE.
Definition hdr_nbytes (h : list Z) : Z := le_i32 h OFF_NUM_DATA_BYTES.
Definition hdr_version (h : list Z) : Z :=
  if VERSION_SIGNED then le_i32 h OFF_VERSION else le_u32 h OFF_VERSION.

Inductive exc :=
| EUnknown          (* UnknownMessageType *)
| EBadSize          (* InvalidMessageDefinition: payload size differs from the local definition *)
| EBadVersion       (* InvalidMessageDefinition: version hash differs (sync_check) *)
| EConnLost         (* ConnectionLost *)
| EValue            (* ValueError: negative buffersize in recv *)
| ENotConnected.    (* NotConnectedError *)

Inductive outcome :=
| OMsg (hdr payload : list Z)
| OUnknown (hdr raw : list Z)      (* UnknownMessageType(msg, header, raw) *)
| ONone
| ORaise (e : exc)
| OBlocked                         (* would wait for the peer: not an observable return *)
| OFuel.                           (* model artefact: excluded by ReadProofs.read_no_fuel *)

Inductive tmo := TNone | TBlock | TZero | TPos.   (* timeout=None | -1 (default) | 0 | >0 *)
Record rcfg := mkCfg { timeout : tmo; ack : bool; sync_check : bool }.
Record rstate := mkR { connected : bool; r_sub_all : bool; r_subscribed : list Z }.
Definition disconnected (st : rstate) := mkR false (r_sub_all st) (r_subscribed st).
(* raise ConnectionLost, after `self._connected = False` if the code path has that statement *)
Definition lost (clears : bool) (st : rstate) : rstate := if clears then disconnected st else st.

(* local message definitions: type id -> (type_size, type_hash); the v1 fallback
   `if type_size == -1: type_size = data.size` is folded into the table by the harness *)
Definition deftable := list (Z * (Z * Z)).
Fixpoint lookup (t : Z) (tbl : deftable) : option (Z * Z) :=
  match tbl with [] => None | (k, v) :: r => if t =? k then Some v else lookup t r end.

Definition result := (outcome * rstate * stream)%type.

(* `raw = self._drain(<len>)` followed by `raise <decode error>`.  Client._drain:
       try: raw = self._sock.recv(nbytes, socket.MSG_WAITALL)
       except ConnectionError: self._connected = False; raise ConnectionLost
       if len(raw) != nbytes: self._connected = False; raise ConnectionLost
       return raw
   (a negative length makes recv raise ValueError, which is not a ConnectionError) *)
Definition drain (len : Z) (st : rstate) (s : stream) (k : list Z -> outcome) : result :=
  if len <? 0 then (ORaise EValue, st, s)
  else match recv_waitall (Z.to_nat len) s with
       | RData raw s' => (k raw, st, s')
       | RShort raw s' => if drain_short_checked then (ORaise EConnLost, lost drain_short_disconnects st, s')
                          else (k raw, st, s')
       | RReset s' => (ORaise EConnLost, lost drain_reset_disconnects st, s')
       | RBlock => (OBlocked, st, s)
       end.

(* the select() at the top of _read_message.  None: go on to recv; Some o: return o *)
Definition select_phase (t : tmo) (s : stream) : option outcome :=
  match t with
  | TNone => None
  | TBlock => if readable s then None else Some OBlocked
  | TZero | TPos => if readable s then None else Some ONone
  end.

(* Client._read_message *)
Definition read_raw (tbl : deftable) (cfg : rcfg) (st : rstate) (s : stream) : result :=
  if negb (connected st) then (ORaise ENotConnected, st, s) else
  match select_phase (timeout cfg) s with
  | Some o => (o, st, s)
  | None =>
    match recv_waitall (Z.to_nat HEADER_SIZE) s with
    | RBlock => (OBlocked, st, s)
    | RShort _ s' => (ORaise EConnLost, lost hdr_short_disconnects st, s')   (* nbytes != header.size *)
    | RReset s' => (ORaise EConnLost, lost hdr_reset_disconnects st, s')     (* except ConnectionError *)
    | RData h s1 =>
      let n := hdr_nbytes h in
      match lookup (hdr_type h) tbl with
      | None => drain (drain_len_unknown n) st s1 (fun raw => OUnknown h raw)
      | Some (type_size, type_hash) =>
        if size_guard type_size n then drain (drain_len_size type_size n) st s1 (fun _ => ORaise EBadSize)
        else if version_guard (sync_check cfg) (hdr_version h) type_hash
        then drain (drain_len_version type_size n) st s1 (fun _ => ORaise EBadVersion)
        else if n =? 0 then (OMsg h (repeat 0 (Z.to_nat type_size)), st, s1)
        else match recv_waitall (Z.to_nat type_size) s1 with
             | RData p s2 => (OMsg h p, st, s2)
             | RShort _ s2 => (ORaise EConnLost, lost data_short_disconnects st, s2)
             | RReset s2 => (ORaise EConnLost, lost data_reset_disconnects st, s2)
             | RBlock => (OBlocked, st, s1)
             end
      end
    end
  end.

(* the filter loop of Client.read_message; every iteration that continues has consumed a whole message *)
Fixpoint filter_loop (fuel : nat) (tbl : deftable) (cfg : rcfg) (r : result) : result :=
  match r with
  | (OMsg h p, st, s) =>
    if mem (hdr_type h) (r_subscribed st) then r
    else if ack cfg && (hdr_type h =? MT_ACKNOWLEDGE) then r
    else match timeout cfg with
         | TZero => (ONone, st, s)
         | _ => match fuel with
                | O => (OFuel, st, s)
                | S k => filter_loop k tbl cfg (read_raw tbl cfg st s)
                end
         end
  | _ => r
  end.

(* Client.read_message *)
Definition read (tbl : deftable) (cfg : rcfg) (st : rstate) (s : stream) : result :=
  if negb (connected st) then (ORaise ENotConnected, st, s) else
  let r := read_raw tbl cfg st s in
  let '(_, st1, _) := r in
  if r_sub_all st1 then r else filter_loop (S (length (sbytes s))) tbl cfg r.

(* successive calls, each with its own options and subscription state (subscriptions may change
   between reads); `connected` is carried from call to call *)
Record call := mkCall { c_cfg : rcfg; c_sub_all : bool; c_subscribed : list Z }.
Fixpoint read_many (tbl : deftable) (calls : list call) (conn : bool) (s : stream)
  : list (outcome * bool) * stream :=
  match calls with
  | [] => ([], s)
  | c :: r =>
    let '(o, st', s') := read tbl (c_cfg c) (mkR conn (c_sub_all c) (c_subscribed c)) s in
    let '(os, s'') := read_many tbl r (connected st') s' in
    ((o, connected st') :: os, s'')
  end.

(* ---- frames, for the statements ---- *)
Record frame := mkFrame { fh : list Z; fp : list Z }.
Definition enc (f : frame) : list Z := fh f ++ fp f.
Definition encs (fs : list frame) : list Z := flat_map enc fs.
Definition wf_frame (f : frame) : Prop :=
  length (fh f) = Z.to_nat HEADER_SIZE /\ hdr_nbytes (fh f) = Z.of_nat (length (fp f)).

(* what a frame decodes to under the local definitions *)
Definition classify (tbl : deftable) (sync : bool) (f : frame) : outcome :=
  match lookup (hdr_type (fh f)) tbl with
  | None => OUnknown (fh f) (fp f)
  | Some (type_size, type_hash) =>
    if negb (type_size =? hdr_nbytes (fh f)) then ORaise EBadSize
    else if sync && negb (hdr_version (fh f) =? 0) && negb (hdr_version (fh f) =? type_hash) then ORaise EBadVersion
    else OMsg (fh f) (fp f)
  end.

(* is a decoded message passed to the caller? *)
Definition passes (cfg : rcfg) (st : rstate) (t : Z) : bool :=
  r_sub_all st || mem t (r_subscribed st) || (ack cfg && (t =? MT_ACKNOWLEDGE)).

(* the frame-level meaning of one read_message call on a queue of whole frames:
   Some (outcome, frames left)  |  None: every queued frame was a message that got filtered out *)
Fixpoint spec_read (tbl : deftable) (cfg : rcfg) (st : rstate) (fs : list frame) : option (outcome * list frame) :=
  match fs with
  | [] => None
  | f :: r =>
    match classify tbl (sync_check cfg) f with
    | OMsg h p =>
      if passes cfg st (hdr_type h) then Some (OMsg h p, r)
      else match timeout cfg with TZero => Some (ONone, r) | _ => spec_read tbl cfg st r end
    | o => Some (o, r)
    end
  end.

(* successive calls on a queue of whole frames; None: some call ran off the end of the queue *)
Fixpoint spec_many (tbl : deftable) (calls : list call) (fs : list frame)
  : option (list (outcome * bool) * list frame) :=
  match calls with
  | [] => Some ([], fs)
  | c :: r =>
    match spec_read tbl (c_cfg c) (mkR true (c_sub_all c) (c_subscribed c)) fs with
    | None => None
    | Some (o, fs') =>
      match spec_many tbl r fs' with
      | None => None
      | Some (os, fs'') => Some ((o, true) :: os, fs'')
      end
    end
  end.

(* building concrete headers (examples, witnesses) *)
Definition le_bytes (v : Z) : list Z :=
  let u := v mod 4294967296 in [u mod 256; (u / 256) mod 256; (u / 65536) mod 256; (u / 16777216) mod 256].
Fixpoint set_at (l : list Z) (i : nat) (v : list Z) : list Z :=
  match v with [] => l | b :: r =>
    set_at (firstn i l ++ b :: skipn (S i) l) (S i) r end.
Definition hdr_of (t n ver : Z) : list Z :=
  let h := repeat 0 (Z.to_nat HEADER_SIZE) in
  let h := set_at h (Z.to_nat OFF_MSG_TYPE) (le_bytes t) in
  let h := set_at h (Z.to_nat OFF_NUM_DATA_BYTES) (le_bytes n) in
  set_at h (Z.to_nat OFF_VERSION) (le_bytes ver).
