(* Client subscription API composed with the manager's handling of the emitted control frames,
   for one client (M2 o M1 of DESIGN.md section 5).

   Generated (regenerated from /repo on every run):
     Gen/ClientSub.v  sub_ctrl, subscribe, unsubscribe, pause_subscription, resume_subscription,
                      unsubscribe_from_all, pause_all_subscriptions, resume_all_subscriptions
     Gen/MgrSub.v     mgr_add_subscription, mgr_remove_subscription, ..., mgr_recv
   Hand-written here: the operation type, the composition client -> wire -> manager, the two context
   managers (client.py subscription_context / paused_subscription_context) with CPython's list.remove
   semantics (Lib/PyList.v), the observables `reported` and `delivered`.  Executable, proof-free. *)
From Coq Require Import ZArith List Bool String.
From Cli Require Import Model.SubBase Lib.PyList Gen.ClientSub Gen.MgrSub.
Import ListNotations.
Open Scope Z_scope.

Inductive op :=
| OSub (l : list Z) | OUnsub (l : list Z) | OPause (l : list Z) | OResume (l : list Z)
| OUnsubAll | OPauseAll | OResumeAll.

Definition client_step (c : cstate) (o : op) : sc_result :=
  match o with
  | OSub l => subscribe c l
  | OUnsub l => unsubscribe c l
  | OPause l => pause_subscription c l
  | OResume l => resume_subscription c l
  | OUnsubAll => unsubscribe_from_all c
  | OPauseAll => pause_all_subscriptions c
  | OResumeAll => resume_all_subscriptions c
  end.

(* the manager reads the client's frames in the order they were sent (one TCP connection) *)
Definition mgr_recv_all (m : mstate) (fs : list cframe) : mstate := fold_left mgr_recv fs m.

Record sys := mkS { cl : cstate; mg : mstate }.
Definition sys_init : sys := mkS c_init m_init.

(* one API call, followed by the manager processing everything the call sent *)
Definition sys_step (s : sys) (o : op) : sys * option cexc :=
  match client_step (cl s) o with
  | SOk c' fs => (mkS c' (mgr_recv_all (mg s) fs), None)
  | SRaise e c' => (mkS c' (mg s), Some e)
  end.

Fixpoint run (s : sys) (ops : list op) : sys :=
  match ops with [] => s | o :: r => run (fst (sys_step s o)) r end.

(* ---- observables ---- *)
(* what the client reports: Client.subscribed_types, where {ALL_MESSAGE_TYPES} stands for every type *)
Definition reported (c : cstate) (t : Z) : bool := sub_all c || mem t (subscribed c).
(* what the manager forwards to this module: forward_message iterates
   chain(subscriptions[msg_type], subscriptions[ALL_MESSAGE_TYPES]) *)
Definition delivered (m : mstate) (t : Z) : bool := mem t (memb m) || mem ALL_MESSAGE_TYPES (memb m).

(* ---- context managers (client.py, as repaired by 651ddd8 and aa63f93) ---- *)
Inductive ctx_result :=
| CtxOk (s : sys)                       (* body ran (empty), exit ran *)
| CtxEnterRaised (e : cexc) (s : sys)   (* __enter__ raised: body and exit never run *)
| CtxExitRaised (e : cexc) (s : sys).

(* the entries that survive the filtering loop (remove from msg_list while iterating a copy) *)
Definition sub_ctx_list (c : cstate) (l : list Z) : list Z :=
  copy_remove (fun mt => mem mt (to_set (subscribed c))) l.
Definition pause_ctx_list (c : cstate) (l : list Z) : list Z :=
  copy_remove (fun mt => negb (mem mt (to_set (subscribed c)))) l.

(* run the exit calls in order; the first exception propagates *)
Fixpoint ctx_exit (s : sys) (ops : list op) : sys * option cexc :=
  match ops with
  | [] => (s, None)
  | o :: r => match sys_step s o with
              | (s', Some e) => (s', Some e)
              | (s', None) => ctx_exit s' r
              end
  end.

(* enter ; yield (empty body) ; exit calls.  Also returns the state inside the body. *)
Definition ctx_cycle (enter : op) (exits : list op) (s : sys) : ctx_result * option sys :=
  match sys_step s enter with
  | (s1, Some e) => (CtxEnterRaised e s1, None)
  | (s1, None) =>
    match ctx_exit s1 exits with
    | (s2, Some e) => (CtxExitRaised e s2, Some s1)
    | (s2, None) => (CtxOk s2, Some s1)
    end
  end.

(* subscription_context(msg_list): drop the already subscribed entries; remember which of the rest are
   paused; subscribe(rest) ; yield ; unsubscribe(rest) ; if was_paused: pause_subscription(was_paused) *)
Definition subscription_context (s : sys) (l : list Z) : ctx_result * option sys :=
  let l' := sub_ctx_list (cl s) l in
  let was_paused := filter (fun mt => mem mt (to_set (paused (cl s)))) l' in
  ctx_cycle (OSub l') (OUnsub l' :: match was_paused with [] => [] | _ => [OPause was_paused] end) s.

(* paused_subscription_context(msg_list): drop the entries that are not subscribed;
   pause_subscription(rest) ; yield ; resume_subscription(rest) *)
Definition paused_subscription_context (s : sys) (l : list Z) : ctx_result * option sys :=
  let l' := pause_ctx_list (cl s) l in
  ctx_cycle (OPause l') [OResume l'] s.

(* client-side well-formedness that every reachable state has *)
Definition c_wf (c : cstate) : bool :=
  forallb (fun t => negb (mem t (paused c))) (subscribed c) &&
  negb (mem ALL_MESSAGE_TYPES (paused c)) &&
  (if sub_all c then seteq (subscribed c) [ALL_MESSAGE_TYPES] && seteq (paused c) []
   else negb (mem ALL_MESSAGE_TYPES (subscribed c))).
