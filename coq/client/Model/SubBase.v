(* Base vocabulary shared by the generated files Gen/ClientSub.v, Gen/MgrSub.v and the
   hand-written models: python sets of ints as duplicate-free lists of Z, the client-side
   subscription mirror (Client._subscribed_types / _paused_types / _sub_all, client.py:110-112)
   and the manager-side view of ONE module (Module.subs and the set of types t with
   module in MessageManager.subscriptions[t], manager.py:48,172).  Executable, proof-free. *)
From Coq Require Import ZArith List Bool String.
Import ListNotations.
Open Scope Z_scope.

(* ---- python set[int] as a list (order irrelevant; observed only through mem) ---- *)
Definition mem (x : Z) (s : list Z) : bool := existsb (Z.eqb x) s.
Fixpoint to_set (l : list Z) : list Z :=            (* set(l) *)
  match l with [] => [] | x :: r => if mem x r then to_set r else x :: to_set r end.
Definition set_add (s : list Z) (x : Z) : list Z := if mem x s then s else s ++ [x].     (* s.add(x) *)
Definition set_discard (s : list Z) (x : Z) : list Z := filter (fun y => negb (x =? y)) s. (* s.discard(x) *)
Definition set_union (a b : list Z) : list Z := a ++ filter (fun y => negb (mem y a)) (to_set b). (* a |= b *)
Definition set_diff (a b : list Z) : list Z := filter (fun y => negb (mem y b)) a.        (* a -= b *)
Definition subset (a b : list Z) : bool := forallb (fun x => mem x b) a.
Definition seteq (a b : list Z) : bool := subset a b && subset b a.

(* ---- client side ---- *)
Record cstate := mkC { subscribed : list Z; paused : list Z; sub_all : bool }.
Definition c_init : cstate := mkC [] [] false.
Definition with_subscribed (c : cstate) (s : list Z) := mkC s (paused c) (sub_all c).
Definition with_paused (c : cstate) (s : list Z) := mkC (subscribed c) s (sub_all c).
Definition with_sub_all (c : cstate) (b : bool) := mkC (subscribed c) (paused c) b.

Inductive cexc := EInvalidSubscription | ETypeError.

(* a control frame: (type id of the control message class that is sent, its msg_type field) *)
Definition cframe := (Z * Z)%type.

Inductive sc_result :=
| SOk (c : cstate) (frames : list cframe)
| SRaise (e : cexc) (c : cstate).

(* ---- manager side, one module ---- *)
Record mstate := mkM {
  msubs : list Z;    (* Module.subs *)
  memb  : list Z     (* { t | module in MessageManager.subscriptions[t] } *)
}.
Definition m_init : mstate := mkM [] [].
Definition with_msubs (m : mstate) (s : list Z) := mkM s (memb m).
Definition with_memb (m : mstate) (s : list Z) := mkM (msubs m) s.
