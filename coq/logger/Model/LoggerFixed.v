(* Model of the CURRENT data logger hand-off (pyrtma/data_logger/data_collection.py since commit 510a13f):

     __init__ : self.write_finished.set()                         (the writer is idle: nothing is staged)
     update() : if write: if not self.write_finished.is_set(): warning "Unable to write fast enough."
                          else: next_write = ...; trigger_write()
     stop()   : while not self.write_finished.wait(0.250): pass   (unconditionally; no clear() of either event)

   write_finished is the single token "the writer is at the head of its loop and owns nothing": cleared by
   trigger_write before write_to_disk is set, set by the writer as the LAST operation of a round, after
   write_to_disk.clear().  Everything else (DataSet, formatters, the writer loop, trigger_write) is shared with
   Model/Logger.v, so this file only redefines the three recorder steps that differ from the code before 510a13f
   (whose recorder step `rstep` is kept in Model/Logger.v for the historical record Props/C17Before.v).
   The shape assumed here is located in the source on every run by vlib/gen_logger.py (fail closed).
   Executable, proof-free. *)
From Coq Require Import ZArith List Bool.
From Logr Require Import Gen.LoggerConsts Model.Formats Model.Logger.
Import ListNotations.
Open Scope Z_scope.

Definition initF (cfgs : list cfg) (prog : list op) : state := set_wf (init cfgs prog) true.

Definition rstepF (s : state) : state :=
  match s_rpc s with
  | R_Op =>
    let s' := rstep_op s in
    match s_rpc s' with
    | R_StopIsSet => set_rpc s' R_StopWait        (* stop(): the first switch point is write_finished.wait() *)
    | _ => s'
    end
  | R_UpdIsSet =>                                  (* now: write_finished.is_set() *)
    if s_wf s then
      set_rpc (set_local s (s_prog s) (s_rec s) (s_paused s) (s_acc s) (s_ref s) (s_elapsed s + gen_write_period) (s_now s) (s_session s))
              (match nds s with O => R_TwClearWF | S _ => R_TwStage 0 end)
    else
      set_rpc (mkS (s_ds s) (s_wtd s) (s_wf s) (s_closing s) (s_prog s) (s_rpc s) (s_wpc s) (s_rec s) (s_paused s) (s_acc s)
                   (s_ref s) (s_nextw s) (s_now s) (s_session s) (s_elapsed s) (s_crash s) (S (s_warn s)) (g_arr s) (g_stale s)) R_Op
  | R_StopWait =>                                  (* wait returned: straight on to the data sets *)
    match nds s with
    | O => stop_finish s
    | S _ => set_rpc (set_ds s (upd_nth 0 (fun d => set_stopped d true) (s_ds s))) (R_StopStage 0)
    end
  | _ => rstep s
  end.

Definition stepF (s : state) (t : tid) : state := match t with R => rstepF s | W => wstep s end.

Fixpoint run_fromF (fuel : nat) (s : state) (sched : list tid) : state :=
  match fuel with
  | O => s
  | S k =>
    if crashed s then s else
    match pick s (match sched with t :: _ => t | [] => R end) with
    | Some t => run_fromF k (stepF s t) (tl sched)
    | None => s
    end
  end.

Fixpoint trace_fromF (fuel : nat) (s : state) (sched : list tid) : list tid :=
  match fuel with
  | O => []
  | S k =>
    if crashed s then [] else
    match pick s (match sched with t :: _ => t | [] => R end) with
    | Some t => t :: trace_fromF k (stepF s t) (tl sched)
    | None => []
    end
  end.

Definition runF (cfgs : list cfg) (prog : list op) (sched : list tid) : state :=
  run_fromF (fuel_for cfgs prog sched) (initF cfgs prog) sched.
Definition traceF (cfgs : list cfg) (prog : list op) (sched : list tid) : list tid :=
  trace_fromF (fuel_for cfgs prog sched) (initF cfgs prog) sched.
