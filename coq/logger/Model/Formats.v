(* File formats of the data logger: models of
     pyrtma/data_logger/data_formatter.py   (DataFormatter.write / finalize)
     pyrtma/data_logger/formatters/raw.py, json.py, quicklogger.py
   and of the readers
     raw: split by header.num_data_bytes; json: line-wise; quicklogger: pyrtma/utils/quicklogger_reader.py (QLReader.load).
   Executable, proof-free.  Bytes are Z in [0,256).

   A message carries what the formatters look at: the header bytes (bytes(msg.header)), the payload bytes
   (bytes(msg.data)) and its minified JSON text (msg.to_json(minify=True)); m_id / m_type identify it for the
   logger model (Model/Logger.v), which never looks at the bytes. *)
From Coq Require Import ZArith List Bool.
Import ListNotations.
Open Scope Z_scope.

Record msg := mkMsg { m_id : Z; m_type : Z; m_hdr : list Z; m_data : list Z; m_json : list Z }.
Definition mkM (id ty : Z) : msg := mkMsg id ty [] [] [].

Inductive fmt := FRaw | FJson | FQL.

(* One output file = one formatter object: the history of formatter calls made on it.
   f_writes: the wbuf contents of each formatter.write call (oldest first);
   f_fin:    the wbuf contents of the formatter.finalize call, if it happened;
   f_closed: fd.close() has been called. *)
Record file := mkFile {
  f_session : nat; f_sub : nat;
  f_writes : list (list msg); f_fin : option (list msg); f_closed : bool }.

Definition f_msgs (f : file) : list msg :=
  concat (f_writes f) ++ match f_fin f with Some w => w | None => [] end.

(* ---- little-endian uint32 ------------------------------------------------------------------------- *)
Definition le32 (x : Z) : list Z :=
  [x mod 256; (x / 256) mod 256; (x / 65536) mod 256; (x / 16777216) mod 256].
Definition de32 (l : list Z) : Z :=
  match l with [a; b; c; d] => a + 256 * b + 65536 * c + 16777216 * d | _ => 0 end.

(* MessageHeader: 48 bytes, num_data_bytes (int32) at offset 32 (Gen/LoggerConsts.v is checked against these) *)
Definition HDR : nat := 48.
Definition NDB_OFF : nat := 32.
Definition hdr_ndb (h : list Z) : nat := Z.to_nat (de32 (firstn 4 (skipn NDB_OFF h))).

(* ---- formatter state machine ------------------------------------------------------------------------
   q_fd: the bytes of the output file.  The remaining fields are QLFormatter's bookkeeping
   (ql_header.total_bytes / num_messages / num_data_bytes, self.ofs, self.offsets, self.num_writes,
   the contents of the data temp file). *)
Record fstate := mkSt {
  q_fd : list Z; q_total : Z; q_nmsg : Z; q_ndb : Z; q_ofs : Z;
  q_offsets : list Z; q_nwrites : nat; q_tmp : list Z }.

Definition QLH : nat := 24.   (* sizeof(QLFileHeader): six uint32 *)
Definition ql_header (total nmsg ndb : Z) : list Z :=
  le32 1 ++ le32 total ++ le32 nmsg ++ le32 48 ++ le32 4 ++ le32 ndb.

Definition st_init (k : fmt) : fstate :=
  match k with
  | FQL => mkSt (ql_header 24 0 0) 24 0 0 0 [] 0 []     (* DataFormatter.__init__ writes format_header() *)
  | _ => mkSt [] 0 0 0 0 [] 0 []
  end.

(* DataFormatter.write with QLFormatter.format_message: header bytes appended, counters advanced *)
Fixpoint ql_format (st : fstate) (w : list msg) : fstate :=
  match w with
  | [] => st
  | m :: r =>
    let sz := Z.of_nat (length (m_data m)) in
    ql_format (mkSt (q_fd st ++ m_hdr m) (q_total st + (4 + sz + 48)) (q_nmsg st + 1) (q_ndb st + sz)
                    (q_ofs st + sz) (q_offsets st ++ [q_ofs st]) (q_nwrites st) (q_tmp st)) r
  end.

(* update_file_header: seek(0); write(header); seek(END) *)
Definition ql_set_header (st : fstate) : fstate :=
  mkSt (ql_header (q_total st) (q_nmsg st) (q_ndb st) ++ skipn QLH (q_fd st))
       (q_total st) (q_nmsg st) (q_ndb st) (q_ofs st) (q_offsets st) (q_nwrites st) (q_tmp st).

Definition ql_write (st : fstate) (w : list msg) : fstate :=
  let s1 := ql_set_header (ql_format st w) in
  mkSt (q_fd s1) (q_total s1) (q_nmsg s1) (q_ndb s1) (q_ofs s1) (q_offsets s1)
       (S (q_nwrites s1)) (q_tmp s1 ++ flat_map m_data w).

Definition with_fd (st : fstate) (fd : list Z) : fstate :=
  mkSt fd (q_total st) (q_nmsg st) (q_ndb st) (q_ofs st) (q_offsets st) (q_nwrites st) (q_tmp st).

Definition ql_finalize (st : fstate) (w : list msg) : fstate :=
  match q_nwrites st with
  | O =>      (* single write: headers, header update, offsets, payloads straight into the file *)
    let s1 := ql_set_header (ql_format st w) in
    with_fd s1 (q_fd s1 ++ flat_map le32 (q_offsets s1) ++ flat_map m_data w)
  | S _ =>    (* write(wbuf); write_offsets(); copy_data() *)
    let s1 := ql_write st w in
    with_fd s1 (q_fd s1 ++ flat_map le32 (q_offsets s1) ++ q_tmp s1)
  end.

Definition raw_frame (m : msg) : list Z := m_hdr m ++ m_data m.
Definition json_line (m : msg) : list Z := m_json m ++ [10].

Definition st_write (k : fmt) (st : fstate) (w : list msg) : fstate :=
  match k with
  | FRaw => with_fd st (q_fd st ++ flat_map raw_frame w)
  | FJson => with_fd st (q_fd st ++ flat_map json_line w)
  | FQL => ql_write st w
  end.

Definition st_finalize (k : fmt) (st : fstate) (w : list msg) : fstate :=
  match k with
  | FQL => ql_finalize st w
  | _ => st_write k st w           (* base class: write(wbuf); no footer *)
  end.

(* the bytes of a file, as a function of the formatter calls made on it *)
Definition render (k : fmt) (f : file) : list Z :=
  let s := fold_left (st_write k) (f_writes f) (st_init k) in
  q_fd (match f_fin f with Some w => st_finalize k s w | None => s end).

(* ---- readers ------------------------------------------------------------------------------------------ *)
(* raw: repeatedly read a header, then header.num_data_bytes payload bytes *)
Fixpoint raw_read (fuel : nat) (bs : list Z) : option (list (list Z * list Z)) :=
  match fuel with
  | O => None
  | S k =>
    match bs with
    | [] => Some []
    | _ =>
      if (length bs <? HDR)%nat then None else
      let h := firstn HDR bs in
      let n := hdr_ndb h in
      let rest := skipn HDR bs in
      if (length rest <? n)%nat then None else
      match raw_read k (skipn n rest) with
      | Some r => Some ((h, firstn n rest) :: r)
      | None => None
      end
    end
  end.
Definition read_raw (bs : list Z) : option (list (list Z * list Z)) := raw_read (S (length bs)) bs.

(* json: every line is terminated by "\n" (byte 10) *)
Fixpoint split_lines (cur : list Z) (bs : list Z) : option (list (list Z)) :=
  match bs with
  | [] => match cur with [] => Some [] | _ => None end
  | b :: r =>
    if b =? 10 then match split_lines [] r with Some l => Some (rev cur :: l) | None => None end
    else split_lines (b :: cur) r
  end.
Definition read_json (bs : list Z) : option (list (list Z)) := split_lines [] bs.

(* quicklogger: QLReader.load *)
Fixpoint chunks (sz n : nat) (bs : list Z) : list (list Z) :=
  match n with O => [] | S k => firstn sz bs :: chunks sz k (skipn sz bs) end.

Definition read_ql (bs : list Z) : option (list (list Z * list Z)) :=
  if (length bs <? QLH)%nat then None else
  let nmsg := Z.to_nat (de32 (firstn 4 (skipn 8 bs))) in
  let hs := Z.to_nat (de32 (firstn 4 (skipn 12 bs))) in
  let body := skipn QLH bs in
  if (length body <? hs * nmsg + 4 * nmsg)%nat then None else
  let hdrs := chunks hs nmsg body in
  let rest := skipn (hs * nmsg) body in
  let offs := map de32 (chunks 4 nmsg rest) in
  let d := skipn (4 * nmsg) rest in
  let out := map (fun ho => (fst ho, firstn (hdr_ndb (fst ho)) (skipn (Z.to_nat (snd ho)) d))) (combine hdrs offs) in
  if forallb (fun hd => (length (snd hd) =? hdr_ndb (fst hd))%nat) out then Some out else None.

(* header fields of a quicklogger file *)
Definition ql_field (i : nat) (bs : list Z) : Z := de32 (firstn 4 (skipn (4 * i) bs)).

Definition observe (m : msg) : list Z * list Z := (m_hdr m, m_data m).
