(* Two-thread small-step model of the data logger
     pyrtma/data_logger/data_collection.py  (DataCollection: start/stop/pause/resume/update/trigger_write/write/close)
     pyrtma/data_logger/data_set.py         (DataSet: start/stop/close/stage_for_write/write/subdivide)
   Executable, proof-free.

   This file holds everything the two versions of the hand-off share (data sets, buffers as references, files, program
   counters, recorder operations, trigger_write, the writer loop `wstep`, scheduling) and, in `rstep` / `step` / `run`,
   the recorder's side of the hand-off AS IT WAS BEFORE commit 510a13f (historical: Props/C17Before.v).
   The CURRENT code is Model/LoggerFixed.v (`rstepF` / `stepF` / `runF`), which redefines the three recorder steps that
   510a13f changed and reuses the rest.

   Threads: R = the recording thread (executes a program of operations and finally close()),
            W = the collection's writer thread (DataCollection.write).
   Atomic step = from one switch point to the next.  Switch points are, on entry (before the operation):
     Event.is_set/set/clear/wait, Thread.join, DataSet.stage_for_write, DataSet.write,
     the outermost formatter.write / formatter.finalize, and the start of every recorder operation.
   A schedule is a list of thread ids; `run cfgs prog sched` executes it (the thread named by the schedule runs
   if it is enabled, otherwise the other one; after the schedule is used up R is preferred).

   rbuf / wbuf are REFERENCES into a per-data-set heap of list objects: stage_for_write rebinds
   (wbuf = rbuf; rbuf = []), DataSet.write calls formatter.write(self.wbuf) - the argument is bound when the
   call is made - and then self.wbuf.clear() on whatever object is bound at that later moment.

   Fields prefixed g_ are ghost (instrumentation for the specification; no step reads them). *)
From Coq Require Import ZArith List Bool.
From Logr Require Import Gen.LoggerConsts Model.Formats.
Import ListNotations.
Open Scope Z_scope.

Inductive tid := R | W.
Definition tid_eqb (a b : tid) : bool := match a, b with R, R | W, W => true | _, _ => false end.
Definition other (t : tid) : tid := match t with R => W | W => R end.

(* recorder program; Upd None = update(None) (DataLogger.run calls update on every read timeout) *)
Inductive op := Start | Stop | Pause | Resume | Tick (dt : Z) | Upd (m : option msg).

(* ---- data set ------------------------------------------------------------------------------------------ *)
Record cfg := mkCfg { c_fmt : fmt; c_all : bool; c_types : list Z; c_interval : option Z (* None = CONTINUOUS (inf) *) }.

(* DataSet.__init__: clamping of subdivide_interval, msg_types filter, all_sub *)
Definition clamp_interval (iv : Z) : option Z :=
  if iv <=? 0 then None
  else if iv <? gen_min_interval then Some gen_min_interval
  else if gen_max_interval <? iv then Some gen_max_interval
  else Some iv.
Definition mk_cfg (k : fmt) (iv : Z) (types : list Z) : cfg :=
  mkCfg k (existsb (Z.eqb gen_all_message_types) types) (filter (fun t => 0 <? t) types) (clamp_interval iv).

Definition selects (c : cfg) (m : msg) : bool := c_all c || existsb (Z.eqb (m_type m)) (c_types c).

Definition heap := nat -> list msg.
Definition hset (h : heap) (r : nat) (v : list msg) : heap := fun x => if Nat.eqb x r then v else h x.

Record dstate := mkD {
  d_cfg : cfg;
  d_heap : heap; d_hnext : nat;      (* list objects of this data set; next fresh reference *)
  d_rbuf : nat; d_wbuf : nat;        (* self.rbuf, self.wbuf : references *)
  d_flag : bool;                     (* subdivide_flag *)
  d_next : option Z;                 (* next_subdivide (None = inf) *)
  d_stopped : bool;                  (* collection_stopped *)
  d_sub : nat;                       (* sub_index *)
  d_sess : nat;                      (* directory of file_path: the session of the last start() *)
  d_files : list file;               (* every file ever opened for this data set, in creation order *)
  d_cur : nat                        (* index in d_files of self.formatter / self.fd *)
}.

Definition d_init (c : cfg) : dstate :=
  mkD c (fun _ => []) 2 0 1 false None false 0 0 [] 0.

Definition set_heap (d : dstate) (h : heap) : dstate :=
  mkD (d_cfg d) h (d_hnext d) (d_rbuf d) (d_wbuf d) (d_flag d) (d_next d) (d_stopped d) (d_sub d) (d_sess d) (d_files d) (d_cur d).
Definition set_files (d : dstate) (fs : list file) : dstate :=
  mkD (d_cfg d) (d_heap d) (d_hnext d) (d_rbuf d) (d_wbuf d) (d_flag d) (d_next d) (d_stopped d) (d_sub d) (d_sess d) fs (d_cur d).
Definition set_stopped (d : dstate) (b : bool) : dstate :=
  mkD (d_cfg d) (d_heap d) (d_hnext d) (d_rbuf d) (d_wbuf d) (d_flag d) (d_next d) b (d_sub d) (d_sess d) (d_files d) (d_cur d).

Fixpoint upd_nth {A} (n : nat) (f : A -> A) (l : list A) : list A :=
  match l, n with
  | [], _ => []
  | x :: r, O => f x :: r
  | x :: r, S k => x :: upd_nth k f r
  end.

(* rbuf.append(msg) if selected *)
Definition ds_append (m : msg) (d : dstate) : dstate :=
  if selects (d_cfg d) m then set_heap d (hset (d_heap d) (d_rbuf d) (d_heap d (d_rbuf d) ++ [m])) else d.

(* stage_for_write: self.wbuf = self.rbuf; self.rbuf = [] *)
Definition ds_stage (d : dstate) : dstate :=
  mkD (d_cfg d) (hset (d_heap d) (d_hnext d) []) (S (d_hnext d)) (d_hnext d) (d_rbuf d)
      (d_flag d) (d_next d) (d_stopped d) (d_sub d) (d_sess d) (d_files d) (d_cur d).

Definition close_file (f : file) : file := mkFile (f_session f) (f_sub f) (f_writes f) (f_fin f) true.
(* ds.close() / `if self.fd: self.fd.close()` : closes the current fd (closing twice is harmless) *)
Definition ds_close (d : dstate) : dstate := set_files d (upd_nth (d_cur d) close_file (d_files d)).

(* formatter.write / finalize on file object number fi; None = ValueError: I/O operation on closed file
   (a finalized formatter always has its fd closed within the same atomic step) *)
Definition file_write (f : file) (w : list msg) : option file :=
  if f_closed f then None else
  match f_fin f with Some _ => None | None => Some (mkFile (f_session f) (f_sub f) (f_writes f ++ [w]) None false) end.
Definition file_final (f : file) (w : list msg) : option file :=
  if f_closed f then None else
  match f_fin f with Some _ => None | None => Some (mkFile (f_session f) (f_sub f) (f_writes f) (Some w) false) end.

Definition ds_fwrite (d : dstate) (fi : nat) (w : list msg) : option dstate :=
  match nth_error (d_files d) fi with
  | None => None
  | Some f => match file_write f w with None => None | Some f' => Some (set_files d (upd_nth fi (fun _ => f') (d_files d))) end
  end.
Definition ds_ffinal (d : dstate) (fi : nat) (w : list msg) : option dstate :=
  match nth_error (d_files d) fi with
  | None => None
  | Some f => match file_final f w with None => None | Some f' => Some (set_files d (upd_nth fi (fun _ => f') (d_files d))) end
  end.

(* open a new file (new formatter object) and make it current *)
Definition ds_open (d : dstate) (sess sub : nat) : dstate :=
  mkD (d_cfg d) (d_heap d) (d_hnext d) (d_rbuf d) (d_wbuf d) (d_flag d) (d_next d) (d_stopped d) sub sess
      (d_files d ++ [mkFile sess sub [] None false]) (length (d_files d)).

(* DataSet.start *)
Definition ds_start (sess : nat) (d : dstate) : dstate :=
  let d1 := ds_open d sess 0 in
  mkD (d_cfg d1) (d_heap d1) (d_hnext d1) (d_rbuf d1) (d_wbuf d1) false (c_interval (d_cfg d1)) false 0 sess
      (d_files d1) (d_cur d1).

(* the per-data-set part of update(): append if selected; subdivision deadline *)
Definition gt_opt (e : Z) (n : option Z) : bool := match n with Some x => x <? e | None => false end.
Definition ds_update (m : option msg) (elapsed : Z) (d : dstate) : dstate :=
  let d1 := match m with Some x => ds_append x d | None => d end in
  if gt_opt elapsed (d_next d1) then
    mkD (d_cfg d1) (d_heap d1) (d_hnext d1) (d_rbuf d1) (d_wbuf d1) true
        (match c_interval (d_cfg d1) with Some iv => Some (elapsed + iv) | None => None end)
        (d_stopped d1) (d_sub d1) (d_sess d1) (d_files d1) (d_cur d1)
  else d1.

(* ---- program counters ------------------------------------------------------------------------------------ *)
Inductive rpc :=
| R_Op                       (* at the start of the next program operation (or of close() when the program is used up) *)
| R_UpdIsSet                 (* update(): about to evaluate write_to_disk.is_set() *)
| R_TwStage (i : nat)        (* trigger_write: about to call datasets[i].stage_for_write() *)
| R_TwClearWF                (* about to write_finished.clear() *)
| R_TwSetWTD                 (* about to write_to_disk.set() *)
| R_StopIsSet                (* stop(): about to evaluate write_to_disk.is_set() *)
| R_StopWait                 (* blocked in write_finished.wait() *)
| R_StopClearWTD | R_StopClearWF
| R_StopStage (i : nat)      (* datasets[i].stop(): about to stage_for_write() *)
| R_StopFinal (i fi b : nat) (* about to run formatter.finalize(wbuf): formatter = file fi, wbuf = object b (already bound) *)
| R_Join                     (* close(): write_thread.join() *)
| R_Done.

Inductive wpc :=
| W_Wait                     (* write_to_disk.wait(0.5): enabled when the flag is set, or when closing *)
| W_DsWrite (i : nat)        (* about to call datasets[i].write() *)
| W_FmtWrite (i fi b : nat)  (* about to run formatter.write(wbuf): formatter = file fi, wbuf = object b (already bound) *)
| W_SubFinal (i fi b : nat)  (* subdivide(): about to run formatter.finalize(wbuf) *)
| W_ClearWTD | W_SetWF
| W_Done.

Record state := mkS {
  s_ds : list dstate;
  s_wtd : bool; s_wf : bool;       (* write_to_disk, write_finished *)
  s_closing : bool;                (* _close *)
  s_prog : list op; s_rpc : rpc; s_wpc : wpc;
  s_rec : bool; s_paused : bool;   (* _recording, _paused *)
  s_acc : Z; s_ref : Z;            (* _elapsed_time, ref_time *)
  s_nextw : Z;                     (* next_write *)
  s_now : Z;                       (* time.time() *)
  s_session : nat;                 (* number of start() calls so far (names the save directory) *)
  s_elapsed : Z;                   (* local `elapsed` of update() *)
  s_crash : option tid;            (* a Python exception escaped in that thread *)
  s_warn : nat;                    (* number of "Unable to write fast enough." warnings *)
  g_arr : list (nat * msg);        (* ghost: messages handed to update() while recording and not paused, with session *)
  g_stale : bool                   (* ghost: the writer executed write_finished.set() after the recorder's
                                      write_finished.clear() of a NEWER trigger_write (stale "finished") *)
}.

Definition init (cfgs : list cfg) (prog : list op) : state :=
  mkS (map d_init cfgs) false false false prog R_Op W_Wait false false 0 (-1) (-1) 1000 0 0 None 0 [] false.

(* record updates *)
Definition set_rpc (s : state) (p : rpc) : state :=
  mkS (s_ds s) (s_wtd s) (s_wf s) (s_closing s) (s_prog s) p (s_wpc s) (s_rec s) (s_paused s) (s_acc s) (s_ref s)
      (s_nextw s) (s_now s) (s_session s) (s_elapsed s) (s_crash s) (s_warn s) (g_arr s) (g_stale s).
Definition set_wpc (s : state) (p : wpc) : state :=
  mkS (s_ds s) (s_wtd s) (s_wf s) (s_closing s) (s_prog s) (s_rpc s) p (s_rec s) (s_paused s) (s_acc s) (s_ref s)
      (s_nextw s) (s_now s) (s_session s) (s_elapsed s) (s_crash s) (s_warn s) (g_arr s) (g_stale s).
Definition set_ds (s : state) (ds : list dstate) : state :=
  mkS ds (s_wtd s) (s_wf s) (s_closing s) (s_prog s) (s_rpc s) (s_wpc s) (s_rec s) (s_paused s) (s_acc s) (s_ref s)
      (s_nextw s) (s_now s) (s_session s) (s_elapsed s) (s_crash s) (s_warn s) (g_arr s) (g_stale s).
Definition set_wtd (s : state) (b : bool) : state :=
  mkS (s_ds s) b (s_wf s) (s_closing s) (s_prog s) (s_rpc s) (s_wpc s) (s_rec s) (s_paused s) (s_acc s) (s_ref s)
      (s_nextw s) (s_now s) (s_session s) (s_elapsed s) (s_crash s) (s_warn s) (g_arr s) (g_stale s).
Definition set_wf (s : state) (b : bool) : state :=
  mkS (s_ds s) (s_wtd s) b (s_closing s) (s_prog s) (s_rpc s) (s_wpc s) (s_rec s) (s_paused s) (s_acc s) (s_ref s)
      (s_nextw s) (s_now s) (s_session s) (s_elapsed s) (s_crash s) (s_warn s) (g_arr s) (g_stale s).
Definition set_crash (s : state) (t : tid) : state :=
  mkS (s_ds s) (s_wtd s) (s_wf s) (s_closing s) (s_prog s) (s_rpc s) (s_wpc s) (s_rec s) (s_paused s) (s_acc s) (s_ref s)
      (s_nextw s) (s_now s) (s_session s) (s_elapsed s) (Some t) (s_warn s) (g_arr s) (g_stale s).
Definition set_stale (s : state) (b : bool) : state :=
  mkS (s_ds s) (s_wtd s) (s_wf s) (s_closing s) (s_prog s) (s_rpc s) (s_wpc s) (s_rec s) (s_paused s) (s_acc s) (s_ref s)
      (s_nextw s) (s_now s) (s_session s) (s_elapsed s) (s_crash s) (s_warn s) (g_arr s) b.
(* the recorder-private fields *)
Definition set_local (s : state) (prog : list op) (rec paused : bool) (acc ref nextw now : Z) (sess : nat) : state :=
  mkS (s_ds s) (s_wtd s) (s_wf s) (s_closing s) prog (s_rpc s) (s_wpc s) rec paused acc ref
      nextw now sess (s_elapsed s) (s_crash s) (s_warn s) (g_arr s) (g_stale s).
Definition set_prog (s : state) (prog : list op) : state :=
  set_local s prog (s_rec s) (s_paused s) (s_acc s) (s_ref s) (s_nextw s) (s_now s) (s_session s).

Definition nds (s : state) : nat := length (s_ds s).

(* ---- recorder -------------------------------------------------------------------------------------------- *)
(* DataCollection.elapsed_time *)
Definition elapsed_time (s : state) : Z :=
  if negb (s_rec s) then 0 else if s_paused s then s_acc s else s_acc s + (s_now s - s_ref s).

(* the end of stop(): bookkeeping after the last data set was closed *)
Definition stop_finish (s : state) : state :=
  set_rpc (set_local s (s_prog s) false false (s_acc s) (-1) (-1) (s_now s) (s_session s)) R_Op.

(* after datasets[i] has been stopped and closed: next data set (collection_stopped = True first) or finish *)
Definition stop_next (s : state) (i : nat) : state :=
  if (S i <? nds s)%nat then
    set_rpc (set_ds s (upd_nth (S i) (fun d => set_stopped d true) (s_ds s))) (R_StopStage (S i))
  else stop_finish s.

Definition rstep_op (s : state) : state :=
  match s_prog s with
  | [] =>       (* close(): self._close = True; then join *)
    set_rpc (mkS (s_ds s) (s_wtd s) (s_wf s) true (s_prog s) (s_rpc s) (s_wpc s) (s_rec s) (s_paused s) (s_acc s)
                 (s_ref s) (s_nextw s) (s_now s) (s_session s) (s_elapsed s) (s_crash s) (s_warn s) (g_arr s) (g_stale s)) R_Join
  | o :: rest =>
    let s0 := set_prog s rest in
    match o with
    | Tick dt => set_local s0 rest (s_rec s) (s_paused s) (s_acc s) (s_ref s) (s_nextw s) (s_now s + dt) (s_session s)
    | Pause => set_local s0 rest (s_rec s) true (elapsed_time s) (s_ref s) (s_nextw s) (s_now s) (s_session s)
    | Resume => set_local s0 rest (s_rec s) false (s_acc s) (s_now s) (s_nextw s) (s_now s) (s_session s)
    | Start =>
      if s_rec s then s0      (* DataLogger.start_logging refuses while recording *)
      else
        let sess := S (s_session s) in
        set_ds (set_local s0 rest true false (s_acc s) (s_now s) gen_write_period (s_now s) sess)
               (map (ds_start sess) (s_ds s))
    | Stop =>
      if s_rec s then set_rpc s0 R_StopIsSet else s0     (* DataLogger.stop_logging ignores stop while not recording *)
    | Upd m =>
      if s_paused s || negb (s_rec s) then s0 else
      let elapsed := s_acc s + (s_now s - s_ref s) in
      let ds' := map (ds_update m elapsed) (s_ds s) in
      let write := existsb (fun d => gt_opt elapsed (d_next d)) (s_ds s) || (s_nextw s <? elapsed) in
      let arr := match m with Some x => g_arr s ++ [(s_session s, x)] | None => g_arr s end in
      mkS ds' (s_wtd s) (s_wf s) (s_closing s) rest (if write then R_UpdIsSet else R_Op) (s_wpc s) (s_rec s) (s_paused s)
          (s_acc s) (s_ref s) (s_nextw s) (s_now s) (s_session s) elapsed (s_crash s) (s_warn s) arr (g_stale s)
    end
  end.

Definition crash_or (t : tid) (s : state) (o : option state) : state :=
  match o with Some s' => s' | None => set_crash s t end.

Definition rstep (s : state) : state :=
  match s_rpc s with
  | R_Op => rstep_op s
  | R_UpdIsSet =>
    if s_wtd s then
      set_rpc (mkS (s_ds s) (s_wtd s) (s_wf s) (s_closing s) (s_prog s) (s_rpc s) (s_wpc s) (s_rec s) (s_paused s) (s_acc s)
                   (s_ref s) (s_nextw s) (s_now s) (s_session s) (s_elapsed s) (s_crash s) (S (s_warn s)) (g_arr s) (g_stale s)) R_Op
    else
      set_rpc (set_local s (s_prog s) (s_rec s) (s_paused s) (s_acc s) (s_ref s) (s_elapsed s + gen_write_period) (s_now s) (s_session s))
              (match nds s with O => R_TwClearWF | S _ => R_TwStage 0 end)
  | R_TwStage i =>
    set_rpc (set_ds s (upd_nth i ds_stage (s_ds s))) (if (S i <? nds s)%nat then R_TwStage (S i) else R_TwClearWF)
  | R_TwClearWF => set_rpc (set_wf s false) R_TwSetWTD
  | R_TwSetWTD => set_rpc (set_wtd s true) R_Op
  | R_StopIsSet => set_rpc s (if s_wtd s then R_StopWait else R_StopClearWTD)
  | R_StopWait => set_rpc s R_StopClearWTD
  | R_StopClearWTD => set_rpc (set_wtd s false) R_StopClearWF
  | R_StopClearWF =>
    let s1 := set_wf s false in
    match nds s with
    | O => stop_finish s1
    | S _ => set_rpc (set_ds s1 (upd_nth 0 (fun d => set_stopped d true) (s_ds s1))) (R_StopStage 0)
    end
  | R_StopStage i =>
    let ds' := upd_nth i ds_stage (s_ds s) in
    match nth_error ds' i with
    | Some d => set_rpc (set_ds s ds') (R_StopFinal i (d_cur d) (d_wbuf d))
    | None => set_crash s R
    end
  | R_StopFinal i fi b =>
    match nth_error (s_ds s) i with
    | None => set_crash s R
    | Some d =>
      match ds_ffinal d fi (d_heap d b) with
      | None => set_crash s R
      | Some d1 => stop_next (set_ds s (upd_nth i (fun _ => ds_close d1) (s_ds s))) i
      end
    end
  | R_Join => set_rpc (set_ds s (map ds_close (s_ds s))) R_Done
  | R_Done => s
  end.

(* ---- writer ---------------------------------------------------------------------------------------------- *)
Definition wnext (s : state) (i : nat) : state :=
  set_wpc s (if (S i <? nds s)%nat then W_DsWrite (S i) else W_ClearWTD).

Definition is_TwSetWTD (p : rpc) : bool := match p with R_TwSetWTD => true | _ => false end.

Definition wstep (s : state) : state :=
  match s_wpc s with
  | W_Wait =>
    if s_wtd s then set_wpc s (match nds s with O => W_ClearWTD | S _ => W_DsWrite 0 end)
    else set_wpc s W_Done          (* timed out while closing: `while not self._close` ends *)
  | W_DsWrite i =>
    match nth_error (s_ds s) i with
    | Some d => set_wpc s (W_FmtWrite i (d_cur d) (d_wbuf d))     (* self.formatter.write(self.wbuf): both evaluated now *)
    | None => set_crash s W
    end
  | W_FmtWrite i fi b =>
    match nth_error (s_ds s) i with
    | None => set_crash s W
    | Some d =>
      match ds_fwrite d fi (d_heap d b) with
      | None => set_crash s W
      | Some d1 =>
        let d2 := set_heap d1 (hset (d_heap d1) (d_wbuf d1) []) in      (* self.wbuf.clear(): the object bound NOW *)
        if negb (d_stopped d2) && d_flag d2 then
          let d3 := mkD (d_cfg d2) (d_heap d2) (d_hnext d2) (d_rbuf d2) (d_wbuf d2) false (d_next d2) (d_stopped d2)
                        (S (d_sub d2)) (d_sess d2) (d_files d2) (d_cur d2) in
          set_wpc (set_ds s (upd_nth i (fun _ => d3) (s_ds s))) (W_SubFinal i (d_cur d3) (d_wbuf d3))
        else wnext (set_ds s (upd_nth i (fun _ => d2) (s_ds s))) i
      end
    end
  | W_SubFinal i fi b =>
    match nth_error (s_ds s) i with
    | None => set_crash s W
    | Some d =>
      match ds_ffinal d fi (d_heap d b) with
      | None => set_crash s W
      | Some d1 =>
        let d2 := ds_open (ds_close d1) (d_sess d1) (d_sub d1) in
        wnext (set_ds s (upd_nth i (fun _ => d2) (s_ds s))) i
      end
    end
  | W_ClearWTD => set_wpc (set_wtd s false) W_SetWF
  | W_SetWF =>
    let stale := g_stale s || s_wtd s || is_TwSetWTD (s_rpc s) in
    set_wpc (set_stale (set_wf s true) stale) (if s_closing s then W_Done else W_Wait)
  | W_Done => s
  end.

(* ---- scheduling ------------------------------------------------------------------------------------------ *)
Definition enabled (s : state) (t : tid) : bool :=
  match t with
  | R => match s_rpc s with
         | R_StopWait => s_wf s
         | R_Join => match s_wpc s with W_Done => true | _ => false end
         | R_Done => false
         | _ => true
         end
  | W => match s_wpc s with
         | W_Wait => s_wtd s || s_closing s
         | W_Done => false
         | _ => true
         end
  end.

Definition step (s : state) (t : tid) : state := match t with R => rstep s | W => wstep s end.

Definition crashed (s : state) : bool := match s_crash s with Some _ => true | None => false end.

(* who runs next, given the schedule entry *)
Definition pick (s : state) (want : tid) : option tid :=
  if enabled s want then Some want else if enabled s (other want) then Some (other want) else None.

Fixpoint run_from (fuel : nat) (s : state) (sched : list tid) : state :=
  match fuel with
  | O => s
  | S k =>
    if crashed s then s else
    match pick s (match sched with t :: _ => t | [] => R end) with
    | Some t => run_from k (step s t) (tl sched)
    | None => s
    end
  end.

Definition fuel_for (cfgs : list cfg) (prog : list op) (sched : list tid) : nat :=
  length sched + (length prog + 3) * (6 * length cfgs + 16).

Definition run (cfgs : list cfg) (prog : list op) (sched : list tid) : state :=
  run_from (fuel_for cfgs prog sched) (init cfgs prog) sched.

(* the threads actually run, in order (compared with the trace of the real scheduler) *)
Fixpoint trace_from (fuel : nat) (s : state) (sched : list tid) : list tid :=
  match fuel with
  | O => []
  | S k =>
    if crashed s then [] else
    match pick s (match sched with t :: _ => t | [] => R end) with
    | Some t => t :: trace_from k (step s t) (tl sched)
    | None => []
    end
  end.
Definition trace (cfgs : list cfg) (prog : list op) (sched : list tid) : list tid :=
  trace_from (fuel_for cfgs prog sched) (init cfgs prog) sched.

(* "sequential hand-off": no recorder step is scheduled while the writer is between write_to_disk.clear() and
   write_finished.set() *)
Definition in_window (s : state) : bool := match s_wpc s with W_SetWF => true | _ => false end.
Fixpoint window_free_from (fuel : nat) (s : state) (sched : list tid) : bool :=
  match fuel with
  | O => true
  | S k =>
    if crashed s then true else
    match pick s (match sched with t :: _ => t | [] => R end) with
    | Some t => negb (in_window s && tid_eqb t R) && window_free_from k (step s t) (tl sched)
    | None => true
    end
  end.

Definition finished (s : state) : bool :=
  match s_rpc s, s_wpc s with R_Done, W_Done => true | _, _ => false end.

(* ---- observables ---------------------------------------------------------------------------------------- *)
(* what the data set wrote, over all its sub-files in creation order, tagged with the session directory *)
Definition written (d : dstate) : list (nat * msg) :=
  flat_map (fun f => map (pair (f_session f)) (f_msgs f)) (d_files d).
(* what it should have written *)
Definition expected (c : cfg) (arr : list (nat * msg)) : list (nat * msg) :=
  filter (fun sm => selects c (snd sm)) arr.

Definition ids (l : list (nat * msg)) : list (Z * Z) := map (fun sm => (Z.of_nat (fst sm), m_id (snd sm))) l.
