(* C17 for the REPAIRED hand-off (Model/LoggerFixed.v = the current code with fixes/C17_stale_write_finished.diff
   applied): the full statement of C17 holds for every configuration, every recorder program, EVERY schedule and every
   number of steps - no exclusion.  Proofs live in Proofs/LoggerFixedInv.v. *)
From Coq Require Import ZArith List Bool Lia.
From Logr Require Import Gen.LoggerConsts Model.Formats Model.Logger Model.LoggerFixed.
From Logr Require Import Proofs.LoggerData Proofs.LoggerInv Proofs.LoggerRun Proofs.LoggerFixedInv.
Import ListNotations.
Open Scope Z_scope.

Theorem C17_fixed_holds : forall cfgs prog sched fuel,
  let s := run_fromF fuel (initF cfgs prog) sched in
  s_crash s = None /\ map d_cfg (s_ds s) = cfgs /\
  forall j d, nth_error (s_ds s) j = Some d ->
    nothing_lost s d /\
    (s_rec s = false -> written d = expected (d_cfg d) (g_arr s) /\ files_complete d).
Proof.
  intros cfgs prog sched fuel s.
  pose proof (run_fromF_inv fuel (initF cfgs prog) sched (InvF_init cfgs prog)) as HF. fold s in HF.
  pose proof (F_inv s HF) as HI.
  split; [exact (I_crash s HI)|]. split; [unfold s; rewrite run_fromF_cfgs; apply initF_cfgs|].
  intros j d Hj. split; [exact (Inv_nothing_lost s j d HI Hj)|].
  intros Hrec. exact (Inv_complete s j d HI Hrec Hj).
Qed.

(* the token discipline: write_finished set <=> the writer is idle at the head of its loop and write_to_disk is clear;
   in particular the stale "finished" of the current code cannot arise *)
Theorem C17_fixed_token : forall cfgs prog sched fuel,
  let s := run_fromF fuel (initF cfgs prog) sched in
  g_stale s = false /\ (s_wf s = true -> s_wtd s = false /\ (s_wpc s = W_Wait \/ s_wpc s = W_Done)).
Proof.
  intros cfgs prog sched fuel s.
  pose proof (run_fromF_inv fuel (initF cfgs prog) sched (InvF_init cfgs prog)) as HF. fold s in HF.
  split; [exact (F_stale s HF)|]. intros H. destruct (F_G1 s HF H) as (A & B). split; [exact A|].
  destruct (s_wpc s); simpl in B; try discriminate; auto.
Qed.

(* the schedules that break the current code are harmless for the repaired one *)
Definition wit_cfgs : list cfg := [mk_cfg FRaw 0 [gen_all_message_types]].
Definition wit_prog : list op :=
  [Start; Tick 16; Upd (Some (mkM 1 1001)); Tick 16; Upd (Some (mkM 2 1001)); Upd (Some (mkM 3 1001)); Stop].
Definition wit_loss : list tid :=
  [R; R; R; R; R; R; R; W; W; W; W; R; R; R; R; R; R; R; R; R; W; R; R; R; R; R; R; W; R].

Example C17_fixed_on_witness :
  let s := runF wit_cfgs wit_prog wit_loss in
  finished s = true /\ s_rec s = false /\
  map (fun d => ids (written d)) (s_ds s) = [[(1, 1); (1, 2); (1, 3)]].
Proof. vm_compute. repeat split; reflexivity. Qed.
