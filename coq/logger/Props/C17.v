(* C17 - The data logger loses, duplicates and reorders nothing; files are complete after stop.
   Property theorems only; proofs live in Proofs/*.v.
   Models: Model/Logger.v (two-thread small-step model of DataCollection / DataSet, CURRENT code),
           Model/Formats.v (raw / json-lines / quicklogger formatters and readers),
           Gen/LoggerConsts.v (regenerated from /repo on every run).
   The repaired hand-off is modelled in Model/LoggerFixed.v and proved for ALL schedules in Props/C17Fixed.v.

   FULL STATEMENT (what C17 asks for; it is FALSE of the current code, see C17_refuted):

     Theorem C17_holds : forall cfgs prog sched fuel,
       let s := run_from fuel (init cfgs prog) sched in
       s_crash s = None /\ map d_cfg (s_ds s) = cfgs /\
       forall j d, nth_error (s_ds s) j = Some d ->
         nothing_lost s d /\
         (s_rec s = false -> written d = expected (d_cfg d) (g_arr s) /\ files_complete d).

   where, for a data set d in state s,
     written d            = concatenation over its sub-files (creation order) of the messages written, tagged with the
                            session directory;
     expected c (g_arr s) = the messages handed to update() while recording and not paused (ghost log g_arr, tagged
                            with the session), filtered by the data set's selection c, in arrival order;
     nothing_lost s d     = written d ++ (staged buffer, if not yet written) ++ rbuf = expected ... (no loss, no
                            duplicate, no reordering, at every point of every execution);
     files_complete d     = every file has been finalised and closed.

   What is proved about the current code is C17_partial: the same statement for every program, every schedule and every
   fuel PROVIDED the ghost flag g_stale is false at the end, i.e. the writer never executed write_finished.set() after
   the recorder's write_finished.clear() of a newer trigger_write.  g_stale is a boolean computed by `run` itself
   (decidable exclusion); C17_refuted shows that the exclusion is necessary. *)
From Coq Require Import ZArith List Bool Lia.
From Logr Require Import Gen.LoggerConsts Model.Formats Model.Logger.
From Logr Require Import Proofs.LoggerData Proofs.LoggerInv Proofs.LoggerRun Proofs.LoggerWindow Proofs.FormatsProofs.
Import ListNotations.
Open Scope Z_scope.

(* the layout constants used by Model/Formats.v are the ones the code has today *)
Theorem C17_gen_consts :
  gen_hdr_size = Z.of_nat HDR /\ gen_hdr_ndb_off = Z.of_nat NDB_OFF /\ gen_ql_order = [0; 1; 2; 3; 4; 5] /\
  gen_ql_format_version = 1 /\ gen_ql_offset_size = 4 /\ gen_ql_init_messages = 0 /\
  Z.of_nat QLH = 4 * Z.of_nat (length gen_ql_order).
Proof. repeat split; reflexivity. Qed.

(* ---- the current hand-off is racy ------------------------------------------------------------------------------- *)
Definition wit_cfgs : list cfg := [mk_cfg FRaw 0 [gen_all_message_types]].
Definition wit_prog : list op :=
  [Start; Tick 16; Upd (Some (mkM 1 1001)); Tick 16; Upd (Some (mkM 2 1001)); Upd (Some (mkM 3 1001)); Stop].
(* the writer clears write_to_disk (4th W); the recorder triggers the next write inside the window; the writer's late
   set() leaves a stale write_finished; stop() does not wait and restages while message 2 is still in wbuf *)
Definition wit_loss : list tid :=
  [R; R; R; R; R; R; R; W; W; W; W; R; R; R; R; R; R; R; R; R; W; R; R; R; R; R; R; W; R].
Definition wit_crash : list tid :=
  [R; R; R; R; R; R; R; W; W; W; W; R; R; R; R; R; R; R; R; R; W; W; W; R; R; R; R; R; W].

Fixpoint ids_eqb (a b : list (Z * Z)) : bool :=
  match a, b with
  | [], [] => true
  | (x1, y1) :: r, (x2, y2) :: t => (x1 =? x2) && (y1 =? y2) && ids_eqb r t
  | _, _ => false
  end.
Lemma ids_eqb_eq a : forall b, ids_eqb a b = true -> a = b.
Proof.
  induction a as [|(x1, y1) r IH]; intros [|(x2, y2) t] H; simpl in H; try discriminate; [reflexivity|].
  apply andb_true_iff in H. destruct H as (H & H3). apply andb_true_iff in H. destruct H as (H1 & H2).
  apply Z.eqb_eq in H1. apply Z.eqb_eq in H2. subst. rewrite (IH t H3). reflexivity.
Qed.
Definition first_ds_wrote (s : state) (w e : list (Z * Z)) : bool :=
  match nth_error (s_ds s) 0 with
  | Some d => ids_eqb (ids (written d)) w && ids_eqb (ids (expected (d_cfg d) (g_arr s))) e
  | None => false
  end.

(* a terminated run without any exception, recording stopped, in which a selected message is missing from the files *)
Theorem C17_refuted : exists cfgs prog sched,
  let s := run cfgs prog sched in
  finished s = true /\ s_crash s = None /\ s_rec s = false /\
  exists d, nth_error (s_ds s) 0 = Some d /\ written d <> expected (d_cfg d) (g_arr s) /\
            ids (written d) = [(1, 1); (1, 3)] /\ ids (expected (d_cfg d) (g_arr s)) = [(1, 1); (1, 2); (1, 3)].
Proof.
  exists wit_cfgs, wit_prog, wit_loss. cbv zeta.
  assert (G : forall s, first_ds_wrote s [(1, 1); (1, 3)] [(1, 1); (1, 2); (1, 3)] = true ->
            exists d, nth_error (s_ds s) 0 = Some d /\ written d <> expected (d_cfg d) (g_arr s) /\
            ids (written d) = [(1, 1); (1, 3)] /\ ids (expected (d_cfg d) (g_arr s)) = [(1, 1); (1, 2); (1, 3)]).
  { intros s H. unfold first_ds_wrote in H. destruct (nth_error (s_ds s) 0) as [d|]; [|discriminate].
    apply andb_true_iff in H. destruct H as (H1 & H2). apply ids_eqb_eq in H1. apply ids_eqb_eq in H2.
    exists d. split; [reflexivity|]. split; [|split; assumption].
    intros X. rewrite X, H2 in H1. discriminate. }
  split; [vm_compute; reflexivity|]. split; [vm_compute; reflexivity|]. split; [vm_compute; reflexivity|].
  apply G. vm_compute. reflexivity.
Qed.

(* the same window can also end in a Python exception in the writer thread (write on the file stop() has closed) *)
Theorem C17_refuted_crash : exists cfgs prog sched, s_crash (run cfgs prog sched) = Some W.
Proof. exists wit_cfgs, wit_prog, wit_crash. vm_compute. reflexivity. Qed.

(* both witnesses are in the excluded class *)
Example C17_witnesses_are_stale :
  g_stale (run wit_cfgs wit_prog wit_loss) = true /\ g_stale (run wit_cfgs wit_prog wit_crash) = true.
Proof. split; vm_compute; reflexivity. Qed.

(* ---- every program, every schedule, any number of steps: without a stale set() nothing is lost ------------------- *)
Theorem C17_partial : forall cfgs prog sched fuel,
  let s := run_from fuel (init cfgs prog) sched in
  g_stale s = false ->
  s_crash s = None /\ map d_cfg (s_ds s) = cfgs /\
  forall j d, nth_error (s_ds s) j = Some d ->
    nothing_lost s d /\
    (s_rec s = false -> written d = expected (d_cfg d) (g_arr s) /\ files_complete d).
Proof.
  intros cfgs prog sched fuel s Hst.
  pose proof (run_from_inv fuel (init cfgs prog) sched (Inv_init cfgs prog) Hst) as HI. fold s in HI.
  split; [exact (I_crash s HI)|]. split; [unfold s; rewrite run_from_cfgs; apply init_cfgs|].
  intros j d Hj. split; [exact (Inv_nothing_lost s j d HI Hj)|].
  intros Hrec. exact (Inv_complete s j d HI Hrec Hj).
Qed.

(* the instance for complete runs *)
Corollary C17_partial_run : forall cfgs prog sched,
  let s := run cfgs prog sched in
  g_stale s = false ->
  s_crash s = None /\
  forall j d, nth_error (s_ds s) j = Some d ->
    s_rec s = false -> written d = expected (d_cfg d) (g_arr s) /\ files_complete d.
Proof.
  intros cfgs prog sched s Hst.
  destruct (C17_partial cfgs prog sched (fuel_for cfgs prog sched) Hst) as (A & _ & B).
  split; [exact A|]. intros j d Hj Hrec. exact (proj2 (B j d Hj) Hrec).
Qed.

(* a schedule-level sufficient condition for the exclusion: sequential hand-off, i.e. no recorder step is scheduled
   while the writer is between write_to_disk.clear() and write_finished.set() *)
Theorem C17_sequential_handoff : forall cfgs prog sched fuel,
  window_free_from fuel (init cfgs prog) sched = true ->
  g_stale (run_from fuel (init cfgs prog) sched) = false.
Proof.
  intros cfgs prog sched fuel H.
  apply window_free_not_stale; [apply Inv_init|reflexivity|intros X; discriminate X|exact H].
Qed.

(* the exclusion is satisfiable by a non-trivial history: two data sets (quicklogger with 30 s subdivision, json
   selecting two types), pause/resume, three timed flushes, a subdivision, two recordings on the same collection, the
   writer interleaved with the recorder (schedule W R R W R R ...); 9 messages offered, 7 recorded *)
Definition ex_cfgs : list cfg := [mk_cfg FQL 30 [gen_all_message_types]; mk_cfg FJson 0 [1002; 1003]].
Definition ex_prog : list op :=
  [Start; Upd (Some (mkM 1 1001)); Tick 16; Upd (Some (mkM 2 1002)); Upd (Some (mkM 3 1001)); Pause;
   Upd (Some (mkM 4 1002)); Resume; Tick 16; Upd (Some (mkM 5 1003)); Upd None; Tick 20; Upd (Some (mkM 6 1002)); Stop;
   Upd (Some (mkM 7 1002)); Start; Upd (Some (mkM 8 1003)); Tick 40; Upd (Some (mkM 9 1001)); Stop].
Fixpoint rep (n : nat) (l : list tid) : list tid := match n with O => [] | S k => l ++ rep k l end.
Definition ex_sched : list tid := rep 60 [W; R; R].

Example C17_partial_nonvacuous :
  let s := run ex_cfgs ex_prog ex_sched in
  g_stale s = false /\ finished s = true /\ s_rec s = false /\
  window_free_from (fuel_for ex_cfgs ex_prog ex_sched) (init ex_cfgs ex_prog) ex_sched = false /\
  map (fun d => ids (written d)) (s_ds s) =
    [[(1, 1); (1, 2); (1, 3); (1, 5); (1, 6); (2, 8); (2, 9)]; [(1, 2); (1, 5); (1, 6); (2, 8)]] /\
  map (fun d => length (d_files d)) (s_ds s) = [4%nat; 2%nat].
Proof. vm_compute. repeat split; reflexivity. Qed.

(* (in ex_sched the recorder does step inside the writer's window - harmlessly; the tight exclusion g_stale admits it,
   the schedule-level condition does not.)  A writer-first schedule is a sequential hand-off: *)
Example C17_sequential_nonvacuous :
  let sched := rep 200 [W] in
  window_free_from (fuel_for ex_cfgs ex_prog sched) (init ex_cfgs ex_prog) sched = true /\
  finished (run ex_cfgs ex_prog sched) = true /\ s_warn (run ex_cfgs ex_prog sched) = 0%nat /\
  length (filter (tid_eqb W) (trace ex_cfgs ex_prog sched)) = 38%nat.
Proof. vm_compute. repeat split; reflexivity. Qed.

(* ---- file formats: the readers invert the formatters ------------------------------------------------------------ *)
(* raw: the file is the concatenation of header+payload frames and splits back by header.num_data_bytes *)
Theorem C17_raw_file : forall f, Forall wf_msg (f_msgs f) ->
  render FRaw f = flat_map raw_frame (f_msgs f) /\ read_raw (render FRaw f) = Some (map observe (f_msgs f)).
Proof. intros f H. rewrite raw_render. split; [reflexivity|apply raw_roundtrip; exact H]. Qed.

(* json: one line per message (decoding a line back to a message is C10's subject) *)
Theorem C17_json_file : forall f, Forall (fun m => ~ In 10 (m_json m)) (f_msgs f) ->
  read_json (render FJson f) = Some (map m_json (f_msgs f)).
Proof. intros f H. rewrite json_render. apply json_roundtrip. exact H. Qed.

(* quicklogger: for every division of the messages into formatter.write calls (none: the single-write path
   num_writes = 0; one or more: the temp-file path) followed by finalize, the file has the canonical layout, its header
   counts are right and the model of QLReader.load returns the same headers and payloads *)
Theorem C17_ql_file : forall f w, f_fin f = Some w -> Forall wf_msg (f_msgs f) -> 24 + tots (f_msgs f) < 4294967296 ->
  render FQL f = ql_bytes (f_msgs f) /\
  read_ql (render FQL f) = Some (map observe (f_msgs f)) /\
  ql_field 1 (render FQL f) = Z.of_nat (length (render FQL f)) /\
  ql_field 2 (render FQL f) = Z.of_nat (length (f_msgs f)) /\
  ql_field 5 (render FQL f) = ndbs (f_msgs f).
Proof.
  intros f w Hf Hwf Hlt. rewrite (ql_render f w Hf). split; [reflexivity|].
  split; [apply ql_roundtrip; assumption|apply ql_header_ok; assumption].
Qed.

Definition ex_hdr (n : Z) : list Z := repeat 7 32 ++ le32 n ++ repeat 9 12.
Definition ex_m1 : msg := mkMsg 1 1001 (ex_hdr 4) [1; 0; 0; 0] [123; 125].
Definition ex_m2 : msg := mkMsg 2 1004 (ex_hdr 0) [] [123; 125].
Definition ex_m3 : msg := mkMsg 3 1003 (ex_hdr 7) [10; 20; 30; 40; 50; 60; 70] [123; 125].
Example C17_ql_file_single_write :
  let f := mkFile 1 0 [] (Some [ex_m1; ex_m2; ex_m3]) true in
  Forall wf_msg (f_msgs f) /\ read_ql (render FQL f) = Some (map observe [ex_m1; ex_m2; ex_m3]).
Proof. split; [repeat constructor|vm_compute; reflexivity]. Qed.
Example C17_ql_file_multi_write :
  let f := mkFile 1 0 [[ex_m1]; []; [ex_m2]] (Some [ex_m3]) true in
  Forall wf_msg (f_msgs f) /\ read_ql (render FQL f) = Some (map observe [ex_m1; ex_m2; ex_m3]) /\
  render FQL f = render FQL (mkFile 1 0 [] (Some [ex_m1; ex_m2; ex_m3]) true).
Proof. split; [repeat constructor|split; vm_compute; reflexivity]. Qed.

(* ---- composition: after stop, every file of every data set reads back, and the concatenation is what was selected -- *)
Corollary C17_partial_files : forall cfgs prog sched fuel,
  let s := run_from fuel (init cfgs prog) sched in
  g_stale s = false -> s_rec s = false ->
  Forall (fun sm => wf_msg (snd sm)) (g_arr s) ->
  forall j d k f, nth_error (s_ds s) j = Some d -> nth_error (d_files d) k = Some f ->
    written d = expected (d_cfg d) (g_arr s) /\
    f_fin f <> None /\ f_closed f = true /\ Forall wf_msg (f_msgs f) /\
    read_raw (render FRaw f) = Some (map observe (f_msgs f)) /\
    (24 + tots (f_msgs f) < 4294967296 -> read_ql (render FQL f) = Some (map observe (f_msgs f))).
Proof.
  intros cfgs prog sched fuel s Hst Hrec Hwf j d k f Hj Hk.
  destruct (C17_partial cfgs prog sched fuel Hst) as (_ & _ & B). fold s in B.
  destruct (B j d Hj) as (_ & C). destruct (C Hrec) as (Hw & Hc). destruct (Hc k f Hk) as (Hcl & Hfin).
  assert (Hm : Forall wf_msg (f_msgs f)).
  { apply Forall_forall. intros m Hm.
    assert (Hin : In (f_session f, m) (written d)).
    { unfold written. apply in_flat_map. exists f. split; [apply (nth_error_In _ _ Hk)|apply in_map; exact Hm]. }
    rewrite Hw in Hin. unfold expected in Hin. apply filter_In in Hin. destruct Hin as (Hin & _).
    rewrite Forall_forall in Hwf. apply (Hwf _ Hin). }
  split; [exact Hw|]. split; [exact Hfin|]. split; [exact Hcl|]. split; [exact Hm|].
  split; [apply (proj2 (C17_raw_file f Hm))|].
  intros Hlt. destruct (f_fin f) as [w|] eqn:Ef; [|congruence].
  apply (proj1 (proj2 (C17_ql_file f w Ef Hm Hlt))).
Qed.
