(* C17 - The data logger loses, duplicates and reorders nothing; files are complete after stop.
   Property theorems only; proofs live in Proofs/*.v.
   Models: Model/LoggerFixed.v  = the CURRENT code (the hand-off since commit 510a13f: write_finished is the single
                                  "writer idle" token), built on the shared definitions of Model/Logger.v
                                  (data sets, program counters, the writer loop, scheduling);
           Model/Formats.v      = raw / json-lines / quicklogger formatters and readers;
           Gen/LoggerConsts.v   = constants, header layouts and the SHAPE of the hand-off, regenerated from /repo on
                                  every run (fail-closed translator vlib/gen_logger.py).
   The racy hand-off of the code before 510a13f is kept as a historical record in Props/C17Before.v.

   For a data set d in state s:
     written d            = concatenation over its sub-files (creation order) of the messages written, tagged with the
                            session directory;
     expected c (g_arr s) = the messages handed to update() while recording and not paused (ghost log g_arr, tagged with
                            the session), filtered by the data set's selection c, in arrival order;
     nothing_lost s d     = written d ++ (staged buffer, if not yet written) ++ rbuf = expected ...   (no loss, no
                            duplicate, no reordering - at every point of every execution);
     files_complete d     = every file has been finalised and closed.
   A schedule is a list of thread ids; `run_fromF fuel (initF cfgs prog) sched` executes `fuel` atomic steps of the
   recorder program `prog` interleaved with the writer thread as the schedule dictates. *)
From Coq Require Import ZArith List Bool Lia.
From Logr Require Import Gen.LoggerConsts Model.Formats Model.Logger Model.LoggerFixed.
From Logr Require Import Proofs.LoggerData Proofs.LoggerInv Proofs.LoggerRun Proofs.LoggerFixedInv Proofs.FormatsProofs.
Import ListNotations.
Open Scope Z_scope.

(* the layout constants used by Model/Formats.v and the hand-off shape modelled by Model/LoggerFixed.v are the ones the
   code has today *)
Theorem C17_gen_consts :
  gen_hdr_size = Z.of_nat HDR /\ gen_hdr_ndb_off = Z.of_nat NDB_OFF /\ gen_ql_order = [0; 1; 2; 3; 4; 5] /\
  gen_ql_format_version = 1 /\ gen_ql_offset_size = 4 /\ gen_ql_init_messages = 0 /\
  Z.of_nat QLH = 4 * Z.of_nat (length gen_ql_order) /\
  gen_handoff_init_sets_write_finished = true /\ gen_handoff_update_gates_on_write_finished = true /\
  gen_handoff_stop_waits_unconditionally = true /\ gen_handoff_stop_clears_nothing = true /\
  gen_handoff_writer_clear_then_set = true /\ gen_handoff_trigger_stage_clear_set = true.
Proof. repeat split; reflexivity. Qed.

(* ---- THE PROPERTY: every configuration, every recorder program, EVERY schedule, any number of steps ------------------ *)
Theorem C17_holds : forall cfgs prog sched fuel,
  let s := run_fromF fuel (initF cfgs prog) sched in
  s_crash s = None /\ map d_cfg (s_ds s) = cfgs /\
  forall j d, nth_error (s_ds s) j = Some d ->
    nothing_lost s d /\
    (s_rec s = false -> written d = expected (d_cfg d) (g_arr s) /\ files_complete d).
Proof.
  intros cfgs prog sched fuel s.
  pose proof (run_fromF_inv fuel (initF cfgs prog) sched (InvF_init cfgs prog)) as HF. fold s in HF.
  pose proof (F_inv s HF) as HI.
  split; [exact (I_crash s HI)|]. split; [unfold s; rewrite run_fromF_cfgs; apply initF_cfgs|].
  intros j d Hj. split; [exact (Inv_nothing_lost s j d HI Hj)|].
  intros Hrec. exact (Inv_complete s j d HI Hrec Hj).
Qed.

(* the instance for complete runs *)
Corollary C17_holds_run : forall cfgs prog sched,
  let s := runF cfgs prog sched in
  s_crash s = None /\
  forall j d, nth_error (s_ds s) j = Some d ->
    s_rec s = false -> written d = expected (d_cfg d) (g_arr s) /\ files_complete d.
Proof.
  intros cfgs prog sched s.
  destruct (C17_holds cfgs prog sched (fuel_for cfgs prog sched)) as (A & _ & B).
  split; [exact A|]. intros j d Hj Hrec. exact (proj2 (B j d Hj) Hrec).
Qed.

(* the token discipline: write_finished set => write_to_disk clear and the writer idle at the head of its loop; the
   stale "finished" of the code before 510a13f (ghost flag g_stale) cannot arise *)
Theorem C17_token : forall cfgs prog sched fuel,
  let s := run_fromF fuel (initF cfgs prog) sched in
  g_stale s = false /\ (s_wf s = true -> s_wtd s = false /\ (s_wpc s = W_Wait \/ s_wpc s = W_Done)).
Proof.
  intros cfgs prog sched fuel s.
  pose proof (run_fromF_inv fuel (initF cfgs prog) sched (InvF_init cfgs prog)) as HF. fold s in HF.
  split; [exact (F_stale s HF)|]. intros H. destruct (F_G1 s HF H) as (A & B). split; [exact A|].
  destruct (s_wpc s); simpl in B; try discriminate; auto.
Qed.

(* non-vacuity: two data sets (quicklogger with 30 s subdivision, json selecting two types), pause/resume, timed
   flushes, a subdivision, two recordings on the same collection, the writer interleaved with the recorder
   (schedule W W R W W R ...: 30 writer steps between recorder steps); 9 messages offered, 7 recorded *)
Definition ex_cfgs : list cfg := [mk_cfg FQL 30 [gen_all_message_types]; mk_cfg FJson 0 [1002; 1003]].
Definition ex_prog : list op :=
  [Start; Upd (Some (mkM 1 1001)); Tick 16; Upd (Some (mkM 2 1002)); Upd (Some (mkM 3 1001)); Pause;
   Upd (Some (mkM 4 1002)); Resume; Tick 16; Upd (Some (mkM 5 1003)); Upd None; Tick 20; Upd (Some (mkM 6 1002)); Stop;
   Upd (Some (mkM 7 1002)); Start; Upd (Some (mkM 8 1003)); Tick 40; Upd (Some (mkM 9 1001)); Stop].
Fixpoint rep (n : nat) (l : list tid) : list tid := match n with O => [] | S k => l ++ rep k l end.
Definition ex_sched : list tid := rep 60 [W; W; R].

Example C17_nonvacuous :
  let s := runF ex_cfgs ex_prog ex_sched in
  finished s = true /\ s_rec s = false /\ s_warn s = 1%nat /\
  length (filter (tid_eqb W) (traceF ex_cfgs ex_prog ex_sched)) = 30%nat /\
  map (fun d => ids (written d)) (s_ds s) =
    [[(1, 1); (1, 2); (1, 3); (1, 5); (1, 6); (2, 8); (2, 9)]; [(1, 2); (1, 5); (1, 6); (2, 8)]] /\
  map (fun d => map (fun f => (f_session f, f_sub f, length (f_writes f))) (d_files d)) (s_ds s) =
    [[(1, 0, 2); (1, 1, 1); (2, 0, 1)]; [(1, 0, 3); (2, 0, 1)]]%nat.
Proof. vm_compute. repeat split; reflexivity. Qed.

(* the schedule that lost message 2 before 510a13f (Props/C17Before.v) is harmless now *)
Example C17_on_old_witness :
  let s := runF [mk_cfg FRaw 0 [gen_all_message_types]]
                [Start; Tick 16; Upd (Some (mkM 1 1001)); Tick 16; Upd (Some (mkM 2 1001)); Upd (Some (mkM 3 1001)); Stop]
                [R; R; R; R; R; R; R; W; W; W; W; R; R; R; R; R; R; R; R; R; W; R; R; R; R; R; R; W; R] in
  finished s = true /\ s_rec s = false /\ map (fun d => ids (written d)) (s_ds s) = [[(1, 1); (1, 2); (1, 3)]].
Proof. vm_compute. repeat split; reflexivity. Qed.

(* ---- file formats: the readers invert the formatters ------------------------------------------------------------ *)
(* raw: the file is the concatenation of header+payload frames and splits back by header.num_data_bytes *)
Theorem C17_raw_file : forall f, Forall wf_msg (f_msgs f) ->
  render FRaw f = flat_map raw_frame (f_msgs f) /\ read_raw (render FRaw f) = Some (map observe (f_msgs f)).
Proof. intros f H. rewrite raw_render. split; [reflexivity|apply raw_roundtrip; exact H]. Qed.

(* json: one line per message (decoding a line back to a message is C10's subject) *)
Theorem C17_json_file : forall f, Forall (fun m => ~ In 10 (m_json m)) (f_msgs f) ->
  read_json (render FJson f) = Some (map m_json (f_msgs f)).
Proof. intros f H. rewrite json_render. apply json_roundtrip. exact H. Qed.

(* quicklogger: for every division of the messages into formatter.write calls (none: the single-write path
   num_writes = 0; one or more: the temp-file path) followed by finalize, the file has the canonical layout, its header
   counts are right and the model of QLReader.load returns the same headers and payloads *)
Theorem C17_ql_file : forall f w, f_fin f = Some w -> Forall wf_msg (f_msgs f) -> 24 + tots (f_msgs f) < 4294967296 ->
  render FQL f = ql_bytes (f_msgs f) /\
  read_ql (render FQL f) = Some (map observe (f_msgs f)) /\
  ql_field 1 (render FQL f) = Z.of_nat (length (render FQL f)) /\
  ql_field 2 (render FQL f) = Z.of_nat (length (f_msgs f)) /\
  ql_field 5 (render FQL f) = ndbs (f_msgs f).
Proof.
  intros f w Hf Hwf Hlt. rewrite (ql_render f w Hf). split; [reflexivity|].
  split; [apply ql_roundtrip; assumption|apply ql_header_ok; assumption].
Qed.

Definition ex_hdr (n : Z) : list Z := repeat 7 32 ++ le32 n ++ repeat 9 12.
Definition ex_m1 : msg := mkMsg 1 1001 (ex_hdr 4) [1; 0; 0; 0] [123; 125].
Definition ex_m2 : msg := mkMsg 2 1004 (ex_hdr 0) [] [123; 125].
Definition ex_m3 : msg := mkMsg 3 1003 (ex_hdr 7) [10; 20; 30; 40; 50; 60; 70] [123; 125].
Example C17_ql_file_single_write :
  let f := mkFile 1 0 [] (Some [ex_m1; ex_m2; ex_m3]) true in
  Forall wf_msg (f_msgs f) /\ read_ql (render FQL f) = Some (map observe [ex_m1; ex_m2; ex_m3]).
Proof. split; [repeat constructor|vm_compute; reflexivity]. Qed.
Example C17_ql_file_multi_write :
  let f := mkFile 1 0 [[ex_m1]; []; [ex_m2]] (Some [ex_m3]) true in
  Forall wf_msg (f_msgs f) /\ read_ql (render FQL f) = Some (map observe [ex_m1; ex_m2; ex_m3]) /\
  render FQL f = render FQL (mkFile 1 0 [] (Some [ex_m1; ex_m2; ex_m3]) true).
Proof. split; [repeat constructor|split; vm_compute; reflexivity]. Qed.

(* ---- composition: after stop, every file of every data set reads back, and the concatenation is what was selected -- *)
Corollary C17_files : forall cfgs prog sched fuel,
  let s := run_fromF fuel (initF cfgs prog) sched in
  s_rec s = false ->
  Forall (fun sm => wf_msg (snd sm)) (g_arr s) ->
  forall j d k f, nth_error (s_ds s) j = Some d -> nth_error (d_files d) k = Some f ->
    written d = expected (d_cfg d) (g_arr s) /\
    f_fin f <> None /\ f_closed f = true /\ Forall wf_msg (f_msgs f) /\
    read_raw (render FRaw f) = Some (map observe (f_msgs f)) /\
    (24 + tots (f_msgs f) < 4294967296 -> read_ql (render FQL f) = Some (map observe (f_msgs f))).
Proof.
  intros cfgs prog sched fuel s Hrec Hwf j d k f Hj Hk.
  destruct (C17_holds cfgs prog sched fuel) as (_ & _ & B). fold s in B.
  destruct (B j d Hj) as (_ & C). destruct (C Hrec) as (Hw & Hc). destruct (Hc k f Hk) as (Hcl & Hfin).
  assert (Hm : Forall wf_msg (f_msgs f)).
  { apply Forall_forall. intros m Hm.
    assert (Hin : In (f_session f, m) (written d)).
    { unfold written. apply in_flat_map. exists f. split; [apply (nth_error_In _ _ Hk)|apply in_map; exact Hm]. }
    rewrite Hw in Hin. unfold expected in Hin. apply filter_In in Hin. destruct Hin as (Hin & _).
    rewrite Forall_forall in Hwf. apply (Hwf _ Hin). }
  split; [exact Hw|]. split; [exact Hfin|]. split; [exact Hcl|]. split; [exact Hm|].
  split; [apply (proj2 (C17_raw_file f Hm))|].
  intros Hlt. destruct (f_fin f) as [w|] eqn:Ef; [|congruence].
  apply (proj1 (proj2 (C17_ql_file f w Ef Hm Hlt))).
Qed.
