(* HISTORICAL - the pinned code BEFORE commit 510a13f ("fix: data logger could lose messages or crash its writer when a
   flush met the end of the previous one").  Nothing here is claimed of the current code; the check for C17 is
   Props/C17.v (C17_holds).  This file is kept (and still compiled, no Admitted) as the record of the defect:

     Model/Logger.v `rstep` / `step` / `run` = the old hand-off: update() gated on write_to_disk.is_set(); stop() waited
     for write_finished only if write_to_disk was set and then cleared both events; write_finished initially clear.
     The writer cleared write_to_disk BEFORE setting write_finished; a trigger_write inside that window left a stale
     "finished" and stop() raced the writer.

   C17_before_refuted / C17_before_refuted_crash : concrete schedules (vm_compute) losing a message / crashing the
       writer thread; both were replayed on the real code of that time under the cooperative scheduler.
   C17_before_partial : the full statement for every program, schedule and fuel under the decidable exclusion
       g_stale = false (the writer never executed write_finished.set() after the recorder's write_finished.clear() of
       a newer trigger_write).
   C17_before_sequential_handoff : a schedule-level sufficient condition for that exclusion. *)
From Coq Require Import ZArith List Bool Lia.
From Logr Require Import Gen.LoggerConsts Model.Formats Model.Logger.
From Logr Require Import Proofs.LoggerData Proofs.LoggerInv Proofs.LoggerRun Proofs.LoggerWindow.
Import ListNotations.
Open Scope Z_scope.

(* ---- the hand-off before 510a13f is racy ------------------------------------------------------------------------------- *)
Definition wit_cfgs : list cfg := [mk_cfg FRaw 0 [gen_all_message_types]].
Definition wit_prog : list op :=
  [Start; Tick 16; Upd (Some (mkM 1 1001)); Tick 16; Upd (Some (mkM 2 1001)); Upd (Some (mkM 3 1001)); Stop].
(* the writer clears write_to_disk (4th W); the recorder triggers the next write inside the window; the writer's late
   set() leaves a stale write_finished; stop() does not wait and restages while message 2 is still in wbuf *)
Definition wit_loss : list tid :=
  [R; R; R; R; R; R; R; W; W; W; W; R; R; R; R; R; R; R; R; R; W; R; R; R; R; R; R; W; R].
Definition wit_crash : list tid :=
  [R; R; R; R; R; R; R; W; W; W; W; R; R; R; R; R; R; R; R; R; W; W; W; R; R; R; R; R; W].

Fixpoint ids_eqb (a b : list (Z * Z)) : bool :=
  match a, b with
  | [], [] => true
  | (x1, y1) :: r, (x2, y2) :: t => (x1 =? x2) && (y1 =? y2) && ids_eqb r t
  | _, _ => false
  end.
Lemma ids_eqb_eq a : forall b, ids_eqb a b = true -> a = b.
Proof.
  induction a as [|(x1, y1) r IH]; intros [|(x2, y2) t] H; simpl in H; try discriminate; [reflexivity|].
  apply andb_true_iff in H. destruct H as (H & H3). apply andb_true_iff in H. destruct H as (H1 & H2).
  apply Z.eqb_eq in H1. apply Z.eqb_eq in H2. subst. rewrite (IH t H3). reflexivity.
Qed.
Definition first_ds_wrote (s : state) (w e : list (Z * Z)) : bool :=
  match nth_error (s_ds s) 0 with
  | Some d => ids_eqb (ids (written d)) w && ids_eqb (ids (expected (d_cfg d) (g_arr s))) e
  | None => false
  end.

(* a terminated run without any exception, recording stopped, in which a selected message is missing from the files *)
Theorem C17_before_refuted : exists cfgs prog sched,
  let s := run cfgs prog sched in
  finished s = true /\ s_crash s = None /\ s_rec s = false /\
  exists d, nth_error (s_ds s) 0 = Some d /\ written d <> expected (d_cfg d) (g_arr s) /\
            ids (written d) = [(1, 1); (1, 3)] /\ ids (expected (d_cfg d) (g_arr s)) = [(1, 1); (1, 2); (1, 3)].
Proof.
  exists wit_cfgs, wit_prog, wit_loss. cbv zeta.
  assert (G : forall s, first_ds_wrote s [(1, 1); (1, 3)] [(1, 1); (1, 2); (1, 3)] = true ->
            exists d, nth_error (s_ds s) 0 = Some d /\ written d <> expected (d_cfg d) (g_arr s) /\
            ids (written d) = [(1, 1); (1, 3)] /\ ids (expected (d_cfg d) (g_arr s)) = [(1, 1); (1, 2); (1, 3)]).
  { intros s H. unfold first_ds_wrote in H. destruct (nth_error (s_ds s) 0) as [d|]; [|discriminate].
    apply andb_true_iff in H. destruct H as (H1 & H2). apply ids_eqb_eq in H1. apply ids_eqb_eq in H2.
    exists d. split; [reflexivity|]. split; [|split; assumption].
    intros X. rewrite X, H2 in H1. discriminate. }
  split; [vm_compute; reflexivity|]. split; [vm_compute; reflexivity|]. split; [vm_compute; reflexivity|].
  apply G. vm_compute. reflexivity.
Qed.

(* the same window can also end in a Python exception in the writer thread (write on the file stop() has closed) *)
Theorem C17_before_refuted_crash : exists cfgs prog sched, s_crash (run cfgs prog sched) = Some W.
Proof. exists wit_cfgs, wit_prog, wit_crash. vm_compute. reflexivity. Qed.

(* both witnesses are in the excluded class *)
Example C17_before_witnesses_are_stale :
  g_stale (run wit_cfgs wit_prog wit_loss) = true /\ g_stale (run wit_cfgs wit_prog wit_crash) = true.
Proof. split; vm_compute; reflexivity. Qed.

(* ---- every program, every schedule, any number of steps: without a stale set() nothing is lost ------------------- *)
Theorem C17_before_partial : forall cfgs prog sched fuel,
  let s := run_from fuel (init cfgs prog) sched in
  g_stale s = false ->
  s_crash s = None /\ map d_cfg (s_ds s) = cfgs /\
  forall j d, nth_error (s_ds s) j = Some d ->
    nothing_lost s d /\
    (s_rec s = false -> written d = expected (d_cfg d) (g_arr s) /\ files_complete d).
Proof.
  intros cfgs prog sched fuel s Hst.
  pose proof (run_from_inv fuel (init cfgs prog) sched (Inv_init cfgs prog) Hst) as HI. fold s in HI.
  split; [exact (I_crash s HI)|]. split; [unfold s; rewrite run_from_cfgs; apply init_cfgs|].
  intros j d Hj. split; [exact (Inv_nothing_lost s j d HI Hj)|].
  intros Hrec. exact (Inv_complete s j d HI Hrec Hj).
Qed.

(* the instance for complete runs *)
Corollary C17_before_partial_run : forall cfgs prog sched,
  let s := run cfgs prog sched in
  g_stale s = false ->
  s_crash s = None /\
  forall j d, nth_error (s_ds s) j = Some d ->
    s_rec s = false -> written d = expected (d_cfg d) (g_arr s) /\ files_complete d.
Proof.
  intros cfgs prog sched s Hst.
  destruct (C17_before_partial cfgs prog sched (fuel_for cfgs prog sched) Hst) as (A & _ & B).
  split; [exact A|]. intros j d Hj Hrec. exact (proj2 (B j d Hj) Hrec).
Qed.

(* a schedule-level sufficient condition for the exclusion: sequential hand-off, i.e. no recorder step is scheduled
   while the writer is between write_to_disk.clear() and write_finished.set() *)
Theorem C17_before_sequential_handoff : forall cfgs prog sched fuel,
  window_free_from fuel (init cfgs prog) sched = true ->
  g_stale (run_from fuel (init cfgs prog) sched) = false.
Proof.
  intros cfgs prog sched fuel H.
  apply window_free_not_stale; [apply Inv_init|reflexivity|intros X; discriminate X|exact H].
Qed.

(* the exclusion is satisfiable by a non-trivial history: two data sets (quicklogger with 30 s subdivision, json
   selecting two types), pause/resume, three timed flushes, a subdivision, two recordings on the same collection, the
   writer interleaved with the recorder (schedule W R R W R R ...); 9 messages offered, 7 recorded *)
Definition ex_cfgs : list cfg := [mk_cfg FQL 30 [gen_all_message_types]; mk_cfg FJson 0 [1002; 1003]].
Definition ex_prog : list op :=
  [Start; Upd (Some (mkM 1 1001)); Tick 16; Upd (Some (mkM 2 1002)); Upd (Some (mkM 3 1001)); Pause;
   Upd (Some (mkM 4 1002)); Resume; Tick 16; Upd (Some (mkM 5 1003)); Upd None; Tick 20; Upd (Some (mkM 6 1002)); Stop;
   Upd (Some (mkM 7 1002)); Start; Upd (Some (mkM 8 1003)); Tick 40; Upd (Some (mkM 9 1001)); Stop].
Fixpoint rep (n : nat) (l : list tid) : list tid := match n with O => [] | S k => l ++ rep k l end.
Definition ex_sched : list tid := rep 60 [W; R; R].

Example C17_before_partial_nonvacuous :
  let s := run ex_cfgs ex_prog ex_sched in
  g_stale s = false /\ finished s = true /\ s_rec s = false /\
  window_free_from (fuel_for ex_cfgs ex_prog ex_sched) (init ex_cfgs ex_prog) ex_sched = false /\
  map (fun d => ids (written d)) (s_ds s) =
    [[(1, 1); (1, 2); (1, 3); (1, 5); (1, 6); (2, 8); (2, 9)]; [(1, 2); (1, 5); (1, 6); (2, 8)]] /\
  map (fun d => length (d_files d)) (s_ds s) = [4%nat; 2%nat].
Proof. vm_compute. repeat split; reflexivity. Qed.

(* (in ex_sched the recorder does step inside the writer's window - harmlessly; the tight exclusion g_stale admits it,
   the schedule-level condition does not.)  A writer-first schedule is a sequential hand-off: *)
Example C17_before_sequential_nonvacuous :
  let sched := rep 200 [W] in
  window_free_from (fuel_for ex_cfgs ex_prog sched) (init ex_cfgs ex_prog) sched = true /\
  finished (run ex_cfgs ex_prog sched) = true /\ s_warn (run ex_cfgs ex_prog sched) = 0%nat /\
  length (filter (tid_eqb W) (trace ex_cfgs ex_prog sched)) = 38%nat.
Proof. vm_compute. repeat split; reflexivity. Qed.

