(* The repaired hand-off (Model/LoggerFixed.v): the invariant holds for EVERY schedule, no exclusion. *)
From Coq Require Import ZArith List Bool Lia Arith.
From Logr Require Import Gen.LoggerConsts Model.Formats Model.Logger Model.LoggerFixed.
From Logr Require Import Proofs.LoggerData Proofs.LoggerInv Proofs.LoggerRun.
Import ListNotations.
Open Scope nat_scope.
Arguments upd_nth : simpl never.

Definition widle2 (p : wpc) : bool := match p with W_Wait | W_Done => true | _ => false end.
Definition rlate2 (p : rpc) : bool :=
  match p with R_TwStage _ | R_TwClearWF | R_StopStage _ | R_StopFinal _ _ _ => true | _ => false end.
Definition runused (p : rpc) : bool :=
  match p with R_StopIsSet | R_StopClearWTD | R_StopClearWF => true | _ => false end.

(* Inv (the ownership invariant of Proofs/LoggerInv.v) plus the token discipline of the repaired protocol *)
Record InvF (s : state) : Prop := mkInvF {
  F_inv : Inv s;
  F_stale : g_stale s = false;
  F_G0 : runused (s_rpc s) = false;
  F_G1 : s_wf s = true -> s_wtd s = false /\ widle2 (s_wpc s) = true;   (* token set: the writer is idle *)
  F_G2 : rlate2 (s_rpc s) = true -> s_wf s = true;                      (* the recorder stages only with the token *)
  F_G3 : s_rpc s = R_TwSetWTD -> s_wtd s = false /\ widle2 (s_wpc s) = true;
  F_G6 : s_wpc s = W_SetWF -> s_wtd s = false
}.

Lemma InvF_init cfgs prog : InvF (initF cfgs prog).
Proof.
  constructor; simpl; auto; try discriminate.
  pose proof (Inv_init cfgs prog) as [A1 A2 A3 A4 A5 A6 A7 A8 A9 A10 A11].
  constructor; simpl in *; auto; try discriminate.
Qed.

(* ---- frame facts of the writer step -------------------------------------------------------------------------------- *)
Lemma wstep_rpc s : s_rpc (wstep s) = s_rpc s.
Proof. unfold wstep, wnext. repeat (first [progress simpl | progress break_match]); reflexivity. Qed.

Lemma wstep_wf s : s_wpc s <> W_SetWF -> s_wf (wstep s) = s_wf s.
Proof. intros H. unfold wstep, wnext. repeat (first [progress simpl | progress break_match]); try reflexivity; congruence. Qed.

Lemma wstep_wtd s : s_wpc s <> W_ClearWTD -> s_wtd (wstep s) = s_wtd s.
Proof. intros H. unfold wstep, wnext. repeat (first [progress simpl | progress break_match]); try reflexivity; congruence. Qed.

Lemma wstep_not_setwf s : s_wpc s <> W_ClearWTD -> s_wpc s <> W_SetWF -> s_wpc (wstep s) <> W_SetWF.
Proof.
  intros H1 H2. unfold wstep, wnext. repeat (first [progress simpl | progress break_match]); try congruence; try discriminate.
Qed.

Lemma wstepF_inv s : InvF s -> enabled s W = true -> InvF (wstep s).
Proof.
  intros [HI Hst G0 G1 G2 G3 G6] Hen.
  assert (Hst' : g_stale (wstep s) = false).
  { destruct (s_wpc s) eqn:Ew;
      try (unfold wstep, wnext; rewrite Ew; repeat (first [progress simpl | progress break_match]); exact Hst).
    unfold wstep. rewrite Ew. simpl. rewrite Hst, (G6 eq_refl). simpl.
    destruct (s_rpc s) eqn:Er; try reflexivity. destruct (G3 eq_refl) as (_ & X). discriminate. }
  pose proof (wstep_inv s HI Hen Hst') as HI'.
  assert (Hwf_busy : widle2 (s_wpc s) = false -> s_wf s = false).
  { intros X. destruct (s_wf s) eqn:Y; [|reflexivity]. destruct (G1 eq_refl) as (_ & Z). congruence. }
  constructor; auto; rewrite ?wstep_rpc; auto.
  - (* G1 *)
    destruct (s_wpc s) eqn:Ew.
    + (* W_Wait *) unfold wstep. rewrite Ew. destruct (s_wtd s) eqn:Hw.
      * intros X. destruct (nds s); simpl in X; destruct (G1 X); congruence.
      * simpl. intros X. split; [exact Hw|reflexivity].
    + intros X. rewrite wstep_wf in X by congruence. rewrite Hwf_busy in X by reflexivity. discriminate.
    + intros X. rewrite wstep_wf in X by congruence. rewrite Hwf_busy in X by reflexivity. discriminate.
    + intros X. rewrite wstep_wf in X by congruence. rewrite Hwf_busy in X by reflexivity. discriminate.
    + intros X. rewrite wstep_wf in X by congruence. rewrite Hwf_busy in X by reflexivity. discriminate.
    + unfold wstep. rewrite Ew. simpl. intros _. split; [apply G6; reflexivity|destruct (s_closing s); reflexivity].
    + unfold enabled in Hen. rewrite Ew in Hen. discriminate.
  - (* G2 *)
    intros X. specialize (G2 X). destruct (G1 G2) as (_ & Z).
    rewrite wstep_wf; [exact G2|]. intros Y. rewrite Y in Z. discriminate.
  - (* G3 *)
    intros X. destruct (G3 X) as (A & B).
    destruct (s_wpc s) eqn:Ew; try discriminate.
    + unfold wstep. rewrite Ew, A. simpl. auto.
    + unfold enabled in Hen. rewrite Ew in Hen. discriminate.
  - (* G6 *)
    intros X. destruct (s_wpc s) eqn:Ew.
    + exfalso. revert X. apply wstep_not_setwf; congruence.
    + exfalso. revert X. apply wstep_not_setwf; congruence.
    + exfalso. revert X. apply wstep_not_setwf; congruence.
    + exfalso. revert X. apply wstep_not_setwf; congruence.
    + unfold wstep. rewrite Ew. reflexivity.
    + unfold wstep in X. rewrite Ew in X. simpl in X. destruct (s_closing s); discriminate.
    + unfold enabled in Hen. rewrite Ew in Hen. discriminate.
Qed.

(* ---- recorder steps ----------------------------------------------------------------------------------------------- *)
Lemma rstep_stale s : g_stale (rstep s) = g_stale s.
Proof.
  unfold rstep, rstep_op, stop_next, stop_finish.
  repeat (first [progress simpl | progress break_match]); reflexivity.
Qed.

Lemma rstepF_stale s : g_stale (rstepF s) = g_stale s.
Proof.
  unfold rstepF. destruct (s_rpc s) eqn:Er; try apply rstep_stale.
  - assert (X : g_stale (rstep_op s) = g_stale s).
    { pose proof (rstep_stale s) as Y. unfold rstep in Y. rewrite Er in Y. exact Y. }
    destruct (s_rpc (rstep_op s)); simpl; exact X.
  - destruct (s_wf s); reflexivity.
  - unfold stop_finish. destruct (nds s); reflexivity.
Qed.

(* the part of the old invariant that only looks at the recorder's private program counter *)
Lemma rinvF_stopwait s : Inv s -> s_rpc s = R_StopWait -> s_wtd s = false -> Inv (rstepF s).
Proof.
  intros HI Er Hwtd. pose proof HI as [Hcr E1 E2 E3 E4 E6 E7 E8 Hri Hwi Hds].
  assert (Hrec : s_rec s = true) by (apply E7; rewrite Er; reflexivity).
  unfold rstepF. rewrite Er. unfold nds. destruct (length (s_ds s)) eqn:En.
  - unfold stop_finish.
    constructor; unfold nds in *; simpl; rewrite ?En; auto; try congruence.
    intros j d Hj. apply nth_lt in Hj. lia.
  - constructor; unfold nds in *; simpl; rewrite ?upd_nth_length, ?En; auto; try congruence.
    + lia.
    + intros j d' Hj. unfold dsOK; simpl. rewrite Hwtd, Hrec.
      split; [|split; [apply wargs_idle; apply E1; exact Hwtd|exact I]].
      assert (K : forall d, nth_error (s_ds s) j = Some d -> dsI false false false (s_session s) (g_arr s) d).
      { intros d Hd. destruct (Hds j d Hd) as (A & _ & _). rewrite Er, Hwtd, Hrec in A. exact A. }
      eapply dsI_cast with (p := false) (i := false) (dn := false); try reflexivity.
      destruct (nth_upd_cases _ _ _ _ _ Hj) as [(-> & d0 & Hd0 & ->)|(Hne & Hj')].
      * apply dsI_set_stopped. apply K. exact Hd0.
      * apply K. exact Hj'.
Qed.

Lemma rstepF_inv s : InvF s -> enabled s R = true -> InvF (rstepF s).
Proof.
  intros [HI Hst G0 G1 G2 G3 G6] Hen.
  pose proof HI as [Hcr E1 E2 E3 E4 E6 E7 E8 Hri Hwi Hds].
  destruct (s_rpc s) eqn:Er; try (simpl in G0; discriminate).
  - (* R_Op *)
    assert (HI1 : Inv (rstep_op s)).
    { pose proof (rinv_op s HI Er) as X. unfold rstep in X. rewrite Er in X. exact X. }
    assert (Fr : s_wf (rstep_op s) = s_wf s /\ s_wtd (rstep_op s) = s_wtd s /\ s_wpc (rstep_op s) = s_wpc s /\
                 g_stale (rstep_op s) = g_stale s /\
                 (s_rpc (rstep_op s) = R_Op \/ s_rpc (rstep_op s) = R_Join \/ s_rpc (rstep_op s) = R_StopIsSet
                  \/ s_rpc (rstep_op s) = R_UpdIsSet)).
    { unfold rstep_op. rewrite Er. repeat (first [progress simpl | progress break_match]); auto 10. }
    destruct Fr as (F1 & F2 & F3 & F4 & F5).
    unfold rstepF. rewrite Er.
    destruct F5 as [F5|[F5|[F5|F5]]]; rewrite F5.
    + constructor; rewrite ?F1, ?F2, ?F3, ?F4, ?F5; auto; try discriminate.
    + constructor; rewrite ?F1, ?F2, ?F3, ?F4, ?F5; auto; try discriminate.
    + assert (HI2 : Inv (set_rpc (rstep_op s) R_StopWait)).
      { apply (rinv_private (rstep_op s)); simpl; auto; rewrite ?F5; simpl; auto; try congruence.
        intros _. apply (I_E7 _ HI1). rewrite F5. reflexivity.
        intros X. pose proof (I_E7 _ HI1) as Y. rewrite F5 in Y. specialize (Y eq_refl). congruence. }
      constructor; simpl; rewrite ?F1, ?F2, ?F3, ?F4; auto; try discriminate.
    + constructor; rewrite ?F1, ?F2, ?F3, ?F4, ?F5; auto; try discriminate.
  - (* R_UpdIsSet *)
    unfold rstepF. rewrite Er. destruct (s_wf s) eqn:Hwf.
    + destruct (G1 eq_refl) as (Hwtd & Hidle).
      assert (Eq : set_rpc (set_local s (s_prog s) (s_rec s) (s_paused s) (s_acc s) (s_ref s)
                     (s_elapsed s + gen_write_period)%Z (s_now s) (s_session s))
                     (match nds s with O => R_TwClearWF | S _ => R_TwStage 0 end) = rstep s).
      { unfold rstep. rewrite Er, Hwtd. reflexivity. }
      rewrite Eq. pose proof (rinv_updisset s HI Er) as HI'.
      constructor; auto; rewrite <- ?Eq; simpl; auto; destruct (nds s); try reflexivity; discriminate.
    + assert (HI' : Inv (set_rpc (mkS (s_ds s) (s_wtd s) (s_wf s) (s_closing s) (s_prog s) (s_rpc s) (s_wpc s) (s_rec s)
                      (s_paused s) (s_acc s) (s_ref s) (s_nextw s) (s_now s) (s_session s) (s_elapsed s) (s_crash s)
                      (S (s_warn s)) (g_arr s) (g_stale s)) R_Op)).
      { apply (rinv_private s); simpl; auto; rewrite ?Er; simpl; auto; congruence. }
      constructor; simpl; auto; try discriminate. congruence.
  - (* R_TwStage *)
    unfold rstepF. rewrite Er. pose proof (rinv_twstage s i HI Er) as HI'.
    assert (Hwf : s_wf s = true) by (apply G2; reflexivity).
    constructor; auto; [rewrite rstep_stale; exact Hst| | | | |]; unfold rstep; rewrite Er; simpl; auto;
      destruct (S i <? nds s); try reflexivity; discriminate.
  - (* R_TwClearWF *)
    unfold rstepF. rewrite Er. pose proof (rinv_twclearwf s HI Er) as HI'.
    assert (Hwf : s_wf s = true) by (apply G2; reflexivity). destruct (G1 Hwf) as (Hwtd & Hidle).
    constructor; auto; [rewrite rstep_stale; exact Hst| | | | |]; unfold rstep; rewrite Er; simpl; auto; discriminate.
  - (* R_TwSetWTD *)
    unfold rstepF. rewrite Er. pose proof (rinv_twsetwtd s HI Er) as HI'.
    destruct (G3 eq_refl) as (Hwtd & Hidle). pose proof (E4 eq_refl) as Hwf.
    constructor; auto; [rewrite rstep_stale; exact Hst| | | | |]; unfold rstep; rewrite Er; simpl; auto; try discriminate;
      try (rewrite Hwf; discriminate); try (intros X; rewrite X in Hidle; discriminate).
  - (* R_StopWait *)
    unfold enabled in Hen. rewrite Er in Hen. destruct (G1 Hen) as (Hwtd & Hidle).
    pose proof (rinvF_stopwait s HI Er Hwtd) as HI'.
    constructor; auto; [rewrite rstepF_stale; exact Hst| | | | |]; unfold rstepF, stop_finish; rewrite Er;
      destruct (nds s); simpl; auto; discriminate.
  - (* R_StopStage *)
    unfold rstepF. rewrite Er. pose proof (rinv_stopstage s i HI Er) as HI'.
    assert (Hwf : s_wf s = true) by (apply G2; reflexivity). destruct (G1 Hwf) as (Hwtd & Hidle).
    simpl in Hri. unfold nds in Hri. destruct (nth_some _ _ Hri) as (d & Hd).
    constructor; auto; [rewrite rstep_stale; exact Hst| | | | |]; unfold rstep; rewrite Er;
      rewrite (nth_error_upd_nth_same ds_stage _ _ _ Hd); simpl; auto; discriminate.
  - (* R_StopFinal *)
    unfold rstepF. rewrite Er. pose proof (rinv_stopfinal s i fi b HI Er) as HI'.
    assert (Hwf : s_wf s = true) by (apply G2; reflexivity). destruct (G1 Hwf) as (Hwtd & Hidle).
    assert (Fr : s_crash (rstep s) = None -> s_wf (rstep s) = s_wf s /\ s_wtd (rstep s) = s_wtd s /\ s_wpc (rstep s) = s_wpc s /\
                 (s_rpc (rstep s) = R_Op \/ exists k, s_rpc (rstep s) = R_StopStage k)).
    { unfold rstep. rewrite Er. unfold stop_next, stop_finish.
      repeat (first [progress simpl | progress break_match]); intros; try discriminate; eauto 10; congruence. }
    destruct (Fr (I_crash _ HI')) as (F1 & F2 & F3 & F5).
    constructor; auto; [rewrite rstep_stale; exact Hst| | | | |]; rewrite ?F1, ?F2, ?F3; auto;
      destruct F5 as [F5|(k & F5)]; rewrite F5; try reflexivity; discriminate.
  - (* R_Join *)
    unfold rstepF. rewrite Er. pose proof (rinv_join s HI Er Hen) as HI'.
    constructor; auto; [rewrite rstep_stale; exact Hst| | | | |]; unfold rstep; rewrite Er; simpl; auto; discriminate.
  - unfold enabled in Hen. rewrite Er in Hen. discriminate.
Qed.

Theorem stepF_inv s t : InvF s -> enabled s t = true -> InvF (stepF s t).
Proof. destruct t; [apply rstepF_inv|apply wstepF_inv]. Qed.

Theorem run_fromF_inv fuel : forall s sched, InvF s -> InvF (run_fromF fuel s sched).
Proof.
  induction fuel as [|k IH]; intros s sched HI; simpl; [exact HI|].
  destruct (crashed s); [exact HI|].
  destruct (pick s _) as [t|] eqn:P; [|exact HI].
  apply IH. apply stepF_inv; [exact HI|apply (pick_enabled _ _ _ P)].
Qed.

(* configurations never change in the repaired model either *)
Lemma stepF_cfgs s t : map d_cfg (s_ds (stepF s t)) = map d_cfg (s_ds s).
Proof.
  destruct t; [|apply (step_cfgs s W)]. unfold stepF, rstepF.
  destruct (s_rpc s) eqn:Er; try (pose proof (step_cfgs s R) as X; unfold step in X; exact X).
  - pose proof (step_cfgs s R) as X. unfold step, rstep in X. rewrite Er in X.
    destruct (s_rpc (rstep_op s)); simpl; exact X.
  - destruct (s_wf s); reflexivity.
  - unfold stop_finish. destruct (nds s); simpl; [reflexivity|]. apply map_upd_nth_same. reflexivity.
Qed.

Lemma run_fromF_cfgs fuel : forall s sched, map d_cfg (s_ds (run_fromF fuel s sched)) = map d_cfg (s_ds s).
Proof.
  induction fuel as [|k IH]; intros s sched; simpl; [reflexivity|].
  destruct (crashed s); [reflexivity|]. destruct (pick s _) as [t|]; [|reflexivity].
  rewrite IH. apply stepF_cfgs.
Qed.

Lemma initF_cfgs cfgs prog : map d_cfg (s_ds (initF cfgs prog)) = cfgs.
Proof. apply init_cfgs. Qed.
