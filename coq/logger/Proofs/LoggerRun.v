(* From single steps to whole runs: the invariant along `run_from`, stickiness of the ghost flag, configurations. *)
From Coq Require Import ZArith List Bool Lia Arith.
From Logr Require Import Gen.LoggerConsts Model.Formats Model.Logger Proofs.LoggerData Proofs.LoggerInv.
Import ListNotations.
Open Scope nat_scope.

Ltac break_match :=
  repeat match goal with
         | |- context [match ?x with _ => _ end] => destruct x eqn:?
         | |- context [if ?x then _ else _] => destruct x eqn:?
         end.

Lemma stale_sticky_step s t : g_stale s = true -> g_stale (step s t) = true.
Proof.
  intros H. destruct t; unfold step, rstep, wstep, rstep_op, stop_next, stop_finish, wnext, crash_or;
    repeat (first [progress simpl | progress break_match]); rewrite ?H; auto.
Qed.

Lemma stale_sticky_run fuel : forall s sched, g_stale s = true -> g_stale (run_from fuel s sched) = true.
Proof.
  induction fuel as [|k IH]; intros s sched H; simpl; [exact H|].
  destruct (crashed s); [exact H|]. destruct (pick s _) as [t|]; [|exact H].
  apply IH. apply stale_sticky_step. exact H.
Qed.

Lemma pick_enabled s w t : pick s w = Some t -> enabled s t = true.
Proof.
  unfold pick. destruct (enabled s w) eqn:A; [intros X; inversion X; subst; exact A|].
  destruct (enabled s (other w)) eqn:B; [intros X; inversion X; subst; exact B|discriminate].
Qed.

Theorem run_from_inv fuel : forall s sched,
  Inv s -> g_stale (run_from fuel s sched) = false -> Inv (run_from fuel s sched).
Proof.
  induction fuel as [|k IH]; intros s sched HI Hst; simpl in *; [exact HI|].
  destruct (crashed s); [exact HI|].
  destruct (pick s _) as [t|] eqn:P; [|exact HI].
  apply IH; [|exact Hst].
  apply step_inv; [exact HI|apply (pick_enabled _ _ _ P)|].
  destruct (g_stale (step s t)) eqn:G; [|reflexivity].
  rewrite (stale_sticky_run k _ _ G) in Hst. discriminate.
Qed.

(* ---- configurations never change ------------------------------------------------------------------------------ *)
Lemma map_upd_nth_same {A B} (g : A -> B) (f : A -> A) l i :
  (forall x, nth_error l i = Some x -> g (f x) = g x) -> map g (upd_nth i f l) = map g l.
Proof.
  revert i; induction l as [|a r IH]; intros [|i] H; simpl; auto.
  - rewrite (H a eq_refl). reflexivity.
  - rewrite IH; [reflexivity|]. intros x Hx. apply H. exact Hx.
Qed.

Lemma fwrite_cfg d fi w d1 : ds_fwrite d fi w = Some d1 -> d_cfg d1 = d_cfg d.
Proof. unfold ds_fwrite. destruct (nth_error _ _); [|discriminate]. destruct (file_write _ _); [|discriminate]. intros X; inversion X; reflexivity. Qed.
Lemma ffinal_cfg d fi w d1 : ds_ffinal d fi w = Some d1 -> d_cfg d1 = d_cfg d.
Proof. unfold ds_ffinal. destruct (nth_error _ _); [|discriminate]. destruct (file_final _ _); [|discriminate]. intros X; inversion X; reflexivity. Qed.

Lemma update_cfg m e d : d_cfg (ds_update m e d) = d_cfg d.
Proof.
  unfold ds_update. destruct m as [x|]; [unfold ds_append; destruct (selects _ _)|]; simpl;
    destruct (gt_opt _ _); reflexivity.
Qed.

Lemma step_cfgs s t : map d_cfg (s_ds (step s t)) = map d_cfg (s_ds s).
Proof.
  destruct t; unfold step, rstep, wstep.
  - destruct (s_rpc s) eqn:Er; simpl; auto.
    + unfold rstep_op. destruct (s_prog s) as [|o rest]; simpl; auto.
      destruct o; simpl; auto.
      * destruct (s_rec s); simpl; auto. rewrite map_map. apply map_ext. reflexivity.
      * destruct (s_rec s); simpl; auto.
      * destruct (s_paused s || negb (s_rec s)); simpl; auto. rewrite map_map. apply map_ext. intros d. apply update_cfg.
    + destruct (s_wtd s); simpl; auto.
    + apply map_upd_nth_same. reflexivity.
    + destruct (nds s); simpl; auto. apply map_upd_nth_same. reflexivity.
    + destruct (nth_error (upd_nth i ds_stage (s_ds s)) i); simpl; auto. apply map_upd_nth_same. reflexivity.
    + destruct (nth_error (s_ds s) i) as [d|] eqn:Hd; simpl; auto.
      destruct (ds_ffinal d fi (d_heap d b)) as [d1|] eqn:Hf; simpl; auto.
      unfold stop_next, stop_finish. simpl. destruct (S i <? _); simpl.
      * rewrite map_upd_nth_same by reflexivity. apply map_upd_nth_same.
        intros x Hx. rewrite Hd in Hx. inversion Hx; subst. simpl. apply (ffinal_cfg _ _ _ _ Hf).
      * apply map_upd_nth_same.
        intros x Hx. rewrite Hd in Hx. inversion Hx; subst. simpl. apply (ffinal_cfg _ _ _ _ Hf).
    + rewrite map_map. apply map_ext. reflexivity.
  - destruct (s_wpc s) eqn:Ew; simpl; auto.
    + destruct (s_wtd s); simpl; auto.
    + destruct (nth_error (s_ds s) i); simpl; auto.
    + destruct (nth_error (s_ds s) i) as [d|] eqn:Hd; simpl; auto.
      destruct (ds_fwrite d fi (d_heap d b)) as [d1|] eqn:Hf; simpl; auto.
      destruct (negb (d_stopped d1) && d_flag d1); simpl.
      * apply map_upd_nth_same. intros x Hx. rewrite Hd in Hx. inversion Hx; subst. simpl. apply (fwrite_cfg _ _ _ _ Hf).
      * unfold wnext; simpl. apply map_upd_nth_same. intros x Hx. rewrite Hd in Hx. inversion Hx; subst. simpl. apply (fwrite_cfg _ _ _ _ Hf).
    + destruct (nth_error (s_ds s) i) as [d|] eqn:Hd; simpl; auto.
      destruct (ds_ffinal d fi (d_heap d b)) as [d1|] eqn:Hf; simpl; auto.
      unfold wnext; simpl. apply map_upd_nth_same. intros x Hx. rewrite Hd in Hx. inversion Hx; subst. simpl. apply (ffinal_cfg _ _ _ _ Hf).
Qed.

Lemma run_from_cfgs fuel : forall s sched, map d_cfg (s_ds (run_from fuel s sched)) = map d_cfg (s_ds s).
Proof.
  induction fuel as [|k IH]; intros s sched; simpl; [reflexivity|].
  destruct (crashed s); [reflexivity|]. destruct (pick s _) as [t|]; [|reflexivity].
  rewrite IH. apply step_cfgs.
Qed.

Lemma init_cfgs cfgs prog : map d_cfg (s_ds (init cfgs prog)) = cfgs.
Proof. simpl. rewrite map_map. simpl. apply map_id. Qed.

(* ---- what the invariant gives for a data set ------------------------------------------------------------------- *)
Definition nothing_lost (s : state) (d : dstate) : Prop :=
  exists pend, written d ++ tag (s_session s) pend ++ tag (s_session s) (d_heap d (d_rbuf d))
               = expected (d_cfg d) (g_arr s)
               /\ (pend = [] \/ pend = d_heap d (d_wbuf d)).

Definition files_complete (d : dstate) : Prop :=
  forall k f, nth_error (d_files d) k = Some f -> f_closed f = true /\ f_fin f <> None.

Lemma Inv_nothing_lost s j d : Inv s -> nth_error (s_ds s) j = Some d -> nothing_lost s d.
Proof.
  intros HI Hj. destruct (I_ds s HI j d Hj) as (A & _ & _). destruct A as [_ B _ _ _].
  destruct (pendingb _ _ _ _); [exists (d_heap d (d_wbuf d))|exists []]; split; auto.
Qed.

Lemma Inv_complete s j d :
  Inv s -> s_rec s = false -> nth_error (s_ds s) j = Some d ->
  written d = expected (d_cfg d) (g_arr s) /\ files_complete d.
Proof.
  intros HI Hrec Hj. destruct (I_ds s HI j d Hj) as (A & _ & _).
  destruct (I_E6 s HI Hrec) as (Hwtd & Hq).
  unfold pendingb, inactiveb in A. rewrite Hwtd, Hrec in A.
  assert (R : rpend (s_rpc s) j = false) by (destruct (s_rpc s); simpl in *; try discriminate; reflexivity).
  rewrite R in A. simpl in A. apply (dsI_complete _ _ _ _ A).
Qed.
