(* A schedule-level sufficient condition for the exclusion of C17_partial: if no recorder step is scheduled while the
   writer is between write_to_disk.clear() and write_finished.set() ("sequential hand-off"), the stale set() cannot
   happen. *)
From Coq Require Import ZArith List Bool Lia Arith.
From Logr Require Import Gen.LoggerConsts Model.Formats Model.Logger.
From Logr Require Import Proofs.LoggerData Proofs.LoggerInv Proofs.LoggerRun Proofs.LoggerFixedInv.
Import ListNotations.
Open Scope nat_scope.

Lemma rstep_wpc s : s_wpc (rstep s) = s_wpc s.
Proof.
  unfold rstep, rstep_op, stop_next, stop_finish.
  repeat (first [progress simpl | progress break_match]); reflexivity.
Qed.

Lemma wstep_stale_other s : s_wpc s <> W_SetWF -> g_stale (wstep s) = g_stale s.
Proof.
  intros H. unfold wstep, wnext. repeat (first [progress simpl | progress break_match]); try reflexivity; congruence.
Qed.

(* while the writer is in the window nothing is staged *)
Definition windowJ (s : state) : Prop := s_wpc s = W_SetWF -> s_wtd s = false /\ rlate (s_rpc s) = false.

Lemma window_step s t :
  Inv s -> g_stale s = false -> windowJ s -> enabled s t = true ->
  negb (in_window s && tid_eqb t R) = true ->
  g_stale (step s t) = false /\ windowJ (step s t).
Proof.
  intros HI Hst HJ Hen Hw. destruct t; unfold step.
  - (* recorder: not in the window *)
    assert (Hn : s_wpc s <> W_SetWF).
    { intros X. unfold in_window in Hw. rewrite X in Hw. discriminate. }
    split; [rewrite rstep_stale; exact Hst|]. unfold windowJ. rewrite rstep_wpc. intros X. contradiction.
  - destruct (s_wpc s) eqn:Ew.
    + split; [rewrite wstep_stale_other by congruence; exact Hst|].
      intros X. exfalso. revert X. apply wstep_not_setwf; congruence.
    + split; [rewrite wstep_stale_other by congruence; exact Hst|].
      intros X. exfalso. revert X. apply wstep_not_setwf; congruence.
    + split; [rewrite wstep_stale_other by congruence; exact Hst|].
      intros X. exfalso. revert X. apply wstep_not_setwf; congruence.
    + split; [rewrite wstep_stale_other by congruence; exact Hst|].
      intros X. exfalso. revert X. apply wstep_not_setwf; congruence.
    + (* W_ClearWTD: entering the window *)
      split; [rewrite wstep_stale_other by congruence; exact Hst|].
      destruct (busy_writer s HI) as (_ & Hl & _ & _); [rewrite Ew; reflexivity|].
      intros _. rewrite wstep_rpc. split; [|exact Hl]. unfold wstep. rewrite Ew. reflexivity.
    + (* W_SetWF: leaving it *)
      destruct (HJ Ew) as (Hwtd & Hl).
      split.
      * unfold wstep. rewrite Ew. simpl. rewrite Hst, Hwtd. simpl.
        destruct (s_rpc s); simpl in *; try reflexivity; discriminate.
      * intros X. unfold wstep in X. rewrite Ew in X. simpl in X. destruct (s_closing s); discriminate.
    + unfold enabled in Hen. rewrite Ew in Hen. discriminate.
Qed.

Theorem window_free_not_stale fuel : forall s sched,
  Inv s -> g_stale s = false -> windowJ s ->
  window_free_from fuel s sched = true -> g_stale (run_from fuel s sched) = false.
Proof.
  induction fuel as [|k IH]; intros s sched HI Hst HJ Hwf; simpl in *; [exact Hst|].
  destruct (crashed s); [exact Hst|].
  destruct (pick s _) as [t|] eqn:P; [|exact Hst].
  apply andb_true_iff in Hwf. destruct Hwf as (Hw & Hwf).
  pose proof (pick_enabled _ _ _ P) as Hen.
  destruct (window_step s t HI Hst HJ Hen Hw) as (Hst' & HJ').
  apply IH; auto. apply step_inv; assumption.
Qed.
