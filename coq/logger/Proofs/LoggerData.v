(* Per-data-set invariant of the logger model and its preservation by every data-set operation. *)
From Coq Require Import ZArith List Bool Lia Arith.
From Logr Require Import Gen.LoggerConsts Model.Formats Model.Logger.
Import ListNotations.
Open Scope nat_scope.

(* ---- lists ---------------------------------------------------------------------------------------------- *)
Lemma upd_nth_length {A} (f : A -> A) l n : length (upd_nth n f l) = length l.
Proof. revert n; induction l as [|x r IH]; intros [|n]; simpl; auto. Qed.

Lemma nth_error_upd_nth {A} (f : A -> A) l n k :
  nth_error (upd_nth n f l) k = if Nat.eqb k n then option_map f (nth_error l k) else nth_error l k.
Proof.
  revert n k; induction l as [|x r IH]; intros [|n] [|k]; simpl; auto;
    try (destruct (Nat.eqb k n); reflexivity).
Qed.

Lemma nth_error_upd_nth_same {A} (f : A -> A) l n x :
  nth_error l n = Some x -> nth_error (upd_nth n f l) n = Some (f x).
Proof. intros H. rewrite nth_error_upd_nth, Nat.eqb_refl, H. reflexivity. Qed.

Lemma nth_error_upd_nth_other {A} (f : A -> A) l n k :
  k <> n -> nth_error (upd_nth n f l) k = nth_error l k.
Proof. intros H. rewrite nth_error_upd_nth. apply Nat.eqb_neq in H. rewrite H. reflexivity. Qed.

Lemma last_split {A} (l : list A) x :
  nth_error l (pred (length l)) = Some x -> exists pre, l = pre ++ [x] /\ length pre = pred (length l).
Proof.
  intros H. destruct l as [|a r]; [discriminate|].
  assert (Hne : a :: r <> []) by discriminate.
  destruct (exists_last Hne) as (pre & y & E). rewrite E in *.
  rewrite app_length in H; simpl in H. replace (pred (length pre + 1)) with (length pre) in H by lia.
  rewrite nth_error_app2 in H by lia. rewrite Nat.sub_diag in H. simpl in H. inversion H; subst.
  exists pre. split; [reflexivity|]. rewrite app_length; simpl; lia.
Qed.

Lemma upd_nth_last {A} (g : A -> A) pre x : upd_nth (length pre) g (pre ++ [x]) = pre ++ [g x].
Proof. induction pre as [|a r IH]; simpl; [reflexivity|]. rewrite IH. reflexivity. Qed.

(* ---- tags, expected --------------------------------------------------------------------------------------- *)
Definition tag (s : nat) (l : list msg) : list (nat * msg) := map (pair s) l.

Lemma tag_app s a b : tag s (a ++ b) = tag s a ++ tag s b.
Proof. apply map_app. Qed.

Lemma expected_app c a b : expected c (a ++ b) = expected c a ++ expected c b.
Proof. apply filter_app. Qed.

Lemma expected_one c s m : expected c [(s, m)] = if selects c m then [(s, m)] else [].
Proof. reflexivity. Qed.

Definition files_written (fs : list file) : list (nat * msg) :=
  flat_map (fun f => map (pair (f_session f)) (f_msgs f)) fs.

Lemma written_files d : written d = files_written (d_files d).
Proof. reflexivity. Qed.

Lemma files_written_snoc pre f : files_written (pre ++ [f]) = files_written pre ++ tag (f_session f) (f_msgs f).
Proof. unfold files_written. rewrite flat_map_app. simpl. rewrite app_nil_r. reflexivity. Qed.

(* ---- the per-data-set invariant ----------------------------------------------------------------------------
   pend : the object bound to wbuf holds messages that are staged but not yet written
   inact: the data set is not recording (before start / already finalised by stop)
   dn   : the recorder has finished close() (the current file may then be closed without being finalised) *)
Record dsI (pend inact dn : bool) (sess : nat) (arr : list (nat * msg)) (d : dstate) : Prop := mkDsI {
  di_refs : d_rbuf d <> d_wbuf d /\ d_rbuf d < d_hnext d /\ d_wbuf d < d_hnext d;
  di_data : written d ++ (if pend then tag sess (d_heap d (d_wbuf d)) else []) ++ tag sess (d_heap d (d_rbuf d))
            = expected (d_cfg d) arr;
  di_cur : d_cur d = pred (length (d_files d));
  di_old : forall k f, nth_error (d_files d) k = Some f -> S k < length (d_files d) ->
           f_closed f = true /\ f_fin f <> None;
  di_last : if inact
            then (forall f, nth_error (d_files d) (d_cur d) = Some f -> f_closed f = true /\ f_fin f <> None)
                 /\ d_heap d (d_rbuf d) = []
            else exists f, nth_error (d_files d) (d_cur d) = Some f /\ f_fin f = None /\ f_session f = sess
                           /\ d_sess d = sess /\ (f_closed f = false \/ dn = true)
}.

Lemma hset_same h r v : hset h r v r = v.
Proof. unfold hset. rewrite Nat.eqb_refl. reflexivity. Qed.
Lemma hset_other h r v x : x <> r -> hset h r v x = h x.
Proof. intros H. unfold hset. apply Nat.eqb_neq in H. rewrite H. reflexivity. Qed.

(* initial state *)
Lemma dsI_init c sess : dsI false true false sess [] (d_init c).
Proof.
  constructor; simpl.
  - repeat split; lia.
  - reflexivity.
  - reflexivity.
  - intros k f H. destruct k; discriminate.
  - split; [intros f H; discriminate|reflexivity].
Qed.

(* update(): rbuf.append(msg) when selected; the subdivision deadline only touches flag / next *)
Lemma dsI_update p sess arr d m e :
  dsI p false false sess arr d ->
  dsI p false false sess (match m with Some x => arr ++ [(sess, x)] | None => arr end) (ds_update m e d).
Proof.
  intros [Hr Hd Hc Ho Hl].
  assert (K : forall d1 arr1, dsI p false false sess arr1 d1 ->
              dsI p false false sess arr1
                (if gt_opt e (d_next d1) then
                   mkD (d_cfg d1) (d_heap d1) (d_hnext d1) (d_rbuf d1) (d_wbuf d1) true
                       (match c_interval (d_cfg d1) with Some iv => Some (e + iv)%Z | None => None end)
                       (d_stopped d1) (d_sub d1) (d_sess d1) (d_files d1) (d_cur d1)
                 else d1)).
  { intros d1 arr1 [A B C D E]. destruct (gt_opt e (d_next d1)); constructor; simpl; auto. }
  unfold ds_update. apply K. destruct m as [x|]; [|constructor; auto].
  unfold ds_append. destruct (selects (d_cfg d) x) eqn:S.
  - constructor; simpl; auto.
    + rewrite hset_same. rewrite hset_other by (intro E; apply (proj1 Hr); auto).
      rewrite expected_app, expected_one, S, <- Hd. unfold written; simpl.
      rewrite tag_app. rewrite !app_assoc. reflexivity.
  - constructor; auto.
    rewrite expected_app, expected_one, S, app_nil_r. exact Hd.
Qed.

(* stage_for_write while nothing is pending *)
Lemma dsI_stage sess arr d :
  dsI false false false sess arr d -> dsI true false false sess arr (ds_stage d) /\ d_heap (ds_stage d) (d_rbuf (ds_stage d)) = [].
Proof.
  intros [Hr Hd Hc Ho Hl]. split; [constructor; simpl; auto|].
  - repeat split; lia.
  - rewrite hset_same. rewrite hset_other by lia. simpl in Hd. rewrite app_nil_r. exact Hd.
  - simpl. apply hset_same.
Qed.

Lemma cur_file_split d f :
  d_cur d = pred (length (d_files d)) -> nth_error (d_files d) (d_cur d) = Some f ->
  exists pre, d_files d = pre ++ [f] /\ d_cur d = length pre.
Proof.
  intros Hc H. rewrite Hc in H. destruct (last_split _ _ H) as (pre & E & L).
  exists pre. split; [exact E|]. rewrite Hc, L. reflexivity.
Qed.

Lemma old_files_snoc pre (f g : file) :
  (forall k x, nth_error (pre ++ [f]) k = Some x -> S k < length (pre ++ [f]) -> f_closed x = true /\ f_fin x <> None) ->
  (forall k x, nth_error (pre ++ [g]) k = Some x -> S k < length (pre ++ [g]) -> f_closed x = true /\ f_fin x <> None).
Proof.
  intros H k x Hk Hlt. rewrite app_length in Hlt; simpl in Hlt.
  apply (H k x); [|rewrite app_length; simpl; lia].
  rewrite nth_error_app1 in * by lia. exact Hk.
Qed.

(* DataSet.write of the pending buffer: formatter.write(wbuf); wbuf.clear() *)
Lemma dsI_fwrite sess arr d :
  dsI true false false sess arr d ->
  exists d1, ds_fwrite d (d_cur d) (d_heap d (d_wbuf d)) = Some d1 /\
    d_wbuf d1 = d_wbuf d /\ d_cur d1 = d_cur d /\ d_stopped d1 = d_stopped d /\ d_flag d1 = d_flag d /\
    forall fl nx st sb,
    dsI false false false sess arr
        (mkD (d_cfg d1) (hset (d_heap d1) (d_wbuf d1) []) (d_hnext d1) (d_rbuf d1) (d_wbuf d1) fl nx st sb
             (d_sess d1) (d_files d1) (d_cur d1)).
Proof.
  intros [Hr Hd Hc Ho Hl]. destruct Hl as (f & Hf & Hfin & Hs & Hds & [Hcl|Hcl]); [|discriminate].
  destruct (cur_file_split d f Hc Hf) as (pre & E & Ecur).
  unfold ds_fwrite. rewrite Hf. unfold file_write. rewrite Hcl, Hfin.
  eexists. split; [reflexivity|]. simpl. do 4 (split; [reflexivity|]).
  intros fl nx st sb. rewrite E, Ecur, upd_nth_last.
  constructor; simpl; auto.
  - rewrite hset_other by (apply (proj1 Hr)).
    unfold written; simpl. rewrite files_written_snoc. simpl.
    unfold written in Hd. rewrite E, files_written_snoc in Hd. rewrite <- Hd.
    unfold f_msgs; simpl. rewrite Hfin. rewrite !app_nil_r. rewrite concat_app. simpl. rewrite app_nil_r.
    rewrite Hs. rewrite tag_app. unfold f_msgs. rewrite <- !app_assoc. reflexivity.
  - rewrite app_length; simpl. lia.
  - apply (old_files_snoc pre f). rewrite <- E. exact Ho.
  - eexists. split; [rewrite nth_error_app2 by lia; rewrite Nat.sub_diag; reflexivity|]. simpl. auto.
Qed.

(* subdivide(): formatter.finalize(wbuf) with the just-cleared wbuf; close; open the next sub-file *)
Lemma dsI_subfinal sess arr d :
  dsI false false false sess arr d -> d_heap d (d_wbuf d) = [] ->
  exists d1, ds_ffinal d (d_cur d) (d_heap d (d_wbuf d)) = Some d1 /\
    dsI false false false sess arr (ds_open (ds_close d1) (d_sess d1) (d_sub d1)).
Proof.
  intros [Hr Hd Hc Ho Hl] Hw. destruct Hl as (f & Hf & Hfin & Hs & Hds & [Hcl|Hcl]); [|discriminate].
  destruct (cur_file_split d f Hc Hf) as (pre & E & Ecur).
  unfold ds_ffinal. rewrite Hf. unfold file_final. rewrite Hcl, Hfin.
  eexists. split; [reflexivity|]. rewrite Hw.
  unfold ds_close, ds_open; simpl. rewrite E, Ecur, !upd_nth_last. simpl.
  constructor; simpl; auto.
  - rewrite written_files; simpl. rewrite !files_written_snoc. simpl.
    rewrite written_files in Hd. rewrite E, files_written_snoc in Hd. simpl in Hd. rewrite <- Hd.
    unfold f_msgs; simpl. rewrite Hfin. rewrite !app_nil_r. reflexivity.
  - rewrite !app_length; simpl. lia.
  - intros k x Hk Hlt. rewrite !app_length in Hlt; simpl in Hlt.
    destruct (Nat.eq_dec k (length pre)) as [->|Hne].
    + rewrite nth_error_app1 in Hk by (rewrite app_length; simpl; lia).
      rewrite nth_error_app2 in Hk by lia. rewrite Nat.sub_diag in Hk. simpl in Hk. inversion Hk; subst; simpl.
      split; [reflexivity|discriminate].
    + rewrite nth_error_app1 in Hk by (rewrite app_length; simpl; lia).
      rewrite nth_error_app1 in Hk by lia.
      apply (Ho k x); [rewrite E; rewrite nth_error_app1 by lia; exact Hk|rewrite E, app_length; simpl; lia].
  - eexists. split; [rewrite nth_error_app2 by lia; rewrite Nat.sub_diag; reflexivity|]. simpl. auto.
Qed.

(* ds.stop() second half + ds.close(): formatter.finalize(wbuf) of the freshly staged buffer; close *)
Lemma dsI_stopfinal sess arr d :
  dsI true false false sess arr d -> d_heap d (d_rbuf d) = [] ->
  exists d1, ds_ffinal d (d_cur d) (d_heap d (d_wbuf d)) = Some d1 /\
    dsI false true false sess arr (ds_close d1).
Proof.
  intros [Hr Hd Hc Ho Hl] Hrb. destruct Hl as (f & Hf & Hfin & Hs & Hds & [Hcl|Hcl]); [|discriminate].
  destruct (cur_file_split d f Hc Hf) as (pre & E & Ecur).
  unfold ds_ffinal. rewrite Hf. unfold file_final. rewrite Hcl, Hfin.
  eexists. split; [reflexivity|].
  unfold ds_close; simpl. rewrite E, Ecur, !upd_nth_last. simpl.
  constructor; simpl; auto.
  - rewrite written_files; simpl. rewrite files_written_snoc. simpl.
    rewrite written_files in Hd. rewrite E, files_written_snoc in Hd. rewrite <- Hd.
    unfold f_msgs; simpl. rewrite Hfin, Hs, Hrb. simpl. rewrite !app_nil_r. rewrite tag_app.
    rewrite <- !app_assoc. reflexivity.
  - rewrite !app_length; simpl. lia.
  - apply (old_files_snoc pre f). rewrite <- E. exact Ho.
  - split; [|exact Hrb]. intros x Hx. rewrite ?Ecur in Hx. rewrite nth_error_app2 in Hx by lia. rewrite Nat.sub_diag in Hx.
    simpl in Hx. inversion Hx; subst; simpl. split; [reflexivity|discriminate].
Qed.

(* DataSet.start on an inactive data set *)
Lemma dsI_start sess arr d :
  dsI false true false sess arr d -> dsI false false false (S sess) arr (ds_start (S sess) d).
Proof.
  intros [Hr Hd Hc Ho Hl]. destruct Hl as (Hlast & Hrb).
  constructor; simpl; auto.
  - simpl in Hd. rewrite Hrb in *. simpl in *. rewrite written_files in *; simpl.
    unfold files_written. rewrite flat_map_app. simpl. rewrite !app_nil_r in *. exact Hd.
  - rewrite app_length; simpl. lia.
  - intros k x Hk Hlt. rewrite app_length in Hlt; simpl in Hlt.
    rewrite nth_error_app1 in Hk by lia.
    destruct (Nat.eq_dec (S k) (length (d_files d))) as [El|Hne].
    + apply Hlast. rewrite Hc, <- El. exact Hk.
    + apply (Ho k x Hk). lia.
  - eexists. split; [rewrite nth_error_app2 by lia; rewrite Nat.sub_diag; reflexivity|]. simpl. auto.
Qed.

(* the final ds.close() of DataCollection.close() *)
Lemma dsI_close p inact sess arr d :
  dsI p inact false sess arr d -> dsI p inact true sess arr (ds_close d).
Proof.
  intros [Hr Hd Hc Ho Hl].
  assert (W : written (ds_close d) = written d).
  { unfold written, ds_close; simpl. destruct (nth_error (d_files d) (d_cur d)) as [f|] eqn:Hf.
    - destruct (cur_file_split d f Hc Hf) as (pre & E & Ecur). rewrite E, Ecur, upd_nth_last.
      fold (files_written (pre ++ [close_file f])). fold (files_written (pre ++ [f])).
      rewrite !files_written_snoc. reflexivity.
    - assert (L : length (d_files d) <= d_cur d) by (apply nth_error_None; exact Hf).
      assert (Z : d_files d = []) by (destruct (d_files d); [reflexivity|simpl in *; lia]).
      rewrite Z. destruct (d_cur d); reflexivity. }
  constructor; auto.
  - rewrite W. exact Hd.
  - unfold ds_close; simpl. rewrite upd_nth_length. exact Hc.
  - unfold ds_close; simpl. intros k x Hk Hlt. rewrite upd_nth_length in Hlt.
    rewrite nth_error_upd_nth in Hk. destruct (Nat.eqb k (d_cur d)) eqn:Ek.
    + apply Nat.eqb_eq in Ek. lia.
    + apply (Ho k x Hk Hlt).
  - unfold ds_close; simpl. destruct inact.
    + destruct Hl as (Hlast & Hrb). split; [|exact Hrb]. intros f Hf.
      rewrite nth_error_upd_nth, Nat.eqb_refl in Hf.
      destruct (nth_error (d_files d) (d_cur d)) as [g|] eqn:Hg; [|discriminate].
      simpl in Hf. inversion Hf; subst. simpl. destruct (Hlast g eq_refl) as (_ & A). split; [reflexivity|exact A].
    + destruct Hl as (f & Hf & Hfin & Hs & Hds & _).
      exists (close_file f). split; [apply nth_error_upd_nth_same; exact Hf|]. simpl. auto.
Qed.

(* changing flags that the invariant does not mention *)
Lemma dsI_set_stopped p inact dn sess arr d b : dsI p inact dn sess arr d -> dsI p inact dn sess arr (set_stopped d b).
Proof. intros [A B C D E]. constructor; auto. Qed.

(* a pending buffer that is empty is as good as none; nothing pending can be declared pending when wbuf is empty *)
Lemma dsI_pend_drop inact dn sess arr d :
  dsI true inact dn sess arr d -> d_heap d (d_wbuf d) = [] -> dsI false inact dn sess arr d.
Proof. intros [A B C D E] H. constructor; auto. rewrite H in B. exact B. Qed.

(* ---- consequences ------------------------------------------------------------------------------------------ *)
Lemma dsI_nothing_lost p inact dn sess arr d :
  dsI p inact dn sess arr d ->
  exists pend, written d ++ tag sess pend ++ tag sess (d_heap d (d_rbuf d)) = expected (d_cfg d) arr.
Proof. intros [A B C D E]. destruct p; [exists (d_heap d (d_wbuf d))|exists []]; exact B. Qed.

Lemma dsI_complete dn sess arr d :
  dsI false true dn sess arr d ->
  written d = expected (d_cfg d) arr /\
  forall k f, nth_error (d_files d) k = Some f -> f_closed f = true /\ f_fin f <> None.
Proof.
  intros [A B C D E]. destruct E as (E1 & E2). split.
  - rewrite E2 in B. simpl in B. rewrite app_nil_r in B. exact B.
  - intros k f Hk. destruct (Nat.eq_dec (S k) (length (d_files d))) as [El|Hne].
    + apply E1. rewrite C, <- El. exact Hk.
    + apply (D k f Hk). assert (k < length (d_files d)) by (apply nth_error_Some; congruence). lia.
Qed.
