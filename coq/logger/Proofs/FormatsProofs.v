(* The file-format functions are inverse to the readers (raw, json lines, quicklogger), for every message list and
   every division of it into formatter.write calls followed by one finalize. *)
From Coq Require Import ZArith List Bool Lia Arith.
From Logr Require Import Model.Formats.
Import ListNotations.
Open Scope Z_scope.

(* well-formed message: 48 header bytes whose num_data_bytes field equals the payload length *)
Definition wf_msg (m : msg) : Prop :=
  length (m_hdr m) = HDR /\ hdr_ndb (m_hdr m) = length (m_data m).

(* ---- le32 ---------------------------------------------------------------------------------------------------- *)
Lemma de32_le32 x : 0 <= x < 4294967296 -> de32 (le32 x) = x.
Proof. intros H. unfold le32, de32. Z.div_mod_to_equations; lia. Qed.

Lemma le32_length x : length (le32 x) = 4%nat.
Proof. reflexivity. Qed.

Lemma firstn_app_exact {A} (a b : list A) n : length a = n -> firstn n (a ++ b) = a.
Proof. intros <-. rewrite firstn_app, Nat.sub_diag, firstn_all. simpl. apply app_nil_r. Qed.

Lemma skipn_app_exact {A} (a b : list A) n : length a = n -> skipn n (a ++ b) = b.
Proof. intros <-. rewrite skipn_app, Nat.sub_diag, skipn_all. reflexivity. Qed.

(* ---- raw ------------------------------------------------------------------------------------------------------- *)
Lemma raw_read_cons k x bs :
  raw_read (S k) (x :: bs) =
  if (length (x :: bs) <? HDR)%nat then None else
  let h := firstn HDR (x :: bs) in
  let n := hdr_ndb h in
  let rest := skipn HDR (x :: bs) in
  if (length rest <? n)%nat then None else
  match raw_read k (skipn n rest) with Some r => Some ((h, firstn n rest) :: r) | None => None end.
Proof. reflexivity. Qed.

Lemma raw_read_frames ms : forall fuel, (length ms < fuel)%nat -> Forall wf_msg ms ->
  raw_read fuel (flat_map raw_frame ms) = Some (map observe ms).
Proof.
  induction ms as [|m r IH]; intros fuel Hf Hwf.
  - destruct fuel; [simpl in Hf; lia|reflexivity].
  - destruct fuel as [|k]; [simpl in Hf; lia|].
    inversion Hwf as [|? ? (Hh & Hn) Hr]; subst.
    change (flat_map raw_frame (m :: r)) with ((m_hdr m ++ m_data m) ++ flat_map raw_frame r).
    rewrite <- app_assoc.
    destruct (m_hdr m ++ m_data m ++ flat_map raw_frame r) as [|x bs] eqn:E.
    { destruct (m_hdr m); [discriminate Hh|discriminate E]. }
    rewrite raw_read_cons. rewrite <- E. clear E x bs.
    assert (L : (length (m_hdr m ++ m_data m ++ flat_map raw_frame r) <? HDR)%nat = false).
    { apply Nat.ltb_ge. rewrite app_length. lia. }
    rewrite L. cbv zeta.
    rewrite (firstn_app_exact _ _ _ Hh), (skipn_app_exact _ _ _ Hh), Hn.
    assert (L2 : (length (m_data m ++ flat_map raw_frame r) <? length (m_data m))%nat = false).
    { apply Nat.ltb_ge. rewrite app_length. lia. }
    rewrite L2, (firstn_app_exact _ _ _ eq_refl), (skipn_app_exact _ _ _ eq_refl).
    rewrite IH; [reflexivity|simpl in Hf; lia|exact Hr].
Qed.

Theorem raw_roundtrip ms : Forall wf_msg ms -> read_raw (flat_map raw_frame ms) = Some (map observe ms).
Proof.
  intros H. unfold read_raw. apply raw_read_frames; [|exact H].
  assert (K : forall l, Forall wf_msg l -> (length l <= length (flat_map raw_frame l))%nat).
  { induction l as [|m r IH]; intros Hl; [simpl; lia|].
    inversion Hl as [|? ? (Hh & _) Hr]; subst. simpl. unfold raw_frame at 1. rewrite !app_length, Hh.
    specialize (IH Hr). unfold HDR. lia. }
  specialize (K ms H). lia.
Qed.

(* ---- json lines ------------------------------------------------------------------------------------------------ *)
Lemma split_lines_line l : forall cur rest, ~ In 10 l ->
  split_lines cur (l ++ 10 :: rest) =
  match split_lines [] rest with Some r => Some ((rev cur ++ l) :: r) | None => None end.
Proof.
  induction l as [|a l IH]; intros cur rest Hn; simpl.
  - rewrite app_nil_r. reflexivity.
  - destruct (a =? 10) eqn:E.
    + apply Z.eqb_eq in E. subst. exfalso. apply Hn. left. reflexivity.
    + rewrite IH by (intro X; apply Hn; right; exact X). simpl. rewrite <- app_assoc. reflexivity.
Qed.

Theorem json_roundtrip ms : Forall (fun m => ~ In 10 (m_json m)) ms ->
  read_json (flat_map json_line ms) = Some (map m_json ms).
Proof.
  unfold read_json. induction ms as [|m r IH]; intros H; [reflexivity|].
  inversion H; subst. simpl. unfold json_line at 1. rewrite <- app_assoc. simpl.
  rewrite split_lines_line by assumption. rewrite IH by assumption. reflexivity.
Qed.

(* ---- quicklogger ----------------------------------------------------------------------------------------------- *)
Definition dlen (m : msg) : Z := Z.of_nat (length (m_data m)).
Fixpoint ndbs (ms : list msg) : Z := match ms with [] => 0 | m :: r => dlen m + ndbs r end.
Fixpoint tots (ms : list msg) : Z := match ms with [] => 0 | m :: r => (4 + dlen m + 48) + tots r end.
Fixpoint offs (o : Z) (ms : list msg) : list Z := match ms with [] => [] | m :: r => o :: offs (o + dlen m) r end.

Lemma ndbs_app a b : ndbs (a ++ b) = ndbs a + ndbs b.
Proof. induction a; simpl; lia. Qed.
Lemma tots_app a b : tots (a ++ b) = tots a + tots b.
Proof. induction a; simpl; lia. Qed.
Lemma offs_app o a b : offs o (a ++ b) = offs o a ++ offs (o + ndbs a) b.
Proof.
  revert o; induction a as [|m r IH]; intros o; cbn [app offs ndbs]; [f_equal; lia|].
  rewrite IH. replace (o + dlen m + ndbs r) with (o + (dlen m + ndbs r)) by lia. reflexivity.
Qed.
Lemma offs_length o ms : length (offs o ms) = length ms.
Proof. revert o; induction ms; intros; simpl; auto. Qed.
Lemma ndbs_nonneg ms : 0 <= ndbs ms.
Proof. induction ms; simpl; unfold dlen; lia. Qed.
Lemma tots_ge ms : ndbs ms + 52 * Z.of_nat (length ms) = tots ms.
Proof. induction ms as [|m r IH]; [reflexivity|]. cbn [ndbs tots length]. lia. Qed.

(* the bytes a quicklogger file must have for the message list ms *)
Definition ql_bytes (ms : list msg) : list Z :=
  ql_header (24 + tots ms) (Z.of_nat (length ms)) (ndbs ms)
  ++ flat_map m_hdr ms ++ flat_map le32 (offs 0 ms) ++ flat_map m_data ms.

(* state after having written the messages ms in nw write calls *)
Definition ql_state (ms : list msg) (nw : nat) : fstate :=
  mkSt (ql_header (24 + tots ms) (Z.of_nat (length ms)) (ndbs ms) ++ flat_map m_hdr ms)
       (24 + tots ms) (Z.of_nat (length ms)) (ndbs ms) (ndbs ms) (offs 0 ms) nw (flat_map m_data ms).

Lemma ql_format_acc w : forall st,
  ql_format st w =
  mkSt (q_fd st ++ flat_map m_hdr w) (q_total st + tots w) (q_nmsg st + Z.of_nat (length w)) (q_ndb st + ndbs w)
       (q_ofs st + ndbs w) (q_offsets st ++ offs (q_ofs st) w) (q_nwrites st) (q_tmp st).
Proof.
  induction w as [|m r IH]; intros st.
  - destruct st; simpl. rewrite !app_nil_r, !Z.add_0_r. reflexivity.
  - cbn [ql_format]. rewrite IH. cbn [q_fd q_total q_nmsg q_ndb q_ofs q_offsets q_nwrites q_tmp].
    cbn [flat_map tots ndbs offs length]. fold (dlen m). rewrite <- !app_assoc. cbn [app].
    f_equal; lia.
Qed.

Lemma ql_header_length a b c : length (ql_header a b c) = QLH.
Proof. reflexivity. Qed.

Lemma ql_set_header_state ms nw extra tmp tot nm nd :
  ql_set_header (mkSt (ql_header tot nm nd ++ extra) (24 + tots ms) (Z.of_nat (length ms)) (ndbs ms) (ndbs ms)
                      (offs 0 ms) nw tmp)
  = mkSt (ql_header (24 + tots ms) (Z.of_nat (length ms)) (ndbs ms) ++ extra) (24 + tots ms) (Z.of_nat (length ms))
         (ndbs ms) (ndbs ms) (offs 0 ms) nw tmp.
Proof.
  unfold ql_set_header. cbn [q_fd q_total q_nmsg q_ndb q_ofs q_offsets q_nwrites q_tmp].
  rewrite (skipn_app_exact _ _ _ (ql_header_length tot nm nd)). reflexivity.
Qed.

Lemma ql_format_state ms nw w :
  ql_set_header (ql_format (ql_state ms nw) w) =
  mkSt (q_fd (ql_state (ms ++ w) nw)) (24 + tots (ms ++ w)) (Z.of_nat (length (ms ++ w))) (ndbs (ms ++ w))
       (ndbs (ms ++ w)) (offs 0 (ms ++ w)) nw (flat_map m_data ms).
Proof.
  rewrite ql_format_acc. unfold ql_state. cbn [q_fd q_total q_nmsg q_ndb q_ofs q_offsets q_nwrites q_tmp].
  rewrite <- app_assoc, <- flat_map_app.
  replace (24 + tots ms + tots w) with (24 + tots (ms ++ w)) by (rewrite tots_app; lia).
  replace (Z.of_nat (length ms) + Z.of_nat (length w)) with (Z.of_nat (length (ms ++ w))) by (rewrite app_length; lia).
  replace (ndbs ms + ndbs w) with (ndbs (ms ++ w)) by (rewrite ndbs_app; lia).
  replace (offs 0 ms ++ offs (ndbs ms) w) with (offs 0 (ms ++ w)) by (rewrite offs_app; reflexivity).
  apply ql_set_header_state.
Qed.

Lemma ql_write_state ms nw w : ql_write (ql_state ms nw) w = ql_state (ms ++ w) (S nw).
Proof.
  unfold ql_write. rewrite ql_format_state. unfold ql_state.
  cbn [q_fd q_total q_nmsg q_ndb q_ofs q_offsets q_nwrites q_tmp]. rewrite <- flat_map_app. reflexivity.
Qed.

Lemma ql_writes_state chunks : forall ms nw,
  fold_left ql_write chunks (ql_state ms nw) = ql_state (ms ++ concat chunks) (nw + length chunks).
Proof.
  induction chunks as [|w r IH]; intros ms nw; simpl.
  - rewrite app_nil_r, Nat.add_0_r. reflexivity.
  - rewrite ql_write_state, IH. rewrite <- app_assoc. f_equal. lia.
Qed.

Lemma ql_init_state : st_init FQL = ql_state [] 0.
Proof. reflexivity. Qed.

Lemma ql_finalize_state0 w : q_fd (ql_finalize (ql_state [] 0) w) = ql_bytes w.
Proof.
  unfold ql_finalize. cbn [ql_state q_nwrites].
  fold (ql_state [] 0). rewrite ql_format_state. unfold with_fd, ql_bytes, ql_state.
  cbn [q_fd q_total q_nmsg q_ndb q_ofs q_offsets q_nwrites q_tmp app]. rewrite <- !app_assoc. reflexivity.
Qed.

Lemma ql_finalize_stateS ms k w : q_fd (ql_finalize (ql_state ms (S k)) w) = ql_bytes (ms ++ w).
Proof.
  unfold ql_finalize. cbn [ql_state q_nwrites].
  fold (ql_state ms (S k)). rewrite ql_write_state. unfold with_fd, ql_bytes, ql_state.
  cbn [q_fd q_total q_nmsg q_ndb q_ofs q_offsets q_nwrites q_tmp]. rewrite <- !app_assoc. reflexivity.
Qed.

(* whatever the division into write calls, a finalised quicklogger file has the canonical bytes *)
Theorem ql_render f w : f_fin f = Some w -> render FQL f = ql_bytes (f_msgs f).
Proof.
  intros Hf. unfold render, f_msgs. rewrite Hf. cbn [st_write st_finalize].
  rewrite ql_init_state, ql_writes_state. cbn [app plus].
  destruct (f_writes f) as [|c r].
  - cbn [concat length app]. apply ql_finalize_state0.
  - cbn [length]. apply ql_finalize_stateS.
Qed.

Theorem raw_render f : render FRaw f = flat_map raw_frame (f_msgs f).
Proof.
  unfold render, f_msgs.
  assert (K : forall cs st, q_fd (fold_left (st_write FRaw) cs st) = q_fd st ++ flat_map raw_frame (concat cs)).
  { induction cs as [|c r IH]; intros st; simpl; [rewrite app_nil_r; reflexivity|].
    rewrite IH. simpl. rewrite flat_map_app, app_assoc. reflexivity. }
  destruct (f_fin f) as [w|]; cbn [st_finalize st_write with_fd q_fd]; rewrite K; simpl;
    rewrite ?flat_map_app, ?app_nil_r; reflexivity.
Qed.

Theorem json_render f : render FJson f = flat_map json_line (f_msgs f).
Proof.
  unfold render, f_msgs.
  assert (K : forall cs st, q_fd (fold_left (st_write FJson) cs st) = q_fd st ++ flat_map json_line (concat cs)).
  { induction cs as [|c r IH]; intros st; simpl; [rewrite app_nil_r; reflexivity|].
    rewrite IH. simpl. rewrite flat_map_app, app_assoc. reflexivity. }
  destruct (f_fin f) as [w|]; cbn [st_finalize st_write with_fd q_fd]; rewrite K; simpl;
    rewrite ?flat_map_app, ?app_nil_r; reflexivity.
Qed.

(* ---- QLReader.load on the canonical bytes ---------------------------------------------------------------------- *)
Lemma chunks_concat sz (ls : list (list Z)) X :
  Forall (fun l => length l = sz) ls -> chunks sz (length ls) (concat ls ++ X) = ls.
Proof.
  induction ls as [|l r IH]; intros H; [reflexivity|].
  inversion H; subst. cbn [length chunks concat]. rewrite <- app_assoc.
  rewrite (firstn_app_exact _ _ _ eq_refl), (skipn_app_exact _ _ _ eq_refl). rewrite IH by assumption. reflexivity.
Qed.

Lemma concat_length_const sz (ls : list (list Z)) :
  Forall (fun l => length l = sz) ls -> length (concat ls) = (sz * length ls)%nat.
Proof.
  induction ls as [|l r IH]; intros H; [simpl; lia|]. inversion H; subst. simpl. rewrite app_length, IH by assumption. lia.
Qed.

Lemma flat_map_concat_map {A B} (f : A -> list B) l : flat_map f l = concat (map f l).
Proof. induction l; simpl; [reflexivity|]. rewrite IHl. reflexivity. Qed.

Lemma offs_range o ms x : 0 <= o -> In x (offs o ms) -> o <= x <= o + ndbs ms.
Proof.
  revert o; induction ms as [|m r IH]; intros o Ho H; [destruct H|].
  cbn [offs ndbs] in *. pose proof (ndbs_nonneg r). assert (0 <= dlen m) by (unfold dlen; lia).
  destruct H as [<-|H]; [lia|]. specialize (IH (o + dlen m) ltac:(lia) H). lia.
Qed.

Lemma ql_data_slices ms : forall pre, Forall wf_msg ms ->
  map (fun ho : list Z * Z => (fst ho, firstn (hdr_ndb (fst ho)) (skipn (Z.to_nat (snd ho)) (pre ++ flat_map m_data ms))))
      (combine (map m_hdr ms) (offs (Z.of_nat (length pre)) ms))
  = map observe ms.
Proof.
  induction ms as [|m r IH]; intros pre H; [reflexivity|].
  inversion H as [|? ? (Hh & Hn) Hr]; subst.
  cbn [map offs combine fst snd flat_map]. rewrite Nat2Z.id, Hn.
  rewrite (skipn_app_exact _ _ _ eq_refl), (firstn_app_exact _ _ _ eq_refl).
  f_equal. specialize (IH (pre ++ m_data m) Hr).
  rewrite app_length, Nat2Z.inj_add in IH. fold (dlen m) in IH. rewrite <- app_assoc in IH. exact IH.
Qed.

Lemma ql_header_fields a b c rest :
  firstn 4 (skipn 8 (ql_header a b c ++ rest)) = le32 b /\
  firstn 4 (skipn 12 (ql_header a b c ++ rest)) = le32 48 /\
  firstn 4 (skipn 4 (ql_header a b c ++ rest)) = le32 a /\
  firstn 4 (skipn 20 (ql_header a b c ++ rest)) = le32 c /\
  skipn QLH (ql_header a b c ++ rest) = rest.
Proof. repeat split; reflexivity. Qed.

Theorem ql_roundtrip ms :
  Forall wf_msg ms -> 24 + tots ms < 4294967296 -> read_ql (ql_bytes ms) = Some (map observe ms).
Proof.
  intros Hwf Hlt. unfold read_ql, ql_bytes.
  set (rest := flat_map m_hdr ms ++ flat_map le32 (offs 0 ms) ++ flat_map m_data ms).
  destruct (ql_header_fields (24 + tots ms) (Z.of_nat (length ms)) (ndbs ms) rest) as (F1 & F2 & _ & _ & F5).
  pose proof (ndbs_nonneg ms) as Hnn. pose proof (tots_ge ms) as Htg.
  assert (L : (length (ql_header (24 + tots ms) (Z.of_nat (length ms)) (ndbs ms) ++ rest) <? QLH)%nat = false).
  { apply Nat.ltb_ge. rewrite app_length, ql_header_length. lia. }
  rewrite L, F1, F2, F5. rewrite !de32_le32 by lia. rewrite Nat2Z.id.
  change (Z.to_nat 48) with 48%nat.
  assert (Hhs : Forall (fun l => length l = 48%nat) (map m_hdr ms)).
  { apply Forall_map. eapply Forall_impl; [|exact Hwf]. intros m (A & _). exact A. }
  assert (Hos : Forall (fun l => length l = 4%nat) (map le32 (offs 0 ms))).
  { apply Forall_map. apply Forall_forall. intros x _. reflexivity. }
  assert (L1 : length (flat_map m_hdr ms) = (48 * length ms)%nat).
  { rewrite flat_map_concat_map, (concat_length_const 48) by exact Hhs. rewrite map_length. reflexivity. }
  assert (L2 : length (flat_map le32 (offs 0 ms)) = (4 * length ms)%nat).
  { rewrite flat_map_concat_map, (concat_length_const 4) by exact Hos. rewrite map_length, offs_length. reflexivity. }
  assert (L3 : (length rest <? 48 * length ms + 4 * length ms)%nat = false).
  { apply Nat.ltb_ge. unfold rest. rewrite !app_length, L1, L2. lia. }
  rewrite L3.
  assert (C1 : chunks 48 (length ms) rest = map m_hdr ms).
  { unfold rest. rewrite flat_map_concat_map. rewrite <- (map_length m_hdr ms) at 1. apply chunks_concat. exact Hhs. }
  assert (S1 : skipn (48 * length ms) rest = flat_map le32 (offs 0 ms) ++ flat_map m_data ms).
  { unfold rest. apply skipn_app_exact. exact L1. }
  rewrite C1, S1.
  assert (C2 : chunks 4 (length ms) (flat_map le32 (offs 0 ms) ++ flat_map m_data ms) = map le32 (offs 0 ms)).
  { rewrite flat_map_concat_map. rewrite <- (offs_length 0 ms) at 1. rewrite <- (map_length le32 (offs 0 ms)) at 1.
    apply chunks_concat. exact Hos. }
  assert (S2 : skipn (4 * length ms) (flat_map le32 (offs 0 ms) ++ flat_map m_data ms) = flat_map m_data ms).
  { apply skipn_app_exact. exact L2. }
  rewrite C2, S2.
  assert (D : map de32 (map le32 (offs 0 ms)) = offs 0 ms).
  { rewrite map_map. rewrite <- (map_id (offs 0 ms)) at 2. apply map_ext_in. intros x Hx.
    apply de32_le32. pose proof (offs_range 0 ms x ltac:(lia) Hx). lia. }
  rewrite D.
  pose proof (ql_data_slices ms [] Hwf) as K. cbn [app length] in K. change (Z.of_nat 0) with 0 in K. rewrite K.
  assert (Fb : forallb (fun hd : list Z * list Z => (length (snd hd) =? hdr_ndb (fst hd))%nat) (map observe ms) = true).
  { apply forallb_forall. intros hd Hin. apply in_map_iff in Hin. destruct Hin as (m & <- & Hm).
    rewrite Forall_forall in Hwf. destruct (Hwf m Hm) as (_ & Hn). simpl. rewrite Hn. apply Nat.eqb_refl. }
  rewrite Fb. reflexivity.
Qed.

(* header fields of the canonical bytes *)
Theorem ql_header_ok ms : Forall wf_msg ms -> 24 + tots ms < 4294967296 ->
  ql_field 1 (ql_bytes ms) = Z.of_nat (length (ql_bytes ms)) /\      (* total_bytes = file size *)
  ql_field 2 (ql_bytes ms) = Z.of_nat (length ms) /\                 (* num_messages *)
  ql_field 5 (ql_bytes ms) = ndbs ms.                                (* num_data_bytes *)
Proof.
  intros Hwf Hlt.
  unfold ql_field, ql_bytes.
  set (rest := flat_map m_hdr ms ++ flat_map le32 (offs 0 ms) ++ flat_map m_data ms).
  destruct (ql_header_fields (24 + tots ms) (Z.of_nat (length ms)) (ndbs ms) rest) as (F1 & _ & F3 & F4 & _).
  pose proof (ndbs_nonneg ms) as Hnn. pose proof (tots_ge ms) as Htg.
  change (4 * 1)%nat with 4%nat. change (4 * 2)%nat with 8%nat. change (4 * 5)%nat with 20%nat.
  rewrite F1, F3, F4. rewrite !de32_le32 by lia.
  split; [|split; reflexivity].
  rewrite app_length, ql_header_length. unfold rest. rewrite !app_length.
  assert (Hhs : Forall (fun l => length l = 48%nat) (map m_hdr ms)).
  { apply Forall_map. eapply Forall_impl; [|exact Hwf]. intros m (A & _). exact A. }
  assert (Hos : Forall (fun l => length l = 4%nat) (map le32 (offs 0 ms))).
  { apply Forall_map. apply Forall_forall. intros x _. reflexivity. }
  rewrite (flat_map_concat_map m_hdr), (concat_length_const 48) by exact Hhs.
  rewrite (flat_map_concat_map le32), (concat_length_const 4) by exact Hos.
  rewrite !map_length, offs_length.
  assert (Ld : Z.of_nat (length (flat_map m_data ms)) = ndbs ms).
  { clear. induction ms as [|m r IH]; [reflexivity|]. cbn [flat_map ndbs]. rewrite app_length, Nat2Z.inj_add, IH. reflexivity. }
  unfold QLH. lia.
Qed.
