(* The inductive invariant of the two-thread logger model (current code), for every program and every schedule in
   which the writer never performs a STALE write_finished.set() (ghost flag g_stale stays false). *)
From Coq Require Import ZArith List Bool Lia Arith.
From Logr Require Import Gen.LoggerConsts Model.Formats Model.Logger Proofs.LoggerData.
Import ListNotations.
Open Scope nat_scope.
Arguments upd_nth : simpl never.

(* ---- who owns what, as a function of the program counters ------------------------------------------------- *)
Definition widle (p : wpc) : bool := match p with W_Wait | W_SetWF | W_Done => true | _ => false end.

(* the writer has not yet written the staged buffer of data set j (meaningful while write_to_disk is set) *)
Definition wpend (p : wpc) (j : nat) : bool :=
  match p with
  | W_Wait | W_SetWF | W_Done => true
  | W_DsWrite i => i <=? j
  | W_FmtWrite i _ _ => i <=? j
  | W_SubFinal i _ _ => i <? j
  | W_ClearWTD => false
  end.

(* the recorder has staged data set j and not yet handed it over / finalised it *)
Definition rpend (p : rpc) (j : nat) : bool :=
  match p with
  | R_TwStage i => j <? i
  | R_TwClearWF | R_TwSetWTD => true
  | R_StopFinal i _ _ => j =? i
  | _ => false
  end.

Definition pendingb (rp : rpc) (wp : wpc) (wtd : bool) (j : nat) : bool := rpend rp j || (wtd && wpend wp j).

Definition rlate (p : rpc) : bool :=
  match p with
  | R_TwStage _ | R_TwClearWF | R_TwSetWTD | R_StopClearWTD | R_StopClearWF | R_StopStage _ | R_StopFinal _ _ _ => true
  | _ => false
  end.
Definition rquiet (p : rpc) : bool := match p with R_Op | R_Join | R_Done => true | _ => false end.
Definition isdone (p : rpc) : bool := match p with R_Done => true | _ => false end.

Definition inactiveb (rp : rpc) (rec : bool) (j : nat) : bool :=
  negb rec || match rp with R_StopStage i => j <? i | R_StopFinal i _ _ => j <? i | _ => false end.

Definition ridx (p : rpc) (n : nat) : Prop :=
  match p with R_TwStage i => i < n | R_StopStage i => i < n | R_StopFinal i _ _ => i < n | _ => True end.
Definition widx (p : wpc) (n : nat) : Prop :=
  match p with W_DsWrite i => i < n | W_FmtWrite i _ _ => i < n | W_SubFinal i _ _ => i < n | _ => True end.

Definition wargs (p : wpc) (j : nat) (d : dstate) : Prop :=
  match p with
  | W_FmtWrite i fi b => j = i -> fi = d_cur d /\ b = d_wbuf d
  | W_SubFinal i fi b => j = i -> fi = d_cur d /\ b = d_wbuf d /\ d_heap d b = []
  | _ => True
  end.
Definition rargs (p : rpc) (j : nat) (d : dstate) : Prop :=
  match p with
  | R_StopFinal i fi b => j = i -> fi = d_cur d /\ b = d_wbuf d /\ d_heap d (d_rbuf d) = []
  | _ => True
  end.

Definition dsOK (s : state) (j : nat) (d : dstate) : Prop :=
  dsI (pendingb (s_rpc s) (s_wpc s) (s_wtd s) j) (inactiveb (s_rpc s) (s_rec s) j) (isdone (s_rpc s))
      (s_session s) (g_arr s) d
  /\ wargs (s_wpc s) j d /\ rargs (s_rpc s) j d.

Record Inv (s : state) : Prop := mkInv {
  I_crash : s_crash s = None;
  I_E1 : s_wtd s = false -> widle (s_wpc s) = true;
  I_E2 : s_wtd s = true -> s_wf s = false;
  I_E3 : rlate (s_rpc s) = true -> s_wtd s = false;
  I_E4 : s_rpc s = R_TwSetWTD -> s_wf s = false;
  I_E6 : s_rec s = false -> s_wtd s = false /\ rquiet (s_rpc s) = true;
  I_E7 : rquiet (s_rpc s) = false -> s_rec s = true;
  I_E8 : s_rpc s = R_Done -> s_wpc s = W_Done;
  I_ridx : ridx (s_rpc s) (nds s);
  I_widx : widx (s_wpc s) (nds s);
  I_ds : forall j d, nth_error (s_ds s) j = Some d -> dsOK s j d
}.

(* ---- small facts --------------------------------------------------------------------------------------------- *)
Lemma nth_lt {A} (l : list A) j d : nth_error l j = Some d -> j < length l.
Proof. intros H. apply nth_error_Some. congruence. Qed.

Lemma nth_some {A} (l : list A) j : j < length l -> exists d, nth_error l j = Some d.
Proof. intros H. destruct (nth_error l j) eqn:E; [eauto|]. apply nth_error_None in E. lia. Qed.

Lemma dsI_cast p p' i i' dn dn' sess arr d :
  p = p' -> i = i' -> dn = dn' -> dsI p i dn sess arr d -> dsI p' i' dn' sess arr d.
Proof. intros; subst; assumption. Qed.

Lemma wargs_idle p j d : widle p = true -> wargs p j d.
Proof. destruct p; simpl; intros; try discriminate; exact I. Qed.

Lemma rpend_notlate p j : rlate p = false -> rpend p j = false.
Proof. destruct p; simpl; intros; try discriminate; reflexivity. Qed.

Lemma inactive_notlate p rec j : rlate p = false -> inactiveb p rec j = negb rec.
Proof. destruct p; simpl; intros; try discriminate; apply orb_false_r. Qed.

Lemma wargs_update p j d m e :
  d_rbuf d <> d_wbuf d -> wargs p j d -> wargs p j (ds_update m e d).
Proof.
  intros Hne H.
  assert (A : d_cur (ds_update m e d) = d_cur d /\ d_wbuf (ds_update m e d) = d_wbuf d /\
              d_heap (ds_update m e d) (d_wbuf d) = d_heap d (d_wbuf d)).
  { unfold ds_update. set (d1 := match m with Some x => ds_append x d | None => d end).
    assert (B : d_cur d1 = d_cur d /\ d_wbuf d1 = d_wbuf d /\ d_heap d1 (d_wbuf d) = d_heap d (d_wbuf d)).
    { subst d1. destruct m as [x|]; [|auto]. unfold ds_append. destruct (selects (d_cfg d) x); [|auto].
      simpl. repeat split. apply hset_other. congruence. }
    destruct (gt_opt e (d_next d1)); simpl; exact B. }
  destruct A as (A1 & A2 & A3).
  destruct p; simpl in *; auto; intros Hj; specialize (H Hj).
  - rewrite A1, A2. exact H.
  - destruct H as (H1 & H2 & H3). rewrite A1, A2. repeat split; auto. subst b. rewrite A3. exact H3.
Qed.

Lemma dsOK_widle_norargs s j d p i dn :
  widle (s_wpc s) = true ->
  match s_rpc s with R_StopFinal _ _ _ => False | _ => True end ->
  dsI p i dn (s_session s) (g_arr s) d ->
  p = pendingb (s_rpc s) (s_wpc s) (s_wtd s) j -> i = inactiveb (s_rpc s) (s_rec s) j -> dn = isdone (s_rpc s) ->
  dsOK s j d.
Proof.
  intros Hw Hr H -> -> ->. split; [exact H|]. split; [apply wargs_idle; exact Hw|].
  destruct (s_rpc s); simpl; auto. contradiction.
Qed.

(* ---- initial state ------------------------------------------------------------------------------------------- *)
Lemma Inv_init cfgs prog : Inv (init cfgs prog).
Proof.
  constructor; simpl; auto; try discriminate.
  intros j d H. rewrite nth_error_map in H. destruct (nth_error cfgs j); [|discriminate]. inversion H; subst.
  split; [|split; exact I]. simpl. apply dsI_init.
Qed.

(* ---- lookups after an update ----------------------------------------------------------------------------------- *)
Lemma nth_upd_cases {A} (f : A -> A) l i j d' :
  nth_error (upd_nth i f l) j = Some d' ->
  (j = i /\ exists d, nth_error l i = Some d /\ d' = f d) \/ (j <> i /\ nth_error l j = Some d').
Proof.
  intros H. rewrite nth_error_upd_nth in H. destruct (Nat.eqb j i) eqn:E.
  - apply Nat.eqb_eq in E. subst. left. split; [reflexivity|].
    destruct (nth_error l i); [|discriminate]. simpl in H. inversion H. eauto.
  - apply Nat.eqb_neq in E. right. auto.
Qed.

Lemma busy_writer s :
  Inv s -> widle (s_wpc s) = false ->
  s_wtd s = true /\ rlate (s_rpc s) = false /\ s_rec s = true /\ isdone (s_rpc s) = false.
Proof.
  intros HI Hb.
  assert (Hw : s_wtd s = true).
  { destruct (s_wtd s) eqn:E; [reflexivity|]. rewrite (I_E1 s HI E) in Hb. discriminate. }
  split; [exact Hw|]. split.
  - destruct (rlate (s_rpc s)) eqn:E; [|reflexivity]. rewrite (I_E3 s HI E) in Hw. discriminate.
  - split.
    + destruct (s_rec s) eqn:E; [reflexivity|]. destruct (I_E6 s HI E) as (A & _). congruence.
    + destruct (s_rpc s) eqn:E; try reflexivity. rewrite (I_E8 s HI E) in Hb. discriminate.
Qed.

Lemma busy_pending s j :
  Inv s -> widle (s_wpc s) = false ->
  pendingb (s_rpc s) (s_wpc s) (s_wtd s) j = wpend (s_wpc s) j /\ inactiveb (s_rpc s) (s_rec s) j = false.
Proof.
  intros HI Hb. destruct (busy_writer s HI Hb) as (A & B & C & D).
  unfold pendingb. rewrite (rpend_notlate _ _ B), A, (inactive_notlate _ _ _ B), C. auto.
Qed.

Lemma rargs_notlate p j d : rlate p = false -> rargs p j d.
Proof. destruct p; simpl; intros; try discriminate; exact I. Qed.

(* ---- writer steps ------------------------------------------------------------------------------------------------ *)
Lemma winv_wait s : Inv s -> s_wpc s = W_Wait -> Inv (wstep s).
Proof.
  intros HI Ew. pose proof HI as [Hcr E1 E2 E3 E4 E6 E7 E8 Hri Hwi Hds].
  unfold wstep. rewrite Ew. unfold nds in *. destruct (s_wtd s) eqn:Hwtd.
  - assert (Hnd : s_rpc s <> R_Done) by (intro X; rewrite (E8 X) in Ew; discriminate).
    destruct (length (s_ds s)) eqn:En.
    + constructor; unfold nds; simpl; rewrite ?En; auto; try congruence; try (rewrite ?Hwtd; auto; fail).
      intros j d Hj. apply nth_lt in Hj. lia.
    + constructor; unfold nds; simpl; rewrite ?En; auto; try congruence; try (rewrite ?Hwtd; auto; fail).
      * lia.
      * intros j d Hj. destruct (Hds j d Hj) as (A & B & C). unfold dsOK; simpl.
        rewrite Ew in A. split; [|split; [exact I|exact C]].
        eapply dsI_cast; [| | |exact A]; auto.
  - constructor; unfold nds; simpl; auto; try congruence; try (rewrite ?Hwtd; auto; fail).
    intros j d Hj. destruct (Hds j d Hj) as (A & B & C). unfold dsOK; simpl.
    rewrite Ew in A. split; [|split; [exact I|exact C]]. exact A.
Qed.

Lemma winv_dswrite s i : Inv s -> s_wpc s = W_DsWrite i -> Inv (wstep s).
Proof.
  intros HI Ew. pose proof HI as [Hcr E1 E2 E3 E4 E6 E7 E8 Hri Hwi Hds].
  destruct (busy_writer s HI) as (Hwtd & Hlate & Hrec & Hdn); [rewrite Ew; reflexivity|].
  rewrite Ew in Hwi; simpl in Hwi. destruct (nth_some _ _ Hwi) as (d & Hd).
  unfold wstep. rewrite Ew, Hd.
  constructor; unfold nds in *; simpl; auto; try congruence.
  - intros X. rewrite X in Hdn. discriminate.
  - intros j d' Hj. destruct (Hds j d' Hj) as (A & B & C). unfold dsOK; simpl.
    rewrite Ew in A. split; [exact A|]. split; [|exact C].
    intros ->. rewrite Hd in Hj. inversion Hj; subst. auto.
Qed.

Lemma wnext_inv s s1 i :
  Inv s -> widle (s_wpc s) = false -> i < nds s ->
  s_wtd s1 = s_wtd s -> s_wf s1 = s_wf s -> s_rpc s1 = s_rpc s -> s_rec s1 = s_rec s -> s_crash s1 = s_crash s ->
  s_session s1 = s_session s -> g_arr s1 = g_arr s -> nds s1 = nds s ->
  (forall j d, nth_error (s_ds s1) j = Some d ->
     dsI (if Nat.eqb j i then false else wpend (s_wpc s) j) false false (s_session s) (g_arr s) d) ->
  (forall j, j <> i -> wpend (s_wpc s) j = (i <? j)) ->
  Inv (wnext s1 i).
Proof.
  intros HI Hb Hi Hwtd1 Hwf1 Hrpc1 Hrec1 Hcr1 Hse1 Har1 Hnd1 Hds1 Hwp.
  pose proof HI as [Hcr E1 E2 E3 E4 E6 E7 E8 Hri Hwi Hds].
  destruct (busy_writer s HI Hb) as (Hwtd & Hlate & Hrec & Hdn).
  unfold wnext. rewrite Hnd1.
  constructor; simpl; rewrite ?Hwtd1, ?Hwf1, ?Hrpc1, ?Hrec1, ?Hcr1, ?Hse1, ?Har1, ?Hnd1; auto; try congruence.
  - intros X. rewrite X in Hdn. discriminate.
  - replace (nds (set_wpc s1 (if S i <? nds s then W_DsWrite (S i) else W_ClearWTD))) with (nds s1) by reflexivity.
    rewrite Hnd1. exact Hri.
  - replace (nds (set_wpc s1 (if S i <? nds s then W_DsWrite (S i) else W_ClearWTD))) with (nds s1) by reflexivity.
    rewrite Hnd1. destruct (S i <? nds s) eqn:L; simpl; [apply Nat.ltb_lt in L; exact L|exact I].
  - intros j d Hj. pose proof (Hds1 j d Hj) as A. pose proof (nth_lt _ _ _ Hj) as Lj. fold (nds s1) in Lj.
    rewrite Hnd1 in Lj.
    unfold dsOK; simpl. rewrite ?Hwtd1, ?Hwf1, ?Hrpc1, ?Hrec1, ?Hcr1, ?Hse1, ?Har1.
    split; [|split; [destruct (S i <? nds s); exact I|apply rargs_notlate; exact Hlate]].
    eapply dsI_cast; [| | |exact A].
    + unfold pendingb. rewrite (rpend_notlate _ _ Hlate), Hwtd. simpl.
      destruct (Nat.eqb j i) eqn:Eji.
      * apply Nat.eqb_eq in Eji. subst j. destruct (S i <? nds s); unfold wpend; [|reflexivity].
        symmetry. apply Nat.leb_gt. lia.
      * apply Nat.eqb_neq in Eji. rewrite (Hwp j Eji).
        destruct (S i <? nds s) eqn:L; unfold wpend.
        -- destruct (i <? j) eqn:X; [apply Nat.ltb_lt in X; symmetry; apply Nat.leb_le; lia|
                                      apply Nat.ltb_ge in X; symmetry; apply Nat.leb_gt; lia].
        -- apply Nat.ltb_ge in L. apply Nat.ltb_ge. lia.
    + rewrite (inactive_notlate _ _ _ Hlate), Hrec. reflexivity.
    + symmetry. exact Hdn.
Qed.

Lemma leb_ltb_other i j : j <> i -> (i <=? j) = (i <? j).
Proof.
  intros H. destruct (i <? j) eqn:X.
  - apply Nat.ltb_lt in X. apply Nat.leb_le. lia.
  - apply Nat.ltb_ge in X. apply Nat.leb_gt. lia.
Qed.

Lemma winv_fmtwrite s i fi b : Inv s -> s_wpc s = W_FmtWrite i fi b -> Inv (wstep s).
Proof.
  intros HI Ew. pose proof HI as [Hcr E1 E2 E3 E4 E6 E7 E8 Hri Hwi Hds].
  assert (Hb : widle (s_wpc s) = false) by (rewrite Ew; reflexivity).
  destruct (busy_writer s HI Hb) as (Hwtd & Hlate & Hrec & Hdn).
  rewrite Ew in Hwi; simpl in Hwi. destruct (nth_some _ _ Hwi) as (d & Hd).
  destruct (Hds i d Hd) as (HdI & Hwa & Hra).
  rewrite Ew in Hwa. simpl in Hwa. destruct (Hwa eq_refl) as (Efi & Eb). subst fi b.
  destruct (busy_pending s i HI Hb) as (P & Ia). rewrite P, Ia, Hdn, Ew in HdI. simpl in HdI.
  rewrite Nat.leb_refl in HdI.
  destruct (dsI_fwrite _ _ _ HdI) as (d1 & Hfw & Hwb & Hcu & Hsp & Hfl & Hgen).
  unfold wstep. rewrite Ew, Hd, Hfw. cbn [set_heap d_stopped d_flag].
  assert (Hrest : forall j d', j <> i -> nth_error (s_ds s) j = Some d' ->
            dsI (wpend (s_wpc s) j) false false (s_session s) (g_arr s) d').
  { intros j d' Hne Hj. destruct (Hds j d' Hj) as (A & _ & _).
    destruct (busy_pending s j HI Hb) as (Pj & Ij). rewrite Pj, Ij, Hdn in A. exact A. }
  destruct (negb (d_stopped d1) && d_flag d1) eqn:Esub.
  - (* subdivide *)
    constructor; unfold nds in *; simpl; rewrite ?upd_nth_length; auto; try congruence.
    + intros X. rewrite X in Hdn. discriminate.
    + intros j d' Hj. unfold dsOK; simpl.
      destruct (nth_upd_cases _ _ _ _ _ Hj) as [(-> & d0 & Hd0 & ->)|(Hne & Hj')].
      * split; [|split; [|apply rargs_notlate; exact Hlate]].
        -- eapply dsI_cast; [| | |apply Hgen].
           ++ unfold pendingb. rewrite (rpend_notlate _ _ Hlate), Hwtd. simpl. rewrite Nat.ltb_irrefl. reflexivity.
           ++ rewrite (inactive_notlate _ _ _ Hlate), Hrec. reflexivity.
           ++ symmetry; exact Hdn.
        -- intros _. simpl. repeat split; auto. apply hset_same.
      * split; [|split; [|apply rargs_notlate; exact Hlate]].
        -- eapply dsI_cast; [| | |apply (Hrest j d' Hne Hj')].
           ++ unfold pendingb. rewrite (rpend_notlate _ _ Hlate), Hwtd, Ew. simpl. apply leb_ltb_other. exact Hne.
           ++ rewrite (inactive_notlate _ _ _ Hlate), Hrec. reflexivity.
           ++ symmetry; exact Hdn.
        -- intros ->. contradiction.
  - apply (wnext_inv s); unfold nds; simpl; rewrite ?upd_nth_length; auto.
    + intros j d' Hj. destruct (nth_upd_cases _ _ _ _ _ Hj) as [(-> & d0 & Hd0 & ->)|(Hne & Hj')].
      * rewrite Nat.eqb_refl. apply Hgen.
      * apply Nat.eqb_neq in Hne. rewrite Hne. apply Nat.eqb_neq in Hne. apply (Hrest j d' Hne Hj').
    + intros j Hne. rewrite Ew. simpl. apply leb_ltb_other. exact Hne.
Qed.

Lemma winv_subfinal s i fi b : Inv s -> s_wpc s = W_SubFinal i fi b -> Inv (wstep s).
Proof.
  intros HI Ew. pose proof HI as [Hcr E1 E2 E3 E4 E6 E7 E8 Hri Hwi Hds].
  assert (Hb : widle (s_wpc s) = false) by (rewrite Ew; reflexivity).
  destruct (busy_writer s HI Hb) as (Hwtd & Hlate & Hrec & Hdn).
  rewrite Ew in Hwi; simpl in Hwi. destruct (nth_some _ _ Hwi) as (d & Hd).
  destruct (Hds i d Hd) as (HdI & Hwa & Hra).
  rewrite Ew in Hwa. simpl in Hwa. destruct (Hwa eq_refl) as (Efi & Eb & Hempty). subst fi b.
  destruct (busy_pending s i HI Hb) as (P & Ia). rewrite P, Ia, Hdn, Ew in HdI. simpl in HdI.
  rewrite Nat.ltb_irrefl in HdI.
  destruct (dsI_subfinal _ _ _ HdI Hempty) as (d1 & Hff & Hnew).
  unfold wstep. rewrite Ew, Hd, Hff.
  apply (wnext_inv s); unfold nds; simpl; rewrite ?upd_nth_length; auto.
  - intros j d' Hj. destruct (nth_upd_cases _ _ _ _ _ Hj) as [(-> & d0 & Hd0 & ->)|(Hne & Hj')].
    + rewrite Nat.eqb_refl. exact Hnew.
    + apply Nat.eqb_neq in Hne. rewrite Hne. apply Nat.eqb_neq in Hne.
      destruct (Hds j d' Hj') as (A & _ & _).
      destruct (busy_pending s j HI Hb) as (Pj & Ij). rewrite Pj, Ij, Hdn in A. exact A.
  - intros j Hne. rewrite Ew. reflexivity.
Qed.

Lemma winv_clearwtd s : Inv s -> s_wpc s = W_ClearWTD -> Inv (wstep s).
Proof.
  intros HI Ew. pose proof HI as [Hcr E1 E2 E3 E4 E6 E7 E8 Hri Hwi Hds].
  assert (Hb : widle (s_wpc s) = false) by (rewrite Ew; reflexivity).
  destruct (busy_writer s HI Hb) as (Hwtd & Hlate & Hrec & Hdn).
  unfold wstep. rewrite Ew.
  constructor; unfold nds in *; simpl; auto; try congruence.
  - intros X. rewrite X in Hdn. discriminate.
  - intros j d Hj. destruct (Hds j d Hj) as (A & B & C). unfold dsOK; simpl.
    split; [|split; [exact I|exact C]].
    eapply dsI_cast; [| | |exact A]; auto.
    unfold pendingb. rewrite Ew, Hwtd. simpl. reflexivity.
Qed.

Lemma winv_setwf s : Inv s -> s_wpc s = W_SetWF -> g_stale (wstep s) = false -> Inv (wstep s).
Proof.
  intros HI Ew Hst. pose proof HI as [Hcr E1 E2 E3 E4 E6 E7 E8 Hri Hwi Hds].
  unfold wstep in *. rewrite Ew in *. simpl in Hst.
  apply orb_false_iff in Hst. destruct Hst as (Hst & Hnt). apply orb_false_iff in Hst. destruct Hst as (_ & Hwtd).
  assert (Hnd : s_rpc s <> R_Done) by (intro X; specialize (E8 X); discriminate).
  constructor; unfold nds in *; simpl; auto; try congruence.
  - intros _. destruct (s_closing s); reflexivity.
  - intros X. rewrite X in Hnt. discriminate.
  - destruct (s_closing s); exact I.
  - intros j d Hj. destruct (Hds j d Hj) as (A & B & C). unfold dsOK; simpl.
    split; [|split; [destruct (s_closing s); exact I|exact C]].
    eapply dsI_cast; [| | |exact A]; auto.
    unfold pendingb. rewrite Hwtd. simpl. reflexivity.
Qed.

Lemma wstep_inv s : Inv s -> enabled s W = true -> g_stale (wstep s) = false -> Inv (wstep s).
Proof.
  intros HI Hen Hst. destruct (s_wpc s) eqn:Ew.
  - apply winv_wait; assumption.
  - eapply winv_dswrite; eassumption.
  - eapply winv_fmtwrite; eassumption.
  - eapply winv_subfinal; eassumption.
  - apply winv_clearwtd; assumption.
  - apply winv_setwf; assumption.
  - unfold enabled in Hen. rewrite Ew in Hen. discriminate.
Qed.

(* ---- recorder steps ---------------------------------------------------------------------------------------------- *)
(* a step that changes only recorder-private fields and moves between program counters that own nothing *)
Lemma rinv_private s s1 :
  Inv s ->
  s_ds s1 = s_ds s -> s_wtd s1 = s_wtd s -> s_wf s1 = s_wf s -> s_wpc s1 = s_wpc s -> s_rec s1 = s_rec s ->
  s_crash s1 = s_crash s -> s_session s1 = s_session s -> g_arr s1 = g_arr s ->
  rlate (s_rpc s) = false -> rlate (s_rpc s1) = false -> s_rpc s <> R_Done -> s_rpc s1 <> R_Done ->
  (rquiet (s_rpc s1) = false -> s_rec s = true) ->
  (s_rec s = false -> rquiet (s_rpc s1) = true) ->
  Inv s1.
Proof.
  intros HI Hds1 Hwtd1 Hwf1 Hwpc1 Hrec1 Hcr1 Hse1 Har1 Hl Hl1 Hnd Hnd1 Hq1 Hq2.
  pose proof HI as [Hcr E1 E2 E3 E4 E6 E7 E8 Hri Hwi Hds].
  constructor; unfold nds in *; rewrite ?Hds1, ?Hwtd1, ?Hwf1, ?Hwpc1, ?Hrec1, ?Hcr1, ?Hse1, ?Har1; auto.
  - intros X. rewrite X in Hl1. discriminate.
  - intros X. rewrite X in Hl1. discriminate.
  - intros X. split; [apply E6; exact X|apply Hq2; exact X].
  - intros X. contradiction.
  - destruct (s_rpc s1); simpl in *; try exact I; discriminate.
  - intros j d Hj. destruct (Hds j d Hj) as (A & B & C). unfold dsOK.
    rewrite ?Hds1, ?Hwtd1, ?Hwf1, ?Hwpc1, ?Hrec1, ?Hcr1, ?Hse1, ?Har1.
    split; [|split; [exact B|apply rargs_notlate; exact Hl1]].
    eapply dsI_cast; [| | |exact A].
    + unfold pendingb. rewrite (rpend_notlate _ _ Hl), (rpend_notlate _ _ Hl1). reflexivity.
    + rewrite (inactive_notlate _ _ _ Hl), (inactive_notlate _ _ _ Hl1). reflexivity.
    + destruct (s_rpc s); destruct (s_rpc s1); try reflexivity; congruence.
Qed.

Lemma dsOK_quiet_wtdfalse s j d :
  Inv s -> s_wtd s = false -> rlate (s_rpc s) = false -> nth_error (s_ds s) j = Some d ->
  dsI false (negb (s_rec s)) (isdone (s_rpc s)) (s_session s) (g_arr s) d.
Proof.
  intros HI Hw Hl Hj. destruct (I_ds s HI j d Hj) as (A & _ & _).
  unfold pendingb in A. rewrite (rpend_notlate _ _ Hl), Hw, (inactive_notlate _ _ _ Hl) in A. exact A.
Qed.

Lemma rinv_op s : Inv s -> s_rpc s = R_Op -> Inv (rstep s).
Proof.
  intros HI Er. pose proof HI as [Hcr E1 E2 E3 E4 E6 E7 E8 Hri Hwi Hds].
  unfold rstep. rewrite Er. unfold rstep_op.
  destruct (s_prog s) as [|o rest] eqn:Ep.
  - (* close() *)
    apply (rinv_private s); simpl; auto; rewrite ?Er; simpl; auto; congruence.
  - destruct o.
    + (* Start *)
      destruct (s_rec s) eqn:Hrec.
      * apply (rinv_private s); simpl; auto; rewrite ?Er; simpl; auto; congruence.
      * destruct (E6 eq_refl) as (Hwtd & _).
        constructor; unfold nds in *; simpl; rewrite ?map_length, ?Er in *; auto; try congruence.
        intros j d' Hj. rewrite nth_error_map in Hj.
        destruct (nth_error (s_ds s) j) as [d|] eqn:Hd; [|discriminate]. simpl in Hj. inversion Hj; subst d'.
        pose proof (dsOK_quiet_wtdfalse s j d HI Hwtd) as A. rewrite Er, Hrec in A. simpl in A.
        specialize (A eq_refl Hd).
        unfold dsOK; simpl. rewrite Hwtd, Er. split; [|split; [apply wargs_idle; apply E1; exact Hwtd|exact I]].
        simpl. apply dsI_start. exact A.
    + (* Stop *)
      destruct (s_rec s) eqn:Hrec.
      * apply (rinv_private s); simpl; auto; rewrite ?Er; simpl; auto; congruence.
      * apply (rinv_private s); simpl; auto; rewrite ?Er; simpl; auto; congruence.
    + apply (rinv_private s); simpl; auto; rewrite ?Er; simpl; auto; congruence.
    + apply (rinv_private s); simpl; auto; rewrite ?Er; simpl; auto; congruence.
    + apply (rinv_private s); simpl; auto; rewrite ?Er; simpl; auto; congruence.
    + (* Upd *)
      destruct (s_paused s || negb (s_rec s)) eqn:Hg.
      * apply (rinv_private s); simpl; auto; rewrite ?Er; simpl; auto; congruence.
      * apply orb_false_iff in Hg. destruct Hg as (_ & Hrec). apply negb_false_iff in Hrec.
        set (e := (s_acc s + (s_now s - s_ref s))%Z).
        set (wr := existsb (fun d => gt_opt e (d_next d)) (s_ds s) || (s_nextw s <? e)%Z).
        assert (Hl1 : rlate (if wr then R_UpdIsSet else R_Op) = false) by (destruct wr; reflexivity).
        constructor; unfold nds in *; simpl; rewrite ?map_length; auto.
        -- intros X. rewrite X in Hl1. discriminate.
        -- intros X. rewrite X in Hl1. discriminate.
        -- congruence.
        -- destruct wr; discriminate.
        -- destruct wr; exact I.
        -- intros j d' Hj. rewrite nth_error_map in Hj.
           destruct (nth_error (s_ds s) j) as [d|] eqn:Hd; [|discriminate]. simpl in Hj. inversion Hj; subst d'.
           destruct (Hds j d Hd) as (A & B & C). unfold dsOK; simpl.
           rewrite Er in A. unfold pendingb, inactiveb in A. rewrite Hrec in A. simpl in A.
           split; [|split; [|apply rargs_notlate; exact Hl1]].
           ++ eapply dsI_cast; [| | |].
              4:{ apply dsI_update. exact A. }
              ** unfold pendingb. rewrite (rpend_notlate _ _ Hl1). reflexivity.
              ** rewrite (inactive_notlate _ _ _ Hl1), Hrec. reflexivity.
              ** destruct wr; reflexivity.
           ++ apply wargs_update; [apply (di_refs _ _ _ _ _ _ A)|exact B].
Qed.

Lemma rinv_updisset s : Inv s -> s_rpc s = R_UpdIsSet -> Inv (rstep s).
Proof.
  intros HI Er. pose proof HI as [Hcr E1 E2 E3 E4 E6 E7 E8 Hri Hwi Hds].
  unfold rstep. rewrite Er. destruct (s_wtd s) eqn:Hwtd.
  - apply (rinv_private s); simpl; auto; rewrite ?Er; simpl; auto; congruence.
  - assert (Hrec : s_rec s = true) by (apply E7; rewrite Er; reflexivity).
    unfold nds. destruct (length (s_ds s)) eqn:En.
    + constructor; unfold nds in *; simpl; rewrite ?En; auto; try congruence.
      intros j d Hj. apply nth_lt in Hj. lia.
    + constructor; unfold nds in *; simpl; rewrite ?En; auto; try congruence.
      * lia.
      * intros j d Hj. destruct (Hds j d Hj) as (A & B & C). unfold dsOK; simpl.
        rewrite Er in A. split; [exact A|split; [exact B|exact I]].
Qed.

Lemma ltb_other i j : j <> i -> (j <? S i) = (j <? i).
Proof.
  intros H. destruct (j <? i) eqn:X.
  - apply Nat.ltb_lt in X. apply Nat.ltb_lt. lia.
  - apply Nat.ltb_ge in X. apply Nat.ltb_ge. lia.
Qed.

Lemma rinv_twstage s i : Inv s -> s_rpc s = R_TwStage i -> Inv (rstep s).
Proof.
  intros HI Er. pose proof HI as [Hcr E1 E2 E3 E4 E6 E7 E8 Hri Hwi Hds].
  assert (Hwtd : s_wtd s = false) by (apply E3; rewrite Er; reflexivity).
  assert (Hrec : s_rec s = true) by (apply E7; rewrite Er; reflexivity).
  rewrite Er in Hri. simpl in Hri.
  unfold rstep. rewrite Er.
  assert (Hl1 : rlate (if S i <? nds s then R_TwStage (S i) else R_TwClearWF) = true) by (destruct (S i <? nds s); reflexivity).
  constructor; unfold nds in *; simpl; rewrite ?upd_nth_length; auto; try congruence.
  - destruct (S i <? length (s_ds s)); discriminate.
  - destruct (S i <? length (s_ds s)); discriminate.
  - destruct (S i <? length (s_ds s)) eqn:L; simpl; [apply Nat.ltb_lt; exact L|exact I].
  - intros j d' Hj. pose proof (nth_lt _ _ _ Hj) as Lj. rewrite upd_nth_length in Lj.
    unfold dsOK; simpl. rewrite Hwtd, Hrec.
    split; [|split; [apply wargs_idle; apply E1; exact Hwtd|destruct (S i <? length (s_ds s)); exact I]].
    destruct (nth_upd_cases _ _ _ _ _ Hj) as [(-> & d0 & Hd0 & ->)|(Hne & Hj')].
    + destruct (Hds i d0 Hd0) as (A & _ & _). rewrite Er, Hwtd, Hrec in A. unfold pendingb, inactiveb in A. simpl in A.
      rewrite Nat.ltb_irrefl in A. simpl in A.
      eapply dsI_cast; [| | |apply (proj1 (dsI_stage _ _ _ A))].
      * unfold pendingb. destruct (S i <? length (s_ds s)); simpl; [|reflexivity].
        rewrite orb_false_r. symmetry. apply Nat.ltb_lt. lia.
      * unfold inactiveb. destruct (S i <? length (s_ds s)); reflexivity.
      * destruct (S i <? length (s_ds s)); reflexivity.
    + destruct (Hds j d' Hj') as (A & _ & _). rewrite Er, Hwtd, Hrec in A. unfold pendingb, inactiveb in A. simpl in A.
      eapply dsI_cast; [| | |exact A].
      * unfold pendingb. destruct (S i <? length (s_ds s)) eqn:L; simpl.
        -- rewrite !orb_false_r. symmetry. apply ltb_other. exact Hne.
        -- rewrite orb_false_r. apply Nat.ltb_ge in L. apply Nat.ltb_lt. lia.
      * unfold inactiveb. destruct (S i <? length (s_ds s)); reflexivity.
      * destruct (S i <? length (s_ds s)); reflexivity.
Qed.

Lemma rinv_twclearwf s : Inv s -> s_rpc s = R_TwClearWF -> Inv (rstep s).
Proof.
  intros HI Er. pose proof HI as [Hcr E1 E2 E3 E4 E6 E7 E8 Hri Hwi Hds].
  assert (Hwtd : s_wtd s = false) by (apply E3; rewrite Er; reflexivity).
  assert (Hrec : s_rec s = true) by (apply E7; rewrite Er; reflexivity).
  unfold rstep. rewrite Er.
  constructor; unfold nds in *; simpl; auto; try congruence.
  intros j d Hj. destruct (Hds j d Hj) as (A & B & C). unfold dsOK; simpl.
  rewrite Er in A. split; [exact A|split; [exact B|exact I]].
Qed.

Lemma rinv_twsetwtd s : Inv s -> s_rpc s = R_TwSetWTD -> Inv (rstep s).
Proof.
  intros HI Er. pose proof HI as [Hcr E1 E2 E3 E4 E6 E7 E8 Hri Hwi Hds].
  assert (Hwtd : s_wtd s = false) by (apply E3; rewrite Er; reflexivity).
  assert (Hrec : s_rec s = true) by (apply E7; rewrite Er; reflexivity).
  pose proof (E1 Hwtd) as Hidle.
  unfold rstep. rewrite Er.
  constructor; unfold nds in *; simpl; auto; try congruence.
  - intros j d Hj. destruct (Hds j d Hj) as (A & B & C). unfold dsOK; simpl.
    rewrite Er in A. split; [|split; [exact B|exact I]].
    eapply dsI_cast; [| | |exact A].
    + unfold pendingb. simpl. destruct (s_wpc s); simpl in *; try reflexivity; discriminate.
    + reflexivity.
    + reflexivity.
Qed.

Lemma rinv_stopisset s : Inv s -> s_rpc s = R_StopIsSet -> Inv (rstep s).
Proof.
  intros HI Er. pose proof HI as [Hcr E1 E2 E3 E4 E6 E7 E8 Hri Hwi Hds].
  assert (Hrec : s_rec s = true) by (apply E7; rewrite Er; reflexivity).
  unfold rstep. rewrite Er. destruct (s_wtd s) eqn:Hwtd.
  - apply (rinv_private s); simpl; auto; rewrite ?Er; simpl; auto; congruence.
  - constructor; unfold nds in *; simpl; auto; try congruence.
    intros j d Hj. destruct (Hds j d Hj) as (A & B & C). unfold dsOK; simpl.
    rewrite Er in A. split; [exact A|split; [exact B|exact I]].
Qed.

Lemma rinv_stopwait s : Inv s -> s_rpc s = R_StopWait -> enabled s R = true -> Inv (rstep s).
Proof.
  intros HI Er Hen. pose proof HI as [Hcr E1 E2 E3 E4 E6 E7 E8 Hri Hwi Hds].
  assert (Hrec : s_rec s = true) by (apply E7; rewrite Er; reflexivity).
  unfold enabled in Hen. rewrite Er in Hen.
  assert (Hwtd : s_wtd s = false).
  { destruct (s_wtd s) eqn:X; [|reflexivity]. rewrite (E2 eq_refl) in Hen. discriminate. }
  unfold rstep. rewrite Er.
  constructor; unfold nds in *; simpl; auto; try congruence.
  intros j d Hj. destruct (Hds j d Hj) as (A & B & C). unfold dsOK; simpl.
  rewrite Er in A. split; [exact A|split; [exact B|exact I]].
Qed.

Lemma rinv_stopclearwtd s : Inv s -> s_rpc s = R_StopClearWTD -> Inv (rstep s).
Proof.
  intros HI Er. pose proof HI as [Hcr E1 E2 E3 E4 E6 E7 E8 Hri Hwi Hds].
  assert (Hwtd : s_wtd s = false) by (apply E3; rewrite Er; reflexivity).
  assert (Hrec : s_rec s = true) by (apply E7; rewrite Er; reflexivity).
  unfold rstep. rewrite Er.
  constructor; unfold nds in *; simpl; auto; try congruence.
  intros j d Hj. destruct (Hds j d Hj) as (A & B & C). unfold dsOK; simpl.
  rewrite Er, Hwtd in A. split; [exact A|split; [exact B|exact I]].
Qed.

Lemma rinv_stopclearwf s : Inv s -> s_rpc s = R_StopClearWF -> Inv (rstep s).
Proof.
  intros HI Er. pose proof HI as [Hcr E1 E2 E3 E4 E6 E7 E8 Hri Hwi Hds].
  assert (Hwtd : s_wtd s = false) by (apply E3; rewrite Er; reflexivity).
  assert (Hrec : s_rec s = true) by (apply E7; rewrite Er; reflexivity).
  unfold rstep. rewrite Er. unfold nds. simpl. destruct (length (s_ds s)) eqn:En.
  - unfold stop_finish.
    constructor; unfold nds in *; simpl; rewrite ?En; auto; try congruence.
    intros j d Hj. apply nth_lt in Hj. lia.
  - constructor; unfold nds in *; simpl; rewrite ?upd_nth_length, ?En; auto; try congruence.
    + lia.
    + intros j d' Hj. unfold dsOK; simpl. rewrite Hwtd, Hrec.
      split; [|split; [apply wargs_idle; apply E1; exact Hwtd|exact I]].
      assert (K : forall d, nth_error (s_ds s) j = Some d -> dsI false false false (s_session s) (g_arr s) d).
      { intros d Hd. destruct (Hds j d Hd) as (A & _ & _). rewrite Er, Hwtd, Hrec in A. exact A. }
      eapply dsI_cast with (p := false) (i := false) (dn := false); try reflexivity.
      destruct (nth_upd_cases _ _ _ _ _ Hj) as [(-> & d0 & Hd0 & ->)|(Hne & Hj')].
      * apply dsI_set_stopped. apply K. exact Hd0.
      * apply K. exact Hj'.
Qed.

Lemma rinv_stopstage s i : Inv s -> s_rpc s = R_StopStage i -> Inv (rstep s).
Proof.
  intros HI Er. pose proof HI as [Hcr E1 E2 E3 E4 E6 E7 E8 Hri Hwi Hds].
  assert (Hwtd : s_wtd s = false) by (apply E3; rewrite Er; reflexivity).
  assert (Hrec : s_rec s = true) by (apply E7; rewrite Er; reflexivity).
  rewrite Er in Hri. simpl in Hri. unfold nds in Hri.
  destruct (nth_some _ _ Hri) as (d & Hd).
  unfold rstep. rewrite Er. rewrite (nth_error_upd_nth_same ds_stage _ _ _ Hd).
  destruct (Hds i d Hd) as (A & _ & _). rewrite Er, Hwtd, Hrec in A. unfold pendingb, inactiveb in A. simpl in A.
  rewrite Nat.ltb_irrefl in A. destruct (dsI_stage _ _ _ A) as (A1 & A2).
  constructor; unfold nds in *; simpl; rewrite ?upd_nth_length; auto; try congruence.
  intros j d' Hj. unfold dsOK; simpl. rewrite Hwtd, Hrec.
  split; [|split; [apply wargs_idle; apply E1; exact Hwtd|]].
  - destruct (nth_upd_cases _ _ _ _ _ Hj) as [(-> & d0 & Hd0 & ->)|(Hne & Hj')].
    + rewrite Hd in Hd0. inversion Hd0; subst d0.
      eapply dsI_cast; [| | |exact A1].
      * unfold pendingb. simpl. rewrite Nat.eqb_refl. reflexivity.
      * unfold inactiveb. simpl. rewrite Nat.ltb_irrefl. reflexivity.
      * reflexivity.
    + destruct (Hds j d' Hj') as (B & _ & _). rewrite Er, Hwtd, Hrec in B. unfold pendingb, inactiveb in B. simpl in B.
      eapply dsI_cast; [| | |exact B].
      * unfold pendingb. simpl. apply Nat.eqb_neq in Hne. rewrite Hne. reflexivity.
      * reflexivity.
      * reflexivity.
  - intros ->. rewrite (nth_error_upd_nth_same ds_stage _ _ _ Hd) in Hj. inversion Hj; subst d'.
    simpl. repeat split; auto.
Qed.

Lemma rinv_stopfinal s i fi b : Inv s -> s_rpc s = R_StopFinal i fi b -> Inv (rstep s).
Proof.
  intros HI Er. pose proof HI as [Hcr E1 E2 E3 E4 E6 E7 E8 Hri Hwi Hds].
  assert (Hwtd : s_wtd s = false) by (apply E3; rewrite Er; reflexivity).
  assert (Hrec : s_rec s = true) by (apply E7; rewrite Er; reflexivity).
  rewrite Er in Hri. simpl in Hri. unfold nds in Hri.
  destruct (nth_some _ _ Hri) as (d & Hd).
  destruct (Hds i d Hd) as (A & _ & C). rewrite Er, Hwtd, Hrec in A. unfold pendingb, inactiveb in A. simpl in A.
  rewrite Nat.eqb_refl, Nat.ltb_irrefl in A. simpl in A.
  rewrite Er in C. simpl in C. destruct (C eq_refl) as (-> & -> & Hrb).
  destruct (dsI_stopfinal _ _ _ A Hrb) as (d1 & Hff & A1).
  assert (Hidle : widle (s_wpc s) = true) by (apply E1; exact Hwtd).
  assert (Kold : forall j d', j <> i -> nth_error (s_ds s) j = Some d' ->
                   dsI false (j <? i) false (s_session s) (g_arr s) d').
  { intros j d' Hne Hj. destruct (Hds j d' Hj) as (B & _ & _). rewrite Er, Hwtd, Hrec in B.
    unfold pendingb, inactiveb in B. simpl in B. apply Nat.eqb_neq in Hne. rewrite Hne in B. exact B. }
  unfold rstep. rewrite Er, Hd, Hff. unfold stop_next. unfold nds. simpl. rewrite upd_nth_length.
  destruct (S i <? length (s_ds s)) eqn:L.
  - apply Nat.ltb_lt in L.
    constructor; unfold nds in *; simpl; rewrite ?upd_nth_length; auto; try congruence.
    intros j d' Hj. unfold dsOK; simpl. rewrite Hwtd, Hrec.
    split; [|split; [apply wargs_idle; exact Hidle|exact I]].
    unfold pendingb, inactiveb. simpl.
    assert (K : forall d2, nth_error (upd_nth i (fun _ => ds_close d1) (s_ds s)) j = Some d2 ->
                dsI false (j <? S i) false (s_session s) (g_arr s) d2).
    { intros d2 H2. destruct (nth_upd_cases _ _ _ _ _ H2) as [(-> & d0 & Hd0 & ->)|(Hne & Hj')].
      - replace (i <? S i) with true by (symmetry; apply Nat.ltb_lt; lia). exact A1.
      - rewrite (ltb_other _ _ Hne). apply Kold; assumption. }
    destruct (nth_upd_cases _ _ _ _ _ Hj) as [(-> & d0 & Hd0 & ->)|(Hne & Hj')].
    + apply dsI_set_stopped. apply K. exact Hd0.
    + apply K. exact Hj'.
  - apply Nat.ltb_ge in L. unfold stop_finish.
    constructor; unfold nds in *; simpl; rewrite ?upd_nth_length; auto; try congruence.
    intros j d' Hj. pose proof (nth_lt _ _ _ Hj) as Lj. rewrite upd_nth_length in Lj.
    unfold dsOK; simpl. rewrite Hwtd.
    split; [|split; [apply wargs_idle; exact Hidle|exact I]].
    unfold pendingb, inactiveb. simpl.
    destruct (nth_upd_cases _ _ _ _ _ Hj) as [(-> & d0 & Hd0 & ->)|(Hne & Hj')].
    + exact A1.
    + replace true with (j <? i) by (apply Nat.ltb_lt; lia). apply Kold; assumption.
Qed.

Lemma rinv_join s : Inv s -> s_rpc s = R_Join -> enabled s R = true -> Inv (rstep s).
Proof.
  intros HI Er Hen. pose proof HI as [Hcr E1 E2 E3 E4 E6 E7 E8 Hri Hwi Hds].
  unfold enabled in Hen. rewrite Er in Hen.
  assert (Hw : s_wpc s = W_Done) by (destruct (s_wpc s); try discriminate; reflexivity).
  unfold rstep. rewrite Er.
  constructor; unfold nds in *; simpl; rewrite ?map_length; auto; try congruence.
  - intros X. destruct (E6 X). split; auto.
  - intros j d' Hj. rewrite nth_error_map in Hj.
    destruct (nth_error (s_ds s) j) as [d|] eqn:Hd; [|discriminate]. simpl in Hj. inversion Hj; subst d'.
    destruct (Hds j d Hd) as (A & _ & _). rewrite Er in A. unfold dsOK; simpl.
    split; [|split; [rewrite Hw; exact I|exact I]].
    apply dsI_close. exact A.
Qed.

Theorem step_inv s t : Inv s -> enabled s t = true -> g_stale (step s t) = false -> Inv (step s t).
Proof.
  intros HI Hen Hst. destruct t; unfold step in *.
  - destruct (s_rpc s) eqn:Er.
    + apply rinv_op; assumption.
    + apply rinv_updisset; assumption.
    + eapply rinv_twstage; eassumption.
    + apply rinv_twclearwf; assumption.
    + apply rinv_twsetwtd; assumption.
    + apply rinv_stopisset; assumption.
    + apply rinv_stopwait; assumption.
    + apply rinv_stopclearwtd; assumption.
    + apply rinv_stopclearwf; assumption.
    + eapply rinv_stopstage; eassumption.
    + eapply rinv_stopfinal; eassumption.
    + apply rinv_join; assumption.
    + unfold enabled in Hen. rewrite Er in Hen. discriminate.
  - apply wstep_inv; assumption.
Qed.
