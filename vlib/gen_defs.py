"""Regenerate coq/defs/Gen/*.v from /repo (write-if-changed)."""
from .framework import COQ, write_if_changed
from .translate import tables


def regen():
    """returns list of (file, error) for translators that failed closed"""
    errs = []
    d = COQ / "defs" / "Gen"
    d.mkdir(parents=True, exist_ok=True)
    try:
        write_if_changed(d / "TypeTables.v", tables.render())
    except Exception as e:  # TranslateError or anything else: fail closed
        errs.append(("TypeTables.v", f"{type(e).__name__}: {e}"))
    try:  # C12/C13: parser guards, namespaces, section order (+ skeleton checks)
        from .translate import guards_defs
        write_if_changed(d / "Guards.v", guards_defs.render())
    except Exception as e:
        errs.append(("Guards.v", f"{type(e).__name__}: {e}"))
    try:  # C16(c): the shipped core YAML files as a Model/Emit.v closure, and what core_defs.py contains
        from .translate import coredefs
        write_if_changed(d / "CoreYaml.v", coredefs.render_core_yaml())
    except Exception as e:
        errs.append(("CoreYaml.v", f"{type(e).__name__}: {e}"))
    try:
        from .translate import coredefs
        write_if_changed(d / "CoreDefs.v", coredefs.render_core_defs())
    except Exception as e:
        errs.append(("CoreDefs.v", f"{type(e).__name__}: {e}"))
    try:  # C04/C15: how add_fields turns the evaluated length expression into Field.length (int() cast, minimum)
        from .translate import emit_guards
        write_if_changed(d / "EmitGuards.v", emit_guards.render())
    except Exception as e:
        errs.append(("EmitGuards.v", f"{type(e).__name__}: {e}"))
    return errs
