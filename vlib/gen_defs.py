"""Regenerate coq/defs/Gen/*.v from /repo (write-if-changed)."""
from .framework import COQ, write_if_changed
from .translate import tables


def regen():
    """returns list of (file, error) for translators that failed closed"""
    errs = []
    d = COQ / "defs" / "Gen"
    d.mkdir(parents=True, exist_ok=True)
    try:
        write_if_changed(d / "TypeTables.v", tables.render())
    except Exception as e:  # TranslateError or anything else: fail closed
        errs.append(("TypeTables.v", f"{type(e).__name__}: {e}"))
    try:  # C12/C13: parser guards, namespaces, section order (+ skeleton checks)
        from .translate import guards_defs
        write_if_changed(d / "Guards.v", guards_defs.render())
    except Exception as e:
        errs.append(("Guards.v", f"{type(e).__name__}: {e}"))
    return errs
