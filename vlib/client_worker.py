"""Runs the REAL pyrtma Client (and, for C02, the REAL MessageManager) on scripted cases.

Executed as a subprocess (fresh interpreter, PYTHONPATH=/repo/src):
    python client_worker.py  < job.json  > results.json          job = {"mode": "c02"|"c08", ...}

mode c02  {"universe": [t..], "cases": [case..]}
    case = {"ops": [op..], "ctx": null | {"kind": "sub"|"pause", "list": [t..]}}
    op   = ["sub"|"unsub"|"pause"|"resume", [t..]] | ["unsub_all"] | ["pause_all"] | ["resume_all"]
    One real MessageManager (own process, 127.0.0.1, free port) serves all cases; every case gets a fresh real Client.
    After every API call a second connection (the prober) publishes one signal per type of the universe; the
    result records which of them reach the client's socket, Client.subscribed_types, paused_subscribed_types
    and the exception class raised by the call.  Barriers are messages, not sleeps: the client publishes a
    sentinel the prober is subscribed to (=> the manager has processed the client's control frames), the
    prober publishes the probes and then a second sentinel to itself (=> the manager has forwarded them).
    result = {"steps": [obs..], "ctx": null | {"enter_exc", "inside": obs|null, "exit_exc", "after": obs}}
    obs    = {"exc": name|null, "sub": [..], "paused": [..], "deliv": [..]}

mode c08  {"defs": [[type_id, size, hash]..], "cases": [case..]}
    case = {"chunks": [[hex, delay_ms]..], "end": "open"|"fin"|"rst",
            "calls": [{"timeout": null|-1|0|x, "ack": b, "sync": b, "sub_all": b, "sub": [..], "via": "attr"|"api"}..]}
    A scripted peer answers the connect handshake of a real Client over real TCP, then writes the chunks
    (sleeping delay_ms before each) and closes (FIN), resets (SO_LINGER 0) or leaves the connection open.
    result = {"outs": [[kind, ...]..], "table": [[type, size, hash]..]}
      out = ["msg", hdr_hex, payload_hex, connected] | ["unknown", hdr_hex, raw_hex, connected] | ["none", connected]
          | ["exc", class_name, detail, connected] | ["hang", connected]
"""
from __future__ import annotations

import array
import ctypes
import fcntl
import json
import logging
import select
import signal
import socket
import struct
import sys
import termios
import threading
import time
import traceback
import warnings

REAL_STDOUT = sys.stdout
sys.stdout = sys.stderr          # the manager prints "x" on drops; keep our JSON channel clean
warnings.simplefilter("ignore")

import pyrtma  # noqa: E402
import pyrtma.message  # noqa: E402
from pyrtma import core_defs as cd  # noqa: E402
from pyrtma.client import Client  # noqa: E402
from pyrtma.message_base import MessageMeta  # noqa: E402
from pyrtma.message_data import MessageData  # noqa: E402

HDR = pyrtma.MessageHeader
HSZ = ctypes.sizeof(HDR)
RECV_TIME_OFF = getattr(getattr(HDR, "_recv_time", None), "offset", 16)


class Hang(Exception):
    pass


def _alarm(signum, frame):
    raise Hang()


signal.signal(signal.SIGALRM, _alarm)


class watchdog:
    def __init__(self, seconds: float):
        self.s = seconds

    def __enter__(self):
        signal.setitimer(signal.ITIMER_REAL, self.s)

    def __exit__(self, *a):
        signal.setitimer(signal.ITIMER_REAL, 0)
        return False


def free_listener() -> socket.socket:
    s = socket.socket(socket.AF_INET, socket.SOCK_STREAM)
    s.setsockopt(socket.SOL_SOCKET, socket.SO_REUSEADDR, 1)
    s.bind(("127.0.0.1", 0))
    s.listen(64)
    return s


def read_exact(conn: socket.socket, n: int) -> bytes:
    b = b""
    while len(b) < n:
        d = conn.recv(n - len(b))
        if not d:
            raise EOFError("peer closed")
        b += d
    return b


def read_frame(conn: socket.socket):
    h = HDR.from_buffer_copy(read_exact(conn, HSZ))
    p = read_exact(conn, h.num_data_bytes) if h.num_data_bytes > 0 else b""
    return h, p


def drop_client(c: Client):
    """forget a client without the 100 ms sleep of Client.disconnect()"""
    try:
        c.sock.close()
    except Exception:
        pass
    c._connected = False


# ----------------------------------------------------------------------------------------------
# C02
# ----------------------------------------------------------------------------------------------

SENT_A, SENT_B = 9001, 9002       # sentinels (signals); < MAX_MESSAGE_TYPES
PROBER_ID = 10


MANAGER_CODE = """
import sys, logging
from pyrtma.manager import MessageManager
mm = MessageManager("127.0.0.1", int(sys.argv[1]), log_level=logging.CRITICAL + 10, send_msg_timing=False)
mm.run()
"""


class C02Rig:
    """the real MessageManager in a process of its own (as deployed; also keeps glibc's non-reentrant
    getprotobyname(), which both Client._socket_connect and MessageManager.run call, out of a shared process)"""

    def __init__(self, universe):
        import subprocess
        self.universe = list(universe)
        lst = free_listener()
        self.port = lst.getsockname()[1]
        lst.close()
        self.proc = subprocess.Popen([sys.executable, "-c", MANAGER_CODE, str(self.port)],
                                     stdout=subprocess.DEVNULL, stderr=subprocess.DEVNULL)
        self.addr = f"127.0.0.1:{self.port}"
        deadline = time.time() + 20.0
        while True:
            try:
                socket.create_connection(("127.0.0.1", self.port), timeout=0.2).close()
                break
            except OSError:
                if time.time() > deadline or self.proc.poll() is not None:
                    raise RuntimeError("manager process did not start")
                time.sleep(0.02)
        self.prober = Client(module_id=PROBER_ID)
        self.prober.connect(self.addr)
        self.prober.subscribe([SENT_A, SENT_B])
        self.prober.sock.settimeout(10.0)

    def alive(self) -> bool:
        return self.proc.poll() is None

    def close(self):
        try:
            self.proc.kill()
            self.proc.wait(5)
        except Exception:
            pass

    def wait_prober(self, mt: int, src: int):
        while True:
            h, _ = read_frame(self.prober.sock)
            if h.msg_type == mt and h.src_mod_id == src:
                return

    def drain_client(self, c: Client):
        """everything the manager has written to the client's socket so far, parsed into (type, src)"""
        sock = c.sock
        buf = b""
        sock.setblocking(False)
        try:
            deadline = time.time() + 5.0
            while True:
                try:
                    d = sock.recv(1 << 16)
                    if not d:
                        break
                    buf += d
                    continue
                except BlockingIOError:
                    pass
                # complete frames only? otherwise wait for the rest
                i = 0
                while i + HSZ <= len(buf):
                    n = HDR.from_buffer_copy(buf[i:i + HSZ]).num_data_bytes
                    if i + HSZ + n > len(buf):
                        break
                    i += HSZ + n
                if i == len(buf) or time.time() > deadline:
                    break
                select.select([sock], [], [], 0.05)
        finally:
            sock.setblocking(True)
        out = []
        i = 0
        while i + HSZ <= len(buf):
            h = HDR.from_buffer_copy(buf[i:i + HSZ])
            out.append((h.msg_type, h.src_mod_id))
            i += HSZ + h.num_data_bytes
        return out

    def probe(self, c: Client):
        if not self.alive():
            raise RuntimeError("manager process died")
        c.send_signal(SENT_A)
        self.wait_prober(SENT_A, c.module_id)
        for t in self.universe:
            self.prober.send_signal(t)
        self.prober.send_signal(SENT_B)
        self.wait_prober(SENT_B, PROBER_ID)
        got = self.drain_client(c)
        return sorted({t for t, src in got if src == PROBER_ID and t in self.universe})

    def obs(self, c: Client, exc):
        return dict(exc=exc, sub=sorted(c.subscribed_types), paused=sorted(c.paused_subscribed_types),
                    deliv=self.probe(c))

    @staticmethod
    def apply(c: Client, op):
        k = op[0]
        if k == "sub":
            c.subscribe(list(op[1]))
        elif k == "unsub":
            c.unsubscribe(list(op[1]))
        elif k == "pause":
            c.pause_subscription(list(op[1]))
        elif k == "resume":
            c.resume_subscription(list(op[1]))
        elif k == "unsub_all":
            c.unsubscribe_from_all()
        elif k == "pause_all":
            c.pause_all_subscriptions()
        elif k == "resume_all":
            c.resume_all_subscriptions()
        else:
            raise ValueError(k)

    def run_case(self, case):
        c = Client()
        c.connect(self.addr)
        try:
            pre_obs = None
            pre = case.get("prelude")
            if pre:
                # an EARLIER connection of the same Client object: operations on it, then the connection is lost
                # without disconnect() (the manager closes it: a frame declaring a negative size; the client learns
                # of it from read_message), then connect() again - the case proper starts on the new connection
                for op in pre["ops"]:
                    try:
                        self.apply(c, op)
                    except Exception:  # noqa
                        pass
                h = HDR()
                h.msg_type, h.num_data_bytes, h.src_mod_id = 4321, -1, c.module_id
                c.sock.sendall(bytes(h))
                try:
                    for _ in range(40):
                        c.read_message(timeout=0.2)
                    lost = "no-error"
                except pyrtma.exceptions.ConnectionLost:
                    lost = "ConnectionLost"
                except Exception as e:  # noqa
                    lost = type(e).__name__
                c.connect(self.addr)
                pre_obs = self.obs(c, None)
                pre_obs["lost"] = lost
            steps = []
            for op in case["ops"]:
                exc = None
                try:
                    self.apply(c, op)
                except Exception as e:  # noqa
                    exc = type(e).__name__
                steps.append(self.obs(c, exc))
            ctx = None
            if case.get("ctx"):
                k, l = case["ctx"]["kind"], list(case["ctx"]["list"])
                cm = c.subscription_context(l) if k == "sub" else c.paused_subscription_context(l)
                ctx = dict(enter_exc=None, inside=None, exit_exc=None, after=None)
                try:
                    cm.__enter__()
                except Exception as e:  # noqa
                    ctx["enter_exc"] = type(e).__name__
                else:
                    ctx["inside"] = self.obs(c, None)
                    try:
                        cm.__exit__(None, None, None)
                    except Exception as e:  # noqa
                        ctx["exit_exc"] = type(e).__name__
                ctx["after"] = self.obs(c, None)
            return dict(steps=steps, ctx=ctx, prelude=pre_obs)
        finally:
            drop_client(c)


def run_c02(job):
    rig = C02Rig(job["universe"])
    out = []
    for case in job["cases"]:
        try:
            with watchdog(20.0):
                out.append(rig.run_case(case))
        except BaseException as e:  # noqa
            signal.setitimer(signal.ITIMER_REAL, 0)
            try:                          # a crashing manager needs a moment to exit
                rig.proc.wait(1.5)
            except Exception:
                pass
            died = not rig.alive()
            out.append(dict(harness_error=f"{type(e).__name__}: {e}", tb=traceback.format_exc()[-600:],
                            manager_died=died))
            if died:                      # the manager process exited: an observation, not a harness problem
                rig.close()
                rig = C02Rig(job["universe"])
    rig.close()
    return out


# ----------------------------------------------------------------------------------------------
# C08
# ----------------------------------------------------------------------------------------------

def define_types(defs):
    for tid, size, thash in defs:
        ns = dict(type_id=tid, type_name=f"VT_{tid}", type_hash=thash, type_size=size, type_source="verif",
                  type_def="", _fields_=([("raw", ctypes.c_ubyte * size)] if size else []))
        cls = MessageMeta(f"MDF_VT_{tid}", (MessageData,), ns)
        pyrtma.message_def(cls)


def def_table():
    out = []
    for tid, cls in sorted(pyrtma.message._msg_defs.items()):
        ts = cls.type_size
        if ts == -1:
            ts = ctypes.sizeof(cls)
        out.append([tid, ts, getattr(cls, "type_hash", 0)])
    return out


def tcp_state(sock: socket.socket) -> int:
    return sock.getsockopt(socket.IPPROTO_TCP, socket.TCP_INFO, 8)[0]


def pending(sock: socket.socket) -> int:
    a = array.array("i", [0])
    fcntl.ioctl(sock.fileno(), termios.FIONREAD, a)
    return a[0]


def zero_recv_time(hdr) -> str:
    b = bytearray(bytes(hdr))
    b[RECV_TIME_OFF:RECV_TIME_OFF + 8] = b"\0" * 8
    return bytes(b).hex()


class C08Rig:
    def __init__(self):
        self.lst = free_listener()
        self.addr = "127.0.0.1:%d" % self.lst.getsockname()[1]

    def handshake(self, res):
        try:
            conn, _ = self.lst.accept()
            conn.setsockopt(socket.IPPROTO_TCP, socket.TCP_NODELAY, 1)
            conn.settimeout(10.0)
            seen = []
            while True:                              # CONNECT_V2 then CONNECT
                h, _p = read_frame(conn)
                seen.append(h.msg_type)
                if h.msg_type == cd.MT_CONNECT:
                    break
            a = HDR()
            a.msg_type = cd.MT_ACKNOWLEDGE
            a.src_mod_id = cd.MID_MESSAGE_MANAGER
            a.dest_mod_id = 77
            conn.sendall(bytes(a))
            h, _p = read_frame(conn)                 # MODULE_READY
            seen.append(h.msg_type)
            res["conn"] = conn
            res["seen"] = seen
        except BaseException as e:  # noqa
            res["err"] = f"{type(e).__name__}: {e}"

    def run_case(self, case):
        res = {}
        t = threading.Thread(target=self.handshake, args=(res,), daemon=True)
        t.start()
        c = Client()
        c.connect(self.addr)
        t.join(10.0)
        if "conn" not in res:
            raise RuntimeError("handshake failed: " + res.get("err", "timeout"))
        conn: socket.socket = res["conn"]
        prelude_out = None
        pre = case.get("prelude")
        if pre:
            # an EARLIER connection of the same Client object: subscriptions made on it, then the peer ends it (the
            # client learns of it from read_message), then connect() again - the case proper runs on the new connection
            conn.settimeout(0.2)
            with watchdog(5.0):
                if pre["sub_all"]:
                    c.subscribe([cd.ALL_MESSAGE_TYPES])
                elif pre["sub"]:
                    c.subscribe(list(pre["sub"]))
                for tpause in pre.get("pause", []):
                    c.pause_subscription([tpause])
            try:
                while conn.recv(65536):
                    pass
            except (socket.timeout, OSError):
                pass
            if pre["end"] == "rst":
                conn.setsockopt(socket.SOL_SOCKET, socket.SO_LINGER, struct.pack("ii", 1, 0))
            conn.close()
            deadline = time.time() + 2.0
            while time.time() < deadline and tcp_state(c.sock) not in (7, 8):
                time.sleep(0.0005)
            try:
                with watchdog(3.0):
                    m = c.read_message(timeout=0.5)
                prelude_out = ["none" if m is None else "msg", c.connected]
            except Hang:
                prelude_out = ["hang", c.connected]
            except Exception as e:  # noqa
                prelude_out = ["exc", type(e).__name__, "", c.connected]
            res = {}
            t = threading.Thread(target=self.handshake, args=(res,), daemon=True)
            t.start()
            c.connect(self.addr)
            t.join(10.0)
            if "conn" not in res:
                raise RuntimeError("second handshake failed: " + res.get("err", "timeout"))
            conn = res["conn"]
        stop = threading.Event()
        drainer = None
        writer = None
        try:
            chunks = [(bytes.fromhex(hx), d) for hx, d in case["chunks"]]
            total = sum(len(b) for b, _ in chunks)
            end = case["end"]
            use_api = any(cl.get("via") in ("api", "api_add") for cl in case["calls"])
            if use_api:
                if end != "open":
                    raise ValueError("api subscription changes need an open stream")

                def drain():
                    conn.settimeout(0.05)
                    while not stop.is_set():
                        try:
                            if not conn.recv(65536):
                                return
                        except socket.timeout:
                            continue
                        except OSError:
                            return
                drainer = threading.Thread(target=drain, daemon=True)
                drainer.start()

            def finish():
                if end == "fin":
                    conn.close()
                elif end == "rst":
                    conn.setsockopt(socket.SOL_SOCKET, socket.SO_LINGER, struct.pack("ii", 1, 0))
                    conn.close()

            delayed = any(d > 0 for _, d in chunks)
            if delayed:
                def write():
                    try:
                        for b, d in chunks:
                            if d:
                                time.sleep(d / 1000.0)
                            conn.sendall(b)
                        finish()
                    except OSError:
                        pass
                writer = threading.Thread(target=write, daemon=True)
                writer.start()
            else:
                for b, _ in chunks:
                    conn.sendall(b)
                finish()
                # barrier: everything the peer did is visible on the client's socket
                deadline = time.time() + 2.0
                want = {"fin": (8,), "rst": (7,)}.get(end)
                while time.time() < deadline:
                    st_ok = want is None or tcp_state(c.sock) in want
                    try:
                        n_ok = (end == "rst") or pending(c.sock) >= total
                    except OSError:
                        n_ok = True
                    if st_ok and n_ok:
                        break
                    time.sleep(0.0005)
                else:
                    raise RuntimeError("peer actions not visible on the client socket")
            outs = []
            kept = []          # (index into outs, the Message object as returned): what was returned stays what it was
            for cl in case["calls"]:
                try:
                    if cl.get("via") == "api":
                        with watchdog(5.0):
                            c.unsubscribe([cd.ALL_MESSAGE_TYPES])
                            if cl["sub_all"]:
                                c.subscribe([cd.ALL_MESSAGE_TYPES])
                            elif cl["sub"]:
                                c.subscribe(list(cl["sub"]))
                    elif cl.get("via") == "api_pause_all":
                        with watchdog(5.0):
                            c.pause_all_subscriptions()
                    elif cl.get("via") == "api_add":
                        # only ADD subscriptions through the API, on top of whatever a (re)connected client starts with
                        with watchdog(5.0):
                            if cl.get("add"):
                                c.subscribe(list(cl["add"]))
                    elif cl.get("via") == "keep":
                        pass
                    else:
                        c._sub_all = bool(cl["sub_all"])
                        c._subscribed_types = {cd.ALL_MESSAGE_TYPES} if cl["sub_all"] else set(cl["sub"])
                    # what the client REPORTS must be the state asked for; the private fast-path flag is only
                    # checked when it was set directly - when the state was reached through the API a stale
                    # flag is the implementation's business and shows up in what read_message returns
                    want_pub = {cd.ALL_MESSAGE_TYPES} if cl["sub_all"] else set(cl["sub"])
                    pub_ok = set(c.subscribed_types) == want_pub
                    flag_ok = c._sub_all == bool(cl["sub_all"])
                    if cl.get("via") in ("api_add", "keep"):
                        pass      # the state is the implementation's to get right: judged on what read_message returns
                    elif not pub_ok or (not flag_ok and not cl.get("via")):
                        raise RuntimeError(f"could not establish subscription state {cl}: "
                                           f"{c._sub_all} {c.subscribed_types}")
                    # the clock the client consults while it discards queued messages it is not subscribed to runs FAST here
                    # (10 s per look): whatever time budget bookkeeping read_message does, an unsubscribed message must
                    # never come back because "time ran out" while discarding
                    import pyrtma.client as _PC
                    _real_time = _PC.time
                    _PC.time = _FastClock(_real_time)
                    try:
                        with watchdog(3.0):
                            m = c.read_message(timeout=cl["timeout"], ack=cl["ack"], sync_check=cl["sync"])
                    finally:
                        _PC.time = _real_time
                    if m is None:
                        outs.append(["none", c.connected])
                    else:
                        outs.append(["msg", zero_recv_time(m.header), bytes(m.data).hex(), c.connected])
                        kept.append((len(outs) - 1, m))
                except Hang:
                    outs.append(["hang", c.connected])
                    break
                except pyrtma.exceptions.UnknownMessageType as e:
                    hdr = e.args[1] if len(e.args) > 1 else None
                    raw = e.args[2] if len(e.args) > 2 else b""
                    outs.append(["unknown", zero_recv_time(hdr) if hdr is not None else "", bytes(raw).hex(), c.connected])
                except pyrtma.exceptions.InvalidMessageDefinition as e:
                    txt = str(e)
                    detail = "size" if "data size" in txt else ("version" if "message version" in txt else "?")
                    outs.append(["exc", "InvalidMessageDefinition", detail, c.connected])
                except RuntimeError:
                    raise
                except Exception as e:  # noqa
                    outs.append(["exc", type(e).__name__, "", c.connected])
            mutated = [[i, outs[i][1], zero_recv_time(m.header), outs[i][2], bytes(m.data).hex()] for i, m in kept
                       if (zero_recv_time(m.header), bytes(m.data).hex()) != (outs[i][1], outs[i][2])]
            return dict(outs=outs, mutated=mutated, prelude=prelude_out,
                        reported_subs=sorted(int(x) for x in c.subscribed_types) if pre else None)
        finally:
            stop.set()
            if writer is not None:
                writer.join(5.0)
            try:
                conn.close()
            except Exception:
                pass
            if drainer is not None:
                drainer.join(1.0)
            drop_client(c)


class _FastClock:
    """stands for the `time` module inside pyrtma.client during a read_message under test: perf_counter jumps ahead by
    10 s every time it is read; everything else is the real module"""

    def __init__(self, real):
        self._real = real
        self._t = real.perf_counter()

    def perf_counter(self):
        self._t += 10.0
        return self._t

    def __getattr__(self, name):
        return getattr(self._real, name)


def run_c08(job):
    define_types(job["defs"])
    rig = C08Rig()
    out = []
    for case in job["cases"]:
        try:
            out.append(rig.run_case(case))
        except BaseException as e:  # noqa
            signal.setitimer(signal.ITIMER_REAL, 0)
            out.append(dict(harness_error=f"{type(e).__name__}: {e}", tb=traceback.format_exc()[-600:]))
    return dict(results=out, table=def_table(), header_size=HSZ, recv_time_off=RECV_TIME_OFF)


def main():
    job = json.load(sys.stdin)
    if job["mode"] == "c02":
        res = run_c02(job)
    elif job["mode"] == "c08":
        res = run_c08(job)
    else:
        raise SystemExit("unknown mode")
    json.dump(res, REAL_STDOUT)
    REAL_STDOUT.flush()


if __name__ == "__main__":
    main()
