"""Shared machinery for every ./check run.

A check = (1) regenerate Gen/*.v from /repo, (2) build the Coq cone of the
property (full .vo), audit it and collect Print Assumptions, (3) run the
correspondence (model evaluated by vm_compute inside coqc vs. the real code),
(4) evaluate the spec oracle on implementation outputs, (5) decide, write
evidence/<id>.json, print VIOLATION / KNOWN-FINDING lines, exit 0/1.

See DESIGN.md section 2.
"""
from __future__ import annotations

import fcntl
import hashlib
import json
import os
import re
import shutil
import subprocess
import sys
import tempfile
import time
from pathlib import Path
from typing import Callable, Dict, Iterable, List, Optional, Sequence, Tuple

VERIF = Path(__file__).resolve().parent.parent
REPO = Path(os.environ.get("VERIF_REPO", "/repo"))
SRC = REPO / "src"
COQ = VERIF / "coq"
# a run against a scratch worktree (seed testing) must never overwrite the evidence of /repo
_ALT = os.environ.get("VERIF_REPO") not in (None, "", "/repo")
EVIDENCE = (Path(os.environ.get("VERIF_ALT_OUT", "/tmp/verif-alt")) / "evidence") if _ALT else VERIF / "evidence"
REPLAYS = (Path(os.environ.get("VERIF_ALT_OUT", "/tmp/verif-alt")) / "replays") if _ALT else VERIF / "replays"
KNOWN = VERIF / "known_findings.txt"
PY = "/venv/bin/python"
NCPU = os.cpu_count() or 4

FORBIDDEN = re.compile(
    r"\b(Admitted|admit|Axiom|Axioms|Parameter|Parameters|Conjecture|Conjectures|"
    r"Admit Obligations|bypass_check|native_compute)\b|Unset Guard|Unset Positivity|"
    r"Unset Universe|type-in-type|impredicative-set"
)


def sh(cmd: Sequence[str] | str, timeout: int = 600, cwd: Optional[Path] = None,
       env: Optional[dict] = None, shell: bool = False) -> Tuple[int, str]:
    try:
        p = subprocess.run(cmd, cwd=str(cwd) if cwd else None, env=env, shell=shell,
                           stdout=subprocess.PIPE, stderr=subprocess.STDOUT,
                           timeout=timeout, text=True, errors="replace")
        return p.returncode, p.stdout
    except subprocess.TimeoutExpired as e:
        out = e.stdout if isinstance(e.stdout, str) else (e.stdout or b"").decode(errors="replace")
        return 124, out + f"\n[timeout after {timeout}s]"


def write_if_changed(path: Path, text: str) -> bool:
    path.parent.mkdir(parents=True, exist_ok=True)
    if path.exists() and path.read_text() == text:
        return False
    tmp = path.with_suffix(path.suffix + ".tmp%d" % os.getpid())
    tmp.write_text(text)
    os.replace(tmp, path)
    return True


class Lock:
    def __init__(self, path: Path):
        self.path = path
        self.fd = None

    def __enter__(self):
        self.path.parent.mkdir(parents=True, exist_ok=True)
        self.fd = open(self.path, "w")
        fcntl.flock(self.fd, fcntl.LOCK_EX)
        return self

    def __exit__(self, *a):
        fcntl.flock(self.fd, fcntl.LOCK_UN)
        self.fd.close()


# --------------------------------------------------------------------------
# Coq side
# --------------------------------------------------------------------------

class CoqFamily:
    """One independent Coq project under coq/<name> (namespace = logical)."""

    def __init__(self, name: str, logical: str):
        self.name = name
        self.logical = logical
        self.dir = COQ / name
        self.lock = Lock(self.dir / ".lock")

    def sources(self) -> List[Path]:
        return sorted(p for p in self.dir.rglob("*.v")
                      if "Cases" not in p.parts and not p.name.startswith("."))

    def ensure_makefile(self):
        files = [str(p.relative_to(self.dir)) for p in self.sources()]
        lines = [f"-Q . {self.logical}"]
        common = COQ / "common"
        if self.name != "common" and common.exists():
            lines.append("-Q ../common Common")
        lines += files
        proj = "\n".join(lines) + "\n"
        changed = write_if_changed(self.dir / "_CoqProject", proj)
        if changed or not (self.dir / "Makefile").exists():
            rc, out = sh(["coq_makefile", "-f", "_CoqProject", "-o", "Makefile"], cwd=self.dir)
            if rc != 0:
                raise RuntimeError("coq_makefile failed: " + out)

    def audit(self, files: Optional[Iterable[Path]] = None) -> List[str]:
        hits = []
        for p in (files or self.sources()):
            txt = p.read_text()
            # strip comments (non-nested is enough: we never write nested ones)
            txt2 = re.sub(r"\(\*.*?\*\)", "", txt, flags=re.S)
            for m in FORBIDDEN.finditer(txt2):
                hits.append(f"{p.relative_to(COQ)}: {m.group(0)}")
        return hits

    def build(self, targets: Sequence[str], timeout: int = 900, clean: bool = False) -> Tuple[bool, str]:
        """make the given .vo targets (relative to family dir). Full .vo build."""
        with self.lock:
            if self.name != "common" and (COQ / "common").exists():
                ok, log = COMMON.build_all(timeout=timeout)
                if not ok:
                    return False, log
            self.ensure_makefile()
            if clean:
                sh(["make", "clean"], cwd=self.dir, timeout=120)
                self.ensure_makefile()
            rc, out = sh(["timeout", str(timeout), "make", f"-j{NCPU}"] + list(targets),
                         cwd=self.dir, timeout=timeout + 30)
            return rc == 0, out

    def build_all(self, timeout: int = 900) -> Tuple[bool, str]:
        with self.lock:
            self.ensure_makefile()
            rc, out = sh(["timeout", str(timeout), "make", f"-j{NCPU}"], cwd=self.dir, timeout=timeout + 30)
            return rc == 0, out

    def coqc_args(self) -> List[str]:
        a = ["-Q", str(self.dir), self.logical]
        if self.name != "common" and (COQ / "common").exists():
            a += ["-Q", str(COQ / "common"), "Common"]
        return a

    def run_v(self, text: str, timeout: int = 600, keep: Optional[Path] = None) -> Tuple[int, str]:
        """Compile a scratch .v text against this family; returns (rc, output)."""
        d = Path(tempfile.mkdtemp(prefix="vcoq_"))
        try:
            f = d / "scratch.v"
            f.write_text(text)
            rc, out = sh(["timeout", str(timeout), "coqc", "-q"] + self.coqc_args() + [str(f)],
                         timeout=timeout + 30, cwd=d)
            if keep is not None:
                keep.parent.mkdir(parents=True, exist_ok=True)
                shutil.copy(f, keep)
            return rc, out
        finally:
            shutil.rmtree(d, ignore_errors=True)

    def assumptions(self, module: str, theorems: Sequence[str], timeout: int = 300) -> Tuple[bool, Dict[str, str]]:
        """Print Assumptions for each theorem; returns (all_found, {thm: text})."""
        body = [f"Require Import {self.logical}.{module}."]
        for t in theorems:
            body.append(f'Goal True. idtac "@@BEGIN {t}". Abort.')
            body.append(f"Print Assumptions {t}.")
            body.append(f'Goal True. idtac "@@END {t}". Abort.')
        rc, out = self.run_v("\n".join(body) + "\n", timeout=timeout)
        res: Dict[str, str] = {}
        for t in theorems:
            m = re.search(r"@@BEGIN %s\n(.*?)@@END %s" % (re.escape(t), re.escape(t)), out, re.S)
            if m:
                res[t] = " ".join(m.group(1).split())
        return rc == 0 and len(res) == len(theorems), res if rc == 0 else {"_error": out[-2000:]}

    def coqchk(self, module: str, timeout: int = 1200) -> Tuple[bool, str]:
        rc, out = sh(["timeout", str(timeout), "coqchk", "-silent", "-o"] + self.coqc_args()
                     + [f"{self.logical}.{module}"], timeout=timeout + 30)
        return rc == 0, out

    def eval_cases(self, header: str, cases: List[str], per_file: int = 400,
                   timeout: int = 900, tag: str = "c") -> Tuple[List[int], str]:
        """Correspondence by vm_compute.

        `header` is Coq text that Requires the model and defines
            check_case : <case type> -> bool
        `cases` are Coq terms of the case type (input together with the output
        the implementation produced).  Returns indices of cases where the
        model's own output differs (check_case = false), plus a log.  One
        coqc per shard, in parallel.
        """
        if not cases:
            return [], ""
        d = Path(tempfile.mkdtemp(prefix="vcases_"))
        try:
            shards = [cases[i:i + per_file] for i in range(0, len(cases), per_file)]
            files = []
            for k, sh_cases in enumerate(shards):
                # the element type is the domain of check_case: without it a shard whose cases all carry an empty
                # list in some position cannot be elaborated ("cannot infer the implicit parameter A of nil")
                t = [header, "Definition the_cases : list ltac:(let t := type of check_case in "
                             "match eval cbv beta in t with ?T -> bool => exact T end) := ["]
                t.append(";\n".join(sh_cases))
                t.append("].")
                t.append("Fixpoint bad_idx {A} (f : A -> bool) (l : list A) (i : Z) : list Z :=")
                t.append("  match l with nil => nil | x :: r => if f x then bad_idx f r (i+1)%Z else i :: bad_idx f r (i+1)%Z end.")
                t.append(f'Goal True. idtac "@@SHARD {k}". Abort.')
                t.append("Eval vm_compute in (bad_idx check_case the_cases 0%Z).")
                f = d / f"{tag}_{k}.v"
                f.write_text("\n".join(t) + "\n")
                files.append(f)
            procs = []
            outs: List[Tuple[int, str]] = [None] * len(files)  # type: ignore
            maxp = NCPU
            idx = 0
            running: List[Tuple[int, subprocess.Popen]] = []
            env = dict(os.environ)
            def launch(i):
                cmd = "ulimit -s unlimited 2>/dev/null; exec timeout %d coqc -q %s %s" % (
                    timeout, " ".join(self.coqc_args()), files[i])
                return subprocess.Popen(cmd, shell=True, cwd=str(d), stdout=subprocess.PIPE,
                                        stderr=subprocess.STDOUT, text=True, errors="replace")
            while idx < len(files) or running:
                while idx < len(files) and len(running) < maxp:
                    running.append((idx, launch(idx)))
                    idx += 1
                i, p = running.pop(0)
                o, _ = p.communicate()
                outs[i] = (p.returncode, o)
            bad: List[int] = []
            log = []
            for k, (rc, o) in enumerate(outs):
                m = re.search(r"=\s*(\[.*?\]|nil)\s*:\s*list Z", o, re.S)
                if rc != 0 or not m:
                    # one sequential retry (no parallel load): a shard killed by a resource limit is not a verdict
                    p2 = launch(k)
                    o2, _ = p2.communicate()
                    m2 = re.search(r"=\s*(\[.*?\]|nil)\s*:\s*list Z", o2, re.S)
                    if p2.returncode == 0 and m2:
                        log.append(f"shard {k}: first attempt failed (rc={rc}), sequential retry succeeded")
                        rc, o, m = 0, o2, m2
                if rc != 0 or not m:
                    log.append(f"shard {k}: coqc rc={rc}: HEAD {o[:600]} ... TAIL {o[-1200:]}")
                    bad.append(-(k + 1))  # whole shard failed to evaluate
                    continue
                body = m.group(1)
                for n in re.findall(r"-?\d+", body):
                    bad.append(k * per_file + int(n))
            return bad, "\n".join(log)
        finally:
            shutil.rmtree(d, ignore_errors=True)


COMMON = CoqFamily("common", "Common")


def coq_z(n: int) -> str:
    return f"({n})%Z" if n < 0 else f"{n}%Z"


def coq_list(items: Iterable[str]) -> str:
    return "[" + "; ".join(items) + "]"


def coq_zlist(ns: Iterable[int]) -> str:
    return "[" + "; ".join(str(n) if n >= 0 else f"({n})" for n in ns) + "]%Z"


def coq_bool(b: bool) -> str:
    return "true" if b else "false"


# --------------------------------------------------------------------------
# Known findings
# --------------------------------------------------------------------------

def load_known() -> List[dict]:
    res = []
    files = [KNOWN] + sorted((VERIF / "known_findings.d").glob("*.txt"))
    lines = []
    for f in files:
        if f.exists():
            lines += f.read_text().splitlines()
    for line in lines:
        line = line.strip()
        if not line or line.startswith("#"):
            continue
        m = re.match(r"(finding|fixed):\s*property=(C\d+)\s+key=(\S+)\s*(.*)", line)
        if m:
            res.append(dict(kind=m.group(1), property=m.group(2), key=m.group(3), text=m.group(4)))
    return res


# --------------------------------------------------------------------------
# Check context: evidence, verdict
# --------------------------------------------------------------------------

class Check:
    def __init__(self, pid: str, tier: str, seed: int):
        self.pid = pid
        self.tier = tier
        self.seed = seed
        self.t0 = time.time()
        self.level = "proof"
        self.cov: dict = dict(obligations=0, discharged=0, checker_cmd="", trusted_base=[],
                              evaluations=0, distinct_nontrivial=0, rule="", samples=[],
                              traces_validated_against_impl=0)
        self.assumptions: List[str] = []
        self.violations: List[dict] = []     # unlisted violations
        self.known_hits: List[str] = []
        self.broken: List[str] = []          # proof/translator/correspondence breakages
        self.notes: List[str] = []
        self.known = [k for k in load_known() if k["property"] == pid]

    # -- recording -------------------------------------------------------
    def note(self, s: str):
        self.notes.append(s)
        print(f"[{self.pid}] {s}", flush=True)

    def add_samples(self, xs, limit=6):
        for x in xs:
            if len(self.cov["samples"]) < limit:
                self.cov["samples"].append(x)

    def broken_obligation(self, what: str, detail: str = ""):
        self.broken.append(what)
        self.note(f"NOT SHOWN: {what} {detail[:600]}")

    def add_candidate(self, what: dict):
        """an input on which the model and the implementation disagree (or a proof obligation's witness): not a property
        failure by itself, but where to look; written into the no-failing-input-found replay file"""
        if not hasattr(self, "candidates"):
            self.candidates = []
        if len(self.candidates) < 3:
            self.candidates.append(what)

    def spec_failure(self, key: str, desc: str, replay: dict):
        """An implementation run on which the property itself fails.
        key identifies the failing class (call site / input class)."""
        for k in self.known:
            if k["kind"] == "finding" and (k["key"] == key):
                msg = f"KNOWN-FINDING: property={self.pid} {k['key']} {k['text']}"
                if msg not in self.known_hits:
                    self.known_hits.append(msg)
                return
        self.violations.append(dict(key=key, desc=desc, replay=replay))

    # -- proof side --------------------------------------------------------
    def prove(self, fam: CoqFamily, module: str, theorems: Sequence[str],
              extra_targets: Sequence[str] = (), clean: bool = False) -> bool:
        """Build Props/<module>.vo cone, audit, Print Assumptions."""
        target = module.replace(".", "/") + ".vo"
        ok, log = fam.build([target] + list(extra_targets), clean=clean)
        srcs = fam.sources()
        nlemmas = 0
        for p in srcs:
            nlemmas += len(re.findall(r"^\s*(Theorem|Lemma|Corollary|Example|Fact|Remark|Proposition)\b",
                                      p.read_text(), re.M))
        self.cov["checker_cmd"] = f"cd coq/{fam.name} && make -j{NCPU} {target}  (coqc 8.16.1, full .vo)"
        if not ok:
            m = re.search(r'File "([^"]+)", line (\d+).*?\n(Error:.*?)(?:\n\n|\Z)', log, re.S)
            where = f"{m.group(1)}:{m.group(2)} {m.group(3)[:400]}" if m else log[-800:]
            self.cov["obligations"] += max(1, len(theorems))
            self.broken_obligation(f"coq build of {fam.logical}.{module} failed", where)
            return False
        hits = fam.audit()
        if hits:
            self.cov["obligations"] += max(1, len(theorems))
            self.broken_obligation("audit found forbidden construct", "; ".join(hits[:5]))
            return False
        ok2, ass = fam.assumptions(module, theorems)
        self.cov["obligations"] += len(theorems)
        if not ok2:
            self.broken_obligation(f"Print Assumptions failed for {module}", str(ass)[:600])
            return False
        self.cov["discharged"] += len(theorems)
        self.cov.setdefault("theorems", {})
        for t, a in ass.items():
            self.cov["theorems"][t] = a
            self.cov["trusted_base"].append(f"Print Assumptions {t}: {a}")
        self.cov["lemmas_in_family"] = nlemmas
        return True

    # -- finish ------------------------------------------------------------
    def finish(self) -> int:
        EVIDENCE.mkdir(parents=True, exist_ok=True)
        REPLAYS.mkdir(parents=True, exist_ok=True)
        rc = 0
        lines = []
        for m in self.known_hits:
            lines.append(m)
        stamp = time.strftime("%Y%m%d_%H%M%S")
        if self.violations:
            rc = 1
            for i, v in enumerate(self.violations[:5]):
                path = REPLAYS / f"{self.pid}_{stamp}_{i}.json"
                path.write_text(json.dumps(dict(property=self.pid, kind="failing-input", key=v["key"],
                                                desc=v["desc"], replay=v["replay"], broken=self.broken,
                                                seed=self.seed, tier=self.tier), indent=1, default=str))
                lines.append(f"VIOLATION property={self.pid} replay={path}")
        elif self.broken:
            rc = 1
            path = REPLAYS / f"{self.pid}_{stamp}_nf.json"
            path.write_text(json.dumps(dict(property=self.pid, kind="no-failing-input-found",
                                            not_checking=self.broken, notes=self.notes[-40:],
                                            model_and_implementation_disagree_on=getattr(self, "candidates", []),
                                            seed=self.seed, tier=self.tier), indent=1, default=str))
            lines.append(f"VIOLATION property={self.pid} replay={path} no-failing-input-found")
        cov = dict(self.cov)
        cov["trusted_base"] = list(dict.fromkeys(cov["trusted_base"])) + TRUSTED_COMMON
        cov["broken"] = self.broken
        cov["known_findings_hit"] = self.known_hits
        cov["notes"] = self.notes[-60:]
        if not isinstance(cov.get("exhaustive", False), bool):
            # a sub-space was enumerated completely: say which, keep the schema's boolean for the run as a whole
            cov["exhaustive_subspace"] = str(cov["exhaustive"])
            cov["exhaustive"] = False
        if not cov["samples"]:
            cov["samples"] = ["(no cases run: proof obligations only)"]
        ev = dict(property_id=self.pid, tier=self.tier, seed=self.seed, level=self.level,
                  coverage=cov, assumptions=self.assumptions, wall_s=round(time.time() - self.t0, 2),
                  violations=len(self.violations) + (1 if (self.broken and not self.violations) else 0))
        (EVIDENCE / f"{self.pid}.json").write_text(json.dumps(ev, indent=1, default=str))
        for l in lines:
            print(l, flush=True)
        print(f"[{self.pid}] tier={self.tier} seed={self.seed} obligations={cov['obligations']} "
              f"discharged={cov['discharged']} evaluations={cov['evaluations']} "
              f"validated_against_impl={cov['traces_validated_against_impl']} "
              f"wall={ev['wall_s']}s -> exit {rc}", flush=True)
        return rc


TRUSTED_COMMON = [
    "Coq 8.16.1 kernel (coqc, full .vo builds; vm_compute used for correspondence and finite sweeps; native_compute not used)",
    "no Axiom/Parameter/Admitted in the development (grep audit on every run)",
    "translators under /verif/vlib/translate (fail-closed Python-ast to Gallina)",
    "correspondence harness under /verif/vlib (shims named in DESIGN.md section 4)",
    "no extraction: model is evaluated inside Coq (vm_compute) on the same cases the implementation ran",
]


def impl_env(extra: Optional[dict] = None) -> dict:
    env = dict(os.environ)
    env["PYTHONPATH"] = str(SRC)
    env["PYTHONHASHSEED"] = "0"
    env["PITT_RNEL_PYRTMA_VERIF"] = "1"
    env["PYTHONDONTWRITEBYTECODE"] = "1"
    if extra:
        env.update(extra)
    return env
