"""Manager family (C01 C03 C05 C06 C07 C14 C18 C19): history generator, encoders,
implementation runner, model evaluation."""
from __future__ import annotations

import hashlib
import json
import random
import struct
import subprocess
from concurrent.futures import ThreadPoolExecutor
from typing import Dict, List, Optional, Tuple

from .framework import VERIF, PY, NCPU, impl_env, CoqFamily, coq_bool
from . import gen_manager
from . import mgr_wire as W

FAM = CoqFamily("manager", "Mgr")
ALL = W.ALL
MT = W.MT
TYPES = [100, 101, 102]
CRASH_CODES = {"ValueError": 1, "IndexError": 2, "UnicodeDecodeError": 3, "OSError": 4, "KeyError": 7}

HEADER = """From Coq Require Import ZArith List Bool.
From Mgr Require Import Gen.MgrDefs Model.Manager Model.Encode.
Import ListNotations. Open Scope Z_scope.
Definition H (t c sh sm dh dm nb x : Z) : hdr := mkHdr t c sh sm dh dm nb x.
Definition check_case (c : (Z * bool * list event) * list Z) : bool :=
  let '((lvl, tm, es), exp) := c in
  zl_eqb (enc_res (run (mkConfig lvl tm) 400%nat es)) exp.
"""


def z(n: int) -> str:
    return str(n) if n >= 0 else f"({n})"


def zl(ns) -> str:
    return "[" + "; ".join(z(int(n)) for n in ns) + "]"


class Intern:
    def __init__(self):
        self.payload: Dict[str, int] = {}
        self.names: Dict[bytes, int] = {b"": 0, b"message_manager": 1}
        self.extra: Dict[tuple, int] = {}
        self.utc: Dict[int, tuple] = {}

    def pay(self, b: bytes) -> int:
        if not b:
            return 0
        k = hashlib.sha1(b).hexdigest()
        if k not in self.payload:
            self.payload[k] = len(self.payload) + 1
        return self.payload[k]

    def name(self, b: bytes) -> int:
        if b not in self.names:
            self.names[b] = len(self.names)
        return self.names[b]

    def ext(self, x: dict) -> int:
        t5 = (x.get("send_time", 0.0), x.get("recv_time", 0.0), x.get("remaining", 0), x.get("is_dynamic", 0),
              x.get("reserved", 0))
        if t5 not in self.extra:
            self.extra[t5] = len(self.extra) + 1
            self.utc[self.extra[t5]] = (x.get("utc_s", 0), x.get("utc_f", 0))
        return self.extra[t5]


# ---------------------------------------------------------------- a history ----

class History:
    """events in worker (JSON) form + the same events as Coq terms"""

    def __init__(self, loglevel=60, timing=True, timecode=False, tag=""):
        self.loglevel, self.timing, self.timecode, self.tag = loglevel, timing, timecode, tag
        self.jevents: List[dict] = []
        self.cevents: List[str] = []
        self.it = Intern()
        self.nclients = 0
        self.seq = 0
        self.meta: List[dict] = []   # per round: generator-side description, used by spec oracles

    # -- frames ----------------------------------------------------------
    def _hdr(self, mtype, nbytes, src_mod=0, src_host=0, dst_mod=0, dst_host=0, count=None, x=None):
        self.seq += 1
        if x is None:
            x = dict(send_time=1000.0 + self.seq, recv_time=0.0, remaining=0, is_dynamic=0, reserved=0)
            if self.timecode:
                x["utc_s"], x["utc_f"] = 7000 + self.seq, 13
        h = dict(type=mtype, count=self.seq if count is None else count, src_host=src_host, src_mod=src_mod,
                 dst_host=dst_host, dst_mod=dst_mod, nbytes=nbytes, x=x)
        return h

    def _chdr(self, h) -> str:
        return (f"(H {z(h['type'])} {z(h['count'])} {z(h['src_host'])} {z(h['src_mod'])} {z(h['dst_host'])} "
                f"{z(h['dst_mod'])} {z(h['nbytes'])} {self.it.ext(h['x'])})")

    def frame(self, mtype, payload: bytes, inp: str, nbytes=None, **kw):
        h = self._hdr(mtype, len(payload) if nbytes is None else nbytes, **kw)
        j = dict(t="frame", h=h, payload=payload.hex())
        return j, f"IFrame {self._chdr(h)} {inp}", h

    def connect_v2(self, logger=0, daemon=0, allow_multiple=0, mod_id=0, pid=0, name=b"", **kw):
        pl = W.CONNECT_V2.pack(logger, daemon, allow_multiple, mod_id, pid, name)
        nm = W.cstr(name[:32])
        ascii_ok = all(c < 128 for c in nm)
        nid = self.it.name(nm)
        return self.frame(MT["CONNECT_V2"], pl,
                          f"(InConnectV2 {z(logger)} {z(daemon)} {z(allow_multiple)} {z(mod_id)} {z(pid)} {nid} {coq_bool(ascii_ok)})",
                          src_mod=mod_id if -32768 <= mod_id <= 32767 else 0, **kw)

    def connect_v1(self, logger=0, daemon=0, src_mod=0, **kw):
        return self.frame(MT["CONNECT"], W.CONNECT.pack(logger, daemon), f"(InConnect {z(logger)} {z(daemon)})",
                          src_mod=src_mod, **kw)

    def sub(self, kind: str, t: int, **kw):
        mt = MT[dict(sub="SUBSCRIBE", unsub="UNSUBSCRIBE", pause="PAUSE_SUBSCRIPTION", resume="RESUME_SUBSCRIPTION")[kind]]
        return self.frame(mt, W.SUB.pack(t), f"(InSub {z(t)})", **kw)

    def ready(self, pid: int, **kw):
        return self.frame(MT["MODULE_READY"], W.READY.pack(pid), f"(InReady {z(pid)})", **kw)

    def setname(self, name: bytes, **kw):
        nm = W.cstr(name[:32])
        return self.frame(MT["CLIENT_SET_NAME"], W.SETNAME.pack(name), f"(InName {self.it.name(nm)} {coq_bool(all(c < 128 for c in nm))})", **kw)

    def disconnect(self, **kw):
        return self.frame(MT["DISCONNECT"], b"", "InNone", **kw)

    def publish(self, mtype: int, payload: bytes, **kw):
        return self.frame(mtype, payload, f"(InData {self.it.pay(payload)})", **kw)

    def short_control(self, name: str, payload: bytes, **kw):
        """a control frame that declares (and carries) fewer bytes than its definition.  The manager decodes it from
        its shared receive buffer; which bytes those are is observed in the implementation run (mgr_worker) and the
        model is given the control message so decoded - see finalize()."""
        h = self._hdr(MT[name], len(payload), **kw)
        if not hasattr(self, "pending_eff"):
            self.pending_eff = {}
        self.pending_eff[h["count"]] = name
        return dict(t="frame", h=h, payload=payload.hex()), f"IFrame {self._chdr(h)} @@EFF{h['count']}@@", h

    def finalize(self, res: dict):
        """substitute the payload each short control frame was decoded as (never processed: irrelevant, InNone)"""
        for seq, name in getattr(self, "pending_eff", {}).items():
            eff = (res.get("effective") or {}).get(str(seq))
            inp = "InNone"
            if eff:
                b = bytes.fromhex(eff)
                if name == "CONNECT":
                    lg, dm = W.CONNECT.unpack(b)
                    inp = f"(InConnect {z(lg)} {z(dm)})"
                elif name == "CONNECT_V2":
                    lg, dm, am, mid, pid, nmb = W.CONNECT_V2.unpack(b)
                    nm = W.cstr(nmb[:32])
                    inp = (f"(InConnectV2 {z(lg)} {z(dm)} {z(am)} {z(mid)} {z(pid)} {self.it.name(nm)} "
                           f"{coq_bool(all(c < 128 for c in nm))})")
                elif name in ("SUBSCRIBE", "UNSUBSCRIBE", "PAUSE_SUBSCRIPTION", "RESUME_SUBSCRIPTION"):
                    inp = f"(InSub {z(W.SUB.unpack(b)[0])})"
                elif name == "MODULE_READY":
                    inp = f"(InReady {z(W.READY.unpack(b)[0])})"
                elif name == "CLIENT_SET_NAME":
                    nm = W.cstr(W.SETNAME.unpack(b)[0][:32])
                    inp = f"(InName {self.it.name(nm)} {coq_bool(all(c < 128 for c in nm))})"
            self.cevents = [e.replace(f"@@EFF{seq}@@", inp) for e in self.cevents]

    def raw(self, mtype: int, nbytes: int, **kw):
        """header with an arbitrary declared length and no payload bytes at all (only valid if the manager
        never tries to read them: nbytes == 0 or nbytes out of range)"""
        h = self._hdr(mtype, nbytes, **kw)
        return dict(t="frame", h=h, payload=""), f"IFrame {self._chdr(h)} InNone", h

    def eof(self, partial: bytes = b""):
        return dict(t="eof", partial=partial.hex()), "IEof", None

    def reset(self):
        return dict(t="reset"), "IReset", None

    def eofdata(self, mtype, nbytes, got: bytes, **kw):
        h = self._hdr(mtype, nbytes, **kw)
        return dict(t="eofdata", h=h, payload=got.hex()), f"IEofData {self._chdr(h)}", h

    def resetdata(self, mtype, nbytes, got: bytes, **kw):
        h = self._hdr(mtype, nbytes, **kw)
        return dict(t="resetdata", h=h, payload=got.hex()), f"IResetData {self._chdr(h)}", h

    # -- events ----------------------------------------------------------
    def round(self, ready: List[Tuple[int, tuple]], writable: List[int], now: int, accept=False, meta=None):
        if accept:
            self.nclients += 1
        self.jevents.append(dict(k="round", accept=accept, ready=[[c, f[0]] for c, f in ready],
                                 writable=list(writable), now=now))
        rd = "; ".join(f"({c}, {f[1]})" for c, f in ready)
        self.cevents.append(f"ERound {coq_bool(accept)} [{rd}] {zl(writable)} {z(now)}")
        self.meta.append(dict(kind="round", accept=accept, ready=[(c, f[2], f[0]) for c, f in ready],
                              writable=list(writable), now=now, meta=meta))

    def fault(self, c: int, n: int):
        self.jevents.append(dict(k="fault", c=c, n=n))
        self.cevents.append(f"EFault {c} {n}")
        self.meta.append(dict(kind="fault", c=c, n=n))

    def cap(self, c: int, n: int):
        """room left in connection c's send buffer, as seen by NON-BLOCKING sends only (implementation-side event: the
        code under test and the model use blocking sends, for which the peer keeps reading - no effect on either)"""
        self.jevents.append(dict(k="cap", c=c, n=n))

    def close_at(self, c: int, n: int):
        """the application calls MessageManager.close() from another thread at the moment the manager is about to carry
        out its n-th further sendall on connection c (implementation-side event; such histories are impl_only: the
        model has no second thread)"""
        self.jevents.append(dict(k="cap", what="close_at", c=c, n=n))

    def case_json(self) -> dict:
        return dict(loglevel=self.loglevel, timing=self.timing, timecode=self.timecode, events=self.jevents)

    def coq_input(self) -> str:
        return f"({z(self.loglevel)}, {coq_bool(self.timing)}, [{'; '.join(self.cevents)}])"


# ------------------------------------------------------------ observations ----

def crash_code(c: Optional[str]) -> int:
    if not c:
        return 0
    cls, _, msg = c.partition(":")
    if cls == "RuntimeError":
        if "Set changed size" in msg:
            return 5
        if "dictionary changed size" in msg:
            return 6
        if "Exceeded maximum" in msg:
            return 8
        return 97
    return CRASH_CODES.get(cls, 98)


def enc_obs_hdr(h: dict, it: Intern, strict_utc=True) -> List[int]:
    x = h["x"]
    t5 = tuple(x[:5])
    if t5 in it.extra:
        e = it.extra[t5]
        if strict_utc and len(x) == 7 and (x[5], x[6]) != it.utc[e] and (x[5], x[6]) != (0, 0):
            e = -2
    elif x[1:] == (0.0, 0, 0, 0, 0, 0) or list(x[1:]) == [0.0, 0, 0, 0, 0, 0]:
        e = 0
    else:
        e = -1
    return [h["type"], h["count"], h["src_host"], h["src_mod"], h["dst_host"], h["dst_mod"], h["nbytes"], e]


def encode_obs(res: dict, it: Intern) -> List[int]:
    out = [crash_code(res["crash"])]
    for item in res["items"]:
        cid = item[0]
        if item[1] == "H":
            h = item[2]
            h["x"] = tuple(h["x"])
            out += [cid, 1] + enc_obs_hdr(h, it)
        else:
            _, _, hx, ln, sha, d, mtype = item
            if ln == 0:
                out += [cid, 2, 0, 0, 0]
            elif sha in it.payload:
                out += [cid, 2, 0, it.payload[sha], ln]
            elif d is None:
                out += [cid, 2, -1, ln]
            elif d[0] == "failed":
                eh = d[2]
                eh["x"] = tuple(eh["x"])
                out += [cid, 2, 1, d[1]] + enc_obs_hdr(eh, it, strict_utc=False)
            elif d[0] == "client":
                nm = bytes(d[7], "latin1") if isinstance(d[7], str) else bytes(d[7])
                out += [cid, 2, 2, d[1], d[2], d[3], d[4], d[5], d[6], it.names.get(nm, -1)]
            elif d[0] == "timing":
                out += [cid, 2, 3, len(d[1])] + [v for p in d[1] for v in p] + [len(d[2])] + [v for p in d[2] for v in p]
            elif d[0] == "traffic":
                out += [cid, 2, 4, d[1], d[2]] + list(d[3]) + list(d[4])
            elif d[0] == "active":
                n = max(0, min(256, d[1] + 1))
                out += [cid, 2, 5, d[1], n] + [v for i in range(n) for v in (d[2][i], d[3][i])]
            elif d[0] == "log":
                out += [cid, 2, 6, d[1]]
            else:
                out += [cid, 2, -1, ln]
    return out


def run_impl(cases: List[dict], nproc: int = NCPU, timeout: int = 1800) -> List[dict]:
    if not cases:
        return []
    nproc = max(1, min(nproc, len(cases)))
    chunks = [cases[i::nproc] for i in range(nproc)]

    def work(ch):
        p = subprocess.run([PY, str(VERIF / "vlib" / "mgr_worker.py")], input=json.dumps(ch),
                           capture_output=True, text=True, env=impl_env(), timeout=timeout, cwd="/")
        if p.returncode != 0:
            raise RuntimeError("mgr_worker failed: " + p.stderr[-1500:])
        return json.loads(p.stdout)

    with ThreadPoolExecutor(nproc) as ex:
        rs = list(ex.map(work, chunks))
    out: List[Optional[dict]] = [None] * len(cases)
    for k, r in enumerate(rs):
        for j, x in enumerate(r):
            out[k + j * nproc] = x
    return out  # type: ignore


def regen_or_report(chk) -> bool:
    errs = gen_manager.regen()
    for f, e in errs:
        chk.broken_obligation(f"translator failed closed for Gen/{f}", e)
    return not errs


# ---------------------------------------------------------------- generator ----

NAMES = [b"", b"", b"A", b"B", b"message_manager"]


def gen_history(rng: random.Random, profile: str, nrounds: int = 14, loglevel: Optional[int] = None,
                timecode: Optional[bool] = None) -> History:
    """structured, mostly valid histories; `profile` biases toward what a property needs:
    routing | faults | malformed | ids | periodic | acks | nested (many subscribers of the manager's own notices,
    frequent unwritable recipients and failing sends: notices nested inside the delivery of notices)"""
    if loglevel is None:
        loglevel = rng.choice([60, 60, 60, 40, 20, 10]) if profile != "periodic" else rng.choice([60, 60, 20])
    if timecode is None:
        timecode = rng.random() < 0.15
    hs = History(loglevel=loglevel, timing=rng.random() < 0.85, timecode=timecode, tag=profile)
    now = 0
    # generator-side guesses (not a model): which connections exist / were told to go away
    gone = set()
    ids: Dict[int, int] = {}
    maxc = rng.choice([2, 3, 4, 5]) if profile not in ("ids", "nested") else rng.choice([3, 5, 8])
    # open with a few accepts
    for _ in range(rng.randint(1, min(3, maxc))):
        hs.round([], [], now, accept=True)
    for r in range(nrounds):
        live = [c for c in range(1, hs.nclients + 1) if c not in gone]
        accept = hs.nclients < maxc and rng.random() < (0.35 if profile == "ids" else 0.15)
        k = rng.choice([1, 1, 1, 2, 2, 3])
        chosen = rng.sample(live, min(k, len(live))) if live else []
        ready = []
        for c in chosen:
            f = gen_frame(rng, hs, profile, c, ids, live)
            if f[0]["t"] in ("eof", "reset", "eofdata", "resetdata"):
                gone.add(c)
            ready.append((c, f))
        allc = list(range(1, hs.nclients + 1))
        p_unw = {"routing": 0.15, "faults": 0.3, "acks": 0.1, "periodic": 0.05, "nested": 0.3}.get(profile, 0.1)
        writable = [c for c in allc if rng.random() >= p_unw]
        if profile in ("faults", "nested") and live and rng.random() < (0.3 if profile == "faults" else 0.4):
            hs.fault(rng.choice(live), rng.choice([0, 0, 1, 2, 3]))
        dt = rng.choice([0, 0, 1, 1, 2]) if profile != "periodic" else rng.choice([0, 1, 4, 5, 6, 21])
        now += dt
        if not ready and not accept:
            hs.round([], [], now)
        else:
            hs.round(ready, writable, now, accept=accept)
    # let the periodic senders fire at the end of some histories
    if rng.random() < (0.9 if profile == "periodic" else 0.35):
        now += rng.choice([4, 5, 6, 22])
        hs.round([], [], now)
    return hs


def gen_frame(rng, hs: History, profile: str, c: int, ids: Dict[int, int], live: List[int]):
    mal = profile == "malformed"
    w = dict(connect2=3, connect1=2, sub=5, unsub=2, pause=1, resume=1, publish=6, disconnect=0.5, ready=0.7,
             setname=0.5, eof=0.4, reset=0.3, trunc=0.3)
    if profile == "ids":
        w.update(connect2=8, connect1=4, disconnect=2.5, eof=1.5, publish=1)
    if profile == "acks":
        w.update(sub=8, unsub=4, pause=3, resume=3, publish=3)
    if profile == "periodic":
        w.update(publish=14, sub=3)
    if profile == "faults":
        w.update(eof=1.2, reset=1.0, trunc=1.0)
    if profile == "nested":
        w.update(sub=9, publish=8, setname=1.5, ready=1.5, eof=0.8, reset=0.5)
    if c not in ids:
        w.update(connect2=w["connect2"] * 4, connect1=w["connect1"] * 3)
    op = rng.choices(list(w), weights=list(w.values()))[0]
    my = ids.get(c, 0)
    if mal and rng.random() < 0.08:
        # a control frame shorter than its definition (decoded from the shared receive buffer)
        name, size = rng.choice([("CONNECT", 4), ("CONNECT_V2", 44), ("SUBSCRIBE", 4), ("UNSUBSCRIBE", 4),
                                 ("PAUSE_SUBSCRIPTION", 4), ("RESUME_SUBSCRIPTION", 4), ("CLIENT_SET_NAME", 32),
                                 ("MODULE_READY", 4)])
        k = rng.choice([0, 1, size - 1, rng.randrange(0, size)])
        return hs.short_control(name, bytes(rng.getrandbits(8) for _ in range(k)))
    if op == "connect2":
        mid = rng.choice([0, 0, 0, 10, 10, 11, 12, 99, 100] + ([101, -1, 200, 32767, 1] if (mal or profile == "ids") else []))
        name = rng.choice(NAMES) if not mal else rng.choice(NAMES + [b"caf\xc3\xa9", b"\xff\xfe", b"dev[/tty]", b"[/]", b"%s{0}"])
        ids[c] = mid
        return hs.connect_v2(logger=1 if rng.random() < 0.2 else 0, daemon=rng.choice([0, 0, 1]),
                             allow_multiple=rng.choice([0, 0, 1]), mod_id=mid, pid=rng.choice([0, 77, 4000 + c]), name=name)
    if op == "connect1":
        mid = rng.choice([0, 0, 10, 11, 12, 100] + ([101, -1, 200] if (mal or profile == "ids") else []))
        ids.setdefault(c, mid)
        return hs.connect_v1(logger=1 if rng.random() < 0.15 else 0, daemon=0, src_mod=mid)
    if op in ("sub", "unsub", "pause", "resume"):
        pool = TYPES * 4 + [ALL, ALL, MT["FAILED_MESSAGE"], MT["FAILED_MESSAGE"], MT["CLIENT_CLOSED"], MT["CLIENT_INFO"],
                            MT["ACKNOWLEDGE"], MT["RTMA_LOG_ERROR"], MT["RTMA_LOG_INFO"], MT["RTMA_LOG_DEBUG"],
                            MT["TIMING_MESSAGE"], MT["MESSAGE_TRAFFIC"], MT["ACTIVE_CLIENTS"]]
        if profile == "nested":
            pool = [MT["FAILED_MESSAGE"], MT["CLIENT_CLOSED"], MT["CLIENT_INFO"], MT["RTMA_LOG_ERROR"], MT["RTMA_LOG_INFO"],
                    MT["FAILED_MESSAGE"], MT["CLIENT_CLOSED"], ALL] + TYPES
        return hs.sub(op, rng.choice(pool), src_mod=my if my > 0 else 0)
    if op == "publish":
        tpool = TYPES * 6 + [5000, 9999, MT["ACKNOWLEDGE"], MT["FAILED_MESSAGE"], MT["CLIENT_CLOSED"], MT["RTMA_LOG_INFO"]]
        if profile == "periodic":
            tpool = list(range(200, 200 + rng.choice([1, 2, 63, 64, 65, 130]))) + TYPES
        if mal:
            tpool += [10000, 10001, -1, 2**31 - 2, -2**31, ALL, -10000, -10001]
        t = rng.choice(tpool)
        others = [ids[x] for x in live if ids.get(x, 0) > 0]
        dm = rng.choice([0] * 6 + others * 2 + [50, 200] + ([201, -1, 32767] if rng.random() < 0.3 else []))
        dh = rng.choice([0] * 10 + [5] + ([6, -1] if rng.random() < 0.3 else []))
        n = rng.choice([0, 0, 1, 8, 8, 100] + ([4096, 65535] if rng.random() < 0.05 else []))
        pl = bytes(rng.getrandbits(8) for _ in range(n))
        if mal and rng.random() < 0.25:
            return hs.raw(t, rng.choice([-1, 2**20 + 1, 2**31 - 1, -2**31]), src_mod=my if 0 < my < 32768 else 0)
        return hs.publish(t, pl, src_mod=rng.choice([my if -32768 <= my < 32768 else 0, 0]), src_host=rng.choice([0, 0, 3]),
                          dst_mod=dm, dst_host=dh)
    if op == "disconnect":
        return hs.disconnect(src_mod=my if 0 < my < 32768 else 0)
    if op == "ready":
        return hs.ready(rng.choice([0, 123, 4000 + c, -5]))
    if op == "setname":
        return hs.setname(rng.choice(NAMES + ([b"\xe9t\xe9", b"x[/y]", b"[b]%d"] if mal else [])))
    if op == "eof":
        return hs.eof(bytes(rng.randrange(0, 47)) if rng.random() < 0.5 else b"")
    if op == "reset":
        return hs.reset()
    # truncated payload
    n = rng.choice([4, 8, 44, 100])
    got = bytes(rng.randrange(0, n))
    mk = hs.eofdata if rng.random() < 0.6 else hs.resetdata
    return mk(rng.choice(TYPES + [MT["SUBSCRIBE"], MT["CONNECT_V2"]]), n, got)
