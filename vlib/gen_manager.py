"""Regenerate coq/manager/Gen/*.v from /repo (write-if-changed)."""
from .framework import COQ, write_if_changed
from .translate import manager_tr, client_connect


def regen():
    errs = []
    d = COQ / "manager" / "Gen"
    d.mkdir(parents=True, exist_ok=True)
    try:
        write_if_changed(d / "MgrDefs.v", manager_tr.render())
    except Exception as e:
        errs.append(("MgrDefs.v", f"{type(e).__name__}: {e}"))
    try:
        write_if_changed(d / "ClientConnect.v", client_connect.render())
    except Exception as e:
        errs.append(("ClientConnect.v", f"{type(e).__name__}: {e}"))
    return errs
