"""Runs the REAL pyrtma MessageManager.run() on scripted histories, in-process,
over fake sockets.  Subprocess: python /verif/vlib/mgr_worker.py < cases.json > results.json

The names replaced are looked up in the namespace of pyrtma.manager: socket,
select, time, random, os.  After construction the two set-valued registries are
replaced by an order-pinned set type (iteration ascending by uid, with the same
"changed size during iteration" check as a real set).  See DESIGN.md 4.1.
"""
from __future__ import annotations

import contextlib
import errno
import io
import json
import logging
import os
import sys
import types
from collections import defaultdict, deque

sys.path.insert(0, os.path.dirname(os.path.abspath(__file__)))
import mgr_wire as W  # noqa: E402


class Script:
    def __init__(self, case):
        self.case = case
        self.events = deque(case["events"])
        self.now = 0
        self.socks = {}       # cid -> FakeSock (accepted)
        self.next_cid = 1
        self.writable = []
        self.sends = []       # (cid, bytes) global order
        self.pending_faults = {}
        self.mm = None
        self.blocking_selects = 0


class FakeSock:
    def __init__(self, script: Script, cid: int):
        self.script = script
        self.cid = cid
        self.closed = False
        self.chunks = deque()     # bytes chunks available
        self.term = "open"        # open | fin | rst
        self.ok_calls = None      # None = never fails; n = further sendall calls that succeed
        self.cap = None           # room left in the send buffer; only a NON-BLOCKING send can run out of it (a blocking
                                  # send waits for the peer, which keeps reading: the documented design)
        self.rst_seen = False     # the peer's reset has been delivered to a read or write on this socket
        self.close_at = None      # n: MessageManager.close() is called (by another thread of the application) just
                                  # before the n-th further sendall on this socket is carried out

    def __hash__(self):
        return self.cid

    def __eq__(self, o):
        return self is o

    def fileno(self):
        return -1 if self.closed else 1000 + self.cid

    def setsockopt(self, *a):
        pass

    def close(self):
        self.closed = True

    def shutdown(self, how):
        # Linux: shutdown() on a socket whose peer has reset the connection (or whose write side already failed with
        # EPIPE) is ENOTCONN; on a closed descriptor EBADF; otherwise it succeeds
        if self.closed:
            raise OSError(errno.EBADF, "Bad file descriptor")
        if self.term == "rst" or (self.ok_calls is not None and self.ok_calls <= 0):
            raise OSError(errno.ENOTCONN, "Transport endpoint is not connected")

    def _buflen(self, buf):
        try:
            return memoryview(buf).nbytes
        except TypeError:
            return len(buf)

    def recv_into(self, buf, nbytes=0, flags=0):
        if self.closed:
            raise OSError(errno.EBADF, "Bad file descriptor")
        blen = self._buflen(buf)
        if nbytes < 0:
            raise ValueError("negative buffersize in recv_into")
        if nbytes == 0:
            nbytes = blen
        if blen < nbytes:
            raise ValueError("buffer too small for requested bytes")
        waitall = bool(flags & 0x100)
        if flags & 0x2:
            # MSG_PEEK: what is queued (up to nbytes) without consuming it; 0 at EOF with nothing queued
            avail = b"".join(self.chunks)[:nbytes]
            if not avail:
                if self.term == "rst":
                    raise ConnectionResetError(errno.ECONNRESET, "Connection reset by peer")
                if self.term != "fin":
                    raise AssertionError(f"fake socket {self.cid}: peek would block (script error)")
            mv = memoryview(buf).cast("B")
            mv[:len(avail)] = avail
            return len(avail)
        got = bytearray()
        while len(got) < nbytes:
            if not self.chunks:
                if self.term == "rst":
                    raise ConnectionResetError(errno.ECONNRESET, "Connection reset by peer")
                if self.term == "fin":
                    break
                raise AssertionError(f"fake socket {self.cid}: read would block (script error)")
            c = self.chunks[0]
            take = min(len(c), nbytes - len(got))
            got += c[:take]
            if take == len(c):
                self.chunks.popleft()
            else:
                self.chunks[0] = c[take:]
            if not waitall:
                break
        mv = memoryview(buf).cast("B")
        mv[:len(got)] = got
        return len(got)

    def recv(self, n, flags=0):
        b = bytearray(n)
        k = self.recv_into(b, n, flags)
        return bytes(b[:k])

    def sendall(self, data, flags=0):
        if self.closed:
            raise OSError(errno.EBADF, "Bad file descriptor")
        if self.ok_calls is not None:
            if self.ok_calls <= 0:
                raise BrokenPipeError(errno.EPIPE, "Broken pipe")
            self.ok_calls -= 1
        data = bytes(data)
        if self.close_at is not None:
            self.close_at -= 1
            if self.close_at <= 0:
                # a thread switch at this I/O call: the application's thread runs MessageManager.close() to completion
                self.close_at = None
                self.script.mm.close()
        if (flags & 0x40) and self.cap is not None:
            # MSG_DONTWAIT: what fits is written, then EAGAIN - sendall gives no way to tell how much went out
            n = min(len(data), self.cap)
            self.cap -= n
            if n < len(data):
                if n:
                    self.script.sends.append((self.cid, data[:n]))
                raise BlockingIOError(errno.EAGAIN, "Resource temporarily unavailable")
        self.script.sends.append((self.cid, data))

    def send(self, data):
        self.sendall(data)
        return len(bytes(data))


class FakeListen(FakeSock):
    def __init__(self, script):
        super().__init__(script, 0)

    def bind(self, a):
        pass

    def listen(self, n):
        pass

    def accept(self):
        cid = self.script.next_cid
        self.script.next_cid += 1
        s = FakeSock(self.script, cid)
        if cid in self.script.pending_faults:
            s.ok_calls = self.script.pending_faults.pop(cid)
        self.script.socks[cid] = s
        return s, ("127.0.0.1", 40000 + cid)


class SortedSet(set):
    """set whose iteration order is pinned (ascending uid) and which raises like a real
    set when its size changes during iteration."""

    def __iter__(self):
        n = len(self)
        for x in sorted(set.__iter__(self), key=lambda m: m.uid):
            if len(self) != n:
                raise RuntimeError("Set changed size during iteration")
            yield x
        if len(self) != n:
            raise RuntimeError("Set changed size during iteration")


def feed(sock: FakeSock, ib: dict, timecode: bool):
    t = ib["t"]
    if t == "frame":
        sock.chunks.append(W.pack_hdr(ib["h"], timecode))
        pl = bytes.fromhex(ib.get("payload", ""))
        split = ib.get("split")
        if pl:
            if split and 0 < split < len(pl):
                sock.chunks.append(pl[:split])
                sock.chunks.append(pl[split:])
            else:
                sock.chunks.append(pl)
    elif t == "eof":
        p = bytes.fromhex(ib.get("partial", ""))
        if p:
            sock.chunks.append(p)
        sock.term = "fin"
    elif t == "eofdata":
        sock.chunks.append(W.pack_hdr(ib["h"], timecode))
        p = bytes.fromhex(ib.get("payload", ""))
        if p:
            sock.chunks.append(p)
        sock.term = "fin"
    elif t == "reset":
        sock.term = "rst"
    elif t == "resetdata":
        sock.chunks.append(W.pack_hdr(ib["h"], timecode))
        p = bytes.fromhex(ib.get("payload", ""))
        if p:
            sock.chunks.append(p)
        sock.term = "rst"
    else:
        raise AssertionError("unknown inbound " + t)


def run_case(case):
    import pyrtma.manager as M
    script = Script(case)
    timecode = case.get("timecode", False)
    listen = FakeListen(script)

    def fake_socket_ctor(*a, **k):
        return listen

    fsock = types.SimpleNamespace(
        socket=fake_socket_ctor, AF_INET=2, SOCK_STREAM=1, IPPROTO_TCP=6, SOMAXCONN=128, INADDR_ANY=0,
        MSG_WAITALL=0x100, MSG_DONTWAIT=0x40, MSG_PEEK=0x2, SHUT_RD=0, SHUT_WR=1, SHUT_RDWR=2, TCP_NODELAY=1, SOL_SOCKET=1, SO_REUSEADDR=2, getprotobyname=lambda n: 6)

    def fake_select(r, w, x, timeout=None):
        r = list(r)
        w = list(w)
        if r:
            # top of the loop: next round
            while script.events and script.events[0]["k"] in ("fault", "cap"):
                ev = script.events.popleft()
                if ev["k"] == "cap":
                    if ev["c"] in script.socks:
                        if ev.get("what") == "close_at":
                            script.socks[ev["c"]].close_at = ev["n"]
                        else:
                            script.socks[ev["c"]].cap = ev["n"]
                    continue
                # a connection that has started failing keeps failing: a new plan does not revive it
                if ev["c"] in script.socks:
                    sk = script.socks[ev["c"]]
                    if not (sk.ok_calls is not None and sk.ok_calls <= 0):
                        sk.ok_calls = ev["n"]
                else:
                    cur = script.pending_faults.get(ev["c"])
                    if not (cur is not None and cur <= 0):
                        script.pending_faults[ev["c"]] = ev["n"]
            if not script.events:
                script.mm._keep_running = False
                return [], [], []
            ev = script.events.popleft()
            script.now = ev["now"]
            script.writable = ev["writable"]
            ready = []
            if ev["accept"]:
                ready.append(listen)
            for cid, ib in ev["ready"]:
                s = script.socks.get(cid)
                if s is None or s not in r:
                    continue
                feed(s, ib, timecode)
                ready.append(s)
            return ready, [], []
        if timeout is not None:
            # any select with a FINITE timeout sees the round's writability: a connection outside the writable set stays
            # that way for longer than the caller is prepared to wait (only a wait without limit outlasts it)
            return [], [s for s in w if (not s.closed) and s.cid in script.writable], []
        # blocking select (no time limit) on a logger connection
        for s in w:
            if s.closed:
                raise ValueError("file descriptor cannot be a negative integer (-1)")
        script.blocking_selects += 1
        return [], w, []

    fselect = types.SimpleNamespace(select=fake_select)
    ftime = types.SimpleNamespace(perf_counter=lambda: script.now / 4.0, time=lambda: 0.0, sleep=lambda x: None)
    frandom = types.SimpleNamespace(shuffle=lambda l: None)
    fos = types.SimpleNamespace(getpid=lambda: 4242)

    saved = {k: getattr(M, k) for k in ("socket", "select", "time", "random", "os")}
    M.socket, M.select, M.time, M.random, M.os = fsock, fselect, ftime, frandom, fos
    logging.raiseExceptions = False
    crash = None
    effective = {}
    try:
        with contextlib.redirect_stdout(io.StringIO()), contextlib.redirect_stderr(io.StringIO()):
            mm = M.MessageManager(ip_address="127.0.0.1", port=7111, timecode=timecode,
                                  log_level=case["loglevel"], debug=False,
                                  send_msg_timing=case.get("timing", True))
            script.mm = mm
            # the console handler stays ON (its output goes to the redirected stdout): rendering a log record is part
            # of what the manager does with client-chosen strings (module names end up in log lines)
            mm.subscriptions = defaultdict(SortedSet)
            mm.logger_modules = SortedSet()
            # a control frame declaring fewer bytes than its definition is decoded from whatever the shared receive
            # buffer holds: record those bytes (observation only) so that the model can be given the same payload
            sizes = {W.MT["CONNECT"]: 4, W.MT["CONNECT_V2"]: 44, W.MT["SUBSCRIBE"]: 4, W.MT["UNSUBSCRIBE"]: 4,
                     W.MT["PAUSE_SUBSCRIPTION"]: 4, W.MT["RESUME_SUBSCRIPTION"]: 4, W.MT["CLIENT_SET_NAME"]: 32,
                     W.MT["MODULE_READY"]: 4}
            real_pm = mm.process_message

            def observing_pm(src):
                h = mm.header
                sz = sizes.get(int(h.msg_type))
                if sz is not None and 0 <= int(h.num_data_bytes) < sz:
                    effective[str(int(h.msg_count))] = bytes(mm.data_buffer[:sz]).hex()
                return real_pm(src)
            mm.process_message = observing_pm
            # a history is a few hundred events: a run() that is still going after two minutes is not going to stop
            class Hang(BaseException):
                pass

            def on_alarm(signum, frame):
                raise Hang("run() did not finish the scripted history within 120 s")
            import signal
            old_handler = signal.signal(signal.SIGALRM, on_alarm)
            signal.alarm(120)
            try:
                mm.run()
            except BaseException as e:  # noqa: escaped run(): the manager is dead
                crash = type(e).__name__ + ":" + str(e)[:120]
            finally:
                signal.alarm(0)
                signal.signal(signal.SIGALRM, old_handler)
    finally:
        for k, v in saved.items():
            setattr(M, k, v)
    hsz = 56 if timecode else 48
    items = []
    expect_payload = {}
    for cid, b in script.sends:
        # the manager writes a header with one sendall and the payload with the next
        if cid not in expect_payload and len(b) == hsz:
            h = W.unpack_hdr(b)
            items.append([cid, "H", h])
            expect_payload[cid] = h
        else:
            h = expect_payload.pop(cid, None)
            d = W.decode_payload(h["type"], b) if h is not None else None
            items.append([cid, "P", b.hex() if len(b) <= 64 else None, len(b),
                          __import__("hashlib").sha1(b).hexdigest(), d, h["type"] if h else None])
    # the three places a module is registered (property C07's anchors), as connection numbers, read after run() has
    # returned: module table, type -> subscriber index, logger set
    tables = None
    try:
        def cid_of(m):
            return getattr(m.conn, "cid", -1)
        tables = dict(modules=sorted(cid_of(m) for s_, m in mm.modules.items() if s_ is not listen),
                      subs={str(t): sorted(cid_of(m) for m in ms) for t, ms in mm.subscriptions.items() if len(ms)},
                      loggers=sorted(cid_of(m) for m in mm.logger_modules))
    except Exception as e:  # noqa: observation only
        tables = dict(error=type(e).__name__ + ":" + str(e)[:100])
    return dict(crash=crash, items=items, unread_events=len(script.events), blocking_selects=script.blocking_selects,
                effective=effective, tables=tables)


def main():
    cases = json.load(sys.stdin)
    out = []
    real = sys.stdout
    for c in cases:
        try:
            out.append(run_case(c))
        except BaseException as e:  # harness failure
            import traceback
            out.append(dict(harness_error=traceback.format_exc()[-1500:]))
    json.dump(out, real)


if __name__ == "__main__":
    main()
