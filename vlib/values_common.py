"""Shared helpers of the values family (C09, C10): class specs, worker driver, value universe,
Coq rendering, independent spec oracle."""
from __future__ import annotations

import json
import math
import struct
import subprocess
from concurrent.futures import ThreadPoolExecutor
from typing import Dict, List, Optional, Sequence, Tuple

from .framework import VERIF, PY, NCPU, impl_env, CoqFamily
from . import gen_values

FAM = CoqFamily("values", "Val")

INT_KINDS = ["Int8", "Int16", "Int32", "Int64", "Uint8", "Uint16", "Uint32", "Uint64"]
FLOAT_KINDS = ["Float", "Double"]
# independent of the code: what the C types can hold (used by the spec oracle only)
INT_RANGE = {"Int8": (-2 ** 7, 2 ** 7 - 1), "Int16": (-2 ** 15, 2 ** 15 - 1), "Int32": (-2 ** 31, 2 ** 31 - 1),
             "Int64": (-2 ** 63, 2 ** 63 - 1), "Uint8": (0, 2 ** 8 - 1), "Uint16": (0, 2 ** 16 - 1),
             "Uint32": (0, 2 ** 32 - 1), "Uint64": (0, 2 ** 64 - 1), "Byte": (0, 255)}
INT_WIDTH = {"Int8": 1, "Int16": 2, "Int32": 4, "Int64": 8, "Uint8": 1, "Uint16": 2, "Uint32": 4, "Uint64": 8,
             "Byte": 1}
CTYPE = {"Int8": (0, 1), "Int16": (0, 2), "Int32": (0, 4), "Int64": (0, 8), "Uint8": (1, 1), "Uint16": (1, 2),
         "Uint32": (1, 4), "Uint64": (1, 8), "Float": (2, 4), "Double": (2, 8), "Byte": (1, 1), "Char": (3, 1)}
VID = {k: i for i, k in enumerate(INT_KINDS + FLOAT_KINDS)}
EXC_NAMES = {0: None, 1: "TypeError", 2: "ValueError", 3: "OverflowError", 4: "IndexError", 5: "AttributeError",
             6: "UnicodeEncodeError", 7: "UnicodeDecodeError"}

FLT_MAX = (2 - 2 ** -23) * 2.0 ** 127
F32_OVERFLOW = 2 ** 128 - 2 ** 103          # |x| >= this rounds to +-inf in binary32 (RNE)
F64_OVERFLOW_INT = 2 ** 1024 - 2 ** 970


def regen_or_report(chk) -> bool:
    errs = gen_values.regen()
    for f, e in errs:
        chk.broken_obligation(f"translator failed closed for Gen/{f}", e)
    return not errs


def run_worker(job: dict, timeout: int = 1800) -> dict:
    p = subprocess.run([PY, str(VERIF / "vlib" / "values_worker.py")], input=json.dumps(job),
                       capture_output=True, text=True, env=impl_env(), timeout=timeout, cwd="/")
    if p.returncode != 0:
        raise RuntimeError("values_worker failed: " + p.stderr[-2500:])
    return json.loads(p.stdout)


def run_worker_parallel(base: dict, key: str, items: list, nproc: int = NCPU) -> list:
    """run base job with items (a list under `key`) split over processes; results in order"""
    if not items:
        return []
    nproc = max(1, min(nproc, (len(items) + 199) // 200))
    chunks = [items[i::nproc] for i in range(nproc)]

    def work(ch):
        j = dict(base)
        j[key] = ch
        return run_worker(j)[key]

    with ThreadPoolExecutor(nproc) as ex:
        rs = list(ex.map(work, chunks))
    out = [None] * len(items)
    for k, r in enumerate(rs):
        for j, x in enumerate(r):
            out[k + j * nproc] = x
    return out


# ---------------------------------------------------------------------------------------------
# float helpers (harness side; independent of ctypes)

def f64_bits(x: float) -> int:
    return struct.unpack("<Q", struct.pack("<d", x))[0]


def f64_from_bits(b: int) -> float:
    return struct.unpack("<d", struct.pack("<Q", b & (2 ** 64 - 1)))[0]


def f32_round(x: float) -> Optional[float]:
    """nearest binary32 (as a Python float), None when it overflows; independent of ctypes"""
    if math.isnan(x) or math.isinf(x):
        return x
    try:
        return struct.unpack("<f", struct.pack("<f", x))[0]
    except OverflowError:
        return None


# ---------------------------------------------------------------------------------------------
# value universe (harness representation = tuples)

def V_int(z): return ("int", int(z))
def V_bool(b): return ("bool", bool(b))
def V_float(x): return ("float", f64_bits(x) if isinstance(x, float) else int(x))
def V_fbits(b): return ("float", int(b))
def V_numlike(x): return ("numlike", f64_bits(x))
def V_str(s): return ("str", [ord(c) for c in s])
def V_bytes(b): return ("bytes", list(b))
def V_none(): return ("none",)
def V_list(xs): return ("list", list(xs))
def V_cinst(kind, raw): return ("cinst", CTYPE[kind][0], CTYPE[kind][1], list(raw))
def V_carr(kind, n, raw): return ("carr", CTYPE[kind][0], CTYPE[kind][1], int(n), list(raw))
def V_struct(cls, raw): return ("struct", cls, list(raw))
def V_arr(cls, field, raw, same_msg=False): return ("arr", cls, field, list(raw), bool(same_msg))
def V_sarr(cls, field, raw): return ("sarr", cls, field, list(raw))


def val_json(v) -> dict:
    t = v[0]
    if t == "int":
        return dict(t="int", v=str(v[1]))
    if t == "bool":
        return dict(t="bool", v=v[1])
    if t in ("float", "numlike"):
        return dict(t=t, bits=str(v[1]))
    if t == "str":
        return dict(t="str", cs=v[1])
    if t == "bytes":
        return dict(t="bytes", bs=v[1])
    if t == "none":
        return dict(t="none")
    if t == "list":
        return dict(t="list", items=[val_json(x) for x in v[1]])
    if t == "cinst":
        return dict(t="cinst", ck=v[1], cw=v[2], raw=v[3])
    if t == "carr":
        return dict(t="carr", ck=v[1], cw=v[2], n=v[3], raw=v[4])
    if t == "struct":
        return dict(t="struct", cls=v[1], raw=v[2])
    if t in ("arr", "sarr"):
        d = dict(t=t, cls=v[1], field=v[2], raw=v[3])
        if len(v) > 4 and v[4]:
            d["self"] = True
        return d
    raise ValueError(v)


def zl(xs) -> str:
    xs = list(xs)
    if not xs:
        return "(@nil Z)"       # typed: a shard whose lists are all empty must still type-check
    return "[" + ";".join(str(int(x)) if int(x) >= 0 else f"({int(x)})" for x in xs) + "]"


def z(n: int) -> str:
    return f"({n})" if n < 0 else str(n)


def optz(n) -> str:
    return "None" if n is None else f"(Some {z(n)})"


class Layouts:
    """class specs + layouts measured on the real ctypes classes"""

    def __init__(self, specs: List[dict], lay: List[dict]):
        self.specs = specs
        self.lay = lay

    def size(self, ci: int) -> int:
        return self.lay[ci]["size"]

    def fld(self, ci: int, fname: str) -> Tuple[list, int, int]:
        ts = next(t for n, t in self.specs[ci]["fields"] if n == fname)
        f = next(f for f in self.lay[ci]["fields"] if f[0] == fname)
        return ts, f[1], f[2]

    def elem_coq(self, ts) -> str:
        k = ts[0]
        if k == "IntArray":
            return f"(EInt {VID[ts[1]]} v_{ts[1]})"
        if k == "FloatArray":
            return f"(EFloat {VID[ts[1]]} v_{ts[1]})"
        if k == "ByteArray":
            return "(EByte v_Byte)"
        raise ValueError(ts)

    def ftype_coq(self, ts) -> str:
        k = ts[0]
        if k in INT_KINDS:
            return f"(TInt v_{k})"
        if k in FLOAT_KINDS:
            return f"(TFloat v_{k})"
        if k == "Byte":
            return "(TByte v_Byte)"
        if k == "Char":
            return "TChar"
        if k == "String":
            return f"(TString {ts[1]})"
        if k == "ByteArray":
            return f"(TArr (EByte v_Byte) {ts[1]})"
        if k in ("IntArray", "FloatArray"):
            return f"(TArr {self.elem_coq(ts)} {ts[2]})"
        if k == "Struct":
            return f"(TStruct {ts[1]} {self.size(ts[1])})"
        if k == "StructArray":
            return f"(TSArr {ts[1]} {self.size(ts[1])} {ts[2]})"
        raise ValueError(ts)

    def val_coq(self, v) -> str:
        t = v[0]
        if t == "int":
            return f"(PInt {z(v[1])})"
        if t == "bool":
            return f"(PBool {'true' if v[1] else 'false'})"
        if t == "float":
            return f"(PFloat {v[1]})"
        if t == "numlike":
            return f"(PNumLike {v[1]})"
        if t == "str":
            return f"(PStr {zl(v[1])})"
        if t == "bytes":
            return f"(PBytes {zl(v[1])})"
        if t == "none":
            return "PNone"
        if t == "list":
            return "(PList [" + ";".join(self.val_coq(x) for x in v[1]) + "])"
        if t == "cinst":
            return f"(PCInst {v[1]} {v[2]} {zl(v[3])})"
        if t == "carr":
            return f"(PCArr {v[1]} {v[2]} {v[3]} {zl(v[4])})"
        if t == "struct":
            return f"(PStruct {v[1]} {zl(v[2])})"
        if t == "arr":
            ts, off, size = self.fld(v[1], v[2])
            n = ts[1] if ts[0] == "ByteArray" else ts[2]
            return f"(PArr {self.elem_coq(ts)} {n} {zl(v[3][off:off + size])})"
        if t == "sarr":
            ts, off, size = self.fld(v[1], v[2])
            return f"(PSArr {ts[1]} {self.size(ts[1])} {ts[2]} {zl(v[3][off:off + size])})"
        raise ValueError(v)


def key_coq(k) -> str:
    if k is None:
        return "KAttr"
    if k[0] == "i":
        return f"(KIdx {z(k[1])})"
    return f"(KSlice {optz(k[1])} {optz(k[2])} {optz(k[3])})"


def get_layouts(specs: List[dict], compiled: Sequence[int] = (), imports: Sequence[str] = ()) -> Layouts:
    r = run_worker(dict(classes=specs, compiled=list(compiled), imports=list(imports), layout=True))
    L = Layouts(r["specs"] or specs, r["layout"])
    L.compile_error = r.get("compile_error")
    return L


def eval_cases_robust(header: str, cases: List[str], per_file: int, tag: str = "c") -> Tuple[List[int], str]:
    """FAM.eval_cases, hardened: a shard that failed to evaluate (coqc rc != 0, timeout under load, unparsable
    output) is re-run once on its own, sequentially; if it still fails the note carries coqc's return code and
    the FIRST 600 characters of its output.  Returns (indices of differing cases, negative = shard still failing)."""
    bad, log = FAM.eval_cases(header, cases, per_file=per_file, tag=tag)
    failed = sorted({-b - 1 for b in bad if b < 0})
    if not failed:
        return bad, log
    out = [b for b in bad if b >= 0]
    notes = []
    for k in failed:
        chunk = cases[k * per_file:(k + 1) * per_file]
        bad2, log2 = FAM.eval_cases(header, chunk, per_file=max(1, len(chunk)), tag=tag + "r")
        if any(b < 0 for b in bad2):
            body = header + "\nDefinition the_cases := [\n" + ";\n".join(chunk) + "].\n"
            rc, o = FAM.run_v(body, timeout=600)
            notes.append(f"shard {k} ({len(chunk)} cases) failed twice; type-check of its cases alone: coqc rc={rc}; "
                         f"first output: {o[:600]!r}; retry log: {log2[:600]!r}")
            out.append(-(k + 1))
        else:
            out += [k * per_file + b for b in bad2]
    return sorted(out, key=lambda b: (b < 0, b)), "\n".join(notes)


HEADER = """From Coq Require Import ZArith List Bool.
From Val Require Import Gen.ValidatorTbl Model.Bytes Model.Floats Model.Values Model.Flag.
Import ListNotations. Open Scope Z_scope.
Definition exn_code (e : exn) : Z :=
  match e with ETypeError => 1 | EValueError => 2 | EOverflowError => 3 | EIndexError => 4 | EAttributeError => 5
  | EUnicodeEncodeError => 6 | EUnicodeDecodeError => 7 end.
Fixpoint enc_val (v : pyval) : list Z :=
  match v with
  | PInt z => [1; z]
  | PBool b => [1; Z.b2z b]
  | PFloat b => [2; b]
  | PNumLike b => [2; b]
  | PStr cs => 3 :: Z.of_nat (length cs) :: cs
  | PBytes bs => 4 :: Z.of_nat (length bs) :: bs
  | PList l => 5 :: Z.of_nat (length l) :: concat (map enc_val l)
  | PStruct _ raw => 6 :: Z.of_nat (length raw) :: raw
  | _ => [8; 0]
  end.
Definition enc_get (r : exn + pyval) : list Z := match r with inl e => [9; exn_code e] | inr v => enc_val v end.
"""

CHECK_STRICT = HEADER + """
Definition check_case (c : (bool * field * key * list Z * pyval) * (Z * list Z * list Z)) : bool :=
  let '((en, f, k, m, v), (code, after, rb)) := c in
  let '(e, m') := set en f k m v in
  (match e with Some x => exn_code x =? code | None => code =? 0 end) && zl_eqb m' after &&
  (match e with None => zl_eqb (enc_get (get f k m')) rb | Some _ => true end).
"""

# exception class not compared (raise / no raise, bytes and read-back are)
CHECK_LENIENT = HEADER + """
Definition check_case (c : (bool * field * key * list Z * pyval) * (Z * list Z * list Z)) : bool :=
  let '((en, f, k, m, v), (code, after, rb)) := c in
  let '(e, m') := set en f k m v in
  (match e with Some x => negb (code =? 0) | None => code =? 0 end) && zl_eqb m' after &&
  (match e with None => zl_eqb (enc_get (get f k m')) rb | Some _ => true end).
"""


def case_coq(L: Layouts, op: dict, res: dict) -> str:
    ts = op["_ts"]
    fld = f"(mkField {res['off']} {L.ftype_coq(ts)})"
    before = list(bytes.fromhex(op["init"]))
    after = list(bytes.fromhex(res["after"]))
    rb = res.get("rb", [])
    return (f"(({'true' if op.get('enabled', True) else 'false'}, {fld}, {key_coq(op.get('key'))}, {zl(before)}, "
            f"{L.val_coq(op['_val'])}), ({res['code']}, {zl(after)}, {zl(rb)}))")
