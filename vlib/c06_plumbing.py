"""C06 (client half): drive the REAL Client.connect / client_context against a scripted peer and
record which option lands in which field of CONNECT_V2 / CONNECT.  Subprocess, PYTHONPATH=/repo/src."""
import itertools, json, os, socket, struct, sys, threading

sys.path.insert(0, os.path.dirname(os.path.abspath(__file__)))
import mgr_wire as W


def peer(listener, result):
    conn, _ = listener.accept()
    conn.settimeout(5)
    try:
        buf = b""
        frames = []
        while len(frames) < 2:
            while len(buf) < 48:
                buf += conn.recv(65536)
            h = W.unpack_hdr(buf[:48])
            n = h["nbytes"]
            while len(buf) < 48 + n:
                buf += conn.recv(65536)
            frames.append((h, buf[48:48 + n]))
            buf = buf[48 + n:]
        for h, pl in frames:
            if h["type"] == W.MT["CONNECT_V2"]:
                lg, dm, am, mid, pid, name = W.CONNECT_V2.unpack(pl)
                result.update(v2=dict(logger=lg, daemon=dm, allow_multiple=am, mod_id=mid, name=W.cstr(name).decode("latin1")))
            if h["type"] == W.MT["CONNECT"]:
                lg, dm = W.CONNECT.unpack(pl)
                result.update(v1=dict(logger=lg, daemon=dm, src_mod=h["src_mod"]))
        ack = W.pack_hdr(dict(type=W.MT["ACKNOWLEDGE"], nbytes=0, dst_mod=result["v2"]["mod_id"] or 100))
        conn.sendall(ack)
        conn.settimeout(1)
        try:
            while conn.recv(65536):
                pass
        except Exception:
            pass
    finally:
        conn.close()


def one(entry, kw):
    import pyrtma
    from pyrtma.client import Client, client_context
    lst = socket.socket()
    lst.bind(("127.0.0.1", 0))
    lst.listen(1)
    port = lst.getsockname()[1]
    result = {}
    t = threading.Thread(target=peer, args=(lst, result))
    t.start()
    try:
        if entry == "Client.connect":
            c = Client(module_id=kw["module_id"], name=kw["name"])
            c.connect(f"127.0.0.1:{port}", logger_status=kw["logger"], daemon_status=kw["daemon"], allow_multiple=kw["allow_multiple"])
            c._sock.close(); c._connected = False
        else:
            with client_context(module_id=kw["module_id"], server_name=f"127.0.0.1:{port}", logger_status=kw["logger"],
                                allow_multiple=kw["allow_multiple"], name=kw["name"]) as c:
                c._sock.close(); c._connected = False
    except Exception as e:
        result["exc"] = type(e).__name__
    t.join(10)
    lst.close()
    return result


def peer2(listener, result, ack_id, then):
    """accept one connection, read CONNECT_V2 + CONNECT, acknowledge with ack_id; then: 'close' | 'reset' | 'drain'"""
    conn, _ = listener.accept()
    conn.settimeout(5)
    try:
        buf = b""
        frames = []
        while len(frames) < 2:
            while len(buf) < 48:
                buf += conn.recv(65536)
            h = W.unpack_hdr(buf[:48])
            n = h["nbytes"]
            while len(buf) < 48 + n:
                buf += conn.recv(65536)
            frames.append((h, buf[48:48 + n]))
            buf = buf[48 + n:]
        for h, pl in frames:
            if h["type"] == W.MT["CONNECT_V2"]:
                lg, dm, am, mid, pid, name = W.CONNECT_V2.unpack(pl)
                result.update(mod_id=mid, allow_multiple=am, logger=lg, name=W.cstr(name).decode("latin1"))
            if h["type"] == W.MT["CONNECT"]:
                result.update(v1_src_mod=h["src_mod"])
        conn.sendall(W.pack_hdr(dict(type=W.MT["ACKNOWLEDGE"], nbytes=0, dst_mod=ack_id)))
        if then in ("close", "reset"):
            # connect() follows the handshake with MODULE_READY: let it through, then end the connection
            while len(buf) < 52:
                d = conn.recv(65536)
                if not d:
                    break
                buf += d
        if then == "reset":
            conn.setsockopt(socket.SOL_SOCKET, socket.SO_LINGER, struct.pack("ii", 1, 0))
        elif then == "drain":
            conn.settimeout(1)
            try:
                while conn.recv(65536):
                    pass
            except Exception:
                pass
    except Exception as e:
        result["peer_exc"] = type(e).__name__
    finally:
        conn.close()


def reconnect(how, mid, lg, am, name):
    """ONE Client object connecting twice: the second connection request must again be what the caller asked for when
    the object was made (id 0 asks for a fresh dynamic id; an explicit id is asked for again), however the first
    connection ended: disconnect(), the peer closing / resetting it (ConnectionLost on the next read), or connect()
    called while still connected"""
    from pyrtma.client import Client
    from pyrtma.exceptions import ConnectionLost
    res = []
    c = Client(module_id=mid, name=name)
    ids = (150, 151) if mid == 0 else (mid, mid)
    events = []
    for k in (0, 1):
        lst = socket.socket()
        lst.bind(("127.0.0.1", 0))
        lst.listen(1)
        port = lst.getsockname()[1]
        r = {}
        then = "drain" if (k == 1 or how in ("disconnect", "while-connected")) else how
        t = threading.Thread(target=peer2, args=(lst, r, ids[k], then))
        t.start()
        try:
            c.connect(f"127.0.0.1:{port}", logger_status=lg, allow_multiple=am)
            r["adopted"] = c.module_id
            if k == 0 and how in ("close", "reset"):
                t.join(10)
                try:
                    for _ in range(3):
                        c.read_message(timeout=0.5)
                    events.append("no-error")
                except ConnectionLost:
                    events.append("ConnectionLost")
                r["connected_after_loss"] = c.connected
            elif k == 0 and how == "disconnect":
                c.disconnect()
        except Exception as e:  # noqa
            r["exc"] = type(e).__name__
        if k == 1:
            try:
                c._sock.close(); c._connected = False
            except Exception:
                pass
        t.join(10)
        lst.close()
        res.append(r)
    return res, events


NAMED_IDS = (4, 5)     # module ids that have a MID_* constant in the core definitions (a caller who gives no name gets that one)


def main():
    out = []
    for how in ("disconnect", "close", "reset", "while-connected"):
        for mid, lg, am, name in itertools.product((0, 12, 5), (False, True), (False, True), ("", "nm")):
            (r1, r2), ev = reconnect(how, mid, lg, am, name)
            want = dict(first_request=mid, second_request=mid, adopted_1=150 if mid == 0 else mid, adopted_2=151 if mid == 0 else mid,
                        allow_multiple_2=int(am), logger_2=int(lg), name_2=name)
            got = dict(first_request=r1.get("mod_id"), second_request=r2.get("mod_id"), adopted_1=r1.get("adopted"),
                       adopted_2=r2.get("adopted"), allow_multiple_2=r2.get("allow_multiple"), logger_2=r2.get("logger"),
                       name_2=r2.get("name"))
            if how in ("close", "reset"):
                want["loss"] = ["ConnectionLost"]; got["loss"] = ev
            if name == "" and mid in NAMED_IDS:
                want.pop("name_2"); got.pop("name_2")     # no name given for an id that has one: the client picks it
            out.append(dict(entry="reconnect-after-" + how, args=dict(module_id=mid, logger=lg, allow_multiple=am, name=name),
                            want=want, got=got))
    for entry in ("Client.connect", "client_context"):
        for mid, lg, dm, am, name in itertools.product((0, 12, 4, 5), (False, True), (False, True), (False, True), ("", "nm", "bench_quick")):
            if entry == "client_context" and dm:
                continue      # client_context has no daemon option
            kw = dict(module_id=mid, logger=lg, daemon=dm, allow_multiple=am, name=name)
            r = one(entry, kw)
            want = dict(logger=int(lg), daemon=int(dm), allow_multiple=int(am), mod_id=mid, name=name,
                        v1_logger=int(lg), v1_daemon=int(dm))
            got = {}
            if "v2" in r:
                got.update(logger=r["v2"]["logger"], daemon=r["v2"]["daemon"], allow_multiple=r["v2"]["allow_multiple"],
                           mod_id=r["v2"]["mod_id"], name=r["v2"]["name"])
            if "v1" in r:
                got.update(v1_logger=r["v1"]["logger"], v1_daemon=r["v1"]["daemon"])
            if name == "" and mid in NAMED_IDS:
                want.pop("name", None); got.pop("name", None)
            out.append(dict(entry=entry, args=kw, want=want, got=got))
    json.dump(out, sys.stdout)


main()
