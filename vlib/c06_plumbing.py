"""C06 (client half): drive the REAL Client.connect / client_context against a scripted peer and
record which option lands in which field of CONNECT_V2 / CONNECT.  Subprocess, PYTHONPATH=/repo/src."""
import itertools, json, os, socket, struct, sys, threading

sys.path.insert(0, os.path.dirname(os.path.abspath(__file__)))
import mgr_wire as W


def peer(listener, result):
    conn, _ = listener.accept()
    conn.settimeout(5)
    try:
        buf = b""
        frames = []
        while len(frames) < 2:
            while len(buf) < 48:
                buf += conn.recv(65536)
            h = W.unpack_hdr(buf[:48])
            n = h["nbytes"]
            while len(buf) < 48 + n:
                buf += conn.recv(65536)
            frames.append((h, buf[48:48 + n]))
            buf = buf[48 + n:]
        for h, pl in frames:
            if h["type"] == W.MT["CONNECT_V2"]:
                lg, dm, am, mid, pid, name = W.CONNECT_V2.unpack(pl)
                result.update(v2=dict(logger=lg, daemon=dm, allow_multiple=am, mod_id=mid, name=W.cstr(name).decode("latin1")))
            if h["type"] == W.MT["CONNECT"]:
                lg, dm = W.CONNECT.unpack(pl)
                result.update(v1=dict(logger=lg, daemon=dm, src_mod=h["src_mod"]))
        ack = W.pack_hdr(dict(type=W.MT["ACKNOWLEDGE"], nbytes=0, dst_mod=result["v2"]["mod_id"] or 100))
        conn.sendall(ack)
        conn.settimeout(1)
        try:
            while conn.recv(65536):
                pass
        except Exception:
            pass
    finally:
        conn.close()


def one(entry, kw):
    import pyrtma
    from pyrtma.client import Client, client_context
    lst = socket.socket()
    lst.bind(("127.0.0.1", 0))
    lst.listen(1)
    port = lst.getsockname()[1]
    result = {}
    t = threading.Thread(target=peer, args=(lst, result))
    t.start()
    try:
        if entry == "Client.connect":
            c = Client(module_id=kw["module_id"], name=kw["name"])
            c.connect(f"127.0.0.1:{port}", logger_status=kw["logger"], daemon_status=kw["daemon"], allow_multiple=kw["allow_multiple"])
            c._sock.close(); c._connected = False
        else:
            with client_context(module_id=kw["module_id"], server_name=f"127.0.0.1:{port}", logger_status=kw["logger"],
                                allow_multiple=kw["allow_multiple"], name=kw["name"]) as c:
                c._sock.close(); c._connected = False
    except Exception as e:
        result["exc"] = type(e).__name__
    t.join(10)
    lst.close()
    return result


def main():
    out = []
    for entry in ("Client.connect", "client_context"):
        for mid, lg, dm, am, name in itertools.product((0, 12), (False, True), (False, True), (False, True), ("", "nm")):
            if entry == "client_context" and dm:
                continue      # client_context has no daemon option
            kw = dict(module_id=mid, logger=lg, daemon=dm, allow_multiple=am, name=name)
            r = one(entry, kw)
            want = dict(logger=int(lg), daemon=int(dm), allow_multiple=int(am), mod_id=mid, name=name,
                        v1_logger=int(lg), v1_daemon=int(dm))
            got = {}
            if "v2" in r:
                got.update(logger=r["v2"]["logger"], daemon=r["v2"]["daemon"], allow_multiple=r["v2"]["allow_multiple"],
                           mod_id=r["v2"]["mod_id"], name=r["v2"]["name"])
            if "v1" in r:
                got.update(v1_logger=r["v1"]["logger"], v1_daemon=r["v1"]["daemon"])
            out.append(dict(entry=entry, args=kw, want=want, got=got))
    json.dump(out, sys.stdout)


main()
