"""setup_cmd: regenerate Gen files and build all Coq families (failures are reported, not fatal:
each check rebuilds its own cone and decides)."""
import sys
from .framework import COQ, CoqFamily

FAMS = {"defs": "Defs", "manager": "Mgr", "client": "Cli", "values": "Val", "logger": "Logr"}


def main():
    rc = 0
    for name, logical in FAMS.items():
        if not (COQ / name).exists():
            continue
        try:
            mod = __import__(f"vlib.gen_{name}", fromlist=["regen"])
            errs = mod.regen()
            for f, e in errs:
                print(f"[setup] translator failed closed: {name}/Gen/{f}: {e}")
        except ModuleNotFoundError:
            pass
        fam = CoqFamily(name, logical)
        ok, log = fam.build_all(timeout=1800)
        print(f"[setup] coq family {name}: {'ok' if ok else 'BUILD FAILED'}")
        if not ok:
            print(log[-1500:])
    return 0


if __name__ == "__main__":
    sys.exit(main())
