"""Regenerate coq/client/Gen/*.v from /repo (write-if-changed)."""
from .framework import COQ, write_if_changed
from .translate import client_sub


def regen():
    """returns list of (file, error) for translators that failed closed"""
    errs = []
    d = COQ / "client" / "Gen"
    d.mkdir(parents=True, exist_ok=True)
    for fname, render in (("ClientSub.v", client_sub.render_client_sub),
                          ("MgrSub.v", client_sub.render_mgr_sub),
                          ("ReadGuards.v", client_sub.render_read_guards)):
        try:
            write_if_changed(d / fname, render())
        except Exception as e:  # TranslateError or anything else: fail closed
            errs.append((fname, f"{type(e).__name__}: {e}"))
    return errs
