"""Common driver for the manager-family checks (C01 C03 C05 C06 C07 C14 C18 C19)."""
from __future__ import annotations

import base64
import json
import pickle
import random
import re
from typing import Dict, List

from .framework import Check
from . import mgr_common as C
from . import mgr_oracles as O


def run_property(chk: Check, pid: str, props_module: str, theorems: List[str], model_profiles: Dict[str, int],
                 oracle_flavors: Dict[str, int], checkers: List[str], assumptions: List[str],
                 known_key_map=None, extra_histories=None):
    rng = random.Random(chk.seed)
    model_ok = C.regen_or_report(chk)
    if model_ok:
        chk.prove(C.FAM, props_module, theorems, extra_targets=["Model/Encode.vo"])
        ok, log = C.FAM.build(["Model/Encode.vo"])
        if not ok:
            model_ok = False
            chk.broken_obligation("model does not build against the regenerated definitions", log[-600:])
        if model_ok and chk.tier == "thorough":
            # independent re-check of the compiled property file and everything it depends on
            okc, outc = C.FAM.coqchk(props_module)
            chk.cov["coqchk"] = " ".join(outc.split())[-1500:]
            if not okc:
                chk.broken_obligation("coqchk rejected Mgr." + props_module, outc[-600:])
    else:
        chk.cov["obligations"] += len(theorems)
    scale = 8 if chk.tier == "thorough" else 1

    # ---- histories -----------------------------------------------------------
    hs: List[C.History] = []
    kinds: List[str] = []
    for prof, n in model_profiles.items():
        for _ in range(n * scale):
            hs.append(C.gen_history(rng, prof))
            kinds.append("model:" + prof)
    for fl, n in oracle_flavors.items():
        for _ in range(n * scale):
            hs.append(O.gen_monitored(rng, fl))
            kinds.append("oracle:" + fl)
    for h in (extra_histories(rng, chk.tier) if extra_histories else []):
        hs.append(h)
        kinds.append("directed:" + h.tag)
    res = C.run_impl([h.case_json() for h in hs])

    # ---- correspondence: model vs implementation on every history --------------
    cases = []
    dist_order: List[str] = []
    case_idx: List[int] = []     # cases[j] is history case_idx[j] (impl-only histories are not evaluated in the model)
    dist: Dict[str, int] = {}
    nontrivial = set()
    nframes = 0
    for h, r, k in zip(hs, res, kinds):
        if "harness_error" in r:
            chk.broken_obligation("harness failure running the manager", r["harness_error"][-600:])
            return
        h.finalize(r)
        enc = C.encode_obs(r, h.it)
        if not getattr(h, "impl_only", False):
            cases.append(f"({h.coq_input()}, {C.zl(enc)})")
            case_idx.append(len(dist_order))
        dist_order.append(k)
        dist[k] = dist.get(k, 0) + 1
        if r["crash"]:
            dist["crashed"] = dist.get("crashed", 0) + 1
        conns_written = {i[0] for i in r["items"]}
        nframes += sum(1 for i in r["items"] if i[1] == "H")
        if len(conns_written) >= 2 and len(r["items"]) >= 8:
            nontrivial.add(hash(tuple(enc)))
    if model_ok:
        bad, log = C.FAM.eval_cases(C.HEADER, cases, per_file=40)
        bad = [case_idx[b] if b >= 0 else b for b in bad]
    else:
        bad, log = [], "(model unavailable: correspondence skipped, failing-input search only)"
        chk.note(log)
    chk.cov["evaluations"] = len(hs)
    chk.cov["traces_validated_against_impl"] = (len(cases) - len([b for b in bad if b >= 0])) if model_ok else 0
    chk.cov["distinct_nontrivial"] = len(nontrivial)
    chk.cov["frames_written_by_impl"] = nframes
    chk.cov["input_distribution"] = dist
    chk.cov["rule"] = ("scripted histories (accept/connect/subscribe/publish/faults/clock) run through the REAL "
                       "MessageManager.run() over fake sockets and through Model/Manager.v (vm_compute); compared on "
                       "every byte-level write (conn, header fields, decoded payload) in global order and on the crash "
                       "class; non-trivial = at least 2 connections written to and >= 8 writes, distinct by trace")
    for b in bad[:3]:
        if b >= 0:
            h = hs[b]
            chk.add_candidate(dict(kind=kinds[b], loglevel=h.loglevel, timing=h.timing, timecode=h.timecode,
                                   events=h.cevents, history=h.case_json(), implementation_crash=res[b]["crash"]))
            chk.broken_obligation("correspondence Model/Manager.v vs MessageManager differs",
                                  f"history #{b} ({kinds[b]}) loglevel={h.loglevel} crash={res[b]['crash']}: "
                                  + "; ".join(h.cevents)[:700])
        else:
            chk.broken_obligation("correspondence shard failed to evaluate", log[-600:])

    # ---- spec oracle on the implementation's own output --------------------------
    nchecked = 0
    for i, (h, r, k) in enumerate(zip(hs, res, kinds)):
        if not (k.startswith("oracle:") or k.startswith("directed:")):
            # unmonitored histories: only liveness (C03) and per-connection stream checks make sense
            ob = O.Obs(r, h)
            for name in checkers:
                # liveness (C03) and the per-connection stream rules of C05 (sequence numbers, declared lengths, publish
                # order) need no monitor and no simulation of who is connected: they are evaluated on every history; so
                # is the table rule of C07 (index and logger set only hold connections of the module table)
                if name in ("C03", "C05", "C07"):
                    for key, desc in O.CHECKERS[name](h, {}, O.Expect(), ob):
                        chk.spec_failure(key=key, desc=desc, replay=dict(history=h.case_json(), kind=k, events=h.cevents, pickle=base64.b64encode(pickle.dumps(h)).decode()))
            continue
        ob = O.Obs(r, h)
        conns, ex = O.simulate(h, ob.first_ack)
        nchecked += 1
        for name in checkers:
            for key, desc in O.CHECKERS[name](h, conns, ex, ob):
                if known_key_map:
                    key = known_key_map(key, desc, h)
                chk.spec_failure(key=key, desc=desc, replay=dict(history=h.case_json(), kind=k, events=h.cevents, pickle=base64.b64encode(pickle.dumps(h)).decode()))
    chk.cov["histories_checked_by_spec_oracle"] = nchecked
    chk.add_samples([dict(kind=kinds[i], events=hs[i].cevents[:12]) for i in (0, len(hs) // 2, len(hs) - 1) if hs])
    chk.assumptions += assumptions + [
        "fake sockets stand for TCP: sendall is all-or-nothing per call, a failing connection keeps failing, a closed "
        "socket raises EBADF, recv with MSG_WAITALL returns all requested bytes or a short read at EOF",
        "set iteration order pinned (ascending uid) by the harness; Python recursion limit / fd limits not modelled",
        "a control frame shorter than its message definition is decoded by the manager from its shared receive buffer; "
        "WHICH bytes it decodes is observed in the implementation run and handed to the model as that frame's payload "
        "(the theorems quantify over every payload value, so they cover these frames; the buffer itself is not modelled)",
    ]


def replay(pid: str, path: str, checkers: List[str]) -> int:
    """re-run the recorded history against /repo's current tree and re-evaluate the spec oracle"""
    d = json.load(open(path))
    rp = d["replay"]
    print("recorded:", d.get("key"), "-", d.get("desc"))
    print("events:")
    for e in rp.get("events", []):
        print("  ", e)
    h = pickle.loads(base64.b64decode(rp["pickle"]))
    r = C.run_impl([h.case_json()])[0]
    print("manager crash:", r.get("crash"))
    ob = O.Obs(r, h)
    conns, ex = O.simulate(h, ob.first_ack)
    n = 0
    for name in checkers:
        for key, desc in O.CHECKERS[name](h, conns, ex, ob):
            print("NOW:", name, key, desc)
            n += 1
    print("violations now:", n)
    return 1 if n else 0
