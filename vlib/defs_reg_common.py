"""Shared helpers of the C12 / C13 checks (definition registry and version hash).

A *closure* is a python description of a set of definition files:
  {"files": [file, ...], "root": index, "icd": bool, "symlinks": {linkpath: target}, "cwd": relpath|None}
  file = {"path": "a/b.yaml", "imports": [(target_index, written_path)], "constants": [(name, int)],
          "strings": [name], "aliases": [(name, type_text)], "hosts": [(name, int)], "modules": [(name, int)],
          "structs": [name], "messages": [("def", name, id, is_signal) | ("res", [("int", n) | ("range", a, b, style)])],
          "order": optional permutation of the section names for the text}
It is rendered three ways: YAML files for the real parser, a Coq term for Model/Registry.v, and it
is read directly by the spec oracle.
"""
from __future__ import annotations

import os
import posixpath
import re
from pathlib import Path
from typing import Dict, List, Optional, Tuple

from .framework import SRC

SECTIONS = ["imports", "constants", "string_constants", "aliases", "host_ids", "module_ids", "struct_defs",
            "message_defs"]
EXC_CODE = {"YAMLSyntaxError": 1, "RTMASyntaxError": 2, "DuplicateNameError": 3, "HostIDError": 4,
            "ModuleIDError": 5, "MessageIDError": 6, "RecursionError": 7, "FileNotFoundError": 8}
CORE_DIR = SRC / "pyrtma" / "core_defs"
CORE_NAMES = ["core_defs.yaml", "data_logger.yaml", "quick_logger.yaml"]


def new_file(path: str, **kw) -> dict:
    f = dict(path=path, imports=[], constants=[], strings=[], aliases=[], hosts=[], modules=[], structs=[],
             messages=[], order=None)
    f.update(kw)
    return f


def rel_import(src_path: str, dst_path: str) -> str:
    return posixpath.relpath(dst_path, posixpath.dirname(src_path) or ".")


# ---- YAML ----------------------------------------------------------------------

def res_entry_text(e) -> str:
    if e[0] == "int":
        return str(e[1])
    _, a, b, style = e
    return {"dash": f"{a}-{b}", "to": f"{a} to {b}", "spdash": f"{a} - {b}", "tight": f"{a}to{b}"}[style]


def file_yaml(f: dict) -> str:
    parts: Dict[str, str] = {}
    if f["imports"]:
        parts["imports"] = "imports:\n" + "".join(f"  - {w}\n" for _, w in f["imports"])
    if f["constants"]:
        parts["constants"] = "constants:\n" + "".join(f"  {n}: {v}\n" for n, v in f["constants"])
    if f["strings"]:
        parts["string_constants"] = "string_constants:\n" + "".join(f'  {n}: "text of {n}"\n' for n in f["strings"])
    if f["aliases"]:
        parts["aliases"] = "aliases:\n" + "".join(f"  {n}: {t}\n" for n, t in f["aliases"])
    if f["hosts"]:
        parts["host_ids"] = "host_ids:\n" + "".join(f"  {n}: {v}\n" for n, v in f["hosts"])
    if f["modules"]:
        parts["module_ids"] = "module_ids:\n" + "".join(f"  {n}: {v}\n" for n, v in f["modules"])
    if f["structs"]:
        parts["struct_defs"] = "struct_defs:\n" + "".join(f"  {n}:\n    fields:\n      x: int32\n" for n in f["structs"])
    if f["messages"]:
        t = "message_defs:\n"
        for m in f["messages"]:
            if m[0] == "def":
                _, n, i, sig = m
                t += f"  {n}:\n    id: {i}\n" + ("    fields: null\n" if sig else "    fields:\n      x: int32\n")
            else:
                t += "  _RESERVED_:\n    id: [" + ", ".join(res_entry_text(e) for e in m[1]) + "]\n"
        parts["message_defs"] = t
    order = f.get("order") or SECTIONS
    txt = "# generated\n" + "\n".join(parts[s] for s in order if s in parts)
    return txt if parts else "# empty\nconstants: null\n"


def to_case(cl: dict) -> dict:
    files = {f["path"]: file_yaml(f) for f in cl["files"] if not f.get("is_core")}
    return dict(files=files, root=cl["files"][cl["root"]]["path"], import_coredefs=cl["icd"],
                symlinks=cl.get("symlinks", {}), cwd=cl.get("cwd"), auto_pad=True, validate_alignment=True)


# ---- core files as model files (read from /repo on every run) -------------------------

def core_files() -> List[dict]:
    from ruamel.yaml import YAML
    out = []
    for k, nm in enumerate(CORE_NAMES):
        d = YAML(typ="safe").load((CORE_DIR / nm).read_text())
        f = new_file("<core>/" + nm, is_core=True)
        for imp in d.get("imports") or []:
            f["imports"].append((CORE_NAMES.index(imp), imp))
        for n, v in (d.get("constants") or {}).items():
            if not isinstance(v, int):
                raise RuntimeError(f"core constant {n} is not an integer literal: the registry model needs extending")
            f["constants"].append((n, v))
        f["strings"] = list((d.get("string_constants") or {}).keys())
        f["aliases"] = list((d.get("aliases") or {}).items())
        f["hosts"] = list((d.get("host_ids") or {}).items())
        f["modules"] = list((d.get("module_ids") or {}).items())
        f["structs"] = list((d.get("struct_defs") or {}).keys())
        for n, m in (d.get("message_defs") or {}).items():
            if n == "_RESERVED_":
                es = []
                for e in m["id"]:
                    if isinstance(e, int):
                        es.append(("int", e))
                    else:
                        mm = re.fullmatch(r"\s*(\d+)\s*(?:-|to)\s*(\d+)\s*", e)
                        es.append(("range", int(mm.group(1)), int(mm.group(2)), "dash"))
                f["messages"].append(("res", es))
            else:
                f["messages"].append(("def", n, m["id"], m["fields"] is None))
        out.append(f)
    return out


CORE = -1          # import target standing for the packaged core_defs.yaml (named explicitly by a user file)


def core_path() -> str:
    return str(CORE_DIR / "core_defs.yaml")


def with_core(cl: dict) -> Tuple[List[dict], List[int]]:
    """files of the model closure (core files appended when icd, or when a file imports the packaged
    core_defs.yaml explicitly) and the root list"""
    files = list(cl["files"])
    explicit = any(t == CORE for f in files for t, _ in f["imports"])
    if explicit:
        base = len(files)
        files = [dict(f, imports=[(base if t == CORE else t, w) for t, w in f["imports"]]) for f in files]
    if cl["icd"] or explicit:
        base = len(files)
        cf = []
        for f in core_files():
            g = dict(f)
            g["imports"] = [(base + t, w) for t, w in f["imports"]]
            cf.append(g)
        files += cf
        return files, ([base, cl["root"]] if cl["icd"] else [cl["root"]])
    return files, [cl["root"]]


def is_core_name(f: dict) -> bool:
    """Parser.is_core_file: the package's own core_defs.yaml (a user file of that name is not)"""
    return bool(f.get("is_core")) and posixpath.basename(f["path"]) == "core_defs.yaml"


# ---- Coq rendering -----------------------------------------------------------------

def cz(n: int) -> str:
    return f"({n})" if n < 0 else str(n)


def cs(s: str) -> str:
    if any(ord(c) > 126 or ord(c) < 32 for c in s):
        raise ValueError(f"string not representable in a Coq literal: {s!r}")
    return '"' + s.replace('"', '""') + '"'


def coq_file(f: dict) -> str:
    def pl(xs, fn):
        return "[" + "; ".join(fn(x) for x in xs) + "]"
    msgs = []
    for m in f["messages"]:
        if m[0] == "def":
            msgs.append(f"MDef {cs(m[1])} {cz(m[2])} {'true' if m[3] else 'false'}")
        else:
            es = [f"RInt {cz(e[1])}" if e[0] == "int" else f"RRange {cz(e[1])} {cz(e[2])}" for e in m[1]]
            msgs.append("MReserved [" + "; ".join(es) + "]")
    return ("mkFile " + ("true" if is_core_name(f) else "false") + " "
            + "[" + "; ".join(str(t) for t, _ in f["imports"]) + "]%nat "
            + pl(f["constants"], lambda c: f"({cs(c[0])}, {cz(c[1])})") + " "
            + pl(f["strings"], cs) + " "
            + pl(f["aliases"], lambda a: f"({cs(a[0])}, {cs(a[1])})") + " "
            + pl(f["hosts"], lambda c: f"({cs(c[0])}, {cz(c[1])})") + " "
            + pl(f["modules"], lambda c: f"({cs(c[0])}, {cz(c[1])})") + " "
            + pl(f["structs"], cs) + " "
            + "[" + "; ".join(msgs) + "]")


MISSING = 100000   # import target index standing for a file that does not exist


def coq_closure(cl: dict) -> str:
    files, roots = with_core(cl)
    return ("(" + ("true" if cl["icd"] else "false") + ", [" + ";\n   ".join(coq_file(f) for f in files) + "], ["
            + "; ".join(str(r) for r in roots) + "]%nat)")


# ---- expected observation from the implementation's result -----------------------------

def enc_str(s: str) -> List[int]:
    b = s.encode("utf-8")
    return [len(b)] + list(b)


def path_index(cl: dict) -> Dict[str, int]:
    files, _ = with_core(cl)
    idx = {}
    for i, f in enumerate(files):
        if f.get("is_core"):
            idx["<core>/" + posixpath.basename(f["path"])] = i
        else:
            idx[posixpath.normpath(f["path"])] = i
    return idx


def included_indices(cl: dict, res: dict) -> List[int]:
    idx = path_index(cl)
    out = []
    for p in res.get("included", []):
        p = p.replace(os.sep, "/")
        if "pyrtma/core_defs/" in p:
            key = "<core>/" + posixpath.basename(p)
        else:
            key = posixpath.normpath(p)
        out.append(idx.get(key, -1))
    return out


def impl_flat(cl: dict, res: dict) -> List[int]:
    if not res["ok"]:
        return [0, EXC_CODE.get(res["exc"], 50)]
    out = [1]
    inc = included_indices(cl, res)
    out += [len(inc)] + inc
    out.append(len(res["constants"]))
    for n, v in res["constants"].items():
        out += enc_str(n) + [v if isinstance(v, int) else -999999]
    out.append(len(res["string_constants"]))
    for n in res["string_constants"]:
        out += enc_str(n)
    out.append(len(res["aliases"]))
    for n, t in res["aliases"].items():
        out += enc_str(n) + enc_str(t)
    for key in ("host_ids", "module_ids"):
        out.append(len(res[key]))
        for n, v in res[key].items():
            out += enc_str(n) + [v]
    out.append(len(res["structs"]))
    for s in res["structs"]:
        out += enc_str(s["name"])
    out.append(len(res["messages"]))
    for m in res["messages"]:
        out += enc_str(m["name"]) + [m["type_id"]]
    return out


REG_HEADER = """From Coq Require Import ZArith List Bool String.
From Defs Require Import Gen.TypeTables Gen.Guards Model.Registry.
Import ListNotations. Open Scope string_scope. Open Scope list_scope. Open Scope Z_scope.
Fixpoint zl_eqb (a b : list Z) : bool :=
  match a, b with [], [] => true | x :: r, y :: s => (x =? y) && zl_eqb r s | _, _ => false end.
Definition check_case (c : (bool * list file * list nat) * list Z) : bool :=
  let '((icd, G, roots), exp) := c in zl_eqb (observe (parse G icd roots)) exp.
"""


def regen_cone(chk, needed) -> bool:
    """regenerate coq/defs/Gen; a translator that fails closed is a broken obligation when the file it
    writes is in this property's cone (`needed`), and a note otherwise.  The caller goes on to run
    the implementation against the spec oracle either way (failing-input search, DESIGN 2.3)."""
    from . import gen_defs
    ok = True
    for f, e in gen_defs.regen():
        if f in needed:
            chk.broken_obligation(f"translator failed closed for Gen/{f}", e)
            ok = False
        else:
            chk.note(f"(not in this property's cone) translator failed closed for Gen/{f}: {e[:160]}")
    return ok
