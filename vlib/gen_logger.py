"""Regenerate coq/logger/Gen/LoggerConsts.v from /repo (write-if-changed, fail-closed Python-ast reader).

Translated (data only): DataCollection.WRITE_PERIOD, DataSet.MIN_INTERVAL / MAX_INTERVAL / CONTINUOUS,
core_defs.ALL_MESSAGE_TYPES, the field list of header.MessageHeader (-> header size, offset of
num_data_bytes), the field list of quicklogger_reader.QLFileHeader (-> field order) and the constants
QLFormatter.__init__ stores into the file header.

Hand-off shape (the protocol Model/LoggerFixed.v models; any other shape fails closed):
  __init__      : exactly one `self.write_finished.set()`, after both Events are created and before the thread starts
  update()      : the only event test is `if not self.write_finished.is_set(): <warning> else: next_write = ..; trigger_write()`
  stop()        : first statement after logging is `while not self.write_finished.wait(..): pass`; no other event operation
  trigger_write : `for ds: ds.stage_for_write()`, then `write_finished.clear()`, then `write_to_disk.set()`
  write()       : `while not self._close: if self.write_to_disk.wait(..): for ds: ds.write(); write_to_disk.clear();
                  write_finished.set()` - clear strictly before set, set last."""
from __future__ import annotations

import ast
from typing import List, Tuple

from .framework import COQ, write_if_changed
from .translate.pyast import TranslateError, load, find_class, find_func, module_assign, dotted

VALIDATOR_SIZE = {"Int8": 1, "Uint8": 1, "Int16": 2, "Uint16": 2, "Int32": 4, "Uint32": 4, "Int64": 8, "Uint64": 8,
                  "Float": 4, "Double": 8}
QL_CODES = {"format_version": 0, "total_bytes": 1, "num_messages": 2, "message_header_size": 3,
            "data_block_offset_size": 4, "num_data_bytes": 5}


def _class_const(cls: ast.ClassDef, name: str) -> ast.expr:
    hits = []
    for n in cls.body:
        if isinstance(n, ast.Assign) and len(n.targets) == 1 and isinstance(n.targets[0], ast.Name) and n.targets[0].id == name:
            hits.append(n.value)
        if isinstance(n, ast.AnnAssign) and isinstance(n.target, ast.Name) and n.target.id == name and n.value is not None:
            hits.append(n.value)
    if len(hits) != 1:
        raise TranslateError(f"{cls.name}.{name}: found {len(hits)} assignments")
    return hits[0]


def _int_const(e: ast.expr, what: str) -> int:
    if isinstance(e, ast.Constant) and isinstance(e.value, (int, float)) and not isinstance(e.value, bool):
        v = e.value
        if float(v) != int(v):
            raise TranslateError(f"{what}: non-integral value {v!r} (the model's clock is integral)")
        return int(v)
    raise TranslateError(f"{what}: not a numeric literal: {ast.dump(e)}")


def _fields(cls: ast.ClassDef) -> List[Tuple[str, int]]:
    """[(name, size)] of the descriptor fields `name: T = T()` of a MessageBase class, in order"""
    out = []
    for n in cls.body:
        if isinstance(n, ast.Expr) and isinstance(n.value, ast.Constant) and isinstance(n.value.value, str):
            continue  # docstring
        if isinstance(n, ast.FunctionDef):
            continue  # properties do not add ctypes fields
        if isinstance(n, ast.AnnAssign) and isinstance(n.target, ast.Name) and isinstance(n.value, ast.Call) \
                and isinstance(n.value.func, ast.Name) and not n.value.args and not n.value.keywords \
                and isinstance(n.annotation, ast.Name) and n.annotation.id == n.value.func.id:
            t = n.value.func.id
            if t not in VALIDATOR_SIZE:
                raise TranslateError(f"{cls.name}.{n.target.id}: unknown validator {t}")
            out.append((n.target.id, VALIDATOR_SIZE[t]))
            continue
        raise TranslateError(f"{cls.name}: unexpected class-body node {ast.dump(n)[:120]}")
    return out


EVENTS = ("write_to_disk", "write_finished")


def _u(n: ast.AST) -> str:
    return ast.unparse(n).strip()


def _event_ops(fn: ast.AST) -> List[str]:
    """every `self.<event>.<op>(...)` call inside fn, in source order, as 'event.op'"""
    out = []
    for n in ast.walk(fn):
        if isinstance(n, ast.Call) and isinstance(n.func, ast.Attribute) and isinstance(n.func.value, ast.Attribute) \
                and isinstance(n.func.value.value, ast.Name) and n.func.value.value.id == "self" \
                and n.func.value.attr in EVENTS:
            out.append((n.lineno, n.col_offset, f"{n.func.value.attr}.{n.func.attr}"))
    return [x[2] for x in sorted(out)]


def _no_logging(body: List[ast.stmt]) -> List[ast.stmt]:
    """drop docstrings and self.logger.<level>(...) statements"""
    out = []
    for st in body:
        if isinstance(st, ast.Expr) and isinstance(st.value, ast.Constant) and isinstance(st.value.value, str):
            continue
        if isinstance(st, ast.Expr) and isinstance(st.value, ast.Call) and _u(st.value.func).startswith("self.logger."):
            continue
        out.append(st)
    return out


def handoff_shape(dc: ast.Module) -> None:
    """raise TranslateError unless DataCollection has exactly the hand-off shape described in the module docstring"""
    cls = find_class(dc, "DataCollection")

    # __init__
    init = find_func(cls, "__init__")
    body = [_u(st) for st in init.body]
    want = ["self.write_to_disk = threading.Event()", "self.write_finished = threading.Event()", "self.write_finished.set()"]
    pos = []
    for w in want:
        hits = [i for i, b in enumerate(body) if b == w]
        if len(hits) != 1:
            raise TranslateError(f"__init__: expected exactly one top-level statement `{w}`, found {len(hits)}")
        pos.append(hits[0])
    if not (pos[0] < pos[2] and pos[1] < pos[2]):
        raise TranslateError("__init__: write_finished.set() does not follow the creation of the events")
    thr = [i for i, st in enumerate(init.body) if "self.write_thread.start()" in _u(st)]
    if len(thr) != 1 or thr[0] < pos[2]:
        raise TranslateError("__init__: write_finished.set() must precede the (single) start of the writer thread")
    if _event_ops(init) != ["write_finished.set"]:
        raise TranslateError(f"__init__: unexpected event operations {_event_ops(init)}")

    # update(): the gate
    upd = find_func(cls, "update")
    if _event_ops(upd) != ["write_finished.is_set"]:
        raise TranslateError(f"update(): event operations are {_event_ops(upd)}, expected only write_finished.is_set")
    last = upd.body[-1]
    if not (isinstance(last, ast.If) and _u(last.test) == "write" and len(last.body) == 1 and not last.orelse):
        raise TranslateError("update(): last statement is not `if write: <gate>`")
    gate = last.body[0]
    if not (isinstance(gate, ast.If) and _u(gate.test) == "not self.write_finished.is_set()"):
        raise TranslateError("update(): gate is not `if not self.write_finished.is_set()`")
    if _no_logging(gate.body):
        raise TranslateError("update(): the busy branch does more than log a warning")
    els = [_u(st) for st in _no_logging(gate.orelse)]
    if els != ["self.next_write = elapsed + DataCollection.WRITE_PERIOD", "self.trigger_write()"]:
        raise TranslateError(f"update(): idle branch is {els}")

    # stop(): unconditional wait first, nothing else on the events
    stop = find_func(cls, "stop")
    sb = _no_logging(stop.body)
    if not sb or not (isinstance(sb[0], ast.While) and not sb[0].orelse
                      and isinstance(sb[0].test, ast.UnaryOp) and isinstance(sb[0].test.op, ast.Not)
                      and isinstance(sb[0].test.operand, ast.Call)
                      and _u(sb[0].test.operand.func) == "self.write_finished.wait"
                      and len(sb[0].body) == 1 and isinstance(sb[0].body[0], ast.Pass)):
        raise TranslateError("stop(): first statement is not `while not self.write_finished.wait(..): pass`")
    if _event_ops(stop) != ["write_finished.wait"]:
        raise TranslateError(f"stop(): event operations are {_event_ops(stop)}, expected only the wait")
    if len(sb) < 2 or not (isinstance(sb[1], ast.For) and _u(sb[1].iter) == "self.datasets"
                           and [_u(x) for x in sb[1].body] == ["ds.collection_stopped = True", "ds.stop()", "ds.close()"]):
        raise TranslateError("stop(): the data-set loop is not `collection_stopped = True; ds.stop(); ds.close()`")

    # trigger_write(): stage all, clear finished, set to_disk
    tw = find_func(cls, "trigger_write")
    tb = _no_logging(tw.body)
    if len(tb) < 3 or not (isinstance(tb[0], ast.For) and _u(tb[0].iter) == "self.datasets"
                           and [_u(x) for x in tb[0].body] == ["ds.stage_for_write()"]):
        raise TranslateError("trigger_write(): does not start with `for ds in self.datasets: ds.stage_for_write()`")
    if [_u(tb[1]), _u(tb[2])] != ["self.write_finished.clear()", "self.write_to_disk.set()"]:
        raise TranslateError("trigger_write(): not `write_finished.clear(); write_to_disk.set()` after staging")
    if _event_ops(tw) != ["write_finished.clear", "write_to_disk.set"]:
        raise TranslateError(f"trigger_write(): event operations are {_event_ops(tw)}")

    # write(): the writer loop
    wr = find_func(cls, "write")
    wb = _no_logging(wr.body)
    if len(wb) != 1 or not isinstance(wb[0], ast.Try):
        raise TranslateError("write(): body is not a single try statement")
    tryb = wb[0].body
    if len(tryb) != 1 or not (isinstance(tryb[0], ast.While) and _u(tryb[0].test) == "not self._close"):
        raise TranslateError("write(): not `while not self._close:`")
    lb = tryb[0].body
    if len(lb) != 1 or not (isinstance(lb[0], ast.If) and not lb[0].orelse and isinstance(lb[0].test, ast.Call)
                            and _u(lb[0].test.func) == "self.write_to_disk.wait"):
        raise TranslateError("write(): loop body is not `if self.write_to_disk.wait(..):`")
    ib = lb[0].body
    if len(ib) != 3 or not (isinstance(ib[0], ast.For) and _u(ib[0].iter) == "self.datasets"
                            and [_u(x) for x in ib[0].body] == ["ds.write()"]) \
            or [_u(ib[1]), _u(ib[2])] != ["self.write_to_disk.clear()", "self.write_finished.set()"]:
        raise TranslateError("write(): round is not `for ds: ds.write(); write_to_disk.clear(); write_finished.set()`")
    if _event_ops(wr) != ["write_to_disk.wait", "write_to_disk.clear", "write_finished.set"]:
        raise TranslateError(f"write(): event operations are {_event_ops(wr)}")

    # nobody else touches the events (pause/resume/start/close/add/rm): only blocking_write (use_thread=False, out of scope)
    for fn in cls.body:
        if isinstance(fn, ast.FunctionDef) and fn.name not in ("__init__", "update", "stop", "trigger_write", "write",
                                                                "blocking_write") and _event_ops(fn):
            raise TranslateError(f"{fn.name}(): unexpected event operations {_event_ops(fn)}")


def render() -> str:
    dc = load("data_logger/data_collection.py")
    ds = load("data_logger/data_set.py")
    cd = load("core_defs.py")
    hd = load("header.py")
    qr = load("utils/quicklogger_reader.py")
    qf = load("data_logger/formatters/quicklogger.py")

    handoff_shape(dc)
    wp = _int_const(_class_const(find_class(dc, "DataCollection"), "WRITE_PERIOD"), "WRITE_PERIOD")
    dsc = find_class(ds, "DataSet")
    mn = _int_const(_class_const(dsc, "MIN_INTERVAL"), "MIN_INTERVAL")
    mx = _int_const(_class_const(dsc, "MAX_INTERVAL"), "MAX_INTERVAL")
    cont = _class_const(dsc, "CONTINUOUS")
    if not (isinstance(cont, ast.Attribute) and dotted(cont) == "math.inf"):
        raise TranslateError("DataSet.CONTINUOUS is not math.inf")
    allmt = _int_const(module_assign(cd, "ALL_MESSAGE_TYPES"), "ALL_MESSAGE_TYPES")

    hf = _fields(find_class(hd, "MessageHeader"))
    off = 0
    offs = {}
    for name, sz in hf:
        if off % sz != 0:
            raise TranslateError(f"MessageHeader.{name}: not naturally aligned at {off} (layout model assumes no hidden padding)")
        offs[name] = off
        off += sz
    if "num_data_bytes" not in offs or "msg_count" not in offs or "msg_type" not in offs:
        raise TranslateError("MessageHeader lacks msg_type / msg_count / num_data_bytes")
    if dict(hf)["num_data_bytes"] != 4:
        raise TranslateError("num_data_bytes is not 4 bytes wide")

    ql = _fields(find_class(qr, "QLFileHeader"))
    for name, sz in ql:
        if sz != 4 or name not in QL_CODES:
            raise TranslateError(f"QLFileHeader.{name}: unexpected field")
    order = [QL_CODES[n] for n, _ in ql]

    init = find_func(qf, "__init__", cls="QLFormatter")
    stored = {}
    for n in ast.walk(init):
        if isinstance(n, ast.Assign) and len(n.targets) == 1 and isinstance(n.targets[0], ast.Attribute):
            try:
                d = dotted(n.targets[0])
            except TranslateError:
                continue
            if d.startswith("self.ql_header.") and isinstance(n.value, ast.Constant):
                stored[d.split(".")[-1]] = _int_const(n.value, d)
    for k in ("format_version", "num_messages", "data_block_offset_size"):
        if k not in stored:
            raise TranslateError(f"QLFormatter.__init__ does not store a literal into ql_header.{k}")

    L = ["(* GENERATED by vlib/gen_logger.py from /repo - do not edit *)",
         "From Coq Require Import ZArith List.", "Import ListNotations.", "Open Scope Z_scope.",
         f"Definition gen_write_period : Z := {wp}.",
         f"Definition gen_min_interval : Z := {mn}.",
         f"Definition gen_max_interval : Z := {mx}.",
         f"Definition gen_all_message_types : Z := {allmt}.",
         f"Definition gen_hdr_size : Z := {off}.",
         f"Definition gen_hdr_ndb_off : Z := {offs['num_data_bytes']}.",
         f"Definition gen_hdr_count_off : Z := {offs['msg_count']}.",
         f"Definition gen_hdr_type_off : Z := {offs['msg_type']}.",
         "(* QLFileHeader field order; codes: 0 format_version, 1 total_bytes, 2 num_messages, 3 message_header_size,",
         "   4 data_block_offset_size, 5 num_data_bytes *)",
         "Definition gen_ql_order : list Z := [" + "; ".join(map(str, order)) + "].",
         f"Definition gen_ql_format_version : Z := {stored['format_version']}.",
         f"Definition gen_ql_offset_size : Z := {stored['data_block_offset_size']}.",
         f"Definition gen_ql_init_messages : Z := {stored['num_messages']}.",
         "(* hand-off shape of DataCollection, located structurally by handoff_shape(); the translator refuses to emit",
         "   this file (fails closed) when any of them does not hold *)",
         "Definition gen_handoff_init_sets_write_finished : bool := true.",
         "Definition gen_handoff_update_gates_on_write_finished : bool := true.",
         "Definition gen_handoff_stop_waits_unconditionally : bool := true.",
         "Definition gen_handoff_stop_clears_nothing : bool := true.",
         "Definition gen_handoff_writer_clear_then_set : bool := true.",
         "Definition gen_handoff_trigger_stage_clear_set : bool := true.",
         ""]
    return "\n".join(L)


def regen():
    """returns list of (file, error) for translators that failed closed"""
    errs = []
    d = COQ / "logger" / "Gen"
    d.mkdir(parents=True, exist_ok=True)
    try:
        write_if_changed(d / "LoggerConsts.v", render())
    except Exception as e:  # TranslateError or anything else: fail closed
        errs.append(("LoggerConsts.v", f"{type(e).__name__}: {e}"))
    return errs
