"""Regenerate coq/logger/Gen/LoggerConsts.v from /repo (write-if-changed, fail-closed Python-ast reader).

Translated (data only): DataCollection.WRITE_PERIOD, DataSet.MIN_INTERVAL / MAX_INTERVAL / CONTINUOUS,
core_defs.ALL_MESSAGE_TYPES, the field list of header.MessageHeader (-> header size, offset of
num_data_bytes), the field list of quicklogger_reader.QLFileHeader (-> field order) and the constants
QLFormatter.__init__ stores into the file header."""
from __future__ import annotations

import ast
from typing import List, Tuple

from .framework import COQ, write_if_changed
from .translate.pyast import TranslateError, load, find_class, find_func, module_assign, dotted

VALIDATOR_SIZE = {"Int8": 1, "Uint8": 1, "Int16": 2, "Uint16": 2, "Int32": 4, "Uint32": 4, "Int64": 8, "Uint64": 8,
                  "Float": 4, "Double": 8}
QL_CODES = {"format_version": 0, "total_bytes": 1, "num_messages": 2, "message_header_size": 3,
            "data_block_offset_size": 4, "num_data_bytes": 5}


def _class_const(cls: ast.ClassDef, name: str) -> ast.expr:
    hits = []
    for n in cls.body:
        if isinstance(n, ast.Assign) and len(n.targets) == 1 and isinstance(n.targets[0], ast.Name) and n.targets[0].id == name:
            hits.append(n.value)
        if isinstance(n, ast.AnnAssign) and isinstance(n.target, ast.Name) and n.target.id == name and n.value is not None:
            hits.append(n.value)
    if len(hits) != 1:
        raise TranslateError(f"{cls.name}.{name}: found {len(hits)} assignments")
    return hits[0]


def _int_const(e: ast.expr, what: str) -> int:
    if isinstance(e, ast.Constant) and isinstance(e.value, (int, float)) and not isinstance(e.value, bool):
        v = e.value
        if float(v) != int(v):
            raise TranslateError(f"{what}: non-integral value {v!r} (the model's clock is integral)")
        return int(v)
    raise TranslateError(f"{what}: not a numeric literal: {ast.dump(e)}")


def _fields(cls: ast.ClassDef) -> List[Tuple[str, int]]:
    """[(name, size)] of the descriptor fields `name: T = T()` of a MessageBase class, in order"""
    out = []
    for n in cls.body:
        if isinstance(n, ast.Expr) and isinstance(n.value, ast.Constant) and isinstance(n.value.value, str):
            continue  # docstring
        if isinstance(n, ast.FunctionDef):
            continue  # properties do not add ctypes fields
        if isinstance(n, ast.AnnAssign) and isinstance(n.target, ast.Name) and isinstance(n.value, ast.Call) \
                and isinstance(n.value.func, ast.Name) and not n.value.args and not n.value.keywords \
                and isinstance(n.annotation, ast.Name) and n.annotation.id == n.value.func.id:
            t = n.value.func.id
            if t not in VALIDATOR_SIZE:
                raise TranslateError(f"{cls.name}.{n.target.id}: unknown validator {t}")
            out.append((n.target.id, VALIDATOR_SIZE[t]))
            continue
        raise TranslateError(f"{cls.name}: unexpected class-body node {ast.dump(n)[:120]}")
    return out


def render() -> str:
    dc = load("data_logger/data_collection.py")
    ds = load("data_logger/data_set.py")
    cd = load("core_defs.py")
    hd = load("header.py")
    qr = load("utils/quicklogger_reader.py")
    qf = load("data_logger/formatters/quicklogger.py")

    wp = _int_const(_class_const(find_class(dc, "DataCollection"), "WRITE_PERIOD"), "WRITE_PERIOD")
    dsc = find_class(ds, "DataSet")
    mn = _int_const(_class_const(dsc, "MIN_INTERVAL"), "MIN_INTERVAL")
    mx = _int_const(_class_const(dsc, "MAX_INTERVAL"), "MAX_INTERVAL")
    cont = _class_const(dsc, "CONTINUOUS")
    if not (isinstance(cont, ast.Attribute) and dotted(cont) == "math.inf"):
        raise TranslateError("DataSet.CONTINUOUS is not math.inf")
    allmt = _int_const(module_assign(cd, "ALL_MESSAGE_TYPES"), "ALL_MESSAGE_TYPES")

    hf = _fields(find_class(hd, "MessageHeader"))
    off = 0
    offs = {}
    for name, sz in hf:
        if off % sz != 0:
            raise TranslateError(f"MessageHeader.{name}: not naturally aligned at {off} (layout model assumes no hidden padding)")
        offs[name] = off
        off += sz
    if "num_data_bytes" not in offs or "msg_count" not in offs or "msg_type" not in offs:
        raise TranslateError("MessageHeader lacks msg_type / msg_count / num_data_bytes")
    if dict(hf)["num_data_bytes"] != 4:
        raise TranslateError("num_data_bytes is not 4 bytes wide")

    ql = _fields(find_class(qr, "QLFileHeader"))
    for name, sz in ql:
        if sz != 4 or name not in QL_CODES:
            raise TranslateError(f"QLFileHeader.{name}: unexpected field")
    order = [QL_CODES[n] for n, _ in ql]

    init = find_func(qf, "__init__", cls="QLFormatter")
    stored = {}
    for n in ast.walk(init):
        if isinstance(n, ast.Assign) and len(n.targets) == 1 and isinstance(n.targets[0], ast.Attribute):
            try:
                d = dotted(n.targets[0])
            except TranslateError:
                continue
            if d.startswith("self.ql_header.") and isinstance(n.value, ast.Constant):
                stored[d.split(".")[-1]] = _int_const(n.value, d)
    for k in ("format_version", "num_messages", "data_block_offset_size"):
        if k not in stored:
            raise TranslateError(f"QLFormatter.__init__ does not store a literal into ql_header.{k}")

    L = ["(* GENERATED by vlib/gen_logger.py from /repo - do not edit *)",
         "From Coq Require Import ZArith List.", "Import ListNotations.", "Open Scope Z_scope.",
         f"Definition gen_write_period : Z := {wp}.",
         f"Definition gen_min_interval : Z := {mn}.",
         f"Definition gen_max_interval : Z := {mx}.",
         f"Definition gen_all_message_types : Z := {allmt}.",
         f"Definition gen_hdr_size : Z := {off}.",
         f"Definition gen_hdr_ndb_off : Z := {offs['num_data_bytes']}.",
         f"Definition gen_hdr_count_off : Z := {offs['msg_count']}.",
         f"Definition gen_hdr_type_off : Z := {offs['msg_type']}.",
         "(* QLFileHeader field order; codes: 0 format_version, 1 total_bytes, 2 num_messages, 3 message_header_size,",
         "   4 data_block_offset_size, 5 num_data_bytes *)",
         "Definition gen_ql_order : list Z := [" + "; ".join(map(str, order)) + "].",
         f"Definition gen_ql_format_version : Z := {stored['format_version']}.",
         f"Definition gen_ql_offset_size : Z := {stored['data_block_offset_size']}.",
         f"Definition gen_ql_init_messages : Z := {stored['num_messages']}.",
         ""]
    return "\n".join(L)


def regen():
    """returns list of (file, error) for translators that failed closed"""
    errs = []
    d = COQ / "logger" / "Gen"
    d.mkdir(parents=True, exist_ok=True)
    try:
        write_if_changed(d / "LoggerConsts.v", render())
    except Exception as e:  # TranslateError or anything else: fail closed
        errs.append(("LoggerConsts.v", f"{type(e).__name__}: {e}"))
    return errs
